(* TxnModifyProofs.v — proofs about A/TxnModify.v (C28). *)
From Coq Require Import ZifyN ZifyNat ZifyBool.
From Verif Require Import Bytes BytesProofs Keys Consts TxnModify.
Open Scope Z_scope.

(* ------------------------------------------------------------------ *)
(* rejection leaves the transaction unchanged                          *)

(* ------------------------------------------------------------------ *)
(* declarative rejection conditions, in the code's precedence order    *)

Definition active (t : txn) : Prop := t_update t = true /\ t_discarded t = false.

Definition key_ok (e : entry) : Prop :=
  e_key e <> [] /\ (forall r, e_key e <> c_badgerPrefix ++ r) /\ zlen (e_key e) <= 65000.

Definition val_ok (d : dbcfg) (thr : Z) (e : entry) : Prop :=
  zlen (e_val e) <= d_vlog_file_size d /\ (d_in_memory d = true -> zlen (e_val e) <= thr).

Definition fits (d : dbcfg) (thr : Z) (t : txn) (e : entry) : Prop :=
  t_count t + 1 < d_max_batch_count d /\ t_size t + fst (estimate e thr) + 10 < d_max_batch_size d.

Inductive rejects (d : dbcfg) (thr : Z) (t : txn) (e : entry) (kcap vcap : nat) : merr -> Prop :=
| R_readonly : t_update t = false -> rejects d thr t e kcap vcap ErrReadOnlyTxn
| R_discarded : t_update t = true -> t_discarded t = true -> rejects d thr t e kcap vcap ErrDiscardedTxn
| R_empty : active t -> e_key e = [] -> rejects d thr t e kcap vcap ErrEmptyKey
| R_prefix : active t -> (exists r, e_key e = c_badgerPrefix ++ r) ->
    rejects d thr t e kcap vcap ErrInvalidKey
| R_keysize : active t -> (forall r, e_key e <> c_badgerPrefix ++ r) -> 65000 < zlen (e_key e) ->
    rejects d thr t e kcap vcap ErrKeySize
| R_valsize : active t -> key_ok e -> d_vlog_file_size d < zlen (e_val e) ->
    rejects d thr t e kcap vcap (exceeds_size (Nat.max (length (e_val e)) vcap) ErrValueSize)
| R_valmem : active t -> key_ok e -> zlen (e_val e) <= d_vlog_file_size d ->
    d_in_memory d = true -> thr < zlen (e_val e) ->
    rejects d thr t e kcap vcap (exceeds_size (Nat.max (length (e_val e)) vcap) ErrValueSizeMem)
| R_banned err : active t -> key_ok e -> val_ok d thr e -> is_banned d (e_key e) = Some err ->
    rejects d thr t e kcap vcap err
| R_toobig : active t -> key_ok e -> val_ok d thr e -> is_banned d (e_key e) = None ->
    ~ fits d thr t e -> rejects d thr t e kcap vcap ErrTxnTooBig.

Lemma is_prefix_false p l : is_prefix p l = false <-> forall r, l <> p ++ r.
Proof.
  split.
  - intros H r ->. rewrite is_prefix_app in H. discriminate.
  - intros H. destruct (is_prefix p l) eqn:E; [|reflexivity].
    apply is_prefix_spec in E. destruct E as [r ->]. exfalso. apply (H r). reflexivity.
Qed.

Lemma exceeds_size_big cap e : (1024 <= cap)%nat -> exceeds_size cap e = e.
Proof. intros H. unfold exceeds_size. destruct (Nat.ltb_spec cap 1024); [lia|reflexivity]. Qed.

Lemma maxKeySize_val : Z.of_N c_maxKeySize = 65000.
Proof. reflexivity. Qed.

(* the result of modify, by cases *)
Lemma modify_cases d thr t e kc vc :
  (exists err, modify d thr t e kc vc = (t, Some err) /\ rejects d thr t e kc vc err) \/
  (active t /\ key_ok e /\ val_ok d thr e /\ is_banned d (e_key e) = None /\ fits d thr t e /\
   exists t', modify d thr t e kc vc = (t', None)).
Proof.
  unfold modify.
  destruct (t_update t) eqn:Hu; cbn [negb].
  2:{ left. eexists. split; [reflexivity|]. apply R_readonly. exact Hu. }
  destruct (t_discarded t) eqn:Hd.
  { left. eexists. split; [reflexivity|]. apply R_discarded; assumption. }
  assert (Hact : active t) by (split; assumption).
  destruct (Nat.eqb_spec (length (e_key e)) 0) as [Hk0|Hk0].
  { left. eexists. split; [reflexivity|]. apply R_empty; [assumption|].
    destruct (e_key e); [reflexivity|discriminate]. }
  destruct (is_prefix c_badgerPrefix (e_key e)) eqn:Hp.
  { left. eexists. split; [reflexivity|]. apply R_prefix; [assumption|].
    apply is_prefix_spec. exact Hp. }
  pose proof (proj1 (is_prefix_false _ _) Hp) as Hp'. clear Hp. rename Hp' into Hp.
  rewrite maxKeySize_val.
  destruct (Z.ltb_spec 65000 (zlen (e_key e))) as [Hks|Hks].
  { left. eexists. split; [reflexivity|].
    rewrite exceeds_size_big by (unfold zlen in Hks; lia).
    apply R_keysize; assumption. }
  assert (Hkok : key_ok e).
  { split; [|split; assumption]. intros E. rewrite E in Hk0. apply Hk0. reflexivity. }
  destruct (Z.ltb_spec (d_vlog_file_size d) (zlen (e_val e))) as [Hvs|Hvs].
  { left. eexists. split; [reflexivity|]. apply R_valsize; assumption. }
  destruct (d_in_memory d) eqn:Him; cbn [andb].
  - destruct (Z.ltb_spec thr (zlen (e_val e))) as [Hvm|Hvm].
    { left. eexists. split; [reflexivity|]. apply R_valmem; assumption. }
    assert (Hvok : val_ok d thr e) by (split; [assumption|intros _; assumption]).
    destruct (is_banned d (e_key e)) as [err|] eqn:Hb.
    { left. eexists. split; [reflexivity|]. apply R_banned; assumption. }
    unfold check_size. destruct (estimate e thr) as [est e'] eqn:Hest.
    destruct (Z.geb_spec (t_count t + 1) (d_max_batch_count d)) as [Hc|Hc]; cbn [orb].
    { left. eexists. split; [reflexivity|]. apply R_toobig; try assumption.
      unfold fits. rewrite Hest. cbn [fst]. lia. }
    destruct (Z.geb_spec (t_size t + est + 10) (d_max_batch_size d)) as [Hs|Hs].
    { left. eexists. split; [reflexivity|]. apply R_toobig; try assumption.
      unfold fits. rewrite Hest. cbn [fst]. lia. }
    right. refine (conj Hact (conj Hkok (conj Hvok (conj eq_refl (conj _ (ex_intro _ _ eq_refl)))))).
    unfold fits. rewrite Hest. cbn [fst]. lia.
  - assert (Hvok : val_ok d thr e) by (split; [assumption|intros H; rewrite Him in H; discriminate]).
    destruct (is_banned d (e_key e)) as [err|] eqn:Hb.
    { left. eexists. split; [reflexivity|]. apply R_banned; assumption. }
    unfold check_size. destruct (estimate e thr) as [est e'] eqn:Hest.
    destruct (Z.geb_spec (t_count t + 1) (d_max_batch_count d)) as [Hc|Hc]; cbn [orb].
    { left. eexists. split; [reflexivity|]. apply R_toobig; try assumption.
      unfold fits. rewrite Hest. cbn [fst]. lia. }
    destruct (Z.geb_spec (t_size t + est + 10) (d_max_batch_size d)) as [Hs|Hs].
    { left. eexists. split; [reflexivity|]. apply R_toobig; try assumption.
      unfold fits. rewrite Hest. cbn [fst]. lia. }
    right. refine (conj Hact (conj Hkok (conj Hvok (conj eq_refl (conj _ (ex_intro _ _ eq_refl)))))).
    unfold fits. rewrite Hest. cbn [fst]. lia.
Qed.

Lemma modify_reject_unchanged d thr t e kc vc t' err :
  modify d thr t e kc vc = (t', Some err) -> t' = t.
Proof.
  intros H.
  destruct (modify_cases d thr t e kc vc) as [[err' [Hm R]]|[_ [_ [_ [_ [_ [t'' Hm]]]]]]];
    rewrite Hm in H; inversion H; reflexivity.
Qed.

(* the rejection classes are mutually exclusive and exclude acceptance *)
Lemma rejects_not_accept d thr t e kc vc err :
  rejects d thr t e kc vc err ->
  ~ (active t /\ key_ok e /\ val_ok d thr e /\ is_banned d (e_key e) = None /\ fits d thr t e).
Proof.
  intros R [[Hu Hd] [[Hk1 [Hk2 Hk3]] [[Hv1 Hv2] [Hb Hf]]]].
  inversion R as [Hu'|Hu' Hd'|_ Hk|_ [r Hr]|_ Hp Hl|_ _ Hv
                 |_ _ Hv Him Hm|err0 _ _ _ Hb'
                 |_ _ _ _ Hf']; subst.
  - congruence.
  - congruence.
  - congruence.
  - apply (Hk2 r). exact Hr.
  - lia.
  - lia.
  - specialize (Hv2 Him). lia.
  - congruence.
  - apply Hf'. exact Hf.
Qed.

Lemma modify_reject_sound d thr t e kc vc t' err :
  modify d thr t e kc vc = (t', Some err) -> t' = t /\ rejects d thr t e kc vc err.
Proof.
  intros H. pose proof (modify_reject_unchanged _ _ _ _ _ _ _ _ H) as ->. split; [reflexivity|].
  destruct (modify_cases d thr t e kc vc) as [[err' [Hm R]]|[_ [_ [_ [_ [_ [t'' Hm]]]]]]].
  - rewrite Hm in H. inversion H. subst. exact R.
  - rewrite Hm in H. discriminate.
Qed.

Lemma length_eqb0_false {A} (l : list A) : l <> [] -> (length l =? 0)%nat = false.
Proof. destruct l; [congruence|reflexivity]. Qed.

Lemma modify_reject_complete d thr t e kc vc err :
  rejects d thr t e kc vc err -> modify d thr t e kc vc = (t, Some err).
Proof.
  intros R. unfold modify. rewrite maxKeySize_val.
  inversion R as [Hu|Hu Hd|[Hu Hd] Hk|[Hu Hd] [r Hr]|[Hu Hd] Hp Hl|[Hu Hd] [Hk1 [Hk2 Hk3]] Hv
                 |[Hu Hd] [Hk1 [Hk2 Hk3]] Hv Him Hm|err0 [Hu Hd] [Hk1 [Hk2 Hk3]] [Hv1 Hv2] Hb
                 |[Hu Hd] [Hk1 [Hk2 Hk3]] [Hv1 Hv2] Hb Hf]; subst.
  - rewrite Hu. reflexivity.
  - rewrite Hu, Hd. reflexivity.
  - rewrite Hu, Hd, Hk. reflexivity.
  - rewrite Hu, Hd. cbn [negb].
    rewrite length_eqb0_false by (rewrite Hr; discriminate).
    rewrite Hr, is_prefix_app. reflexivity.
  - rewrite Hu, Hd. cbn [negb].
    rewrite length_eqb0_false by (intros E; rewrite E in Hl; cbn in Hl; lia).
    rewrite (proj2 (is_prefix_false _ _) Hp).
    destruct (Z.ltb_spec 65000 (zlen (e_key e))); [|lia].
    rewrite exceeds_size_big by (unfold zlen in Hl; lia). reflexivity.
  - rewrite Hu, Hd. cbn [negb]. rewrite length_eqb0_false by assumption.
    rewrite (proj2 (is_prefix_false _ _) Hk2).
    destruct (Z.ltb_spec 65000 (zlen (e_key e))); [lia|].
    destruct (Z.ltb_spec (d_vlog_file_size d) (zlen (e_val e))); [|lia]. reflexivity.
  - rewrite Hu, Hd. cbn [negb]. rewrite length_eqb0_false by assumption.
    rewrite (proj2 (is_prefix_false _ _) Hk2).
    destruct (Z.ltb_spec 65000 (zlen (e_key e))); [lia|].
    destruct (Z.ltb_spec (d_vlog_file_size d) (zlen (e_val e))); [lia|].
    rewrite Him. cbn [andb].
    destruct (Z.ltb_spec thr (zlen (e_val e))); [|lia]. reflexivity.
  - rewrite Hu, Hd. cbn [negb]. rewrite length_eqb0_false by assumption.
    rewrite (proj2 (is_prefix_false _ _) Hk2).
    destruct (Z.ltb_spec 65000 (zlen (e_key e))); [lia|].
    destruct (Z.ltb_spec (d_vlog_file_size d) (zlen (e_val e))); [lia|].
    destruct (d_in_memory d) eqn:Him; cbn [andb].
    + specialize (Hv2 eq_refl). destruct (Z.ltb_spec thr (zlen (e_val e))); [lia|].
      rewrite Hb. reflexivity.
    + rewrite Hb. reflexivity.
  - rewrite Hu, Hd. cbn [negb]. rewrite length_eqb0_false by assumption.
    rewrite (proj2 (is_prefix_false _ _) Hk2).
    destruct (Z.ltb_spec 65000 (zlen (e_key e))); [lia|].
    destruct (Z.ltb_spec (d_vlog_file_size d) (zlen (e_val e))); [lia|].
    assert (Hcs : check_size d thr t e = None).
    { unfold check_size. unfold fits in Hf. destruct (estimate e thr) as [est e'].
      cbn [fst] in Hf.
      destruct (Z.geb_spec (t_count t + 1) (d_max_batch_count d)); cbn [orb]; [reflexivity|].
      destruct (Z.geb_spec (t_size t + est + 10) (d_max_batch_size d)); [reflexivity|lia]. }
    destruct (d_in_memory d) eqn:Him; cbn [andb].
    + specialize (Hv2 eq_refl). destruct (Z.ltb_spec thr (zlen (e_val e))); [lia|].
      rewrite Hb, Hcs. reflexivity.
    + rewrite Hb, Hcs. reflexivity.
Qed.

(* ------------------------------------------------------------------ *)
(* the pending map                                                     *)

Lemma pending_get_set_same k e m : pending_get k (pending_set k e m) = Some e.
Proof.
  induction m as [|[k' e'] r IH]; cbn [pending_set pending_get].
  - rewrite bytes_eqb_refl. reflexivity.
  - destruct (bytes_eqb k' k) eqn:E; cbn [pending_get].
    + rewrite bytes_eqb_refl. reflexivity.
    + rewrite E. exact IH.
Qed.

Lemma pending_get_set_other k k2 e m : k2 <> k ->
  pending_get k2 (pending_set k e m) = pending_get k2 m.
Proof.
  intros Hne. induction m as [|[k' e'] r IH]; cbn [pending_set pending_get].
  - destruct (bytes_eqb k k2) eqn:E; [|reflexivity].
    apply bytes_eqb_eq in E. congruence.
  - destruct (bytes_eqb k' k) eqn:E; cbn [pending_get].
    + apply bytes_eqb_eq in E. subst k'.
      destruct (bytes_eqb k k2) eqn:E2; [|reflexivity].
      apply bytes_eqb_eq in E2. congruence.
    + rewrite IH. reflexivity.
Qed.

(* ------------------------------------------------------------------ *)
(* acceptance: every other key / value is accepted, stored and read back *)

Definition stored (e : entry) (thr : Z) : entry := set_thr e (eff_thr e thr).

Lemma estimate_snd e thr : snd (estimate e thr) = stored e thr.
Proof. reflexivity. Qed.

Lemma modify_accept d thr t e kc vc :
  active t -> key_ok e -> val_ok d thr e -> is_banned d (e_key e) = None -> fits d thr t e ->
  exists t', modify d thr t e kc vc = (t', None) /\
    pending_get (e_key e) (t_pending t') = Some (stored e thr) /\
    (forall k, k <> e_key e -> pending_get k (t_pending t') = pending_get k (t_pending t)) /\
    t_count t' = t_count t + 1 /\
    t_size t' = t_size t + fst (estimate e thr) + 10 /\
    t_update t' = true /\ t_discarded t' = false.
Proof.
  intros Ha Hk Hv Hb Hf.
  destruct (modify_cases d thr t e kc vc) as [[err [Hm R]]|[_ [_ [_ [_ [_ [t' Hm]]]]]]].
  { exfalso. eapply rejects_not_accept; [exact R|]. repeat split; try apply Ha; try apply Hk;
      try apply Hv; try assumption; apply Hf. }
  exists t'. split; [exact Hm|].
  revert Hm. unfold modify. rewrite maxKeySize_val.
  destruct Ha as [Hu Hd]. destruct Hk as [Hk1 [Hk2 Hk3]]. destruct Hv as [Hv1 Hv2].
  rewrite Hu, Hd. cbn [negb]. rewrite length_eqb0_false by assumption.
  rewrite (proj2 (is_prefix_false _ _) Hk2).
  destruct (Z.ltb_spec 65000 (zlen (e_key e))); [lia|].
  destruct (Z.ltb_spec (d_vlog_file_size d) (zlen (e_val e))); [lia|].
  assert (Hmem : d_in_memory d && (thr <? zlen (e_val e)) = false).
  { destruct (d_in_memory d); [|reflexivity]. specialize (Hv2 eq_refl).
    destruct (Z.ltb_spec thr (zlen (e_val e))); [lia|reflexivity]. }
  rewrite Hmem, Hb. unfold check_size.
  destruct Hf as [Hf1 Hf2].
  change (estimate e thr) with (fst (estimate e thr), stored e thr) in *.
  cbn [fst] in *.
  destruct (Z.geb_spec (t_count t + 1) (d_max_batch_count d)); [lia|]. cbn [orb].
  destruct (Z.geb_spec (t_size t + fst (estimate e thr) + 10) (d_max_batch_size d)); [lia|].
  intros Hm. inversion Hm. subst t'. cbn [t_pending t_count t_size t_update t_discarded].
  split; [apply pending_get_set_same|].
  split; [intros k Hne; apply pending_get_set_other; exact Hne|].
  repeat split; reflexivity.
Qed.

(* reads (Txn.Get) after an accepted write *)
Lemma txn_get_after_accept d thr t e kc vc t' now :
  modify d thr t e kc vc = (t', None) ->
  txn_get d t' (e_key e) now =
    (if deleted_or_expired (e_meta e) (e_expires e) now then GNotFound else GCached (stored e thr))
  /\ (forall k, k <> e_key e -> txn_get d t' k now = txn_get d t k now).
Proof.
  intros Hm.
  destruct (modify_cases d thr t e kc vc) as [[err [Hm' R]]|[Ha [Hk [Hv [Hb [Hf _]]]]]].
  { rewrite Hm' in Hm. discriminate. }
  destruct (modify_accept d thr t e kc vc Ha Hk Hv Hb Hf) as [t2 [Hm2 [Hg [Ho [_ [_ [Hu Hd]]]]]]].
  rewrite Hm2 in Hm. inversion Hm. subst t2.
  destruct Ha as [Hu0 Hd0]. destruct Hk as [Hk1 _].
  split.
  - unfold txn_get. rewrite length_eqb0_false by assumption. rewrite Hd, Hb, Hu, Hg. reflexivity.
  - intros k Hne. unfold txn_get. rewrite Hd, Hd0, Hu, Hu0, (Ho k Hne). reflexivity.
Qed.

(* ------------------------------------------------------------------ *)
(* banned namespaces                                                   *)

Lemma wrap64_small x : -9223372036854775808 <= x < 9223372036854775808 -> wrap64 x = x.
Proof. intros H. unfold wrap64. rewrite Z.mod_small by lia. lia. Qed.

Lemma is_banned_spec d key :
  d_ns_offset d < 9223372036854775800 ->
  is_banned d key =
    if (0 <=? d_ns_offset d) && (d_ns_offset d + 8 <? zlen key)
       && existsb (N.eqb (ns_of (d_ns_offset d) key)) (d_banned d)
    then Some ErrBannedKey else None.
Proof.
  intros Hoff. unfold is_banned.
  destruct (Z.ltb_spec (d_ns_offset d) 0) as [H0|H0].
  { destruct (Z.leb_spec 0 (d_ns_offset d)); [lia|reflexivity]. }
  destruct (Z.leb_spec 0 (d_ns_offset d)); [|lia]. cbn [andb].
  rewrite wrap64_small by lia.
  destruct (Z.leb_spec (zlen key) (d_ns_offset d + 8)) as [H1|H1].
  { destruct (Z.ltb_spec (d_ns_offset d + 8) (zlen key)); [lia|reflexivity]. }
  destruct (Z.ltb_spec (d_ns_offset d + 8) (zlen key)); [|lia]. cbn [andb].
  destruct (Z.ltb_spec (zlen key) (d_ns_offset d)); [lia|]. reflexivity.
Qed.

Lemma is_banned_negative d key : d_ns_offset d < 0 -> is_banned d key = None.
Proof. intros H. unfold is_banned. destruct (Z.ltb_spec (d_ns_offset d) 0); [reflexivity|lia]. Qed.

(* reads treat banned keys as inaccessible, writes reject them (when otherwise valid) *)
Lemma banned_read d t key now :
  key <> [] -> t_discarded t = false -> is_banned d key = Some ErrBannedKey ->
  txn_get d t key now = GErr ErrBannedKey.
Proof.
  intros Hk Hd Hb. unfold txn_get. rewrite length_eqb0_false by assumption. rewrite Hd, Hb. reflexivity.
Qed.

Lemma banned_write d thr t e kc vc :
  active t -> key_ok e -> val_ok d thr e -> is_banned d (e_key e) = Some ErrBannedKey ->
  modify d thr t e kc vc = (t, Some ErrBannedKey).
Proof.
  intros Ha Hk Hv Hb. apply modify_reject_complete. apply R_banned; assumption.
Qed.

(* ------------------------------------------------------------------ *)
(* size accounting: Txn.count / Txn.size versus sendToWriteCh          *)

Definition body (thr : Z) (e : entry) : Z :=
  if zlen (e_val e) <? thr then zlen (e_val e) + 2 else 14.

Lemma estimate_fst e thr : fst (estimate e thr) = zlen (e_key e) + body (eff_thr e thr) e.
Proof. unfold estimate, body. cbn [fst]. destruct (zlen (e_val e) <? eff_thr e thr); lia. Qed.

Lemma zlen_nonneg b : 0 <= zlen b.
Proof. unfold zlen. lia. Qed.

Lemma body_bounds thr e : 2 <= body thr e.
Proof. unfold body. pose proof (zlen_nonneg (e_val e)). destruct (zlen (e_val e) <? thr); lia. Qed.

(* what modify added to Txn.size for an entry now stored with its threshold cached *)
Definition costM (e : entry) : Z := zlen (e_key e) + body (e_thr e) e + 10.
Definition sumM (l : list entry) : Z := fold_right (fun e a => costM e + a) 0 l.
Definition entries (t : txn) : list entry := map snd (t_pending t) ++ t_dups t.

Lemma costM_nonneg e : 0 <= costM e.
Proof. unfold costM. pose proof (zlen_nonneg (e_key e)). pose proof (body_bounds (e_thr e) e). lia. Qed.

Lemma sumM_cons x l : sumM (x :: l) = costM x + sumM l.
Proof. reflexivity. Qed.
Lemma sumM_nil : sumM [] = 0.
Proof. reflexivity. Qed.

Lemma sumM_app a b : sumM (a ++ b) = sumM a + sumM b.
Proof.
  induction a as [|x a IH]; [rewrite sumM_nil; reflexivity|].
  rewrite <- app_comm_cons, !sumM_cons, IH. lia.
Qed.

Lemma sumM_nonneg l : 0 <= sumM l.
Proof. induction l as [|x l IH]; [rewrite sumM_nil; lia|]. rewrite sumM_cons. pose proof (costM_nonneg x). lia. Qed.

(* the commit-time threshold cannot raise the estimate of a stored entry *)
Definition thr_stable (thr_c : Z) (e : entry) : Prop :=
  e_thr e <> 0 \/ thr_c <= zlen (e_val e) \/ zlen (e_val e) <= 12.

Lemma body_commit_le thr_c e : thr_stable thr_c e -> body (eff_thr e thr_c) e <= body (e_thr e) e.
Proof.
  intros H. unfold eff_thr. destruct (Z.eqb_spec (e_thr e) 0) as [E|E]; [|lia].
  rewrite E. unfold body. pose proof (zlen_nonneg (e_val e)).
  destruct (Z.ltb_spec (zlen (e_val e)) 0); [lia|].
  destruct (Z.ltb_spec (zlen (e_val e)) thr_c); [|lia].
  destruct H as [H|[H|H]]; lia.
Qed.

Lemma pending_set_decomp k e m :
  (pending_get k m = None /\ pending_set k e m = m ++ [(k, e)]) \/
  (exists m1 old m2, pending_get k m = Some old /\ m = m1 ++ (k, old) :: m2 /\
                     pending_set k e m = m1 ++ (k, e) :: m2).
Proof.
  induction m as [|[k' e'] r IH]; cbn [pending_get pending_set].
  - left. split; reflexivity.
  - destruct (bytes_eqb k' k) eqn:E.
    + apply bytes_eqb_eq in E. subst k'. right. exists [], e', r. repeat split; reflexivity.
    + destruct IH as [[Hg Hs]|[m1 [old [m2 [Hg [Hm Hs]]]]]].
      * left. split; [exact Hg|]. rewrite Hs. reflexivity.
      * right. exists ((k', e') :: m1), old, m2. split; [exact Hg|]. split.
        -- rewrite Hm. reflexivity.
        -- rewrite Hs. reflexivity.
Qed.

Definition inv (d : dbcfg) (reserve thr_c : Z) (t : txn) : Prop :=
  1 + Z.of_nat (length (entries t)) <= t_count t /\
  reserve + sumM (entries t) <= t_size t /\
  Forall (thr_stable thr_c) (entries t) /\
  (t_pending t <> [] -> t_count t < d_max_batch_count d /\ t_size t < d_max_batch_size d).

Definition call_thr_ok (thr_c : Z) (c : call) : Prop :=
  eff_thr (c_entry c) (c_thr c) <> 0 \/ thr_c <= zlen (e_val (c_entry c))
  \/ zlen (e_val (c_entry c)) <= 12.

Lemma costM_stored e thr : costM (stored e thr) = fst (estimate e thr) + 10.
Proof. rewrite estimate_fst. unfold costM, stored, set_thr, body. cbn [e_key e_val e_thr]. reflexivity. Qed.

Lemma pending_set_nonempty k e m : pending_set k e m <> [].
Proof. destruct m as [|[k' e'] r]; cbn [pending_set]; [discriminate|]. destruct (bytes_eqb k' k); discriminate. Qed.

Lemma inv_modify d reserve thr_c thr t e kc vc :
  inv d reserve thr_c t -> call_thr_ok thr_c (mkCall thr e kc vc) ->
  inv d reserve thr_c (fst (modify d thr t e kc vc)).
Proof.
  intros [Hc [Hs [Hf Hl]]] Hcall.
  destruct (modify_cases d thr t e kc vc) as [[err [Hm R]]|[Ha [Hk [Hv [Hb [Hfit [t' Hm]]]]]]].
  { rewrite Hm. cbn [fst]. exact (conj Hc (conj Hs (conj Hf Hl))). }
  rewrite Hm. cbn [fst].
  (* recompute t' *)
  revert Hm. unfold modify. rewrite maxKeySize_val.
  destruct Ha as [Hu Hd]. destruct Hk as [Hk1 [Hk2 Hk3]]. destruct Hv as [Hv1 Hv2].
  rewrite Hu, Hd. cbn [negb]. rewrite length_eqb0_false by assumption.
  rewrite (proj2 (is_prefix_false _ _) Hk2).
  destruct (Z.ltb_spec 65000 (zlen (e_key e))); [lia|].
  destruct (Z.ltb_spec (d_vlog_file_size d) (zlen (e_val e))); [lia|].
  assert (Hmem : d_in_memory d && (thr <? zlen (e_val e)) = false).
  { destruct (d_in_memory d); [|reflexivity]. specialize (Hv2 eq_refl).
    destruct (Z.ltb_spec thr (zlen (e_val e))); [lia|reflexivity]. }
  rewrite Hmem, Hb. unfold check_size.
  destruct Hfit as [Hf1 Hf2].
  pose proof (costM_stored e thr) as Hcost.
  change (estimate e thr) with (fst (estimate e thr), stored e thr) in *.
  cbn [fst] in *.
  remember (fst (estimate e thr)) as est eqn:Hest.
  destruct (Z.geb_spec (t_count t + 1) (d_max_batch_count d)); [lia|]. cbn [orb].
  destruct (Z.geb_spec (t_size t + est + 10) (d_max_batch_size d)); [lia|].
  intros Hm. inversion Hm. subst t'. clear Hm.
  assert (Hst : thr_stable thr_c (stored e thr)).
  { unfold call_thr_ok in Hcall. cbn [c_entry c_thr] in Hcall.
    unfold thr_stable, stored, set_thr. cbn [e_thr e_val]. exact Hcall. }
  unfold inv, entries in *. cbn [t_pending t_dups t_count t_size].
  destruct (pending_set_decomp (e_key e) (stored e thr) (t_pending t))
    as [[Hg Hset]|[m1 [old [m2 [Hg [Hmm Hset]]]]]]; rewrite Hg, Hset.
  - (* new key *)
    rewrite map_app. cbn [map snd].
    rewrite !app_length in *. rewrite !sumM_app in *. rewrite sumM_cons, sumM_nil. cbn [length].
    split; [lia|]. split; [lia|]. split.
    + apply Forall_app in Hf. destruct Hf as [Hfa Hfb].
      apply Forall_app. split; [|exact Hfb].
      apply Forall_app. split; [exact Hfa|]. constructor; [exact Hst|constructor].
    + intros _. lia.
  - (* overwrite: the old entry moves to duplicateWrites iff its version differs *)
    rewrite Hmm in *. rewrite !map_app in *. cbn [map snd] in *.
    apply Forall_app in Hf. destruct Hf as [Hfa Hfb].
    apply Forall_app in Hfa. destruct Hfa as [Hf1' Hf2'].
    inversion Hf2' as [|x l Hold Hf3]. subst x l.
    pose proof (costM_nonneg old) as Hcold.
    rewrite !app_length in *. cbn [length] in *. rewrite !sumM_app in *.
    rewrite !sumM_cons in *.
    match goal with |- context [if ?c then _ else _] => destruct c end.
    + rewrite app_length, sumM_app, sumM_cons, sumM_nil. cbn [length].
      split; [lia|]. split; [lia|]. split.
      * apply Forall_app. split.
        -- apply Forall_app. split; [exact Hf1'|]. constructor; [exact Hst|exact Hf3].
        -- apply Forall_app. split; [exact Hfb|]. constructor; [exact Hold|constructor].
      * intros _. lia.
    + split; [lia|]. split; [lia|]. split.
      * apply Forall_app. split; [|exact Hfb].
        apply Forall_app. split; [exact Hf1'|]. constructor; [exact Hst|exact Hf3].
      * intros _. lia.
Qed.

Lemma inv_new_txn d fx upd thr_c : inv d (marker_reserve fx) thr_c (new_txn fx upd).
Proof.
  unfold inv, new_txn, entries. cbn [t_pending t_dups t_count t_size map app length sumM fold_right].
  split; [lia|]. split; [lia|]. split; [constructor|]. intros H. congruence.
Qed.

Lemma inv_run_calls d reserve thr_c cs : forall t,
  inv d reserve thr_c t -> Forall (call_thr_ok thr_c) cs ->
  inv d reserve thr_c (fst (run_calls d t cs)).
Proof.
  induction cs as [|c r IH]; intros t Hi Hf; cbn [run_calls]; [exact Hi|].
  inversion Hf as [|c' r' Hc Hr]. subst c' r'.
  destruct (modify d (c_thr c) t (c_entry c) (c_kcap c) (c_vcap c)) as [t' res] eqn:Hm.
  specialize (IH t').
  destruct (run_calls d t' r) as [t'' rs] eqn:Hrun. cbn [fst] in *.
  apply IH; [|exact Hr].
  pose proof (inv_modify d reserve thr_c (c_thr c) t (c_entry c) (c_kcap c) (c_vcap c) Hi) as Hstep.
  rewrite Hm in Hstep. cbn [fst] in Hstep. apply Hstep. destruct c. exact Hc.
Qed.

(* the final accounting in sendToWriteCh *)
Definition sumC (thr : Z) (l : list entry) : Z := fold_right (fun e a => fst (estimate e thr) + a) 0 l.

Lemma account_spec thr es : forall c s,
  fst (fst (account thr es c s)) = c + Z.of_nat (length es) /\
  snd (fst (account thr es c s)) = s + sumC thr es.
Proof.
  induction es as [|e r IH]; intros c s; cbn [account length sumC fold_right fst snd]; [lia|].
  fold (sumC thr r).
  change (estimate e thr) with (fst (estimate e thr), stored e thr).
  cbv beta iota.
  specialize (IH (c + 1) (s + fst (estimate e thr))).
  destruct (account thr r (c + 1) (s + fst (estimate e thr))) as [[c' s'] r'].
  cbn [fst snd] in *. lia.
Qed.

Lemma zlen_key_with_ts k v : zlen (key_with_ts k v) = zlen k + 8.
Proof. unfold zlen, key_with_ts. rewrite app_length, be_enc_length. lia. Qed.

Lemma sumC_commit thr_c cts keep ws :
  Forall (thr_stable thr_c) ws ->
  sumC thr_c (map (with_commit_version cts keep) ws) <= sumM ws - 2 * Z.of_nat (length ws).
Proof.
  induction 1 as [|e r He Hr IH]; cbn [map sumC sumM fold_right length]; [lia|].
  fold (sumC thr_c (map (with_commit_version cts keep) r)). fold (sumM r).
  rewrite estimate_fst.
  assert (Hb : body (eff_thr (with_commit_version cts keep e) thr_c) (with_commit_version cts keep e)
               = body (eff_thr e thr_c) e) by reflexivity.
  rewrite Hb.
  assert (Hk : zlen (e_key (with_commit_version cts keep e)) = zlen (e_key e) + 8).
  { cbn [with_commit_version e_key]. apply zlen_key_with_ts. }
  rewrite Hk. pose proof (body_commit_le thr_c e He). unfold costM. lia.
Qed.

(* cost of the end marker beyond len(txnKey)+10 *)
Definition marker_extra (cts : N) (thr_c : Z) : Z :=
  if zlen (dec_digits cts) <? thr_c then zlen (dec_digits cts) else 12.

Lemma marker_cost cts thr_c :
  fst (estimate (marker_entry cts) thr_c) = zlen c_txnKey + 10 + marker_extra cts thr_c.
Proof.
  rewrite estimate_fst. cbn [marker_entry e_key]. rewrite zlen_key_with_ts.
  unfold body, eff_thr, marker_extra. cbn [marker_entry e_thr e_val]. cbn [Z.eqb].
  destruct (zlen (dec_digits cts) <? thr_c); lia.
Qed.

Lemma dec_digits_aux_len fuel : forall x acc,
  (length (dec_digits_aux fuel x acc) <= fuel + length acc)%nat /\
  (fuel <> 0 -> length acc < length (dec_digits_aux fuel x acc))%nat.
Proof.
  induction fuel as [|f IH]; intros x acc; cbn [dec_digits_aux]; [split; [lia|congruence]|].
  destruct (x / 10 =? 0)%N.
  - cbn [length]. lia.
  - destruct (IH (x / 10)%N ((48 + x mod 10)%N :: acc)) as [H1 H2]. cbn [length] in *.
    split; [lia|]. intros _. destruct f; cbn [dec_digits_aux length] in *; lia.
Qed.

Lemma marker_extra_bounds cts thr_c : 1 <= marker_extra cts thr_c <= 20.
Proof.
  unfold marker_extra, dec_digits, zlen.
  destruct (dec_digits_aux_len 20 cts []) as [H1 H2]. cbn [length] in *.
  specialize (H2 ltac:(discriminate)).
  destruct (Z.of_nat (length (dec_digits_aux 20 cts [])) <? thr_c); lia.
Qed.

Lemma txnKey_len : zlen c_txnKey = 11.
Proof. reflexivity. Qed.

Lemma commit_fits_gen d fx thr_c blocked cts t :
  inv d (marker_reserve fx) thr_c t ->
  marker_extra cts thr_c <= 2 * Z.of_nat (length (entries t)) + (marker_reserve fx - (zlen c_txnKey + 10)) ->
  commit d thr_c blocked t cts <> CErr ErrTxnTooBig.
Proof.
  intros [Hc [Hs [Hf Hl]]] Hmx. unfold commit.
  destruct (t_pending t) as [|p ps] eqn:Hp; [discriminate|].
  specialize (Hl ltac:(discriminate)). destruct Hl as [Hl1 Hl2].
  destruct (t_discarded t); [discriminate|].
  match goal with |- context [if ?c then _ else _] => destruct c end; [discriminate|].
  unfold send_to_write_ch. destruct blocked; [discriminate|].
  pose proof (account_spec thr_c (commit_entries t cts) 0 0) as [Ha1 Ha2].
  destruct (account thr_c (commit_entries t cts) 0 0) as [[c s] es']. cbn [fst snd] in *.
  assert (Hcount : c < d_max_batch_count d /\ s < d_max_batch_size d).
  { unfold commit_entries in *. fold (entries t) in *.
    pose proof (sumC_commit thr_c cts (all_version0 (entries t)) (entries t) Hf) as Hsum.
    pose proof (marker_extra_bounds cts thr_c) as Hb.
    destruct (all_version0 (entries t)).
    - rewrite app_length, map_length in Ha1. cbn [length] in Ha1.
      assert (Hsc : sumC thr_c (map (with_commit_version cts true) (entries t) ++ [marker_entry cts])
                    = sumC thr_c (map (with_commit_version cts true) (entries t))
                      + fst (estimate (marker_entry cts) thr_c)).
      { generalize (map (with_commit_version cts true) (entries t)). intros l.
        induction l as [|x l IH]; cbn [app sumC fold_right] in *; [lia|].
        fold (sumC thr_c (l ++ [marker_entry cts])). fold (sumC thr_c l). lia. }
      rewrite Hsc, marker_cost in Ha2. split; lia.
    - rewrite app_nil_r in *. rewrite map_length in Ha1.
      pose proof (sumM_nonneg (entries t)).
      assert (0 <= marker_reserve fx) by (unfold marker_reserve; rewrite txnKey_len; destruct fx; lia).
      split; lia. }
  destruct Hcount as [Hc1 Hc2].
  destruct (Z.geb_spec c (d_max_batch_count d)); [lia|]. cbn [orb].
  destruct (Z.geb_spec s (d_max_batch_size d)); [lia|].
  destruct (write_to_lsm_panics d thr_c es'); discriminate.
Qed.

(* with the marker's real maximum reserved, Commit never reports ErrTxnTooBig *)
Lemma commit_fits_fixed d upd cs thr_c blocked cts :
  Forall (call_thr_ok thr_c) cs ->
  commit d thr_c blocked (fst (run_calls d (new_txn true upd) cs)) cts <> CErr ErrTxnTooBig.
Proof.
  intros Hf. apply (commit_fits_gen d true).
  - apply inv_run_calls; [apply inv_new_txn|exact Hf].
  - pose proof (marker_extra_bounds cts thr_c). unfold marker_reserve. lia.
Qed.

(* the pinned tree: the marker's extra cost must be covered by the 2 spare bytes per entry *)
Lemma commit_fits_partial d upd cs thr_c blocked cts :
  Forall (call_thr_ok thr_c) cs ->
  let t := fst (run_calls d (new_txn false upd) cs) in
  marker_extra cts thr_c <= 2 * Z.of_nat (length (t_pending t) + length (t_dups t)) ->
  commit d thr_c blocked t cts <> CErr ErrTxnTooBig.
Proof.
  intros Hf t Hmx. apply (commit_fits_gen d false).
  - apply inv_run_calls; [apply inv_new_txn|exact Hf].
  - unfold entries. rewrite app_length, map_length. unfold marker_reserve. lia.
Qed.

(* ------------------------------------------------------------------ *)
(* when modify panics (finding F16) and when it cannot                 *)

Lemma modify_no_panic d thr t e kc vc t' :
  1023 <= d_vlog_file_size d ->                      (* checkAndSetOptions: >= 1 MiB *)
  d_ns_offset d < 9223372036854775800 ->
  (d_in_memory d = true -> 1023 <= thr \/ (1024 <= vc)%nat) ->
  modify d thr t e kc vc <> (t', Some EPanic).
Proof.
  intros Hvl Hoff Hmem H. apply modify_reject_sound in H. destruct H as [_ R].
  remember EPanic as err eqn:Herr.
  inversion R as [Hu|Hu Hd|_ Hk|_ [r Hr]|_ Hp Hl|_ _ Hv
                 |_ _ Hv Him Hm|err0 _ _ _ Hb
                 |_ _ _ _ Hf']; subst; try discriminate.
  - unfold exceeds_size in *. destruct (Nat.ltb_spec (Nat.max (length (e_val e)) vc) 1024); [|congruence].
    unfold zlen in Hv. lia.
  - unfold exceeds_size in *. destruct (Nat.ltb_spec (Nat.max (length (e_val e)) vc) 1024); [|congruence].
    unfold zlen in Hm. destruct (Hmem Him); lia.
  - rewrite is_banned_spec in Hb by assumption.
    destruct (_ && _) in Hb; discriminate.
Qed.

(* ------------------------------------------------------------------ *)
(* finding F4: the full C28_commit_fits statement is false of the pinned tree *)

Definition all_accepted (rs : list (option merr)) : Prop := Forall (fun r => r = None) rs.

Definition db_of_memtable (mts : Z) : dbcfg :=
  mkDb 1048576 false (-1) [] true (fst (batch_limits mts)) (snd (batch_limits mts)).

(* MemTableSize 1920 => maxBatchCount 3, maxBatchSize 288.  One Set of a 1-byte key and a 253-byte
   value (threshold 288 = the largest Open accepts here): Txn.size = 21 + 256 + 10 = 287 < 288, accepted.  Commit at ts 100:
   1+8+253+2 = 264 for the entry, 11+8+3+2 = 24 for the marker: 288 >= 288 => ErrTxnTooBig. *)
Definition w4_entry : entry := mkEntry (repeat 107%N 1) (repeat 120%N 253) 0 0 0 0 0.
Definition w4_calls : list call := [mkCall 288 w4_entry 1 253].

Lemma commit_fits_refuted :
  exists mts cs thr_c cts,
    (cts < two64)%N /\ Forall (call_thr_ok thr_c) cs /\
    all_accepted (snd (run_calls (db_of_memtable mts) (new_txn false true) cs)) /\
    commit (db_of_memtable mts) thr_c false
           (fst (run_calls (db_of_memtable mts) (new_txn false true) cs)) cts = CErr ErrTxnTooBig.
Proof.
  exists 1920, w4_calls, 288, 100%N.
  split; [reflexivity|]. split.
  { constructor; [|constructor]. left. vm_compute. discriminate. }
  split; [vm_compute; repeat constructor|]. vm_compute. reflexivity.
Qed.

(* second witness: with a value threshold not above the number of digits the marker is estimated
   as a value pointer (19 + 14 = 33 bytes, 12 more than reserved) — already at commit ts 1 *)
Definition w4b_entry : entry := mkEntry (repeat 107%N 254) [] 0 0 0 0 0.
Lemma commit_fits_refuted_small_threshold :
  exists mts cs thr_c cts,
    cts = 1%N /\ Forall (call_thr_ok thr_c) cs /\
    all_accepted (snd (run_calls (db_of_memtable mts) (new_txn false true) cs)) /\
    commit (db_of_memtable mts) thr_c false
           (fst (run_calls (db_of_memtable mts) (new_txn false true) cs)) cts = CErr ErrTxnTooBig.
Proof.
  exists 1920, [mkCall 1 w4b_entry 254 0], 1, 1%N.
  split; [reflexivity|]. split.
  { constructor; [|constructor]. left. vm_compute. discriminate. }
  split; [vm_compute; repeat constructor|]. vm_compute. reflexivity.
Qed.

(* under the repair the same Set is already rejected (41 + 256 + 10 >= 288), nothing is committed *)
Lemma commit_fits_witness_fixed :
  commit (db_of_memtable 1920) 288 false
         (fst (run_calls (db_of_memtable 1920) (new_txn true true) w4_calls)) 100%N = CNoop.
Proof. vm_compute. reflexivity. Qed.

(* finding F16: an oversize value in InMemory mode panics in exceedsSize *)
Lemma oversize_value_panics :
  exists d thr t e kc vc, (length (e_val e) <= vc)%nat /\ active t /\ key_ok e /\
    d_in_memory d = true /\ thr < zlen (e_val e) /\
    modify d thr t e kc vc = (t, Some EPanic).
Proof.
  exists (mkDb 1048576 true (-1) [] true 1000 100000), 100, (new_txn false true),
         (mkEntry [107%N] (repeat 120%N 101) 0 0 0 0 0), 1%nat, 101%nat.
  split; [vm_compute; lia|]. split; [split; reflexivity|]. split.
  { split; [discriminate|]. split; [intros r H; discriminate H|vm_compute; discriminate]. }
  split; [reflexivity|]. split; [vm_compute; reflexivity|]. vm_compute. reflexivity.
Qed.

(* ------------------------------------------------------------------ *)
(* finding F17: InMemory mode, a value of exactly threshold length is accepted, and the
   writer goroutine panics on it                                       *)

Lemma modify_accept_shape d thr t e kc vc t' :
  modify d thr t e kc vc = (t', None) ->
  t_pending t' = pending_set (e_key e) (stored e thr) (t_pending t) /\
  t_dups t' = match pending_get (e_key e) (t_pending t) with
              | Some old => if negb (e_version old =? e_version e)%N then t_dups t ++ [old] else t_dups t
              | None => t_dups t
              end.
Proof.
  unfold modify.
  destruct (negb (t_update t)); [discriminate|].
  destruct (t_discarded t); [discriminate|].
  destruct (length (e_key e) =? 0)%nat; [discriminate|].
  destruct (is_prefix _ _); [discriminate|].
  destruct (_ <? zlen (e_key e)); [discriminate|].
  destruct (_ <? zlen (e_val e)); [discriminate|].
  destruct (d_in_memory d && _); [discriminate|].
  destruct (is_banned d (e_key e)); [discriminate|].
  unfold check_size. change (estimate e thr) with (fst (estimate e thr), stored e thr). cbv beta iota.
  destruct (_ || _); [discriminate|].
  intros H; inversion H; subst; cbn [t_pending t_dups]; split; reflexivity.
Qed.

Lemma pending_set_in k e m x :
  In x (map snd (pending_set k e m)) -> In x (map snd m) \/ x = e.
Proof.
  induction m as [|[k' e'] r IH]; cbn [pending_set map snd In].
  - intros [H|[]]. right. congruence.
  - destruct (bytes_eqb k' k); cbn [map snd In].
    + intros [H|H]; [right; congruence|left; right; exact H].
    + intros [H|H]; [left; left; exact H|]. destruct (IH H) as [H'|H']; [left; right; exact H'|right; exact H'].
Qed.

Lemma pending_get_in k m old : pending_get k m = Some old -> In old (map snd m).
Proof.
  induction m as [|[k' e'] r IH]; cbn [pending_get map snd In]; [discriminate|].
  destruct (bytes_eqb k' k); [intros H; inversion H; left; reflexivity|]. intros H. right. apply IH. exact H.
Qed.

Lemma entries_modify_in d thr t e kc vc x :
  In x (entries (fst (modify d thr t e kc vc))) -> In x (entries t) \/ x = stored e thr.
Proof.
  destruct (modify d thr t e kc vc) as [t' [err|]] eqn:Hm; cbn [fst].
  - rewrite (modify_reject_unchanged _ _ _ _ _ _ _ _ Hm). intros H. left. exact H.
  - destruct (modify_accept_shape _ _ _ _ _ _ _ Hm) as [Hp Hd].
    unfold entries. rewrite Hp, Hd. intros H. apply in_app_or in H. destruct H as [H|H].
    + apply pending_set_in in H. destruct H as [H|H]; [left; apply in_or_app; left; exact H|right; exact H].
    + left. apply in_or_app.
      destruct (pending_get (e_key e) (t_pending t)) as [old|] eqn:Hg; [|right; exact H].
      destruct (negb (e_version old =? e_version e)%N); [|right; exact H].
      apply in_app_or in H. destruct H as [H|[H|[]]]; [right; exact H|].
      left. subst x. eapply pending_get_in. exact Hg.
Qed.

Lemma entries_run_calls_Forall (P : entry -> Prop) d cs : forall t,
  Forall P (entries t) -> Forall (fun c => P (stored (c_entry c) (c_thr c))) cs ->
  Forall P (entries (fst (run_calls d t cs))).
Proof.
  induction cs as [|c r IH]; intros t Ht Hc; cbn [run_calls]; [exact Ht|].
  inversion Hc as [|c' r' Hc1 Hc2]. subst c' r'.
  destruct (modify d (c_thr c) t (c_entry c) (c_kcap c) (c_vcap c)) as [t' res] eqn:Hm.
  specialize (IH t').
  destruct (run_calls d t' r) as [t'' rs]. cbn [fst] in *. apply IH; [|exact Hc2].
  apply Forall_forall. intros x Hx.
  pose proof (entries_modify_in d (c_thr c) t (c_entry c) (c_kcap c) (c_vcap c) x) as Hin.
  rewrite Hm in Hin. cbn [fst] in Hin. destruct (Hin Hx) as [H|H].
  - rewrite Forall_forall in Ht. apply Ht. exact H.
  - subst x. exact Hc1.
Qed.

Lemma account_entries thr es : forall c s,
  snd (account thr es c s) = map (fun e => stored e thr) es.
Proof.
  induction es as [|e r IH]; intros c s; cbn [account map snd]; [reflexivity|].
  change (estimate e thr) with (fst (estimate e thr), stored e thr). cbv beta iota.
  specialize (IH (c + 1) (s + fst (estimate e thr))).
  destruct (account thr r (c + 1) (s + fst (estimate e thr))) as [[c' s'] r']. cbn [snd] in *.
  rewrite IH. reflexivity.
Qed.

Lemma eff_thr_stored e thr : eff_thr (stored e thr) thr = eff_thr e thr.
Proof.
  unfold stored, set_thr, eff_thr. cbn [e_thr].
  destruct (Z.eqb_spec (e_thr e) 0) as [E|E].
  - destruct (Z.eqb_spec thr 0); reflexivity.
  - destruct (Z.eqb_spec (e_thr e) 0); [contradiction|reflexivity].
Qed.

Lemma commit_not_crash_on_disk d thr blocked t cts :
  d_in_memory d = false -> commit d thr blocked t cts <> CCrash.
Proof.
  intros Hm. unfold commit. destruct (t_pending t); [discriminate|].
  destruct (t_discarded t); [discriminate|].
  destruct (_ && _); [discriminate|].
  destruct (send_to_write_ch d thr blocked (commit_entries t cts)); [|discriminate].
  unfold write_to_lsm_panics. rewrite Hm. discriminate.
Qed.

(* in memory: no crash when every accepted value is strictly below the threshold cached for it
   and the end marker's digits are below the commit-time threshold *)
Lemma commit_not_crash_in_memory d upd fx cs thr_c blocked cts :
  Forall (fun c => zlen (e_val (c_entry c)) < eff_thr (c_entry c) (c_thr c)) cs ->
  zlen (dec_digits cts) < thr_c ->
  commit d thr_c blocked (fst (run_calls d (new_txn fx upd) cs)) cts <> CCrash.
Proof.
  intros Hcs Hdig.
  set (P := fun e : entry => zlen (e_val e) < e_thr e).
  assert (HP : Forall P (entries (fst (run_calls d (new_txn fx upd) cs)))).
  { apply entries_run_calls_Forall; [constructor|].
    eapply Forall_impl; [|exact Hcs]. intros c Hc. unfold P, stored, set_thr. cbn [e_val e_thr]. exact Hc. }
  remember (fst (run_calls d (new_txn fx upd) cs)) as t eqn:Ht. clear Ht Hcs.
  unfold commit. destruct (t_pending t); [discriminate|].
  destruct (t_discarded t); [discriminate|].
  destruct (_ && _); [discriminate|].
  unfold send_to_write_ch. destruct blocked; [discriminate|].
  pose proof (account_entries thr_c (commit_entries t cts) 0 0) as Hes.
  destruct (account thr_c (commit_entries t cts) 0 0) as [[c s] es']. cbn [snd] in Hes.
  destruct (_ || _); [discriminate|].
  assert (Hno : write_to_lsm_panics d thr_c es' = false); [|rewrite Hno; discriminate].
  unfold write_to_lsm_panics. destruct (d_in_memory d); [|reflexivity]. cbn [andb].
  rewrite Hes. apply Bool.not_true_is_false. intros Hex. apply existsb_exists in Hex.
  destruct Hex as [x [Hin Hx]]. apply in_map_iff in Hin. destruct Hin as [e0 [He0 Hin0]]. subst x.
  rewrite eff_thr_stored in Hx. change (e_val (stored e0 thr_c)) with (e_val e0) in Hx.
  unfold commit_entries in Hin0. fold (entries t) in Hin0. apply in_app_or in Hin0.
  destruct Hin0 as [Hin0|Hin0].
  - apply in_map_iff in Hin0. destruct Hin0 as [e1 [He1 Hin1]]. subst e0.
    rewrite Forall_forall in HP. specialize (HP e1 Hin1). unfold P in HP.
    change (e_val (with_commit_version cts (all_version0 (entries t)) e1)) with (e_val e1) in Hx.
    assert (Heff : eff_thr (with_commit_version cts (all_version0 (entries t)) e1) thr_c = eff_thr e1 thr_c) by reflexivity.
    rewrite Heff in Hx. unfold eff_thr in Hx. pose proof (zlen_nonneg (e_val e1)).
    destruct (Z.eqb_spec (e_thr e1) 0); [lia|].
    destruct (Z.ltb_spec (zlen (e_val e1)) (e_thr e1)); [discriminate|lia].
  - destruct (all_version0 (entries t)); [|destruct Hin0]. destruct Hin0 as [Hm|[]]. subst e0.
    cbn [marker_entry e_val] in Hx. unfold eff_thr in Hx. cbn [marker_entry e_thr Z.eqb] in Hx.
    destruct (Z.ltb_spec (zlen (dec_digits cts)) thr_c); [discriminate|lia].
Qed.

Lemma inmemory_value_at_threshold_crashes :
  exists d thr e kc vc t' cts,
    d_in_memory d = true /\ zlen (e_val e) = thr /\
    modify d thr (new_txn false true) e kc vc = (t', None) /\
    commit d thr false t' cts = CCrash.
Proof.
  exists (mkDb 2097152 true (-1) [] true 100 100000), 100,
         (mkEntry [107%N] (repeat 120%N 100) 0 0 0 0 0), 1%nat, 100%nat.
  eexists. exists 5%N. split; [reflexivity|]. split; [reflexivity|]. split; vm_compute; reflexivity.
Qed.

(* finding F18: the hypothesis call_thr_ok is needed.  With ValueThreshold = 0 an entry caches
   threshold 0 at Set time (estimate key+14); estimateSizeAndSetThreshold treats a cached 0 as "not
   cached", so sendToWriteCh re-estimates it with the commit-time threshold.  If dynamic
   thresholding raised the threshold above len(value) in between, the estimate grows to
   key+8+len(value)+2.  Witness: limits 3/288, Set(190-byte key, 80-byte value) at threshold 0:
   21+204+10 = 235, accepted; Commit at threshold 121, ts 7: 280 + 22 = 302 >= 288.
   The marker is covered here (1 digit <= 2 spare bytes), so this is independent of F4. *)
Definition w18_entry : entry := mkEntry (repeat 107%N 190) (repeat 120%N 80) 0 0 0 0 0.
Lemma commit_fits_refuted_threshold_moved :
  exists mts cs thr_c cts,
    all_accepted (snd (run_calls (db_of_memtable mts) (new_txn false true) cs)) /\
    (let t := fst (run_calls (db_of_memtable mts) (new_txn false true) cs) in
     marker_extra cts thr_c <= 2 * Z.of_nat (length (t_pending t) + length (t_dups t))) /\
    commit (db_of_memtable mts) thr_c false
           (fst (run_calls (db_of_memtable mts) (new_txn false true) cs)) cts = CErr ErrTxnTooBig.
Proof.
  exists 1920, [mkCall 0 w18_entry 190 80], 121, 7%N.
  split; [vm_compute; repeat constructor|]. split; [vm_compute; discriminate|]. vm_compute. reflexivity.
Qed.
