(* LogIter.v — memtable.go logFile.iterate: replay of a WAL / value-log file in transaction
   units.  Definitions only; proofs in LogProofs.v / LogIterProofs.v *)
From Verif Require Import Bytes Uvarint Keys Codec Crc32c Consts LogRecord.
Open Scope N_scope.

(* what the callback fn(e, vp) receives: the entry, e.offset = vp.Offset, vp.Len (vp.Fid = lf.fid) *)
Record delivered := mkDel { d_entry : entry; d_off : N; d_len : N }.

Inductive outcome :=
| Done (valid_end : N)    (* return validEndOffset, nil *)
| Err                     (* return 0, err  (safeRead error other than EOF / truncate) *)
| Panic.

Definition has_bit (m bit : N) : bool := negb (N.land m bit =? 0).

(* strconv.ParseUint(string(v), 10, 64): non-empty, decimal digits only, value < 2^64 *)
Definition is_digit (c : N) : bool := (48 <=? c) && (c <=? 57).
Definition parse_uint_dec (v : bytes) : option N :=
  match v with
  | [] => None
  | _ => if forallb is_digit v
         then let n := fold_left (fun acc c => acc * 10 + (c - 48)) v 0 in
              if n <? two64 then Some n else None
         else None
  end.

Section Iter.
  Variable encrypted : bool.
  Variable xs : bytes -> bytes -> bytes.
  Variable base_iv : bytes.

  Notation safe_read := (safe_read encrypted xs base_iv).

  (* the loop of logFile.iterate.  buf = input not yet consumed, off = read.recordOffset,
     last_commit = lastCommit, pend = entries/vptrs buffered (newest first), vend = validEndOffset.
     Result: the calls of fn in order, and how the function returned.  fuel bounds the number
     of records (each consumes at least 9 bytes). *)
  Fixpoint iterate_f (fuel : nat) (buf : bytes) (off last_commit : N) (pend : list delivered)
           (vend : N) : list delivered * outcome :=
    match fuel with
    | O => ([], Done vend)
    | S f =>
        match safe_read buf off with
        | RdEof | RdUnexpected | RdTruncate => ([], Done vend)       (* break loop *)
        | RdErr => ([], Err)                                          (* return 0, err *)
        | RdPanic => ([], Panic)
        | RdOk e hlen rest =>
            match e_key e with
            | [] => ([], Done vend)                                   (* e.isZero() *)
            | _ :: _ =>
                let len := record_len hlen e in                       (* vp.Len *)
                let off' := (off + len) mod two32 in                  (* read.recordOffset += vp.Len *)
                let d := mkDel e off len in
                if has_bit (e_meta e) c_bitTxn then
                  let ts := parse_ts (e_key e) in
                  let lc := if last_commit =? 0 then ts else last_commit in
                  if negb (lc =? ts) then ([], Done vend)
                  else iterate_f f rest off' lc (d :: pend) vend
                else if has_bit (e_meta e) c_bitFinTxn then
                  match parse_uint_dec (e_value e) with
                  | None => ([], Done vend)
                  | Some ts =>
                      if negb (last_commit =? ts) then ([], Done vend)
                      else let '(o, oc) := iterate_f f rest off' 0 [] off' in
                           (rev pend ++ o, oc)
                  end
                else
                  if negb (last_commit =? 0) then ([], Done vend)
                  else let '(o, oc) := iterate_f f rest off' last_commit pend off' in
                       (d :: o, oc)
            end
        end
    end.

  (* from the start of the input with a clean state; buf = lf.Data[off:] *)
  Definition iterate (buf : bytes) (off : N) : list delivered * outcome :=
    iterate_f (S (length buf)) buf off 0 [] off.

  Fixpoint drop_N (l : bytes) (n : N) {struct l} : bytes :=
    if n =? 0 then l else match l with [] => [] | _ :: r => drop_N r (n - 1) end.

  (* logFile.iterate(readOnly, offset, fn) on the file image data:
     offset 0 means "start after the 20-byte file header" *)
  Definition iterate_file (data : bytes) (offset : N) : list delivered * outcome :=
    let off := if offset =? 0 then c_vlogHeaderSize else offset in
    iterate (drop_N data off) off.
End Iter.
