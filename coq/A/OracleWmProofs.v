(* OracleWmProofs.v — invariants of the oracle model (OracleWm.v) over all interleavings of
   transaction starts, commits, acks, discards and the two watermark process goroutines. *)
From Verif Require Import Bytes Watermark WatermarkProofs OracleWm.
From Coq Require Import ZifyN ZifyNat ZifyBool Sorted.
Open Scope N_scope.

(* ---------- Open: Done(n0) on a fresh WaterMark ---------- *)
Lemma open_pop : forall n0, pop_loop [n0] [(n0, (0 + -1)%Z)] 0 = ([], [], n0).
Proof.
  intros. cbn [pop_loop]. unfold pend0. cbn [mget]. rewrite N.eqb_refl.
  change (0 <? 0 + -1)%Z with false. cbv iota.
  unfold mrem. cbn [filter fst]. rewrite N.eqb_refl. reflexivity.
Qed.

Lemma open_done : forall n0, n0 < max_u64 -> process_ev (ED n0) (pinit 0) = pinit n0.
Proof.
  intros n0 H. unfold process_ev, pinit. cbn [st negb N.eqb Running].
  unfold process_one. cbn [pending mget done_until heap heap_push waiters closed length N.of_nat].
  assert (E0 : (n0 <? 0) = false) by lia. rewrite E0.
  unfold pend0 at 1. cbn [mget]. unfold mset at 1. change (mrem n0 []) with (@nil (N * Z)).
  rewrite open_pop.
  assert (Eu : u64_sub n0 0 = n0).
  { unfold u64_sub, max_u64, two64 in *. rewrite N.sub_0_r.
    rewrite <- N.add_mod_idemp_r by lia. rewrite N.mod_same by lia.
    rewrite N.add_0_r. apply N.mod_small. lia. }
  rewrite Eu.
  assert (Emax : (n0 =? max_u64) = false) by lia. rewrite Emax.
  unfold notify. cbn [filter flat_map app].
  destruct (n0 <=? 0) eqn:E; [|reflexivity].
  assert (n0 = 0) by lia. subst. reflexivity.
Qed.

Definition done_mark (n0 : N) : mark := mkMark n0 None [] true.

Lemma done_mark_events : forall n0, mark_events (done_mark n0) = [ED n0].
Proof.
  intros. unfold mark_events, done_mark, mark_indices. cbn [m_waiter m_index m_indices m_done length].
  destruct (0 <? n0) eqn:E; cbn [orb]; [reflexivity|].
  assert (n0 = 0) by lia. subst. reflexivity.
Qed.

(* a WaterMark that started with Open's Done(n0): either that mark is still queued, or the
   process state is that of a WaterMark started at n0 *)
Lemma wm_open_split : forall n0 tr, no_setdu tr -> n0 < max_u64 ->
  let s := wm_run (LDone n0 :: tr) (wm_init 0) in
  (ps s = pinit 0 /\ queue s = done_mark n0 :: sent_marks tr) \/
  (exists pm, sent_marks tr = pm ++ queue s /\ ps s = process_evs (marks_events pm) (pinit n0)).
Proof.
  intros n0 tr Hns Hn s.
  assert (Hns' : no_setdu (LDone n0 :: tr)).
  { intros v [H|H]; [discriminate|apply (Hns v H)]. }
  destruct (wm_run_split 0 (LDone n0 :: tr) Hns') as [pm [Hq Hp]]. fold s in Hq, Hp.
  change (sent_marks (LDone n0 :: tr)) with (done_mark n0 :: sent_marks tr) in Hq.
  destruct pm as [|m pm].
  - left. split; [exact Hp|]. cbn [app] in Hq. symmetry. exact Hq.
  - right. cbn [app] in Hq. inversion Hq as [[Hm Hrest]]. exists pm. split; [exact Hrest|].
    rewrite Hp. clear Hq Hp. subst m. unfold marks_events. cbn [flat_map]. rewrite done_mark_events.
    change (process_evs ([ED n0] ++ flat_map mark_events pm) (pinit 0))
      with (process_evs (flat_map mark_events pm) (process_ev (ED n0) (pinit 0))).
    rewrite open_done by exact Hn. reflexivity.
Qed.

(* ---------- lists with update ---------- *)
Lemma nth_error_upd : forall {A} (l : list A) t t' y,
  nth_error (upd t y l) t' =
  if Nat.eqb t' t then (match nth_error l t with Some _ => Some y | None => None end)
  else nth_error l t'.
Proof.
  induction l as [|a l IH]; intros t t' y.
  - destruct t', t; cbn; try reflexivity. destruct (t' =? t)%nat; reflexivity.
  - destruct t, t'; cbn; try reflexivity. apply IH.
Qed.

Lemma upd_length : forall {A} (l : list A) t y, length (upd t y l) = length l.
Proof. induction l as [|a l IH]; intros [|t] y; cbn; auto. Qed.

Lemma nth_error_snoc : forall {A} (l : list A) y t x,
  nth_error (l ++ [y]) t = Some x -> nth_error l t = Some x \/ (t = length l /\ x = y).
Proof.
  intros A l y t x H. destruct (Nat.lt_ge_cases t (length l)) as [Hlt|Hge].
  - left. rewrite nth_error_app1 in H by exact Hlt. exact H.
  - right. rewrite nth_error_app2 in H by exact Hge.
    destruct (t - length l)%nat eqn:E; cbn in H.
    + inversion H. split; [lia|reflexivity].
    + destruct n; discriminate.
Qed.

(* ---------- events of the ghost traces ---------- *)
Lemma sent_events_snoc : forall tr l, sent_events (tr ++ [l]) =
  sent_events tr ++ match label_mark l with Some m => mark_events m | None => [] end.
Proof.
  intros. unfold sent_events. rewrite sent_marks_app, marks_events_app. f_equal.
  unfold sent_marks, marks_events. cbn [flat_map]. destruct (label_mark l); cbn; rewrite ?app_nil_r; reflexivity.
Qed.

Lemma begin_events : forall i, mark_events (mkMark i None [] false) = [EB i].
Proof.
  intros. unfold mark_events, mark_indices. cbn [m_waiter m_index m_indices m_done length].
  destruct (0 <? i) eqn:E; cbn [orb]; [reflexivity|].
  assert (i = 0) by lia. subst. reflexivity.
Qed.

Lemma wait_events : forall i w, mark_events (mkMark i (Some w) [] false) = [EW i w].
Proof. reflexivity. Qed.

(* ---------- the oracle invariant ---------- *)
Definition et (s : orc) : list ev := sent_events (tl (g_txn s)).
Definition er (s : orc) : list ev := sent_events (tl (g_read s)).

Fixpoint open_count (i : N) (l : list txn) : Z :=
  match l with
  | [] => 0%Z
  | x :: r => ((if ((t_read_ts x =? i)%N && negb (t_done_read x))%bool then 1 else 0) + open_count i r)%Z
  end.

Record oinv (n0 : N) (s : orc) : Prop := mkOinv {
  oi_gt : exists tr, g_txn s = LDone n0 :: tr /\ no_setdu tr;
  oi_gr : exists tr, g_read s = LDone n0 :: tr /\ no_setdu tr;
  oi_tm : txn_mark s = wm_run (g_txn s) (wm_init 0);
  oi_rm : read_mark s = wm_run (g_read s) (wm_init 0);
  oi_next : n0 < next_ts s;
  oi_okt : ok_txn n0 (et s);
  oi_B : forall i, In (EB i) (et s) <-> n0 < i /\ i < next_ts s;
  oi_ph3 : forall t x, nth_error (txns s) t = Some x -> t_phase x = 3 ->
           In (EB (t_commit_ts x)) (et s) /\ ~ In (ED (t_commit_ts x)) (et s);
  oi_ph4 : forall t x, nth_error (txns s) t = Some x -> t_phase x = 4 ->
           In (ED (t_commit_ts x)) (et s);
  oi_uniq : forall t t' x x', nth_error (txns s) t = Some x -> nth_error (txns s) t' = Some x' ->
            3 <= t_phase x -> 3 <= t_phase x' -> t_commit_ts x = t_commit_ts x' -> t = t';
  oi_phle : forall t x, nth_error (txns s) t = Some x -> t_phase x <= 4;
  oi_cover : forall i, n0 < i -> i < next_ts s ->
             exists t x, nth_error (txns s) t = Some x /\ (t_phase x = 3 \/ t_phase x = 4) /\ t_commit_ts x = i;
  oi_rts : forall t x, nth_error (txns s) t = Some x -> n0 <= t_read_ts x /\ t_read_ts x < next_ts s;
  oi_w : forall i w, In (EW i w) (et s) ->
         exists t x, nth_error (txns s) t = Some x /\ w = waiter_id t /\ t_read_ts x = i;
  oi_ph1 : forall t x, nth_error (txns s) t = Some x -> t_phase x = 1 ->
           In (LWait (t_read_ts x) (waiter_id t)) (tl (g_txn s));
  oi_vis : forall t x, nth_error (txns s) t = Some x -> 2 <= t_phase x ->
           forall i, n0 < i -> i <= t_read_ts x -> In (ED i) (et s);
  oi_okr : ok_read n0 (er s);
  oi_rB : forall e, In e (er s) -> ev_index e < next_ts s;
  oi_rcnt : forall i, (nB (er s) i - nD (er s) i = open_count i (txns s))%Z
}.

Lemma et_tm_do : forall n0 s l tr, g_txn s = LDone n0 :: tr ->
  et (tm_do l s) = et s ++ match label_mark l with Some m => mark_events m | None => [] end.
Proof.
  intros n0 s l tr H. unfold et, tm_do. cbn [g_txn]. rewrite H. cbn [tl app]. apply sent_events_snoc.
Qed.

Lemma er_rm_do : forall n0 s l tr, g_read s = LDone n0 :: tr ->
  er (rm_do l s) = er s ++ match label_mark l with Some m => mark_events m | None => [] end.
Proof.
  intros n0 s l tr H. unfold er, rm_do. cbn [g_read]. rewrite H. cbn [tl app]. apply sent_events_snoc.
Qed.

Lemma no_setdu_snoc : forall tr l, no_setdu tr -> (forall v, l <> LSetDoneUntil v) -> no_setdu (tr ++ [l]).
Proof.
  intros tr l H Hl v Hin. apply in_app_or in Hin. destruct Hin as [Hin|[Hin|[]]].
  - apply (H v Hin).
  - apply (Hl v). exact Hin.
Qed.

Lemma wm_run_snoc : forall tr l s, wm_run (tr ++ [l]) s = wm_apply l (wm_run tr s).
Proof. intros. rewrite wm_run_app. reflexivity. Qed.

Lemma open_count_app : forall i a b, open_count i (a ++ b) = (open_count i a + open_count i b)%Z.
Proof. induction a as [|x a IH]; intros; cbn [app open_count]; rewrite ?IH; lia. Qed.

Lemma open_count_upd : forall i l t x y, nth_error l t = Some x ->
  open_count i (upd t y l) =
  (open_count i l - (if ((t_read_ts x =? i)%N && negb (t_done_read x))%bool then 1 else 0)
                  + (if ((t_read_ts y =? i)%N && negb (t_done_read y))%bool then 1 else 0))%Z.
Proof.
  induction l as [|a l IH]; intros t x y H.
  - destruct t; discriminate.
  - destruct t as [|t]; cbn [nth_error upd open_count] in *.
    + inversion H. subst. lia.
    + rewrite (IH t x y H). lia.
Qed.

(* the initial state *)
Lemma oinv_init : forall n0, oinv n0 (orc_init n0).
Proof.
  intros n0. unfold orc_init, tm_do, rm_do.
  constructor; cbn [g_txn g_read txn_mark read_mark next_ts txns app tl];
    unfold et, er; cbn [g_txn g_read tl app].
  - exists []. split; [reflexivity|]. intros v [].
  - exists []. split; [reflexivity|]. intros v [].
  - reflexivity.
  - reflexivity.
  - lia.
  - constructor.
  - intros i. cbn. split; [tauto|lia].
  - intros t x H. destruct t; discriminate.
  - intros t x H. destruct t; discriminate.
  - intros t t' x x' H. destruct t; discriminate.
  - intros t x H. destruct t; discriminate.
  - intros i H1 H2. lia.
  - intros t x H. destruct t; discriminate.
  - intros i w [].
  - intros t x H. destruct t; discriminate.
  - intros t x H. destruct t; discriminate.
  - constructor.
  - intros e [].
  - intros i. reflexivity.
Qed.

(* steps of the process goroutines change neither histories of sent events nor transactions *)
Lemma oinv_proc_txn : forall n0 s, oinv n0 s -> oinv n0 (tm_do LProcess s).
Proof.
  intros n0 s H. destruct H as [[tr [Hg Hns]] Hgr Htm Hrm Hn Hok HB H3 H4 Hu Hle Hcov Hrts Hw H1 Hvis Hokr HrB Hcnt].
  assert (Eet : et (tm_do LProcess s) = et s).
  { rewrite (et_tm_do n0 s LProcess tr Hg). cbn. apply app_nil_r. }
  constructor; rewrite ?Eet; auto.
  - exists (tr ++ [LProcess]). cbn [tm_do g_txn]. rewrite Hg. split; [reflexivity|].
    apply no_setdu_snoc; [exact Hns|discriminate].
  - cbn [tm_do txn_mark g_txn]. rewrite wm_run_snoc, <- Htm. reflexivity.
  - intros t x Hx Hp. cbn [tm_do g_txn txns] in *. rewrite Hg. cbn [tl app].
    apply in_or_app. left. specialize (H1 t x Hx Hp). rewrite Hg in H1. exact H1.
Qed.

Lemma oinv_proc_read : forall n0 s, oinv n0 s -> oinv n0 (rm_do LProcess s).
Proof.
  intros n0 s H. destruct H as [Hgt [tr [Hg Hns]] Htm Hrm Hn Hok HB H3 H4 Hu Hle Hcov Hrts Hw H1 Hvis Hokr HrB Hcnt].
  assert (Eer : er (rm_do LProcess s) = er s).
  { rewrite (er_rm_do n0 s LProcess tr Hg). cbn. apply app_nil_r. }
  constructor; rewrite ?Eer; auto.
  - exists (tr ++ [LProcess]). cbn [rm_do g_read]. rewrite Hg. split; [reflexivity|].
    apply no_setdu_snoc; [exact Hns|discriminate].
  - cbn [rm_do read_mark g_read]. rewrite wm_run_snoc, <- Hrm. reflexivity.
Qed.

Ltac upd_case Hx' Hx :=
  rewrite nth_error_upd in Hx';
  match type of Hx' with
  | (if Nat.eqb ?a ?b then _ else _) = _ =>
      destruct (Nat.eqb_spec a b) as [?E|?E];
      [subst a; rewrite Hx in Hx'; inversion Hx'; subst; clear Hx'|]
  end.

Lemma nth_error_upd_same : forall {A} (l : list A) t x y, nth_error l t = Some x ->
  nth_error (upd t y l) t = Some y.
Proof. intros. rewrite nth_error_upd, Nat.eqb_refl, H. reflexivity. Qed.

Lemma nth_error_upd_other : forall {A} (l : list A) t t' y, t' <> t ->
  nth_error (upd t y l) t' = nth_error l t'.
Proof. intros. rewrite nth_error_upd. destruct (Nat.eqb_spec t' t); [contradiction|reflexivity]. Qed.

Lemma open_count_nonneg : forall i l, (0 <= open_count i l)%Z.
Proof. induction l as [|x l IH]; cbn [open_count]; [lia|]. destruct (_ && _)%bool; lia. Qed.

Lemma open_count_pos : forall l t x, nth_error l t = Some x -> t_done_read x = false ->
  (1 <= open_count (t_read_ts x) l)%Z.
Proof.
  induction l as [|a l IH]; intros t x H Hd; [destruct t; discriminate|].
  destruct t as [|t]; cbn [nth_error open_count] in *.
  - inversion H. subst. rewrite N.eqb_refl, Hd. cbn [negb andb]. pose proof (open_count_nonneg (t_read_ts x) l). lia.
  - specialize (IH t x H Hd). destruct (_ && _)%bool; lia.
Qed.

Lemma oinv_commit_lt : forall n0 s t x, oinv n0 s -> nth_error (txns s) t = Some x ->
  3 <= t_phase x -> n0 < t_commit_ts x /\ t_commit_ts x < next_ts s.
Proof.
  intros n0 s t x H Hx Hp. pose proof (oi_phle _ _ H t x Hx) as Hle.
  assert (Hc : t_phase x = 3 \/ t_phase x = 4) by lia. apply (oi_B _ _ H).
  destruct Hc as [Hc|Hc].
  - apply (oi_ph3 _ _ H t x Hx Hc).
  - apply (ok_read_DB n0 _ _ (ok_txn_read _ _ (oi_okt _ _ H))). apply (oi_ph4 _ _ H t x Hx Hc).
Qed.

(* readTs, locked section *)
Lemma oinv_begin_read : forall n0 s, oinv n0 s -> oinv n0 (orc_apply OBeginRead s).
Proof.
  intros n0 s H. pose proof H as H0.
  destruct H as [Hgt [tr [Hg Hns]] Htm Hrm Hn Hok HB H3 H4 Hu Hle Hcov Hrts Hw H1 Hvis Hokr HrB Hcnt].
  cbn [orc_apply]. set (rts := next_ts s - 1).
  assert (Eer : er (set_txns (txns s ++ [mkTxn rts 0 0 false]) (rm_do (LBegin rts) s)) = er s ++ [EB rts]).
  { unfold er. cbn [set_txns rm_do g_read]. rewrite Hg. cbn [tl app].
    rewrite sent_events_snoc. cbn [label_mark]. rewrite begin_events. reflexivity. }
  assert (Hold : forall t x, nth_error (txns s ++ [mkTxn rts 0 0 false]) t = Some x ->
                 nth_error (txns s) t = Some x \/ x = mkTxn rts 0 0 false).
  { intros t x Hx. apply nth_error_snoc in Hx. destruct Hx as [Hx|[_ Hx]]; auto. }
  assert (Hext : forall t x, nth_error (txns s) t = Some x ->
                 nth_error (txns s ++ [mkTxn rts 0 0 false]) t = Some x).
  { intros t x Hx. rewrite nth_error_app1; [exact Hx|]. apply nth_error_Some. congruence. }
  constructor; rewrite ?Eer; unfold et; cbn [set_txns rm_do g_txn g_read txn_mark read_mark next_ts txns];
    fold (et s); auto.
  - exists (tr ++ [LBegin rts]). rewrite Hg. split; [reflexivity|]. apply no_setdu_snoc; [exact Hns|discriminate].
  - rewrite wm_run_snoc, <- Hrm. reflexivity.
  - intros t x Hx Hp. destruct (Hold t x Hx) as [Ho| ->]; [apply (H3 t x Ho Hp)|discriminate].
  - intros t x Hx Hp. destruct (Hold t x Hx) as [Ho| ->]; [apply (H4 t x Ho Hp)|discriminate].
  - intros t t' x x' Hx Hx' Hp Hp' Hc.
    destruct (Hold t x Hx) as [Ho| ->]; [|cbn in Hp; lia].
    destruct (Hold t' x' Hx') as [Ho'| ->]; [|cbn in Hp'; lia].
    apply (Hu t t' x x' Ho Ho' Hp Hp' Hc).
  - intros t x Hx. destruct (Hold t x Hx) as [Ho| ->]; [apply (Hle t x Ho)|cbn; lia].
  - intros i Hi1 Hi2. destruct (Hcov i Hi1 Hi2) as [t [x [Hx Hr]]]. exists t, x. split; [apply Hext; exact Hx|exact Hr].
  - intros t x Hx. destruct (Hold t x Hx) as [Ho| ->]; [apply (Hrts t x Ho)|cbn; unfold rts; lia].
  - intros i w Hin. destruct (Hw i w Hin) as [t [x [Hx Hr]]]. exists t, x. split; [apply Hext; exact Hx|exact Hr].
  - intros t x Hx Hp. destruct (Hold t x Hx) as [Ho| ->]; [apply (H1 t x Ho Hp)|discriminate].
  - intros t x Hx Hp. destruct (Hold t x Hx) as [Ho| ->]; [apply (Hvis t x Ho Hp)|cbn in Hp; lia].
  - apply okr_B; [exact Hokr|unfold rts; lia|]. intros j Hj. specialize (HrB (EB j) Hj). cbn in HrB. unfold rts. lia.
  - intros e He. apply in_app_or in He. destruct He as [He|[<-|[]]]; [apply HrB; exact He|cbn; unfold rts; lia].
  - intros i. rewrite nB_app, nD_app, open_count_app. cbn [nB nD open_count t_read_ts t_done_read negb].
    specialize (Hcnt i). rewrite andb_true_r. rewrite (N.eqb_sym rts i). destruct (i =? rts); lia.
Qed.

Lemma oinv_bounded_et : forall n0 s, oinv n0 s -> next_ts s <= max_u64 -> bounded (et s).
Proof.
  intros n0 s H Hn e He. destruct e as [i|i|i w]; cbn [ev_index].
  - apply (oi_B _ _ H) in He. lia.
  - apply (ok_read_DB n0 _ _ (ok_txn_read _ _ (oi_okt _ _ H))) in He. apply (oi_B _ _ H) in He. lia.
  - destruct (oi_w _ _ H i w He) as [t [x [Hx [_ Hr]]]]. pose proof (oi_rts _ _ H t x Hx). lia.
Qed.

Lemma oinv_bounded_er : forall n0 s, oinv n0 s -> next_ts s <= max_u64 -> bounded (er s).
Proof. intros n0 s H Hn e He. pose proof (oi_rB _ _ H e He). lia. Qed.

(* the txnMark of a reachable oracle state, seen as (processed prefix, queued rest) of et *)
Lemma txn_mark_split : forall n0 s, oinv n0 s -> n0 < max_u64 ->
  (ps (txn_mark s) = pinit 0 /\ queue (txn_mark s) <> []) \/
  (exists pm, et s = marks_events pm ++ marks_events (queue (txn_mark s)) /\
              sent_marks (tl (g_txn s)) = pm ++ queue (txn_mark s) /\
              ps (txn_mark s) = process_evs (marks_events pm) (pinit n0)).
Proof.
  intros n0 s H Hn. destruct (oi_gt _ _ H) as [tr [Hg Hns]].
  rewrite (oi_tm _ _ H), Hg. destruct (wm_open_split n0 tr Hns Hn) as [[H1 H2]|[pm [H1 H2]]].
  - left. split; [exact H1|]. rewrite H2. discriminate.
  - right. exists pm. unfold et. rewrite Hg. cbn [tl]. unfold sent_events.
    rewrite H1, marks_events_app. auto.
Qed.

Lemma read_mark_split : forall n0 s, oinv n0 s -> n0 < max_u64 ->
  (ps (read_mark s) = pinit 0 /\ queue (read_mark s) <> []) \/
  (exists pm, er s = marks_events pm ++ marks_events (queue (read_mark s)) /\
              sent_marks (tl (g_read s)) = pm ++ queue (read_mark s) /\
              ps (read_mark s) = process_evs (marks_events pm) (pinit n0)).
Proof.
  intros n0 s H Hn. destruct (oi_gr _ _ H) as [tr [Hg Hns]].
  rewrite (oi_rm _ _ H), Hg. destruct (wm_open_split n0 tr Hns Hn) as [[H1 H2]|[pm [H1 H2]]].
  - left. split; [exact H1|]. rewrite H2. discriminate.
  - right. exists pm. unfold er. rewrite Hg. cbn [tl]. unfold sent_events.
    rewrite H1, marks_events_app. auto.
Qed.

(* the heart of C34: txnMark.DoneUntil() >= r implies every commit in (n0, r] has been acked *)
Lemma vis_from_du : forall n0 s r, oinv n0 s -> next_ts s <= max_u64 ->
  r < next_ts s -> r <= done_until (ps (txn_mark s)) ->
  forall i, n0 < i -> i <= r -> In (ED i) (et s).
Proof.
  intros n0 s r H Hn Hr Hdu i Hi1 Hi2.
  assert (Hn0 : n0 < max_u64) by (pose proof (oi_next _ _ H); lia).
  destruct (txn_mark_split n0 s H Hn0) as [[Hp _]|[pm [Het [_ Hp]]]].
  - rewrite Hp in Hdu. cbn in Hdu. lia.
  - pose proof (oinv_bounded_et n0 s H Hn) as Hb. pose proof (oi_okt _ _ H) as Hok.
    rewrite Het in Hb, Hok.
    destruct (txn_sound n0 _ _ Hn0 Hb Hok) as [_ Hs]. rewrite <- Hp in Hs. rewrite <- Het in Hs.
    destruct (Z_lt_le_dec 0 (nD (et s) i)) as [Hpos|Hz]; [apply nD_pos_In; exact Hpos|exfalso].
    assert (HB : In (EB i) (et s)) by (apply (oi_B _ _ H); lia).
    assert (HnD : ~ In (ED i) (et s)) by (intro Hc; apply nD_pos_In in Hc; lia).
    specialize (Hs i HB HnD). lia.
Qed.

Lemma waiter_id_inj : forall t t', waiter_id t = waiter_id t' -> t = t'.
Proof. unfold waiter_id. intros. lia. Qed.

Lemma released_In : forall w s, released w s = true <-> In w (closed (ps s)).
Proof.
  intros. unfold released. rewrite existsb_exists. split.
  - intros [x [Hx He]]. apply N.eqb_eq in He. subst. exact Hx.
  - intros Hin. exists w. split; [exact Hin|apply N.eqb_refl].
Qed.

(* a released waiter channel of transaction t means DoneUntil has reached its read timestamp *)
Lemma released_du : forall n0 s t x, oinv n0 s -> next_ts s <= max_u64 ->
  nth_error (txns s) t = Some x -> released (waiter_id t) (txn_mark s) = true ->
  t_read_ts x <= done_until (ps (txn_mark s)).
Proof.
  intros n0 s t x H Hn Hx Hrel. apply released_In in Hrel.
  assert (Hn0 : n0 < max_u64) by (pose proof (oi_next _ _ H); lia).
  destruct (txn_mark_split n0 s H Hn0) as [[Hp _]|[pm [Het [_ Hp]]]].
  - rewrite Hp in Hrel. destruct Hrel.
  - pose proof (oinv_bounded_et n0 s H Hn) as Hb. pose proof (oi_okt _ _ H) as Hok.
    rewrite Het in Hb, Hok.
    destruct (read_contract_running n0 _ Hn0 (bounded_app_l _ _ Hb)
                (ok_read_prefix _ _ _ (ok_txn_read _ _ Hok))) as [Hrun _].
    rewrite Hp in Hrel |- *.
    destruct (waiter_not_early n0 _ _ Hrun Hrel) as [i [Hi Hle]].
    assert (Hin : In (EW i (waiter_id t)) (et s)) by (rewrite Het; apply in_or_app; left; exact Hi).
    destruct (oi_w _ _ H _ _ Hin) as [t' [x' [Hx' [Hw Hr]]]].
    apply waiter_id_inj in Hw. subst t'. rewrite Hx in Hx'. inversion Hx'. subst x'. lia.
Qed.

(* readTs returns: fast path or woken waiter; same proof obligations *)
Lemma oinv_ready : forall n0 s t x, oinv n0 s -> next_ts s <= max_u64 ->
  nth_error (txns s) t = Some x -> t_phase x <= 1 ->
  t_read_ts x <= done_until (ps (txn_mark s)) ->
  oinv n0 (set_txns (upd t (mkTxn (t_read_ts x) 2 0 (t_done_read x)) (txns s)) s).
Proof.
  intros n0 s t x H Hn Hx Hph Hdu. pose proof H as H0.
  destruct H as [Hgt Hgr Htm Hrm Hnx Hok HB H3 H4 Hu Hle Hcov Hrts Hw H1 Hvis Hokr HrB Hcnt].
  set (y := mkTxn (t_read_ts x) 2 0 (t_done_read x)).
  constructor; unfold et, er; cbn [set_txns g_txn g_read txn_mark read_mark next_ts txns];
    fold (et s); fold (er s); auto.
  - intros t' x' Hx' Hp. upd_case Hx' Hx; [discriminate|apply (H3 t' x' Hx' Hp)].
  - intros t' x' Hx' Hp. upd_case Hx' Hx; [discriminate|apply (H4 t' x' Hx' Hp)].
  - intros t1 t2 x1 x2 Hx1 Hx2 Hp1 Hp2 Hc.
    upd_case Hx1 Hx; [cbn in Hp1; lia|]. upd_case Hx2 Hx; [cbn in Hp2; lia|].
    apply (Hu t1 t2 x1 x2 Hx1 Hx2 Hp1 Hp2 Hc).
  - intros t' x' Hx'. upd_case Hx' Hx; [cbn; lia|apply (Hle t' x' Hx')].
  - intros i Hi1 Hi2. destruct (Hcov i Hi1 Hi2) as [t' [x' [Hx' [Hp Hc]]]]. exists t', x'.
    split; [|auto]. rewrite nth_error_upd_other; [exact Hx'|]. intro. subst t'. rewrite Hx in Hx'.
    inversion Hx'. subst x'. lia.
  - intros t' x' Hx'. upd_case Hx' Hx; [apply (Hrts t x Hx)|apply (Hrts t' x' Hx')].
  - intros i w Hin. destruct (Hw i w Hin) as [t' [x' [Hx' [Hw' Hr]]]].
    destruct (Nat.eq_dec t' t) as [->|Hne].
    + exists t, y. rewrite Hx in Hx'. inversion Hx'. subst x'.
      split; [apply (nth_error_upd_same _ _ _ _ Hx)|auto].
    + exists t', x'. split; [rewrite nth_error_upd_other; assumption|auto].
  - intros t' x' Hx' Hp. upd_case Hx' Hx; [discriminate|apply (H1 t' x' Hx' Hp)].
  - intros t' x' Hx' Hp. upd_case Hx' Hx; [|apply (Hvis t' x' Hx' Hp)].
    cbn [t_read_ts]. intros i Hi1 Hi2.
    apply (vis_from_du n0 s (t_read_ts x) H0 Hn); [apply (Hrts t x Hx)|exact Hdu|exact Hi1|exact Hi2].
  - intros i. rewrite (open_count_upd i _ t x y Hx). unfold y. cbn [t_read_ts t_done_read].
    specialize (Hcnt i). lia.
Qed.

Lemma oinv_fast : forall n0 s t, oinv n0 s -> next_ts s <= max_u64 -> oinv n0 (orc_apply (OFast t) s).
Proof.
  intros n0 s t H Hn. cbn [orc_apply]. destruct (nth_error (txns s) t) as [x|] eqn:Hx; [|exact H].
  destruct ((t_phase x =? 0) && (t_read_ts x <=? done_until (ps (txn_mark s)))) eqn:G; [|exact H].
  apply andb_prop in G. destruct G as [G1 G2].
  apply (oinv_ready n0 s t x H Hn Hx); lia.
Qed.

Lemma oinv_wake : forall n0 s t, oinv n0 s -> next_ts s <= max_u64 -> oinv n0 (orc_apply (OWake t) s).
Proof.
  intros n0 s t H Hn. cbn [orc_apply]. destruct (nth_error (txns s) t) as [x|] eqn:Hx; [|exact H].
  destruct ((t_phase x =? 1) && released (waiter_id t) (txn_mark s)) eqn:G; [|exact H].
  apply andb_prop in G. destruct G as [G1 G2].
  apply (oinv_ready n0 s t x H Hn Hx); [lia|]. apply (released_du n0 s t x H Hn Hx G2).
Qed.

Lemma in_snoc_other : forall (l : list ev) e e', In e (l ++ [e']) -> e <> e' -> In e l.
Proof. intros l e e' H Hne. apply in_app_or in H. destruct H as [H|[H|[]]]; [exact H|congruence]. Qed.

(* WaitForMark sends its waiter mark *)
Lemma oinv_wait_send : forall n0 s t, oinv n0 s -> oinv n0 (orc_apply (OWaitSend t) s).
Proof.
  intros n0 s t H. cbn [orc_apply]. destruct (nth_error (txns s) t) as [x|] eqn:Hx; [|exact H].
  destruct (t_phase x =? 0) eqn:G; [|exact H]. apply N.eqb_eq in G.
  pose proof H as H0.
  destruct H as [[tr [Hg Hns]] Hgr Htm Hrm Hnx Hok HB H3 H4 Hu Hle Hcov Hrts Hw H1 Hvis Hokr HrB Hcnt].
  set (y := mkTxn (t_read_ts x) 1 0 (t_done_read x)).
  set (l := LWait (t_read_ts x) (waiter_id t)).
  assert (Eet : et (set_txns (upd t y (txns s)) (tm_do l s)) = et s ++ [EW (t_read_ts x) (waiter_id t)]).
  { change (et (set_txns (upd t y (txns s)) (tm_do l s))) with (et (tm_do l s)).
    rewrite (et_tm_do n0 s l tr Hg). reflexivity. }
  constructor; rewrite ?Eet; unfold er; cbn [set_txns tm_do g_txn g_read txn_mark read_mark next_ts txns];
    fold (er s); auto.
  - exists (tr ++ [l]). rewrite Hg. split; [reflexivity|]. apply no_setdu_snoc; [exact Hns|discriminate].
  - rewrite wm_run_snoc, <- Htm. reflexivity.
  - apply okt_W. exact Hok.
  - intros i. rewrite <- HB. split; [intros Hin; apply (in_snoc_other _ _ _ Hin); discriminate|intros; apply in_or_app; left; assumption].
  - intros t' x' Hx' Hp. upd_case Hx' Hx; [discriminate|]. destruct (H3 t' x' Hx' Hp) as [A B].
    split; [apply in_or_app; left; exact A|]. intro Hc. apply B. apply (in_snoc_other _ _ _ Hc). discriminate.
  - intros t' x' Hx' Hp. upd_case Hx' Hx; [discriminate|]. apply in_or_app. left. apply (H4 t' x' Hx' Hp).
  - intros t1 t2 x1 x2 Hx1 Hx2 Hp1 Hp2 Hc.
    upd_case Hx1 Hx; [cbn in Hp1; lia|]. upd_case Hx2 Hx; [cbn in Hp2; lia|].
    apply (Hu t1 t2 x1 x2 Hx1 Hx2 Hp1 Hp2 Hc).
  - intros t' x' Hx'. upd_case Hx' Hx; [cbn; lia|apply (Hle t' x' Hx')].
  - intros i Hi1 Hi2. destruct (Hcov i Hi1 Hi2) as [t' [x' [Hx' [Hp Hc]]]]. exists t', x'.
    split; [|auto]. rewrite nth_error_upd_other; [exact Hx'|]. intro. subst t'. rewrite Hx in Hx'.
    inversion Hx'. subst x'. lia.
  - intros t' x' Hx'. upd_case Hx' Hx; [apply (Hrts t x Hx)|apply (Hrts t' x' Hx')].
  - intros i w Hin. apply in_app_or in Hin. destruct Hin as [Hin|[Hin|[]]].
    + destruct (Hw i w Hin) as [t' [x' [Hx' [Hw' Hr]]]].
      destruct (Nat.eq_dec t' t) as [->|Hne].
      * exists t, y. rewrite Hx in Hx'. inversion Hx'. subst x'.
        split; [apply (nth_error_upd_same _ _ _ _ Hx)|auto].
      * exists t', x'. split; [rewrite nth_error_upd_other; assumption|auto].
    + inversion Hin. subst. exists t, y. split; [apply (nth_error_upd_same _ _ _ _ Hx)|auto].
  - intros t' x' Hx' Hp. rewrite Hg. cbn [tl app]. apply in_or_app.
    upd_case Hx' Hx; [right; left; reflexivity|]. left. specialize (H1 t' x' Hx' Hp). rewrite Hg in H1. exact H1.
  - intros t' x' Hx' Hp. upd_case Hx' Hx; [cbn in Hp; lia|].
    intros i Hi1 Hi2. apply in_or_app. left. apply (Hvis t' x' Hx' Hp i Hi1 Hi2).
  - intros i. rewrite (open_count_upd i _ t x y Hx). unfold y. cbn [t_read_ts t_done_read].
    specialize (Hcnt i). lia.
Qed.

(* doneCommit *)
Lemma oinv_ack : forall n0 s t, oinv n0 s -> oinv n0 (orc_apply (OAck t) s).
Proof.
  intros n0 s t H. cbn [orc_apply]. destruct (nth_error (txns s) t) as [x|] eqn:Hx; [|exact H].
  destruct (t_phase x =? 3) eqn:G; [|exact H]. apply N.eqb_eq in G.
  pose proof H as H0.
  destruct H as [[tr [Hg Hns]] Hgr Htm Hrm Hnx Hok HB H3 H4 Hu Hle Hcov Hrts Hw H1 Hvis Hokr HrB Hcnt].
  set (c := t_commit_ts x).
  set (y := mkTxn (t_read_ts x) 4 c (t_done_read x)).
  set (l := LDone c).
  assert (Eet : et (set_txns (upd t y (txns s)) (tm_do l s)) = et s ++ [ED c]).
  { change (et (set_txns (upd t y (txns s)) (tm_do l s))) with (et (tm_do l s)).
    rewrite (et_tm_do n0 s l tr Hg). cbn [label_mark l]. fold (done_mark c). rewrite done_mark_events. reflexivity. }
  destruct (H3 t x Hx G) as [HcB HcD]. fold c in HcB, HcD.
  constructor; rewrite ?Eet; unfold er; cbn [set_txns tm_do g_txn g_read txn_mark read_mark next_ts txns];
    fold (er s); auto.
  - exists (tr ++ [l]). rewrite Hg. split; [reflexivity|]. apply no_setdu_snoc; [exact Hns|discriminate].
  - rewrite wm_run_snoc, <- Htm. reflexivity.
  - apply okt_D; assumption.
  - intros i. rewrite <- HB. split; [intros Hin; apply (in_snoc_other _ _ _ Hin); discriminate|intros; apply in_or_app; left; assumption].
  - intros t' x' Hx' Hp. upd_case Hx' Hx; [discriminate|]. destruct (H3 t' x' Hx' Hp) as [A B].
    split; [apply in_or_app; left; exact A|]. intro Hc. apply B. apply (in_snoc_other _ _ _ Hc).
    intro Heq. inversion Heq as [Hcc]. apply E. apply (Hu t' t x' x Hx' Hx); [lia|lia|exact Hcc].
  - intros t' x' Hx' Hp. apply in_or_app. upd_case Hx' Hx; [right; left; reflexivity|]. left. apply (H4 t' x' Hx' Hp).
  - intros t1 t2 x1 x2 Hx1 Hx2 Hp1 Hp2 Hc.
    upd_case Hx1 Hx; upd_case Hx2 Hx; cbn [t_commit_ts t_phase] in *; try reflexivity.
    + apply (Hu t t2 x x2 Hx Hx2); [lia|exact Hp2|exact Hc].
    + apply (Hu t1 t x1 x Hx1 Hx); [exact Hp1|lia|exact Hc].
    + apply (Hu t1 t2 x1 x2 Hx1 Hx2 Hp1 Hp2 Hc).
  - intros t' x' Hx'. upd_case Hx' Hx; [cbn; lia|apply (Hle t' x' Hx')].
  - intros i Hi1 Hi2. destruct (Hcov i Hi1 Hi2) as [t' [x' [Hx' [Hp Hc]]]].
    destruct (Nat.eq_dec t' t) as [->|Hne].
    + exists t, y. rewrite Hx in Hx'. inversion Hx'. subst x'.
      split; [apply (nth_error_upd_same _ _ _ _ Hx)|]. split; [right; reflexivity|exact Hc].
    + exists t', x'. split; [rewrite nth_error_upd_other; assumption|auto].
  - intros t' x' Hx'. upd_case Hx' Hx; [apply (Hrts t x Hx)|apply (Hrts t' x' Hx')].
  - intros i w Hin. apply in_snoc_other in Hin; [|discriminate].
    destruct (Hw i w Hin) as [t' [x' [Hx' [Hw' Hr]]]].
    destruct (Nat.eq_dec t' t) as [->|Hne].
    + exists t, y. rewrite Hx in Hx'. inversion Hx'. subst x'.
      split; [apply (nth_error_upd_same _ _ _ _ Hx)|auto].
    + exists t', x'. split; [rewrite nth_error_upd_other; assumption|auto].
  - intros t' x' Hx' Hp. rewrite Hg. cbn [tl app]. apply in_or_app.
    upd_case Hx' Hx; [discriminate|]. left. specialize (H1 t' x' Hx' Hp). rewrite Hg in H1. exact H1.
  - intros t' x' Hx' Hp i Hi1 Hi2. apply in_or_app. left. upd_case Hx' Hx.
    + cbn [t_read_ts] in Hi2. apply (Hvis t x Hx); [lia|exact Hi1|exact Hi2].
    + apply (Hvis t' x' Hx' Hp i Hi1 Hi2).
  - intros i. rewrite (open_count_upd i _ t x y Hx). unfold y. cbn [t_read_ts t_done_read].
    specialize (Hcnt i). lia.
Qed.

(* the readMark side of doneRead: one more Done(readTs) for a transaction that is still open *)
Lemma read_side_done : forall n0 s t x, oinv n0 s -> nth_error (txns s) t = Some x ->
  t_done_read x = false ->
  ok_read n0 (er s ++ [ED (t_read_ts x)]) /\
  (forall e, In e (er s ++ [ED (t_read_ts x)]) -> ev_index e < next_ts s).
Proof.
  intros n0 s t x H Hx Hd. split.
  - apply okr_D; [apply (oi_okr _ _ H)|]. pose proof (oi_rcnt _ _ H (t_read_ts x)).
    pose proof (open_count_pos _ _ _ Hx Hd). lia.
  - intros e He. apply in_app_or in He. destruct He as [He|[<-|[]]]; [apply (oi_rB _ _ H e He)|].
    cbn. apply (oi_rts _ _ H t x Hx).
Qed.

(* Discard -> doneRead *)
Lemma oinv_done_read : forall n0 s t, oinv n0 s -> oinv n0 (orc_apply (ODoneRead t) s).
Proof.
  intros n0 s t H. cbn [orc_apply]. destruct (nth_error (txns s) t) as [x|] eqn:Hx; [|exact H].
  destruct ((2 <=? t_phase x) && negb (t_done_read x)) eqn:G; [|exact H].
  apply andb_prop in G. destruct G as [G1 G2]. apply negb_true_iff in G2.
  destruct (read_side_done n0 s t x H Hx G2) as [Rok Rb].
  pose proof H as H0.
  destruct H as [Hgt [tr [Hg Hns]] Htm Hrm Hnx Hok HB H3 H4 Hu Hle Hcov Hrts Hw H1 Hvis Hokr HrB Hcnt].
  set (y := mkTxn (t_read_ts x) (t_phase x) (t_commit_ts x) true).
  set (l := LDone (t_read_ts x)).
  assert (Eer : er (set_txns (upd t y (txns s)) (rm_do l s)) = er s ++ [ED (t_read_ts x)]).
  { change (er (set_txns (upd t y (txns s)) (rm_do l s))) with (er (rm_do l s)).
    rewrite (er_rm_do n0 s l tr Hg). cbn [label_mark l]. fold (done_mark (t_read_ts x)).
    rewrite done_mark_events. reflexivity. }
  constructor; rewrite ?Eer; unfold et; cbn [set_txns rm_do g_txn g_read txn_mark read_mark next_ts txns];
    fold (et s); auto.
  - exists (tr ++ [l]). rewrite Hg. split; [reflexivity|]. apply no_setdu_snoc; [exact Hns|discriminate].
  - rewrite wm_run_snoc, <- Hrm. reflexivity.
  - intros t' x' Hx' Hp. upd_case Hx' Hx; [apply (H3 t x Hx Hp)|apply (H3 t' x' Hx' Hp)].
  - intros t' x' Hx' Hp. upd_case Hx' Hx; [apply (H4 t x Hx Hp)|apply (H4 t' x' Hx' Hp)].
  - intros t1 t2 x1 x2 Hx1 Hx2 Hp1 Hp2 Hc.
    upd_case Hx1 Hx; upd_case Hx2 Hx; cbn [t_commit_ts t_phase] in *; try reflexivity.
    + apply (Hu t t2 x x2 Hx Hx2 Hp1 Hp2 Hc).
    + apply (Hu t1 t x1 x Hx1 Hx Hp1 Hp2 Hc).
    + apply (Hu t1 t2 x1 x2 Hx1 Hx2 Hp1 Hp2 Hc).
  - intros t' x' Hx'. upd_case Hx' Hx; [apply (Hle t x Hx)|apply (Hle t' x' Hx')].
  - intros i Hi1 Hi2. destruct (Hcov i Hi1 Hi2) as [t' [x' [Hx' [Hp Hc]]]].
    destruct (Nat.eq_dec t' t) as [->|Hne].
    + exists t, y. rewrite Hx in Hx'. inversion Hx'. subst x'.
      split; [apply (nth_error_upd_same _ _ _ _ Hx)|auto].
    + exists t', x'. split; [rewrite nth_error_upd_other; assumption|auto].
  - intros t' x' Hx'. upd_case Hx' Hx; [apply (Hrts t x Hx)|apply (Hrts t' x' Hx')].
  - intros i w Hin. destruct (Hw i w Hin) as [t' [x' [Hx' [Hw' Hr]]]].
    destruct (Nat.eq_dec t' t) as [->|Hne].
    + exists t, y. rewrite Hx in Hx'. inversion Hx'. subst x'.
      split; [apply (nth_error_upd_same _ _ _ _ Hx)|auto].
    + exists t', x'. split; [rewrite nth_error_upd_other; assumption|auto].
  - intros t' x' Hx' Hp. upd_case Hx' Hx; [apply (H1 t x Hx Hp)|apply (H1 t' x' Hx' Hp)].
  - intros t' x' Hx' Hp. upd_case Hx' Hx; [apply (Hvis t x Hx Hp)|apply (Hvis t' x' Hx' Hp)].
  - intros i. rewrite (open_count_upd i _ t x y Hx). unfold y. cbn [t_read_ts t_done_read negb].
    rewrite nB_app, nD_app. cbn [nB nD]. specialize (Hcnt i). rewrite G2, andb_false_r.
    cbn [negb]. rewrite andb_true_r. rewrite (N.eqb_sym (t_read_ts x) i). destruct (i =? t_read_ts x); lia.
Qed.

(* newCommitTs without conflict *)
Lemma oinv_commit : forall n0 s t, oinv n0 s -> oinv n0 (orc_apply (OCommit t) s).
Proof.
  intros n0 s t H. cbn [orc_apply]. destruct (nth_error (txns s) t) as [x|] eqn:Hx; [|exact H].
  destruct (t_phase x =? 2) eqn:G; [|exact H]. apply N.eqb_eq in G.
  pose proof H as H0.
  destruct H as [[trt [Hgt Hnst]] [tr [Hg Hns]] Htm Hrm Hnx Hok HB H3 H4 Hu Hle Hcov Hrts Hw H1 Hvis Hokr HrB Hcnt].
  set (ts := next_ts s).
  set (y := mkTxn (t_read_ts x) 3 ts true).
  set (s1 := if t_done_read x then s else rm_do (LDone (t_read_ts x)) s).
  set (s' := set_txns (upd t y (txns s)) (tm_do (LBegin ts) (set_next (ts + 1) s1))).
  assert (Hs1t : g_txn s1 = g_txn s /\ txn_mark s1 = txn_mark s) by (unfold s1; destruct (t_done_read x); auto).
  destruct Hs1t as [Hs1g Hs1m].
  assert (Eet : et s' = et s ++ [EB ts]).
  { unfold s', et. cbn [set_txns tm_do set_next g_txn]. rewrite Hs1g, Hgt. cbn [tl app].
    rewrite sent_events_snoc. cbn [label_mark]. rewrite begin_events. reflexivity. }
  assert (Eer : er s' = er s ++ (if t_done_read x then [] else [ED (t_read_ts x)])).
  { unfold s', er, s1. cbn [set_txns tm_do set_next g_read]. destruct (t_done_read x).
    - rewrite app_nil_r. reflexivity.
    - cbn [rm_do g_read]. rewrite Hg. cbn [tl app]. rewrite sent_events_snoc. cbn [label_mark].
      fold (done_mark (t_read_ts x)). rewrite done_mark_events. reflexivity. }
  assert (HnoD : ~ In (ED ts) (et s)).
  { intro Hc. apply (ok_read_DB n0 _ _ (ok_txn_read _ _ Hok)) in Hc. apply HB in Hc. unfold ts in Hc. lia. }
  fold s'.
  constructor; rewrite ?Eet, ?Eer.
  - exists (trt ++ [LBegin ts]). unfold s'. cbn [set_txns tm_do set_next g_txn]. rewrite Hs1g, Hgt.
    split; [reflexivity|]. apply no_setdu_snoc; [exact Hnst|discriminate].
  - unfold s', s1. cbn [set_txns tm_do set_next g_read]. destruct (t_done_read x).
    + exists tr. auto.
    + exists (tr ++ [LDone (t_read_ts x)]). cbn [rm_do g_read]. rewrite Hg. split; [reflexivity|].
      apply no_setdu_snoc; [exact Hns|discriminate].
  - unfold s'. cbn [set_txns tm_do set_next g_txn txn_mark]. rewrite Hs1g, Hs1m, wm_run_snoc, <- Htm. reflexivity.
  - unfold s', s1. cbn [set_txns tm_do set_next g_read read_mark]. destruct (t_done_read x); [exact Hrm|].
    cbn [rm_do g_read read_mark]. rewrite wm_run_snoc, <- Hrm. reflexivity.
  - unfold s'. cbn [set_txns tm_do set_next next_ts]. unfold ts. lia.
  - apply okt_B; [exact Hok|unfold ts; lia|]. intros j Hj. apply HB in Hj. unfold ts. lia.
  - intros i. unfold s'. cbn [set_txns tm_do set_next next_ts]. split.
    + intros Hin. apply in_app_or in Hin. destruct Hin as [Hin|[Hin|[]]].
      * apply HB in Hin. unfold ts. lia.
      * inversion Hin. subst i. unfold ts. lia.
    + intros [Hi1 Hi2]. apply in_or_app. destruct (N.eq_dec i ts) as [->|Hne]; [right; left; reflexivity|].
      left. apply HB. unfold ts in *. lia.
  - unfold s'. cbn [set_txns txns]. intros t' x' Hx' Hp. upd_case Hx' Hx.
    + cbn [t_commit_ts]. split; [apply in_or_app; right; left; reflexivity|].
      intro Hc. apply HnoD. apply (in_snoc_other _ _ _ Hc). discriminate.
    + destruct (H3 t' x' Hx' Hp) as [A B]. split; [apply in_or_app; left; exact A|].
      intro Hc. apply B. apply (in_snoc_other _ _ _ Hc). discriminate.
  - unfold s'. cbn [set_txns txns]. intros t' x' Hx' Hp. upd_case Hx' Hx; [discriminate|].
    apply in_or_app. left. apply (H4 t' x' Hx' Hp).
  - unfold s'. cbn [set_txns txns]. intros t1 t2 x1 x2 Hx1 Hx2 Hp1 Hp2 Hc.
    upd_case Hx1 Hx; upd_case Hx2 Hx; cbn [t_commit_ts t_phase] in *; try reflexivity.
    + pose proof (oinv_commit_lt n0 s t2 x2 H0 Hx2 Hp2). unfold y, ts in Hc. cbn [t_commit_ts] in Hc. lia.
    + pose proof (oinv_commit_lt n0 s t1 x1 H0 Hx1 Hp1). unfold y, ts in Hc. cbn [t_commit_ts] in Hc. lia.
    + apply (Hu t1 t2 x1 x2 Hx1 Hx2 Hp1 Hp2 Hc).
  - unfold s'. cbn [set_txns txns]. intros t' x' Hx'. upd_case Hx' Hx; [cbn; lia|apply (Hle t' x' Hx')].
  - unfold s'. cbn [set_txns tm_do set_next txns next_ts]. intros i Hi1 Hi2.
    destruct (N.eq_dec i ts) as [->|Hne].
    + exists t, y. split; [apply (nth_error_upd_same _ _ _ _ Hx)|]. split; [left; reflexivity|reflexivity].
    + assert (Hlt : i < next_ts s) by (unfold ts in *; lia).
      destruct (Hcov i Hi1 Hlt) as [t' [x' [Hx' [Hp Hc]]]]. exists t', x'.
      split; [|auto]. rewrite nth_error_upd_other; [exact Hx'|]. intro. subst t'. rewrite Hx in Hx'.
      inversion Hx'. subst x'. lia.
  - unfold s'. cbn [set_txns tm_do set_next txns next_ts]. intros t' x' Hx'.
    upd_case Hx' Hx; [pose proof (Hrts t x Hx); cbn; unfold ts; lia|pose proof (Hrts t' x' Hx'); unfold ts; lia].
  - unfold s'. cbn [set_txns txns]. intros i w Hin. apply in_snoc_other in Hin; [|discriminate].
    destruct (Hw i w Hin) as [t' [x' [Hx' [Hw' Hr]]]].
    destruct (Nat.eq_dec t' t) as [->|Hne].
    + exists t, y. rewrite Hx in Hx'. inversion Hx'. subst x'.
      split; [apply (nth_error_upd_same _ _ _ _ Hx)|auto].
    + exists t', x'. split; [rewrite nth_error_upd_other; assumption|auto].
  - unfold s'. cbn [set_txns tm_do set_next txns g_txn]. rewrite Hs1g, Hgt. cbn [tl app].
    intros t' x' Hx' Hp. apply in_or_app.
    upd_case Hx' Hx; [discriminate|]. left. specialize (H1 t' x' Hx' Hp). rewrite Hgt in H1. exact H1.
  - unfold s'. cbn [set_txns txns]. intros t' x' Hx' Hp i Hi1 Hi2. apply in_or_app. left. upd_case Hx' Hx.
    + cbn [t_read_ts] in Hi2. apply (Hvis t x Hx); [lia|exact Hi1|exact Hi2].
    + apply (Hvis t' x' Hx' Hp i Hi1 Hi2).
  - destruct (t_done_read x) eqn:Ed; [rewrite app_nil_r; exact Hokr|].
    apply (read_side_done n0 s t x H0 Hx Ed).
  - unfold s'. cbn [set_txns tm_do set_next next_ts]. intros e He.
    assert (ev_index e < next_ts s); [|unfold ts; lia].
    destruct (t_done_read x) eqn:Ed; [rewrite app_nil_r in He; apply (HrB e He)|].
    apply (proj2 (read_side_done n0 s t x H0 Hx Ed) e He).
  - unfold s'. cbn [set_txns txns]. intros i. rewrite (open_count_upd i _ t x y Hx). unfold y.
    cbn [t_read_ts t_done_read negb]. rewrite andb_false_r. specialize (Hcnt i).
    destruct (t_done_read x) eqn:Ed.
    + rewrite app_nil_r, andb_false_r. lia.
    + rewrite nB_app, nD_app. cbn [nB nD negb]. rewrite andb_true_r.
      rewrite (N.eqb_sym (t_read_ts x) i). destruct (i =? t_read_ts x); lia.
Qed.

Lemma orc_apply_next_mono : forall l s, next_ts s <= next_ts (orc_apply l s).
Proof.
  intros l s. destruct l; cbn [orc_apply]; try (cbn; lia);
    destruct (nth_error (txns s) t) as [x|]; try lia;
    match goal with |- context [if ?c then _ else _] => destruct c end; cbn; lia.
Qed.

Lemma oinv_step : forall n0 s l, oinv n0 s -> next_ts s <= max_u64 -> oinv n0 (orc_apply l s).
Proof.
  intros n0 s l H Hn. destruct l.
  - apply oinv_begin_read; exact H.
  - apply oinv_fast; assumption.
  - apply oinv_wait_send; exact H.
  - apply oinv_wake; assumption.
  - apply oinv_commit; exact H.
  - apply oinv_ack; exact H.
  - apply oinv_done_read; exact H.
  - apply oinv_proc_txn; exact H.
  - apply oinv_proc_read; exact H.
Qed.

Lemma orc_run_snoc : forall tr l s, orc_run (tr ++ [l]) s = orc_apply l (orc_run tr s).
Proof. intros. unfold orc_run. rewrite fold_left_app. reflexivity. Qed.

Lemma orc_run_next_mono : forall tr s, next_ts s <= next_ts (orc_run tr s).
Proof.
  induction tr as [|l tr IH] using rev_ind; intros s; [cbn; lia|].
  rewrite orc_run_snoc. pose proof (orc_apply_next_mono l (orc_run tr s)). specialize (IH s). lia.
Qed.

(* the invariant holds in every reachable state whose nextTxnTs has not overflowed *)
Theorem oinv_reachable : forall n0 tr,
  next_ts (orc_run tr (orc_init n0)) <= max_u64 -> oinv n0 (orc_run tr (orc_init n0)).
Proof.
  intros n0 tr. induction tr as [|l tr IH] using rev_ind; intros Hn.
  - apply oinv_init.
  - rewrite orc_run_snoc in *. pose proof (orc_apply_next_mono l (orc_run tr (orc_init n0))).
    apply oinv_step; [apply IH; lia|lia].
Qed.

(* ---------- the oracle-level statements of C34 ---------- *)

(* a reader that is past its wait never has an unfinished commit at or below its timestamp *)
Theorem orc_no_unfinished_visible : forall n0 tr,
  let s := orc_run tr (orc_init n0) in
  next_ts s <= max_u64 ->
  forall t x t' x', nth_error (txns s) t = Some x -> 2 <= t_phase x ->
    nth_error (txns s) t' = Some x' -> t_phase x' = 3 ->
    t_read_ts x < t_commit_ts x'.
Proof.
  intros n0 tr s Hn t x t' x' Hx Hp Hx' Hp'.
  pose proof (oinv_reachable n0 tr Hn) as H. fold s in H.
  destruct (oi_ph3 _ _ H t' x' Hx' Hp') as [HB HD].
  apply (oi_B _ _ H) in HB. destruct HB as [Hc1 Hc2].
  destruct (N.lt_ge_cases (t_read_ts x) (t_commit_ts x')) as [Hlt|Hge]; [exact Hlt|exfalso].
  apply HD. apply (oi_vis _ _ H t x Hx Hp); assumption.
Qed.

(* ... equivalently: every timestamp in (n0, readTs] belongs to a commit that called doneCommit *)
Theorem orc_visible_acked : forall n0 tr,
  let s := orc_run tr (orc_init n0) in
  next_ts s <= max_u64 ->
  forall t x, nth_error (txns s) t = Some x -> 2 <= t_phase x ->
  forall i, n0 < i -> i <= t_read_ts x ->
  exists t' x', nth_error (txns s) t' = Some x' /\ t_phase x' = 4 /\ t_commit_ts x' = i.
Proof.
  intros n0 tr s Hn t x Hx Hp i Hi1 Hi2.
  pose proof (oinv_reachable n0 tr Hn) as H. fold s in H.
  pose proof (oi_rts _ _ H t x Hx) as [_ Hr].
  destruct (oi_cover _ _ H i Hi1 ltac:(lia)) as [t' [x' [Hx' [[Hp'|Hp'] Hc]]]].
  - pose proof (orc_no_unfinished_visible n0 tr Hn t x t' x' Hx Hp Hx' Hp') as Hlt. fold s in Hlt. lia.
  - exists t', x'. auto.
Qed.

Lemma ok_txn_nB_le1 : forall d0 es, ok_txn d0 es -> forall i, (nB es i <= 1)%Z.
Proof.
  intros d0 es H. induction H as [|es i H IH Hd Hj|es i H IH Hb Hd|es i w H IH]; intros k.
  - cbn. lia.
  - rewrite nB_app. cbn [nB]. destruct (k =? i) eqn:E; [|specialize (IH k); lia].
    apply N.eqb_eq in E. subst k.
    assert (nB es i = 0)%Z; [|lia]. pose proof (nB_nonneg es i).
    destruct (Z.eq_dec (nB es i) 0) as [E0|E0]; [exact E0|exfalso].
    assert (Hin : In (EB i) es) by (apply nB_pos_In; lia). specialize (Hj i Hin). lia.
  - rewrite nB_app. cbn [nB]. specialize (IH k). lia.
  - rewrite nB_app. cbn [nB]. specialize (IH k). lia.
Qed.

(* both process goroutines stay alive: no assertion failure, no endless loop *)
Theorem orc_marks_alive : forall n0 tr,
  let s := orc_run tr (orc_init n0) in
  next_ts s <= max_u64 ->
  st (ps (txn_mark s)) = Running /\ st (ps (read_mark s)) = Running.
Proof.
  intros n0 tr s Hn. pose proof (oinv_reachable n0 tr Hn) as H. fold s in H.
  assert (Hn0 : n0 < max_u64) by (pose proof (oi_next _ _ H); lia).
  split.
  - destruct (txn_mark_split n0 s H Hn0) as [[Hp _]|[pm [Het [_ Hp]]]]; [rewrite Hp; reflexivity|].
    pose proof (oinv_bounded_et n0 s H Hn) as Hb. pose proof (oi_okt _ _ H) as Hok.
    rewrite Het in Hb, Hok. rewrite Hp. apply (txn_sound n0 _ _ Hn0 Hb Hok).
  - destruct (read_mark_split n0 s H Hn0) as [[Hp _]|[pm [Het [_ Hp]]]]; [rewrite Hp; reflexivity|].
    pose proof (oinv_bounded_er n0 s H Hn) as Hb. pose proof (oi_okr _ _ H) as Hok.
    rewrite Het in Hb, Hok. rewrite Hp. apply (read_sound n0 _ _ Hn0 Hb Hok).
Qed.

(* txnMark.DoneUntil is strictly below every commit timestamp that has not been acked *)
Theorem orc_txn_mark_sound : forall n0 tr,
  let s := orc_run tr (orc_init n0) in
  next_ts s <= max_u64 ->
  forall t x, nth_error (txns s) t = Some x -> t_phase x = 3 ->
  done_until (ps (txn_mark s)) < t_commit_ts x.
Proof.
  intros n0 tr s Hn t x Hx Hp. pose proof (oinv_reachable n0 tr Hn) as H. fold s in H.
  assert (Hn0 : n0 < max_u64) by (pose proof (oi_next _ _ H); lia).
  destruct (oi_ph3 _ _ H t x Hx Hp) as [HB HD].
  destruct (txn_mark_split n0 s H Hn0) as [[Hp0 _]|[pm [Het [_ Hp0]]]].
  - rewrite Hp0. cbn. apply (oi_B _ _ H) in HB. lia.
  - pose proof (oinv_bounded_et n0 s H Hn) as Hb. pose proof (oi_okt _ _ H) as Hok.
    rewrite Het in Hb, Hok, HB, HD. rewrite Hp0. apply (txn_sound n0 _ _ Hn0 Hb Hok); assumption.
Qed.

(* readMark.DoneUntil never passes the read timestamp of a transaction that has not called doneRead *)
Theorem orc_read_mark_le : forall n0 tr,
  let s := orc_run tr (orc_init n0) in
  next_ts s <= max_u64 ->
  forall t x, nth_error (txns s) t = Some x -> t_done_read x = false ->
  done_until (ps (read_mark s)) <= t_read_ts x.
Proof.
  intros n0 tr s Hn t x Hx Hd. pose proof (oinv_reachable n0 tr Hn) as H. fold s in H.
  assert (Hn0 : n0 < max_u64) by (pose proof (oi_next _ _ H); lia).
  destruct (read_mark_split n0 s H Hn0) as [[Hp0 _]|[pm [Het [_ Hp0]]]].
  - rewrite Hp0. cbn. lia.
  - pose proof (oinv_bounded_er n0 s H Hn) as Hb. pose proof (oi_okr _ _ H) as Hok.
    pose proof (oi_rcnt _ _ H (t_read_ts x)) as Hc. pose proof (open_count_pos _ _ _ Hx Hd).
    rewrite Het in Hb, Hok, Hc. rewrite Hp0. apply (read_sound n0 _ _ Hn0 Hb Hok). lia.
Qed.

(* no stranded reader: once the txnMark channel is drained and every commit at or below the
   read timestamp has called doneCommit, the fast path is open and a sent waiter is released *)
Theorem orc_reader_released : forall n0 tr,
  let s := orc_run tr (orc_init n0) in
  next_ts s <= max_u64 ->
  queue (txn_mark s) = [] ->
  forall t x, nth_error (txns s) t = Some x -> t_phase x <= 1 ->
  (forall t' x', nth_error (txns s) t' = Some x' -> t_phase x' = 3 -> t_read_ts x < t_commit_ts x') ->
  t_read_ts x <= done_until (ps (txn_mark s)) /\
  (t_phase x = 1 -> released (waiter_id t) (txn_mark s) = true).
Proof.
  intros n0 tr s Hn Hq t x Hx Hp Hall. pose proof (oinv_reachable n0 tr Hn) as H. fold s in H.
  assert (Hn0 : n0 < max_u64) by (pose proof (oi_next _ _ H); lia).
  destruct (txn_mark_split n0 s H Hn0) as [[_ Hq']|[pm [Het [Hsent Hp0]]]]; [contradiction|].
  rewrite Hq in Het, Hsent. cbn [marks_events flat_map] in Het. rewrite app_nil_r in Het, Hsent.
  pose proof (oinv_bounded_et n0 s H Hn) as Hb. pose proof (oi_okt _ _ H) as Hok.
  pose proof (oi_rts _ _ H t x Hx) as [Hr1 Hr2].
  assert (Hdu : t_read_ts x <= done_until (ps (txn_mark s))).
  { rewrite Hp0, <- Het. apply (read_complete n0 (et s) (t_read_ts x) Hn0 Hb (ok_txn_read _ _ Hok)).
    - destruct (N.eq_dec (t_read_ts x) n0) as [E|E]; [left; exact E|right]. apply (oi_B _ _ H). lia.
    - intros j Hj. pose proof (ok_read_nD_le n0 _ (ok_txn_read _ _ Hok) j) as Hle.
      pose proof (ok_txn_nB_le1 n0 _ Hok j) as Hle1. pose proof (nD_nonneg (et s) j).
      destruct (N.le_gt_cases j n0) as [Hlow|Hhigh].
      + assert (nB (et s) j = 0)%Z; [|lia]. pose proof (nB_nonneg (et s) j).
        destruct (Z.eq_dec (nB (et s) j) 0) as [E0|E0]; [exact E0|exfalso].
        assert (Hin : In (EB j) (et s)) by (apply nB_pos_In; lia). apply (oi_B _ _ H) in Hin. lia.
      + destruct (oi_cover _ _ H j Hhigh ltac:(lia)) as [t' [x' [Hx' [[Hp'|Hp'] Hc]]]].
        * specialize (Hall t' x' Hx' Hp'). lia.
        * pose proof (oi_ph4 _ _ H t' x' Hx' Hp') as HD. rewrite Hc in HD. apply nD_pos_In in HD. lia. }
  split; [exact Hdu|]. intros Hp1.
  apply released_In. rewrite Hp0.
  destruct (read_contract_running n0 (et s) Hn0 Hb (ok_txn_read _ _ Hok)) as [Hrun _].
  rewrite <- Het. apply (waiter_released n0 (et s) (t_read_ts x) (waiter_id t) Hrun).
  - pose proof (oi_ph1 _ _ H t x Hx Hp1) as Hin.
    unfold et, sent_events. apply (in_marks_events _ (wait_mark (t_read_ts x) (waiter_id t))); [|left; reflexivity].
    apply (in_sent_marks _ _ _ Hin). reflexivity.
  - rewrite Het, <- Hp0. exact Hdu.
Qed.
