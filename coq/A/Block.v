(* Block.v — table/builder.go (header, keyDiff, addHelper, shouldFinishBlock, finishBlock),
   table/table.go (Table.block: parsing a block from its tail), table/iterator.go (blockIterator).
   Definitions only; proofs in BlockProofs.v.

   Go run-time panics (slice bounds) and y.AssertTrue failures (log.Fatalf: the process exits) are
   explicit: None.
   Not modelled (transparent layers, exercised by the harness): compression, encryption, the
   block checksum's content (an arbitrary byte string [cs] here), block cache, reference counts. *)
From Verif Require Import Bytes Uvarint Keys Codec.
Open Scope N_scope.

Definition u16 : N := 65536.

Definition zlen {A} (l : list A) : Z := Z.of_nat (length l).

(* Go slice expression l[lo:hi] with run-time indices (len = cap assumed): None = panic *)
Definition slice (l : bytes) (lo hi : Z) : option bytes :=
  if ((lo <? 0) || (hi <? lo) || (zlen l <? hi))%Z then None
  else Some (firstn (Z.to_nat (hi - lo)) (skipn (Z.to_nat lo) l)).

(* ---------- generic sort.Search with a state-passing predicate ----------
   sort.Search(n, f): i, j := 0, n; for i < j { h := int(uint(i+j) >> 1);
                       if !f(h) { i = h + 1 } else { j = h } }; return i
   probe s h = None: the predicate panicked. *)
Section BSearch.
  Context {St : Type}.
  Variable probe : St -> Z -> option (bool * St).
  Fixpoint bsearch (fuel : nat) (i j : Z) (s : St) : option (Z * St) :=
    if (i <? j)%Z then
      match fuel with
      | O => None
      | S f =>
          let h := ((i + j) / 2)%Z in
          match probe s h with
          | None => None
          | Some (b, s') => if b then bsearch f i h s' else bsearch f (h + 1)%Z j s'
          end
      end
    else Some (i, s).
End BSearch.

(* ---------- builder ---------- *)

(* common prefix length: the loop of Builder.keyDiff *)
Fixpoint cpl (a b : bytes) : nat :=
  match a, b with
  | x :: a', y :: b' => if x =? y then S (cpl a' b') else O
  | _, _ => O
  end.

(* Builder.keyDiff(newKey) = newKey[i:] *)
Definition key_diff (base key : bytes) : bytes := skipn (cpl key base) key.

(* header{overlap, diff uint16}.Encode: raw struct memory, little endian (amd64) *)
Definition bh_encode (ov df : N) : bytes := le_enc 2 ov ++ le_enc 2 df.

(* header.Decode(buf): copy(h, buf[:4]) — panics when len(buf) < 4 *)
Definition bh_decode (b : bytes) : option (N * N) :=
  match slice b 0 4 with
  | None => None
  | Some h => Some (le_dec (firstn 2 h), le_dec (skipn 2 h))
  end.

(* bblock: data[:end], baseKey, entryOffsets *)
Record bblock := mkBB { bb_data : bytes; bb_base : bytes; bb_offs : list N }.
Definition bb_empty : bblock := mkBB [] [] [].

(* Builder.addHelper (block part).  None: y.AssertTrue(len <= MaxUint16) fails; also None for a
   value whose encoding is 4 GiB or more (EncodedSize wraps in uint32: outside the modelled domain). *)
Definition add_helper (b : bblock) (key : bytes) (v : value_struct) : option bblock :=
  let '(base', diff) :=
    if (length (bb_base b) =? 0)%nat then (key, key) else (bb_base b, key_diff (bb_base b) key) in
  let ov := N.of_nat (length key - length diff) in
  let df := N.of_nat (length diff) in
  if (65535 <? ov) || (65535 <? df) then None
  else if negb (N.of_nat (length (vs_encode v)) <? two32) then None
  else Some (mkBB (bb_data b ++ bh_encode ov df ++ diff ++ vs_encode v)
                  base'
                  (bb_offs b ++ [N.of_nat (length (bb_data b)) mod two32])).

(* Builder.shouldFinishBlock; bs = opts.BlockSize, enc = shouldEncrypt().  None = AssertTrue fails *)
Definition should_finish_block (bs : N) (enc : bool) (b : bblock) (key : bytes) (v : value_struct)
  : option bool :=
  let n := N.of_nat (length (bb_offs b)) in
  if n =? 0 then Some false
  else if negb (((n mod two32 + 1) * 4 + 4 + 8 + 4) mod two32 <? 4294967295) then None
  else
    let eos := ((n + 1) * 4 + 4 + 8 + 4) mod two32 in
    let end_ := N.of_nat (length (bb_data b)) in
    let est0 := (end_ mod two32 + 6 + N.of_nat (length key) mod two32 + vs_encoded_size v + eos) mod two32 in
    let est := if enc then (est0 + 16) mod two32 else est0 in
    if negb (end_ + est <? 4294967295) then None
    else Some (bs mod two32 <? est).

(* a block split policy: the decision taken before each Add, given the current block *)
Definition policy := bblock -> bytes -> value_struct -> option bool.

(* the part of finishBlock the checksum is computed over:
   entries ‖ entryOffsets (raw uint32 memory: little endian) ‖ len(entryOffsets) (y.U32ToBytes: BIG endian) *)
Definition block_payload (b : bblock) : bytes :=
  bb_data b ++ concat (map (le_enc 4) (bb_offs b)) ++ be_enc 4 (N.of_nat (length (bb_offs b)) mod two32).

(* the block as stored (before compression / encryption): payload ‖ checksum ‖ len(checksum) *)
Definition block_raw (payload cs : bytes) : bytes :=
  payload ++ cs ++ be_enc 4 (N.of_nat (length cs) mod two32).

Record bstate := mkBS { bs_cur : bblock; bs_done : list bblock; bs_maxv : N; bs_nkeys : N }.
Definition bs_init : bstate := mkBS bb_empty [] 0 0.

(* finishBlock + (in addInternal) the fresh curBlock *)
Definition finish_block (st : bstate) : bstate :=
  if (length (bb_offs (bs_cur st)) =? 0)%nat then mkBS bb_empty (bs_done st) (bs_maxv st) (bs_nkeys st)
  else mkBS bb_empty (bs_done st ++ [bs_cur st]) (bs_maxv st) (bs_nkeys st).

(* Builder.addInternal = shouldFinishBlock ; finishBlock ; addHelper *)
Definition add_internal (pol : policy) (st : bstate) (key : bytes) (v : value_struct) : option bstate :=
  match pol (bs_cur st) key v with
  | None => None
  | Some fin =>
      let st1 := if fin then finish_block st else st in
      match add_helper (bs_cur st1) key v with
      | None => None
      | Some b' =>
          let ver := parse_ts key in
          Some (mkBS b' (bs_done st1) (if bs_maxv st1 <? ver then ver else bs_maxv st1) (bs_nkeys st1 + 1))
      end
  end.

Definition kv := (bytes * value_struct)%type.

Fixpoint add_all (pol : policy) (st : bstate) (es : list kv) : option bstate :=
  match es with
  | [] => Some st
  | (k, v) :: r => match add_internal pol st k v with None => None | Some st' => add_all pol st' r end
  end.

(* Builder.Done: the final finishBlock.  Result: finished blocks, maxVersion, uint32(len(keyHashes)) *)
Definition build (pol : policy) (es : list kv) : option (list bblock * N * N) :=
  match add_all pol bs_init es with
  | None => None
  | Some st => let st' := finish_block st in Some (bs_done st', bs_maxv st', bs_nkeys st' mod two32)
  end.

(* ---------- reading a block: Table.block (after decrypt / decompress) ---------- *)

(* Block{data, entryOffsets, entriesIndexStart}: blk_data = data[:entriesIndexStart] (what
   blockIterator.setBlock keeps), blk_offs = entryOffsets *)
Record blk := mkBlk { blk_data : bytes; blk_offs : list N }.

Fixpoint u32s_le (n : nat) (b : bytes) : list N :=   (* y.BytesToU32Slice *)
  match n with
  | O => []
  | S n' => le_dec (firstn 4 b) :: u32s_le n' (skipn 4 b)
  end.

Definition parse_block (raw : bytes) : option blk :=
  let len := zlen raw in
  let rp := (len - 4)%Z in
  match slice raw rp (rp + 4) with
  | None => None
  | Some b4 =>
      let chk := Z.of_N (be_dec b4) in
      if (len <? chk)%Z then None       (* "invalid checksum length" error *)
      else
        let rp := (rp - chk)%Z in
        match slice raw rp (rp + chk) with
        | None => None
        | Some _cs =>
            let rp := (rp - 4)%Z in
            match slice raw rp (rp + 4) with
            | None => None
            | Some n4 =>
                let ne := Z.of_N (be_dec n4) in
                let eis := (rp - ne * 4)%Z in
                match slice raw eis (eis + ne * 4), slice raw 0 (rp + 4) with
                | Some ob, Some data =>
                    match slice data 0 eis with
                    | Some ents => Some (mkBlk ents (u32s_le (Z.to_nat ne) ob))
                    | None => None
                    end
                | _, _ => None
                end
            end
        end
  end.

(* ---------- blockIterator ---------- *)
Record biter := mkBI { bi_data : bytes; bi_offs : list N; bi_idx : Z; bi_eof : bool;
                       bi_base : bytes; bi_key : bytes; bi_val : bytes; bi_prev : N }.

Definition bi_zero : biter := mkBI [] [] 0 false [] [] [] 0.      (* Go zero value *)

(* setBlock: nothing of the previous block survives (key[:0], baseKey[:0], prevOverlap = 0) *)
Definition set_block (b : blk) : biter := mkBI (blk_data b) (blk_offs b) 0 false [] [] [] 0.

Definition nthN (l : list N) (i : Z) : Z := Z.of_N (nth (Z.to_nat i) l 0).

(* blockIterator.setIdx.  uint16 arithmetic of `headerSize + h.diff` written out (mod u16).
   itr.key[:n] / baseKey[a:b] beyond len but within cap do not panic in Go and would expose
   stale bytes; they are None here (never reached on built blocks: BlockProofs.set_idx_ok). *)
Definition set_idx (it : biter) (i : Z) : option biter :=
  let n := zlen (bi_offs it) in
  if ((n <=? i) || (i <? 0))%Z then
    Some (mkBI (bi_data it) (bi_offs it) i true (bi_base it) (bi_key it) (bi_val it) (bi_prev it))
  else
    let data := bi_data it in
    let start := nthN (bi_offs it) i in
    match (if (length (bi_base it) =? 0)%nat then
             match bh_decode data with
             | None => None
             | Some (_, df) => slice data 4 (Z.of_N ((4 + df) mod u16))
             end
           else Some (bi_base it)) with
    | None => None
    | Some base =>
        let endo := if (i + 1 =? n)%Z then zlen data else nthN (bi_offs it) (i + 1) in
        match slice data start endo with
        | None => None
        | Some ed =>
            match bh_decode ed with
            | None => None
            | Some (ov, df) =>
                match (if bi_prev it <? ov then
                         match slice (bi_key it) 0 (Z.of_N (bi_prev it)),
                               slice base (Z.of_N (bi_prev it)) (Z.of_N ov) with
                         | Some a, Some b => Some (a ++ b)
                         | _, _ => None
                         end
                       else Some (bi_key it)) with
                | None => None
                | Some key1 =>
                    let voff := Z.of_N ((4 + df) mod u16) in
                    match slice ed 4 voff, slice key1 0 (Z.of_N ov), slice ed voff (zlen ed) with
                    | Some dk, Some kp, Some v =>
                        Some (mkBI data (bi_offs it) i false base (kp ++ dk) v ov)
                    | _, _, _ => None
                    end
                end
            end
        end
    end.

(* the predicate closure of blockIterator.seek *)
Definition seek_probe (key : bytes) (start : Z) (s : biter) (h : Z) : option (bool * biter) :=
  if (h <? start)%Z then Some (false, s)
  else match set_idx s h with
       | None => None
       | Some s' =>
           match compare_keys (bi_key s') key with
           | None => None
           | Some c => Some (match c with Lt => false | _ => true end, s')
           end
       end.

(* blockIterator.seek(key, whence): current = true means whence == current *)
Definition bi_seek (it : biter) (key : bytes) (current : bool) : option biter :=
  let start := if current then bi_idx it else 0%Z in
  let it0 := mkBI (bi_data it) (bi_offs it) (bi_idx it) false (bi_base it) (bi_key it) (bi_val it) (bi_prev it) in
  match bsearch (seek_probe key start) (length (bi_offs it)) 0 (zlen (bi_offs it)) it0 with
  | None => None
  | Some (r, s) => set_idx s r
  end.

Definition bi_first (it : biter) := set_idx it 0.
Definition bi_last (it : biter) := set_idx it (zlen (bi_offs it) - 1).
Definition bi_next (it : biter) := set_idx it (bi_idx it + 1).
Definition bi_prev_ (it : biter) := set_idx it (bi_idx it - 1).

(* ---------- specification side: what a block built from a chunk of entries contains ---------- *)

(* the bytes addHelper appends for one entry, given the block's base key ([] = first entry) *)
Definition enc_entry (base : bytes) (e : kv) : bytes :=
  let k := fst e in
  let diff := if (length base =? 0)%nat then k else key_diff base k in
  bh_encode (N.of_nat (length k - length diff)) (N.of_nat (length diff)) ++ diff ++ vs_encode (snd e).

Definition chunk_encs (c : list kv) : list bytes :=
  match c with
  | [] => []
  | e0 :: r => enc_entry [] e0 :: map (enc_entry (fst e0)) r
  end.

Fixpoint prefix_sums (acc : nat) (l : list bytes) : list N :=
  match l with
  | [] => []
  | x :: r => N.of_nat acc :: prefix_sums (acc + length x) r
  end.

(* the finished block of a chunk (non-empty keys) *)
Definition chunk_block (c : list kv) : bblock :=
  mkBB (concat (chunk_encs c)) (match c with [] => [] | e0 :: _ => fst e0 end)
       (prefix_sums 0 (chunk_encs c)).

Definition chunk_blk (c : list kv) : blk :=
  mkBlk (concat (chunk_encs c)) (prefix_sums 0 (chunk_encs c)).

(* iterate a block from seekToFirst with next until EOF: the decoded (key, value) list *)
Fixpoint bi_collect (fuel : nat) (it : biter) : option (list (bytes * option value_struct)) :=
  match fuel with
  | O => Some []
  | S f =>
      if bi_eof it then Some []
      else match bi_next it with
           | None => None
           | Some it' =>
               match bi_collect f it' with
               | None => None
               | Some r => Some ((bi_key it, vs_decode (bi_val it)) :: r)
               end
           end
  end.

Definition block_decode_all (b : blk) : option (list (bytes * option value_struct)) :=
  match bi_first (set_block b) with
  | None => None
  | Some it => bi_collect (S (length (blk_offs b))) it
  end.
