(* TrieProofs.v — proofs about A/Trie.v (C32). *)
From Coq Require Import ZifyN ZifyNat ZifyBool.
From Verif Require Import Bytes BytesProofs Trie.
Open Scope N_scope.

(* ------------------------------------------------------------------ *)
(* induction over the nested node type                                  *)
Section NodeInd.
  Variable P : node -> Prop.
  Hypothesis Hnode : forall ids ign ch,
    (forall c, ign = Some c -> P c) -> Forall (fun bc => P (snd bc)) ch -> P (Node ids ign ch).
  Lemma node_ind' : forall n, P n.
  Proof.
    fix IH 1. intros [ids ign ch]. apply Hnode.
    - intros c Hc. destruct ign as [c'|]; [|discriminate]. injection Hc as <-. apply IH.
    - revert ch. fix IHch 1. intros [|[b c] r]; [constructor|].
      constructor; [change (P c); apply IH|apply IHch].
  Qed.
End NodeInd.

(* ------------------------------------------------------------------ *)
(* ids stored at the node a path leads to                               *)
Fixpoint lookup (p : path) (n : node) : list N :=
  match p with
  | [] => n_ids n
  | None :: r => match n_ign n with Some c => lookup r c | None => [] end
  | Some b :: r => match child_get b (n_children n) with Some c => lookup r c | None => [] end
  end.

Fixpoint path_eqb (p q : path) : bool :=
  match p, q with
  | [], [] => true
  | None :: p', None :: q' => path_eqb p' q'
  | Some a :: p', Some b :: q' => (a =? b) && path_eqb p' q'
  | _, _ => false
  end.

Lemma path_eqb_eq p q : path_eqb p q = true <-> p = q.
Proof.
  revert q. induction p as [|[a|] p IH]; intros [|[b|] q]; cbn [path_eqb]; split; intros H;
    try discriminate; try reflexivity.
  - apply andb_true_iff in H. destruct H as [H1 H2]. apply N.eqb_eq in H1. apply IH in H2. congruence.
  - inversion H. subst. rewrite N.eqb_refl. apply IH. reflexivity.
  - apply IH in H. congruence.
  - inversion H. subst. apply IH. reflexivity.
Qed.

Lemma path_eqb_refl p : path_eqb p p = true.
Proof. apply path_eqb_eq. reflexivity. Qed.

Lemma lookup_empty p : lookup p empty_node = [].
Proof. destruct p as [|[b|] p]; reflexivity. Qed.

Lemma lookup_or_empty_ign q o :
  lookup q (or_empty o) = match o with Some c => lookup q c | None => [] end.
Proof. destruct o; [reflexivity|apply lookup_empty]. Qed.

(* ---- the children map ---- *)
Lemma child_get_set_same b c l : child_get b (child_set b c l) = Some c.
Proof.
  induction l as [|[b' c'] r IH]; cbn [child_set child_get].
  - rewrite N.eqb_refl. reflexivity.
  - destruct (b' =? b) eqn:E; cbn [child_get].
    + rewrite N.eqb_refl. reflexivity.
    + rewrite E. exact IH.
Qed.

Lemma child_get_set_other b b2 c l : b2 <> b -> child_get b2 (child_set b c l) = child_get b2 l.
Proof.
  intros Hne. induction l as [|[b' c'] r IH]; cbn [child_set child_get].
  - destruct (N.eqb_spec b b2); [congruence|reflexivity].
  - destruct (N.eqb_spec b' b) as [E|E]; cbn [child_get].
    + subst b'. destruct (N.eqb_spec b b2); [congruence|reflexivity].
    + rewrite IH. reflexivity.
Qed.

Lemma child_get_in b l c : child_get b l = Some c -> In (b, c) l.
Proof.
  induction l as [|[b' c'] r IH]; cbn [child_get]; [discriminate|].
  destruct (N.eqb_spec b' b) as [E|E].
  - intros H. inversion H. subst. left. reflexivity.
  - intros H. right. apply IH. exact H.
Qed.

Lemma child_get_none b l : child_get b l = None <-> ~ In b (map fst l).
Proof.
  induction l as [|[b' c'] r IH]; cbn [child_get map fst In]; [tauto|].
  destruct (N.eqb_spec b' b) as [E|E].
  - split; [discriminate|]. intros H. exfalso. apply H. left. exact E.
  - rewrite IH. tauto.
Qed.

Lemma child_set_keys b c l :
  map fst (child_set b c l) = if existsb (N.eqb b) (map fst l) then map fst l else map fst l ++ [b].
Proof.
  induction l as [|[b' c'] r IH]; cbn [child_set map fst existsb]; [reflexivity|].
  destruct (N.eqb_spec b' b) as [E|E].
  - subst b'. rewrite N.eqb_refl. reflexivity.
  - destruct (N.eqb_spec b b'); [congruence|]. cbn [orb map fst]. rewrite IH.
    destruct (existsb (N.eqb b) (map fst r)); reflexivity.
Qed.

Lemma child_set_Forall (P : N * node -> Prop) b c l :
  Forall P l -> P (b, c) -> Forall P (child_set b c l).
Proof.
  intros Hl Hc. induction Hl as [|[b' c'] r Hx Hr IH]; cbn [child_set].
  - constructor; [exact Hc|constructor].
  - destruct (b' =? b); constructor; try assumption.
Qed.

(* ------------------------------------------------------------------ *)
(* Get = union over the matching paths                                  *)
Lemma get_ids_spec key : forall n id,
  In id (get_ids key n) <-> exists p, matches p key = true /\ In id (lookup p n).
Proof.
  induction key as [|b r IH]; intros [ids ign ch] id; cbn [get_ids].
  - rewrite app_nil_r. split.
    + intros H. exists []. split; [reflexivity|exact H].
    + intros [p [Hm Hin]]. destruct p as [|[x|] p]; cbn [matches] in Hm; try discriminate. exact Hin.
  - rewrite !in_app_iff. split.
    + intros [H|[H|H]].
      * exists []. split; [reflexivity|exact H].
      * destruct ign as [c|]; [|destruct H]. apply IH in H. destruct H as [p [Hm Hin]].
        exists (None :: p). split; [exact Hm|exact Hin].
      * destruct (child_get b ch) as [c|] eqn:Hc; [|destruct H]. apply IH in H.
        destruct H as [p [Hm Hin]]. exists (Some b :: p). split.
        -- cbn [matches]. rewrite N.eqb_refl. exact Hm.
        -- cbn [lookup n_children]. rewrite Hc. exact Hin.
    + intros [p [Hm Hin]]. destruct p as [|[x|] p]; cbn [matches lookup n_ids n_ign n_children] in *.
      * left. exact Hin.
      * apply andb_true_iff in Hm. destruct Hm as [Hx Hm]. apply N.eqb_eq in Hx. subst x.
        right. right. destruct (child_get b ch) as [c|]; [|destruct Hin]. apply IH.
        exists p. split; assumption.
      * right. left. destruct ign as [c|]; [|destruct Hin]. apply IH. exists p. split; assumption.
Qed.

(* ------------------------------------------------------------------ *)
(* fix(set) appends the id at exactly the pattern's path                *)
Lemma lookup_fix_set prefix : forall n ignore id q,
  lookup q (fix_set n prefix ignore id) =
  lookup q n ++ (if path_eqb (mk_path prefix ignore) q then [id] else []).
Proof.
  induction prefix as [|byt rest IH]; intros [ids ign ch] ignore id q; cbn [fix_set mk_path].
  - destruct q as [|[x|] q]; cbn [lookup path_eqb n_ids n_ign n_children]; try rewrite app_nil_r; reflexivity.
  - destruct (ig_head ignore).
    + destruct q as [|[x|] q]; cbn [lookup path_eqb n_ids n_ign n_children]; try rewrite app_nil_r; try reflexivity.
      rewrite IH, lookup_or_empty_ign. reflexivity.
    + destruct q as [|[x|] q]; cbn [lookup path_eqb n_ids n_ign n_children]; try rewrite app_nil_r; try reflexivity.
      destruct (N.eqb_spec byt x) as [E|E]; cbn [andb].
      * subst x. rewrite child_get_set_same, IH, lookup_or_empty_ign. reflexivity.
      * rewrite child_get_set_other by congruence. rewrite app_nil_r. reflexivity.
Qed.

(* fix(del) removes every occurrence of the id at exactly the pattern's path *)
Lemma lookup_fix_del prefix : forall n ignore id q,
  lookup q (fix_del n prefix ignore id) =
  if path_eqb (mk_path prefix ignore) q then filter (fun c => negb (c =? id)) (lookup q n) else lookup q n.
Proof.
  induction prefix as [|byt rest IH]; intros [ids ign ch] ignore id q; cbn [fix_del mk_path].
  - destruct q as [|[x|] q]; cbn [lookup path_eqb n_ids n_ign n_children]; reflexivity.
  - destruct (ig_head ignore).
    + destruct ign as [c|].
      * destruct q as [|[x|] q]; cbn [lookup path_eqb n_ids n_ign n_children]; try reflexivity. apply IH.
      * destruct q as [|[x|] q]; cbn [lookup path_eqb n_ids n_ign n_children]; try reflexivity.
        destruct (path_eqb _ _); reflexivity.
    + destruct (child_get byt ch) as [c|] eqn:Hc.
      * destruct q as [|[x|] q]; cbn [lookup path_eqb n_ids n_ign n_children]; try reflexivity.
        destruct (N.eqb_spec byt x) as [E|E]; cbn [andb].
        -- subst x. rewrite child_get_set_same, Hc. apply IH.
        -- rewrite child_get_set_other by congruence. reflexivity.
      * destruct q as [|[x|] q]; cbn [lookup path_eqb n_ids n_ign n_children]; try reflexivity.
        destruct (N.eqb_spec byt x) as [E|E]; cbn [andb]; [|reflexivity].
        subst x. rewrite Hc. destruct (path_eqb _ _); reflexivity.
Qed.

(* ------------------------------------------------------------------ *)
(* well-formedness: one binding per byte in every children map          *)
Inductive wf : node -> Prop :=
| wf_node ids ign ch :
    NoDup (map fst ch) -> (forall c, ign = Some c -> wf c) -> Forall (fun bc => wf (snd bc)) ch ->
    wf (Node ids ign ch).

Lemma wf_empty : wf empty_node.
Proof. constructor; [constructor|discriminate|constructor]. Qed.

Lemma wf_or_empty o : (forall c, o = Some c -> wf c) -> wf (or_empty o).
Proof. destruct o as [c|]; cbn [or_empty]; intros H; [apply H; reflexivity|apply wf_empty]. Qed.

Lemma wf_child_get b ch c : Forall (fun bc => wf (snd bc)) ch -> child_get b ch = Some c -> wf c.
Proof.
  intros Hf Hc. apply child_get_in in Hc. rewrite Forall_forall in Hf. apply (Hf (b, c) Hc).
Qed.

Lemma child_set_nodup b c l : NoDup (map fst l) -> NoDup (map fst (child_set b c l)).
Proof.
  intros H. rewrite child_set_keys. destruct (existsb (N.eqb b) (map fst l)) eqn:E; [exact H|].
  assert (Hn : ~ In b (map fst l)).
  { intros Hin. assert (existsb (N.eqb b) (map fst l) = true); [|congruence].
    apply existsb_exists. exists b. split; [exact Hin|apply N.eqb_refl]. }
  clear E. induction (map fst l) as [|x r IH]; cbn [app].
  - constructor; [intros []|constructor].
  - inversion H as [|x' r' Hx Hr]. subst. constructor.
    + rewrite in_app_iff. intros [Hin|[Hin|[]]]; [contradiction|]. apply Hn. left. symmetry. exact Hin.
    + apply IH; [exact Hr|]. intros Hin. apply Hn. right. exact Hin.
Qed.

Lemma wf_fix_set prefix : forall n ignore id, wf n -> wf (fix_set n prefix ignore id).
Proof.
  induction prefix as [|byt rest IH]; intros [ids ign ch] ignore id Hwf; cbn [fix_set];
    inversion Hwf as [ids' ign' ch' Hnd Hign Hch]; subst.
  - constructor; assumption.
  - destruct (ig_head ignore).
    + constructor; [exact Hnd| |exact Hch]. intros c Hc. inversion Hc. subst c.
      apply IH. apply wf_or_empty. exact Hign.
    + constructor; [apply child_set_nodup; exact Hnd|exact Hign|].
      apply child_set_Forall; [exact Hch|]. cbn [snd]. apply IH. apply wf_or_empty.
      intros c Hc. eapply wf_child_get; eassumption.
Qed.

Lemma wf_fix_del prefix : forall n ignore id, wf n -> wf (fix_del n prefix ignore id).
Proof.
  induction prefix as [|byt rest IH]; intros [ids ign ch] ignore id Hwf; cbn [fix_del];
    inversion Hwf as [ids' ign' ch' Hnd Hign Hch]; subst.
  - constructor; assumption.
  - destruct (ig_head ignore).
    + destruct ign as [c|]; [|exact Hwf].
      constructor; [exact Hnd| |exact Hch]. intros c' Hc. inversion Hc. subst c'.
      apply IH. apply Hign. reflexivity.
    + destruct (child_get byt ch) as [c|] eqn:Hc; [|exact Hwf].
      constructor; [apply child_set_nodup; exact Hnd|exact Hign|].
      apply child_set_Forall; [exact Hch|]. cbn [snd]. apply IH. eapply wf_child_get; eassumption.
Qed.

(* ------------------------------------------------------------------ *)
(* removeEmpty                                                          *)
Definition re_children : list (N * node) -> list (N * node) :=
  fix go (l : list (N * node)) : list (N * node) :=
    match l with
    | [] => []
    | (b, c) :: r => let '(c', e) := remove_empty c in if e then go r else (b, c') :: go r
    end.

Definition re_ign (ign : option node) : option node :=
  match ign with
  | Some c => let '(c', e) := remove_empty c in if e then None else Some c'
  | None => None
  end.

Lemma remove_empty_unfold ids ign ch :
  remove_empty (Node ids ign ch) =
  (Node ids (re_ign ign) (re_children ch), is_empty (Node ids (re_ign ign) (re_children ch))).
Proof. reflexivity. Qed.

Definition re_ok (c : node) : Prop :=
  wf c -> wf (fst (remove_empty c)) /\
          (forall q, lookup q (fst (remove_empty c)) = lookup q c) /\
          (snd (remove_empty c) = true -> forall q, lookup q c = []).

Lemma re_children_keys ch : forall b, In b (map fst (re_children ch)) -> In b (map fst ch).
Proof.
  induction ch as [|[b0 c0] r IH]; intros b; cbn [re_children map fst In]; [tauto|].
  destruct (remove_empty c0) as [c' e]. destruct e; cbn [map fst In].
  - intros H. right. apply IH. exact H.
  - intros [H|H]; [left; exact H|right; apply IH; exact H].
Qed.

Lemma re_children_nodup ch : NoDup (map fst ch) -> NoDup (map fst (re_children ch)).
Proof.
  induction ch as [|[b0 c0] r IH]; cbn [re_children map fst]; intros H; [constructor|].
  inversion H as [|x l Hx Hr]. subst. destruct (remove_empty c0) as [c' e]. destruct e; cbn [map fst].
  - apply IH. exact Hr.
  - constructor; [|apply IH; exact Hr]. intros Hin. apply Hx. apply re_children_keys. exact Hin.
Qed.

Lemma re_children_get ch b :
  NoDup (map fst ch) ->
  child_get b (re_children ch) =
  match child_get b ch with
  | Some c => if snd (remove_empty c) then None else Some (fst (remove_empty c))
  | None => None
  end.
Proof.
  induction ch as [|[b0 c0] r IH]; cbn [re_children child_get map fst]; intros Hnd; [reflexivity|].
  inversion Hnd as [|x l Hx Hr]. subst.
  destruct (N.eqb_spec b0 b) as [E|E].
  - subst b0. destruct (remove_empty c0) as [c' e] eqn:Hre. cbn [fst snd]. destruct e; cbn [child_get].
    + apply child_get_none. intros Hin. apply Hx. apply re_children_keys. exact Hin.
    + rewrite N.eqb_refl. reflexivity.
  - destruct (remove_empty c0) as [c' e] eqn:Hre. destruct e; cbn [child_get].
    + apply IH. exact Hr.
    + destruct (N.eqb_spec b0 b); [contradiction|]. apply IH. exact Hr.
Qed.

Lemma re_children_nil ch b c :
  re_children ch = [] -> In (b, c) ch -> snd (remove_empty c) = true.
Proof.
  induction ch as [|[b0 c0] r IH]; cbn [re_children In]; [tauto|].
  destruct (remove_empty c0) as [c' e] eqn:Hre. destruct e; [|discriminate].
  intros Hnil [H|H].
  - inversion H. subst. rewrite Hre. reflexivity.
  - apply IH; assumption.
Qed.

Lemma remove_empty_ok : forall n, re_ok n.
Proof.
  apply node_ind'. intros ids ign ch IHign IHch Hwf.
  inversion Hwf as [ids' ign' ch' Hnd Hign Hch]. subst.
  rewrite remove_empty_unfold. cbn [fst snd].
  assert (Hch_all : forall b c, In (b, c) ch -> re_ok c /\ wf c).
  { intros b c Hin. rewrite Forall_forall in IHch, Hch. split; [apply (IHch (b, c) Hin)|apply (Hch (b, c) Hin)]. }
  split; [|split].
  - (* wf *)
    constructor.
    + apply re_children_nodup. exact Hnd.
    + intros c Hc. unfold re_ign in Hc. destruct ign as [c0|]; [|discriminate].
      destruct (remove_empty c0) as [c' e] eqn:Hre. destruct e; [discriminate|]. inversion Hc. subst c'.
      destruct (IHign c0 eq_refl (Hign c0 eq_refl)) as [Hw _]. rewrite Hre in Hw. exact Hw.
    + clear Hnd IHch Hch Hwf. induction ch as [|[b0 c0] r IHr]; cbn [re_children]; [constructor|].
      destruct (Hch_all b0 c0 (or_introl eq_refl)) as [Hok Hw].
      assert (Hr : Forall (fun bc => wf (snd bc)) (re_children r)).
      { apply IHr. intros b c Hin. apply (Hch_all b c). right. exact Hin. }
      destruct (remove_empty c0) as [c' e] eqn:Hre. destruct e; [exact Hr|].
      constructor; [|exact Hr]. cbn [snd]. destruct (Hok Hw) as [Hw' _]. rewrite Hre in Hw'. exact Hw'.
  - (* lookup preserved *)
    intros q. destruct q as [|[x|] q]; cbn [lookup n_ids n_ign n_children]; [reflexivity| |].
    + rewrite re_children_get by exact Hnd.
      destruct (child_get x ch) as [c|] eqn:Hc; [|reflexivity].
      destruct (Hch_all x c (child_get_in _ _ _ Hc)) as [Hok Hw]. destruct (Hok Hw) as [_ [Hl He]].
      destruct (snd (remove_empty c)); [symmetry; apply He; reflexivity|apply Hl].
    + unfold re_ign. destruct ign as [c0|]; [|reflexivity].
      destruct (IHign c0 eq_refl (Hign c0 eq_refl)) as [_ [Hl He]].
      destruct (remove_empty c0) as [c' e]. cbn [fst snd] in *.
      destruct e; [symmetry; apply He; reflexivity|apply Hl].
  - (* empty => nothing stored below *)
    intros Hemp q. unfold is_empty in Hemp.
    destruct ids as [|i ids]; [|discriminate].
    destruct (re_ign ign) eqn:Hig; [discriminate|].
    destruct (re_children ch) eqn:Hrc; [|discriminate].
    destruct q as [|[x|] q]; cbn [lookup n_ids n_ign n_children]; [reflexivity| |].
    + destruct (child_get x ch) as [c|] eqn:Hc; [|reflexivity].
      pose proof (child_get_in _ _ _ Hc) as Hin.
      destruct (Hch_all x c Hin) as [Hok Hw]. destruct (Hok Hw) as [_ [_ He]].
      apply He. eapply re_children_nil; eassumption.
    + destruct ign as [c0|]; [|reflexivity]. unfold re_ign in Hig.
      destruct (IHign c0 eq_refl (Hign c0 eq_refl)) as [_ [_ He]].
      destruct (remove_empty c0) as [c' e]. cbn [snd] in He. destruct e; [|discriminate]. apply He. reflexivity.
Qed.

(* ------------------------------------------------------------------ *)
(* operation sequences: the trie holds exactly the live (pattern, id) pairs *)

(* the abstract state: pairs in insertion order; Delete removes every copy of the pair *)
Definition pair_is (p : path) (id : N) (x : path * N) : bool := path_eqb (fst x) p && (snd x =? id).

Definition spec_top (l : list (path * N)) (o : top) : list (path * N) :=
  match o with
  | TAdd p ig id => l ++ [(mk_path p ig, id)]
  | TDel p ig id => filter (fun x => negb (pair_is (mk_path p ig) id x)) l
  end.

Definition live (ops : list top) : list (path * N) := fold_left spec_top ops [].

Definition ids_at (q : path) (l : list (path * N)) : list N :=
  map snd (filter (fun x => path_eqb (fst x) q) l).

Definition trie_inv (t : node) (l : list (path * N)) : Prop :=
  wf t /\ forall q, lookup q t = ids_at q l.

Lemma ids_at_app q a b : ids_at q (a ++ b) = ids_at q a ++ ids_at q b.
Proof. unfold ids_at. rewrite filter_app, map_app. reflexivity. Qed.

Lemma ids_at_del q p id l :
  ids_at q (filter (fun x => negb (pair_is p id x)) l) =
  if path_eqb p q then filter (fun c => negb (c =? id)) (ids_at q l) else ids_at q l.
Proof.
  unfold ids_at, pair_is. induction l as [|[p0 i0] r IH]; cbn [filter map fst snd].
  - destruct (path_eqb p q); reflexivity.
  - destruct (path_eqb p0 p) eqn:E1; cbn [andb negb].
    + apply path_eqb_eq in E1. subst p0.
      destruct (path_eqb p q) eqn:E2.
      * destruct (N.eqb_spec i0 id) as [E3|E3]; cbn [negb filter map fst snd]; rewrite ?E2; cbn [filter map fst snd].
        -- subst i0. rewrite N.eqb_refl. cbn [negb]. exact IH.
        -- destruct (N.eqb_spec i0 id); [contradiction|]. cbn [negb]. rewrite IH. reflexivity.
      * destruct (i0 =? id); cbn [negb filter map fst snd]; rewrite ?E2; exact IH.
    + cbn [filter fst]. destruct (path_eqb p q) eqn:E2.
      * destruct (path_eqb p0 q) eqn:E3.
        -- apply path_eqb_eq in E2, E3. subst. rewrite path_eqb_refl in E1. discriminate.
        -- exact IH.
      * destruct (path_eqb p0 q); cbn [map snd]; rewrite IH; reflexivity.
Qed.

Lemma trie_inv_step t l o : trie_inv t l -> trie_inv (apply_top t o) (spec_top l o).
Proof.
  intros [Hwf Hl]. destruct o as [p ig id|p ig id]; cbn [apply_top spec_top].
  - unfold add_match. split; [apply wf_fix_set; exact Hwf|].
    intros q. rewrite lookup_fix_set, ids_at_app, Hl. unfold ids_at. cbn [filter map fst snd].
    destruct (path_eqb (mk_path p ig) q); reflexivity.
  - unfold delete_match.
    destruct (remove_empty_ok (fix_del t p ig id) (wf_fix_del _ _ _ _ Hwf)) as [Hw [Hlk _]].
    split; [exact Hw|]. intros q. rewrite Hlk, lookup_fix_del, ids_at_del, Hl. reflexivity.
Qed.

Lemma trie_inv_run ops : forall t l, trie_inv t l -> trie_inv (run_tops t ops) (fold_left spec_top ops l).
Proof.
  induction ops as [|o r IH]; intros t l H; cbn [run_tops fold_left]; [exact H|].
  apply IH. apply trie_inv_step. exact H.
Qed.

Lemma trie_inv_empty : trie_inv empty_node [].
Proof. split; [apply wf_empty|]. intros q. apply lookup_empty. Qed.

(* per-path content: exact list (order and multiplicity) *)
Lemma trie_paths ops q : lookup q (run_tops empty_node ops) = ids_at q (live ops).
Proof. destruct (trie_inv_run ops _ _ trie_inv_empty) as [_ H]. apply H. Qed.

Lemma in_ids_at id q l : In id (ids_at q l) <-> In (q, id) l.
Proof.
  unfold ids_at. rewrite in_map_iff. split.
  - intros [[p i] [Hi Hin]]. cbn [snd] in Hi. subst i. apply filter_In in Hin. destruct Hin as [Hin Hp].
    cbn [fst] in Hp. apply path_eqb_eq in Hp. subst p. exact Hin.
  - intros Hin. exists (q, id). split; [reflexivity|]. apply filter_In. split; [exact Hin|]. apply path_eqb_refl.
Qed.

(* Get after any sequence of AddMatch / DeleteMatch = ids with a live matching pattern *)
Lemma trie_get_spec_inv t l key id : trie_inv t l ->
  (In id (get_ids key t) <-> exists p, In (p, id) l /\ matches p key = true).
Proof.
  intros [_ Hl]. rewrite get_ids_spec. split.
  - intros [p [Hm Hin]]. exists p. rewrite Hl in Hin. apply in_ids_at in Hin. split; assumption.
  - intros [p [Hin Hm]]. exists p. split; [exact Hm|]. rewrite Hl. apply in_ids_at. exact Hin.
Qed.

Lemma trie_get_spec ops key id :
  In id (get_ids key (run_tops empty_node ops)) <-> exists p, In (p, id) (live ops) /\ matches p key = true.
Proof. apply trie_get_spec_inv. apply trie_inv_run. apply trie_inv_empty. Qed.

(* the set form returned by the Go function *)
Lemma insert_sorted_in x y l : In y (insert_sorted x l) <-> y = x \/ In y l.
Proof.
  induction l as [|z r IH]; cbn [insert_sorted In]; [intuition congruence|].
  destruct (x <? z); cbn [In]; [intuition congruence|].
  destruct (N.eqb_spec x z); cbn [In]; [subst; intuition congruence|]. rewrite IH. intuition congruence.
Qed.

Lemma norm_ids_in y l : In y (norm_ids l) <-> In y l.
Proof.
  induction l as [|x r IH]; cbn [norm_ids fold_right In]; [tauto|].
  fold (norm_ids r). rewrite insert_sorted_in, IH. split; intros [H|H]; auto.
Qed.

Inductive ssorted : list N -> Prop :=
| ss_nil : ssorted []
| ss_one x : ssorted [x]
| ss_cons x y r : x < y -> ssorted (y :: r) -> ssorted (x :: y :: r).

Lemma insert_sorted_ssorted x l : ssorted l -> ssorted (insert_sorted x l).
Proof.
  induction 1 as [|y|y z r Hyz Hs IH]; cbn [insert_sorted].
  - constructor.
  - destruct (N.ltb_spec x y); [constructor; [assumption|constructor]|].
    destruct (N.eqb_spec x y); [constructor|]. constructor; [lia|constructor].
  - destruct (N.ltb_spec x y); [constructor; [assumption|constructor; assumption]|].
    destruct (N.eqb_spec x y); [constructor; assumption|].
    cbn [insert_sorted] in IH.
    destruct (N.ltb_spec x z); [constructor; [lia|exact IH]|].
    destruct (N.eqb_spec x z); [constructor; assumption|]. constructor; [assumption|exact IH].
Qed.

Lemma norm_ids_ssorted l : ssorted (norm_ids l).
Proof.
  induction l as [|x r IH]; cbn [norm_ids fold_right]; [constructor|]. apply insert_sorted_ssorted. exact IH.
Qed.

(* mk_path against the textual definition of a match *)
Lemma ig_head_nth ignore : ig_head ignore = nth 0 ignore false.
Proof. destruct ignore; reflexivity. Qed.

Lemma nth_tl {A} (l : list A) i d : nth i (tl l) d = nth (S i) l d.
Proof. destruct l; [destruct i; reflexivity|reflexivity]. Qed.

Lemma matches_mk_path prefix : forall ignore key,
  matches (mk_path prefix ignore) key = true <->
  (length prefix <= length key)%nat /\
  forall i, (i < length prefix)%nat -> nth i ignore false = true \/ nth i prefix 0 = nth i key 0.
Proof.
  induction prefix as [|b r IH]; intros ignore key; cbn [mk_path matches length].
  - split; [intros _; split; [lia|intros i Hi; lia]|reflexivity].
  - destruct key as [|k key]; cbn [length].
    + destruct (ig_head ignore); cbn [matches]; split; try discriminate; intros [H _]; lia.
    + rewrite ig_head_nth. destruct (nth 0 ignore false) eqn:Hig; cbn [matches].
      * rewrite IH. split.
        -- intros [Hl Hi]. split; [lia|]. intros [|i] Hlt; [left; exact Hig|].
           cbn [nth]. rewrite <- nth_tl. apply Hi. lia.
        -- intros [Hl Hi]. split; [lia|]. intros i Hlt. rewrite nth_tl. apply (Hi (S i)). lia.
      * rewrite andb_true_iff, N.eqb_eq, IH. split.
        -- intros [Hb [Hl Hi]]. split; [lia|]. intros [|i] Hlt; [right; exact Hb|].
           cbn [nth]. rewrite <- nth_tl. apply Hi. lia.
        -- intros [Hl Hi]. split.
           ++ destruct (Hi O ltac:(lia)) as [H|H]; [congruence|exact H].
           ++ split; [lia|]. intros i Hlt. rewrite nth_tl. apply (Hi (S i)). lia.
Qed.

(* ------------------------------------------------------------------ *)
(* parseIgnoreBytes (on parsed ranges): position i is ignored iff some item covers it *)
Definition covers (i : nat) (r : nat * option nat) : bool :=
  match r with
  | (s, None) => (i =? s)%nat
  | (s, Some e) => ((s <=? i) && (i <=? e))%nat
  end.

Lemma nth_repeat_false i n : nth i (repeat false n) false = false.
Proof. revert i. induction n as [|n IH]; intros [|i]; cbn [repeat nth]; try reflexivity. apply IH. Qed.

Lemma nth_pad_to i l n : nth i (pad_to l n) false = nth i l false.
Proof.
  unfold pad_to. destruct (Nat.ltb_spec i (length l)).
  - apply app_nth1. assumption.
  - rewrite app_nth2 by lia. rewrite nth_repeat_false. symmetry. apply nth_overflow. lia.
Qed.

Lemma length_pad_to l n : length (pad_to l n) = Nat.max (length l) (S n).
Proof. unfold pad_to. rewrite app_length, repeat_length. lia. Qed.

Lemma length_set_true l : forall i, length (set_true l i) = length l.
Proof. induction l as [|x r IH]; intros [|i]; cbn [set_true length]; try reflexivity. rewrite IH. reflexivity. Qed.

Lemma nth_set_true l : forall i j, (i < length l)%nat ->
  nth j (set_true l i) false = if (j =? i)%nat then true else nth j l false.
Proof.
  induction l as [|x r IH]; intros i j Hi; cbn [length] in Hi; [lia|].
  destruct i as [|i]; destruct j as [|j]; cbn [set_true nth Nat.eqb]; try reflexivity.
  apply IH. lia.
Qed.

Lemma nth_set_range c : forall l s j, (s + c <= length l)%nat ->
  nth j (set_range l s c) false = if ((s <=? j) && (j <? s + c))%nat then true else nth j l false.
Proof.
  induction c as [|c IH]; intros l s j H; cbn [set_range].
  - destruct (Nat.leb_spec s j); destruct (Nat.ltb_spec j (s + 0)); cbn [andb]; try reflexivity; lia.
  - rewrite IH by (rewrite length_set_true; lia). rewrite nth_set_true by lia.
    destruct (Nat.leb_spec (S s) j); destruct (Nat.ltb_spec j (S s + c)); destruct (Nat.leb_spec s j);
      destruct (Nat.ltb_spec j (s + S c)); destruct (Nat.eqb_spec j s); cbn [andb]; try reflexivity; lia.
Qed.

Lemma nth_apply_range out r j :
  nth j (apply_range out r) false = covers j r || nth j out false.
Proof.
  destruct r as [s [e|]]; cbn [apply_range covers].
  - rewrite nth_set_range by (rewrite !length_pad_to; lia). rewrite !nth_pad_to.
    destruct (Nat.leb_spec s j); destruct (Nat.ltb_spec j (s + (S e - s))); destruct (Nat.leb_spec j e);
      cbn [andb orb]; try reflexivity; lia.
  - rewrite nth_set_true by (rewrite length_pad_to; lia). rewrite nth_pad_to.
    destruct (j =? s)%nat; reflexivity.
Qed.

Lemma parse_ignore_ranges_spec rs j :
  nth j (parse_ignore_ranges rs) false = existsb (covers j) rs.
Proof.
  unfold parse_ignore_ranges.
  assert (H : forall out, nth j (fold_left apply_range rs out) false = existsb (covers j) rs || nth j out false).
  { induction rs as [|r rs IH]; intros out; cbn [fold_left existsb]; [reflexivity|].
    rewrite IH, nth_apply_range. destruct (covers j r); destruct (existsb (covers j) rs); reflexivity. }
  rewrite H. destruct j; cbn [nth]; rewrite orb_false_r; reflexivity.
Qed.
