(* ManifestPbProofs.v — protobuf wire encoding of ManifestChange / ManifestChangeSet:
   the decoder inverts the encoder on every value of the Go field types. *)
From Coq Require Import ZifyN ZifyNat ZifyBool.
From Verif Require Import Bytes BytesProofs Uvarint UvarintProofs Consts Crc32cM Manifest.
Open Scope N_scope.

Lemma uvarint_byte t rest : t < 128 -> uvarint (t :: rest) = (t, 1%Z).
Proof.
  intros Ht. unfold uvarint. cbn [uvarint_f Nat.eqb andb].
  apply N.ltb_lt in Ht. rewrite Ht. cbn [N.pow]. f_equal. lia.
Qed.

Lemma pb_tag_byte t rest : 8 <= t -> t < 128 -> pb_tag (t :: rest) = DOk (t / 8, t mod 8, rest).
Proof.
  intros H8 H128. unfold pb_tag. rewrite uvarint_byte by auto.
  cbn [Z.leb Z.compare Z.to_nat Pos.to_nat Pos.iter_op Nat.add skipn].
  assert (1 <= t / 8) by (apply N.div_le_lower_bound; lia).
  assert (t / 8 < 16) by (apply N.div_lt_upper_bound; lia).
  assert (E: ((t / 8 =? 0) || (536870911 <? t / 8)) = false) by lia.
  rewrite E. reflexivity.
Qed.

Lemma put_uvarint_nonempty x : (0 < length (put_uvarint x))%nat.
Proof. apply put_uvarint_f_nonempty. lia. Qed.

Lemma skipn_len_app {A} (a b : list A) : skipn (length a) (a ++ b) = b.
Proof. rewrite skipn_app, Nat.sub_diag, skipn_all. reflexivity. Qed.

Lemma firstn_len_app {A} (a b : list A) : firstn (length a) (a ++ b) = a.
Proof. rewrite firstn_app, Nat.sub_diag, firstn_all. cbn. apply app_nil_r. Qed.

(* one present field of a ManifestChange *)
Lemma dec_field_nz fuel tag v rest c :
  In tag [8; 16; 24; 32; 40; 48] -> v < two64 ->
  pb_dec_change_f (S fuel) (tag :: put_uvarint v ++ rest) c
  = pb_dec_change_f fuel rest (set_field c (tag / 8) v).
Proof.
  intros Htag Hv. cbn [pb_dec_change_f].
  assert (Ht: 8 <= tag /\ tag < 128 /\ tag mod 8 = 0 /\ tag / 8 <= 6).
  { cbn in Htag. repeat (destruct Htag as [<-|Htag]; [cbn; lia|]). tauto. }
  destruct Ht as (H1 & H2 & H3 & H4).
  rewrite pb_tag_byte by auto. rewrite H3.
  assert (E: ((tag / 8 <=? 6) && (0 =? 0)) = true) by lia. rewrite E.
  rewrite uvarint_put by auto.
  pose proof (put_uvarint_nonempty v).
  assert (E2: (Z.of_nat (length (put_uvarint v)) <=? 0)%Z = false) by lia. rewrite E2.
  rewrite Nat2Z.id, skipn_len_app. reflexivity.
Qed.

Lemma pb_field_len tag v : (length (pb_field tag v) <= 11)%nat.
Proof.
  unfold pb_field. destruct (v =? 0); cbn [length]; [lia|].
  pose proof (put_uvarint_len_le v). lia.
Qed.

(* a field that may be omitted; `upd` is the decoder's state change *)
Lemma dec_field fuel tag v rest c :
  In tag [8; 16; 24; 32; 40; 48] -> v < two64 ->
  (length (pb_field tag v ++ rest) <= fuel)%nat ->
  exists fuel', (length rest <= fuel')%nat /\
    pb_dec_change_f fuel (pb_field tag v ++ rest) c
    = pb_dec_change_f fuel' rest (if v =? 0 then c else set_field c (tag / 8) v).
Proof.
  intros Htag Hv Hlen. unfold pb_field in *. destruct (v =? 0) eqn:E.
  - exists fuel. cbn [app] in *. split; auto.
  - cbn [app length] in Hlen. rewrite app_length in Hlen.
    destruct fuel as [|f]; [lia|]. exists f. split; [lia|].
    cbn [app]. apply dec_field_nz; auto.
Qed.

Lemma int32_image_id v : enum_ok v = true -> int32_image v = v.
Proof.
  unfold enum_ok, int32_image, two31, two64, two32. intros H.
  apply orb_true_iff in H. destruct H as [H|H].
  - apply N.ltb_lt in H. rewrite N.mod_small by lia.
    assert (E: (v <? 2147483648) = true) by lia. now rewrite E.
  - apply andb_true_iff in H. destruct H as [H1 H2].
    apply N.leb_le in H1. apply N.ltb_lt in H2.
    set (w := v - 18446744069414584320).
    assert (Hv: v = w + 4294967295 * 4294967296) by (unfold w; lia).
    rewrite Hv at 1 2. rewrite N.mod_add by lia. rewrite N.mod_small by (unfold w; lia).
    assert (E: (w <? 2147483648) = false) by (unfold w; lia). rewrite E. unfold w. lia.
Qed.

Lemma pb_change_body_len c : (length (pb_change_body c) <= 66)%nat.
Proof.
  unfold pb_change_body. rewrite !app_length.
  pose proof (pb_field_len 8 (c_id c)). pose proof (pb_field_len 16 (c_op c)).
  pose proof (pb_field_len 24 (c_level c)). pose proof (pb_field_len 32 (c_keyid c)).
  pose proof (pb_field_len 40 (c_enc c)). pose proof (pb_field_len 48 (c_comp c)). lia.
Qed.

Lemma enum_ok_lt v : enum_ok v = true -> v < two64.
Proof. unfold enum_ok, two31, two64. lia. Qed.

Lemma pb_dec_change_body c : wf_change c = true -> pb_dec_change (pb_change_body c) = DOk c.
Proof.
  intros Hwf. unfold wf_change in Hwf. rewrite !andb_true_iff, !N.ltb_lt in Hwf.
  destruct Hwf as (((((Hid & Hop) & Hlv) & Hk) & Henc) & Hcomp).
  pose proof (enum_ok_lt _ Hop) as Hop'. pose proof (enum_ok_lt _ Henc) as Henc'.
  assert (Hlv': c_level c < two64) by (unfold two32, two64 in *; lia).
  assert (Hcomp': c_comp c < two64) by (unfold two32, two64 in *; lia).
  unfold pb_dec_change, pb_change_body.
  set (b6 := pb_field 48 (c_comp c)).
  destruct (dec_field (length (pb_field 8 (c_id c) ++ pb_field 16 (c_op c) ++ pb_field 24 (c_level c)
                                ++ pb_field 32 (c_keyid c) ++ pb_field 40 (c_enc c) ++ b6))
              8 (c_id c) (pb_field 16 (c_op c) ++ pb_field 24 (c_level c)
                                ++ pb_field 32 (c_keyid c) ++ pb_field 40 (c_enc c) ++ b6) change0)
    as (f1 & L1 & E1); [cbn; tauto|auto|apply Nat.le_refl|]. rewrite E1. clear E1.
  destruct (dec_field f1 16 (c_op c) (pb_field 24 (c_level c)
                                ++ pb_field 32 (c_keyid c) ++ pb_field 40 (c_enc c) ++ b6)
              (if c_id c =? 0 then change0 else set_field change0 (8 / 8) (c_id c)))
    as (f2 & L2 & E2); [cbn; tauto|auto|lia|]. rewrite E2. clear E2.
  match goal with |- pb_dec_change_f _ _ ?cc = _ => set (c2 := cc) end.
  destruct (dec_field f2 24 (c_level c) (pb_field 32 (c_keyid c) ++ pb_field 40 (c_enc c) ++ b6) c2)
    as (f3 & L3 & E3); [cbn; tauto|auto|lia|]. rewrite E3. clear E3.
  match goal with |- pb_dec_change_f _ _ ?cc = _ => set (c3 := cc) end.
  destruct (dec_field f3 32 (c_keyid c) (pb_field 40 (c_enc c) ++ b6) c3)
    as (f4 & L4 & E4); [cbn; tauto|auto|lia|]. rewrite E4. clear E4.
  match goal with |- pb_dec_change_f _ _ ?cc = _ => set (c4 := cc) end.
  destruct (dec_field f4 40 (c_enc c) b6 c4)
    as (f5 & L5 & E5); [cbn; tauto|auto|lia|]. rewrite E5. clear E5.
  match goal with |- pb_dec_change_f _ _ ?cc = _ => set (c5 := cc) end.
  destruct (dec_field f5 48 (c_comp c) [] c5)
    as (f6 & L6 & E6); [cbn; tauto|auto|rewrite app_nil_r; exact L5|].
  unfold b6. rewrite app_nil_r in E6. rewrite E6. clear E6.
  destruct f6; cbn [pb_dec_change_f]; f_equal.
  all: subst c5 c4 c3 c2; change (8 / 8) with 1; change (16 / 8) with 2; change (24 / 8) with 3;
    change (32 / 8) with 4; change (40 / 8) with 5; change (48 / 8) with 6.
  all: destruct c as [id op lv kid enc comp]; cbn [c_id c_op c_level c_keyid c_enc c_comp] in *.
  all: destruct (id =? 0) eqn:X1; destruct (op =? 0) eqn:X2; destruct (lv =? 0) eqn:X3;
    destruct (kid =? 0) eqn:X4; destruct (enc =? 0) eqn:X5; destruct (comp =? 0) eqn:X6;
    unfold change0; cbn [set_field c_id c_op c_level c_keyid c_enc c_comp];
    rewrite ?int32_image_id by auto; rewrite ?N.mod_small by auto;
    repeat match goal with H : (_ =? 0) = true |- _ => apply N.eqb_eq in H end; subst; reflexivity.
Qed.

Lemma pb_dec_changeset_enc cs : wf_changeset cs = true ->
  forall fuel, (length (pb_changeset cs) <= fuel)%nat ->
  pb_dec_changeset_f fuel (pb_changeset cs) = DOk cs.
Proof.
  induction cs as [|c r IH]; intros Hwf fuel Hf.
  - cbn. destruct fuel; reflexivity.
  - unfold wf_changeset in Hwf. cbn [forallb] in Hwf. apply andb_true_iff in Hwf.
    destruct Hwf as [Hc Hr].
    cbn [pb_changeset flat_map] in *. fold (pb_changeset r) in *.
    unfold pb_change in *. cbn zeta in *.
    set (body := pb_change_body c) in *.
    cbn [app] in *. rewrite <- app_assoc in *.
    cbn [length] in Hf. rewrite !app_length in Hf.
    destruct fuel as [|f]; [lia|].
    cbn [pb_dec_changeset_f].
    rewrite pb_tag_byte by lia. change (10 / 8) with 1. change (10 mod 8) with 2.
    cbn [N.eqb Pos.eqb andb].
    pose proof (pb_change_body_len c) as Hbl. fold body in Hbl.
    rewrite uvarint_put by (unfold two64; lia).
    pose proof (put_uvarint_nonempty (N.of_nat (length body))).
    assert (E2: (Z.of_nat (length (put_uvarint (N.of_nat (length body)))) <=? 0)%Z = false) by lia.
    rewrite E2. rewrite Nat2Z.id, skipn_len_app.
    assert (E3: (N.of_nat (length (body ++ pb_changeset r)) <? N.of_nat (length body)) = false).
    { rewrite app_length. lia. }
    rewrite E3. rewrite Nat2N.id, firstn_len_app, skipn_len_app.
    unfold body at 1. rewrite pb_dec_change_body by auto.
    rewrite IH by (auto; lia). reflexivity.
Qed.

Theorem pb_roundtrip cs : wf_changeset cs = true -> pb_dec_changeset (pb_changeset cs) = DOk cs.
Proof. intros H. apply pb_dec_changeset_enc; auto. Qed.

(* encoder output is made of bytes *)
Lemma pb_field_wf tag v : tag < 256 -> wf_bytes (pb_field tag v) = true.
Proof.
  intros Ht. unfold pb_field. destruct (v =? 0); [reflexivity|].
  cbn [wf_bytes forallb]. fold (wf_bytes (put_uvarint v)). rewrite put_uvarint_wf.
  unfold wf_byte. apply N.ltb_lt in Ht. now rewrite Ht.
Qed.

Lemma pb_changeset_wf cs : wf_bytes (pb_changeset cs) = true.
Proof.
  induction cs as [|c r IH]; [reflexivity|].
  cbn [pb_changeset flat_map]. fold (pb_changeset r). rewrite wf_bytes_app, IH, andb_true_r.
  unfold pb_change. cbn zeta. change (10 :: ?x) with ([10] ++ x). rewrite !wf_bytes_app.
  rewrite put_uvarint_wf. unfold pb_change_body. rewrite !wf_bytes_app.
  rewrite !pb_field_wf by lia. reflexivity.
Qed.
