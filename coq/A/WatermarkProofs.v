(* WatermarkProofs.v — invariants of the WaterMark process loop (Watermark.v), for every
   sequence of marks and every interleaving of senders with the process goroutine. *)
From Verif Require Import Bytes Watermark.
From Coq Require Import ZifyN ZifyNat ZifyBool Sorted.
Open Scope N_scope.

(* ---------- association maps ---------- *)
Lemma mget_filter_key : forall {V} (f : N -> bool) (m : amap V) k,
  mget k (filter (fun kv => f (fst kv)) m) = if f k then mget k m else None.
Proof.
  intros V f m k. induction m as [|[k' v] m IH]; cbn [filter mget fst].
  - destruct (f k); reflexivity.
  - destruct (f k') eqn:Hf; cbn [mget].
    + destruct (k =? k') eqn:Hk.
      * apply N.eqb_eq in Hk. subst. rewrite Hf. reflexivity.
      * exact IH.
    + destruct (k =? k') eqn:Hk.
      * apply N.eqb_eq in Hk. subst. rewrite Hf in IH |- *. exact IH.
      * exact IH.
Qed.

Lemma mget_mrem : forall {V} (m : amap V) k k',
  mget k (mrem k' m) = if k =? k' then None else mget k m.
Proof.
  intros. unfold mrem. rewrite (mget_filter_key (fun x => negb (x =? k'))).
  destruct (k =? k'); reflexivity.
Qed.

Lemma mget_mset : forall {V} (m : amap V) k k' v,
  mget k (mset k' v m) = if k =? k' then Some v else mget k m.
Proof.
  intros. unfold mset. cbn [mget]. destruct (k =? k') eqn:H; [reflexivity|].
  rewrite mget_mrem, H. reflexivity.
Qed.

Lemma mget_In : forall {V} (m : amap V) k v, mget k m = Some v -> In (k, v) m.
Proof.
  induction m as [|[k' v'] m IH]; cbn [mget]; intros k v H; [discriminate|].
  destruct (k =? k') eqn:Hk.
  - apply N.eqb_eq in Hk. inversion H. subst. left. reflexivity.
  - right. apply IH. exact H.
Qed.

Lemma pend0_mrem : forall pd k k', pend0 k (mrem k' pd) = if k =? k' then 0%Z else pend0 k pd.
Proof. intros. unfold pend0. rewrite mget_mrem. destruct (k =? k'); reflexivity. Qed.

Lemma pend0_mset : forall pd k k' v, pend0 k (mset k' v pd) = if k =? k' then v else pend0 k pd.
Proof. intros. unfold pend0. rewrite mget_mset. destruct (k =? k'); reflexivity. Qed.

(* ---------- heap as ascending list ---------- *)
Lemma heap_push_In : forall x h i, In i (heap_push x h) <-> i = x \/ In i h.
Proof.
  intros x h i. induction h as [|y t IH]; cbn [heap_push].
  - cbn. intuition.
  - destruct (x <=? y); cbn [In]; [intuition|]. rewrite IH. intuition.
Qed.

Lemma heap_push_sorted : forall x h, StronglySorted N.lt h -> ~ In x h ->
  StronglySorted N.lt (heap_push x h).
Proof.
  intros x h Hs Hn. induction h as [|y t IH]; cbn [heap_push].
  - constructor; [constructor|constructor].
  - inversion Hs as [|? ? Hst Hall]; subst.
    destruct (x <=? y) eqn:Hxy.
    + constructor; [exact Hs|]. constructor.
      * assert (x <> y) by (intro; subst; apply Hn; left; reflexivity). lia.
      * rewrite Forall_forall in Hall |- *. intros z Hz. specialize (Hall z Hz).
        assert (x <> y) by (intro; subst; apply Hn; left; reflexivity). lia.
    + constructor.
      * apply IH; [exact Hst|]. intro Hc. apply Hn. right. exact Hc.
      * rewrite Forall_forall in Hall |- *. intros z Hz. apply heap_push_In in Hz.
        destruct Hz as [->|Hz]; [lia|]. apply Hall. exact Hz.
Qed.

Lemma last_cons_default : forall {A} (l : list A) m d, last (m :: l) d = last l m.
Proof.
  intros A l. induction l as [|a l IH]; intros m d; [reflexivity|].
  change (last (m :: a :: l) d) with (last (a :: l) d). rewrite (IH a d), (IH a m). reflexivity.
Qed.

Definition inb (i : N) (l : list N) : bool := existsb (N.eqb i) l.
Lemma inb_In : forall i l, inb i l = true <-> In i l.
Proof.
  intros. unfold inb. rewrite existsb_exists. split.
  - intros [x [Hx He]]. apply N.eqb_eq in He. subst. exact Hx.
  - intros H. exists i. split; [exact H|apply N.eqb_refl].
Qed.

Lemma pop_loop_spec : forall h pd u0 h' pd' until,
  StronglySorted N.lt h ->
  pop_loop h pd u0 = (h', pd', until) ->
  exists popped, h = popped ++ h' /\ until = last popped u0 /\
    (forall i, mget i pd' = if inb i popped then None else mget i pd) /\
    (forall m, In m popped -> (pend0 m pd <= 0)%Z) /\
    match h' with [] => True | m :: _ => (0 < pend0 m pd')%Z end.
Proof.
  induction h as [|m rest IH]; intros pd u0 h' pd' until Hs H; cbn [pop_loop] in H.
  - inversion H; subst. exists []. cbn. repeat split; auto. intros m [].
  - destruct (0 <? pend0 m pd)%Z eqn:Hp.
    + inversion H; subst. exists []. cbn [app last inb existsb]. repeat split; auto.
      * intros x [].
      * lia.
    + inversion Hs as [|? ? Hst Hall]; subst.
      destruct (IH _ _ _ _ _ Hst H) as [popped [Hh [Hu [Hg [Hle Hmin]]]]].
      exists (m :: popped). split; [cbn; f_equal; exact Hh|].
      split; [rewrite last_cons_default; exact Hu|].
      split; [|split].
      * intros i. rewrite Hg. cbn [inb existsb]. fold (inb i popped).
        rewrite mget_mrem. destruct (i =? m) eqn:Him; cbn [orb].
        -- destruct (inb i popped); reflexivity.
        -- reflexivity.
      * intros x [->|Hx]; [lia|].
        specialize (Hle x Hx). rewrite pend0_mrem in Hle.
        assert (Hin : In x rest) by (rewrite Hh; apply in_or_app; left; exact Hx).
        rewrite Forall_forall in Hall. specialize (Hall x Hin).
        destruct (x =? m) eqn:E; [lia|exact Hle].
      * exact Hmin.
Qed.

(* ---------- processed history ---------- *)
Fixpoint nB (es : list ev) (i : N) : Z :=
  match es with
  | [] => 0%Z
  | EB j :: r => ((if (i =? j)%N then 1 else 0) + nB r i)%Z
  | _ :: r => nB r i
  end.
Fixpoint nD (es : list ev) (i : N) : Z :=
  match es with
  | [] => 0%Z
  | ED j :: r => ((if (i =? j)%N then 1 else 0) + nD r i)%Z
  | _ :: r => nD r i
  end.

Definition ev_index (e : ev) : N := match e with EB i | ED i | EW i _ => i end.
Definition is_mark_ev (e : ev) : bool := match e with EW _ _ => false | _ => true end.

Lemma nB_app : forall a b i, nB (a ++ b) i = (nB a i + nB b i)%Z.
Proof. induction a as [|[j|j|j w] a IH]; intros; cbn [app nB]; rewrite ?IH; lia. Qed.
Lemma nD_app : forall a b i, nD (a ++ b) i = (nD a i + nD b i)%Z.
Proof. induction a as [|[j|j|j w] a IH]; intros; cbn [app nD]; rewrite ?IH; lia. Qed.
Lemma nB_nonneg : forall es i, (0 <= nB es i)%Z.
Proof. induction es as [|[j|j|j w] es IH]; intros; cbn [nB]; try specialize (IH i); try destruct (i =? j); lia. Qed.
Lemma nD_nonneg : forall es i, (0 <= nD es i)%Z.
Proof. induction es as [|[j|j|j w] es IH]; intros; cbn [nD]; try specialize (IH i); try destruct (i =? j); lia. Qed.
Lemma nB_pos_In : forall es i, (0 < nB es i)%Z <-> In (EB i) es.
Proof.
  induction es as [|e es IH]; intros i; cbn [nB In]; [split; [lia|tauto]|].
  destruct e as [j|j|j w]; rewrite <- ?IH.
  - destruct (i =? j) eqn:E.
    + apply N.eqb_eq in E. subst. pose proof (nB_nonneg es j). split; [auto|lia].
    + apply N.eqb_neq in E. split; [intros; right; lia|intros [H|H]; [inversion H; congruence|lia]].
  - split; [intros; right; auto|intros [H|H]; [discriminate|auto]].
  - split; [intros; right; auto|intros [H|H]; [discriminate|auto]].
Qed.
Lemma nD_pos_In : forall es i, (0 < nD es i)%Z <-> In (ED i) es.
Proof.
  induction es as [|e es IH]; intros i; cbn [nD In]; [split; [lia|tauto]|].
  destruct e as [j|j|j w]; rewrite <- ?IH.
  - split; [intros; right; auto|intros [H|H]; [discriminate|auto]].
  - destruct (i =? j) eqn:E.
    + apply N.eqb_eq in E. subst. pose proof (nD_nonneg es j). split; [auto|lia].
    + apply N.eqb_neq in E. split; [intros; right; lia|intros [H|H]; [inversion H; congruence|lia]].
  - split; [intros; right; auto|intros [H|H]; [discriminate|auto]].
Qed.

(* the invariant of a Running process state after handling the events es from pinit d0 *)
Record pinv (d0 : N) (es : list ev) (p : pstate) : Prop := mkPinv {
  pi_sorted : StronglySorted N.lt (heap p);
  pi_keys : forall i, In i (heap p) <-> mget i (pending p) <> None;
  pi_ge : forall i, In i (heap p) -> done_until p <= i;
  pi_min : match heap p with [] => True | m :: _ => (0 < pend0 m (pending p))%Z end;
  pi_cnt : forall i, (nB es i - nD es i <= pend0 i (pending p))%Z;
  pi_seen : forall e, In e es -> is_mark_ev e = true ->
            ev_index e <= done_until p \/ In (ev_index e) (heap p);
  pi_du : done_until p = d0 \/
          exists e, In e es /\ is_mark_ev e = true /\ ev_index e = done_until p;
  pi_d0 : d0 <= done_until p;
  pi_hsrc : forall k, In k (heap p) -> exists e, In e es /\ is_mark_ev e = true /\ ev_index e = k;
  pi_wgt : forall i l, In (i, l) (waiters p) -> done_until p < i;
  pi_wsrc : forall i l w, In (i, l) (waiters p) -> In w l -> In (EW i w) es;
  pi_wreg : forall i w, In (EW i w) es ->
            In w (closed p) \/ exists l, mget i (waiters p) = Some l /\ In w l;
  pi_wclosed : forall w, In w (closed p) -> exists i, In (EW i w) es /\ i <= done_until p
}.

Lemma pinv_init : forall d0, pinv d0 [] (pinit d0).
Proof.
  intros d0. constructor; cbn; try tauto; try lia; try (intros; tauto).
  all: try (intros k []).
  all: try (intros i l []).
  all: try (intros i l w []).
  all: try constructor.
  all: try (intros i; split; [tauto|]; intros H; apply H; reflexivity).
Qed.

(* what one processOne call does, when it neither dies nor hangs *)
Lemma process_one_spec : forall i d p,
  StronglySorted N.lt (heap p) ->
  (forall k, In k (heap p) <-> mget k (pending p) <> None) ->
  st (process_one i d p) = Running ->
  let p' := process_one i d p in
  let hp := match mget i (pending p) with Some _ => heap p | None => heap_push i (heap p) end in
  let pd := mset i (pend0 i (pending p) + (if d then -1 else 1))%Z (pending p) in
  done_until p <= i /\
  exists popped sel,
    hp = popped ++ heap p' /\ done_until p' = last popped (done_until p) /\
    (forall k, mget k (pending p') = if inb k popped then None else mget k pd) /\
    (forall m, In m popped -> (pend0 m pd <= 0)%Z) /\
    match heap p' with [] => True | m :: _ => (0 < pend0 m (pending p'))%Z end /\
    waiters p' = filter (fun kv => negb (sel (fst kv))) (waiters p) /\
    closed p' = closed p ++ flat_map snd (filter (fun kv => sel (fst kv)) (waiters p)) /\
    (forall k, sel k = true -> k <= done_until p') /\
    (forall k, done_until p < k -> k <= done_until p' -> sel k = true) /\
    StronglySorted N.lt hp.
Proof.
  intros i d p Hs Hk Hrun p' hp pd.
  assert (Hhp : StronglySorted N.lt hp).
  { unfold hp. destruct (mget i (pending p)) eqn:E; [exact Hs|].
    apply heap_push_sorted; [exact Hs|]. intro Hc. apply Hk in Hc. congruence. }
  unfold p' in *. unfold process_one in *.
  change (match mget i (pending p) with Some _ => true | None => false end) with
    (match mget i (pending p) with Some _ => true | None => false end) in *.
  assert (Ehp : (if match mget i (pending p) with Some _ => true | None => false end
                 then heap p else heap_push i (heap p)) = hp).
  { unfold hp. destruct (mget i (pending p)); reflexivity. }
  rewrite Ehp in *. fold pd in Hrun |- *.
  destruct (i <? done_until p) eqn:Hlt; [cbn in Hrun; discriminate|].
  split; [lia|].
  destruct (pop_loop hp pd (done_until p)) as [[hp' pd'] until] eqn:Hpop.
  destruct (pop_loop_spec _ _ _ _ _ _ Hhp Hpop) as [popped [Hh [Hu [Hg [Hle Hmin]]]]].
  destruct (u64_sub until (done_until p) <=? N.of_nat (length (waiters p))) eqn:Hbr.
  - destruct (until =? max_u64) eqn:Hmax; [cbn in Hrun; discriminate|].
    exists popped, (fun idx => (done_until p <? idx) && (idx <=? until)).
    cbn [notify heap done_until pending waiters closed st].
    repeat split; auto.
    + intros k Hk'. lia.
    + intros k H1 H2. lia.
  - exists popped, (fun idx => idx <=? until).
    cbn [notify heap done_until pending waiters closed st].
    repeat split; auto.
    + intros k Hk'. lia.
    + intros k H1 H2. lia.
Qed.

Lemma last_in_or_default : forall (l : list N) d, last l d = d /\ l = [] \/ In (last l d) l.
Proof.
  induction l as [|a l IH]; intros d; [left; split; reflexivity|].
  right. rewrite last_cons_default. destruct (IH a) as [[H1 H2]|H].
  - rewrite H1. left. reflexivity.
  - right. exact H.
Qed.

Lemma sorted_app_lt : forall (a b : list N) x y, StronglySorted N.lt (a ++ b) ->
  In x a -> In y b -> x < y.
Proof.
  induction a as [|z a IH]; intros b x y Hs Hx Hy; [destruct Hx|].
  cbn [app] in Hs. inversion Hs as [|? ? Hst Hall]; subst.
  destruct Hx as [->|Hx].
  - rewrite Forall_forall in Hall. apply Hall. apply in_or_app. right. exact Hy.
  - apply (IH b x y Hst Hx Hy).
Qed.

Lemma sorted_app_r : forall (a b : list N), StronglySorted N.lt (a ++ b) -> StronglySorted N.lt b.
Proof.
  induction a as [|z a IH]; intros b Hs; [exact Hs|].
  cbn [app] in Hs. inversion Hs; subst. apply IH. assumption.
Qed.

Lemma sorted_app_nodup : forall (a b : list N) x, StronglySorted N.lt (a ++ b) ->
  In x a -> ~ In x b.
Proof. intros a b x Hs Ha Hb. pose proof (sorted_app_lt a b x x Hs Ha Hb). lia. Qed.

Lemma nB_snoc_B : forall es i k, nB (es ++ [EB i]) k = (nB es k + if (k =? i)%N then 1 else 0)%Z.
Proof. intros. rewrite nB_app. cbn [nB]. lia. Qed.
Lemma nD_snoc_D : forall es i k, nD (es ++ [ED i]) k = (nD es k + if (k =? i)%N then 1 else 0)%Z.
Proof. intros. rewrite nD_app. cbn [nD]. lia. Qed.

(* one processOne step preserves the invariant (d = false: Begin, true: Done) *)
Lemma pinv_process_one : forall d0 es p i d,
  pinv d0 es p -> st (process_one i d p) = Running ->
  pinv d0 (es ++ [if d then ED i else EB i]) (process_one i d p).
Proof.
  intros d0 es p i d Hinv Hrun.
  destruct Hinv as [Hs Hk Hge Hmin Hcnt Hseen Hdu Hd0 Hhsrc Hwgt Hwsrc Hwreg Hwcl].
  pose proof (process_one_spec i d p Hs Hk Hrun) as Hspec. cbv zeta in Hspec.
  destruct Hspec as [Hile [popped [sel [Hh [Hu [Hg [Hle [Hmin' [Hws [Hcl [Hsel1 [Hsel2 Hhp]]]]]]]]]]]].
  set (p' := process_one i d p) in *.
  set (hp := match mget i (pending p) with Some _ => heap p | None => heap_push i (heap p) end) in *.
  set (pd := mset i (pend0 i (pending p) + (if d then -1 else 1))%Z (pending p)) in *.
  assert (Hhp_in : forall k, In k hp <-> k = i \/ In k (heap p)).
  { intros k. unfold hp. destruct (mget i (pending p)) eqn:E.
    - split; [auto|]. intros [->|H]; [|exact H]. apply Hk. congruence.
    - apply heap_push_In. }
  assert (Hhp_ge : forall k, In k hp -> done_until p <= k).
  { intros k Hk'. apply Hhp_in in Hk'. destruct Hk' as [->|Hk']; [exact Hile|apply Hge; exact Hk']. }
  assert (Hmono : done_until p <= done_until p').
  { rewrite Hu. destruct (last_in_or_default popped (done_until p)) as [[H1 _]|H]; [lia|].
    apply Hhp_ge. rewrite Hh. apply in_or_app. left. exact H. }
  assert (Hrest_gt : forall k, In k (heap p') -> popped <> [] -> done_until p' < k).
  { intros k Hk' Hne. rewrite Hu. destruct (last_in_or_default popped (done_until p)) as [[_ H2]|H]; [congruence|].
    rewrite Hh in Hhp. apply (sorted_app_lt _ _ _ _ Hhp H Hk'). }
  assert (Hpd_keys : forall k, mget k pd <> None <-> In k hp).
  { intros k. unfold pd. rewrite mget_mset, Hhp_in. destruct (k =? i) eqn:E.
    - apply N.eqb_eq in E. subst. split; [auto|congruence].
    - apply N.eqb_neq in E. rewrite <- Hk. split; [auto|]. intros [H|H]; [congruence|exact H]. }
  constructor.
  - (* sorted *) rewrite Hh in Hhp. apply (sorted_app_r _ _ Hhp).
  - (* keys *)
    intros k. rewrite Hg. destruct (inb k popped) eqn:Ein.
    + apply inb_In in Ein. split; [|congruence]. intros Hin. exfalso.
      rewrite Hh in Hhp. apply (sorted_app_nodup _ _ k Hhp Ein Hin).
    + rewrite Hpd_keys, Hh. split; [intros; apply in_or_app; right; auto|].
      intros Hin. apply in_app_or in Hin. destruct Hin as [Hin|Hin]; [|exact Hin].
      apply inb_In in Hin. congruence.
  - (* ge *)
    intros k Hk'. destruct popped as [|m popped'] eqn:Ep.
    + cbn [last] in Hu. rewrite Hu. apply Hhp_ge. rewrite Hh. cbn. exact Hk'.
    + assert (done_until p' < k) by (apply Hrest_gt; [exact Hk'|discriminate]). lia.
  - exact Hmin'.
  - (* cnt *)
    intros k. unfold pend0 at 1. rewrite Hg. fold (pend0 k pd).
    assert (Hold : (nB (es ++ [if d then ED i else EB i]) k - nD (es ++ [if d then ED i else EB i]) k
                    <= pend0 k pd)%Z).
    { unfold pd. rewrite pend0_mset. specialize (Hcnt k).
      destruct (k =? i) eqn:E; [apply N.eqb_eq in E; subst k|];
      destruct d; rewrite nB_app, nD_app; cbn [nB nD]; rewrite ?N.eqb_refl, ?E; lia. }
    destruct (inb k popped) eqn:Ein.
    + apply inb_In in Ein. specialize (Hle k Ein). lia.
    + unfold pend0 in Hold. exact Hold.
  - (* seen *)
    intros e He Hm. apply in_app_or in He.
    assert (Hcase : ev_index e <= done_until p \/ In (ev_index e) hp).
    { destruct He as [He|He].
      - destruct (Hseen e He Hm) as [H|H]; [left; exact H|right; apply Hhp_in; right; exact H].
      - right. apply Hhp_in. left. destruct He as [<-|[]]. destruct d; reflexivity. }
    destruct Hcase as [H|H]; [left; lia|].
    rewrite Hh in H. apply in_app_or in H. destruct H as [H|H]; [|right; exact H].
    left. rewrite Hu. destruct (last_in_or_default popped (done_until p)) as [[_ H2]|H2]; [subst; destruct H|].
    (* the last popped element is the largest popped one *)
    clear - H H2 Hhp Hh. rewrite Hh in Hhp.
    assert (Hsp : StronglySorted N.lt popped).
    { clear - Hhp. induction popped as [|a l IH]; [constructor|].
      cbn [app] in Hhp. inversion Hhp as [|? ? Hst Hall]; subst. constructor; [apply IH; exact Hst|].
      rewrite Forall_forall in Hall |- *. intros x Hx. apply Hall. apply in_or_app. left. exact Hx. }
    clear Hhp. revert H H2. generalize (done_until p). generalize (ev_index e). clear - Hsp.
    induction popped as [|a l IH]; intros x dflt Hx Hl; [destruct Hx|].
    rewrite last_cons_default in *. inversion Hsp as [|? ? Hst Hall]; subst.
    destruct (last_in_or_default l a) as [[H1 H2]|H3].
    + subst l. destruct Hx as [->|[]]. rewrite H1. lia.
    + destruct Hx as [->|Hx].
      * rewrite Forall_forall in Hall. specialize (Hall _ H3). lia.
      * apply (IH Hst x a Hx H3).
  - (* du *)
    destruct (last_in_or_default popped (done_until p)) as [[H1 _]|H].
    + rewrite Hu, H1. destruct Hdu as [Hdu|[e [He [Hm Hi]]]]; [left; exact Hdu|].
      right. exists e. split; [apply in_or_app; left; exact He|split; assumption].
    + right. assert (Hin : In (done_until p') hp) by (rewrite Hu, Hh; apply in_or_app; left; exact H).
      apply Hhp_in in Hin. destruct Hin as [Hin|Hin].
      * exists (if d then ED i else EB i). split; [apply in_or_app; right; left; reflexivity|].
        destruct d; cbn; auto.
      * destruct (Hhsrc _ Hin) as [e [He [Hm Hi]]].
        exists e. split; [apply in_or_app; left; exact He|split; assumption].
  - lia.
  - (* hsrc *)
    intros k Hk'. assert (Hin : In k hp) by (rewrite Hh; apply in_or_app; right; exact Hk').
    apply Hhp_in in Hin. destruct Hin as [->|Hin].
    + exists (if d then ED i else EB i). split; [apply in_or_app; right; left; reflexivity|].
      destruct d; cbn; auto.
    + destruct (Hhsrc _ Hin) as [e [He [Hm Hi]]].
      exists e. split; [apply in_or_app; left; exact He|split; assumption].
  - (* wgt *)
    intros k l Hin. rewrite Hws in Hin. apply filter_In in Hin. destruct Hin as [Hin Hns].
    cbn [fst] in Hns. specialize (Hwgt k l Hin).
    destruct (N.le_gt_cases k (done_until p')) as [Hle'|Hgt]; [|lia].
    rewrite (Hsel2 k Hwgt Hle') in Hns. discriminate.
  - (* wsrc *)
    intros k l w Hin Hw. rewrite Hws in Hin. apply filter_In in Hin. destruct Hin as [Hin _].
    apply in_or_app. left. apply (Hwsrc k l w Hin Hw).
  - (* wreg *)
    intros k w Hin. apply in_app_or in Hin. destruct Hin as [Hin|Hin].
    2:{ destruct Hin as [Hin|[]]. destruct d; discriminate. }
    destruct (Hwreg k w Hin) as [Hc|[l [Hl Hw]]].
    + left. rewrite Hcl. apply in_or_app. left. exact Hc.
    + destruct (sel k) eqn:Esel.
      * left. rewrite Hcl. apply in_or_app. right. apply in_flat_map.
        exists (k, l). split; [|exact Hw]. apply filter_In. split; [apply mget_In; exact Hl|exact Esel].
      * right. exists l. split; [|exact Hw]. rewrite Hws.
        rewrite (mget_filter_key (fun x => negb (sel x))). rewrite Esel. exact Hl.
  - (* wclosed *)
    intros w Hw. rewrite Hcl in Hw. apply in_app_or in Hw. destruct Hw as [Hw|Hw].
    + destruct (Hwcl w Hw) as [k [Hk1 Hk2]]. exists k. split; [apply in_or_app; left; exact Hk1|lia].
    + apply in_flat_map in Hw. destruct Hw as [[k l] [Hkl Hw]]. apply filter_In in Hkl.
      destruct Hkl as [Hkl Hs']. cbn [fst snd] in *. exists k.
      split; [apply in_or_app; left; apply (Hwsrc k l w Hkl Hw)|apply Hsel1; exact Hs'].
Qed.

(* the waiter branch preserves the invariant *)
Lemma pinv_process_wait : forall d0 es p i w,
  pinv d0 es p -> pinv d0 (es ++ [EW i w]) (process_wait i w p).
Proof.
  intros d0 es p i w Hinv.
  destruct Hinv as [Hs Hk Hge Hmin Hcnt Hseen Hdu Hd0 Hhsrc Hwgt Hwsrc Hwreg Hwcl].
  unfold process_wait. destruct (i <=? done_until p) eqn:Hle.
  - constructor; cbn [heap pending done_until waiters closed st]; auto.
    + intros k. rewrite nB_app, nD_app. cbn [nB nD]. specialize (Hcnt k). lia.
    + intros e He Hm. apply in_app_or in He. destruct He as [He|[<-|[]]]; [auto|discriminate].
    + destruct Hdu as [H|[e [He [Hm Hi]]]]; [left; exact H|right].
      exists e. split; [apply in_or_app; left; exact He|auto].
    + intros k Hk'. destruct (Hhsrc k Hk') as [e [He [Hm Hi]]].
      exists e. split; [apply in_or_app; left; exact He|auto].
    + intros k l w' Hin Hw. apply in_or_app. left. apply (Hwsrc k l w' Hin Hw).
    + intros k w' Hin. apply in_app_or in Hin. destruct Hin as [Hin|[Hin|[]]].
      * destruct (Hwreg k w' Hin) as [H|H]; [left; apply in_or_app; left; exact H|right; exact H].
      * inversion Hin; subst. left. apply in_or_app. right. left. reflexivity.
    + intros w' Hw. apply in_app_or in Hw. destruct Hw as [Hw|[<-|[]]].
      * destruct (Hwcl w' Hw) as [k [H1 H2]]. exists k. split; [apply in_or_app; left; exact H1|exact H2].
      * exists i. split; [apply in_or_app; right; left; reflexivity|lia].
  - set (l0 := match mget i (waiters p) with None => [w] | Some l => l ++ [w] end).
    assert (Hl0 : forall w', In w' l0 -> w' = w \/ exists l, mget i (waiters p) = Some l /\ In w' l).
    { intros w' Hw'. unfold l0 in Hw'. destruct (mget i (waiters p)) as [l|] eqn:E.
      - apply in_app_or in Hw'. destruct Hw' as [H|[<-|[]]]; [right; exists l; auto|left; reflexivity].
      - destruct Hw' as [<-|[]]. left. reflexivity. }
    constructor; cbn [heap pending done_until waiters closed st]; auto.
    + intros k. rewrite nB_app, nD_app. cbn [nB nD]. specialize (Hcnt k). lia.
    + intros e He Hm. apply in_app_or in He. destruct He as [He|[<-|[]]]; [auto|discriminate].
    + destruct Hdu as [H|[e [He [Hm Hi]]]]; [left; exact H|right].
      exists e. split; [apply in_or_app; left; exact He|auto].
    + intros k Hk'. destruct (Hhsrc k Hk') as [e [He [Hm Hi]]].
      exists e. split; [apply in_or_app; left; exact He|auto].
    + intros k l Hin. unfold mset in Hin. destruct Hin as [Hin|Hin].
      * inversion Hin; subst. lia.
      * unfold mrem in Hin. apply filter_In in Hin. destruct Hin as [Hin _]. apply (Hwgt k l Hin).
    + intros k l w' Hin Hw. apply in_or_app. unfold mset in Hin. destruct Hin as [Hin|Hin].
      * inversion Hin; subst. destruct (Hl0 w' Hw) as [->|[l [Hl Hw']]].
        -- right. left. reflexivity.
        -- left. apply (Hwsrc k l w' (mget_In _ _ _ Hl) Hw').
      * unfold mrem in Hin. apply filter_In in Hin. destruct Hin as [Hin _].
        left. apply (Hwsrc k l w' Hin Hw).
    + intros k w' Hin. apply in_app_or in Hin. destruct Hin as [Hin|[Hin|[]]].
      * destruct (Hwreg k w' Hin) as [H|[l [Hl Hw']]]; [left; exact H|right].
        rewrite mget_mset. destruct (k =? i) eqn:E.
        -- apply N.eqb_eq in E. subst k. exists l0. split; [reflexivity|].
           unfold l0. rewrite Hl. apply in_or_app. left. exact Hw'.
        -- exists l. auto.
      * inversion Hin; subst. right. rewrite mget_mset, N.eqb_refl. exists l0. split; [reflexivity|].
        unfold l0. destruct (mget k (waiters p)); [apply in_or_app; right|]; left; reflexivity.
    + intros w' Hw. destruct (Hwcl w' Hw) as [k [H1 H2]]. exists k.
      split; [apply in_or_app; left; exact H1|exact H2].
Qed.

Lemma process_evs_app : forall a b p, process_evs (a ++ b) p = process_evs b (process_evs a p).
Proof. intros. unfold process_evs. apply fold_left_app. Qed.

Lemma process_ev_dead : forall e p, st p <> Running -> process_ev e p = p.
Proof.
  intros e p H. unfold process_ev. destruct (st p =? Running) eqn:E; [|reflexivity].
  apply N.eqb_eq in E. contradiction.
Qed.

Lemma process_evs_dead : forall es p, st p <> Running -> process_evs es p = p.
Proof.
  induction es as [|e es IH]; intros p H; [reflexivity|].
  change (process_evs (e :: es) p) with (process_evs es (process_ev e p)).
  rewrite process_ev_dead by exact H. apply IH. exact H.
Qed.

Lemma process_wait_st : forall i w p, st (process_wait i w p) = st p.
Proof. intros. unfold process_wait. destruct (i <=? done_until p); reflexivity. Qed.

Lemma pinv_process_ev : forall d0 es p e,
  pinv d0 es p -> st (process_ev e p) = Running -> pinv d0 (es ++ [e]) (process_ev e p).
Proof.
  intros d0 es p e Hinv Hrun. unfold process_ev in *.
  destruct (st p =? Running) eqn:E; cbn [negb] in *.
  - destruct e as [i|i|i w].
    + apply (pinv_process_one d0 es p i false Hinv Hrun).
    + apply (pinv_process_one d0 es p i true Hinv Hrun).
    + apply pinv_process_wait. exact Hinv.
  - apply N.eqb_neq in E. congruence.
Qed.

(* THE sequential invariant: any event sequence, while the goroutine is alive *)
Theorem pinv_process_evs : forall d0 es,
  st (process_evs es (pinit d0)) = Running -> pinv d0 es (process_evs es (pinit d0)).
Proof.
  intros d0 es. induction es as [|e es IH] using rev_ind; intros Hrun.
  - apply pinv_init.
  - rewrite process_evs_app in *. cbn [process_evs fold_left] in *.
    set (p := process_evs es (pinit d0)) in *.
    assert (Hp : st p = Running).
    { destruct (N.eq_dec (st p) Running) as [H|H]; [exact H|].
      rewrite process_ev_dead in Hrun by exact H. contradiction. }
    apply pinv_process_ev; [apply IH; exact Hp|exact Hrun].
Qed.

(* doneUntil never decreases (no SetDoneUntil) *)
Lemma process_ev_mono : forall d0 es p e, pinv d0 es p -> st (process_ev e p) = Running ->
  done_until p <= done_until (process_ev e p).
Proof.
  intros d0 es p e Hinv Hrun. unfold process_ev in *.
  destruct (st p =? Running) eqn:E; cbn [negb] in *; [|lia].
  destruct Hinv as [Hs Hk Hge _ _ _ _ _ _ _ _ _ _].
  assert (Hone : forall i d, st (process_one i d p) = Running -> done_until p <= done_until (process_one i d p)).
  { intros i d Hr. pose proof (process_one_spec i d p Hs Hk Hr) as Hspec. cbv zeta in Hspec.
    destruct Hspec as [Hile [popped [sel [Hh [Hu _]]]]]. rewrite Hu.
    destruct (last_in_or_default popped (done_until p)) as [[H1 _]|H]; [lia|].
    assert (Hin : In (last popped (done_until p))
                    (match mget i (pending p) with Some _ => heap p | None => heap_push i (heap p) end))
      by (rewrite Hh; apply in_or_app; left; exact H).
    destruct (mget i (pending p)).
    - apply Hge. exact Hin.
    - apply heap_push_In in Hin. destruct Hin as [->|Hin]; [exact Hile|apply Hge; exact Hin]. }
  destruct e as [i|i|i w]; [apply Hone; exact Hrun|apply Hone; exact Hrun|].
  unfold process_wait. destruct (i <=? done_until p); cbn; lia.
Qed.

Theorem process_evs_mono : forall d0 a b,
  st (process_evs (a ++ b) (pinit d0)) = Running ->
  done_until (process_evs a (pinit d0)) <= done_until (process_evs (a ++ b) (pinit d0)).
Proof.
  intros d0 a b. induction b as [|e b IH] using rev_ind; intros Hrun.
  - rewrite app_nil_r. lia.
  - rewrite app_assoc in *. rewrite (process_evs_app (a ++ b) [e]) in Hrun |- *.
    cbn [process_evs fold_left] in Hrun |- *. fold (process_evs (a ++ b) (pinit d0)) in Hrun |- *.
    set (p := process_evs (a ++ b) (pinit d0)) in *.
    assert (Hp : st p = Running).
    { destruct (N.eq_dec (st p) Running) as [H|H]; [exact H|].
      rewrite process_ev_dead in Hrun by exact H. contradiction. }
    specialize (IH Hp).
    pose proof (process_ev_mono d0 (a ++ b) p e (pinv_process_evs d0 (a ++ b) Hp) Hrun). lia.
Qed.

(* ---------- usage contracts on the sequence of events SENT on the channel ---------- *)
(* readMark usage (general): Begin indices never decrease and are >= d0; Done(i) only while more
   Begin(i) than Done(i) have been sent *)
Inductive ok_read (d0 : N) : list ev -> Prop :=
| okr_nil : ok_read d0 []
| okr_B : forall es i, ok_read d0 es -> d0 <= i -> (forall j, In (EB j) es -> j <= i) ->
          ok_read d0 (es ++ [EB i])
| okr_D : forall es i, ok_read d0 es -> (nD es i < nB es i)%Z -> ok_read d0 (es ++ [ED i])
| okr_W : forall es i w, ok_read d0 es -> ok_read d0 (es ++ [EW i w]).

(* txnMark usage: Begin indices fresh and strictly increasing above d0; one Done per Begin *)
Inductive ok_txn (d0 : N) : list ev -> Prop :=
| okt_nil : ok_txn d0 []
| okt_B : forall es i, ok_txn d0 es -> d0 < i -> (forall j, In (EB j) es -> j < i) ->
          ok_txn d0 (es ++ [EB i])
| okt_D : forall es i, ok_txn d0 es -> In (EB i) es -> ~ In (ED i) es -> ok_txn d0 (es ++ [ED i])
| okt_W : forall es i w, ok_txn d0 es -> ok_txn d0 (es ++ [EW i w]).

Lemma ok_txn_read : forall d0 es, ok_txn d0 es -> ok_read d0 es.
Proof.
  intros d0 es H. induction H as [|es i H IH Hd Hj|es i H IH Hb Hd|es i w H IH].
  - constructor.
  - apply okr_B; [exact IH|lia|]. intros j Hin. specialize (Hj j Hin). lia.
  - apply okr_D; [exact IH|]. apply nB_pos_In in Hb.
    assert (nD es i = 0)%Z.
    { pose proof (nD_nonneg es i). destruct (Z.eq_dec (nD es i) 0) as [E|E]; [exact E|].
      exfalso. apply Hd. apply nD_pos_In. lia. }
    lia.
  - apply okr_W. exact IH.
Qed.

Lemma ok_read_snoc_inv : forall d0 es e, ok_read d0 (es ++ [e]) ->
  ok_read d0 es /\
  match e with
  | EB i => d0 <= i /\ forall j, In (EB j) es -> j <= i
  | ED i => (nD es i < nB es i)%Z
  | EW _ _ => True
  end.
Proof.
  intros d0 es e H. inversion H as [E|es' i H' Hd Hj E|es' i H' Hd E|es' i w H' E].
  - destruct es; discriminate.
  - apply app_inj_tail in E. destruct E as [-> <-]. auto.
  - apply app_inj_tail in E. destruct E as [-> <-]. auto.
  - apply app_inj_tail in E. destruct E as [-> <-]. auto.
Qed.

Lemma ok_txn_snoc_inv : forall d0 es e, ok_txn d0 (es ++ [e]) ->
  ok_txn d0 es /\
  match e with
  | EB i => d0 < i /\ forall j, In (EB j) es -> j < i
  | ED i => In (EB i) es /\ ~ In (ED i) es
  | EW _ _ => True
  end.
Proof.
  intros d0 es e H. inversion H as [E|es' i H' Hd Hj E|es' i H' Hb Hd E|es' i w H' E].
  - destruct es; discriminate.
  - apply app_inj_tail in E. destruct E as [-> <-]. auto.
  - apply app_inj_tail in E. destruct E as [-> <-]. auto.
  - apply app_inj_tail in E. destruct E as [-> <-]. auto.
Qed.

Lemma ok_read_prefix : forall d0 a b, ok_read d0 (a ++ b) -> ok_read d0 a.
Proof.
  intros d0 a b. induction b as [|e b IH] using rev_ind; intros H.
  - rewrite app_nil_r in H. exact H.
  - rewrite app_assoc in H. apply ok_read_snoc_inv in H. apply IH. apply H.
Qed.

Lemma ok_txn_prefix : forall d0 a b, ok_txn d0 (a ++ b) -> ok_txn d0 a.
Proof.
  intros d0 a b. induction b as [|e b IH] using rev_ind; intros H.
  - rewrite app_nil_r in H. exact H.
  - rewrite app_assoc in H. apply ok_txn_snoc_inv in H. apply IH. apply H.
Qed.

Lemma ok_read_nD_le : forall d0 es, ok_read d0 es -> forall i, (nD es i <= nB es i)%Z.
Proof.
  intros d0 es H. induction H as [|es i H IH Hd Hj|es i H IH Hd|es i w H IH]; intros k.
  - cbn. lia.
  - rewrite nB_app, nD_app. cbn [nB nD]. specialize (IH k). destruct (k =? i); lia.
  - rewrite nB_app, nD_app. cbn [nB nD]. specialize (IH k).
    destruct (k =? i) eqn:E; [apply N.eqb_eq in E; subst; lia|lia].
  - rewrite nB_app, nD_app. cbn [nB nD]. specialize (IH k). lia.
Qed.

Lemma ok_read_DB : forall d0 es j, ok_read d0 es -> In (ED j) es -> In (EB j) es.
Proof.
  intros d0 es j H Hin. apply nD_pos_In in Hin. apply nB_pos_In.
  pose proof (ok_read_nD_le d0 es H j). lia.
Qed.

(* every Begin index of a contract-respecting history is >= any earlier Begin index: the max *)
Lemma ok_read_mark_le : forall d0 es i, ok_read d0 (es ++ [EB i]) ->
  forall e, In e es -> is_mark_ev e = true -> ev_index e <= i.
Proof.
  intros d0 es i H e He Hm. apply ok_read_snoc_inv in H. destruct H as [Hok [_ Hj]].
  destruct e as [j|j|j w]; cbn [ev_index]; [apply Hj; exact He| |discriminate].
  apply Hj. apply (ok_read_DB d0 es j Hok He).
Qed.

Definition bounded (es : list ev) : Prop := forall e, In e es -> ev_index e < max_u64.

Lemma pop_loop_until : forall h pd u0 h' pd' until,
  pop_loop h pd u0 = (h', pd', until) -> until = u0 \/ In until h.
Proof.
  induction h as [|m rest IH]; intros pd u0 h' pd' until H; cbn [pop_loop] in H.
  - inversion H. left. reflexivity.
  - destruct (0 <? pend0 m pd)%Z; [inversion H; left; reflexivity|].
    apply IH in H. destruct H as [->|H]; right; [left; reflexivity|right; exact H].
Qed.

(* the only ways processOne does not come back *)
Lemma process_one_status : forall i d p,
  st (process_one i d p) = Running \/
  (st (process_one i d p) = Fatal /\ i < done_until p) \/
  (st (process_one i d p) = Hung /\
   (done_until p = max_u64 \/ i = max_u64 \/ In max_u64 (heap p))).
Proof.
  intros i d p. unfold process_one.
  destruct (i <? done_until p) eqn:Hlt; [right; left; cbn; split; [reflexivity|lia]|].
  set (hp := if match mget i (pending p) with Some _ => true | None => false end
             then heap p else heap_push i (heap p)).
  destruct (pop_loop hp _ (done_until p)) as [[hp' pd'] until] eqn:Hpop.
  destruct (u64_sub until (done_until p) <=? N.of_nat (length (waiters p))).
  - destruct (until =? max_u64) eqn:Hmax; [|left; reflexivity].
    right. right. cbn. split; [reflexivity|]. apply N.eqb_eq in Hmax. subst until.
    apply pop_loop_until in Hpop. destruct Hpop as [H|H]; [left; auto|].
    unfold hp in H. destruct (mget i (pending p)); [right; right; exact H|].
    apply heap_push_In in H. destruct H as [H|H]; [right; left; auto|right; right; exact H].
  - left. reflexivity.
Qed.

Lemma pinv_du_bound : forall d0 es p, pinv d0 es p -> d0 < max_u64 -> bounded es ->
  done_until p < max_u64 /\ ~ In max_u64 (heap p).
Proof.
  intros d0 es p Hinv Hd Hb. split.
  - destruct (pi_du _ _ _ Hinv) as [H|[e [He [_ Hi]]]]; [lia|]. rewrite <- Hi. apply Hb. exact He.
  - intro Hin. destruct (pi_hsrc _ _ _ Hinv _ Hin) as [e [He [_ Hi]]].
    specialize (Hb e He). lia.
Qed.

(* Under the readMark contract (hence also the txnMark contract) the process goroutine never
   trips its assertion, never hangs, and pending[i] is exactly #Begin(i) - #Done(i). *)
Theorem read_contract_running : forall d0 es,
  d0 < max_u64 -> bounded es -> ok_read d0 es ->
  st (process_evs es (pinit d0)) = Running /\
  forall i, pend0 i (pending (process_evs es (pinit d0))) = (nB es i - nD es i)%Z.
Proof.
  intros d0 es Hd0 Hb Hok. induction Hok as [|es i H IH Hd Hj|es i H IH Hd|es i w H IH].
  - split; [reflexivity|]. intros i. reflexivity.
  - (* Begin *)
    assert (Hb' : bounded es) by (intros e He; apply Hb; apply in_or_app; left; exact He).
    destruct (IH Hb') as [Hrun Hcnt]. clear IH.
    pose proof (pinv_process_evs d0 es Hrun) as Hinv.
    rewrite process_evs_app. cbn [process_evs fold_left]. fold (process_evs es (pinit d0)).
    set (p := process_evs es (pinit d0)) in *.
    assert (Hdu : done_until p <= i).
    { destruct (pi_du _ _ _ Hinv) as [E|[e [He [Hm Hi]]]]; [lia|]. rewrite <- Hi.
      apply (ok_read_mark_le d0 es i); [apply okr_B; assumption|exact He|exact Hm]. }
    assert (Hrun' : st (process_ev (EB i) p) = Running).
    { unfold process_ev. rewrite Hrun. cbn [N.eqb negb Running].
      destruct (process_one_status i false p) as [E|[[_ E]|[_ E]]]; [exact E|lia|].
      destruct (pinv_du_bound d0 es p Hinv Hd0 Hb') as [B1 B2].
      assert (i < max_u64) by (apply (Hb (EB i)); apply in_or_app; right; left; reflexivity).
      destruct E as [E|[E|E]]; [lia|lia|contradiction]. }
    split; [exact Hrun'|]. intros k.
    unfold process_ev in *. rewrite Hrun in *. cbn [N.eqb negb Running] in *.
    pose proof (process_one_spec i false p (pi_sorted _ _ _ Hinv) (pi_keys _ _ _ Hinv) Hrun') as Hspec.
    cbv zeta in Hspec. destruct Hspec as [_ [popped [sel [_ [_ [Hg [Hle _]]]]]]].
    assert (Hpd : pend0 k (mset i (pend0 i (pending p) + 1)%Z (pending p))
                  = (nB (es ++ [EB i]) k - nD (es ++ [EB i]) k)%Z).
    { rewrite pend0_mset, nB_app, nD_app. cbn [nB nD].
      destruct (k =? i) eqn:E; [apply N.eqb_eq in E; subst k|]; rewrite Hcnt; lia. }
    unfold pend0 at 1. rewrite Hg. destruct (inb k popped) eqn:Ein.
    + apply inb_In in Ein. specialize (Hle k Ein). rewrite Hpd in Hle.
      pose proof (ok_read_nD_le d0 (es ++ [EB i]) (okr_B d0 es i H Hd Hj) k). lia.
    + rewrite <- Hpd. reflexivity.
  - (* Done *)
    assert (Hb' : bounded es) by (intros e He; apply Hb; apply in_or_app; left; exact He).
    destruct (IH Hb') as [Hrun Hcnt]. clear IH.
    pose proof (pinv_process_evs d0 es Hrun) as Hinv.
    rewrite process_evs_app. cbn [process_evs fold_left]. fold (process_evs es (pinit d0)).
    set (p := process_evs es (pinit d0)) in *.
    assert (Hdu : done_until p <= i).
    { apply (pi_ge _ _ _ Hinv). apply (pi_keys _ _ _ Hinv). specialize (Hcnt i).
      unfold pend0 in Hcnt. destruct (mget i (pending p)); [discriminate|lia]. }
    assert (Hrun' : st (process_ev (ED i) p) = Running).
    { unfold process_ev. rewrite Hrun. cbn [N.eqb negb Running].
      destruct (process_one_status i true p) as [E|[[_ E]|[_ E]]]; [exact E|lia|].
      destruct (pinv_du_bound d0 es p Hinv Hd0 Hb') as [B1 B2].
      assert (i < max_u64) by (apply (Hb (ED i)); apply in_or_app; right; left; reflexivity).
      destruct E as [E|[E|E]]; [lia|lia|contradiction]. }
    split; [exact Hrun'|]. intros k.
    unfold process_ev in *. rewrite Hrun in *. cbn [N.eqb negb Running] in *.
    pose proof (process_one_spec i true p (pi_sorted _ _ _ Hinv) (pi_keys _ _ _ Hinv) Hrun') as Hspec.
    cbv zeta in Hspec. destruct Hspec as [_ [popped [sel [_ [_ [Hg [Hle _]]]]]]].
    assert (Hpd : pend0 k (mset i (pend0 i (pending p) + -1)%Z (pending p))
                  = (nB (es ++ [ED i]) k - nD (es ++ [ED i]) k)%Z).
    { rewrite pend0_mset, nB_app, nD_app. cbn [nB nD].
      destruct (k =? i) eqn:E; [apply N.eqb_eq in E; subst k|]; rewrite Hcnt; lia. }
    unfold pend0 at 1. rewrite Hg. destruct (inb k popped) eqn:Ein.
    + apply inb_In in Ein. specialize (Hle k Ein). rewrite Hpd in Hle.
      pose proof (ok_read_nD_le d0 (es ++ [ED i]) (okr_D d0 es i H Hd) k). lia.
    + rewrite <- Hpd. reflexivity.
  - (* waiter *)
    assert (Hb' : bounded es) by (intros e He; apply Hb; apply in_or_app; left; exact He).
    destruct (IH Hb') as [Hrun Hcnt]. clear IH.
    rewrite process_evs_app. cbn [process_evs fold_left]. fold (process_evs es (pinit d0)).
    set (p := process_evs es (pinit d0)) in *.
    unfold process_ev. rewrite Hrun. cbn [N.eqb negb Running].
    split; [rewrite process_wait_st; exact Hrun|].
    intros k. rewrite nB_app, nD_app. cbn [nB nD]. specialize (Hcnt k).
    unfold process_wait. destruct (i <=? done_until p); cbn [pending]; lia.
Qed.

Lemma bounded_app_l : forall a b, bounded (a ++ b) -> bounded a.
Proof. intros a b H e He. apply H. apply in_or_app. left. exact He. Qed.

Lemma in_split_first : forall (e : ev) l, In e l -> exists a b, l = a ++ e :: b.
Proof. intros. apply in_split. assumption. Qed.

(* readMark form: processed prefix P, still queued Q; every index with more Begins than Dones
   SENT is >= doneUntil *)
Theorem read_sound : forall d0 P Q,
  d0 < max_u64 -> bounded (P ++ Q) -> ok_read d0 (P ++ Q) ->
  let p := process_evs P (pinit d0) in
  st p = Running /\
  forall i, (nD (P ++ Q) i < nB (P ++ Q) i)%Z -> done_until p <= i.
Proof.
  intros d0 P Q Hd0 Hb Hok p.
  pose proof (ok_read_prefix d0 P Q Hok) as HokP.
  destruct (read_contract_running d0 P Hd0 (bounded_app_l _ _ Hb) HokP) as [Hrun Hcnt].
  fold p in Hrun, Hcnt. split; [exact Hrun|]. intros i Hi.
  pose proof (pinv_process_evs d0 P Hrun) as Hinv. fold p in Hinv.
  destruct (Z_lt_le_dec (nD P i) (nB P i)) as [Hlt|Hge].
  - apply (pi_ge _ _ _ Hinv). apply (pi_keys _ _ _ Hinv). specialize (Hcnt i).
    unfold pend0 in Hcnt. destruct (mget i (pending p)); [discriminate|lia].
  - rewrite nB_app, nD_app in Hi. pose proof (nD_nonneg Q i).
    assert (HinQ : In (EB i) Q) by (apply nB_pos_In; lia).
    destruct (in_split _ _ HinQ) as [Q1 [Q2 EQ]]. subst Q.
    assert (Hok1 : ok_read d0 ((P ++ Q1) ++ [EB i])).
    { apply (ok_read_prefix d0 _ Q2). rewrite <- !app_assoc. exact Hok. }
    destruct (pi_du _ _ _ Hinv) as [E|[e [He [Hm Hidx]]]].
    + apply ok_read_snoc_inv in Hok1. destruct Hok1 as [_ [H1 _]]. lia.
    + rewrite <- Hidx. apply (ok_read_mark_le d0 (P ++ Q1) i Hok1 e); [|exact Hm].
      apply in_or_app. left. exact He.
Qed.

(* under the txnMark contract every heap entry is strictly above doneUntil *)
Lemma txn_heap_strict : forall d0 es,
  d0 < max_u64 -> bounded es -> ok_txn d0 es ->
  forall k, In k (heap (process_evs es (pinit d0))) -> done_until (process_evs es (pinit d0)) < k.
Proof.
  intros d0 es Hd0 Hb Hok. induction Hok as [|es i H IH Hd Hj|es i H IH Hbi Hdi|es i w H IH].
  - intros k [].
  - pose proof (bounded_app_l _ _ Hb) as Hb'. specialize (IH Hb').
    destruct (read_contract_running d0 es Hd0 Hb' (ok_txn_read _ _ H)) as [Hrun _].
    destruct (read_contract_running d0 _ Hd0 Hb (ok_txn_read _ _ (okt_B d0 es i H Hd Hj))) as [Hrun' _].
    pose proof (pinv_process_evs d0 es Hrun) as Hinv.
    rewrite process_evs_app in *. cbn [process_evs fold_left] in *. fold (process_evs es (pinit d0)) in *.
    set (p := process_evs es (pinit d0)) in *.
    unfold process_ev in *. rewrite Hrun in *. cbn [N.eqb negb Running] in *.
    assert (Hdu : done_until p < i).
    { destruct (pi_du _ _ _ Hinv) as [E|[e [He [Hm Hi]]]]; [lia|]. rewrite <- Hi.
      destruct e as [j|j|j w]; cbn [ev_index]; [apply Hj; exact He| |discriminate].
      apply Hj. apply (ok_read_DB d0 es j (ok_txn_read _ _ H) He). }
    pose proof (process_one_spec i false p (pi_sorted _ _ _ Hinv) (pi_keys _ _ _ Hinv) Hrun') as Hspec.
    cbv zeta in Hspec. destruct Hspec as [_ [popped [sel [Hh [Hu [_ [_ [_ [_ [_ [_ [_ Hhp]]]]]]]]]]]].
    intros k Hk.
    destruct (last_in_or_default popped (done_until p)) as [[H1 H2]|H3].
    + rewrite Hu, H1. subst popped. cbn [app] in Hh. rewrite <- Hh in Hk.
      destruct (mget i (pending p)); [apply IH; exact Hk|].
      apply heap_push_In in Hk. destruct Hk as [->|Hk]; [exact Hdu|apply IH; exact Hk].
    + rewrite Hu. rewrite Hh in Hhp. apply (sorted_app_lt _ _ _ _ Hhp H3 Hk).
  - pose proof (bounded_app_l _ _ Hb) as Hb'. specialize (IH Hb').
    destruct (read_contract_running d0 es Hd0 Hb' (ok_txn_read _ _ H)) as [Hrun Hcnt].
    destruct (read_contract_running d0 _ Hd0 Hb (ok_txn_read _ _ (okt_D d0 es i H Hbi Hdi))) as [Hrun' _].
    pose proof (pinv_process_evs d0 es Hrun) as Hinv.
    rewrite process_evs_app in *. cbn [process_evs fold_left] in *. fold (process_evs es (pinit d0)) in *.
    set (p := process_evs es (pinit d0)) in *.
    unfold process_ev in *. rewrite Hrun in *. cbn [N.eqb negb Running] in *.
    assert (Hpres : mget i (pending p) <> None).
    { specialize (Hcnt i). apply nB_pos_In in Hbi.
      assert (nD es i = 0)%Z.
      { pose proof (nD_nonneg es i). destruct (Z.eq_dec (nD es i) 0) as [E|E]; [exact E|].
        exfalso. apply Hdi. apply nD_pos_In. lia. }
      unfold pend0 in Hcnt. destruct (mget i (pending p)); [discriminate|lia]. }
    pose proof (process_one_spec i true p (pi_sorted _ _ _ Hinv) (pi_keys _ _ _ Hinv) Hrun') as Hspec.
    cbv zeta in Hspec. destruct Hspec as [_ [popped [sel [Hh [Hu [_ [_ [_ [_ [_ [_ [_ Hhp]]]]]]]]]]]].
    intros k Hk.
    destruct (mget i (pending p)) eqn:E; [|congruence].
    destruct (last_in_or_default popped (done_until p)) as [[H1 H2]|H3].
    + rewrite Hu, H1. subst popped. cbn [app] in Hh. rewrite <- Hh in Hk. apply IH. exact Hk.
    + rewrite Hu. rewrite Hh in Hhp. apply (sorted_app_lt _ _ _ _ Hhp H3 Hk).
  - pose proof (bounded_app_l _ _ Hb) as Hb'. specialize (IH Hb').
    destruct (read_contract_running d0 es Hd0 Hb' (ok_txn_read _ _ H)) as [Hrun _].
    rewrite process_evs_app. cbn [process_evs fold_left]. fold (process_evs es (pinit d0)).
    unfold process_ev. rewrite Hrun. cbn [N.eqb negb Running].
    unfold process_wait. destruct (i <=? _); cbn [heap done_until]; exact IH.
Qed.

(* txnMark form: an index whose Begin was sent and whose Done was not sent is > doneUntil *)
Theorem txn_sound : forall d0 P Q,
  d0 < max_u64 -> bounded (P ++ Q) -> ok_txn d0 (P ++ Q) ->
  let p := process_evs P (pinit d0) in
  st p = Running /\
  forall i, In (EB i) (P ++ Q) -> ~ In (ED i) (P ++ Q) -> done_until p < i.
Proof.
  intros d0 P Q Hd0 Hb Hok p.
  pose proof (ok_txn_prefix d0 P Q Hok) as HokP.
  pose proof (bounded_app_l _ _ Hb) as HbP.
  destruct (read_contract_running d0 P Hd0 HbP (ok_txn_read _ _ HokP)) as [Hrun Hcnt].
  fold p in Hrun, Hcnt. split; [exact Hrun|]. intros i Hbi Hdi.
  pose proof (pinv_process_evs d0 P Hrun) as Hinv. fold p in Hinv.
  apply in_app_or in Hbi. destruct Hbi as [HinP|HinQ].
  - apply (txn_heap_strict d0 P Hd0 HbP HokP). fold p.
    apply (pi_keys _ _ _ Hinv). specialize (Hcnt i). apply nB_pos_In in HinP.
    assert (nD P i = 0)%Z.
    { pose proof (nD_nonneg P i). destruct (Z.eq_dec (nD P i) 0) as [E|E]; [exact E|].
      exfalso. apply Hdi. apply in_or_app. left. apply nD_pos_In. lia. }
    unfold pend0 in Hcnt. destruct (mget i (pending p)); [discriminate|lia].
  - destruct (in_split _ _ HinQ) as [Q1 [Q2 EQ]]. subst Q.
    assert (Hok1 : ok_txn d0 ((P ++ Q1) ++ [EB i])).
    { apply (ok_txn_prefix d0 _ Q2). rewrite <- !app_assoc. exact Hok. }
    apply ok_txn_snoc_inv in Hok1. destruct Hok1 as [Hok2 [H1 H2]].
    destruct (pi_du _ _ _ Hinv) as [E|[e [He [Hm Hidx]]]]; [lia|].
    rewrite <- Hidx. destruct e as [j|j|j w]; cbn [ev_index]; [| |discriminate].
    + apply H2. apply in_or_app. left. exact He.
    + apply H2. apply in_or_app. left. apply (ok_read_DB d0 P j (ok_txn_read _ _ HokP) He).
Qed.

(* completeness: once everything at or below r is balanced in the processed history and r was
   begun (or is the start value), doneUntil has reached r *)
Theorem read_complete : forall d0 es r,
  d0 < max_u64 -> bounded es -> ok_read d0 es ->
  (r = d0 \/ In (EB r) es) ->
  (forall j, j <= r -> nB es j = nD es j) ->
  r <= done_until (process_evs es (pinit d0)).
Proof.
  intros d0 es r Hd0 Hb Hok Hr Hbal.
  destruct (read_contract_running d0 es Hd0 Hb Hok) as [Hrun Hcnt].
  pose proof (pinv_process_evs d0 es Hrun) as Hinv.
  set (p := process_evs es (pinit d0)) in *.
  destruct (N.le_gt_cases r (done_until p)) as [H|Hlt]; [exact H|exfalso].
  pose proof (pi_d0 _ _ _ Hinv) as Hd.
  destruct Hr as [->|Hr]; [lia|].
  destruct (pi_seen _ _ _ Hinv (EB r) Hr eq_refl) as [H|Hin]; [cbn in H; lia|]. cbn [ev_index] in Hin.
  pose proof (pi_min _ _ _ Hinv) as Hmin. pose proof (pi_sorted _ _ _ Hinv) as Hs.
  destruct (heap p) as [|m rest] eqn:Eh; [destruct Hin|].
  assert (m <= r).
  { destruct Hin as [->|Hin]; [lia|]. inversion Hs as [|? ? _ Hall]; subst.
    rewrite Forall_forall in Hall. specialize (Hall r Hin). lia. }
  rewrite Hcnt in Hmin. specialize (Hbal m H). lia.
Qed.

(* waiters: no lost wake-up, no early release (any event sequence, no contract) *)
Theorem waiter_released : forall d0 es i w,
  st (process_evs es (pinit d0)) = Running -> In (EW i w) es ->
  i <= done_until (process_evs es (pinit d0)) -> In w (closed (process_evs es (pinit d0))).
Proof.
  intros d0 es i w Hrun Hin Hle. pose proof (pinv_process_evs d0 es Hrun) as Hinv.
  destruct (pi_wreg _ _ _ Hinv i w Hin) as [H|[l [Hl Hw]]]; [exact H|].
  pose proof (pi_wgt _ _ _ Hinv i l (mget_In _ _ _ Hl)). lia.
Qed.

Theorem waiter_not_early : forall d0 es w,
  st (process_evs es (pinit d0)) = Running -> In w (closed (process_evs es (pinit d0))) ->
  exists i, In (EW i w) es /\ i <= done_until (process_evs es (pinit d0)).
Proof.
  intros d0 es w Hrun Hin. apply (pi_wclosed _ _ _ (pinv_process_evs d0 es Hrun) w Hin).
Qed.

(* ---------- the LTS: senders interleaved with the process goroutine ---------- *)
Definition sent_marks (tr : list label) : list mark :=
  flat_map (fun l => match label_mark l with Some m => [m] | None => [] end) tr.
Definition marks_events (ms : list mark) : list ev := flat_map mark_events ms.
Definition sent_events (tr : list label) : list ev := marks_events (sent_marks tr).
Definition no_setdu (tr : list label) : Prop := forall v, ~ In (LSetDoneUntil v) tr.

Lemma wm_run_app : forall a b s, wm_run (a ++ b) s = wm_run b (wm_run a s).
Proof. intros. unfold wm_run. apply fold_left_app. Qed.

Lemma marks_events_app : forall a b, marks_events (a ++ b) = marks_events a ++ marks_events b.
Proof. intros. unfold marks_events. apply flat_map_app. Qed.

Lemma sent_marks_app : forall a b, sent_marks (a ++ b) = sent_marks a ++ sent_marks b.
Proof. intros. unfold sent_marks. apply flat_map_app. Qed.

(* every reachable state = (process state after a prefix of what was sent, the rest queued) *)
Theorem wm_run_split : forall d0 tr, no_setdu tr ->
  exists pm, sent_marks tr = pm ++ queue (wm_run tr (wm_init d0)) /\
             ps (wm_run tr (wm_init d0)) = process_evs (marks_events pm) (pinit d0).
Proof.
  intros d0 tr. induction tr as [|l tr IH] using rev_ind; intros Hns.
  - exists []. split; reflexivity.
  - assert (Hns' : no_setdu tr) by (intros v Hv; apply (Hns v); apply in_or_app; left; exact Hv).
    destruct (IH Hns') as [pm [Hq Hp]]. clear IH.
    rewrite wm_run_app, sent_marks_app. cbn [wm_run fold_left].
    fold (wm_run tr (wm_init d0)). set (s := wm_run tr (wm_init d0)) in *.
    assert (Hsend : forall m s', ps s' = ps s -> queue s' = queue s ->
              exists pm0, (pm ++ queue s) ++ [m] = pm0 ++ queue (send m s') /\
                          ps (send m s') = process_evs (marks_events pm0) (pinit d0)).
    { intros m s' H1 H2. exists pm. unfold send. cbn [queue ps]. rewrite H1, H2, app_assoc. auto. }
    destruct l as [i|is|i|is|v|i w|]; cbn [sent_marks flat_map label_mark app wm_apply]; rewrite ?app_nil_r.
    + rewrite Hq. apply Hsend; reflexivity.
    + destruct is as [|i0 is]; cbn [flat_map app]; rewrite ?app_nil_r.
      * exists pm. auto.
      * rewrite Hq. apply Hsend; reflexivity.
    + rewrite Hq. apply Hsend; reflexivity.
    + rewrite Hq. apply Hsend; reflexivity.
    + exfalso. apply (Hns v). apply in_or_app. right. left. reflexivity.
    + rewrite Hq. apply Hsend; reflexivity.
    + destruct (negb (st (ps s) =? Running)); [exists pm; auto|].
      destruct (queue s) as [|m q] eqn:Eq; [exists pm; rewrite Eq; auto|].
      exists (pm ++ [m]). cbn [queue ps]. split; [rewrite Hq, <- app_assoc; reflexivity|].
      rewrite marks_events_app, process_evs_app, <- Hp. unfold process_mark, marks_events.
      cbn [flat_map]. rewrite app_nil_r. reflexivity.
Qed.

Lemma process_evs_running_prefix : forall b p, st (process_evs b p) = Running -> st p = Running.
Proof.
  intros b p H. destruct (N.eq_dec (st p) Running) as [E|E]; [exact E|].
  rewrite process_evs_dead in H by exact E. contradiction.
Qed.

Lemma process_evs_mono_gen : forall d0 b es p, pinv d0 es p ->
  st (process_evs b p) = Running ->
  done_until p <= done_until (process_evs b p) /\ pinv d0 (es ++ b) (process_evs b p).
Proof.
  intros d0 b. induction b as [|e b IH]; intros es p Hinv Hrun.
  - cbn. rewrite app_nil_r. split; [lia|exact Hinv].
  - change (process_evs (e :: b) p) with (process_evs b (process_ev e p)) in *.
    pose proof (process_evs_running_prefix _ _ Hrun) as Hr1.
    pose proof (process_ev_mono d0 es p e Hinv Hr1) as Hm.
    pose proof (pinv_process_ev d0 es p e Hinv Hr1) as Hinv'.
    destruct (IH _ _ Hinv' Hrun) as [H1 H2]. split; [lia|].
    replace (es ++ e :: b) with ((es ++ [e]) ++ b) by (rewrite <- app_assoc; reflexivity). exact H2.
Qed.

(* the state invariant carried along a run: ps = processing of SOME list of events *)
Lemma wm_run_pinv : forall d0 tr, no_setdu tr ->
  st (ps (wm_run tr (wm_init d0))) = Running ->
  exists es, pinv d0 es (ps (wm_run tr (wm_init d0))).
Proof.
  intros d0 tr Hns Hrun. destruct (wm_run_split d0 tr Hns) as [pm [_ Hp]].
  exists (marks_events pm). rewrite Hp in *. apply pinv_process_evs. exact Hrun.
Qed.

(* DoneUntil never decreases along any interleaving without SetDoneUntil *)
Theorem wm_done_until_mono : forall d0 tr1 tr2, no_setdu (tr1 ++ tr2) ->
  st (ps (wm_run (tr1 ++ tr2) (wm_init d0))) = Running ->
  done_until (ps (wm_run tr1 (wm_init d0))) <= done_until (ps (wm_run (tr1 ++ tr2) (wm_init d0))).
Proof.
  intros d0 tr1 tr2. induction tr2 as [|l tr2 IH] using rev_ind; intros Hns Hrun.
  - rewrite app_nil_r. lia.
  - rewrite app_assoc in *. rewrite wm_run_app in Hrun |- *. cbn [wm_run fold_left] in Hrun |- *.
    fold (wm_run (tr1 ++ tr2) (wm_init d0)) in Hrun |- *.
    assert (Hns' : no_setdu (tr1 ++ tr2)) by (intros v Hv; apply (Hns v); apply in_or_app; left; exact Hv).
    set (s := wm_run (tr1 ++ tr2) (wm_init d0)) in *.
    assert (Hstep : st (ps s) = Running /\ done_until (ps s) <= done_until (ps (wm_apply l s))).
    { destruct l as [i|is|i|is|v|i w|]; cbn [wm_apply] in Hrun |- *;
        try (split; [exact Hrun|cbn; lia]).
      - destruct is; cbn in Hrun |- *; split; try exact Hrun; lia.
      - exfalso. apply (Hns v). apply in_or_app. right. left. reflexivity.
      - destruct (negb (st (ps s) =? Running)) eqn:E; [split; [exact Hrun|lia]|].
        destruct (queue s) as [|m q]; [split; [exact Hrun|lia]|]. cbn [ps] in Hrun |- *.
        unfold process_mark in *. pose proof (process_evs_running_prefix _ _ Hrun) as Hr.
        split; [exact Hr|]. destruct (wm_run_pinv d0 (tr1 ++ tr2) Hns' Hr) as [es Hinv].
        apply (process_evs_mono_gen d0 _ es _ Hinv Hrun). }
    destruct Hstep as [Hr Hle]. specialize (IH Hns' Hr). lia.
Qed.

Definition wait_mark (i w : N) : mark := mkMark i (Some w) [] false.

Lemma in_sent_marks : forall tr l m, In l tr -> label_mark l = Some m -> In m (sent_marks tr).
Proof.
  intros tr l m Hin Hm. unfold sent_marks. apply in_flat_map. exists l. split; [exact Hin|].
  rewrite Hm. left. reflexivity.
Qed.

Lemma in_marks_events : forall ms m e, In m ms -> In e (mark_events m) -> In e (marks_events ms).
Proof. intros. unfold marks_events. apply in_flat_map. exists m. auto. Qed.

Lemma sent_marks_inv : forall tr m, In m (sent_marks tr) -> exists l, In l tr /\ label_mark l = Some m.
Proof.
  intros tr m H. unfold sent_marks in H. apply in_flat_map in H. destruct H as [l [Hl Hm]].
  exists l. split; [exact Hl|]. destruct (label_mark l); [destruct Hm as [->|[]]; reflexivity|destruct Hm].
Qed.

Lemma wait_event_mark : forall m i w, In (EW i w) (mark_events m) -> m_index m = i /\ m_waiter m = Some w.
Proof.
  intros m i w H. unfold mark_events in H. destruct (m_waiter m) as [w'|].
  - destruct H as [H|[]]. inversion H. auto.
  - apply in_map_iff in H. destruct H as [x [Hx _]]. destruct (m_done m); discriminate.
Qed.

(* no lost wake-up, in every reachable state *)
Theorem wm_waiter_released : forall d0 tr i w, no_setdu tr ->
  let s := wm_run tr (wm_init d0) in
  st (ps s) = Running ->
  In (LWait i w) tr -> ~ In (wait_mark i w) (queue s) ->
  i <= done_until (ps s) -> In w (closed (ps s)).
Proof.
  intros d0 tr i w Hns s Hrun Hin Hnq Hle.
  destruct (wm_run_split d0 tr Hns) as [pm [Hq Hp]]. fold s in Hq, Hp.
  assert (Hm : In (wait_mark i w) pm).
  { pose proof (in_sent_marks tr (LWait i w) (wait_mark i w) Hin eq_refl) as H.
    rewrite Hq in H. apply in_app_or in H. destruct H; [assumption|contradiction]. }
  rewrite Hp in *. apply (waiter_released d0 _ i w Hrun); [|exact Hle].
  apply (in_marks_events pm (wait_mark i w)); [exact Hm|left; reflexivity].
Qed.

(* a closed waiter channel belongs to a waiter whose index has been reached *)
Theorem wm_waiter_not_early : forall d0 tr w, no_setdu tr ->
  let s := wm_run tr (wm_init d0) in
  st (ps s) = Running -> In w (closed (ps s)) ->
  exists i, In (LWait i w) tr /\ i <= done_until (ps s).
Proof.
  intros d0 tr w Hns s Hrun Hin.
  destruct (wm_run_split d0 tr Hns) as [pm [Hq Hp]]. fold s in Hq, Hp. rewrite Hp in *.
  destruct (waiter_not_early d0 _ w Hrun Hin) as [i [Hi Hle]]. exists i. split; [|exact Hle].
  unfold marks_events in Hi. apply in_flat_map in Hi. destruct Hi as [m [Hm He]].
  destruct (wait_event_mark m i w He) as [H1 H2].
  assert (Hs : In m (sent_marks tr)) by (rewrite Hq; apply in_or_app; left; exact Hm).
  destruct (sent_marks_inv tr m Hs) as [l [Hl Hlm]].
  destruct l as [j|is|j|is|v|j w'|]; cbn in Hlm; try discriminate;
    try (inversion Hlm; subst m; cbn in H2; discriminate).
  - destruct is; [discriminate|]. inversion Hlm; subst m; cbn in H2; discriminate.
  - inversion Hlm; subst m. cbn in H1, H2. inversion H2. subst. exact Hl.
Qed.

(* txnMark usage, every interleaving: never dies, and an index whose Begin has been sent and
   whose Done has not been sent is strictly above DoneUntil *)
Theorem wm_txn_sound : forall d0 tr, no_setdu tr ->
  d0 < max_u64 -> bounded (sent_events tr) -> ok_txn d0 (sent_events tr) ->
  let s := wm_run tr (wm_init d0) in
  st (ps s) = Running /\
  forall i, In (EB i) (sent_events tr) -> ~ In (ED i) (sent_events tr) -> done_until (ps s) < i.
Proof.
  intros d0 tr Hns Hd0 Hb Hok s.
  destruct (wm_run_split d0 tr Hns) as [pm [Hq Hp]]. fold s in Hq, Hp.
  unfold sent_events in *. rewrite Hq, marks_events_app in *. rewrite Hp.
  apply (txn_sound d0 _ _ Hd0 Hb Hok).
Qed.

(* readMark usage: an index with more Begins than Dones sent is >= DoneUntil *)
Theorem wm_read_sound : forall d0 tr, no_setdu tr ->
  d0 < max_u64 -> bounded (sent_events tr) -> ok_read d0 (sent_events tr) ->
  let s := wm_run tr (wm_init d0) in
  st (ps s) = Running /\
  forall i, (nD (sent_events tr) i < nB (sent_events tr) i)%Z -> done_until (ps s) <= i.
Proof.
  intros d0 tr Hns Hd0 Hb Hok s.
  destruct (wm_run_split d0 tr Hns) as [pm [Hq Hp]]. fold s in Hq, Hp.
  unfold sent_events in *. rewrite Hq, marks_events_app in *. rewrite Hp.
  apply (read_sound d0 _ _ Hd0 Hb Hok).
Qed.

(* once the channel is drained, DoneUntil has reached every begun index below which all is done *)
Theorem wm_complete : forall d0 tr r, no_setdu tr ->
  d0 < max_u64 -> bounded (sent_events tr) -> ok_read d0 (sent_events tr) ->
  let s := wm_run tr (wm_init d0) in
  queue s = [] ->
  (r = d0 \/ In (EB r) (sent_events tr)) ->
  (forall j, j <= r -> nB (sent_events tr) j = nD (sent_events tr) j) ->
  r <= done_until (ps s).
Proof.
  intros d0 tr r Hns Hd0 Hb Hok s Hq0 Hr Hbal.
  destruct (wm_run_split d0 tr Hns) as [pm [Hq Hp]]. fold s in Hq, Hp.
  rewrite Hq0, app_nil_r in Hq. unfold sent_events in *. rewrite Hq in *. rewrite Hp.
  apply (read_complete d0 _ r Hd0 Hb Hok Hr Hbal).
Qed.

(* the process goroutine empties the channel in (length queue) receives *)
Lemma drain_queue : forall n s, st (ps (drain n s)) = Running -> (length (queue s) <= n)%nat ->
  queue (drain n s) = [].
Proof.
  induction n as [|n IH]; intros s Hrun Hlen; cbn [drain] in *.
  - destruct (queue s); [reflexivity|cbn in Hlen; lia].
  - destruct (queue s) as [|m q] eqn:E; [exact E|].
    apply IH; [exact Hrun|]. cbn [wm_apply]. destruct (negb (st (ps s) =? Running)) eqn:Es.
    + exfalso. clear IH. assert (Hd : st (ps s) <> Running).
      { intro Hc. rewrite Hc in Es. discriminate. }
      assert (Hfix : forall k s', st (ps s') <> Running -> ps (drain k s') = ps s').
      { induction k as [|k IHk]; intros s' Hs'; cbn [drain]; [reflexivity|].
        destruct (queue s'); [reflexivity|]. cbn [wm_apply].
        destruct (negb (st (ps s') =? Running)) eqn:E'; [apply IHk; exact Hs'|].
        exfalso. apply Hs'. destruct (st (ps s') =? Running) eqn:E2; [apply N.eqb_eq; exact E2|discriminate]. }
      cbn [wm_apply] in Hrun. rewrite Es in Hrun. rewrite (Hfix n s Hd) in Hrun. contradiction.
    + rewrite E. cbn [queue]. cbn in Hlen. lia.
Qed.
