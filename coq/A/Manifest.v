(* Manifest.v — byte-exact model of /repo/manifest.go and of the protobuf wire encoding of
   pb.ManifestChange / pb.ManifestChangeSet (pb/badgerpb4.proto).  Definitions only.

   Anchors:  Manifest, createManifest, asChanges, clone, helpOpenOrCreateManifestFile,
             manifestFile.addChanges, helpRewrite, manifestFile.rewrite, ReplayManifestFile,
             applyManifestChange, applyChangeSet, newCreateChange.
   Go maps are association lists sorted by key (canonical, so equality is Leibniz equality);
   the unspecified iteration order of `range m.Tables` in asChanges is an explicit argument
   `ord` (any list of ids; it is used iff it enumerates the table ids exactly once). *)
From Verif Require Import Bytes Uvarint Consts Crc32cM.
Open Scope N_scope.

(* ------------------------------------------------------------------------------------ *)
(* finite maps with uint64 keys                                                          *)
(* ------------------------------------------------------------------------------------ *)
Section SMap.
  Context {V : Type}.
  Definition smap := list (N * V).

  Fixpoint sfind (k : N) (l : smap) : option V :=
    match l with
    | [] => None
    | (k', v) :: r => if k =? k' then Some v else sfind k r
    end.

  Fixpoint sins (k : N) (v : V) (l : smap) : smap :=
    match l with
    | [] => [(k, v)]
    | (k', v') :: r =>
        if k <? k' then (k, v) :: l
        else if k =? k' then (k, v) :: r
        else (k', v') :: sins k v r
    end.

  Fixpoint sdel (k : N) (l : smap) : smap :=
    match l with
    | [] => []
    | (k', v') :: r => if k =? k' then r else (k', v') :: sdel k r
    end.
End SMap.
Arguments smap V : clear implicits.

Definition skeys {V} (l : smap V) : list N := map fst l.

Fixpoint upd_nth {A} (n : nat) (f : A -> A) (l : list A) : list A :=
  match l, n with
  | [], _ => []
  | x :: r, O => f x :: r
  | x :: r, S n' => x :: upd_nth n' f r
  end.

Fixpoint nodupb (l : list N) : bool :=
  match l with
  | [] => true
  | x :: r => negb (existsb (N.eqb x) r) && nodupb r
  end.

(* ------------------------------------------------------------------------------------ *)
(* pb.ManifestChange and its wire encoding (proto3, google.golang.org/protobuf)           *)
(* ------------------------------------------------------------------------------------ *)
(* Enum fields (Op, EncryptionAlgo) are int32 in Go; c_op / c_enc hold the uint64 image
   uint64(int64(v)) that the varint encoder emits (so -1 is 2^64-1). *)
Record change := mkChange {
  c_id : N;     (* uint64 Id = 1 *)
  c_op : N;     (* Operation Op = 2: CREATE = 0, DELETE = 1 *)
  c_level : N;  (* uint32 Level = 3 *)
  c_keyid : N;  (* uint64 key_id = 4 *)
  c_enc : N;    (* EncryptionAlgo encryption_algo = 5 *)
  c_comp : N    (* uint32 compression = 6 *)
}.

Definition two31 : N := 2147483648.
Definition enum_ok (v : N) : bool := (v <? two31) || ((two64 - two31 <=? v) && (v <? two64)).
Definition wf_change (c : change) : bool :=
  (c_id c <? two64) && enum_ok (c_op c) && (c_level c <? two32) && (c_keyid c <? two64)
  && enum_ok (c_enc c) && (c_comp c <? two32).

(* proto3: a scalar field equal to its default (0) is omitted; fields are emitted in field-number
   order; all six are varints, tag byte = (number << 3) | 0 *)
Definition pb_field (tag v : N) : bytes := if v =? 0 then [] else tag :: put_uvarint v.

Definition pb_change_body (c : change) : bytes :=
  pb_field 8 (c_id c) ++ pb_field 16 (c_op c) ++ pb_field 24 (c_level c)
  ++ pb_field 32 (c_keyid c) ++ pb_field 40 (c_enc c) ++ pb_field 48 (c_comp c).

(* repeated ManifestChange changes = 1: tag 0x0a, varint length, body *)
Definition pb_change (c : change) : bytes :=
  let b := pb_change_body c in 10 :: put_uvarint (N.of_nat (length b)) ++ b.

Definition pb_changeset (cs : list change) : bytes := flat_map pb_change cs.

(* ---- proto.Unmarshal (impl/decode.go unmarshalPointer, protowire) ----
   DErr   = the Go decoder returns an error;
   DUnsup = outside the modelled domain (a group-typed unknown field). *)
Inductive dres (A : Type) := DOk (a : A) | DErr | DUnsup.
Arguments DOk {A} a.
Arguments DErr {A}.
Arguments DUnsup {A}.

(* int32(v) of a decoded varint, returned as its uint64 image *)
Definition int32_image (v : N) : N :=
  let w := v mod two32 in if w <? two31 then w else w + (two64 - two32).

Definition set_field (c : change) (num v : N) : change :=
  match num with
  | 1 => mkChange v (c_op c) (c_level c) (c_keyid c) (c_enc c) (c_comp c)
  | 2 => mkChange (c_id c) (int32_image v) (c_level c) (c_keyid c) (c_enc c) (c_comp c)
  | 3 => mkChange (c_id c) (c_op c) (v mod two32) (c_keyid c) (c_enc c) (c_comp c)
  | 4 => mkChange (c_id c) (c_op c) (c_level c) v (c_enc c) (c_comp c)
  | 5 => mkChange (c_id c) (c_op c) (c_level c) (c_keyid c) (int32_image v) (c_comp c)
  | 6 => mkChange (c_id c) (c_op c) (c_level c) (c_keyid c) (c_enc c) (v mod two32)
  | _ => c
  end.

Definition change0 : change := mkChange 0 0 0 0 0 0.

(* tag: varint; field number 1 .. 2^29-1; returns (number, wire type, rest) *)
Definition pb_tag (b : bytes) : dres (N * N * bytes) :=
  let '(t, n) := uvarint b in
  if (n <=? 0)%Z then DErr
  else
    let num := t / 8 in
    if (num =? 0) || (536870911 <? num) then DErr
    else DOk (num, t mod 8, skipn (Z.to_nat n) b).

(* protowire.ConsumeFieldValue for a field that is not decoded into the message *)
Definition pb_skip (wt : N) (b : bytes) : dres bytes :=
  match wt with
  | 0 => let '(_, n) := uvarint b in
         if (n <=? 0)%Z then DErr else DOk (skipn (Z.to_nat n) b)
  | 1 => if (length b <? 8)%nat then DErr else DOk (skipn 8 b)
  | 2 => let '(len, n) := uvarint b in
         if (n <=? 0)%Z then DErr
         else let r := skipn (Z.to_nat n) b in
              if N.of_nat (length r) <? len then DErr else DOk (skipn (N.to_nat len) r)
  | 5 => if (length b <? 4)%nat then DErr else DOk (skipn 4 b)
  | 3 => DUnsup
  | _ => DErr
  end.

Fixpoint pb_dec_change_f (fuel : nat) (b : bytes) (c : change) : dres change :=
  match b with
  | [] => DOk c
  | _ :: _ =>
    match fuel with
    | O => DErr
    | S f =>
      match pb_tag b with
      | DErr => DErr
      | DUnsup => DUnsup
      | DOk (num, wt, r) =>
          if (num <=? 6) && (wt =? 0) then
            let '(v, n) := uvarint r in
            if (n <=? 0)%Z then DErr
            else pb_dec_change_f f (skipn (Z.to_nat n) r) (set_field c num v)
          else
            match pb_skip wt r with
            | DOk r' => pb_dec_change_f f r' c
            | DErr => DErr
            | DUnsup => DUnsup
            end
      end
    end
  end.
Definition pb_dec_change (b : bytes) : dres change := pb_dec_change_f (length b) b change0.

Fixpoint pb_dec_changeset_f (fuel : nat) (b : bytes) : dres (list change) :=
  match b with
  | [] => DOk []
  | _ :: _ =>
    match fuel with
    | O => DErr
    | S f =>
      match pb_tag b with
      | DErr => DErr
      | DUnsup => DUnsup
      | DOk (num, wt, r) =>
          if (num =? 1) && (wt =? 2) then
            let '(len, n) := uvarint r in
            if (n <=? 0)%Z then DErr
            else
              let r2 := skipn (Z.to_nat n) r in
              if N.of_nat (length r2) <? len then DErr
              else
                match pb_dec_change (firstn (N.to_nat len) r2) with
                | DOk c =>
                    match pb_dec_changeset_f f (skipn (N.to_nat len) r2) with
                    | DOk cs => DOk (c :: cs)
                    | e => e
                    end
                | DErr => DErr
                | DUnsup => DUnsup
                end
          else
            match pb_skip wt r with
            | DOk r' => pb_dec_changeset_f f r'
            | DErr => DErr
            | DUnsup => DUnsup
            end
      end
    end
  end.
Definition pb_dec_changeset (b : bytes) : dres (list change) := pb_dec_changeset_f (length b) b.

(* ------------------------------------------------------------------------------------ *)
(* Manifest, applyManifestChange, applyChangeSet                                         *)
(* ------------------------------------------------------------------------------------ *)
Record tmf := mkTM { tm_level : N (* uint8 *); tm_keyid : N; tm_comp : N }.

Record manifest := mkM {
  m_levels : list (smap unit);   (* Levels []levelManifest: per level the set of table ids *)
  m_tables : smap tmf;           (* Tables map[uint64]TableManifest *)
  m_creations : Z;               (* Go int; no wrap-around modelled (|.| < 2^63) *)
  m_deletions : Z
}.

Definition empty_manifest : manifest := mkM [] [] 0%Z 0%Z.   (* createManifest() *)

Inductive aerr := AExists (id : N) | ABadOp.

(* for len(build.Levels) <= int(tc.Level) { append(empty level) } *)
Definition grow_levels (lv : list (smap unit)) (n : nat) : list (smap unit) :=
  lv ++ repeat [] (n - length lv).

(* applyManifestChange.  On error the manifest is returned unchanged by THIS change
   (the error paths return before mutating). *)
Definition apply_change (m : manifest) (c : change) : manifest * option aerr :=
  if c_op c =? 0 then
    match sfind (c_id c) (m_tables m) with
    | Some _ => (m, Some (AExists (c_id c)))
    | None =>
        let lv := grow_levels (m_levels m) (S (N.to_nat (c_level c))) in
        (mkM (upd_nth (N.to_nat (c_level c)) (sins (c_id c) tt) lv)
             (sins (c_id c) (mkTM (c_level c mod 256) (c_keyid c) (c_comp c)) (m_tables m))
             (m_creations m + 1) (m_deletions m), None)
    end
  else if c_op c =? 1 then
    match sfind (c_id c) (m_tables m) with
    | None =>   (* warning only; the id is removed from every level set *)
        (mkM (map (sdel (c_id c)) (m_levels m)) (m_tables m)
             (m_creations m) (m_deletions m + 1), None)
    | Some t =>
        (mkM (upd_nth (N.to_nat (tm_level t)) (sdel (c_id c)) (m_levels m))
             (sdel (c_id c) (m_tables m))
             (m_creations m) (m_deletions m + 1), None)
    end
  else (m, Some ABadOp).

(* applyChangeSet: stops at the first failing change; the changes before it STAY applied
   (the caller's manifest was mutated in place) *)
Fixpoint apply_changeset (m : manifest) (cs : list change) : manifest * option aerr :=
  match cs with
  | [] => (m, None)
  | c :: r =>
      match apply_change m c with
      | (m', None) => apply_changeset m' r
      | (m', Some e) => (m', Some e)
      end
  end.

(* newCreateChange(id, level, keyID, compression); EncryptionAlgo_aes = 0 *)
Definition create_of (id : N) (t : tmf) : change :=
  mkChange id 0 (tm_level t) (tm_keyid t) 0 (tm_comp t).

Definition ord_ok (ord : list N) (t : smap tmf) : bool :=
  (length ord =? length t)%nat && nodupb ord
  && forallb (fun id => match sfind id t with Some _ => true | None => false end) ord.

(* asChanges: `for id, tm := range m.Tables` in the order `ord` when that is an enumeration of
   the ids, in ascending id order otherwise *)
Definition as_changes (t : smap tmf) (ord : list N) : list change :=
  if ord_ok ord t then
    flat_map (fun id => match sfind id t with Some x => [create_of id x] | None => [] end) ord
  else map (fun kv => create_of (fst kv) (snd kv)) t.

(* Manifest.clone: y.Check(applyChangeSet(&ret, asChanges)); None = the y.Check panic *)
Definition clone (m : manifest) : option manifest :=
  match apply_changeset empty_manifest (as_changes (m_tables m) []) with
  | (m', None) => Some m'
  | (_, Some _) => None
  end.

(* ------------------------------------------------------------------------------------ *)
(* the file                                                                              *)
(* ------------------------------------------------------------------------------------ *)
(* magicText(4) ‖ externalMagic(2, BE) ‖ badgerMagicVersion(2, BE) *)
Definition mf_header (ext : N) : bytes :=
  c_magicText ++ be_enc 2 ext ++ be_enc 2 c_badgerMagicVersion.

(* PutUint32(len(buf)) ‖ PutUint32(crc32c(buf)) ‖ buf   (uint32(len) keeps the low 32 bits) *)
Definition mf_record (payload : bytes) : bytes :=
  be_enc 4 (N.of_nat (length payload)) ++ be_enc 4 (crc32c_m payload) ++ payload.

(* helpRewrite: fresh file = header ‖ one record holding asChanges *)
Definition rewrite_file (ext : N) (m : manifest) (ord : list N) : bytes :=
  mf_header ext ++ mf_record (pb_changeset (as_changes (m_tables m) ord)).

(* ------------------------------------------------------------------------------------ *)
(* ReplayManifestFile                                                                    *)
(* ------------------------------------------------------------------------------------ *)
Inductive rerr :=
| EBadMagic            (* errBadMagic: fewer than 8 bytes, or magic text differs *)
| EVersion             (* "manifest has unsupported version" *)
| EExtMagic            (* "external magic number doesn't match" *)
| ELenGtSize           (* "Buffer length: %d greater than file size" *)
| EBadChecksum         (* errBadChecksum *)
| EUnmarshal           (* proto.Unmarshal error *)
| EUnsupported         (* payload outside the modelled protobuf domain *)
| EApply (e : aerr).   (* applyChangeSet error *)

Inductive rres := RErr (e : rerr) | ROk (m : manifest) (off : N).

(* the record loop.  fsize32 = uint32(stat.Size()); off = r.count at the top of the iteration;
   b = unread bytes.  io.EOF / io.ErrUnexpectedEOF on the 8-byte prefix or on the payload = break
   with `offset` still at the start of that record. *)
Fixpoint replay_loop (fuel : nat) (fsize32 off : N) (b : bytes) (m : manifest) : rres :=
  match fuel with
  | O => ROk m off
  | S f =>
      if (length b <? 8)%nat then ROk m off
      else
        let len := be_dec (firstn 4 b) in
        let crc := be_dec (firstn 4 (skipn 4 b)) in
        if fsize32 <? len then RErr ELenGtSize
        else
          let body := skipn 8 b in
          if N.of_nat (length body) <? len then ROk m off
          else
            let payload := firstn (N.to_nat len) body in
            if negb (crc32c_m payload =? crc) then RErr EBadChecksum
            else
              match pb_dec_changeset payload with
              | DErr => RErr EUnmarshal
              | DUnsup => RErr EUnsupported
              | DOk cs =>
                  match apply_changeset m cs with
                  | (_, Some e) => RErr (EApply e)
                  | (m', None) =>
                      replay_loop f fsize32 (off + 8 + len) (skipn (N.to_nat len) body) m'
                  end
              end
  end.

Definition replay (ext : N) (file : bytes) : rres :=
  if (length file <? 8)%nat then RErr EBadMagic
  else if negb (bytes_eqb (firstn 4 file) c_magicText) then RErr EBadMagic
  else if negb (be_dec (firstn 2 (skipn 6 file)) =? c_badgerMagicVersion) then RErr EVersion
  else if negb (be_dec (firstn 2 (skipn 4 file)) =? ext) then RErr EExtMagic
  else replay_loop (S (length file)) (N.of_nat (length file) mod two32) 8 (skipn 8 file)
                   empty_manifest.

(* ------------------------------------------------------------------------------------ *)
(* manifestFile: create, addChanges, rewrite, re-open                                    *)
(* ------------------------------------------------------------------------------------ *)
Record mcfg := mkCfg {
  cfg_atomic_apply : bool;  (* repair flag for finding F6 (false = the pinned tree) *)
  cfg_thr : Z;              (* deletionsRewriteThreshold *)
  cfg_ext : N               (* externalMagic (uint16) *)
}.

Record mfile := mkMF { mf_bytes : bytes; mf_man : manifest }.

Inductive step :=
| SAdd (cs : list change) (ord : list N)   (* addChanges; ord resolves asChanges' map order *)
| SReopen                                   (* close; helpOpenOrCreateManifestFile again *)
| STear (n : nat) (zero : bool).            (* close; crash damage: the MANIFEST is cut to n bytes
                                               (zero: and zero-filled up to its old size); open again *)

Inductive outcome :=
| ORejected (e : aerr)      (* addChanges returned the applyChangeSet error; nothing written *)
| OAppended
| ORewrote
| OReopened (off : N)
| OReopenFailed (e : rerr)
| OPanic.                   (* y.Check in clone *)

(* helpOpenOrCreateManifestFile on a directory without MANIFEST *)
Definition mf_create (cfg : mcfg) : mfile :=
  mkMF (rewrite_file (cfg_ext cfg) empty_manifest []) empty_manifest.

Definition rewrite_due (cfg : mcfg) (m : manifest) : bool :=
  ((cfg_thr cfg <? m_deletions m)
   && (Z.of_N c_manifestDeletionsRatio * (m_creations m - m_deletions m) <? m_deletions m))%Z.

(* addChanges: apply to the in-memory manifest first; then rewrite or append *)
Definition add_changes (cfg : mcfg) (st : mfile) (cs : list change) (ord : list N)
  : mfile * outcome :=
  let buf := pb_changeset cs in
  match apply_changeset (mf_man st) cs with
  | (m', Some e) =>
      (mkMF (mf_bytes st) (if cfg_atomic_apply cfg then mf_man st else m'), ORejected e)
  | (m', None) =>
      if rewrite_due cfg m' then
        (mkMF (rewrite_file (cfg_ext cfg) m' ord)
              (mkM (m_levels m') (m_tables m') (Z.of_nat (length (m_tables m'))) 0%Z),
         ORewrote)
      else (mkMF (mf_bytes st ++ mf_record buf) m', OAppended)
  end.

(* helpOpenOrCreateManifestFile on an existing MANIFEST: replay, truncate at truncOffset,
   live manifest = clone of the replayed one *)
Definition reopen (cfg : mcfg) (st : mfile) : mfile * outcome :=
  match replay (cfg_ext cfg) (mf_bytes st) with
  | RErr e => (st, OReopenFailed e)
  | ROk m off =>
      match clone m with
      | None => (st, OPanic)
      | Some m' => (mkMF (firstn (N.to_nat off) (mf_bytes st)) m', OReopened off)
      end
  end.

Definition tear_bytes (b : bytes) (n : nat) (zero : bool) : bytes :=
  firstn n b ++ (if zero then repeat 0 (length b - n) else []).

Definition do_step (cfg : mcfg) (st : mfile) (s : step) : mfile * outcome :=
  match s with
  | SAdd cs ord => add_changes cfg st cs ord
  | SReopen => reopen cfg st
  | STear n zero => reopen cfg (mkMF (tear_bytes (mf_bytes st) n zero) (mf_man st))
  end.

Fixpoint run (cfg : mcfg) (st : mfile) (steps : list step) : mfile * list outcome :=
  match steps with
  | [] => (st, [])
  | s :: r =>
      let '(st', o) := do_step cfg st s in
      let '(st'', os) := run cfg st' r in
      (st'', o :: os)
  end.

Definition cfg_current (thr : Z) (ext : N) : mcfg := mkCfg false thr ext.

(* ------------------------------------------------------------------------------------ *)
(* vocabulary of the theorems (props/C17.v)                                              *)
(* ------------------------------------------------------------------------------------ *)
(* the image of a MANIFEST holding the change sets css, one record each *)
Definition mf_records (css : list (list change)) : bytes :=
  flat_map (fun cs => mf_record (pb_changeset cs)) css.
Definition mf_image (ext : N) (css : list (list change)) : bytes := mf_header ext ++ mf_records css.

(* change sets applied one after the other, stopping at the first rejected one *)
Fixpoint apply_sets (m : manifest) (css : list (list change)) : manifest * option aerr :=
  match css with
  | [] => (m, None)
  | cs :: r =>
      match apply_changeset m cs with
      | (m', None) => apply_sets m' r
      | (m', Some e) => (m', Some e)
      end
  end.

Definition wf_changeset (cs : list change) : bool := forallb wf_change cs.

(* the run theorems are about runs without crash damage; torn tails are the C09_manifest_* theorems *)
Definition step_wf (s : step) : bool :=
  match s with SAdd cs _ => wf_changeset cs | SReopen => true | STear _ _ => false end.

Definition outcome_ok (o : outcome) : bool :=
  match o with OAppended | ORewrote | OReopened _ => true | _ => false end.

(* a run in which every argument is a value of its Go type, every file stays below 4 GiB
   (uint32(len(buf)), uint32(stat.Size())), and — unless `allow_rejects` — every addChanges
   call is accepted *)
Fixpoint run_ok (allow_rejects : bool) (cfg : mcfg) (st : mfile) (steps : list step) : Prop :=
  match steps with
  | [] => True
  | s :: r =>
      let '(st', o) := do_step cfg st s in
      step_wf s = true
      /\ (outcome_ok o = true \/ (allow_rejects = true /\ exists e, o = ORejected e))
      /\ N.of_nat (length (mf_bytes st')) < two32
      /\ run_ok allow_rejects cfg st' r
  end.

Fixpoint no_reopen (steps : list step) : bool :=
  match steps with
  | [] => true
  | SReopen :: _ => false
  | STear _ _ :: _ => false
  | SAdd _ _ :: r => no_reopen r
  end.

(* the table map as a function: what "the same table-to-level map" means *)
Definition same_tables (a b : manifest) : Prop := m_tables a = m_tables b.
Definition same_counters (a b : manifest) : Prop :=
  m_creations a = m_creations b /\ m_deletions a = m_deletions b.

(* ids registered at level l (levels beyond the slice are empty) *)
Definition level_ids (m : manifest) (l : nat) : list N := skeys (nth l (m_levels m) []).

(* the change sets addChanges accepted (returned nil for), in order: the specification of what
   the table map must be is their atomic application, nothing else *)
Fixpoint accepted (steps : list step) (outs : list outcome) : list (list change) :=
  match steps, outs with
  | SAdd cs _ :: r, o :: os => if outcome_ok o then cs :: accepted r os else accepted r os
  | SReopen :: r, _ :: os => accepted r os
  | STear _ _ :: r, _ :: os => accepted r os
  | _, _ => []
  end.
