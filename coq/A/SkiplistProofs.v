(* SkiplistProofs.v — the sequential skiplist model (Skiplist.v) is a sorted map: structural
   invariant for any sequence of puts with any heights, specification of findNear in its four
   modes, of Put, Get, findLast and the iterator calls. *)
From Verif Require Import Bytes Skiplist.
From Coq Require Import Sorted Lia.
Open Scope nat_scope.

Section Proofs.
Variables K V : Type.
Variable cmp : K -> K -> comparison.
Variable same_key : K -> K -> bool.
Variables (dk : K) (dv : V).
(* the keys CompareKeys is a total order on (internal keys: at least 8 bytes) *)
Variable wfk : K -> Prop.
Hypothesis cmp_antisym : forall a b, wfk a -> wfk b -> cmp b a = CompOpp (cmp a b).
Hypothesis cmp_trans : forall a b c, wfk a -> wfk b -> wfk c ->
  cmp a b = Lt -> cmp b c = Lt -> cmp a c = Lt.
Hypothesis cmp_eq_compat : forall a b c, wfk a -> wfk b -> wfk c ->
  cmp a b = Eq -> cmp a c = cmp b c.

Notation skl := (skl K V).
Notation node := (node K V).
Notation node_at := (node_at K V dk dv).
Notation kof := (kof K V dk dv).
Notation vof := (vof K V dk dv).
Notation get_next := (get_next K V dk dv).
Notation set_tower := (set_tower K V dk dv).
Notation set_value := (set_value K V dk dv).
Notation walk := (walk K V cmp dk dv).
Notation find_near_from := (find_near_from K V cmp dk dv).
Notation find_near := (find_near K V cmp dk dv).
Notation find_splice := (find_splice K V cmp dk dv).
Notation descend := (descend K V cmp dk dv).
Notation link_levels := (link_levels K V cmp dk dv).
Notation put := (put K V cmp dk dv).
Notation chain := (chain K V dk dv).
Notation level_nodes := (level_nodes K V dk dv).
Notation contents := (contents K V dk dv).
Notation fuel_of := (fuel_of K V).
Notation dnode := (dnode K V dk dv).

Lemma cmp_refl : forall a, wfk a -> cmp a a = Eq.
Proof.
  intros a H. pose proof (cmp_antisym a a H H) as E. destruct (cmp a a); try reflexivity; discriminate.
Qed.

Lemma cmp_gt_lt : forall a b, wfk a -> wfk b -> cmp a b = Gt -> cmp b a = Lt.
Proof. intros a b Ha Hb H. rewrite (cmp_antisym a b Ha Hb), H. reflexivity. Qed.
Lemma cmp_lt_gt : forall a b, wfk a -> wfk b -> cmp a b = Lt -> cmp b a = Gt.
Proof. intros a b Ha Hb H. rewrite (cmp_antisym a b Ha Hb), H. reflexivity. Qed.
Lemma cmp_eq_sym : forall a b, wfk a -> wfk b -> cmp a b = Eq -> cmp b a = Eq.
Proof. intros a b Ha Hb H. rewrite (cmp_antisym a b Ha Hb), H. reflexivity. Qed.

(* ---------- lists with update ---------- *)
Lemma upd_nth_length : forall {A} (l : list A) n x, length (upd_nth n x l) = length l.
Proof. induction l as [|a l IH]; intros [|n] x; cbn; auto. Qed.

Lemma nth_upd_nth_same : forall {A} (l : list A) n x d, n < length l -> nth n (upd_nth n x l) d = x.
Proof.
  induction l as [|a l IH]; intros [|n] x d H; cbn in *; try lia; [reflexivity|]. apply IH. lia.
Qed.

Lemma nth_upd_nth_other : forall {A} (l : list A) n k x d, k <> n -> nth k (upd_nth n x l) d = nth k l d.
Proof.
  induction l as [|a l IH]; intros [|n] [|k] x d H; cbn; try reflexivity; try lia. apply IH. lia.
Qed.

Lemma upd_nth_oob : forall {A} (l : list A) n x, length l <= n -> upd_nth n x l = l.
Proof.
  induction l as [|a l IH]; intros [|n] x H; cbn in *; try reflexivity; try lia. f_equal. apply IH. lia.
Qed.

(* ---------- frame properties of the pointer updates ---------- *)
Lemma set_tower_nodes_length : forall x l v s, length (nodes _ _ (set_tower x l v s)) = length (nodes _ _ s).
Proof. intros. unfold Skiplist.set_tower. cbn. apply upd_nth_length. Qed.

Lemma set_tower_height : forall x l v s, height _ _ (set_tower x l v s) = height _ _ s.
Proof. reflexivity. Qed.

Lemma node_at_set_tower_other : forall x l v s y, y <> x -> node_at (set_tower x l v s) y = node_at s y.
Proof.
  intros. unfold Skiplist.node_at, Skiplist.set_tower. cbn [nodes]. apply nth_upd_nth_other. exact H.
Qed.

Lemma node_at_set_tower_same : forall x l v s, x < length (nodes _ _ s) ->
  node_at (set_tower x l v s) x =
  mkNode _ _ (n_key _ _ (node_at s x)) (n_val _ _ (node_at s x)) (upd_nth l v (n_tower _ _ (node_at s x))).
Proof.
  intros. unfold Skiplist.node_at at 1. unfold Skiplist.set_tower. cbn [nodes].
  apply nth_upd_nth_same. exact H.
Qed.

Lemma set_tower_oob : forall x l v s, length (nodes _ _ s) <= x -> set_tower x l v s = s.
Proof.
  intros. unfold Skiplist.set_tower. rewrite upd_nth_oob by exact H. destruct s; reflexivity.
Qed.

Lemma kof_set_tower : forall x l v s y, kof (set_tower x l v s) y = kof s y.
Proof.
  intros. unfold Skiplist.kof. destruct (Nat.eq_dec y x) as [->|Hne].
  - destruct (Nat.lt_ge_cases x (length (nodes _ _ s))) as [Hlt|Hge].
    + rewrite node_at_set_tower_same by exact Hlt. reflexivity.
    + rewrite set_tower_oob by exact Hge. reflexivity.
  - rewrite node_at_set_tower_other by exact Hne. reflexivity.
Qed.

Lemma vof_set_tower : forall x l v s y, vof (set_tower x l v s) y = vof s y.
Proof.
  intros. unfold Skiplist.vof. destruct (Nat.eq_dec y x) as [->|Hne].
  - destruct (Nat.lt_ge_cases x (length (nodes _ _ s))) as [Hlt|Hge].
    + rewrite node_at_set_tower_same by exact Hlt. reflexivity.
    + rewrite set_tower_oob by exact Hge. reflexivity.
  - rewrite node_at_set_tower_other by exact Hne. reflexivity.
Qed.

Lemma tower_len_set_tower : forall x l v s y,
  length (n_tower _ _ (node_at (set_tower x l v s) y)) = length (n_tower _ _ (node_at s y)).
Proof.
  intros. destruct (Nat.eq_dec y x) as [->|Hne].
  - destruct (Nat.lt_ge_cases x (length (nodes _ _ s))) as [Hlt|Hge].
    + rewrite node_at_set_tower_same by exact Hlt. cbn. apply upd_nth_length.
    + rewrite set_tower_oob by exact Hge. reflexivity.
  - rewrite node_at_set_tower_other by exact Hne. reflexivity.
Qed.

Lemma gn_set_same : forall x l v s, x < length (nodes _ _ s) -> l < length (n_tower _ _ (node_at s x)) ->
  get_next (set_tower x l v s) x l = v.
Proof.
  intros. unfold Skiplist.get_next. rewrite node_at_set_tower_same by assumption. cbn.
  apply nth_upd_nth_same. assumption.
Qed.

Lemma gn_set_other : forall x l v s y j, (y <> x \/ j <> l) -> get_next (set_tower x l v s) y j = get_next s y j.
Proof.
  intros x l v s y j H. unfold Skiplist.get_next. destruct (Nat.eq_dec y x) as [->|Hne].
  - destruct H as [H|H]; [congruence|].
    destruct (Nat.lt_ge_cases x (length (nodes _ _ s))) as [Hlt|Hge].
    + rewrite node_at_set_tower_same by exact Hlt. cbn. apply nth_upd_nth_other. exact H.
    + rewrite set_tower_oob by exact Hge. reflexivity.
  - rewrite node_at_set_tower_other by exact Hne. reflexivity.
Qed.

(* set_value touches no pointer and no key *)
Lemma gn_set_value : forall x v s y j, get_next (set_value x v s) y j = get_next s y j.
Proof.
  intros. unfold Skiplist.get_next, Skiplist.set_value, Skiplist.node_at. cbn [nodes].
  destruct (Nat.eq_dec y x) as [->|Hne].
  - destruct (Nat.lt_ge_cases x (length (nodes _ _ s))) as [Hlt|Hge].
    + rewrite nth_upd_nth_same by exact Hlt. reflexivity.
    + rewrite upd_nth_oob by exact Hge. reflexivity.
  - rewrite nth_upd_nth_other by exact Hne. reflexivity.
Qed.

Lemma kof_set_value : forall x v s y, kof (set_value x v s) y = kof s y.
Proof.
  intros. unfold Skiplist.kof, Skiplist.set_value, Skiplist.node_at. cbn [nodes].
  destruct (Nat.eq_dec y x) as [->|Hne].
  - destruct (Nat.lt_ge_cases x (length (nodes _ _ s))) as [Hlt|Hge].
    + rewrite nth_upd_nth_same by exact Hlt. reflexivity.
    + rewrite upd_nth_oob by exact Hge. reflexivity.
  - rewrite nth_upd_nth_other by exact Hne. reflexivity.
Qed.

Lemma vof_set_value : forall x v s y, x < length (nodes _ _ s) ->
  vof (set_value x v s) y = if y =? x then v else vof s y.
Proof.
  intros x v s y Hlt. unfold Skiplist.vof, Skiplist.set_value, Skiplist.node_at. cbn [nodes].
  destruct (Nat.eqb_spec y x) as [->|Hne].
  - rewrite nth_upd_nth_same by exact Hlt. reflexivity.
  - rewrite nth_upd_nth_other by exact Hne. reflexivity.
Qed.

Lemma tower_len_set_value : forall x v s y,
  length (n_tower _ _ (node_at (set_value x v s) y)) = length (n_tower _ _ (node_at s y)).
Proof.
  intros. unfold Skiplist.set_value, Skiplist.node_at. cbn [nodes].
  destruct (Nat.eq_dec y x) as [->|Hne].
  - destruct (Nat.lt_ge_cases x (length (nodes _ _ s))) as [Hlt|Hge].
    + rewrite nth_upd_nth_same by exact Hlt. reflexivity.
    + rewrite upd_nth_oob by exact Hge. reflexivity.
  - rewrite nth_upd_nth_other by exact Hne. reflexivity.
Qed.

(* ---------- level lists as pointer paths ---------- *)
Fixpoint path (s : skl) (l x : nat) (a : list nat) : Prop :=
  match a with
  | [] => True
  | y :: r => get_next s x l = y /\ y <> 0 /\ path s l y r
  end.

Fixpoint linked (s : skl) (l x : nat) (xs : list nat) : Prop :=
  match xs with
  | [] => get_next s x l = 0
  | y :: r => get_next s x l = y /\ y <> 0 /\ linked s l y r
  end.

Lemma linked_app : forall s l a x b,
  linked s l x (a ++ b) <-> path s l x a /\ linked s l (last a x) b.
Proof.
  intros s l a. induction a as [|y a IH]; intros x b; cbn [app path linked].
  - cbn. tauto.
  - rewrite IH. assert (E : last (y :: a) x = last a y).
    { clear. revert y x. induction a as [|z a IH]; intros; [reflexivity|].
      change (last (y :: z :: a) x) with (last (z :: a) x). rewrite (IH z x), (IH z y). reflexivity. }
    rewrite E. tauto.
Qed.

Lemma last_cons : forall {A} (a : list A) (y x : A), last (y :: a) x = last a y.
Proof.
  intros A a. induction a as [|z a IH]; intros; [reflexivity|].
  change (last (y :: z :: a) x) with (last (z :: a) x). rewrite (IH z x), (IH z y). reflexivity.
Qed.

Lemma path_ext : forall s s' l a x,
  (forall y, In y (x :: removelast a) -> get_next s' y l = get_next s y l) ->
  path s l x a -> path s' l x a.
Proof.
  intros s s' l a. induction a as [|y a IH]; intros x Hext H; [exact I|].
  cbn [path] in *. destruct H as [H1 [H2 H3]]. split; [|split; [exact H2|]].
  - rewrite Hext; [exact H1|left; reflexivity].
  - destruct a as [|w a]; [exact I|]. apply IH; [|exact H3]. intros z Hz. apply Hext. right.
    exact Hz.
Qed.

Lemma linked_ext : forall s s' l xs x,
  (forall y, In y (x :: xs) -> get_next s' y l = get_next s y l) ->
  linked s l x xs -> linked s' l x xs.
Proof.
  intros s s' l xs. induction xs as [|y r IH]; intros x Hext H; cbn [linked] in *.
  - rewrite Hext; [exact H|left; reflexivity].
  - destruct H as [H1 [H2 H3]]. split; [rewrite Hext; [exact H1|left; reflexivity]|].
    split; [exact H2|]. apply IH; [|exact H3]. intros z Hz. apply Hext. right. exact Hz.
Qed.

Lemma linked_nonzero : forall s l xs x, linked s l x xs -> ~ In 0 xs.
Proof.
  intros s l xs. induction xs as [|y r IH]; intros x H; [intros []|].
  cbn [linked] in H. destruct H as [_ [H2 H3]]. intros [E|Hin]; [congruence|]. apply (IH y H3 Hin).
Qed.

Lemma chain_linked : forall s l xs x fuel, linked s l x xs -> length xs <= fuel -> chain fuel s l x = xs.
Proof.
  intros s l xs. induction xs as [|y r IH]; intros x fuel H Hf; cbn [linked] in H.
  - destruct fuel; [reflexivity|]. cbn [Skiplist.chain]. rewrite H. reflexivity.
  - destruct H as [H1 [H2 H3]]. destruct fuel; [cbn in Hf; lia|].
    cbn [Skiplist.chain]. rewrite H1. destruct (Nat.eqb_spec y 0); [contradiction|].
    f_equal. apply IH; [exact H3|cbn in Hf; lia].
Qed.

(* ---------- walking right on one level ---------- *)
Definition allk (s : skl) (P : K -> Prop) (xs : list nat) : Prop := forall y, In y xs -> P (kof s y).

Lemma walk_spec : forall s key l xs x fuel,
  linked s l x xs -> length xs < fuel ->
  exists pre post,
    xs = pre ++ post /\
    (forall y, In y pre -> cmp key (kof s y) = Gt) /\
    (forall y r, post = y :: r -> cmp key (kof s y) <> Gt) /\
    walk fuel s key x l =
      Some (last pre x, hd 0 post, match post with [] => Lt | y :: _ => cmp key (kof s y) end).
Proof.
  intros s key l xs. induction xs as [|y r IH]; intros x fuel H Hf; cbn [linked] in H.
  - exists [], []. destruct fuel; [lia|]. cbn [Skiplist.walk]. rewrite H. cbn.
    repeat split; auto; intros; try contradiction; discriminate.
  - destruct H as [H1 [H2 H3]]. destruct fuel; [lia|]. cbn [Skiplist.walk]. rewrite H1.
    destruct (Nat.eqb_spec y 0); [contradiction|].
    destruct (cmp key (kof s y)) eqn:E.
    + exists [], (y :: r). cbn [app last hd]. rewrite E. repeat split; auto; intros; try contradiction.
      inversion H; subst. congruence.
    + exists [], (y :: r). cbn [app last hd]. rewrite E. repeat split; auto; intros; try contradiction.
      inversion H; subst. congruence.
    + cbn in Hf. destruct (IH y fuel H3 ltac:(lia)) as [pre [post [Hx [Hp [Hq Hw]]]]].
      exists (y :: pre), post. rewrite last_cons. split; [cbn; f_equal; exact Hx|].
      split; [|split; [exact Hq|exact Hw]].
      intros z [<- | Hz]; [exact E|apply Hp; exact Hz].
Qed.


(* ---------- the structural invariant ---------- *)
Definition klt (s : skl) (a b : nat) : Prop := cmp (kof s a) (kof s b) = Lt.
Definition keys_sorted (s : skl) (xs : list nat) : Prop := StronglySorted (klt s) xs.
Definition lvl (lv : list (list nat)) (l : nat) : list nat := nth l lv [].

Record inv (s : skl) (lv : list (list nat)) : Prop := mkInv {
  i_len : length lv = max_height;
  i_link : forall l, l < max_height -> linked s l head (lvl lv l);
  i_sorted : forall l, keys_sorted s (lvl lv l);
  i_incl : forall l, incl (lvl lv (S l)) (lvl lv l);
  i_empty : forall l, height _ _ s <= l -> lvl lv l = [];
  i_range : forall l x, In x (lvl lv l) ->
            2 <= x < length (nodes _ _ s) /\ l < length (n_tower _ _ (node_at s x));
  i_head : length (n_tower _ _ (node_at s head)) = max_height /\ 2 <= length (nodes _ _ s);
  i_height : 1 <= height _ _ s <= max_height;
  i_wfk : forall x, In x (lvl lv 0) -> wfk (kof s x)
}.

Lemma lvl_oob : forall lv l, length lv <= l -> lvl lv l = [].
Proof. intros. unfold lvl. apply nth_overflow. assumption. Qed.

Lemma inv_incl_down : forall s lv, inv s lv -> forall l l', l <= l' -> incl (lvl lv l') (lvl lv l).
Proof.
  intros s lv H l l' Hle. induction Hle as [|m Hle IH]; [apply incl_refl|].
  eapply incl_tran; [apply (i_incl _ _ H)|exact IH].
Qed.

Lemma inv_wfk : forall s lv, inv s lv -> forall l x, In x (lvl lv l) -> wfk (kof s x).
Proof.
  intros s lv H l x Hin. apply (i_wfk _ _ H). apply (inv_incl_down s lv H 0 l ltac:(lia)). exact Hin.
Qed.

Lemma sorted_app_klt : forall s a b x y, keys_sorted s (a ++ b) -> In x a -> In y b -> klt s x y.
Proof.
  intros s a. induction a as [|z a IH]; intros b x y Hs Hx Hy; [destruct Hx|].
  cbn [app] in Hs. inversion Hs as [|? ? Hst Hall]; subst. destruct Hx as [->|Hx].
  - rewrite Forall_forall in Hall. apply Hall. apply in_or_app. right. exact Hy.
  - apply (IH b x y Hst Hx Hy).
Qed.

Lemma sorted_app_l : forall s a b, keys_sorted s (a ++ b) -> keys_sorted s a.
Proof.
  intros s a. induction a as [|z a IH]; intros b Hs; [constructor|].
  cbn [app] in Hs. inversion Hs as [|? ? Hst Hall]; subst. constructor; [apply (IH b Hst)|].
  rewrite Forall_forall in Hall |- *. intros x Hx. apply Hall. apply in_or_app. left. exact Hx.
Qed.

Lemma sorted_app_r : forall s a b, keys_sorted s (a ++ b) -> keys_sorted s b.
Proof.
  intros s a. induction a as [|z a IH]; intros b Hs; [exact Hs|].
  cbn [app] in Hs. inversion Hs; subst. apply IH. assumption.
Qed.

Lemma sorted_nodup : forall s xs, (forall x, In x xs -> wfk (kof s x)) -> keys_sorted s xs -> NoDup xs.
Proof.
  intros s xs Hw Hs. induction Hs as [|x xs Hs IH Hall]; [constructor|].
  constructor.
  - intro Hin. rewrite Forall_forall in Hall. specialize (Hall x Hin). unfold klt in Hall.
    rewrite cmp_refl in Hall; [discriminate|]. apply Hw. left. reflexivity.
  - apply IH. intros y Hy. apply Hw. right. exact Hy.
Qed.

Lemma inv_nodup : forall s lv, inv s lv -> forall l, NoDup (lvl lv l).
Proof.
  intros s lv H l. apply (sorted_nodup s); [intros x Hx; apply (inv_wfk s lv H l x Hx)|apply (i_sorted _ _ H)].
Qed.

Lemma inv_lvl_length : forall s lv, inv s lv -> forall l, length (lvl lv l) < fuel_of s.
Proof.
  intros s lv H l. unfold Skiplist.fuel_of.
  assert (length (lvl lv l) <= length (seq 0 (length (nodes _ _ s)))).
  { apply NoDup_incl_length; [apply (inv_nodup s lv H)|]. intros x Hx. apply in_seq.
    pose proof (i_range _ _ H l x Hx). lia. }
  rewrite seq_length in H0. lia.
Qed.

Lemma inv_not_head : forall s lv, inv s lv -> forall l, ~ In head (lvl lv l).
Proof. intros s lv H l Hin. pose proof (i_range _ _ H l head Hin). unfold head in *. lia. Qed.

Lemma last_app_gen : forall {A} (a b : list A) d, last (a ++ b) d = last b (last a d).
Proof.
  intros A a. induction a as [|x a IH]; intros b d; [reflexivity|].
  cbn [app]. destruct (a ++ b) eqn:E.
  - destruct a; [|discriminate]. cbn in E. subst. reflexivity.
  - rewrite <- E. rewrite last_cons. rewrite (last_cons a x d). apply IH.
Qed.

(* key > x.key > y.key *)
Lemma gt_trans_klt : forall s key x y, wfk key -> wfk (kof s x) -> wfk (kof s y) ->
  cmp key (kof s x) = Gt -> klt s y x -> cmp key (kof s y) = Gt.
Proof.
  intros s key x y Hk Hx Hy H1 H2. unfold klt in H2.
  apply cmp_lt_gt; [assumption|assumption|]. apply (cmp_trans _ (kof s x)); try assumption.
  apply cmp_gt_lt; assumption.
Qed.

Lemma lt_trans_klt : forall s key x y, wfk key -> wfk (kof s x) -> wfk (kof s y) ->
  cmp key (kof s x) = Lt -> klt s x y -> cmp key (kof s y) = Lt.
Proof. intros s key x y Hk Hx Hy H1 H2. apply (cmp_trans _ (kof s x)); assumption. Qed.

Lemma eq_klt_l : forall s key x y, wfk key -> wfk (kof s x) -> wfk (kof s y) ->
  cmp key (kof s x) = Eq -> klt s y x -> cmp key (kof s y) = Gt.
Proof.
  intros s key x y Hk Hx Hy H1 H2. rewrite (cmp_eq_compat key (kof s x) (kof s y) Hk Hx Hy H1).
  apply cmp_lt_gt; assumption.
Qed.

Lemma eq_klt_r : forall s key x y, wfk key -> wfk (kof s x) -> wfk (kof s y) ->
  cmp key (kof s x) = Eq -> klt s x y -> cmp key (kof s y) = Lt.
Proof.
  intros s key x y Hk Hx Hy H1 H2. rewrite (cmp_eq_compat key (kof s x) (kof s y) Hk Hx Hy H1). exact H2.
Qed.

(* where a search key falls in one level *)
Definition splice_ok (s : skl) (key : K) (L : list nat) (p n : nat) : Prop :=
  exists a b, L = a ++ b /\ p = last a head /\ n = hd 0 b /\
              (forall y, In y a -> cmp key (kof s y) = Gt) /\
              (forall y, In y b -> cmp key (kof s y) = Lt).

(* the position a level search starts from *)
Definition start_ok (s : skl) (key : K) (L : list nat) (x : nat) : Prop :=
  x = head \/ (In x L /\ cmp key (kof s x) = Gt).

(* common core of findSpliceForLevel and of one level of findNear *)
Lemma walk_level : forall s lv key l x, inv s lv -> wfk key -> l < max_height ->
  start_ok s key (lvl lv l) x ->
  exists a b,
    lvl lv l = a ++ b /\
    (forall y, In y a -> cmp key (kof s y) = Gt) /\
    (x = head \/ In x a) /\
    linked s l (last a head) b /\
    walk (fuel_of s) s key x l =
      Some (last a head, hd 0 b, match b with [] => Lt | y :: _ => cmp key (kof s y) end) /\
    (forall y r, b = y :: r -> cmp key (kof s y) <> Gt).
Proof.
  intros s lv key l x H Hk Hl Hst.
  pose proof (i_link _ _ H l Hl) as Hlink. pose proof (i_sorted _ _ H l) as Hsort.
  pose proof (inv_lvl_length s lv H l) as Hlen.
  destruct Hst as [->|[Hin Hgt]].
  - destruct (walk_spec s key l _ head (fuel_of s) Hlink Hlen) as [pre [post [Hx [Hp [Hq Hw]]]]].
    exists pre, post. split; [exact Hx|]. split; [exact Hp|]. split; [left; reflexivity|].
    split; [|split; [exact Hw|exact Hq]].
    rewrite Hx in Hlink. apply linked_app in Hlink. apply Hlink.
  - destruct (in_split _ _ Hin) as [a0 [b0 E]].
    assert (Hlb : linked s l x b0).
    { rewrite E in Hlink. replace (a0 ++ x :: b0) with ((a0 ++ [x]) ++ b0) in Hlink by (rewrite <- app_assoc; reflexivity).
      apply linked_app in Hlink. destruct Hlink as [_ Hl2]. rewrite last_app_gen in Hl2. exact Hl2. }
    assert (Hlenb : length b0 < fuel_of s) by (rewrite E, app_length in Hlen; cbn in Hlen; lia).
    destruct (walk_spec s key l b0 x (fuel_of s) Hlb Hlenb) as [pre [post [Hx [Hp [Hq Hw]]]]].
    exists ((a0 ++ [x]) ++ pre), post.
    split; [rewrite E, Hx, <- !app_assoc; reflexivity|].
    split; [|split; [right; apply in_or_app; left; apply in_or_app; right; left; reflexivity|]].
    + intros y Hy. apply in_app_or in Hy. destruct Hy as [Hy|Hy]; [|apply Hp; exact Hy].
      apply in_app_or in Hy. destruct Hy as [Hy|[<-|[]]]; [|exact Hgt].
      assert (Hyx : klt s y x).
      { rewrite E in Hsort. apply (sorted_app_klt s a0 (x :: b0) y x Hsort Hy). left. reflexivity. }
      apply (gt_trans_klt s key x y Hk); try assumption.
      * apply (inv_wfk s lv H l). exact Hin.
      * apply (inv_wfk s lv H l). rewrite E. apply in_or_app. left. exact Hy.
    + rewrite last_app_gen, last_app_gen. cbn [last]. split; [|split; [exact Hw|exact Hq]].
      rewrite Hx in Hlb. apply linked_app in Hlb. apply Hlb.
Qed.


Lemma all_lt_after : forall s lv key l a y r, inv s lv -> wfk key ->
  lvl lv l = a ++ y :: r -> cmp key (kof s y) = Lt ->
  forall z, In z (y :: r) -> cmp key (kof s z) = Lt.
Proof.
  intros s lv key l a y r H Hk E Hlt z [<- | Hz]; [exact Hlt|].
  assert (Hs : keys_sorted s (y :: r)).
  { pose proof (i_sorted _ _ H l) as Hs. rewrite E in Hs. apply (sorted_app_r s a _ Hs). }
  inversion Hs as [|? ? _ Hall]; subst. rewrite Forall_forall in Hall.
  apply (lt_trans_klt s key y z Hk); [| |exact Hlt|apply Hall; exact Hz];
    apply (inv_wfk s lv H l); rewrite E; apply in_or_app; right; [left; reflexivity|right; exact Hz].
Qed.

(* findSpliceForLevel *)
Lemma find_splice_spec : forall s lv key l x, inv s lv -> wfk key -> l < max_height ->
  start_ok s key (lvl lv l) x ->
  exists p n, find_splice (fuel_of s) s key x l = Some (p, n) /\
    ((p = n /\ In p (lvl lv l) /\ cmp key (kof s p) = Eq) \/
     (p <> n /\ splice_ok s key (lvl lv l) p n /\ start_ok s key (lvl lv l) p)).
Proof.
  intros s lv key l x H Hk Hl Hst.
  destruct (walk_level s lv key l x H Hk Hl Hst) as [a [b [E [Ha [Hxa [Hlb [Hw Hq]]]]]]].
  unfold Skiplist.find_splice. rewrite Hw.
  assert (Hp_start : start_ok s key (lvl lv l) (last a head)).
  { destruct a as [|a1 a'] eqn:Ea; [left; reflexivity|]. right. rewrite <- Ea in *.
    assert (Hin : In (last a head) a).
    { rewrite Ea. clear. generalize head. revert a1. induction a' as [|z a' IH]; intros; [left; reflexivity|].
      rewrite last_cons. right. apply IH. }
    split; [rewrite E; apply in_or_app; left; exact Hin|apply Ha; exact Hin]. }
  assert (Hp_ne0 : last a head <> 0).
  { destruct Hp_start as [->|[Hin _]]; [discriminate|]. pose proof (i_range _ _ H l _ Hin). lia. }
  destruct b as [|y r]; cbn [hd].
  - cbn [Nat.eqb]. exists (last a head), 0. split; [reflexivity|]. right. split; [exact Hp_ne0|]. split; [|exact Hp_start].
    exists a, []. repeat split; auto. intros y [].
  - assert (Hy : In y (lvl lv l)) by (rewrite E; apply in_or_app; right; left; reflexivity).
    pose proof (i_range _ _ H l y Hy) as Hry.
    destruct (Nat.eqb_spec y 0); [lia|].
    destruct (cmp key (kof s y)) eqn:Ec.
    + exists y, y. split; [reflexivity|]. left. auto.
    + exists (last a head), y. split; [reflexivity|]. right. split; [|split; [|exact Hp_start]].
      * destruct Hp_start as [->|[Hin _]]; [unfold head; lia|].
        intro Heq. pose proof (inv_nodup s lv H l) as Hnd. rewrite E in Hnd.
        apply NoDup_remove_2 in Hnd. apply Hnd. apply in_or_app. left.
        rewrite <- Heq. destruct a as [|a1 a']; [cbn in Heq; unfold head in Heq; lia|].
        clear - a1. generalize head. revert a1. induction a' as [|z a' IH]; intros; [left; reflexivity|].
        rewrite last_cons. right. apply IH.
      * exists a, (y :: r). repeat split; auto. apply (all_lt_after s lv key l a y r H Hk E Ec).
    + exfalso. apply (Hq y r eq_refl). exact Ec.
Qed.

(* the first loop of Put *)
Lemma descend_spec : forall s lv key, inv s lv -> wfk key ->
  forall l x, l <= max_height -> start_ok s key (lvl lv l) x \/ x = head ->
  (l = max_height -> x = head) ->
  exists r, descend (fuel_of s) s key l x = Some r /\
    match r with
    | inl q => In q (lvl lv 0) /\ cmp key (kof s q) = Eq
    | inr spl => length spl = l /\
                 forall i, i < l -> splice_ok s key (lvl lv i) (fst (nth i spl (head, 0))) (snd (nth i spl (head, 0)))
    end.
Proof.
  intros s lv key H Hk l. induction l as [|l IH]; intros x Hl Hst Htop.
  - exists (inr []). split; [reflexivity|]. split; [reflexivity|]. intros i Hi. lia.
  - cbn [Skiplist.descend].
    assert (Hst' : start_ok s key (lvl lv l) x).
    { destruct Hst as [[-> | [Hin Hgt]] | ->]; [left; reflexivity| |left; reflexivity].
      right. split; [apply (i_incl _ _ H l); exact Hin|exact Hgt]. }
    destruct (find_splice_spec s lv key l x H Hk ltac:(lia) Hst') as [p [n [Hfs Hcase]]].
    rewrite Hfs. destruct Hcase as [[-> [Hin Heq]]|[Hne [Hok Hps]]].
    + rewrite Nat.eqb_refl. exists (inl n). split; [reflexivity|]. split; [|exact Heq].
      apply (inv_incl_down s lv H 0 l ltac:(lia)). exact Hin.
    + destruct (Nat.eqb_spec p n); [contradiction|].
      destruct (IH p ltac:(lia) (or_introl Hps) ltac:(unfold max_height in *; lia)) as [r [Hd Hr]].
      rewrite Hd. destruct r as [q|spl].
      * exists (inl q). split; [reflexivity|exact Hr].
      * destruct Hr as [Hlen Hall]. exists (inr (spl ++ [(p, n)])). split; [reflexivity|].
        split; [rewrite app_length; cbn; lia|]. intros i Hi.
        destruct (Nat.eq_dec i l) as [->|Hne'].
        -- rewrite app_nth2 by lia. rewrite Hlen, Nat.sub_diag. cbn. exact Hok.
        -- rewrite app_nth1 by lia. apply Hall. lia.
Qed.


(* ---------- inserting a node on one level ---------- *)
Lemma lvl_upd_same : forall lv i L, i < length lv -> lvl (upd_nth i L lv) i = L.
Proof. intros. unfold lvl. apply nth_upd_nth_same. assumption. Qed.
Lemma lvl_upd_other : forall lv i j L, j <> i -> lvl (upd_nth i L lv) j = lvl lv j.
Proof. intros. unfold lvl. apply nth_upd_nth_other. assumption. Qed.

Lemma sorted_insert : forall s a b x,
  keys_sorted s (a ++ b) -> (forall y, In y a -> klt s y x) -> (forall y, In y b -> klt s x y) ->
  keys_sorted s (a ++ x :: b).
Proof.
  intros s a. induction a as [|z a IH]; intros b x Hs Ha Hb; cbn [app] in *.
  - constructor; [exact Hs|]. apply Forall_forall. exact Hb.
  - inversion Hs as [|? ? Hst Hall]; subst. constructor.
    + apply IH; [exact Hst| |exact Hb]. intros y Hy. apply Ha. right. exact Hy.
    + rewrite Forall_forall in Hall |- *. intros y Hy. apply in_app_or in Hy.
      destruct Hy as [Hy|[<-|Hy]].
      * apply Hall. apply in_or_app. left. exact Hy.
      * apply Ha. left. reflexivity.
      * apply Hall. apply in_or_app. right. exact Hy.
Qed.

Lemma last_in : forall (a : list nat) d, a <> [] -> In (last a d) a.
Proof.
  induction a as [|z a IH]; intros d H; [congruence|]. rewrite last_cons.
  destruct a as [|w a]; [left; reflexivity|]. right. apply IH. discriminate.
Qed.

Lemma last_not_in_removelast : forall (a : list nat) d, NoDup (d :: a) -> ~ In (last a d) (removelast (d :: a)).
Proof.
  intros a. induction a as [|z a IH]; intros d Hnd; [intros []|].
  rewrite last_cons. change (removelast (d :: z :: a)) with (d :: removelast (z :: a)).
  inversion Hnd as [|? ? Hn1 Hnd']; subst. intros [E|Hin].
  - apply Hn1. rewrite E. destruct a as [|w a]; [left; reflexivity|].
    right. apply last_in. discriminate.
  - apply (IH z Hnd'). exact Hin.
Qed.

Lemma path_ext' : forall s s' l a x,
  (forall y, In y (removelast (x :: a)) -> get_next s' y l = get_next s y l) ->
  path s l x a -> path s' l x a.
Proof.
  intros s s' l a. induction a as [|y a IH]; intros x Hext H; [exact I|].
  cbn [path] in *. destruct H as [H1 [H2 H3]]. split; [|split; [exact H2|]].
  - rewrite Hext; [exact H1|]. cbn. left. reflexivity.
  - apply IH; [|exact H3]. intros z Hz. apply Hext.
    change (removelast (x :: y :: a)) with (x :: removelast (y :: a)). right. exact Hz.
Qed.

Lemma nodup_app_l : forall (a b : list nat), NoDup (a ++ b) -> NoDup a.
Proof.
  induction a as [|z a IH]; intros b H; [constructor|]. cbn [app] in H.
  inversion H as [|? ? Hn Hnd]; subst. constructor; [|apply (IH b Hnd)].
  intro Hc. apply Hn. apply in_or_app. left. exact Hc.
Qed.

Lemma linked_hd : forall s l x b, linked s l x b -> get_next s x l = hd 0 b.
Proof. intros s l x [|y r] H; cbn in *; [exact H|apply H]. Qed.

(* one iteration of Put's second loop on a level where the splice is known *)
Lemma link_one : forall s lv key x i p n,
  inv s lv -> wfk key -> kof s x = key ->
  2 <= x < length (nodes _ _ s) -> i < length (n_tower _ _ (node_at s x)) ->
  i < height _ _ s ->
  (forall j, i <= j -> ~ In x (lvl lv j)) -> (0 < i -> In x (lvl lv (i - 1))) ->
  splice_ok s key (lvl lv i) p n ->
  let s1 := set_tower x i n s in
  let s2 := set_tower p i x s1 in
  get_next s1 p i = n /\
  exists a b, lvl lv i = a ++ b /\
    (forall y, In y a -> cmp key (kof s y) = Gt) /\ (forall y, In y b -> cmp key (kof s y) = Lt) /\
    inv s2 (upd_nth i (a ++ x :: b) lv).
Proof.
  intros s lv key x i p n H Hk Hkx Hx Hti Hih Hfresh Hbelow [a [b [E [Hp [Hn [Ha Hb]]]]]] s1 s2.
  pose proof (i_height _ _ H) as Hh. assert (Him : i < max_height) by lia.
  pose proof (i_link _ _ H i Him) as Hlink. rewrite E in Hlink.
  apply linked_app in Hlink. destruct Hlink as [Hpath Hlb]. rewrite <- Hp in Hlb.
  pose proof (inv_nodup s lv H i) as Hnd. rewrite E in Hnd.
  assert (HxL : ~ In x (a ++ b)) by (rewrite <- E; apply Hfresh; lia).
  assert (Hhead_notin : ~ In head (a ++ b)) by (rewrite <- E; apply (inv_not_head s lv H)).
  assert (Hpx : p <> x).
  { destruct a as [|a1 a']; [cbn in Hp; subst p; unfold head; lia|].
    intro Heq. apply HxL. apply in_or_app. left. rewrite <- Heq, Hp. apply last_in. discriminate. }
  assert (Hp_range : p < length (nodes _ _ s) /\ i < length (n_tower _ _ (node_at s p))).
  { destruct a as [|a1 a'].
    - cbn in Hp. subst p. destruct (i_head _ _ H) as [H1 H2]. unfold head in *. rewrite H1. lia.
    - assert (Hin : In p (lvl lv i)).
      { rewrite E. apply in_or_app. left. rewrite Hp. apply last_in. discriminate. }
      pose proof (i_range _ _ H i p Hin). lia. }
  assert (Hp_notin_b : ~ In p b).
  { destruct a as [|a1 a'].
    - cbn in Hp. subst p. intro Hc. apply Hhead_notin. apply in_or_app. right. exact Hc.
    - intro Hc. assert (Hin : In p (a1 :: a')) by (rewrite Hp; apply last_in; discriminate).
      clear - Hnd Hc Hin. induction (a1 :: a') as [|z l IH]; [destruct Hin|].
      cbn [app] in Hnd. inversion Hnd as [|? ? Hn1 Hnd']; subst. destruct Hin as [->|Hin].
      + apply Hn1. apply in_or_app. right. exact Hc.
      + apply (IH Hnd' Hin). }
  assert (Hgn1 : get_next s1 p i = n).
  { unfold s1. rewrite gn_set_other by (left; exact Hpx). rewrite (linked_hd _ _ _ _ Hlb). symmetry. exact Hn. }
  split; [exact Hgn1|]. exists a, b. split; [exact E|]. split; [exact Ha|]. split; [exact Hb|].
  (* frame facts *)
  assert (Hk2 : forall y, kof s2 y = kof s y) by (intros; unfold s2, s1; rewrite !kof_set_tower; reflexivity).
  assert (Hlen2 : length (nodes _ _ s2) = length (nodes _ _ s)).
  { unfold s2, s1. rewrite !set_tower_nodes_length. reflexivity. }
  assert (Htl2 : forall y, length (n_tower _ _ (node_at s2 y)) = length (n_tower _ _ (node_at s y))).
  { intros. unfold s2, s1. rewrite !tower_len_set_tower. reflexivity. }
  assert (Hgn_other_lvl : forall y j, j <> i -> get_next s2 y j = get_next s y j).
  { intros y j Hj. unfold s2, s1. rewrite !gn_set_other by (right; exact Hj). reflexivity. }
  assert (Hgn_other_node : forall y, y <> p -> y <> x -> get_next s2 y i = get_next s y i).
  { intros y H1 H2. unfold s2, s1. rewrite !gn_set_other by (left; assumption). reflexivity. }
  assert (Hgn_p : get_next s2 p i = x).
  { unfold s2. apply gn_set_same.
    - unfold s1. rewrite set_tower_nodes_length. apply Hp_range.
    - unfold s1. rewrite tower_len_set_tower. apply Hp_range. }
  assert (Hgn_x : get_next s2 x i = n).
  { unfold s2. rewrite gn_set_other by (left; auto). unfold s1. apply gn_set_same; [lia|exact Hti]. }
  assert (Hklt2 : forall u w, klt s2 u w <-> klt s u w) by (intros; unfold klt; rewrite !Hk2; tauto).
  assert (Hsorted2 : forall L, keys_sorted s L -> keys_sorted s2 L).
  { intros L HL. induction HL as [|u L HL IH Hall]; constructor; [exact IH|].
    rewrite Forall_forall in Hall |- *. intros w Hw. apply Hklt2. apply Hall. exact Hw. }
  assert (Hili : i < length lv) by (rewrite (i_len _ _ H); exact Him).
  constructor.
  - rewrite upd_nth_length. apply (i_len _ _ H).
  - intros j Hj. destruct (Nat.eq_dec j i) as [->|Hne].
    + rewrite lvl_upd_same by exact Hili. apply linked_app. split.
      * apply (path_ext' s s2 i a head); [|exact Hpath]. intros y Hy. apply Hgn_other_node.
        -- intro Heq. subst y. rewrite Hp in Hy. revert Hy. apply last_not_in_removelast.
           constructor; [intro Hc; apply Hhead_notin; apply in_or_app; left; exact Hc|].
           apply (nodup_app_l _ _ Hnd).
        -- intro Heq. subst y. destruct a as [|a1 a']; [destruct Hy|].
           change (removelast (head :: a1 :: a')) with (head :: removelast (a1 :: a')) in Hy.
           destruct Hy as [Hy|Hy]; [unfold head in Hy; lia|].
           apply HxL. apply in_or_app. left.
           clear - Hy. revert a1 Hy. induction a' as [|z a' IH]; intros a1 Hy; [destruct Hy|].
           change (removelast (a1 :: z :: a')) with (a1 :: removelast (z :: a')) in Hy.
           destruct Hy as [->|Hy]; [left; reflexivity|right; apply IH; exact Hy].
      * rewrite <- Hp. cbn [linked]. split; [exact Hgn_p|]. split; [lia|].
        destruct b as [|y r]; cbn [linked hd] in *.
        -- rewrite Hgn_x. exact Hn.
        -- rewrite Hgn_x. split; [exact Hn|]. destruct Hlb as [_ [Hy0 Hlr]]. split; [exact Hy0|].
           apply (linked_ext s s2 i r y); [|exact Hlr]. intros w Hw. apply Hgn_other_node.
           ++ intro Heq. subst w. apply Hp_notin_b. exact Hw.
           ++ intro Heq. subst w. apply HxL. apply in_or_app. right. exact Hw.
    + rewrite lvl_upd_other by exact Hne. apply (linked_ext s s2 j); [|apply (i_link _ _ H j Hj)].
      intros y _. apply Hgn_other_lvl. exact Hne.
  - intros j. destruct (Nat.eq_dec j i) as [->|Hne].
    + rewrite lvl_upd_same by exact Hili. apply Hsorted2. apply sorted_insert.
      * rewrite <- E. apply (i_sorted _ _ H).
      * intros y Hy. unfold klt. rewrite Hkx. apply cmp_gt_lt; [exact Hk| |apply Ha; exact Hy].
        apply (inv_wfk s lv H i). rewrite E. apply in_or_app. left. exact Hy.
      * intros y Hy. unfold klt. rewrite Hkx. apply Hb. exact Hy.
    + rewrite lvl_upd_other by exact Hne. apply Hsorted2. apply (i_sorted _ _ H).
  - intros j. destruct (Nat.eq_dec (S j) i) as [Heq|Hne1].
    + rewrite <- Heq at 1. rewrite lvl_upd_same by (rewrite Heq; exact Hili).
      rewrite lvl_upd_other by lia. intros y Hy. apply in_app_or in Hy. destruct Hy as [Hy|[<-|Hy]].
      * apply (i_incl _ _ H j). rewrite Heq, E. apply in_or_app. left. exact Hy.
      * replace j with (i - 1) by lia. apply Hbelow. lia.
      * apply (i_incl _ _ H j). rewrite Heq, E. apply in_or_app. right. exact Hy.
    + rewrite (lvl_upd_other lv i (S j)) by exact Hne1. destruct (Nat.eq_dec j i) as [->|Hne2].
      * rewrite lvl_upd_same by exact Hili. intros y Hy. apply (i_incl _ _ H i) in Hy. rewrite E in Hy.
        apply in_app_or in Hy. apply in_or_app. destruct Hy as [Hy|Hy]; [left; exact Hy|right; right; exact Hy].
      * rewrite lvl_upd_other by exact Hne2. apply (i_incl _ _ H j).
  - intros j Hj. change (height _ _ s2) with (height _ _ s) in Hj. rewrite lvl_upd_other by lia.
    apply (i_empty _ _ H j Hj).
  - intros j y Hy. rewrite Hlen2, Htl2. destruct (Nat.eq_dec j i) as [->|Hne].
    + rewrite lvl_upd_same in Hy by exact Hili. apply in_app_or in Hy. destruct Hy as [Hy|[<-|Hy]].
      * apply (i_range _ _ H i). rewrite E. apply in_or_app. left. exact Hy.
      * split; [exact Hx|exact Hti].
      * apply (i_range _ _ H i). rewrite E. apply in_or_app. right. exact Hy.
    + rewrite lvl_upd_other in Hy by exact Hne. apply (i_range _ _ H j y Hy).
  - rewrite Hlen2, Htl2. apply (i_head _ _ H).
  - change (height _ _ s2) with (height _ _ s). exact Hh.
  - intros y Hy. rewrite Hk2. destruct (Nat.eq_dec i 0) as [->|Hne].
    + rewrite lvl_upd_same in Hy by exact Hili. apply in_app_or in Hy. destruct Hy as [Hy|[<-|Hy]].
      * apply (i_wfk _ _ H). rewrite E. apply in_or_app. left. exact Hy.
      * rewrite Hkx. exact Hk.
      * apply (i_wfk _ _ H). rewrite E. apply in_or_app. right. exact Hy.
    + rewrite lvl_upd_other in Hy by lia. apply (i_wfk _ _ H y Hy).
Qed.


Lemma sorted_ext : forall s s' L, (forall y, In y L -> kof s' y = kof s y) ->
  keys_sorted s L -> keys_sorted s' L.
Proof.
  intros s s' L He Hs. induction Hs as [|u L Hs IH Hall]; constructor.
  - apply IH. intros y Hy. apply He. right. exact Hy.
  - rewrite Forall_forall in Hall |- *. intros w Hw. unfold klt.
    rewrite (He u) by (left; reflexivity). rewrite (He w) by (right; exact Hw). apply Hall. exact Hw.
Qed.

(* ---------- allocating the new node ---------- *)
Definition with_node (s : skl) (nd : node) (hgt : nat) : skl := mkSkl _ _ (nodes _ _ s ++ [nd]) hgt.

Lemma node_at_with_node_old : forall s nd hgt y, y < length (nodes _ _ s) ->
  node_at (with_node s nd hgt) y = node_at s y.
Proof. intros. unfold Skiplist.node_at, with_node. cbn [nodes]. apply app_nth1. assumption. Qed.

Lemma node_at_with_node_new : forall s nd hgt, node_at (with_node s nd hgt) (length (nodes _ _ s)) = nd.
Proof.
  intros. unfold Skiplist.node_at, with_node. cbn [nodes]. rewrite app_nth2 by lia.
  rewrite Nat.sub_diag. reflexivity.
Qed.

Lemma inv_with_node : forall s lv nd hgt, inv s lv -> height _ _ s <= hgt <= max_height ->
  inv (with_node s nd hgt) lv.
Proof.
  intros s lv nd hgt H Hh. set (s1 := with_node s nd hgt).
  assert (Hold : forall l y, In y (lvl lv l) -> node_at s1 y = node_at s y).
  { intros l y Hy. apply node_at_with_node_old. pose proof (i_range _ _ H l y Hy). lia. }
  assert (Hhead : node_at s1 head = node_at s head).
  { apply node_at_with_node_old. destruct (i_head _ _ H). unfold head. lia. }
  constructor.
  - apply (i_len _ _ H).
  - intros l Hl. apply (linked_ext s s1 l); [|apply (i_link _ _ H l Hl)].
    intros y [<-|Hy]; unfold Skiplist.get_next; [rewrite Hhead|rewrite (Hold l y Hy)]; reflexivity.
  - intros l. apply (sorted_ext s s1); [|apply (i_sorted _ _ H l)].
    intros y Hy. unfold Skiplist.kof. rewrite (Hold l y Hy). reflexivity.
  - apply (i_incl _ _ H).
  - intros l Hl. apply (i_empty _ _ H). unfold s1, with_node in Hl. cbn [height] in Hl. lia.
  - intros l y Hy. rewrite (Hold l y Hy). pose proof (i_range _ _ H l y Hy).
    unfold s1, with_node. cbn [nodes]. rewrite app_length. cbn. lia.
  - rewrite Hhead. destruct (i_head _ _ H). unfold s1, with_node. cbn [nodes]. rewrite app_length. cbn. lia.
  - pose proof (i_height _ _ H). unfold s1, with_node. cbn [height]. lia.
  - intros y Hy. unfold Skiplist.kof. rewrite (Hold 0 y Hy). apply (i_wfk _ _ H y Hy).
Qed.

Lemma inv_set_value : forall s lv q v, inv s lv -> inv (set_value q v s) lv.
Proof.
  intros s lv q v H. constructor.
  - apply (i_len _ _ H).
  - intros l Hl. apply (linked_ext s _ l); [|apply (i_link _ _ H l Hl)]. intros. apply gn_set_value.
  - intros l. pose proof (i_sorted _ _ H l) as Hs. induction Hs as [|u L Hs IH Hall]; constructor; [exact IH|].
    rewrite Forall_forall in Hall |- *. intros w Hw. unfold klt. rewrite !kof_set_value. apply Hall. exact Hw.
  - apply (i_incl _ _ H).
  - apply (i_empty _ _ H).
  - intros l y Hy. rewrite tower_len_set_value. unfold Skiplist.set_value. cbn [nodes]. rewrite upd_nth_length.
    apply (i_range _ _ H l y Hy).
  - rewrite tower_len_set_value. unfold Skiplist.set_value. cbn [nodes]. rewrite upd_nth_length. apply (i_head _ _ H).
  - apply (i_height _ _ H).
  - intros y Hy. rewrite kof_set_value. apply (i_wfk _ _ H y Hy).
Qed.

(* the level list with the new node inserted at its place *)
Fixpoint ins (s : skl) (key : K) (x : nat) (L : list nat) : list nat :=
  match L with
  | [] => [x]
  | y :: r => match cmp key (kof s y) with
              | Gt => y :: ins s key x r
              | _ => x :: L
              end
  end.

Lemma ins_split : forall s key x a b,
  (forall y, In y a -> cmp key (kof s y) = Gt) -> (forall y, In y b -> cmp key (kof s y) = Lt) ->
  ins s key x (a ++ b) = a ++ x :: b.
Proof.
  intros s key x a. induction a as [|z a IH]; intros b Ha Hb; cbn [app ins].
  - destruct b as [|y r]; [reflexivity|]. cbn [ins]. rewrite (Hb y) by (left; reflexivity). reflexivity.
  - rewrite (Ha z) by (left; reflexivity). f_equal. apply IH; [|exact Hb]. intros y Hy. apply Ha. right. exact Hy.
Qed.

Lemma ins_ext : forall s s' key x L, (forall y, kof s' y = kof s y) -> ins s' key x L = ins s key x L.
Proof.
  intros s s' key x L He. induction L as [|y r IH]; [reflexivity|]. cbn [ins]. rewrite He, IH. reflexivity.
Qed.

Lemma splice_ok_ext : forall s s' key L p n, (forall y, kof s' y = kof s y) ->
  splice_ok s key L p n -> splice_ok s' key L p n.
Proof.
  intros s s' key L p n He [a [b [E [Hp [Hn [Ha Hb]]]]]]. exists a, b. repeat split; auto; intros y Hy; rewrite He; auto.
Qed.

Lemma splice_ok_nil : forall s key, splice_ok s key [] head 0.
Proof. intros. exists [], []. repeat split; auto; intros y []. Qed.

(* the second loop of Put *)
Lemma link_levels_spec : forall key x spl lh h cnt i s lv,
  inv s lv -> wfk key -> kof s x = key ->
  2 <= x < length (nodes _ _ s) -> length (n_tower _ _ (node_at s x)) = h ->
  i + cnt = h -> h <= height _ _ s ->
  (forall j, i <= j -> ~ In x (lvl lv j)) -> (0 < i -> In x (lvl lv (i - 1))) ->
  (forall j, i <= j -> j < lh ->
     splice_ok s key (lvl lv j) (fst (nth j spl (head, 0))) (snd (nth j spl (head, 0)))) ->
  (forall j, lh <= j -> i <= j -> lvl lv j = []) ->
  exists s' lv', link_levels (fuel_of s) key x spl lh i cnt s = Some s' /\ inv s' lv' /\
    (forall j, lvl lv' j = if (i <=? j) && (j <? h) then ins s key x (lvl lv j) else lvl lv j) /\
    (forall y, kof s' y = kof s y /\ vof s' y = vof s y) /\
    length (nodes _ _ s') = length (nodes _ _ s) /\ height _ _ s' = height _ _ s.
Proof.
  intros key x spl lh h cnt. induction cnt as [|cnt IH]; intros i s lv H Hk Hkx Hx Hth Hic Hhh Hfresh Hbelow Hspl Hemp.
  - exists s, lv. cbn [Skiplist.link_levels]. split; [reflexivity|]. split; [exact H|].
    split; [|auto]. intros j. destruct (i <=? j) eqn:E1; destruct (j <? h) eqn:E2; cbn [andb]; try reflexivity.
    apply Nat.leb_le in E1. apply Nat.ltb_lt in E2. lia.
  - cbn [Skiplist.link_levels].
    pose proof (i_height _ _ H) as Hh. assert (Him : i < max_height) by lia.
    set (pn := if i <? lh then Some (nth i spl (head, 0)) else if i =? lh then Some (head, 0)
               else find_splice (fuel_of s) s key head i).
    assert (Hpn : exists p n, pn = Some (p, n) /\ splice_ok s key (lvl lv i) p n).
    { unfold pn. destruct (Nat.ltb_spec i lh) as [Hlt|Hge].
      - destruct (nth i spl (head, 0)) as [p n] eqn:En. exists p, n. split; [reflexivity|].
        specialize (Hspl i (le_n _) Hlt). rewrite En in Hspl. exact Hspl.
      - destruct (Nat.eqb_spec i lh) as [Heq|Hne].
        + exists head, 0. split; [reflexivity|]. rewrite (Hemp i) by lia. apply splice_ok_nil.
        + destruct (find_splice_spec s lv key i head H Hk Him (or_introl eq_refl)) as [p [n [Hfs Hcase]]].
          exists p, n. split; [exact Hfs|]. destruct Hcase as [[_ [Hin _]]|[_ [Hok _]]]; [|exact Hok].
          rewrite (Hemp i) in Hin by lia. destruct Hin. }
    destruct Hpn as [p [n [Epn Hok]]]. fold pn. rewrite Epn.
    assert (Hti : i < length (n_tower _ _ (node_at s x))) by lia.
    destruct (link_one s lv key x i p n H Hk Hkx Hx Hti ltac:(lia) Hfresh Hbelow Hok)
      as [Hcas [a [b [E [Ha [Hb Hinv2]]]]]].
    rewrite Hcas, Nat.eqb_refl.
    set (s2 := set_tower p i x (set_tower x i n s)) in *.
    set (lv2 := upd_nth i (a ++ x :: b) lv) in *.
    assert (Hk2 : forall y, kof s2 y = kof s y) by (intros; unfold s2; rewrite !kof_set_tower; reflexivity).
    assert (Hv2 : forall y, vof s2 y = vof s y) by (intros; unfold s2; rewrite !vof_set_tower; reflexivity).
    assert (Hlen2 : length (nodes _ _ s2) = length (nodes _ _ s)).
    { unfold s2. rewrite !set_tower_nodes_length. reflexivity. }
    assert (Hili : i < length lv) by (rewrite (i_len _ _ H); exact Him).
    assert (Hfuel : fuel_of s2 = fuel_of s) by (unfold Skiplist.fuel_of; rewrite Hlen2; reflexivity).
    destruct (IH (S i) s2 lv2 Hinv2 Hk) as [s' [lv' [Hll [Hinv' [Hlv' [Hkv' [Hlen' Hht']]]]]]].
    + rewrite Hk2. exact Hkx.
    + rewrite Hlen2. exact Hx.
    + unfold s2. rewrite !tower_len_set_tower. exact Hth.
    + lia.
    + exact Hhh.
    + intros j Hj. unfold lv2. rewrite lvl_upd_other by lia. apply Hfresh. lia.
    + intros _. replace (S i - 1) with i by lia. unfold lv2. rewrite lvl_upd_same by exact Hili.
      apply in_or_app. right. left. reflexivity.
    + intros j Hj1 Hj2. unfold lv2. rewrite lvl_upd_other by lia.
      apply (splice_ok_ext s s2 key _ _ _ Hk2). apply Hspl; lia.
    + intros j Hj1 Hj2. unfold lv2. rewrite lvl_upd_other by lia. apply Hemp; lia.
    + rewrite Hfuel in Hll. exists s', lv'. split; [exact Hll|]. split; [exact Hinv'|].
      split; [|split; [|split]].
      * intros j. rewrite Hlv'. destruct (Nat.eq_dec j i) as [->|Hne].
        -- assert (E1 : (S i <=? i) = false) by (apply Nat.leb_gt; lia). rewrite E1. cbn [andb].
           assert (E2 : (i <=? i) = true) by (apply Nat.leb_le; lia).
           assert (E3 : (i <? h) = true) by (apply Nat.ltb_lt; lia). rewrite E2, E3. cbn [andb].
           unfold lv2. rewrite lvl_upd_same by exact Hili. rewrite E. symmetry. apply ins_split; assumption.
        -- unfold lv2. rewrite lvl_upd_other by exact Hne. rewrite (ins_ext s s2 key x _ Hk2).
           destruct (Nat.leb_spec (S i) j); destruct (Nat.leb_spec i j); try lia; reflexivity.
      * intros y. destruct (Hkv' y) as [A B]. rewrite A, B, Hk2, Hv2. auto.
      * lia.
      * rewrite Hht'. reflexivity.
Qed.


Notation sm_put := (sm_put K V cmp).
Definition kv (s : skl) (n : nat) : K * V := (kof s n, vof s n).

Lemma level_nodes_lvl : forall s lv l, inv s lv -> l < max_height -> level_nodes s l = lvl lv l.
Proof.
  intros s lv l H Hl. unfold Skiplist.level_nodes. apply chain_linked; [apply (i_link _ _ H l Hl)|].
  pose proof (inv_lvl_length s lv H l). unfold Skiplist.fuel_of in *. lia.
Qed.

Lemma contents_lvl : forall s lv, inv s lv -> contents s = map (kv s) (lvl lv 0).
Proof.
  intros s lv H. unfold Skiplist.contents. rewrite (level_nodes_lvl s lv 0 H) by (unfold max_height; lia).
  reflexivity.
Qed.

Lemma sm_put_split : forall s key v a b,
  (forall y, In y a -> cmp key (kof s y) = Gt) -> (forall y, In y b -> cmp key (kof s y) = Lt) ->
  sm_put key v (map (kv s) (a ++ b)) = map (kv s) a ++ (key, v) :: map (kv s) b.
Proof.
  intros s key v a. induction a as [|z a IH]; intros b Ha Hb; cbn [app map Skiplist.sm_put].
  - destruct b as [|y r]; [reflexivity|]. cbn [map Skiplist.sm_put kv]. unfold kv at 1.
    rewrite (Hb y) by (left; reflexivity). reflexivity.
  - unfold kv at 1. rewrite (Ha z) by (left; reflexivity). f_equal.
    apply IH; [|exact Hb]. intros y Hy. apply Ha. right. exact Hy.
Qed.

Lemma sm_put_replace : forall s key v a q b,
  (forall y, In y a -> cmp key (kof s y) = Gt) -> cmp key (kof s q) = Eq ->
  sm_put key v (map (kv s) (a ++ q :: b)) = map (kv s) a ++ (kof s q, v) :: map (kv s) b.
Proof.
  intros s key v a. induction a as [|z a IH]; intros q b Ha Hq; cbn [app map Skiplist.sm_put].
  - unfold kv at 1. rewrite Hq. reflexivity.
  - unfold kv at 1. rewrite (Ha z) by (left; reflexivity). f_equal.
    apply IH; [|exact Hq]. intros y Hy. apply Ha. right. exact Hy.
Qed.

Lemma splice_ok_ext' : forall s s' key L p n, (forall y, In y L -> kof s' y = kof s y) ->
  splice_ok s key L p n -> splice_ok s' key L p n.
Proof.
  intros s s' key L p n He [a [b [E [Hp [Hn [Ha Hb]]]]]]. exists a, b. repeat split; auto; intros y Hy;
    rewrite He; auto; rewrite E; apply in_or_app; [left|right]; exact Hy.
Qed.

Lemma map_ext_in' : forall {A B} (f g : A -> B) l, (forall x, In x l -> f x = g x) -> map f l = map g l.
Proof. intros. apply map_ext_in. assumption. Qed.

(* Put: the invariant is kept and the content changes like the sorted map *)
Theorem put_spec : forall s lv key v h, inv s lv -> wfk key -> 1 <= h <= max_height ->
  exists s' lv', put key v h s = Some s' /\ inv s' lv' /\ contents s' = sm_put key v (contents s).
Proof.
  intros s lv key v h H Hk Hh. unfold Skiplist.put.
  pose proof (i_height _ _ H) as Hht.
  destruct (descend_spec s lv key H Hk (height _ _ s) head ltac:(lia) (or_intror eq_refl) (fun _ => eq_refl))
    as [r [Hd Hr]].
  rewrite Hd. destruct r as [q|spl].
  - (* overwrite *)
    destruct Hr as [Hin Heq]. exists (set_value q v s), lv. split; [reflexivity|].
    split; [apply inv_set_value; exact H|].
    rewrite (contents_lvl _ lv (inv_set_value s lv q v H)), (contents_lvl s lv H).
    destruct (in_split _ _ Hin) as [a [b E]]. rewrite E.
    pose proof (i_range _ _ H 0 q Hin) as Hrq.
    assert (Hnd : NoDup (a ++ q :: b)) by (rewrite <- E; apply (inv_nodup s lv H)).
    rewrite (sm_put_replace s key v a q b); [|
      intros y Hy; apply (eq_klt_l s key q y Hk);
      [apply (i_wfk _ _ H); exact Hin|apply (i_wfk _ _ H); rewrite E; apply in_or_app; left; exact Hy|exact Heq|];
      pose proof (i_sorted _ _ H 0) as Hs; rewrite E in Hs;
      apply (sorted_app_klt s a (q :: b) y q Hs Hy); left; reflexivity|exact Heq].
    rewrite map_app. cbn [map]. f_equal; [|f_equal].
    + apply map_ext_in. intros y Hy. unfold kv. rewrite kof_set_value, vof_set_value by lia.
      destruct (Nat.eqb_spec y q) as [->|Hne]; [|reflexivity].
      exfalso. apply NoDup_remove_2 in Hnd. apply Hnd. apply in_or_app. left. exact Hy.
    + unfold kv. rewrite kof_set_value, vof_set_value by lia. rewrite Nat.eqb_refl. reflexivity.
    + apply map_ext_in. intros y Hy. unfold kv. rewrite kof_set_value, vof_set_value by lia.
      destruct (Nat.eqb_spec y q) as [->|Hne]; [|reflexivity].
      exfalso. apply NoDup_remove_2 in Hnd. apply Hnd. apply in_or_app. right. exact Hy.
  - (* new node *)
    destruct Hr as [Hlen Hspl].
    set (x := length (nodes _ _ s)).
    set (nd := mkNode K V key v (repeat 0 h)).
    change (mkSkl K V (nodes _ _ s ++ [nd]) (Nat.max (height _ _ s) h))
      with (with_node s nd (Nat.max (height _ _ s) h)).
    set (s1 := with_node s nd (Nat.max (height _ _ s) h)).
    assert (Hmx : height _ _ s <= Nat.max (height _ _ s) h <= max_height) by lia.
    pose proof (inv_with_node s lv nd _ H Hmx) as H1. fold s1 in H1.
    assert (Hold : forall l y, In y (lvl lv l) -> kof s1 y = kof s y /\ vof s1 y = vof s y).
    { intros l y Hy. unfold Skiplist.kof, Skiplist.vof. unfold s1. rewrite node_at_with_node_old; [auto|].
      pose proof (i_range _ _ H l y Hy). lia. }
    assert (Hfuel : S (fuel_of s) = fuel_of s1).
    { unfold Skiplist.fuel_of, s1, with_node. cbn [nodes]. rewrite app_length. cbn. lia. }
    rewrite Hfuel.
    destruct (link_levels_spec key x spl (height _ _ s) h h 0 s1 lv H1 Hk) as [s' [lv' [Hll [Hinv' [Hlv' [Hkv' _]]]]]].
    + unfold Skiplist.kof, s1, x. rewrite node_at_with_node_new. reflexivity.
    + destruct (i_head _ _ H). unfold s1, with_node, x. cbn [nodes]. rewrite app_length. cbn. lia.
    + unfold s1, x. rewrite node_at_with_node_new. cbn. apply repeat_length.
    + reflexivity.
    + unfold s1, with_node. cbn [height]. lia.
    + intros j _ Hin. pose proof (i_range _ _ H j x Hin). unfold x in *. lia.
    + intros Hc. lia.
    + intros j _ Hj. apply (splice_ok_ext' s s1 key); [|apply Hspl; exact Hj].
      intros y Hy. apply (Hold j y Hy).
    + intros j Hj _. apply (i_empty _ _ H j Hj).
    + exists s', lv'. split; [exact Hll|]. split; [exact Hinv'|].
      rewrite (contents_lvl s' lv' Hinv'), (contents_lvl s lv H), Hlv'.
      assert (E1 : ((0 <=? 0) && (0 <? h))%bool = true) by (destruct h; [lia|reflexivity]). rewrite E1.
      destruct (Hspl 0 ltac:(lia)) as [a [b [E [_ [_ [Ha Hb]]]]]].
      rewrite E. rewrite (ins_split s1 key x a b).
      * rewrite (sm_put_split s key v a b Ha Hb). rewrite map_app. cbn [map]. f_equal; [|f_equal].
        -- apply map_ext_in. intros y Hy. unfold kv. destruct (Hkv' y) as [A B]. rewrite A, B.
           destruct (Hold 0 y) as [C D]; [rewrite E; apply in_or_app; left; exact Hy|]. rewrite C, D. reflexivity.
        -- unfold kv. destruct (Hkv' x) as [A B]. rewrite A, B. unfold Skiplist.kof, Skiplist.vof, s1, x.
           rewrite node_at_with_node_new. reflexivity.
        -- apply map_ext_in. intros y Hy. unfold kv. destruct (Hkv' y) as [A B]. rewrite A, B.
           destruct (Hold 0 y) as [C D]; [rewrite E; apply in_or_app; right; exact Hy|]. rewrite C, D. reflexivity.
      * intros y Hy. destruct (Hold 0 y) as [C _]; [rewrite E; apply in_or_app; left; exact Hy|]. rewrite C. apply Ha. exact Hy.
      * intros y Hy. destruct (Hold 0 y) as [C _]; [rewrite E; apply in_or_app; right; exact Hy|]. rewrite C. apply Hb. exact Hy.
Qed.


(* ---------- findNear ---------- *)
Fixpoint span_gt (s : skl) (key : K) (L : list nat) : list nat * list nat :=
  match L with
  | [] => ([], [])
  | y :: r => match cmp key (kof s y) with
              | Gt => let '(a, b) := span_gt s key r in (y :: a, b)
              | _ => ([], L)
              end
  end.

(* what findNear(key, less, allowEqual) returns, read off the level-0 list *)
Definition near_spec (s : skl) (key : K) (less allow : bool) (L : list nat) : nat * bool :=
  let '(lo, hi) := span_gt s key L in
  match hi with
  | [] => if negb less then (0, false) else (last lo 0, false)
  | y :: r =>
      match cmp key (kof s y) with
      | Eq => if allow then (y, true) else if negb less then (hd 0 r, false) else (last lo 0, false)
      | _ => if negb less then (y, false) else (last lo 0, false)
      end
  end.

Lemma span_gt_split : forall s key a b,
  (forall y, In y a -> cmp key (kof s y) = Gt) ->
  (forall y r, b = y :: r -> cmp key (kof s y) <> Gt) ->
  span_gt s key (a ++ b) = (a, b).
Proof.
  intros s key a. induction a as [|z a IH]; intros b Ha Hb; cbn [app span_gt].
  - destruct b as [|y r]; [reflexivity|]. cbn [span_gt]. specialize (Hb y r eq_refl).
    destruct (cmp key (kof s y)); try reflexivity. congruence.
  - rewrite (Ha z) by (left; reflexivity). rewrite IH; [reflexivity| |exact Hb].
    intros y Hy. apply Ha. right. exact Hy.
Qed.

Lemma not_head_last : forall (a : list nat), ~ In head a -> not_head (last a head) = last a 0.
Proof.
  intros a Hn. destruct a as [|z a]; [reflexivity|]. rewrite !last_cons.
  assert (Hin : In (last a z) (z :: a)).
  { clear. revert z. induction a as [|w a IH]; intros z; [left; reflexivity|]. rewrite last_cons. right. apply IH. }
  unfold not_head. destruct (Nat.eqb_spec (last a z) head) as [E|E]; [|reflexivity].
  exfalso. apply Hn. rewrite <- E. exact Hin.
Qed.

Lemma last_in_start : forall s lv key l a b, inv s lv ->
  lvl lv l = a ++ b -> (forall y, In y a -> cmp key (kof s y) = Gt) ->
  start_ok s key (lvl lv l) (last a head).
Proof.
  intros s lv key l a b H E Ha. destruct a as [|a1 a']; [left; reflexivity|]. right.
  assert (Hin : In (last (a1 :: a') head) (a1 :: a')) by (apply last_in; discriminate).
  split; [rewrite E; apply in_or_app; left; exact Hin|apply Ha; exact Hin].
Qed.

Lemma find_near_from_spec : forall s lv key less allow, inv s lv -> wfk key ->
  forall level x, level < max_height -> start_ok s key (lvl lv level) x ->
  find_near_from (fuel_of s) s key less allow x level = Some (near_spec s key less allow (lvl lv 0)).
Proof.
  intros s lv key less allow H Hk level. induction level as [|l IH]; intros x Hl Hst.
  - (* base level *)
    destruct (walk_level s lv key 0 x H Hk Hl Hst) as [a [b [E [Ha [_ [Hlb [Hw Hq]]]]]]].
    cbn [Skiplist.find_near_from]. rewrite Hw.
    assert (Hnh : ~ In head a).
    { intro Hc. apply (inv_not_head s lv H 0). rewrite E. apply in_or_app. left. exact Hc. }
    unfold near_spec. rewrite E, (span_gt_split s key a b Ha Hq).
    destruct b as [|y r]; cbn [hd Nat.eqb].
    + destruct less; cbn [negb]; [rewrite (not_head_last a Hnh)|]; reflexivity.
    + assert (Hy : In y (lvl lv 0)) by (rewrite E; apply in_or_app; right; left; reflexivity).
      pose proof (i_range _ _ H 0 y Hy) as Hry. destruct (Nat.eqb_spec y 0); [lia|].
      destruct (cmp key (kof s y)) eqn:Ec.
      * destruct allow; [reflexivity|]. destruct less; cbn [negb].
        -- rewrite (not_head_last a Hnh). reflexivity.
        -- f_equal. f_equal. cbn [linked] in Hlb. destruct Hlb as [_ [_ Hlr]]. apply (linked_hd _ _ _ _ Hlr).
      * destruct less; cbn [negb]; [rewrite (not_head_last a Hnh)|]; reflexivity.
      * exfalso. apply (Hq y r eq_refl Ec).
  - destruct (walk_level s lv key (S l) x H Hk Hl Hst) as [a [b [E [Ha [_ [Hlb [Hw Hq]]]]]]].
    cbn [Skiplist.find_near_from]. rewrite Hw.
    assert (Hdown : start_ok s key (lvl lv l) (last a head)).
    { destruct (last_in_start s lv key (S l) a b H E Ha) as [->|[Hin Hgt]]; [left; reflexivity|].
      right. split; [apply (i_incl _ _ H l); exact Hin|exact Hgt]. }
    specialize (IH (last a head) ltac:(lia) Hdown).
    destruct b as [|y r]; cbn [hd Nat.eqb]; [exact IH|].
    assert (Hy : In y (lvl lv (S l))) by (rewrite E; apply in_or_app; right; left; reflexivity).
    pose proof (i_range _ _ H (S l) y Hy) as Hry. destruct (Nat.eqb_spec y 0); [lia|].
    destruct (cmp key (kof s y)) eqn:Ec; [|exact IH|exfalso; apply (Hq y r eq_refl Ec)].
    (* equal key found on an upper level *)
    assert (Hy0 : In y (lvl lv 0)) by (apply (inv_incl_down s lv H 0 (S l) ltac:(lia)); exact Hy).
    destruct (in_split _ _ Hy0) as [a0 [b0 E0]].
    assert (Ha0 : forall z, In z a0 -> cmp key (kof s z) = Gt).
    { intros z Hz. apply (eq_klt_l s key y z Hk); [apply (i_wfk _ _ H); exact Hy0| |exact Ec|].
      - apply (i_wfk _ _ H). rewrite E0. apply in_or_app. left. exact Hz.
      - pose proof (i_sorted _ _ H 0) as Hs. rewrite E0 in Hs.
        apply (sorted_app_klt s a0 (y :: b0) z y Hs Hz). left. reflexivity. }
    assert (Hsp : span_gt s key (lvl lv 0) = (a0, y :: b0)).
    { rewrite E0. apply span_gt_split; [exact Ha0|]. intros y' r' Hy'. inversion Hy'; subst. congruence. }
    destruct allow.
    + unfold near_spec. rewrite Hsp, Ec. reflexivity.
    + destruct less; cbn [negb]; [exact IH|].
      unfold near_spec. rewrite Hsp, Ec. cbn [negb]. f_equal. f_equal.
      pose proof (i_link _ _ H 0 ltac:(unfold max_height; lia)) as Hl0. rewrite E0 in Hl0.
      replace (a0 ++ y :: b0) with ((a0 ++ [y]) ++ b0) in Hl0 by (rewrite <- app_assoc; reflexivity).
      apply linked_app in Hl0. destruct Hl0 as [_ Hl2]. rewrite last_app_gen in Hl2. cbn [last] in Hl2.
      apply (linked_hd _ _ _ _ Hl2).
Qed.

Theorem find_near_spec : forall s lv key less allow, inv s lv -> wfk key ->
  find_near s key less allow = Some (near_spec s key less allow (lvl lv 0)).
Proof.
  intros s lv key less allow H Hk. unfold Skiplist.find_near. pose proof (i_height _ _ H).
  apply (find_near_from_spec s lv key less allow H Hk); [lia|left; reflexivity].
Qed.


(* ---------- findLast ---------- *)
Notation walk_end := (walk_end K V dk dv).
Notation find_last_from := (find_last_from K V dk dv).
Notation find_last := (find_last K V dk dv).

Lemma walk_end_spec : forall s l xs x fuel, linked s l x xs -> length xs < fuel ->
  walk_end fuel s x l = Some (last xs x).
Proof.
  intros s l xs. induction xs as [|y r IH]; intros x fuel H Hf; cbn [linked] in H.
  - destruct fuel; [lia|]. cbn [Skiplist.walk_end]. rewrite H. reflexivity.
  - destruct H as [H1 [H2 H3]]. destruct fuel; [lia|]. cbn [Skiplist.walk_end]. rewrite H1.
    destruct (Nat.eqb_spec y 0); [contradiction|]. rewrite last_cons. apply IH; [exact H3|cbn in Hf; lia].
Qed.

Lemma find_last_from_spec : forall s lv, inv s lv -> forall level x, level < max_height ->
  (x = head \/ In x (lvl lv level)) ->
  find_last_from (fuel_of s) s x level = Some (last (lvl lv 0) 0).
Proof.
  intros s lv H level. induction level as [|l IH]; intros x Hl Hx.
  - cbn [Skiplist.find_last_from].
    pose proof (i_link _ _ H 0 Hl) as Hlink. pose proof (inv_lvl_length s lv H 0) as Hlen.
    assert (Hw : walk_end (fuel_of s) s x 0 = Some (last (lvl lv 0) head)).
    { destruct Hx as [->|Hin]; [apply walk_end_spec; assumption|].
      destruct (in_split _ _ Hin) as [a [b E]]. rewrite E in Hlink, Hlen |- *.
      replace (a ++ x :: b) with ((a ++ [x]) ++ b) in Hlink |- * by (rewrite <- app_assoc; reflexivity).
      apply linked_app in Hlink. destruct Hlink as [_ Hl2]. rewrite last_app_gen in Hl2 |- *.
      rewrite last_app_gen. cbn [last] in *. apply walk_end_spec; [exact Hl2|].
      rewrite app_length in Hlen. cbn in Hlen. lia. }
    rewrite Hw. f_equal. apply not_head_last. apply (inv_not_head s lv H).
  - cbn [Skiplist.find_last_from].
    pose proof (i_link _ _ H (S l) Hl) as Hlink. pose proof (inv_lvl_length s lv H (S l)) as Hlen.
    assert (Hw : walk_end (fuel_of s) s x (S l) = Some (last (lvl lv (S l)) head)).
    { destruct Hx as [->|Hin]; [apply walk_end_spec; assumption|].
      destruct (in_split _ _ Hin) as [a [b E]]. rewrite E in Hlink, Hlen |- *.
      replace (a ++ x :: b) with ((a ++ [x]) ++ b) in Hlink |- * by (rewrite <- app_assoc; reflexivity).
      apply linked_app in Hlink. destruct Hlink as [_ Hl2]. rewrite last_app_gen in Hl2 |- *.
      rewrite last_app_gen. cbn [last] in *. apply walk_end_spec; [exact Hl2|].
      rewrite app_length in Hlen. cbn in Hlen. lia. }
    rewrite Hw. apply IH; [lia|].
    destruct (lvl lv (S l)) as [|z L] eqn:E; [left; reflexivity|]. right.
    apply (i_incl _ _ H l). rewrite E. apply last_in. discriminate.
Qed.

Theorem find_last_spec : forall s lv, inv s lv -> find_last s = Some (last (lvl lv 0) 0).
Proof.
  intros s lv H. unfold Skiplist.find_last. pose proof (i_height _ _ H).
  apply (find_last_from_spec s lv H); [lia|left; reflexivity].
Qed.

(* ---------- the empty list and sequences of puts ---------- *)
Notation sl_new := (sl_new K V dk dv).
Notation put_all := (put_all K V cmp dk dv).
Notation sm_of_puts := (sm_of_puts K V cmp).

Lemma lvl_repeat_nil : forall n l, lvl (repeat [] n) l = [].
Proof.
  intros n l. unfold lvl. revert l. induction n as [|n IH]; intros [|l]; cbn; auto.
Qed.

Lemma inv_new : inv sl_new (repeat [] max_height).
Proof.
  constructor.
  - apply repeat_length.
  - intros l Hl. rewrite lvl_repeat_nil. cbn [linked]. unfold Skiplist.get_next, Skiplist.node_at, Skiplist.sl_new.
    cbn [nodes nth head n_tower]. apply nth_repeat.
  - intros l. rewrite lvl_repeat_nil. constructor.
  - intros l. rewrite lvl_repeat_nil. intros x [].
  - intros l _. apply lvl_repeat_nil.
  - intros l x Hx. rewrite lvl_repeat_nil in Hx. destruct Hx.
  - unfold Skiplist.node_at, Skiplist.sl_new. cbn [nodes nth head n_tower length]. split; [apply repeat_length|lia].
  - cbn. unfold max_height. lia.
  - intros x Hx. rewrite lvl_repeat_nil in Hx. destruct Hx.
Qed.

Definition puts_ok (ps : list (K * V * nat)) : Prop :=
  forall k v h, In (k, v, h) ps -> wfk k /\ 1 <= h <= max_height.

Theorem put_all_spec : forall ps s lv, inv s lv -> puts_ok ps ->
  exists s' lv', put_all ps s = Some s' /\ inv s' lv' /\ contents s' = sm_of_puts ps (contents s).
Proof.
  induction ps as [|[[k v] h] ps IH]; intros s lv H Hok.
  - exists s, lv. auto.
  - cbn [Skiplist.put_all Skiplist.sm_of_puts].
    destruct (Hok k v h (or_introl eq_refl)) as [Hk Hh].
    destruct (put_spec s lv k v h H Hk Hh) as [s1 [lv1 [Hp [H1 Hc]]]]. rewrite Hp.
    destruct (IH s1 lv1 H1) as [s' [lv' [Hp' [H' Hc']]]].
    + intros k' v' h' Hin. apply (Hok k' v' h'). right. exact Hin.
    + exists s', lv'. rewrite Hc' , Hc. auto.
Qed.

Lemma contents_new : contents sl_new = [].
Proof. rewrite (contents_lvl sl_new _ inv_new), lvl_repeat_nil. reflexivity. Qed.

(* ---------- structure visible through the level lists ---------- *)
Inductive sublist {A} : list A -> list A -> Prop :=
| sl_nil : forall l, sublist [] l
| sl_skip : forall a x l, sublist a l -> sublist a (x :: l)
| sl_take : forall a x l, sublist a l -> sublist (x :: a) (x :: l).

Lemma sorted_incl_sublist : forall s B A,
  (forall y, In y B -> wfk (kof s y)) ->
  keys_sorted s A -> keys_sorted s B -> incl A B -> sublist A B.
Proof.
  intros s B. induction B as [|y B IH]; intros A Hw HA HB Hincl.
  - destruct A as [|x A]; [constructor|]. destruct (Hincl x (or_introl eq_refl)).
  - destruct A as [|x A]; [constructor|].
    inversion HA as [|? ? HA' HAall]; subst. inversion HB as [|? ? HB' HBall]; subst.
    rewrite Forall_forall in HAall, HBall.
    assert (Hw' : forall z, In z B -> wfk (kof s z)) by (intros; apply Hw; right; assumption).
    destruct (Nat.eq_dec x y) as [->|Hne].
    + apply sl_take. apply IH; try assumption. intros z Hz.
      destruct (Hincl z (or_intror Hz)) as [E|Hin]; [|exact Hin].
      subst z. specialize (HAall y Hz). unfold klt in HAall. rewrite cmp_refl in HAall; [discriminate|].
      apply Hw. left. reflexivity.
    + apply sl_skip. apply IH; try assumption. intros z Hz.
      destruct (Hincl z Hz) as [E|Hin]; [|exact Hin]. subst z. exfalso.
      destruct (Hincl x (or_introl eq_refl)) as [E|HxB]; [congruence|].
      specialize (HBall x HxB). (* y < x *)
      destruct Hz as [E|Hz]; [congruence|]. specialize (HAall y Hz). (* x < y *)
      unfold klt in *.
      assert (Hwy : wfk (kof s y)) by (apply Hw; left; reflexivity).
      assert (Hwx : wfk (kof s x)) by (apply Hw'; exact HxB).
      pose proof (cmp_trans _ _ _ Hwy Hwx Hwy HBall HAall) as Hc. rewrite cmp_refl in Hc; [discriminate|exact Hwy].
Qed.

Theorem inv_levels_sublist : forall s lv, inv s lv -> forall l,
  sublist (lvl lv (S l)) (lvl lv l).
Proof.
  intros s lv H l. apply (sorted_incl_sublist s).
  - intros y Hy. apply (inv_wfk s lv H l y Hy).
  - apply (i_sorted _ _ H).
  - apply (i_sorted _ _ H).
  - apply (i_incl _ _ H).
Qed.

(* keys of the content are strictly increasing *)
Definition keys_increasing (m : list (K * V)) : Prop :=
  StronglySorted (fun a b => cmp (fst a) (fst b) = Lt) m.

Theorem contents_sorted : forall s lv, inv s lv -> keys_increasing (contents s).
Proof.
  intros s lv H. rewrite (contents_lvl s lv H). pose proof (i_sorted _ _ H 0) as Hs.
  unfold keys_increasing. induction Hs as [|u L Hs IH Hall]; cbn [map]; constructor; [exact IH|].
  rewrite Forall_forall in Hall |- *. intros kv' Hin. apply in_map_iff in Hin. destruct Hin as [w [<- Hw]].
  cbn [kv fst]. apply Hall. exact Hw.
Qed.


(* ---------- Get and the iterator against the sorted map ---------- *)
Notation sm_ge := (sm_ge K V cmp).
Notation sm_gt := (sm_gt K V cmp).
Notation sm_le := (sm_le K V cmp).
Notation sm_lt := (sm_lt K V cmp).
Notation sm_get := (sm_get K V cmp same_key).
Notation get := (get K V cmp same_key dk dv).
Notation it_entry := (it_entry K V dk dv).
Notation it_seek := (it_seek K V cmp dk dv).
Notation it_seek_for_prev := (it_seek_for_prev K V cmp dk dv).
Notation it_prev := (it_prev K V cmp dk dv).
Notation it_next := (it_next K V dk dv).
Notation it_seek_to_first := (it_seek_to_first K V dk dv).
Notation it_seek_to_last := (it_seek_to_last K V dk dv).
Notation iter_fwd := (iter_fwd K V dk dv).
Notation iter_bwd := (iter_bwd K V cmp dk dv).

Lemma span_gt_app : forall s key L, L = fst (span_gt s key L) ++ snd (span_gt s key L).
Proof.
  intros s key L. induction L as [|y r IH]; [reflexivity|]. cbn [span_gt].
  destruct (cmp key (kof s y)); try reflexivity.
  destruct (span_gt s key r) as [a b]. cbn [fst snd app] in *. f_equal. exact IH.
Qed.

Lemma span_gt_fst : forall s key L y, In y (fst (span_gt s key L)) -> cmp key (kof s y) = Gt.
Proof.
  intros s key L. induction L as [|z r IH]; intros y Hy; [destruct Hy|]. cbn [span_gt] in Hy.
  destruct (cmp key (kof s z)) eqn:E; try (destruct Hy; fail).
  destruct (span_gt s key r) as [a b]. cbn [fst] in *. destruct Hy as [<-|Hy]; [exact E|apply IH; exact Hy].
Qed.

Lemma span_gt_snd : forall s key L y r, snd (span_gt s key L) = y :: r -> cmp key (kof s y) <> Gt.
Proof.
  intros s key L. induction L as [|z l IH]; intros y r H; [discriminate|]. cbn [span_gt] in H.
  destruct (cmp key (kof s z)) eqn:E.
  - cbn in H. inversion H; subst. congruence.
  - cbn in H. inversion H; subst. congruence.
  - destruct (span_gt s key l) as [a b]. cbn [snd] in *. apply (IH y r H).
Qed.

Lemma find_none_all : forall {A} (p : A -> bool) l, (forall x, In x l -> p x = false) -> find p l = None.
Proof.
  intros A p l. induction l as [|x l IH]; intros H; [reflexivity|]. cbn [find].
  rewrite (H x) by (left; reflexivity). apply IH. intros y Hy. apply H. right. exact Hy.
Qed.

Lemma find_app : forall {A} (p : A -> bool) a b,
  find p (a ++ b) = match find p a with Some x => Some x | None => find p b end.
Proof.
  intros A p a. induction a as [|x a IH]; intros b; [reflexivity|]. cbn [app find].
  destruct (p x); [reflexivity|apply IH].
Qed.

(* the part of level 0 from the first node >= key on: its first node may be equal, the rest is greater *)
Lemma hi_tail_lt : forall s lv key lo y r, inv s lv -> wfk key ->
  lvl lv 0 = lo ++ y :: r -> cmp key (kof s y) <> Gt ->
  forall z, In z r -> cmp key (kof s z) = Lt.
Proof.
  intros s lv key lo y r H Hk E Hy z Hz.
  assert (Hyz : klt s y z).
  { pose proof (i_sorted _ _ H 0) as Hs. rewrite E in Hs. apply sorted_app_r in Hs.
    inversion Hs as [|? ? _ Hall]; subst. rewrite Forall_forall in Hall. apply Hall. exact Hz. }
  assert (Hwy : wfk (kof s y)) by (apply (i_wfk _ _ H); rewrite E; apply in_or_app; right; left; reflexivity).
  assert (Hwz : wfk (kof s z)) by (apply (i_wfk _ _ H); rewrite E; apply in_or_app; right; right; exact Hz).
  destruct (cmp key (kof s y)) eqn:Ec; [|apply (lt_trans_klt s key y z Hk Hwy Hwz Ec Hyz)|congruence].
  apply (eq_klt_r s key y z Hk Hwy Hwz Ec Hyz).
Qed.

Definition entry_of (s : skl) (n : nat) : option (K * V) := if n =? 0 then None else Some (kv s n).

Lemma it_entry_entry_of : forall s n, it_entry s n = entry_of s n.
Proof. reflexivity. Qed.

Lemma last_entry : forall s lv l lo, inv s lv -> (forall y, In y lo -> In y (lvl lv l)) ->
  entry_of s (last lo 0) = match lo with [] => None | _ => Some (kv s (last lo 0)) end.
Proof.
  intros s lv l lo H Hin. destruct lo as [|z lo]; [reflexivity|]. unfold entry_of.
  assert (Hl : In (last (z :: lo) 0) (lvl lv l)) by (apply Hin; apply last_in; discriminate).
  pose proof (i_range _ _ H l _ Hl). destruct (Nat.eqb_spec (last (z :: lo) 0) 0); [lia|reflexivity].
Qed.

Lemma rev_last_cons : forall {A} (l : list A) d, l <> [] -> exists l', rev l = last l d :: l'.
Proof.
  intros A l d Hne. destruct (exists_last Hne) as [l0 [x E]]. subst l.
  rewrite rev_app_distr, last_app_gen. cbn. exists (rev l0). reflexivity.
Qed.

(* characterisation of the four lookups on the content, via the split of level 0 at key *)
Lemma sm_lookup_span : forall s lv key, inv s lv -> wfk key ->
  let lo := fst (span_gt s key (lvl lv 0)) in
  let hi := snd (span_gt s key (lvl lv 0)) in
  let m := contents s in
  let last_lo := match lo with [] => None | _ => Some (kv s (last lo 0)) end in
  sm_ge key m = match hi with [] => None | y :: _ => Some (kv s y) end /\
  sm_gt key m = match hi with
                | [] => None
                | y :: r => match cmp key (kof s y) with
                            | Eq => match r with [] => None | z :: _ => Some (kv s z) end
                            | _ => Some (kv s y)
                            end
                end /\
  sm_le key m = match hi with
                | y :: _ => match cmp key (kof s y) with Eq => Some (kv s y) | _ => last_lo end
                | [] => last_lo
                end /\
  sm_lt key m = last_lo.
Proof.
  intros s lv key H Hk lo hi m last_lo.
  pose proof (span_gt_app s key (lvl lv 0)) as E. fold lo hi in E.
  assert (Hlo : forall y, In y lo -> cmp key (kof s y) = Gt) by (apply span_gt_fst).
  assert (Hhi : forall y r, hi = y :: r -> cmp key (kof s y) <> Gt) by (apply span_gt_snd).
  assert (Em : m = map (kv s) lo ++ map (kv s) hi).
  { unfold m. rewrite (contents_lvl s lv H), E, map_app. reflexivity. }
  assert (Hrev_lo : forall p, (forall y, In y lo -> p (kv s y) = true) ->
            find p (rev (map (kv s) lo)) = last_lo).
  { intros p Hp. unfold last_lo. destruct lo as [|z lo'] eqn:El; [reflexivity|]. rewrite <- El in *.
    rewrite <- map_rev. destruct (rev_last_cons lo 0 ltac:(rewrite El; discriminate)) as [l' El'].
    rewrite El'. cbn [map find]. rewrite Hp; [reflexivity|]. apply last_in. rewrite El. discriminate. }
  assert (Hfind_lo_none : forall p, (forall y, In y lo -> p (kv s y) = false) -> find p (map (kv s) lo) = None).
  { intros p Hp. apply find_none_all. intros x Hx. apply in_map_iff in Hx. destruct Hx as [y [<- Hy]]. apply Hp. exact Hy. }
  unfold Skiplist.sm_ge, Skiplist.sm_gt, Skiplist.sm_le, Skiplist.sm_lt. rewrite Em.
  split; [|split; [|split]].
  - rewrite find_app, Hfind_lo_none.
    + destruct hi as [|y r]; [reflexivity|]. cbn [map find kv fst]. specialize (Hhi y r eq_refl).
      destruct (cmp key (kof s y)); cbn; try reflexivity. congruence.
    + intros y Hy. cbn [kv fst]. rewrite (Hlo y Hy). reflexivity.
  - rewrite find_app, Hfind_lo_none.
    + destruct hi as [|y r]; [reflexivity|]. cbn [map find kv fst]. pose proof (Hhi y r eq_refl) as Hy.
      pose proof (hi_tail_lt s lv key lo y r H Hk E Hy) as Hr.
      destruct (cmp key (kof s y)) eqn:Ec; cbn [Skiplist.is_lt]; [|reflexivity|congruence].
      destruct r as [|z r']; [reflexivity|]. cbn [map find kv fst]. rewrite (Hr z) by (left; reflexivity). reflexivity.
    + intros y Hy. cbn [kv fst]. rewrite (Hlo y Hy). reflexivity.
  - rewrite rev_app_distr, find_app.
    assert (Hlo_le : find (fun kv0 => negb (Skiplist.is_lt (cmp key (fst kv0)))) (rev (map (kv s) lo)) = last_lo).
    { apply Hrev_lo. intros y Hy. cbn [kv fst]. rewrite (Hlo y Hy). reflexivity. }
    destruct hi as [|y r]; [cbn [map rev find]; exact Hlo_le|].
    pose proof (Hhi y r eq_refl) as Hy. pose proof (hi_tail_lt s lv key lo y r H Hk E Hy) as Hr.
    cbn [map rev]. rewrite find_app.
    rewrite (find_none_all _ (rev (map (kv s) r))).
    + cbn [find kv fst]. destruct (cmp key (kof s y)) eqn:Ec; cbn [Skiplist.is_lt negb]; [reflexivity|exact Hlo_le|congruence].
    + intros x Hx. apply in_rev in Hx. apply in_map_iff in Hx. destruct Hx as [z [<- Hz]].
      cbn [kv fst]. rewrite (Hr z Hz). reflexivity.
  - rewrite rev_app_distr, find_app.
    rewrite (find_none_all _ (rev (map (kv s) hi))).
    + apply Hrev_lo. intros y Hy. cbn [kv fst]. rewrite (Hlo y Hy). reflexivity.
    + intros x Hx. apply in_rev in Hx. apply in_map_iff in Hx. destruct Hx as [z [<- Hz]]. cbn [kv fst].
      destruct hi as [|y r]; [destruct Hz|]. pose proof (Hhi y r eq_refl) as Hy.
      destruct Hz as [<-|Hz].
      * destruct (cmp key (kof s y)); try reflexivity. congruence.
      * rewrite (hi_tail_lt s lv key lo y r H Hk E Hy z Hz). reflexivity.
Qed.

Lemma hi_nonzero : forall s lv key y r, inv s lv -> snd (span_gt s key (lvl lv 0)) = y :: r -> y <> 0.
Proof.
  intros s lv key y r H E. assert (Hin : In y (lvl lv 0)).
  { rewrite (span_gt_app s key (lvl lv 0)), E. apply in_or_app. right. left. reflexivity. }
  pose proof (i_range _ _ H 0 y Hin). lia.
Qed.

Lemma lo_incl : forall s key L y, In y (fst (span_gt s key L)) -> In y L.
Proof. intros s key L y Hy. rewrite (span_gt_app s key L). apply in_or_app. left. exact Hy. Qed.

(* findNear in its four modes = the four lookups of the sorted map *)
Theorem find_near_map : forall s lv key, inv s lv -> wfk key ->
  let m := contents s in
  option_map (fun r => entry_of s (fst r)) (find_near s key false true) = Some (sm_ge key m) /\
  option_map (fun r => entry_of s (fst r)) (find_near s key false false) = Some (sm_gt key m) /\
  option_map (fun r => entry_of s (fst r)) (find_near s key true true) = Some (sm_le key m) /\
  option_map (fun r => entry_of s (fst r)) (find_near s key true false) = Some (sm_lt key m).
Proof.
  intros s lv key H Hk m.
  destruct (sm_lookup_span s lv key H Hk) as [Hge [Hgt [Hle Hlt]]]. fold m in Hge, Hgt, Hle, Hlt.
  rewrite !(find_near_spec s lv key _ _ H Hk). cbn [option_map]. unfold near_spec.
  rewrite Hge, Hgt, Hle, Hlt.
  pose proof (span_gt_app s key (lvl lv 0)) as E.
  pose proof (hi_nonzero s lv key) as Hnz.
  pose proof (last_entry s lv 0 (fst (span_gt s key (lvl lv 0))) H (lo_incl s key _)) as Hlast.
  destruct (span_gt s key (lvl lv 0)) as [lo hi]. cbn [fst snd negb] in *.
  destruct hi as [|y r].
  - cbn [fst]. rewrite Hlast. auto.
  - specialize (Hnz y r H eq_refl).
    assert (Ey : entry_of s y = Some (kv s y)).
    { unfold entry_of. destruct (Nat.eqb_spec y 0); [contradiction|reflexivity]. }
    assert (Er : entry_of s (hd 0 r) = match r with [] => None | z :: _ => Some (kv s z) end).
    { destruct r as [|z r']; [reflexivity|]. cbn [hd]. unfold entry_of.
      assert (Hz : In z (lvl lv 0)) by (rewrite E; apply in_or_app; right; right; left; reflexivity).
      pose proof (i_range _ _ H 0 z Hz). destruct (Nat.eqb_spec z 0); [lia|reflexivity]. }
    destruct (cmp key (kof s y)); cbn [fst]; rewrite ?Ey, ?Er, ?Hlast; auto.
Qed.

Theorem get_spec : forall s lv key, inv s lv -> wfk key -> get s key = Some (sm_get key (contents s)).
Proof.
  intros s lv key H Hk. unfold Skiplist.get, Skiplist.sm_get.
  destruct (sm_lookup_span s lv key H Hk) as [Hge _]. rewrite Hge.
  rewrite (find_near_spec s lv key false true H Hk). unfold near_spec.
  pose proof (hi_nonzero s lv key) as Hnz.
  destruct (span_gt s key (lvl lv 0)) as [lo hi]. cbn [fst snd negb] in *.
  destruct hi as [|y r]; [reflexivity|]. specialize (Hnz y r H eq_refl).
  destruct (cmp key (kof s y)); cbn [fst]; destruct (Nat.eqb_spec y 0); try contradiction;
    cbn [kv]; destruct (same_key key (kof s y)); reflexivity.
Qed.


(* ---------- iterator moves ---------- *)
Lemma next_of_split : forall s lv a n b, inv s lv -> lvl lv 0 = a ++ n :: b -> it_next s n = hd 0 b.
Proof.
  intros s lv a n b H E. unfold Skiplist.it_next.
  pose proof (i_link _ _ H 0 ltac:(unfold max_height; lia)) as Hl. rewrite E in Hl.
  replace (a ++ n :: b) with ((a ++ [n]) ++ b) in Hl by (rewrite <- app_assoc; reflexivity).
  apply linked_app in Hl. destruct Hl as [_ Hl2]. rewrite last_app_gen in Hl2. cbn [last] in Hl2.
  apply (linked_hd _ _ _ _ Hl2).
Qed.

Lemma prev_of_split : forall s lv a n b, inv s lv -> lvl lv 0 = a ++ n :: b -> it_prev s n = Some (last a 0).
Proof.
  intros s lv a n b H E. unfold Skiplist.it_prev.
  assert (Hn : In n (lvl lv 0)) by (rewrite E; apply in_or_app; right; left; reflexivity).
  assert (Hk : wfk (kof s n)) by (apply (i_wfk _ _ H); exact Hn).
  rewrite (find_near_spec s lv (kof s n) true false H Hk). cbn [option_map]. unfold near_spec.
  assert (Hsp : span_gt s (kof s n) (lvl lv 0) = (a, n :: b)).
  { rewrite E. apply span_gt_split.
    - intros y Hy. apply cmp_lt_gt; [apply (i_wfk _ _ H); rewrite E; apply in_or_app; left; exact Hy|exact Hk|].
      pose proof (i_sorted _ _ H 0) as Hs. rewrite E in Hs.
      apply (sorted_app_klt s a (n :: b) y n Hs Hy). left. reflexivity.
    - intros y r Hy. inversion Hy; subst. rewrite cmp_refl by exact Hk. discriminate. }
  rewrite Hsp, cmp_refl by exact Hk. reflexivity.
Qed.

Theorem first_spec : forall s lv, inv s lv -> entry_of s (it_seek_to_first s) = hd_error (contents s).
Proof.
  intros s lv H. rewrite (contents_lvl s lv H). unfold Skiplist.it_seek_to_first.
  pose proof (i_link _ _ H 0 ltac:(unfold max_height; lia)) as Hl. rewrite (linked_hd _ _ _ _ Hl).
  destruct (lvl lv 0) as [|y r] eqn:E; [reflexivity|]. cbn [hd map hd_error]. unfold entry_of.
  assert (Hy : In y (lvl lv 0)) by (rewrite E; left; reflexivity).
  pose proof (i_range _ _ H 0 y Hy). destruct (Nat.eqb_spec y 0); [lia|reflexivity].
Qed.

Theorem last_spec : forall s lv, inv s lv ->
  option_map (entry_of s) (it_seek_to_last s) = Some (hd_error (rev (contents s))).
Proof.
  intros s lv H. unfold Skiplist.it_seek_to_last. rewrite (find_last_spec s lv H). cbn [option_map]. f_equal.
  rewrite (contents_lvl s lv H), <- map_rev.
  rewrite (last_entry s lv 0 (lvl lv 0) H (fun y Hy => Hy)).
  destruct (lvl lv 0) as [|z L] eqn:E; [reflexivity|].
  destruct (rev_last_cons (z :: L) 0 ltac:(discriminate)) as [l' El]. rewrite El. reflexivity.
Qed.

(* Next / Prev move to the neighbouring entry of the sorted content *)
Theorem next_spec : forall s lv i n, inv s lv -> nth_error (lvl lv 0) i = Some n ->
  entry_of s (it_next s n) = nth_error (contents s) (S i).
Proof.
  intros s lv i n H Hn. destruct (nth_error_split _ _ Hn) as [a [b [E Hlen]]].
  rewrite (next_of_split s lv a n b H E), (contents_lvl s lv H), E, map_app. cbn [map].
  rewrite nth_error_app2 by (rewrite map_length; lia). rewrite map_length.
  replace (S i - length a) with 1 by lia. cbn [nth_error].
  destruct b as [|z b']; [reflexivity|]. cbn [hd map nth_error]. unfold entry_of.
  assert (Hz : In z (lvl lv 0)) by (rewrite E; apply in_or_app; right; right; left; reflexivity).
  pose proof (i_range _ _ H 0 z Hz). destruct (Nat.eqb_spec z 0); [lia|reflexivity].
Qed.

Theorem prev_spec : forall s lv i n, inv s lv -> nth_error (lvl lv 0) i = Some n ->
  option_map (entry_of s) (it_prev s n) =
  Some (match i with O => None | S j => nth_error (contents s) j end).
Proof.
  intros s lv i n H Hn. destruct (nth_error_split _ _ Hn) as [a [b [E Hlen]]].
  rewrite (prev_of_split s lv a n b H E). cbn [option_map]. f_equal.
  rewrite (last_entry s lv 0 a H).
  2:{ intros y Hy. rewrite E. apply in_or_app. left. exact Hy. }
  rewrite (contents_lvl s lv H), E, map_app.
  destruct a as [|z a'] eqn:Ea; [cbn in Hlen; subst i; reflexivity|]. rewrite <- Ea in *.
  assert (Hne : a <> []) by (rewrite Ea; discriminate).
  destruct (exists_last Hne) as [a0 [w Ew]]. rewrite Ew in *. rewrite last_app_gen. cbn [last].
  rewrite app_length in Hlen. cbn in Hlen. destruct i as [|j]; [lia|].
  rewrite nth_error_app1 by (rewrite map_length, app_length; cbn; lia).
  rewrite map_app. rewrite nth_error_app2 by (rewrite map_length; lia). rewrite map_length.
  replace (j - length a0) with 0 by lia. reflexivity.
Qed.

Lemma iter_fwd_linked : forall s b n fuel, linked s 0 n b -> n <> 0 -> length b < fuel ->
  (forall y, In y b -> y <> 0) ->
  iter_fwd fuel s n = map (kv s) (n :: b).
Proof.
  intros s b. induction b as [|z b IH]; intros n fuel Hl Hn Hf Hnz; cbn [linked] in Hl.
  - destruct fuel; [lia|]. cbn [Skiplist.iter_fwd]. destruct (Nat.eqb_spec n 0); [contradiction|].
    unfold Skiplist.it_next. rewrite Hl. destruct fuel; reflexivity.
  - destruct Hl as [H1 [H2 H3]]. destruct fuel; [lia|]. cbn [Skiplist.iter_fwd].
    destruct (Nat.eqb_spec n 0); [contradiction|]. unfold Skiplist.it_next. rewrite H1.
    cbn [map]. f_equal. apply IH; [exact H3|exact H2|cbn in Hf; lia|]. intros y Hy. apply Hnz. right. exact Hy.
Qed.

(* SeekToFirst + Next until invalid visits exactly the sorted content *)
Theorem iter_fwd_spec : forall s lv, inv s lv ->
  iter_fwd (S (length (contents s))) s (it_seek_to_first s) = contents s.
Proof.
  intros s lv H. rewrite (contents_lvl s lv H), map_length. unfold Skiplist.it_seek_to_first.
  pose proof (i_link _ _ H 0 ltac:(unfold max_height; lia)) as Hl. rewrite (linked_hd _ _ _ _ Hl).
  destruct (lvl lv 0) as [|y r] eqn:E; [reflexivity|]. cbn [hd]. cbn [linked] in Hl. destruct Hl as [_ [Hy Hlr]].
  apply iter_fwd_linked; [exact Hlr|exact Hy|cbn; lia|].
  intros z Hz. assert (Hin : In z (lvl lv 0)) by (rewrite E; right; exact Hz).
  pose proof (i_range _ _ H 0 z Hin). lia.
Qed.

Lemma iter_bwd_split : forall s lv, inv s lv -> forall a n b fuel, lvl lv 0 = a ++ n :: b -> length a < fuel ->
  iter_bwd fuel s n = Some (rev (map (kv s) (a ++ [n]))).
Proof.
  intros s lv H a. induction a as [|w a IH] using rev_ind; intros n b fuel E Hf.
  - destruct fuel; [lia|]. cbn [Skiplist.iter_bwd].
    assert (Hn : In n (lvl lv 0)) by (rewrite E; left; reflexivity).
    pose proof (i_range _ _ H 0 n Hn). destruct (Nat.eqb_spec n 0); [lia|].
    rewrite (prev_of_split s lv [] n b H E). cbn [last]. destruct fuel; reflexivity.
  - destruct fuel; [lia|]. cbn [Skiplist.iter_bwd].
    assert (Hn : In n (lvl lv 0)) by (rewrite E; apply in_or_app; right; left; reflexivity).
    pose proof (i_range _ _ H 0 n Hn). destruct (Nat.eqb_spec n 0); [lia|].
    rewrite (prev_of_split s lv (a ++ [w]) n b H E). rewrite last_app_gen. cbn [last].
    rewrite (IH w (n :: b) fuel).
    + cbn [option_map]. rewrite !map_app, !rev_app_distr. cbn [map rev app]. reflexivity.
    + rewrite E, <- app_assoc. reflexivity.
    + rewrite app_length in Hf. cbn in Hf. lia.
Qed.

(* SeekToLast + Prev until invalid visits the sorted content backwards *)
Theorem iter_bwd_spec : forall s lv, inv s lv ->
  match it_seek_to_last s with
  | Some n => iter_bwd (S (length (contents s))) s n = Some (rev (contents s))
  | None => False
  end.
Proof.
  intros s lv H. unfold Skiplist.it_seek_to_last. rewrite (find_last_spec s lv H).
  rewrite (contents_lvl s lv H), map_length.
  destruct (lvl lv 0) as [|z L] eqn:E; [reflexivity|].
  assert (Hne : z :: L <> []) by discriminate.
  destruct (exists_last Hne) as [a [w Ew]]. rewrite Ew. rewrite last_app_gen. cbn [last].
  apply (iter_bwd_split s lv H a w []); [rewrite E, Ew; reflexivity|rewrite app_length; cbn; lia].
Qed.

(* ---------- everything together, for any sequence of puts on the empty list ---------- *)
Theorem seq_all : forall ps, puts_ok ps ->
  exists s lv, put_all ps sl_new = Some s /\ inv s lv /\ contents s = sm_of_puts ps [].
Proof.
  intros ps Hok. destruct (put_all_spec ps sl_new _ inv_new Hok) as [s [lv [Hp [H Hc]]]].
  exists s, lv. rewrite Hc, contents_new. auto.
Qed.


(* ---------- packaged statements (no level lists mentioned) ---------- *)
Lemma seq_inv : forall ps s, puts_ok ps -> put_all ps sl_new = Some s ->
  exists lv, inv s lv /\ contents s = sm_of_puts ps [].
Proof.
  intros ps s Hok Hp. destruct (seq_all ps Hok) as [s0 [lv [Hp0 [H Hc]]]].
  rewrite Hp in Hp0. inversion Hp0. subst s0. exists lv. auto.
Qed.

Theorem G_total : forall ps, puts_ok ps -> exists s, put_all ps sl_new = Some s.
Proof. intros ps Hok. destruct (seq_all ps Hok) as [s [lv [Hp _]]]. exists s. exact Hp. Qed.

Theorem G_contents : forall ps s, puts_ok ps -> put_all ps sl_new = Some s ->
  contents s = sm_of_puts ps [] /\ keys_increasing (contents s).
Proof.
  intros ps s Hok Hp. destruct (seq_inv ps s Hok Hp) as [lv [H Hc]].
  split; [exact Hc|apply (contents_sorted s lv H)].
Qed.

Theorem G_levels : forall ps s, puts_ok ps -> put_all ps sl_new = Some s ->
  forall l, S l < max_height ->
  keys_sorted s (level_nodes s l) /\ sublist (level_nodes s (S l)) (level_nodes s l).
Proof.
  intros ps s Hok Hp l Hl. destruct (seq_inv ps s Hok Hp) as [lv [H _]].
  rewrite (level_nodes_lvl s lv l H) by lia. rewrite (level_nodes_lvl s lv (S l) H) by lia.
  split; [apply (i_sorted _ _ H)|apply (inv_levels_sublist s lv H)].
Qed.

Theorem G_get : forall ps s key, puts_ok ps -> put_all ps sl_new = Some s -> wfk key ->
  get s key = Some (sm_get key (sm_of_puts ps [])).
Proof.
  intros ps s key Hok Hp Hk. destruct (seq_inv ps s Hok Hp) as [lv [H Hc]].
  rewrite <- Hc. apply (get_spec s lv key H Hk).
Qed.

Theorem G_find_near : forall ps s key, puts_ok ps -> put_all ps sl_new = Some s -> wfk key ->
  let m := sm_of_puts ps [] in
  option_map (fun r => it_entry s (fst r)) (find_near s key false true) = Some (sm_ge key m) /\
  option_map (fun r => it_entry s (fst r)) (find_near s key false false) = Some (sm_gt key m) /\
  option_map (fun r => it_entry s (fst r)) (find_near s key true true) = Some (sm_le key m) /\
  option_map (fun r => it_entry s (fst r)) (find_near s key true false) = Some (sm_lt key m).
Proof.
  intros ps s key Hok Hp Hk m. destruct (seq_inv ps s Hok Hp) as [lv [H Hc]].
  unfold m. rewrite <- Hc. apply (find_near_map s lv key H Hk).
Qed.

Theorem G_seek : forall ps s key, puts_ok ps -> put_all ps sl_new = Some s -> wfk key ->
  option_map (it_entry s) (it_seek s key) = Some (sm_ge key (sm_of_puts ps [])) /\
  option_map (it_entry s) (it_seek_for_prev s key) = Some (sm_le key (sm_of_puts ps [])).
Proof.
  intros ps s key Hok Hp Hk. destruct (G_find_near ps s key Hok Hp Hk) as [A [_ [B _]]].
  unfold Skiplist.it_seek, Skiplist.it_seek_for_prev.
  destruct (find_near s key false true); destruct (find_near s key true true); cbn in *; auto; try discriminate.
Qed.

Theorem G_first_last : forall ps s, puts_ok ps -> put_all ps sl_new = Some s ->
  it_entry s (it_seek_to_first s) = hd_error (sm_of_puts ps []) /\
  option_map (it_entry s) (it_seek_to_last s) = Some (hd_error (rev (sm_of_puts ps []))).
Proof.
  intros ps s Hok Hp. destruct (seq_inv ps s Hok Hp) as [lv [H Hc]]. rewrite <- Hc.
  split; [apply (first_spec s lv H)|apply (last_spec s lv H)].
Qed.

(* the iterator standing on the i-th entry: Next goes to entry i+1, Prev to entry i-1 *)
Theorem G_next_prev : forall ps s i n, puts_ok ps -> put_all ps sl_new = Some s ->
  nth_error (level_nodes s 0) i = Some n ->
  it_entry s n = nth_error (sm_of_puts ps []) i /\
  it_entry s (it_next s n) = nth_error (sm_of_puts ps []) (S i) /\
  option_map (it_entry s) (it_prev s n) =
    Some (match i with O => None | S j => nth_error (sm_of_puts ps []) j end).
Proof.
  intros ps s i n Hok Hp Hn. destruct (seq_inv ps s Hok Hp) as [lv [H Hc]]. rewrite <- Hc.
  rewrite (level_nodes_lvl s lv 0 H) in Hn by (unfold max_height; lia).
  split; [|split; [apply (next_spec s lv i n H Hn)|apply (prev_spec s lv i n H Hn)]].
  rewrite (contents_lvl s lv H). rewrite nth_error_map, Hn. cbn [option_map].
  assert (Hin : In n (lvl lv 0)) by (apply (nth_error_In _ _ Hn)).
  pose proof (i_range _ _ H 0 n Hin). unfold Skiplist.it_entry. destruct (Nat.eqb_spec n 0); [lia|reflexivity].
Qed.

Theorem G_iterate : forall ps s, puts_ok ps -> put_all ps sl_new = Some s ->
  let m := sm_of_puts ps [] in
  iter_fwd (S (length m)) s (it_seek_to_first s) = m /\
  exists n, it_seek_to_last s = Some n /\ iter_bwd (S (length m)) s n = Some (rev m).
Proof.
  intros ps s Hok Hp m. destruct (seq_inv ps s Hok Hp) as [lv [H Hc]]. unfold m. rewrite <- Hc.
  split; [apply (iter_fwd_spec s lv H)|]. pose proof (iter_bwd_spec s lv H) as Hb.
  destruct (it_seek_to_last s) as [n|]; [exists n; auto|destruct Hb].
Qed.


(* ================= concurrency: Put's writes as atomic actions ================= *)
Notation caction := (caction K V).
Notation capply := (capply K V dk dv).
Notation cguard := (cguard K V cmp dk dv wfk).
Notation cexec := (cexec K V cmp dk dv wfk).
Notation cabs := (cabs K V cmp dk dv).
Notation linked_at := (linked_at K V dk dv).

Lemma inv_set_height : forall s lv hn, inv s lv -> height _ _ s <= hn <= max_height ->
  inv (mkSkl _ _ (nodes _ _ s) hn) lv.
Proof.
  intros s lv hn H Hh. constructor.
  - apply (i_len _ _ H).
  - intros l Hl. apply (linked_ext s _ l); [|apply (i_link _ _ H l Hl)]. intros; reflexivity.
  - intros l. apply (sorted_ext s); [|apply (i_sorted _ _ H)]. intros; reflexivity.
  - apply (i_incl _ _ H).
  - intros l Hl. cbn [height] in Hl. apply (i_empty _ _ H). lia.
  - intros l y Hy. apply (i_range _ _ H l y Hy).
  - apply (i_head _ _ H).
  - cbn [height]. pose proof (i_height _ _ H). lia.
  - intros y Hy. apply (i_wfk _ _ H y Hy).
Qed.

(* a store into the tower of a node on a level where it is not linked is invisible *)
Lemma inv_store_private : forall s lv x i n, inv s lv -> 2 <= x -> ~ In x (lvl lv i) ->
  inv (set_tower x i n s) lv.
Proof.
  intros s lv x i n H Hx Hni. constructor.
  - apply (i_len _ _ H).
  - intros l Hl. apply (linked_ext s _ l); [|apply (i_link _ _ H l Hl)].
    intros y Hy. destruct (Nat.eq_dec l i) as [->|Hne].
    + apply gn_set_other. left. intro Heq. subst y. destruct Hy as [Hy|Hy]; [unfold head in Hy; lia|contradiction].
    + apply gn_set_other. right. exact Hne.
  - intros l. apply (sorted_ext s); [|apply (i_sorted _ _ H)]. intros. apply kof_set_tower.
  - apply (i_incl _ _ H).
  - apply (i_empty _ _ H).
  - intros l y Hy. rewrite set_tower_nodes_length, tower_len_set_tower. apply (i_range _ _ H l y Hy).
  - rewrite set_tower_nodes_length, tower_len_set_tower. apply (i_head _ _ H).
  - apply (i_height _ _ H).
  - intros y Hy. rewrite kof_set_tower. apply (i_wfk _ _ H y Hy).
Qed.

Lemma upd_nth_same_val : forall {A} (l : list A) n d, n < length l -> upd_nth n (nth n l d) l = l.
Proof.
  induction l as [|a l IH]; intros [|n] d H; cbn in *; try lia; [reflexivity|]. f_equal. apply IH. lia.
Qed.

Lemma set_tower_id : forall s x i, x < length (nodes _ _ s) -> i < length (n_tower _ _ (node_at s x)) ->
  set_tower x i (get_next s x i) s = s.
Proof.
  intros s x i Hx Hi. unfold Skiplist.set_tower, Skiplist.get_next.
  rewrite (upd_nth_same_val (n_tower _ _ (node_at s x)) i 0 Hi).
  assert (E : mkNode K V (n_key _ _ (node_at s x)) (n_val _ _ (node_at s x)) (n_tower _ _ (node_at s x)) = node_at s x)
    by (destruct (node_at s x); reflexivity).
  rewrite E. unfold Skiplist.node_at. rewrite (upd_nth_same_val (nodes _ _ s) x dnode Hx).
  destruct s; reflexivity.
Qed.

(* reading a pointer of a linked node yields a linked node with a larger key (or nil) *)
Lemma read_next_linked : forall s lv i p, inv s lv -> i < max_height ->
  (p = head \/ In p (lvl lv i)) ->
  exists a b, lvl lv i = a ++ b /\ p = last a head /\ get_next s p i = hd 0 b.
Proof.
  intros s lv i p H Hi Hp. pose proof (i_link _ _ H i Hi) as Hl.
  destruct Hp as [->|Hin].
  - exists [], (lvl lv i). split; [reflexivity|]. split; [reflexivity|]. apply (linked_hd _ _ _ _ Hl).
  - destruct (in_split _ _ Hin) as [a0 [b0 E]]. exists (a0 ++ [p]), b0.
    split; [rewrite E, <- app_assoc; reflexivity|]. split; [rewrite last_app_gen; reflexivity|].
    rewrite E in Hl. replace (a0 ++ p :: b0) with ((a0 ++ [p]) ++ b0) in Hl by (rewrite <- app_assoc; reflexivity).
    apply linked_app in Hl. destruct Hl as [_ Hl2]. rewrite last_app_gen in Hl2. cbn [last] in Hl2.
    apply (linked_hd _ _ _ _ Hl2).
Qed.

(* the facts a thread holds when its CAS succeeds pin down the splice *)
Lemma splice_from_guard : forall s lv key i p n, inv s lv -> wfk key -> i < max_height ->
  (p = head \/ In p (lvl lv i)) -> (p = head \/ cmp key (kof s p) = Gt) ->
  (n = 0 \/ cmp key (kof s n) = Lt) -> get_next s p i = n ->
  splice_ok s key (lvl lv i) p n.
Proof.
  intros s lv key i p n H Hk Hi Hp Hkp Hkn Hgn.
  destruct (read_next_linked s lv i p H Hi Hp) as [a [b [E [Hpa Hnb]]]].
  exists a, b. split; [exact E|]. split; [exact Hpa|]. split; [rewrite <- Hnb; symmetry; exact Hgn|].
  assert (Hnh : ~ In head (lvl lv i)) by apply (inv_not_head s lv H).
  split.
  - intros y Hy. destruct a as [|a1 a']; [destruct Hy|].
    assert (Hpin : In p (a1 :: a')) by (rewrite Hpa; apply last_in; discriminate).
    assert (Hpne : p <> head).
    { intro Hc. apply Hnh. rewrite E. apply in_or_app. left. rewrite <- Hc. exact Hpin. }
    destruct Hkp as [Hc|Hgt]; [contradiction|].
    destruct (Nat.eq_dec y p) as [->|Hne]; [exact Hgt|].
    assert (Hyp : klt s y p).
    { pose proof (i_sorted _ _ H i) as Hs. rewrite E in Hs. apply sorted_app_l in Hs.
      destruct (exists_last (l := a1 :: a') ltac:(discriminate)) as [a0 [w Ew]].
      rewrite Ew in *. rewrite last_app_gen in Hpa. cbn [last] in Hpa. subst w.
      apply in_app_or in Hy. destruct Hy as [Hy|[Hy|[]]]; [|congruence].
      apply (sorted_app_klt s a0 [p] y p Hs Hy). left. reflexivity. }
    apply (gt_trans_klt s key p y Hk); [| |exact Hgt|exact Hyp];
      apply (inv_wfk s lv H i); rewrite E; apply in_or_app; left; assumption.
  - intros y Hy. destruct b as [|b1 b']; [destruct Hy|]. cbn [hd] in Hnb.
    assert (Hb1 : In b1 (lvl lv i)) by (rewrite E; apply in_or_app; right; left; reflexivity).
    pose proof (i_range _ _ H i b1 Hb1) as Hr.
    destruct Hkn as [Hc|Hlt]; [rewrite Hgn in Hnb; lia|]. rewrite <- Hgn, Hnb in Hlt.
    apply (all_lt_after s lv key i a b1 b' H Hk E Hlt y Hy).
Qed.

Lemma contents_set_value : forall s lv q v, inv s lv -> In q (lvl lv 0) ->
  contents (set_value q v s) = sm_put (kof s q) v (contents s).
Proof.
  intros s lv q v H Hin.
  rewrite (contents_lvl _ lv (inv_set_value s lv q v H)), (contents_lvl s lv H).
  destruct (in_split _ _ Hin) as [a [b E]]. rewrite E.
  pose proof (i_range _ _ H 0 q Hin) as Hrq.
  assert (Hkq : wfk (kof s q)) by (apply (i_wfk _ _ H); exact Hin).
  assert (Hnd : NoDup (a ++ q :: b)) by (rewrite <- E; apply (inv_nodup s lv H)).
  rewrite (sm_put_replace s (kof s q) v a q b).
  - rewrite map_app. cbn [map]. f_equal; [|f_equal].
    + apply map_ext_in. intros y Hy. unfold kv. rewrite kof_set_value, vof_set_value by lia.
      destruct (Nat.eqb_spec y q) as [->|Hne]; [|reflexivity].
      exfalso. apply NoDup_remove_2 in Hnd. apply Hnd. apply in_or_app. left. exact Hy.
    + unfold kv. rewrite kof_set_value, vof_set_value by lia. rewrite Nat.eqb_refl. reflexivity.
    + apply map_ext_in. intros y Hy. unfold kv. rewrite kof_set_value, vof_set_value by lia.
      destruct (Nat.eqb_spec y q) as [->|Hne]; [|reflexivity].
      exfalso. apply NoDup_remove_2 in Hnd. apply Hnd. apply in_or_app. right. exact Hy.
  - intros y Hy. apply cmp_lt_gt; [apply (i_wfk _ _ H); rewrite E; apply in_or_app; left; exact Hy|exact Hkq|].
    pose proof (i_sorted _ _ H 0) as Hs. rewrite E in Hs.
    apply (sorted_app_klt s a (q :: b) y q Hs Hy). left. reflexivity.
  - apply cmp_refl. exact Hkq.
Qed.

(* one action: the invariant is kept, and the content changes only at a successful level-0 CAS
   (by the put of the new node's key and value) and at a value store *)
Theorem cstep_inv : forall s lv a, inv s lv -> cguard a s ->
  exists lv', inv (capply a s) lv' /\ contents (capply a s) = cabs a s (contents s).
Proof.
  intros s lv a H G. destruct a as [k v h|hn|x i n|p i n x|q v]; cbn [Skiplist.capply Skiplist.cabs Skiplist.cguard] in *.
  - (* alloc *)
    destruct G as [Hk Hh]. pose proof (i_height _ _ H) as Hht.
    pose proof (inv_with_node s lv (mkNode K V k v (repeat 0 h)) (height _ _ s) H ltac:(lia)) as H1.
    change (mkSkl K V (nodes _ _ s ++ [mkNode K V k v (repeat 0 h)]) (height _ _ s))
      with (with_node s (mkNode K V k v (repeat 0 h)) (height _ _ s)).
    exists lv. split; [exact H1|].
    rewrite (contents_lvl _ lv H1), (contents_lvl s lv H). apply map_ext_in. intros y Hy.
    unfold kv, Skiplist.kof, Skiplist.vof.
    rewrite node_at_with_node_old; [reflexivity|]. pose proof (i_range _ _ H 0 y Hy). lia.
  - (* height *)
    pose proof (inv_set_height s lv hn H ltac:(lia)) as H1.
    exists lv. split; [exact H1|].
    rewrite (contents_lvl _ lv H1), (contents_lvl s lv H). reflexivity.
  - (* private store *)
    destruct G as [Hx Hni].
    assert (Hni' : ~ In x (lvl lv i)).
    { destruct (Nat.lt_ge_cases i max_height) as [Hi|Hi].
      - rewrite <- (level_nodes_lvl s lv i H Hi). exact Hni.
      - rewrite lvl_oob by (rewrite (i_len _ _ H); exact Hi). intros []. }
    pose proof (inv_store_private s lv x i n H ltac:(lia) Hni') as H1. exists lv. split; [exact H1|].
    rewrite (contents_lvl _ lv H1), (contents_lvl s lv H). apply map_ext_in. intros y Hy.
    unfold kv. rewrite kof_set_tower, vof_set_tower. reflexivity.
  - (* CAS *)
    destruct G as [Hx [Hti [Hih [Hkx [Hp [Hkp [Hkn [Hgx [Hni Hbelow]]]]]]]]].
    pose proof (i_height _ _ H) as Hht. assert (Hi : i < max_height) by lia.
    destruct (Nat.eqb_spec (get_next s p i) n) as [Hcas|Hfail].
    2:{ exists lv. split; [exact H|]. apply Nat.eqb_neq in Hfail. destruct i; [rewrite Hfail|]; reflexivity. }
    rewrite (level_nodes_lvl s lv i H Hi) in Hni.
    assert (Hp' : p = head \/ In p (lvl lv i)).
    { destruct Hp as [Hp|Hp]; [left; exact Hp|right]. rewrite <- (level_nodes_lvl s lv i H Hi). exact Hp. }
    pose proof (splice_from_guard s lv (kof s x) i p n H Hkx Hi Hp' Hkp Hkn Hcas) as Hok.
    assert (Hfresh : forall j, i <= j -> ~ In x (lvl lv j)).
    { intros j Hj Hc. apply Hni. apply (inv_incl_down s lv H i j Hj). exact Hc. }
    assert (Hbelow' : 0 < i -> In x (lvl lv (i - 1))).
    { intros Hpos. rewrite <- (level_nodes_lvl s lv (i - 1) H) by lia. apply Hbelow. exact Hpos. }
    destruct (link_one s lv (kof s x) x i p n H Hkx eq_refl Hx Hti Hih Hfresh Hbelow' Hok)
      as [_ [a [b [E [Ha [Hb Hinv2]]]]]].
    rewrite <- Hgx in Hinv2 at 1. rewrite set_tower_id in Hinv2 by lia.
    exists (upd_nth i (a ++ x :: b) lv). split; [exact Hinv2|].
    rewrite (contents_lvl _ _ Hinv2), (contents_lvl s lv H).
    assert (Hili : i < length lv) by (rewrite (i_len _ _ H); exact Hi).
    assert (Hkv : forall y, kv (set_tower p i x s) y = kv s y).
    { intros y. unfold kv. rewrite kof_set_tower, vof_set_tower. reflexivity. }
    destruct i as [|i'].
    + rewrite lvl_upd_same by exact Hili. rewrite Hcas, Nat.eqb_refl. rewrite E.
      rewrite (sm_put_split s (kof s x) (vof s x) a b Ha Hb). rewrite map_app. cbn [map].
      rewrite Hkv. f_equal; [apply map_ext; exact Hkv|]. f_equal. apply map_ext. exact Hkv.
    + rewrite lvl_upd_other by lia. apply map_ext. exact Hkv.
  - (* value store *)
    rewrite (level_nodes_lvl s lv 0 H) in G by (unfold max_height; lia).
    exists lv. split; [apply inv_set_value; exact H|]. apply (contents_set_value s lv q v H G).
Qed.

(* every state of every concurrent execution satisfies the structural invariant *)
Theorem cexec_inv : forall tr s, cexec sl_new tr s -> exists lv, inv s lv.
Proof.
  intros tr s Hex. remember sl_new as s0 eqn:E0. induction Hex as [s|s tr s' a Hex IH G].
  - subst. exists (repeat [] max_height). apply inv_new.
  - destruct (IH E0) as [lv H]. destruct (cstep_inv s' lv a H G) as [lv' [H' _]]. exists lv'. exact H'.
Qed.

Theorem cexec_linearization : forall tr s a, cexec sl_new tr s -> cguard a s ->
  contents (capply a s) = cabs a s (contents s).
Proof.
  intros tr s a Hex G. destruct (cexec_inv tr s Hex) as [lv H].
  destruct (cstep_inv s lv a H G) as [_ [_ Hc]]. exact Hc.
Qed.

Theorem cexec_structure : forall tr s, cexec sl_new tr s ->
  keys_increasing (contents s) /\
  forall l, S l < max_height ->
    keys_sorted s (level_nodes s l) /\ sublist (level_nodes s (S l)) (level_nodes s l).
Proof.
  intros tr s Hex. destruct (cexec_inv tr s Hex) as [lv H]. split; [apply (contents_sorted s lv H)|].
  intros l Hl. rewrite (level_nodes_lvl s lv l H) by lia. rewrite (level_nodes_lvl s lv (S l) H) by lia.
  split; [apply (i_sorted _ _ H)|apply (inv_levels_sublist s lv H)].
Qed.

(* stability of what a traversal has learnt: keys and tower sizes never change, a linked node
   stays linked, the height only grows *)
Theorem stable_step : forall s lv a, inv s lv -> cguard a s ->
  (forall y, y < length (nodes _ _ s) ->
     kof (capply a s) y = kof s y /\
     length (n_tower _ _ (node_at (capply a s) y)) = length (n_tower _ _ (node_at s y))) /\
  length (nodes _ _ s) <= length (nodes _ _ (capply a s)) /\
  height _ _ s <= height _ _ (capply a s) /\
  (forall i y, i < max_height -> In y (level_nodes s i) -> In y (level_nodes (capply a s) i)).
Proof.
  intros s lv a H G. destruct (cstep_inv s lv a H G) as [lv' [H' _]].
  assert (Hlv : forall i y, i < max_height -> In y (lvl lv i) -> In y (lvl lv' i) ->
                In y (level_nodes s i) -> In y (level_nodes (capply a s) i)).
  { intros i y Hi _ Hy' _. rewrite (level_nodes_lvl _ lv' i H' Hi). exact Hy'. }
  destruct a as [k v h|hn|x i n|p i n x|q v]; cbn [Skiplist.capply Skiplist.cguard] in *.
  - split; [|split; [cbn [nodes]; rewrite app_length; cbn; lia|split; [cbn; lia|]]].
    + intros y Hy. unfold Skiplist.kof.
      change (mkSkl K V (nodes _ _ s ++ [mkNode K V k v (repeat 0 h)]) (height _ _ s))
        with (with_node s (mkNode K V k v (repeat 0 h)) (height _ _ s)).
      rewrite node_at_with_node_old by exact Hy. auto.
    + intros i y Hi Hy. pose proof (i_height _ _ H) as Hht. destruct G as [Hk Hh].
      pose proof (inv_with_node s lv (mkNode K V k v (repeat 0 h)) (height _ _ s) H ltac:(lia)) as H1.
      change (mkSkl K V (nodes _ _ s ++ [mkNode K V k v (repeat 0 h)]) (height _ _ s))
        with (with_node s (mkNode K V k v (repeat 0 h)) (height _ _ s)).
      rewrite (level_nodes_lvl _ lv i H1 Hi). rewrite <- (level_nodes_lvl s lv i H Hi). exact Hy.
  - split; [intros; auto|split; [cbn; lia|split; [cbn; lia|]]].
    intros i y Hi Hy. rewrite (level_nodes_lvl _ lv i (inv_set_height s lv hn H ltac:(lia)) Hi).
    rewrite <- (level_nodes_lvl s lv i H Hi). exact Hy.
  - split; [|split; [rewrite set_tower_nodes_length; lia|split; [cbn; lia|]]].
    + intros y Hy. rewrite kof_set_tower, tower_len_set_tower. auto.
    + intros j y Hj Hy. destruct G as [Hx Hni].
      assert (Hni' : ~ In x (lvl lv i)).
      { destruct (Nat.lt_ge_cases i max_height) as [Hi|Hi].
        - rewrite <- (level_nodes_lvl s lv i H Hi). exact Hni.
        - rewrite lvl_oob by (rewrite (i_len _ _ H); exact Hi). intros []. }
      rewrite (level_nodes_lvl _ lv j (inv_store_private s lv x i n H ltac:(lia) Hni') Hj).
      rewrite <- (level_nodes_lvl s lv j H Hj). exact Hy.
  - destruct (get_next s p i =? n) eqn:Ecas.
    2:{ split; [intros; auto|split; [lia|split; [lia|intros; assumption]]]. }
    split; [|split; [rewrite set_tower_nodes_length; lia|split; [cbn; lia|]]].
    + intros y Hy. rewrite kof_set_tower, tower_len_set_tower. auto.
    + intros j y Hj Hy.
      (* the new level lists contain the old ones: redo the case analysis of cstep_inv *)
      destruct G as [Hx [Hti [Hih [Hkx [Hp [Hkp [Hkn [Hgx [Hni Hbelow]]]]]]]]].
      pose proof (i_height _ _ H) as Hht. assert (Hi : i < max_height) by lia.
      apply Nat.eqb_eq in Ecas.
      rewrite (level_nodes_lvl s lv i H Hi) in Hni.
      assert (Hp' : p = head \/ In p (lvl lv i)).
      { destruct Hp as [Hp|Hp]; [left; exact Hp|right]. rewrite <- (level_nodes_lvl s lv i H Hi). exact Hp. }
      pose proof (splice_from_guard s lv (kof s x) i p n H Hkx Hi Hp' Hkp Hkn Ecas) as Hok.
      assert (Hfresh : forall j, i <= j -> ~ In x (lvl lv j)).
      { intros j' Hj' Hc. apply Hni. apply (inv_incl_down s lv H i j' Hj'). exact Hc. }
      assert (Hbelow' : 0 < i -> In x (lvl lv (i - 1))).
      { intros Hpos. rewrite <- (level_nodes_lvl s lv (i - 1) H) by lia. apply Hbelow. exact Hpos. }
      destruct (link_one s lv (kof s x) x i p n H Hkx eq_refl Hx Hti Hih Hfresh Hbelow' Hok)
        as [_ [a [b [E [Ha [Hb Hinv2]]]]]].
      rewrite <- Hgx in Hinv2 at 1. rewrite set_tower_id in Hinv2 by lia.
      rewrite (level_nodes_lvl _ _ j Hinv2 Hj). rewrite (level_nodes_lvl s lv j H Hj) in Hy.
      assert (Hili : i < length lv) by (rewrite (i_len _ _ H); exact Hi).
      destruct (Nat.eq_dec j i) as [->|Hne].
      * rewrite lvl_upd_same by exact Hili. rewrite E in Hy. apply in_app_or in Hy. apply in_or_app.
        destruct Hy as [Hy|Hy]; [left; exact Hy|right; right; exact Hy].
      * rewrite lvl_upd_other by exact Hne. exact Hy.
  - split; [|split; [unfold Skiplist.set_value; cbn [nodes]; rewrite upd_nth_length; lia|split; [cbn; lia|]]].
    + intros y Hy. rewrite kof_set_value, tower_len_set_value. auto.
    + intros j y Hj Hy. rewrite (level_nodes_lvl _ lv j (inv_set_value s lv q v H) Hj).
      rewrite <- (level_nodes_lvl s lv j H Hj). exact Hy.
Qed.

(* what one load of a traversal tells: the successor of a linked node is nil or a linked node
   with a strictly larger key *)
Theorem read_next_spec : forall s lv i p n, inv s lv -> i < max_height ->
  linked_at s i p -> get_next s p i = n -> n <> 0 ->
  In n (level_nodes s i) /\ (p = head \/ klt s p n).
Proof.
  intros s lv i p n H Hi Hp Hgn Hn.
  assert (Hp' : p = head \/ In p (lvl lv i)).
  { destruct Hp as [Hp|Hp]; [left; exact Hp|right]. rewrite <- (level_nodes_lvl s lv i H Hi). exact Hp. }
  destruct (read_next_linked s lv i p H Hi Hp') as [a [b [E [Hpa Hnb]]]].
  rewrite (level_nodes_lvl s lv i H Hi). rewrite Hgn in Hnb.
  destruct b as [|b1 b']; [cbn in Hnb; contradiction|]. cbn [hd] in Hnb. subst b1.
  split; [rewrite E; apply in_or_app; right; left; reflexivity|].
  destruct a as [|a1 a']; [left; exact Hpa|right].
  pose proof (i_sorted _ _ H i) as Hs. rewrite E in Hs.
  apply (sorted_app_klt s (a1 :: a') (n :: b') p n Hs); [rewrite Hpa; apply last_in; discriminate|left; reflexivity].
Qed.


(* ---------- a reader running concurrently with any number of Puts ---------- *)
Lemma cexec_inv_from : forall s tr s', cexec s tr s' -> forall lv, inv s lv -> exists lv', inv s' lv'.
Proof.
  intros s tr s' Hex. induction Hex as [s|s tr s' a Hex IH G]; intros lv H; [exists lv; exact H|].
  destruct (IH lv H) as [lv1 H1]. destruct (cstep_inv s' lv1 a H1 G) as [lv' [H' _]]. exists lv'. exact H'.
Qed.

Lemma stable_multi : forall s tr s', cexec s tr s' -> forall lv, inv s lv ->
  (forall y, y < length (nodes _ _ s) -> kof s' y = kof s y) /\
  length (nodes _ _ s) <= length (nodes _ _ s') /\
  (forall i y, i < max_height -> In y (level_nodes s i) -> In y (level_nodes s' i)).
Proof.
  intros s tr s' Hex. induction Hex as [s|s tr s' a Hex IH G]; intros lv H.
  - repeat split; auto.
  - destruct (IH lv H) as [A [B C]]. destruct (cexec_inv_from s tr s' Hex lv H) as [lv1 H1].
    destruct (stable_step s' lv1 a H1 G) as [A' [B' [_ C']]].
    split; [|split; [lia|]].
    + intros y Hy. destruct (A' y ltac:(lia)) as [E _]. rewrite E. apply A. exact Hy.
    + intros i y Hi Hy. apply C'; [exact Hi|]. apply C; assumption.
Qed.

Notation reader_fwd := (reader_fwd K V cmp dk dv wfk).

(* every node the reader visits is linked, and the keys it sees are strictly increasing:
   never unsorted, never a duplicate (keys and values of nodes are immutable / atomic) *)
Theorem reader_fwd_sorted : forall s p ns s2, reader_fwd s p ns s2 ->
  forall lv, inv s lv -> linked_at s 0 p ->
  (forall n, In n ns -> In n (level_nodes s2 0)) /\
  StronglySorted (fun a b => cmp (kof s2 a) (kof s2 b) = Lt) ns /\
  (p <> head -> forall n, In n ns -> cmp (kof s2 p) (kof s2 n) = Lt).
Proof.
  intros s p ns s2 Hr. induction Hr as [s p|s p tr s1 n rest s2 Hex Hgn Hn Hr IH]; intros lv H Hp.
  - split; [intros n []|]. split; [constructor|intros _ n []].
  - destruct (cexec_inv_from s tr s1 Hex lv H) as [lv1 H1].
    destruct (stable_multi s tr s1 Hex lv H) as [_ [_ Hlk]].
    assert (Hp1 : linked_at s1 0 p).
    { destruct Hp as [Hp|Hp]; [left; exact Hp|right; apply Hlk; [unfold max_height; lia|exact Hp]]. }
    destruct (read_next_spec s1 lv1 0 p n H1 ltac:(unfold max_height; lia) Hp1 Hgn Hn) as [Hin Hord].
    destruct (IH lv1 H1 (or_intror Hin)) as [IH1 [IH2 IH3]].
    (* from s1 to s2: keys of existing nodes and linkedness are kept *)
    assert (Hrest : exists tr', cexec s1 tr' s2).
    { clear - Hr. induction Hr as [s p|s p tr s1 n rest s2 Hex _ _ _ IH]; [exists []; constructor|].
      destruct IH as [tr' Hex']. exists (tr ++ tr'). clear - Hex Hex'.
      induction Hex' as [s1|s1 tr' s' a Hex' IH G]; [rewrite app_nil_r; exact Hex|].
      rewrite app_assoc. constructor; [apply IH; exact Hex|exact G]. }
    destruct Hrest as [tr' Hex'].
    destruct (stable_multi s1 tr' s2 Hex' lv1 H1) as [Hk2 [_ Hlk2]].
    assert (Hn_lt : n < length (nodes _ _ s1)) by (rewrite (level_nodes_lvl s1 lv1 0 H1) in Hin by (unfold max_height; lia); pose proof (i_range _ _ H1 0 n Hin); lia).
    assert (Hnh : n <> head).
    { rewrite (level_nodes_lvl s1 lv1 0 H1) in Hin by (unfold max_height; lia). pose proof (i_range _ _ H1 0 n Hin). unfold head. lia. }
    split; [|split].
    + intros m [<-|Hm]; [apply Hlk2; [unfold max_height; lia|exact Hin]|apply IH1; exact Hm].
    + constructor; [exact IH2|]. apply Forall_forall. intros m Hm. apply (IH3 Hnh m Hm).
    + intros Hph m [<-|Hm].
      * destruct Hord as [Hc|Hlt]; [contradiction|]. unfold klt in Hlt.
        destruct Hp1 as [Hc|Hp1]; [contradiction|].
        assert (Hp_lt : p < length (nodes _ _ s1)).
        { rewrite (level_nodes_lvl s1 lv1 0 H1) in Hp1 by (unfold max_height; lia). pose proof (i_range _ _ H1 0 p Hp1). lia. }
        rewrite (Hk2 p Hp_lt), (Hk2 n Hn_lt). exact Hlt.
      * (* p < n < m *)
        destruct (cexec_inv_from s1 tr' s2 Hex' lv1 H1) as [lv2 H2].
        destruct Hord as [Hc|Hlt]; [contradiction|]. unfold klt in Hlt.
        destruct Hp1 as [Hc|Hp1]; [contradiction|].
        assert (Hp_lt : p < length (nodes _ _ s1)).
        { rewrite (level_nodes_lvl s1 lv1 0 H1) in Hp1 by (unfold max_height; lia). pose proof (i_range _ _ H1 0 p Hp1). lia. }
        assert (W : forall y, In y (level_nodes s2 0) -> wfk (kof s2 y)).
        { intros y Hy. rewrite (level_nodes_lvl s2 lv2 0 H2) in Hy by (unfold max_height; lia). apply (i_wfk _ _ H2 y Hy). }
        apply (cmp_trans _ (kof s2 n)).
        -- apply W. apply Hlk2; [unfold max_height; lia|exact Hp1].
        -- apply W. apply Hlk2; [unfold max_height; lia|exact Hin].
        -- apply W. apply IH1. exact Hm.
        -- rewrite (Hk2 p Hp_lt), (Hk2 n Hn_lt). exact Hlt.
        -- apply (IH3 Hnh m Hm).
Qed.

End Proofs.
