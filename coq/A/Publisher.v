(* Publisher.v — publisher.go: publishUpdates, newSubscriber, deleteSubscriber; the subscriber
   side of db.go Subscribe (batches are concatenated in channel order).
   Definitions only; proofs in PublisherProofs.v. *)
From Verif Require Import Bytes Keys Trie.
Open Scope N_scope.

(* the fields of an Entry publishUpdates reads: Key (internal key: user key ++ 8 version bytes),
   Value, UserMeta, ExpiresAt *)
Record pentry := mkPE { pe_key : bytes; pe_val : bytes; pe_umeta : N; pe_expires : N }.

(* pb.KV as delivered: Key = y.ParseKey(k), Value, Meta = []byte{UserMeta}, ExpiresAt,
   Version = y.ParseTs(k) *)
Record kv := mkKV { kv_key : bytes; kv_val : bytes; kv_umeta : N; kv_expires : N; kv_version : N }.

Definition kv_of (e : pentry) : kv :=
  mkKV (parse_key (pe_key e)) (pe_val e) (pe_umeta e) (pe_expires e) (parse_ts (pe_key e)).

(* repair flag fix_trie_userkey (finding F13): false = the pinned tree, which queries the trie
   with e.Key (the internal key); true = query with y.ParseKey(e.Key) *)
Definition trie_key (fix_trie_userkey : bool) (e : pentry) : bytes :=
  if fix_trie_userkey then parse_key (pe_key e) else pe_key e.

(* batchedUpdates map[uint64]*pb.KVList *)
Fixpoint batch_add (id : N) (x : kv) (m : list (N * list kv)) : list (N * list kv) :=
  match m with
  | [] => [(id, [x])]
  | (i, l) :: r => if i =? id then (i, l ++ [x]) :: r else (i, l) :: batch_add id x r
  end.

Fixpoint batch_get (id : N) (m : list (N * list kv)) : list kv :=
  match m with
  | [] => []
  | (i, l) :: r => if i =? id then l else batch_get id r
  end.

(* one entry: ids := p.indexer.Get(e.Key); if len(ids) == 0 continue; kv appended for every id *)
Definition publish_entry (fx : bool) (t : node) (m : list (N * list kv)) (e : pentry) : list (N * list kv) :=
  fold_left (fun m id => batch_add id (kv_of e) m) (get (trie_key fx e) t) m.

(* publishUpdates(reqs): requests in order, entries of a request in order *)
Definition publish_updates (fx : bool) (t : node) (reqs : list (list pentry)) : list (N * list kv) :=
  fold_left (publish_entry fx t) (concat reqs) [].

(* publisher state: nextID, subscribers (id, matches), indexer; recv = everything each
   subscriber's channel was sent, concatenated in order (what Subscribe hands to the callback) *)
Definition pmatch := (bytes * list bool)%type.   (* pb.Match{Prefix, IgnoreBytes (parsed)} *)

Record pub := mkPub {
  p_next : N;
  p_subs : list (N * list pmatch);
  p_trie : node;
  p_recv : list (N * list kv)
}.

Definition pub_empty : pub := mkPub 0 [] empty_node [].

(* newSubscriber: id := nextID; nextID++; subscribers[id] = s; AddMatch(m, id) for every match *)
Definition new_subscriber (p : pub) (ms : list pmatch) : pub :=
  let id := p_next p in
  mkPub (id + 1) (p_subs p ++ [(id, ms)])
        (fold_left (fun t m => add_match t (fst m) (snd m) id) ms (p_trie p))
        (p_recv p).

Fixpoint sub_get (id : N) (subs : list (N * list pmatch)) : option (list pmatch) :=
  match subs with
  | [] => None
  | (i, ms) :: r => if i =? id then Some ms else sub_get id r
  end.

Definition sub_remove (id : N) (subs : list (N * list pmatch)) : list (N * list pmatch) :=
  filter (fun s => negb (fst s =? id)) subs.

(* Subscribe's exit path: active := 0, drain, deleteSubscriber(id):
   if s, ok := subscribers[id]; ok { DeleteMatch(m, id) for every match }; delete(subscribers, id) *)
Definition delete_subscriber (p : pub) (id : N) : pub :=
  match sub_get id (p_subs p) with
  | None => p
  | Some ms =>
      mkPub (p_next p) (sub_remove id (p_subs p))
            (fold_left (fun t m => delete_match t (fst m) (snd m) id) ms (p_trie p))
            (p_recv p)
  end.

Fixpoint recv_append (id : N) (l : list kv) (m : list (N * list kv)) : list (N * list kv) :=
  match m with
  | [] => [(id, l)]
  | (i, l0) :: r => if i =? id then (i, l0 ++ l) :: r else (i, l0) :: recv_append id l r
  end.

(* publishUpdates' second loop: every batch goes to its subscriber's channel (ids in the trie are
   always registered subscribers) *)
Definition publish (fx : bool) (p : pub) (reqs : list (list pentry)) : pub :=
  let batches := publish_updates fx (p_trie p) reqs in
  mkPub (p_next p) (p_subs p) (p_trie p)
        (fold_left (fun r b => match sub_get (fst b) (p_subs p) with
                               | Some _ => recv_append (fst b) (snd b) r
                               | None => r
                               end) batches (p_recv p)).

Inductive pev :=
| PSub (ms : list pmatch)
| PUnsub (id : N)
| PPublish (reqs : list (list pentry)).

Definition pstep (fx : bool) (p : pub) (e : pev) : pub :=
  match e with
  | PSub ms => new_subscriber p ms
  | PUnsub id => delete_subscriber p id
  | PPublish reqs => publish fx p reqs
  end.

Definition run_pub (fx : bool) (p : pub) (evs : list pev) : pub := fold_left (pstep fx) evs p.

(* the specification vocabulary *)
Definition sub_matches_key (ms : list pmatch) (key : bytes) : bool :=
  existsb (fun m => matches (mk_path (fst m) (snd m)) key) ms.

Fixpoint published (evs : list pev) : list pentry :=
  match evs with
  | [] => []
  | PPublish reqs :: r => concat reqs ++ published r
  | _ :: r => published r
  end.
