(* Bloom.v — y/bloom.go (Hash, appendFilter/NewFilter, Filter.MayContain, MayContainKey) and the
   table-level use: table/builder.go addHelper + Done (filter built from Hash(ParseKey(key))),
   table/table.go DoesNotHave, level_handler.go get, iterator.go pickTable / pickTables.

   All uint32 arithmetic is written with an explicit `mod two32` (u32).  Go run-time panics are
   explicit `None` results: the only one in this file is the integer division by zero
   `h % uint32(nBits)` when the bit count of the filter is a multiple of 2^32 (a filter of
   k * 512 MiB); slice indexing can not go out of range (bitPos/8 < len-1).

   Not modelled: float arithmetic.  `BloomBitsPerKey` (float64 log/pow/ceil) is not modelled: its
   result `bitsPerKey` is an arbitrary integer input (Z) of the model; the theorems hold for every
   value.  `uint32(float64(bitsPerKey) * 0.69)` is modelled by the integer expression
   [bitsPerKey * 69 / 100] below 44 and by 30 (the clamp) from 44 on; the harness checks this
   against the Go float path for every value where k is not saturated.  For bitsPerKey >=
   2^32/0.69 the Go float->uint32 conversion is platform dependent (and the filter would need
   >= 2^32 bits per key); the theorems are also proved for an arbitrary k (append_filter_k). *)
From Verif Require Import Bytes Keys.
Open Scope N_scope.

Definition u32 (x : N) : N := x mod two32.

(* ---- y.Hash ---- *)
Definition hash_seed : N := 3164544308. (* 0xbc9f1d34 *)
Definition hash_m : N := 3332679571.    (* 0xc6a4a793 *)

(* h *= m; h ^= h >> s *)
Definition hash_mix (h s : N) : N :=
  let h1 := u32 (h * hash_m) in N.lxor h1 (N.shiftr h1 s).

Fixpoint hash_loop (b : bytes) (h : N) : N :=
  match b with
  | b0 :: b1 :: b2 :: b3 :: rest =>
      (* h += uint32(b[0]) | uint32(b[1])<<8 | uint32(b[2])<<16 | uint32(b[3])<<24 *)
      let w := N.lor (N.lor (N.lor b0 (N.shiftl b1 8)) (N.shiftl b2 16)) (u32 (N.shiftl b3 24)) in
      hash_loop rest (hash_mix (u32 (h + w)) 16)
  | [b0; b1; b2] =>
      let h1 := u32 (h + N.shiftl b2 16) in
      let h2 := u32 (h1 + N.shiftl b1 8) in
      hash_mix (u32 (h2 + b0)) 24
  | [b0; b1] =>
      let h2 := u32 (h + N.shiftl b1 8) in
      hash_mix (u32 (h2 + b0)) 24
  | [b0] => hash_mix (u32 (h + b0)) 24
  | [] => h
  end.

(* h := uint32(seed) ^ uint32(len(b))*m *)
Definition hash (b : bytes) : N :=
  hash_loop b (N.lxor hash_seed (u32 (u32 (N.of_nat (length b)) * hash_m))).

(* ---- bit access into a filter ---- *)
Fixpoint upd_nth {A} (n : nat) (g : A -> A) (l : list A) : list A :=
  match l, n with
  | [], _ => []
  | x :: l', O => g x :: l'
  | x :: l', S n' => x :: upd_nth n' g l'
  end.

(* filter[bitPos/8] |= 1 << (bitPos % 8) *)
Definition set_bit (f : bytes) (pos : N) : bytes :=
  upd_nth (N.to_nat (pos / 8)) (fun x => N.lor x (N.shiftl 1 (pos mod 8))) f.

(* f[bitPos/8] & (1 << (bitPos%8)) != 0 *)
Definition bit_test (f : bytes) (pos : N) : bool :=
  negb (N.land (nth (N.to_nat (pos / 8)) f 0) (N.shiftl 1 (pos mod 8)) =? 0).

(* delta := h>>17 | h<<15   (uint32) *)
Definition delta_of (h : N) : N := N.lor (N.shiftr h 17) (u32 (N.shiftl h 15)).

(* ---- appendFilter ---- *)
(* k := uint32(float64(bitsPerKey) * 0.69), clamped to 1..30; bitsPerKey already clamped >= 0 *)
Definition k_of_bits (bitsPerKey : Z) : N :=
  let b := Z.to_N bitsPerKey in           (* if bitsPerKey < 0 { bitsPerKey = 0 } *)
  let k := if b <? 44 then b * 69 / 100 else 30 in
  if k <? 1 then 1 else if 30 <? k then 30 else k.

(* nBits := len(keys)*bitsPerKey; min 64; nBytes := (nBits+7)/8 *)
Definition nbytes_of (nkeys : nat) (bitsPerKey : Z) : N :=
  let nb := N.of_nat nkeys * Z.to_N bitsPerKey in
  let nb := if nb <? 64 then 64 else nb in
  (nb + 7) / 8.

(* inner loop: for j := 0; j < k; j++ { bitPos := h % nBits; set; h += delta } *)
Fixpoint add_probes (j : nat) (h delta nbits : N) (f : bytes) : bytes :=
  match j with
  | O => f
  | S j' => add_probes j' (u32 (h + delta)) delta nbits (set_bit f (h mod nbits))
  end.

Definition add_hash (k : N) (nbits : N) (f : bytes) (h : N) : bytes :=
  add_probes (N.to_nat k) h (delta_of h) nbits f.

(* appendFilter(nil, keys, bitsPerKey) with k and the byte count given.
   nbits32 = uint32(nBits) where nBits = nBytes*8 (an int). *)
Definition append_filter_k (hs : list N) (k : N) (nbytes : N) : option bytes :=
  let nbits32 := u32 (nbytes * 8) in
  if (nbits32 =? 0) && (0 <? k) && negb (match hs with [] => true | _ => false end)
  then None  (* h % 0: integer divide by zero *)
  else Some (fold_left (add_hash k nbits32) hs (repeat 0 (N.to_nat nbytes)) ++ [k mod 256]).

Definition new_filter (hs : list N) (bitsPerKey : Z) : option bytes :=
  append_filter_k hs (k_of_bits bitsPerKey) (nbytes_of (length hs) bitsPerKey).

(* ---- Filter.MayContain ---- *)
Fixpoint check_probes (j : nat) (h delta nbits : N) (f : bytes) : option bool :=
  match j with
  | O => Some true
  | S j' =>
      if nbits =? 0 then None (* integer divide by zero *)
      else
        let p := h mod nbits in
        if bit_test f p then check_probes j' (u32 (h + delta)) delta nbits f
        else Some false
  end.

Definition may_contain (f : bytes) (h : N) : option bool :=
  if (length f <? 2)%nat then Some false
  else
    let k := last f 0 in
    if 30 <? k then Some true (* reserved for new encodings: consider it a match *)
    else
      let nbits := u32 (8 * (N.of_nat (length f) - 1)) in
      check_probes (N.to_nat k) h (delta_of h) nbits f.

Definition may_contain_key (f : bytes) (key : bytes) : option bool := may_contain f (hash key).

(* ---- table level ---- *)
(* Builder.addHelper: keyHashes = append(keyHashes, y.Hash(y.ParseKey(key)));
   Builder.Done: if BloomFalsePositive > 0 { f = NewFilter(keyHashes, BloomBitsPerKey(..)) };
   buildIndex writes the filter only if len(bloom) > 0.  [fp_pos] is `BloomFalsePositive > 0`,
   [bitsPerKey] the result of BloomBitsPerKey. *)
Definition key_hashes (ikeys : list bytes) : list N := map (fun ik => hash (parse_key ik)) ikeys.

(* The two entry points of the builder: Builder.Add(key, ..) = addInternal(key, .., isStale=false),
   Builder.AddStaleKey(key, ..) = addInternal(key, .., isStale=true) (compaction adds kept
   tombstones, expired entries and versions below a discard-earlier marker this way).  Both reach
   the same addHelper, whose first statement appends Hash(ParseKey(key)); the flag only feeds the
   stale-size counter.  [add_helper] carries the flag exactly to make that visible: the hash list
   (and hence the filter) does not depend on it (BloomProofs.builder_hashes_flag_irrelevant). *)
Definition add_helper (hs : list N) (is_stale : bool) (ik : bytes) : list N :=
  hs ++ [hash (parse_key ik)].

Definition builder_hashes (adds : list (bool * bytes)) : list N :=
  fold_left (fun hs a => add_helper hs (fst a) (snd a)) adds [].

Definition build_bloom_adds (adds : list (bool * bytes)) (fp_pos : bool) (bitsPerKey : Z) : option bytes :=
  if fp_pos then new_filter (builder_hashes adds) bitsPerKey else Some [].

Definition build_bloom (ikeys : list bytes) (fp_pos : bool) (bitsPerKey : Z) : option bytes :=
  if fp_pos then new_filter (key_hashes ikeys) bitsPerKey else Some [].

(* Table.DoesNotHave: hasBloomFilter = len(BloomFilterBytes) > 0 *)
Definition does_not_have (bf : bytes) (h : N) : option bool :=
  if (length bf =? 0)%nat then Some false
  else option_map negb (may_contain bf h).

(* levelHandler.get: hash := y.Hash(y.ParseKey(key)); if th.DoesNotHave(hash) { continue } *)
Definition get_skips_table (bf : bytes) (key : bytes) : option bool :=
  does_not_have bf (hash (parse_key key)).

(* IteratorOptions.pickTable / pickTables with prefixIsKey: t.DoesNotHave(y.Hash(opt.Prefix)) *)
Definition pick_skips_table (bf : bytes) (prefix : bytes) : option bool :=
  does_not_have bf (hash prefix).
