(* ManifestRunProofs.v — manifestFile runs (addChanges / rewrite / re-open): the file is always
   an image whose replay gives the live table map, as long as no change set was rejected
   (or the F6 repair flag is on). *)
From Coq Require Import ZifyN ZifyNat ZifyBool.
From Verif Require Import Bytes BytesProofs Uvarint UvarintProofs Consts Crc32cM Manifest
  ManifestMapProofs ManifestPbProofs ManifestProofs.
Open Scope N_scope.

Definition pair_create (kv : N * tmf) : change := create_of (fst kv) (snd kv).

(* applying CREATEs of distinct, absent ids *)
Lemma apply_creates L : forall m0,
  NoDup (skeys L) -> (forall k, In k (skeys L) -> sfind k (m_tables m0) = None) ->
  Forall tm_wf L ->
  exists m, apply_changeset m0 (map pair_create L) = (m, None)
    /\ (forall x, sfind x (m_tables m)
                  = match sfind x L with Some v => Some v | None => sfind x (m_tables m0) end)
    /\ m_creations m = (m_creations m0 + Z.of_nat (length L))%Z
    /\ m_deletions m = m_deletions m0
    /\ (ksorted (m_tables m0) -> ksorted (m_tables m)).
Proof.
  induction L as [|[k v] r IH]; intros m0 Hnd Habs Hwf.
  - exists m0. cbn. repeat split; auto. lia.
  - cbn [skeys map fst] in Hnd. inversion Hnd as [|? ? Hnotin Hnd']; subst.
    inversion Hwf as [|? ? Hkv Hwf']; subst.
    cbn [map apply_changeset]. unfold pair_create at 1. cbn [fst snd].
    unfold apply_change, create_of. cbn [c_op c_id c_level c_keyid c_comp].
    cbn [N.eqb]. rewrite (Habs k) by (cbn; auto).
    destruct v as [lv kid comp]. unfold tm_wf in Hkv. cbn [fst snd tm_level tm_keyid tm_comp] in *.
    rewrite N.mod_small by tauto.
    match goal with |- context [apply_changeset ?mm _] => set (m1 := mm) end.
    destruct (IH m1) as (m & Hap & Hfind & Hcre & Hdel & Hsort); auto.
    { intros k' Hk'. unfold m1. cbn [m_tables]. rewrite sfind_sins.
      assert (E: (k' =? k) = false) by (apply N.eqb_neq; intros ->; apply Hnotin; exact Hk').
      rewrite E. apply Habs. cbn. right. exact Hk'. }
    exists m. split; [exact Hap|]. split; [|split; [|split]].
    + intros x. rewrite Hfind. unfold m1. cbn [m_tables sfind]. rewrite sfind_sins.
      destruct (x =? k) eqn:E.
      * apply N.eqb_eq in E. subst x. rewrite sfind_notin by exact Hnotin. reflexivity.
      * reflexivity.
    + rewrite Hcre. unfold m1. cbn [m_creations length]. lia.
    + rewrite Hdel. reflexivity.
    + intros Hs. apply Hsort. unfold m1. cbn [m_tables]. apply ksorted_sins. exact Hs.
Qed.

(* the list of pairs asChanges walks through *)
Definition ord_pairs (t : smap tmf) (ord : list N) : list (N * tmf) :=
  flat_map (fun id => match sfind id t with Some x => [(id, x)] | None => [] end) ord.

Lemma as_changes_pairs t ord :
  as_changes t ord = map pair_create (if ord_ok ord t then ord_pairs t ord else t).
Proof.
  unfold as_changes. destruct (ord_ok ord t); [|reflexivity].
  unfold ord_pairs. induction ord as [|id r IH]; [reflexivity|].
  cbn [flat_map]. rewrite map_app, <- IH. destruct (sfind id t); reflexivity.
Qed.

Lemma ord_pairs_found t ord :
  forallb (fun id => match sfind id t with Some _ => true | None => false end) ord = true ->
  skeys (ord_pairs t ord) = ord
  /\ (forall x, sfind x (ord_pairs t ord) = if existsb (N.eqb x) ord then sfind x t else None)
  /\ (forall kv, In kv (ord_pairs t ord) -> In kv t).
Proof.
  induction ord as [|id r IH]; intros H.
  - cbn. repeat split; auto. intros kv [].
  - cbn [forallb] in H. apply andb_true_iff in H. destruct H as [H1 H2].
    destruct (IH H2) as (K & F & I). unfold ord_pairs in *. cbn [flat_map].
    destruct (sfind id t) as [v|] eqn:E; [|discriminate]. cbn [app].
    split; [|split].
    + cbn [skeys map fst]. f_equal. exact K.
    + intros x. cbn [sfind existsb]. destruct (x =? id) eqn:Ex.
      * apply N.eqb_eq in Ex. subst. cbn [orb]. now rewrite E.
      * cbn [orb]. apply F.
    + intros kv [<-|Hin]; [apply sfind_some_In; exact E|auto].
Qed.

Lemma existsb_eqb_In x l : existsb (N.eqb x) l = true <-> In x l.
Proof.
  rewrite existsb_exists. split.
  - intros (y & Hy & E). apply N.eqb_eq in E. now subst.
  - intros H. exists x. split; auto. apply N.eqb_refl.
Qed.

Lemma as_changes_apply t ord : ksorted t -> Forall tm_wf t ->
  exists m, apply_changeset empty_manifest (as_changes t ord) = (m, None)
    /\ m_tables m = t /\ m_creations m = Z.of_nat (length t) /\ m_deletions m = 0%Z.
Proof.
  intros Hs Hwf. rewrite as_changes_pairs. destruct (ord_ok ord t) eqn:Eok.
  - unfold ord_ok in Eok. apply andb_true_iff in Eok. destruct Eok as [Eok Hfound].
    apply andb_true_iff in Eok. destruct Eok as [Hlen Hnd].
    apply Nat.eqb_eq in Hlen. apply nodupb_NoDup in Hnd.
    destruct (ord_pairs_found t ord Hfound) as (K & F & HIn).
    destruct (apply_creates (ord_pairs t ord) empty_manifest) as (m & Hap & Hfind & Hcre & Hdel & Hsort).
    { rewrite K. exact Hnd. }
    { intros. reflexivity. }
    { apply Forall_forall. intros kv Hkv. eapply Forall_forall in Hwf; eauto. }
    exists m. split; [exact Hap|]. split; [|split].
    + apply smap_ext; auto. { apply Hsort. cbn. exact Logic.I. }
      intros x. rewrite Hfind, F. cbn [empty_manifest m_tables sfind].
      destruct (existsb (N.eqb x) ord) eqn:Ex.
      * destruct (sfind x t); reflexivity.
      * (* x not in ord; ord enumerates all keys of t, so x is not a key of t *)
        symmetry. apply sfind_notin. intros Hin.
        assert (Hincl: incl (skeys t) ord).
        { apply NoDup_length_incl; auto.
          - unfold skeys. rewrite map_length. lia.
          - intros y Hy. rewrite <- K in Hy. unfold skeys in Hy. apply in_map_iff in Hy.
            destruct Hy as (kv & <- & Hkv). apply in_map. auto. }
        apply Hincl in Hin. apply existsb_eqb_In in Hin. congruence.
    + rewrite Hcre. cbn [empty_manifest m_creations].
      assert (length (ord_pairs t ord) = length ord).
      { rewrite <- K at 2. unfold skeys. now rewrite map_length. }
      lia.
    + rewrite Hdel. reflexivity.
  - destruct (apply_creates t empty_manifest) as (m & Hap & Hfind & Hcre & Hdel & Hsort); auto.
    { apply ksorted_nodup; auto. }
    exists m. split; [exact Hap|]. split; [|split].
    + apply smap_ext; auto. { apply Hsort. cbn. exact Logic.I. }
      intros x. rewrite Hfind. cbn [empty_manifest m_tables sfind]. destruct (sfind x t); reflexivity.
    + rewrite Hcre. cbn. lia.
    + rewrite Hdel. reflexivity.
Qed.

Lemma create_of_wf id x : tm_wf (id, x) -> wf_change (create_of id x) = true.
Proof.
  unfold tm_wf, wf_change, create_of, enum_ok. cbn [fst snd c_id c_op c_level c_keyid c_enc c_comp].
  unfold two31, two32, two64. lia.
Qed.

Lemma as_changes_wf t ord : Forall tm_wf t -> wf_changeset (as_changes t ord) = true.
Proof.
  intros Hwf. rewrite as_changes_pairs. unfold wf_changeset. apply forallb_forall.
  intros c Hc. apply in_map_iff in Hc. destruct Hc as ([id x] & <- & Hin).
  apply create_of_wf. eapply Forall_forall; [exact Hwf|].
  destruct (ord_ok ord t) eqn:E; auto.
  unfold ord_pairs in Hin. apply in_flat_map in Hin. destruct Hin as (i & _ & Hi).
  destruct (sfind i t) eqn:Ef; [|destruct Hi]. destruct Hi as [Hi|[]]. inversion Hi; subst.
  apply sfind_some_In. exact Ef.
Qed.

(* ------------------------------------------------------------------------------------ *)
(* the invariant of a manifestFile                                                       *)
(* ------------------------------------------------------------------------------------ *)
Definition wf_sets (css : list (list change)) : Prop := Forall (fun cs => wf_changeset cs = true) css.

(* wc = "the counters are those of a replay as well" (lost at a re-open, where clone resets them) *)
Definition Inv (wc : bool) (ext : N) (st : mfile) : Prop :=
  man_wf (mf_man st) /\
  exists css mr,
    mf_bytes st = mf_image ext css /\ wf_sets css
    /\ apply_sets empty_manifest css = (mr, None)
    /\ m_tables mr = m_tables (mf_man st)
    /\ (wc = true -> same_counters mr (mf_man st)).

Lemma apply_sets_snoc css : forall m m1 cs, apply_sets m css = (m1, None) ->
  apply_sets m (css ++ [cs]) = apply_changeset m1 cs.
Proof.
  induction css as [|c r IH]; intros m m1 cs H; cbn [apply_sets app] in *.
  - inversion H; subst. destruct (apply_changeset m1 cs) as [m2 [e|]]; reflexivity.
  - destruct (apply_changeset m c) as [m2 [e|]]; [discriminate|]. eapply IH; eauto.
Qed.

Lemma inv_weaken wc ext st : Inv wc ext st -> Inv false ext st.
Proof.
  intros (Hm & css & mr & A & B & C & D & _). split; auto. exists css, mr.
  split; [exact A|]. split; [exact B|]. split; [exact C|]. split; [exact D|]. discriminate.
Qed.

Lemma inv_create cfg : Inv true (cfg_ext cfg) (mf_create cfg).
Proof.
  split; [apply empty_man_wf|]. exists [[]], empty_manifest. unfold mf_create, rewrite_file, mf_image.
  cbn [mf_bytes mf_man]. repeat split; auto.
  constructor; [reflexivity|constructor].
Qed.

Theorem inv_replay wc ext st : ext < 65536 -> Inv wc ext st ->
  N.of_nat (length (mf_bytes st)) < two32 ->
  exists mr, replay ext (mf_bytes st) = ROk mr (N.of_nat (length (mf_bytes st)))
    /\ same_tables mr (mf_man st) /\ (wc = true -> same_counters mr (mf_man st))
    /\ man_wf mr.
Proof.
  intros Hext (Hm & css & mr & A & B & C & D & E) Hsz. exists mr. rewrite A in *.
  split; [apply replay_image; auto|]. split; [exact D|]. split; [exact E|].
  apply (apply_sets_wf css empty_manifest mr None B empty_man_wf C).
Qed.

(* addChanges, accepted *)
Lemma inv_add_ok wc cfg st cs ord st' o :
  Inv wc (cfg_ext cfg) st -> wf_changeset cs = true ->
  add_changes cfg st cs ord = (st', o) -> outcome_ok o = true ->
  Inv wc (cfg_ext cfg) st'.
Proof.
  intros (Hm & css & mr & A & B & C & D & E) Hcs Hadd Hok. unfold add_changes in Hadd.
  destruct (apply_changeset (mf_man st) cs) as [m' [e|]] eqn:Eap.
  { inversion Hadd; subst. discriminate. }
  assert (Hm': man_wf m') by (eapply apply_changeset_wf; eauto).
  pose proof (apply_changeset_cong cs mr (mf_man st) D) as Hcong. cbn zeta in Hcong.
  rewrite Eap in Hcong. destruct (apply_changeset mr cs) as [mr' er] eqn:Emr.
  cbn [fst snd] in Hcong. destruct Hcong as (Ht & He & Hc & Hd). subst er.
  destruct (rewrite_due cfg m').
  - (* rewrite *)
    inversion Hadd; subst. clear Hadd. cbn [mf_bytes mf_man].
    destruct Hm' as [Hs Hf].
    destruct (as_changes_apply (m_tables m') ord Hs Hf) as (mz & Hz & Tz & Cz & Dz).
    split; [split; cbn [m_tables]; auto|].
    exists [as_changes (m_tables m') ord], mz. unfold rewrite_file, mf_image, mf_records.
    cbn [flat_map]. rewrite app_nil_r.
    split; [reflexivity|].
    split; [constructor; [apply as_changes_wf; auto|constructor]|].
    split; [cbn [apply_sets]; now rewrite Hz|].
    split; [exact Tz|].
    intros _. split; cbn [m_creations m_deletions]; auto.
  - (* append *)
    inversion Hadd; subst. clear Hadd. cbn [mf_bytes mf_man]. split; auto.
    exists (css ++ [cs]), mr'.
    split.
    { rewrite A. unfold mf_image. rewrite mf_records_app, app_assoc. f_equal.
      unfold mf_records. cbn [flat_map]. now rewrite app_nil_r. }
    split; [apply Forall_app; split; auto|].
    split; [rewrite (apply_sets_snoc css _ mr cs C); exact Emr|].
    split; [exact Ht|].
    intros Hw. destruct (E Hw) as [E1 E2]. unfold same_counters. cbn [mf_man]. split; lia.
Qed.

(* addChanges, rejected, with the F6 repair: nothing changes *)
Lemma inv_add_rejected_fixed cfg st cs ord st' e :
  cfg_atomic_apply cfg = true ->
  add_changes cfg st cs ord = (st', ORejected e) -> st' = st.
Proof.
  intros Hfix Hadd. unfold add_changes in Hadd.
  destruct (apply_changeset (mf_man st) cs) as [m' [e'|]].
  - rewrite Hfix in Hadd. inversion Hadd; subst. destruct st; reflexivity.
  - destruct (rewrite_due cfg m'); inversion Hadd.
Qed.

Lemma clone_tables m : man_wf m -> exists m', clone m = Some m' /\ m_tables m' = m_tables m /\ man_wf m'.
Proof.
  intros [Hs Hf]. unfold clone.
  destruct (as_changes_apply (m_tables m) [] Hs Hf) as (mz & Hz & Tz & _ & _).
  rewrite Hz. exists mz. repeat split; auto; rewrite Tz; auto.
Qed.

(* re-open *)
Lemma inv_reopen wc cfg st st' o :
  cfg_ext cfg < 65536 -> Inv wc (cfg_ext cfg) st ->
  N.of_nat (length (mf_bytes st)) < two32 ->
  reopen cfg st = (st', o) ->
  Inv false (cfg_ext cfg) st' /\ o = OReopened (N.of_nat (length (mf_bytes st)))
  /\ mf_bytes st' = mf_bytes st /\ m_tables (mf_man st') = m_tables (mf_man st).
Proof.
  intros Hext HI Hsz Hre. pose proof HI as (Hm & css & mr & A & B & C & D & E).
  destruct (inv_replay wc _ st Hext HI Hsz) as (mr2 & Hrp & Ht & _ & Hwf2).
  unfold reopen in Hre. rewrite Hrp in Hre.
  destruct (clone_tables mr2 Hwf2) as (mc & Hc & Tc & Wc). rewrite Hc in Hre.
  inversion Hre; subst. clear Hre. rewrite Nat2N.id, firstn_all. cbn [mf_bytes mf_man].
  split; [|split; [reflexivity|split; [reflexivity|cbn [mf_man]; rewrite Tc; exact Ht]]].
  split; [exact Wc|]. exists css, mr. cbn [mf_bytes mf_man].
  split; [exact A|]. split; [exact B|]. split; [exact C|].
  split; [unfold same_tables in Ht; rewrite Tc, Ht; exact D|]. discriminate.
Qed.

(* ------------------------------------------------------------------------------------ *)
(* runs                                                                                  *)
(* ------------------------------------------------------------------------------------ *)
Lemma run_inv cfg : cfg_ext cfg < 65536 ->
  forall steps allow wc st st' outs,
  (allow = true -> cfg_atomic_apply cfg = true) ->
  Inv wc (cfg_ext cfg) st -> N.of_nat (length (mf_bytes st)) < two32 ->
  run_ok allow cfg st steps -> run cfg st steps = (st', outs) ->
  Inv (wc && no_reopen steps) (cfg_ext cfg) st' /\ N.of_nat (length (mf_bytes st')) < two32.
Proof.
  intros Hext. induction steps as [|s r IH]; intros allow wc st st' outs Hallow HI Hsz Hok Hrun.
  - cbn in Hrun. inversion Hrun; subst. cbn [no_reopen]. rewrite andb_true_r. auto.
  - cbn [run run_ok] in *. destruct (do_step cfg st s) as [st1 o] eqn:Estep.
    destruct (run cfg st1 r) as [st2 os] eqn:Erun. inversion Hrun; subst. clear Hrun.
    destruct Hok as (Hswf & Hout & Hsz1 & Hok').
    destruct s as [cs ord| |tn tz]; cbn [do_step step_wf no_reopen] in *; [| |discriminate].
    + assert (HI1: Inv wc (cfg_ext cfg) st1).
      { destruct Hout as [Hout|(Ha & e & ->)].
        - eapply inv_add_ok; eauto.
        - rewrite (inv_add_rejected_fixed cfg st cs ord st1 e); auto. }
      eapply IH; eauto.
    + destruct (inv_reopen wc cfg st st1 o Hext HI Hsz Estep) as (HI1 & _ & _ & _).
      destruct (IH allow false st1 st' os Hallow HI1 Hsz1 Hok' Erun) as (HI2 & Hsz2).
      rewrite andb_false_r. cbn [andb] in HI2. auto.
Qed.

Lemma add_ok_tables cfg st cs ord st1 o :
  add_changes cfg st cs ord = (st1, o) -> outcome_ok o = true ->
  exists m', apply_changeset (mf_man st) cs = (m', None) /\ m_tables (mf_man st1) = m_tables m'.
Proof.
  unfold add_changes. intros H Hok.
  destruct (apply_changeset (mf_man st) cs) as [m' [e|]].
  - inversion H; subst. discriminate.
  - exists m'. split; auto. destruct (rewrite_due cfg m'); inversion H; subst; reflexivity.
Qed.

(* the live table map is the atomic application of the accepted change sets *)
Lemma run_spec cfg : cfg_ext cfg < 65536 ->
  forall steps allow wc st st' outs acc ms0,
  (allow = true -> cfg_atomic_apply cfg = true) ->
  Inv wc (cfg_ext cfg) st -> N.of_nat (length (mf_bytes st)) < two32 ->
  apply_sets empty_manifest acc = (ms0, None) -> m_tables ms0 = m_tables (mf_man st) ->
  run_ok allow cfg st steps -> run cfg st steps = (st', outs) ->
  exists ms, apply_sets empty_manifest (acc ++ accepted steps outs) = (ms, None)
    /\ m_tables ms = m_tables (mf_man st').
Proof.
  intros Hext. induction steps as [|s r IH];
    intros allow wc st st' outs acc ms0 Hallow HI Hsz Hacc Hms Hok Hrun.
  - cbn in Hrun. inversion Hrun; subst. cbn [accepted]. rewrite app_nil_r. eauto.
  - cbn [run run_ok] in *. destruct (do_step cfg st s) as [st1 o] eqn:Estep.
    destruct (run cfg st1 r) as [st2 os] eqn:Erun. inversion Hrun; subst. clear Hrun.
    destruct Hok as (Hswf & Hout & Hsz1 & Hok').
    destruct s as [cs ord| |tn tz]; cbn [do_step step_wf accepted] in *; [| |discriminate].
    + destruct Hout as [Hout|(Ha & e & ->)].
      * rewrite Hout.
        destruct (add_ok_tables cfg st cs ord st1 o Estep Hout) as (m' & Eap & Tm').
        pose proof (apply_changeset_cong cs ms0 (mf_man st) Hms) as Hcong. cbn zeta in Hcong.
        rewrite Eap in Hcong. destruct (apply_changeset ms0 cs) as [ms1 e1] eqn:Ems.
        cbn [fst snd] in Hcong. destruct Hcong as (Ht & He & _ & _). subst e1.
        replace (acc ++ cs :: accepted r os) with ((acc ++ [cs]) ++ accepted r os)
          by (rewrite <- app_assoc; reflexivity).
        apply (IH allow wc st1 st' os (acc ++ [cs]) ms1); auto.
        -- eapply inv_add_ok; eauto.
        -- rewrite (apply_sets_snoc acc _ ms0 cs Hacc). exact Ems.
        -- rewrite Ht. symmetry. exact Tm'.
      * cbn [outcome_ok].
        rewrite (inv_add_rejected_fixed cfg st cs ord st1 e) in *; auto.
        apply (IH allow wc st st' os acc ms0); auto.
    + destruct (inv_reopen wc cfg st st1 o Hext HI Hsz Estep) as (HI1 & _ & _ & Tt).
      apply (IH allow false st1 st' os acc ms0); auto. rewrite Tt. exact Hms.
Qed.

(* C17_replay, for runs without a rejected change set (any setting of the repair flag) *)
Theorem run_replay_partial cfg steps st outs :
  cfg_ext cfg < 65536 ->
  run_ok false cfg (mf_create cfg) steps ->
  run cfg (mf_create cfg) steps = (st, outs) ->
  exists mr ms, replay (cfg_ext cfg) (mf_bytes st) = ROk mr (N.of_nat (length (mf_bytes st)))
    /\ same_tables mr (mf_man st)
    /\ (no_reopen steps = true -> same_counters mr (mf_man st))
    /\ apply_sets empty_manifest (accepted steps outs) = (ms, None) /\ same_tables mr ms.
Proof.
  intros Hext Hok Hrun.
  destruct (run_inv cfg Hext steps false true (mf_create cfg) st outs) as (HI & Hsz); auto.
  { discriminate. } { apply inv_create. } { reflexivity. }
  destruct (inv_replay _ _ st Hext HI Hsz) as (mr & A & B & C & _).
  destruct (run_spec cfg Hext steps false true (mf_create cfg) st outs [] empty_manifest)
    as (ms & S1 & S2); auto.
  { discriminate. } { apply inv_create. } { reflexivity. }
  exists mr, ms. split; [exact A|]. split; [exact B|]. split; [intros Hn; apply C; now rewrite Hn|].
  split; [exact S1|]. unfold same_tables in *. now rewrite B, S2.
Qed.

(* C17_replay at full strength for the repaired addChanges (validate, then apply) *)
Theorem run_replay_fixed cfg steps st outs :
  cfg_ext cfg < 65536 -> cfg_atomic_apply cfg = true ->
  run_ok true cfg (mf_create cfg) steps ->
  run cfg (mf_create cfg) steps = (st, outs) ->
  exists mr ms, replay (cfg_ext cfg) (mf_bytes st) = ROk mr (N.of_nat (length (mf_bytes st)))
    /\ same_tables mr (mf_man st)
    /\ (no_reopen steps = true -> same_counters mr (mf_man st))
    /\ apply_sets empty_manifest (accepted steps outs) = (ms, None) /\ same_tables mr ms.
Proof.
  intros Hext Hfix Hok Hrun.
  destruct (run_inv cfg Hext steps true true (mf_create cfg) st outs) as (HI & Hsz); auto.
  { apply inv_create. } { reflexivity. }
  destruct (inv_replay _ _ st Hext HI Hsz) as (mr & A & B & C & _).
  destruct (run_spec cfg Hext steps true true (mf_create cfg) st outs [] empty_manifest)
    as (ms & S1 & S2); auto.
  { apply inv_create. } { reflexivity. }
  exists mr, ms. split; [exact A|]. split; [exact B|]. split; [intros Hn; apply C; now rewrite Hn|].
  split; [exact S1|]. unfold same_tables in *. now rewrite B, S2.
Qed.


(* helpOpenOrCreateManifestFile on a torn MANIFEST (the MANIFEST part of Open): when replay
   stops at the torn record the file is cut back to the whole records and the live table map is
   theirs *)
Theorem reopen_torn cfg css m' p man0 :
  cfg_ext cfg < 65536 -> wf_sets css ->
  apply_sets empty_manifest css = (m', None) ->
  replay (cfg_ext cfg) (mf_image (cfg_ext cfg) css ++ p)
    = ROk m' (N.of_nat (length (mf_image (cfg_ext cfg) css))) ->
  exists live,
    reopen cfg (mkMF (mf_image (cfg_ext cfg) css ++ p) man0)
    = (mkMF (mf_image (cfg_ext cfg) css) live,
       OReopened (N.of_nat (length (mf_image (cfg_ext cfg) css))))
    /\ m_tables live = m_tables m'.
Proof.
  intros Hext Hwf Hap Hrp. unfold reopen. cbn [mf_bytes]. rewrite Hrp.
  assert (Hm: man_wf m') by (apply (apply_sets_wf css empty_manifest m' None Hwf empty_man_wf Hap)).
  destruct (clone_tables m' Hm) as (mc & Hc & Tc & _). rewrite Hc.
  exists mc. split; auto. rewrite Nat2N.id, firstn_app, Nat.sub_diag, firstn_all. cbn [firstn].
  now rewrite app_nil_r.
Qed.

(* crash mid-append, open again, keep working: after a torn tail was dropped by the re-open
   (C09_manifest_truncated_partial gives the hypothesis on replay), every later accepted change
   set is appended right after the whole records: the file replays to the whole records' change
   sets followed by the accepted ones, and agrees with the live table map *)
Theorem append_after_torn_tail cfg css m' p man0 steps st outs :
  cfg_ext cfg < 65536 -> wf_sets css ->
  apply_sets empty_manifest css = (m', None) ->
  N.of_nat (length (mf_image (cfg_ext cfg) css)) < two32 ->
  replay (cfg_ext cfg) (mf_image (cfg_ext cfg) css ++ p)
    = ROk m' (N.of_nat (length (mf_image (cfg_ext cfg) css))) ->
  let st0 := fst (reopen cfg (mkMF (mf_image (cfg_ext cfg) css ++ p) man0)) in
  run_ok false cfg st0 steps ->
  run cfg st0 steps = (st, outs) ->
  mf_bytes st0 = mf_image (cfg_ext cfg) css
  /\ exists mr ms,
       replay (cfg_ext cfg) (mf_bytes st) = ROk mr (N.of_nat (length (mf_bytes st)))
       /\ same_tables mr (mf_man st)
       /\ apply_sets empty_manifest (css ++ accepted steps outs) = (ms, None)
       /\ same_tables mr ms.
Proof.
  intros Hext Hwf Hap Hsz Hrp st0 Hok Hrun.
  destruct (reopen_torn cfg css m' p man0 Hext Hwf Hap Hrp) as (live & Hre & Tl).
  assert (Hst0: st0 = mkMF (mf_image (cfg_ext cfg) css) live) by (unfold st0; now rewrite Hre).
  assert (Hm': man_wf m') by (apply (apply_sets_wf css empty_manifest m' None Hwf empty_man_wf Hap)).
  assert (Hlive: man_wf live).
  { unfold reopen in Hre. cbn [mf_bytes] in Hre. rewrite Hrp in Hre.
    destruct (clone_tables m' Hm') as (mc & Hc & Tc & Wc). rewrite Hc in Hre.
    inversion Hre; subst. exact Wc. }
  assert (HI: Inv false (cfg_ext cfg) st0).
  { rewrite Hst0. split; [exact Hlive|]. exists css, m'. cbn [mf_bytes mf_man].
    split; [reflexivity|]. split; [exact Hwf|]. split; [exact Hap|]. split; [now rewrite Tl|].
    discriminate. }
  assert (Hsz0: N.of_nat (length (mf_bytes st0)) < two32) by (rewrite Hst0; exact Hsz).
  split; [rewrite Hst0; reflexivity|].
  destruct (run_inv cfg Hext steps false false st0 st outs) as (HI' & Hsz'); auto.
  { discriminate. }
  destruct (inv_replay _ _ st Hext HI' Hsz') as (mr & A & B & _ & _).
  destruct (run_spec cfg Hext steps false false st0 st outs css m') as (ms & S1 & S2); auto.
  { discriminate. } { rewrite Hst0. cbn [mf_man]. now rewrite Tl. }
  exists mr, ms. split; [exact A|]. split; [exact B|]. split; [exact S1|].
  unfold same_tables in *. now rewrite B, S2.
Qed.
