(* Keys.v — y/y.go: KeyWithTs, ParseTs, ParseKey, CompareKeys, SameKey.
   Go slice-bound panics are explicit: None. *)
From Verif Require Import Bytes.
Open Scope N_scope.

Definition key_with_ts (k : bytes) (ts : N) : bytes := k ++ be_enc 8 (max_u64 - ts).

Definition parse_ts (ik : bytes) : N :=
  if (length ik <=? 8)%nat then 0 else max_u64 - be_dec (lastn 8 ik).

Definition parse_key (ik : bytes) : bytes :=
  if (length ik <? 8)%nat then [] else dropn_end 8 ik.

(* CompareKeys slices key[:len-8]; a key shorter than 8 bytes panics *)
Definition compare_keys (a b : bytes) : option comparison :=
  if ((length a <? 8) || (length b <? 8))%nat then None
  else Some (match lex_cmp (dropn_end 8 a) (dropn_end 8 b) with
             | Eq => lex_cmp (lastn 8 a) (lastn 8 b)
             | c => c
             end).

Definition same_key (a b : bytes) : bool :=
  (length a =? length b)%nat && bytes_eqb (parse_key a) (parse_key b).

(* the order Layer B sorts by: user key ascending, then version descending *)
Definition key_order (k1 : bytes) (t1 : N) (k2 : bytes) (t2 : N) : comparison :=
  match lex_cmp k1 k2 with
  | Eq => t2 ?= t1
  | c => c
  end.
