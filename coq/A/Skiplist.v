(* Skiplist.v — skl/skl.go (+ skl/arena.go): the memtable skiplist, sequential semantics.
   Definitions only; proofs in SkiplistProofs.v.

   Representation: the arena is a list of nodes; an arena offset is an index into it.
   Index 0 is the reserved nil offset (newArena: "reserve offset=0 as a kind of nil pointer"),
   index 1 is the head node (height maxHeight, key nil, never compared).  A tower entry 0 = nil.
   The byte layout of the arena (putNode/putKey/putVal offsets and alignment, the uint16 key
   size, the "Arena too small" assertion) is abstracted; node.value is one atomic 64-bit word
   (offset, size) of an immutable encoded value, modelled as the value itself.
   randomHeight() is an input of put.
   The Go loops of findNear / findSpliceForLevel / findLast are written as "walk right on one
   level" (fuel-bounded, the only unbounded part) nested in a structural recursion on the level:
   same sequence of loads and comparisons as the single `for` loop with `level--; continue`.
   None = fuel exhausted or a failed CAS: neither happens sequentially (proved). *)
From Verif Require Import Bytes.
Open Scope nat_scope.

Section Skl.
Variables K V : Type.
Variable cmp : K -> K -> comparison.      (* y.CompareKeys(a, b) *)
Variable same_key : K -> K -> bool.       (* y.SameKey *)
Variables (dk : K) (dv : V).

Definition max_height : nat := 20.        (* maxHeight; checked against gen/Consts.v in CorrC22 *)

Record node := mkNode { n_key : K; n_val : V; n_tower : list nat }.
Record skl := mkSkl { nodes : list node; height : nat }.

Definition dnode : node := mkNode dk dv [].
Definition head : nat := 1.

(* NewSkiplist: arena with reserved offset 0, head of maxHeight, height = 1 *)
Definition sl_new : skl := mkSkl [dnode; mkNode dk dv (repeat 0 max_height)] 1.

Definition node_at (s : skl) (x : nat) : node := nth x (nodes s) dnode.
Definition kof (s : skl) (x : nat) : K := n_key (node_at s x).
Definition vof (s : skl) (x : nat) : V := n_val (node_at s x).
(* s.getNext(nd, h): arena.getNode(nd.tower[h].Load()) *)
Definition get_next (s : skl) (x lvl : nat) : nat := nth lvl (n_tower (node_at s x)) 0.

Fixpoint upd_nth {A} (n : nat) (x : A) (l : list A) : list A :=
  match l, n with
  | [], _ => []
  | _ :: r, O => x :: r
  | y :: r, S n' => y :: upd_nth n' x r
  end.

(* tower[lvl].Store(v) / successful CAS *)
Definition set_tower (x lvl v : nat) (s : skl) : skl :=
  let nd := node_at s x in
  mkSkl (upd_nth x (mkNode (n_key nd) (n_val nd) (upd_nth lvl v (n_tower nd))) (nodes s)) (height s).
(* node.setValue *)
Definition set_value (x : nat) (v : V) (s : skl) : skl :=
  let nd := node_at s x in
  mkSkl (upd_nth x (mkNode (n_key nd) v (n_tower nd)) (nodes s)) (height s).

(* move right on one level while key > next.key.  Result (x, next, c): next = getNext(x, lvl),
   c = CompareKeys(key, next.key) (Lt if next = nil, not used then) *)
Fixpoint walk (fuel : nat) (s : skl) (key : K) (x lvl : nat) : option (nat * nat * comparison) :=
  match fuel with
  | O => None
  | S f =>
      let next := get_next s x lvl in
      if next =? 0 then Some (x, 0, Lt)
      else match cmp key (kof s next) with
           | Gt => walk f s key next lvl
           | c => Some (x, next, c)
           end
  end.

Definition not_head (x : nat) : nat := if x =? head then 0 else x.

(* findNear(key, less, allowEqual) from (x, level); returns (node or 0 = nil, equal flag) *)
Fixpoint find_near_from (fuel : nat) (s : skl) (key : K) (less allow_equal : bool)
         (x level : nat) : option (nat * bool) :=
  match walk fuel s key x level with
  | None => None
  | Some (x', next, c) =>
      if next =? 0 then
        match level with
        | S l => find_near_from fuel s key less allow_equal x' l
        | O => if negb less then Some (0, false) else Some (not_head x', false)
        end
      else match c with
           | Eq =>
               if allow_equal then Some (next, true)
               else if negb less then Some (get_next s next 0, false)
               else match level with
                    | S l => find_near_from fuel s key less allow_equal x' l
                    | O => Some (not_head x', false)
                    end
           | _ => (* Lt: x.key < key < next.key *)
               match level with
               | S l => find_near_from fuel s key less allow_equal x' l
               | O => if negb less then Some (next, false) else Some (not_head x', false)
               end
           end
  end.

Definition fuel_of (s : skl) : nat := S (length (nodes s)).

Definition find_near (s : skl) (key : K) (less allow_equal : bool) : option (nat * bool) :=
  find_near_from (fuel_of s) s key less allow_equal head (height s - 1).

(* findSpliceForLevel(key, before, level) *)
Definition find_splice (fuel : nat) (s : skl) (key : K) (before lvl : nat) : option (nat * nat) :=
  match walk fuel s key before lvl with
  | None => None
  | Some (x, next, c) =>
      if next =? 0 then Some (x, 0)
      else match c with
           | Eq => Some (next, next)
           | _ => Some (x, next)
           end
  end.

(* the first loop of Put: levels lvl-1 .. 0 from prev[lvl] = before.
   inl p: a node with the same key (its value is overwritten); inr: (prev[i], next[i]) for i < lvl *)
Fixpoint descend (fuel : nat) (s : skl) (key : K) (lvl before : nat)
  : option (nat + list (nat * nat)) :=
  match lvl with
  | O => Some (inr [])
  | S l =>
      match find_splice fuel s key before l with
      | None => None
      | Some (p, n) =>
          if p =? n then Some (inl p)
          else match descend fuel s key l p with
               | None => None
               | Some (inl q) => Some (inl q)
               | Some (inr spl) => Some (inr (spl ++ [(p, n)]))
               end
      end
  end.

(* the second loop of Put: levels i, i+1, ..., i+cnt-1 of the new node x.
   lh = the list height read at the start of Put (prev[lh] = head, next[lh] = nil). *)
Fixpoint link_levels (fuel : nat) (key : K) (x : nat) (spl : list (nat * nat)) (lh : nat)
         (i cnt : nat) (s : skl) : option skl :=
  match cnt with
  | O => Some s
  | S c =>
      let pn := if i <? lh then Some (nth i spl (head, 0))
                else if i =? lh then Some (head, 0)
                else find_splice fuel s key head i in       (* prev[i] == nil: search from head *)
      match pn with
      | None => None
      | Some (p, n) =>
          let s1 := set_tower x i n s in                    (* x.tower[i].Store(nextOffset) *)
          if get_next s1 p i =? n                           (* prev[i].casNextOffset(i, nextOffset, x) *)
          then link_levels fuel key x spl lh (S i) c (set_tower p i x s1)
          else None                                         (* CAS failed: only under concurrency *)
      end
  end.

(* Put(key, v) with randomHeight() = h *)
Definition put (key : K) (v : V) (h : nat) (s : skl) : option skl :=
  let lh := height s in
  let fuel := fuel_of s in
  match descend fuel s key lh head with
  | None => None
  | Some (inl p) => Some (set_value p v s)
  | Some (inr spl) =>
      let x := length (nodes s) in
      let s1 := mkSkl (nodes s ++ [mkNode key v (repeat 0 h)]) (Nat.max (height s) h) in
      link_levels (S fuel) key x spl lh 0 h s1
  end.

(* findLast *)
Fixpoint walk_end (fuel : nat) (s : skl) (x lvl : nat) : option nat :=
  match fuel with
  | O => None
  | S f => let next := get_next s x lvl in
           if next =? 0 then Some x else walk_end f s next lvl
  end.
Fixpoint find_last_from (fuel : nat) (s : skl) (x level : nat) : option nat :=
  match walk_end fuel s x level with
  | None => None
  | Some x' => match level with
               | S l => find_last_from fuel s x' l
               | O => Some (not_head x')
               end
  end.
Definition find_last (s : skl) : option nat := find_last_from (fuel_of s) s head (height s - 1).

(* Get(key): findNear(key, false, true); nil or a different user key => empty ValueStruct *)
Definition get (s : skl) (key : K) : option (option (K * V)) :=
  match find_near s key false true with
  | None => None
  | Some (n, _) =>
      if n =? 0 then Some None
      else if same_key key (kof s n) then Some (Some (kof s n, vof s n)) else Some None
  end.

(* Iterator: position n (0 = not Valid) *)
Definition it_seek_to_first (s : skl) : nat := get_next s head 0.
Definition it_next (s : skl) (n : nat) : nat := get_next s n 0.
Definition it_seek (s : skl) (key : K) : option nat := option_map fst (find_near s key false true).
Definition it_seek_for_prev (s : skl) (key : K) : option nat := option_map fst (find_near s key true true).
Definition it_prev (s : skl) (n : nat) : option nat := option_map fst (find_near s (kof s n) true false).
Definition it_seek_to_last (s : skl) : option nat := find_last s.
Definition it_entry (s : skl) (n : nat) : option (K * V) :=
  if n =? 0 then None else Some (kof s n, vof s n).

(* the list of nodes on one level, read off the pointers (specification device) *)
Fixpoint chain (fuel : nat) (s : skl) (lvl x : nat) : list nat :=
  match fuel with
  | O => []
  | S f => let n := get_next s x lvl in if n =? 0 then [] else n :: chain f s lvl n
  end.
Definition level_nodes (s : skl) (lvl : nat) : list nat := chain (length (nodes s)) s lvl head.
Definition contents (s : skl) : list (K * V) := map (fun n => (kof s n, vof s n)) (level_nodes s 0).

(* whole-list iteration with the Iterator calls: forward with Next, backward with Prev *)
Fixpoint iter_fwd (fuel : nat) (s : skl) (n : nat) : list (K * V) :=
  match fuel with
  | O => []
  | S f => if n =? 0 then [] else (kof s n, vof s n) :: iter_fwd f s (it_next s n)
  end.
Fixpoint iter_bwd (fuel : nat) (s : skl) (n : nat) : option (list (K * V)) :=
  match fuel with
  | O => Some []
  | S f => if n =? 0 then Some []
           else match it_prev s n with
                | None => None
                | Some p => option_map (cons (kof s n, vof s n)) (iter_bwd f s p)
                end
  end.

(* a sequence of puts (key, value, tower height) *)
Fixpoint put_all (ps : list (K * V * nat)) (s : skl) : option skl :=
  match ps with
  | [] => Some s
  | (k, v, h) :: r => match put k v h s with Some s' => put_all r s' | None => None end
  end.

(* ---- the specification: a sorted association list (CompareKeys order) ---- *)
Fixpoint sm_put (key : K) (v : V) (m : list (K * V)) : list (K * V) :=
  match m with
  | [] => [(key, v)]
  | (k, w) :: r =>
      match cmp key k with
      | Gt => (k, w) :: sm_put key v r
      | Eq => (k, v) :: r            (* a later put of an existing key replaces its value *)
      | Lt => (key, v) :: m
      end
  end.
Definition is_gt (c : comparison) : bool := match c with Gt => true | _ => false end.
Definition is_lt (c : comparison) : bool := match c with Lt => true | _ => false end.
Definition sm_ge (key : K) (m : list (K * V)) : option (K * V) :=   (* first entry >= key *)
  find (fun kv => negb (is_gt (cmp key (fst kv)))) m.
Definition sm_gt (key : K) (m : list (K * V)) : option (K * V) :=   (* first entry > key *)
  find (fun kv => is_lt (cmp key (fst kv))) m.
Definition sm_le (key : K) (m : list (K * V)) : option (K * V) :=   (* last entry <= key *)
  find (fun kv => negb (is_lt (cmp key (fst kv)))) (rev m).
Definition sm_lt (key : K) (m : list (K * V)) : option (K * V) :=   (* last entry < key *)
  find (fun kv => is_gt (cmp key (fst kv))) (rev m).
Fixpoint sm_of_puts (ps : list (K * V * nat)) (m : list (K * V)) : list (K * V) :=
  match ps with
  | [] => m
  | (k, v, _) :: r => sm_of_puts r (sm_put k v m)
  end.
(* Get: newest version <= ts of the same user key = first entry >= key, if SameKey *)
Definition sm_get (key : K) (m : list (K * V)) : option (K * V) :=
  match sm_ge key m with
  | Some (k, v) => if same_key key k then Some (k, v) else None
  | None => None
  end.

(* ---- concurrency: the shared-memory writes of Put as atomic actions ----
   Every write a Put performs on shared memory is one of these actions (one atomic store or CAS
   each; reads change nothing).  Any number of threads: a concurrent execution is a sequence of
   actions.  `cguard` is what the issuing thread has established from its earlier loads when it
   issues the action; every conjunct is either about immutable data (keys, tower sizes), or
   monotone (a node once linked on a level stays linked; the height only grows), or about the new
   node that only its own thread writes (see SkiplistProofs, `stable_*`). *)
Inductive caction :=
| CAlloc (key : K) (v : V) (h : nat)   (* newNode: arena space for a node, linked nowhere *)
| CHeight (hnew : nat)                 (* s.height.CompareAndSwap(listHeight, height) succeeded *)
| CStore (x i n : nat)                 (* x.tower[i].Store(nextOffset) on the thread's new node *)
| CCas (p i n x : nat)                 (* prev[i].casNextOffset(i, nextOffset, x) *)
| CSetVal (q : nat) (v : V).           (* node.setValue: one atomic 64-bit store *)

Definition capply (a : caction) (s : skl) : skl :=
  match a with
  | CAlloc k v h => mkSkl (nodes s ++ [mkNode k v (repeat 0 h)]) (height s)
  | CHeight hn => mkSkl (nodes s) hn
  | CStore x i n => set_tower x i n s
  | CCas p i n x => if get_next s p i =? n then set_tower p i x s else s
  | CSetVal q v => set_value q v s
  end.

Definition linked_at (s : skl) (i p : nat) : Prop := p = head \/ In p (level_nodes s i).

Variable wfk : K -> Prop.

Definition cguard (a : caction) (s : skl) : Prop :=
  match a with
  | CAlloc k v h => wfk k /\ 1 <= h <= max_height
  | CHeight hn => height s < hn <= max_height
  | CStore x i n => 2 <= x < length (nodes s) /\ ~ In x (level_nodes s i)
  | CCas p i n x =>
      2 <= x < length (nodes s) /\ i < length (n_tower (node_at s x)) /\ i < height s /\
      wfk (kof s x) /\
      linked_at s i p /\ (p = head \/ cmp (kof s x) (kof s p) = Gt) /\
      (n = 0 \/ cmp (kof s x) (kof s n) = Lt) /\
      get_next s x i = n /\
      ~ In x (level_nodes s i) /\ (0 < i -> In x (level_nodes s (i - 1)))
  | CSetVal q v => In q (level_nodes s 0)
  end.

(* an execution: every action is issued with its guard true in the state it acts on *)
Inductive cexec : skl -> list caction -> skl -> Prop :=
| cexec_nil : forall s, cexec s [] s
| cexec_snoc : forall s tr s' a, cexec s tr s' -> cguard a s' -> cexec s (tr ++ [a]) (capply a s').

(* a forward iteration whose loads happen at arbitrary later moments of a concurrent execution:
   from node p (head = before the first entry), each step lets the writers run, then loads the
   level-0 successor (Iterator.Next / SeekToFirst) in the state reached *)
Inductive reader_fwd : skl -> nat -> list nat -> skl -> Prop :=
| rf_done : forall s p, reader_fwd s p [] s
| rf_step : forall s p tr s1 n rest s2,
    cexec s tr s1 -> get_next s1 p 0 = n -> n <> 0 ->
    reader_fwd s1 n rest s2 -> reader_fwd s p (n :: rest) s2.

(* the abstract effect of an action on the content: the linearization points *)
Definition cabs (a : caction) (s : skl) (m : list (K * V)) : list (K * V) :=
  match a with
  | CCas p O n x => if get_next s p 0 =? n then sm_put (kof s x) (vof s x) m else m
  | CSetVal q v => sm_put (kof s q) v m
  | _ => m
  end.

End Skl.
