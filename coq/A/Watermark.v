(* Watermark.v — y/watermark.go: WaterMark (Begin / BeginMany / Done / DoneMany / SetDoneUntil /
   DoneUntil / LastIndex / WaitForMark) and the body of the `process` goroutine, one received
   mark per step.  Definitions only; proofs in WatermarkProofs.v.

   Indices are uint64 (N below two64).  `pending` counts are Go ints (Z; overflow of a 64-bit
   counter is not modelled).  A waiter channel is identified by a number chosen by the caller.
   y.AssertTrue / AssertTruef call log.Fatalf: the whole program exits -> status Fatal.
   The notification loop `for idx := doneUntil+1; idx <= until; idx++` never terminates when
   until = 2^64-1 (idx wraps to 0) -> status Hung. *)
From Verif Require Import Bytes.
Open Scope N_scope.

(* ---- small association maps keyed by N (Go maps; at most one entry per key) ---- *)
Definition amap (V : Type) := list (N * V).
Fixpoint mget {V} (k : N) (m : amap V) : option V :=
  match m with
  | [] => None
  | (k', v) :: r => if k =? k' then Some v else mget k r
  end.
Definition mrem {V} (k : N) (m : amap V) : amap V := filter (fun kv => negb (fst kv =? k)) m.
Definition mset {V} (k : N) (v : V) (m : amap V) : amap V := (k, v) :: mrem k m.

(* ---- the channel element (type mark) ---- *)
Record mark := mkMark {
  m_index : N;
  m_waiter : option N;      (* waiter chan struct{}: Some id / nil *)
  m_indices : list N;
  m_done : bool }.

Definition status := N.     (* 0 Running, 1 Fatal (assertion failed), 2 Hung (endless notify loop) *)
Definition Running : status := 0.
Definition Fatal : status := 1.
Definition Hung : status := 2.

(* what the process goroutine owns (locals of `process`) + the atomic doneUntil + closed channels *)
Record pstate := mkP {
  done_until : N;                 (* w.doneUntil (atomic) *)
  heap : list N;                  (* indices uint64Heap: kept as an ascending list, min first *)
  pending : amap Z;               (* pending map[uint64]int *)
  waiters : amap (list N);        (* waiters map[uint64][]chan struct{} *)
  closed : list N;                (* waiter channels that have been closed *)
  st : status }.

Definition pinit (d0 : N) : pstate := mkP d0 [] [] [] [] Running.

Definition set_done_until (v : N) (p : pstate) : pstate :=
  mkP v (heap p) (pending p) (waiters p) (closed p) (st p).
Definition set_status (x : status) (p : pstate) : pstate :=
  mkP (done_until p) (heap p) (pending p) (waiters p) (closed p) x.

(* heap.Push on the ascending-list representation *)
Fixpoint heap_push (x : N) (h : list N) : list N :=
  match h with
  | [] => [x]
  | y :: t => if x <=? y then x :: h else y :: heap_push x t
  end.

Definition pend0 (i : N) (pd : amap Z) : Z := match mget i pd with Some c => c | None => 0%Z end.

(* for len(indices) > 0 { min := indices[0]; if pending[min] > 0 {break}; heap.Pop; delete(pending,min); until = min } *)
Fixpoint pop_loop (h : list N) (pd : amap Z) (until : N) : list N * amap Z * N :=
  match h with
  | [] => ([], pd, until)
  | m :: rest => if (0 <? pend0 m pd)%Z then (h, pd, until) else pop_loop rest (mrem m pd) m
  end.

Definition u64_sub (a b : N) : N := (a + two64 - b) mod two64.

(* notifyAndRemove for every waiter index selected by `sel`: close the channels, delete the entry.
   (The Go loops visit the indices in ascending / random map order; only the set matters.) *)
Definition notify (sel : N -> bool) (ws : amap (list N)) (cl : list N) : amap (list N) * list N :=
  (filter (fun kv => negb (sel (fst kv))) ws,
   cl ++ flat_map snd (filter (fun kv => sel (fst kv)) ws)).

(* processOne(index, done) — closure inside process *)
Definition process_one (index : N) (done : bool) (p : pstate) : pstate :=
  let present := match mget index (pending p) with Some _ => true | None => false end in
  let prev := pend0 index (pending p) in
  let hp := if present then heap p else heap_push index (heap p) in
  let pd := mset index (prev + (if done then -1 else 1))%Z (pending p) in
  let du := done_until p in
  if index <? du then mkP du hp pd (waiters p) (closed p) Fatal      (* AssertTruef(false, ...) *)
  else
    let '(hp', pd', until) := pop_loop hp pd du in
    (* if until != doneUntil { AssertTrue(CAS(doneUntil, until)) }: no other writer inside one step *)
    if u64_sub until du <=? N.of_nat (length (waiters p)) then
      if until =? max_u64 then
        (* idx <= until is always true: every waiter index is visited, the loop never ends *)
        let '(ws', cl') := notify (fun _ => true) (waiters p) (closed p) in
        mkP until hp' pd' ws' cl' Hung
      else
        let '(ws', cl') := notify (fun idx => (du <? idx) && (idx <=? until)) (waiters p) (closed p) in
        mkP until hp' pd' ws' cl' Running
    else
      let '(ws', cl') := notify (fun idx => idx <=? until) (waiters p) (closed p) in
      mkP until hp' pd' ws' cl' Running.

(* `case mark := <-w.markCh`, waiter branch *)
Definition process_wait (i w : N) (p : pstate) : pstate :=
  if i <=? done_until p then
    mkP (done_until p) (heap p) (pending p) (waiters p) (closed p ++ [w]) (st p)
  else
    let ws := match mget i (waiters p) with
              | None => [w]
              | Some l => l ++ [w]
              end in
    mkP (done_until p) (heap p) (pending p) (mset i ws (waiters p)) (closed p) (st p).

(* events: one processOne call or one waiter registration *)
Inductive ev := EB (i : N) | ED (i : N) | EW (i w : N).

(* a dead or hung process goroutine handles nothing any more *)
Definition process_ev (e : ev) (p : pstate) : pstate :=
  if negb (st p =? Running) then p else
  match e with
  | EB i => process_one i false p
  | ED i => process_one i true p
  | EW i w => process_wait i w p
  end.

Definition process_evs (es : list ev) (p : pstate) : pstate :=
  fold_left (fun s e => process_ev e s) es p.

(* the indices a non-waiter mark makes processOne run on:
   if mark.index > 0 || (mark.index == 0 && len(mark.indices) == 0) { processOne(mark.index) }
   for _, index := range mark.indices { processOne(index) } *)
Definition mark_indices (m : mark) : list N :=
  (if (0 <? m_index m) || ((m_index m =? 0) && (length (m_indices m) =? 0)%nat)
   then [m_index m] else []) ++ m_indices m.

Definition mark_events (m : mark) : list ev :=
  match m_waiter m with
  | Some w => [EW (m_index m) w]
  | None => map (fun i => if m_done m then ED i else EB i) (mark_indices m)
  end.

(* body of the select case for one received mark *)
Definition process_mark (m : mark) (p : pstate) : pstate := process_evs (mark_events m) p.

(* ---- the WaterMark object: process state + lastIndex + the channel ---- *)
Record wm := mkWm { ps : pstate; last_index : N; queue : list mark }.

Definition wm_init (d0 : N) : wm := mkWm (pinit d0) 0 [].

Definition send (m : mark) (s : wm) : wm := mkWm (ps s) (last_index s) (queue s ++ [m]).

Inductive label :=
| LBegin (i : N)
| LBeginMany (is : list N)
| LDone (i : N)
| LDoneMany (is : list N)
| LSetDoneUntil (v : N)
| LWait (i w : N)        (* slow path of WaitForMark: the (index, waiter) mark is sent *)
| LProcess.              (* the process goroutine receives one mark and handles it *)

(* BeginMany(indices) reads indices[len-1] first: an empty slice panics in the caller *)
Definition caller_panics (l : label) : bool :=
  match l with LBeginMany [] => true | _ => false end.

Definition label_mark (l : label) : option mark :=
  match l with
  | LBegin i => Some (mkMark i None [] false)
  | LBeginMany [] => None
  | LBeginMany l => Some (mkMark 0 None l false)
  | LDone i => Some (mkMark i None [] true)
  | LDoneMany l => Some (mkMark 0 None l true)
  | LWait i w => Some (mkMark i (Some w) [] false)
  | _ => None
  end.

Definition wm_apply (l : label) (s : wm) : wm :=
  match l with
  | LBegin i => send (mkMark i None [] false) (mkWm (ps s) i (queue s))
  | LBeginMany [] => s
  | LBeginMany is => send (mkMark 0 None is false) (mkWm (ps s) (last is 0) (queue s))
  | LDone i => send (mkMark i None [] true) s
  | LDoneMany is => send (mkMark 0 None is true) s
  | LSetDoneUntil v => mkWm (set_done_until v (ps s)) (last_index s) (queue s)
  | LWait i w => send (mkMark i (Some w) [] false) s
  | LProcess =>
      if negb (st (ps s) =? Running) then s else     (* the goroutine is gone / stuck *)
      match queue s with
      | [] => s
      | m :: q => mkWm (process_mark m (ps s)) (last_index s) q
      end
  end.

(* a send blocks while the channel (capacity cap; 100 in Init) is full; the process goroutine
   receives only while it is alive.  A label that is not enabled cannot occur. *)
Definition enabled (cap : nat) (l : label) (s : wm) : bool :=
  match l with
  | LProcess => (st (ps s) =? Running) && negb (length (queue s) =? 0)%nat
  | LSetDoneUntil _ => true
  | LBeginMany [] => true
  | _ => (length (queue s) <? cap)%nat
  end.
Definition markCh_cap : nat := 100.

Definition wm_run (tr : list label) (s : wm) : wm := fold_left (fun s l => wm_apply l s) tr s.

(* run the process goroutine until the channel is empty *)
Fixpoint drain (fuel : nat) (s : wm) : wm :=
  match fuel with
  | O => s
  | S f => match queue s with [] => s | _ => drain f (wm_apply LProcess s) end
  end.
Definition quiesce (s : wm) : wm := drain (length (queue s)) s.

(* WaitForMark(ctx, index) by waiter w: `if w.DoneUntil() >= index { return nil }`, else send *)
Definition wait_for_mark (i w : N) (s : wm) : wm * bool :=
  if i <=? done_until (ps s) then (s, true) else (wm_apply (LWait i w) s, false).

(* a waiter has been released: its channel is closed *)
Definition released (w : N) (s : wm) : bool := existsb (N.eqb w) (closed (ps s)).
