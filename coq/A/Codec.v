(* Codec.v — structs.go header / valuePointer, y/iterator.go ValueStruct *)
From Verif Require Import Bytes Uvarint.
Open Scope N_scope.

Record header := mkHeader { h_klen : N; h_vlen : N; h_expires : N; h_meta : N; h_umeta : N }.

Definition header_encode (h : header) : bytes :=
  [h_meta h; h_umeta h] ++ put_uvarint (h_klen h) ++ put_uvarint (h_vlen h)
  ++ put_uvarint (h_expires h).

(* header.Decode(buf): no error checks in the code; index arithmetic as written.
   None = run-time panic (index out of range / slice bounds). *)
Definition header_decode (buf : bytes) : option (header * Z) :=
  match buf with
  | m :: u :: _ =>
      match slice_from buf 2 with
      | None => None
      | Some b1 =>
          let '(klen, c1) := uvarint b1 in
          let i1 := (2 + c1)%Z in
          match slice_from buf i1 with
          | None => None
          | Some b2 =>
              let '(vlen, c2) := uvarint b2 in
              let i2 := (i1 + c2)%Z in
              match slice_from buf i2 with
              | None => None
              | Some b3 =>
                  let '(ex, c3) := uvarint b3 in
                  Some (mkHeader (klen mod two32) (vlen mod two32) ex m u, (i2 + c3)%Z)
              end
          end
      end
  | _ => None
  end.

Record value_struct := mkVS { vs_meta : N; vs_umeta : N; vs_expires : N; vs_value : bytes }.

Definition vs_encode (v : value_struct) : bytes :=
  [vs_meta v; vs_umeta v] ++ put_uvarint (vs_expires v) ++ vs_value v.

Definition vs_encoded_size (v : value_struct) : N :=
  (N.of_nat (length (vs_value v) + 2 + size_varint (vs_expires v))) mod two32.

Definition vs_decode (b : bytes) : option value_struct :=
  match b with
  | m :: u :: r =>
      let '(ex, sz) := uvarint r in
      match slice_from b (2 + sz)%Z with
      | None => None
      | Some v => Some (mkVS m u ex v)
      end
  | _ => None
  end.

(* valuePointer{Fid, Len, Offset uint32} copied as raw memory: 3 little-endian u32 (amd64) *)
Record vptr := mkVptr { vp_fid : N; vp_len : N; vp_off : N }.
Definition vptr_encode (p : vptr) : bytes :=
  le_enc 4 (vp_fid p) ++ le_enc 4 (vp_len p) ++ le_enc 4 (vp_off p).
Definition vptr_decode (b : bytes) : option vptr :=
  if (length b <? 12)%nat then None
  else Some (mkVptr (le_dec (firstn 4 b)) (le_dec (firstn 4 (skipn 4 b)))
                    (le_dec (firstn 4 (skipn 8 b)))).
Definition vptr_less (p o : vptr) : bool :=
  if negb (vp_fid p =? vp_fid o) then vp_fid p <? vp_fid o
  else if negb (vp_off p =? vp_off o) then vp_off p <? vp_off o
  else vp_len p <? vp_len o.
