From Verif Require Import Bytes Threshold.
From Coq Require Import ZifyBool.
Open Scope Z_scope.

Lemma decisions_cached vlen c ths : c <> 0 -> Forall (fun d => d = (vlen <? c)) (decisions vlen c ths).
Proof.
  intros Hc. induction ths as [|t r IH]; cbn; constructor.
  - unfold set_threshold. destruct (c =? 0) eqn:E; [lia|reflexivity].
  - unfold set_threshold. destruct (c =? 0) eqn:E; [lia|exact IH].
Qed.

(* all consultations of one entry agree with the first one, whatever the database-wide
   (dynamic) threshold does in between — provided the first observed threshold is non-zero *)
Theorem threshold_consistent vlen t ths : t <> 0 ->
  Forall (fun d => d = (vlen <? t)) (decisions vlen 0 (t :: ths)).
Proof.
  intros Ht. cbn. constructor; [reflexivity|]. now apply decisions_cached.
Qed.
