(* ManifestMapProofs.v — sorted association lists (smap) and applyManifestChange /
   applyChangeSet at the level of the table map. *)
From Coq Require Import ZifyN ZifyNat ZifyBool.
From Verif Require Import Bytes Uvarint Consts Crc32cM Manifest.
Open Scope N_scope.

Section SMapProofs.
  Context {V : Type}.
  Implicit Types l r : smap V.

  Fixpoint ksorted (l : smap V) : Prop :=
    match l with
    | [] => True
    | (k, _) :: r => (forall k', In k' (skeys r) -> k < k') /\ ksorted r
    end.

  Lemma sfind_notin k l : ~ In k (skeys l) -> sfind k l = None.
  Proof.
    induction l as [|[k' v] r IH]; intros H; cbn [sfind]; auto.
    cbn in H. destruct (k =? k') eqn:E.
    - apply N.eqb_eq in E. subst. tauto.
    - apply IH. tauto.
  Qed.

  Lemma sfind_in k l : In k (skeys l) -> exists v, sfind k l = Some v.
  Proof.
    induction l as [|[k' v] r IH]; intros H; cbn in H; [tauto|].
    cbn [sfind]. destruct (k =? k') eqn:E; eauto.
    apply N.eqb_neq in E. destruct H as [H|H]; [congruence|auto].
  Qed.

  Lemma sfind_some_in k l v : sfind k l = Some v -> In k (skeys l).
  Proof.
    induction l as [|[k' v'] r IH]; cbn [sfind]; [discriminate|].
    destruct (k =? k') eqn:E; intros H.
    - apply N.eqb_eq in E. subst. cbn. auto.
    - cbn. right. auto.
  Qed.

  Lemma sfind_some_In k l v : sfind k l = Some v -> In (k, v) l.
  Proof.
    induction l as [|[k' v'] r IH]; cbn [sfind]; [discriminate|].
    destruct (k =? k') eqn:E; intros H.
    - apply N.eqb_eq in E. subst. inversion H. subst. cbn. auto.
    - cbn. right. auto.
  Qed.

  Lemma sfind_sins x k v l :
    sfind x (sins k v l) = if x =? k then Some v else sfind x l.
  Proof.
    induction l as [|[k' v'] r IH]; cbn [sins sfind]; auto.
    destruct (k <? k') eqn:E1; cbn [sfind]; auto.
    destruct (k =? k') eqn:E2; cbn [sfind].
    - apply N.eqb_eq in E2. subst k'. destruct (x =? k); auto.
    - rewrite IH. destruct (x =? k') eqn:E3, (x =? k) eqn:E4; auto.
      apply N.eqb_eq in E3, E4. apply N.eqb_neq in E2. congruence.
  Qed.

  Lemma skeys_sins x k v l : In x (skeys (sins k v l)) <-> x = k \/ In x (skeys l).
  Proof.
    induction l as [|[k' v'] r IH]; cbn [sins skeys map fst In].
    - intuition.
    - destruct (k <? k') eqn:E1; [cbn; intuition|].
      destruct (k =? k') eqn:E2.
      + apply N.eqb_eq in E2. subst. cbn. intuition.
      + cbn [skeys map fst In]. fold (skeys (sins k v r)). fold (skeys r). rewrite IH. intuition.
  Qed.

  Lemma ksorted_sins k v l : ksorted l -> ksorted (sins k v l).
  Proof.
    induction l as [|[k' v'] r IH]; cbn [sins ksorted]; intros H.
    - split; auto. cbn. tauto.
    - destruct H as [H1 H2]. destruct (k <? k') eqn:E1.
      + apply N.ltb_lt in E1. cbn [ksorted]. split; [|split; auto].
        intros x Hx. cbn in Hx. destruct Hx as [<-|Hx]; auto.
        specialize (H1 x Hx). lia.
      + apply N.ltb_ge in E1. destruct (k =? k') eqn:E2.
        * apply N.eqb_eq in E2. subst. cbn [ksorted]. split; auto.
        * apply N.eqb_neq in E2. cbn [ksorted]. split; auto.
          intros x Hx. apply skeys_sins in Hx. destruct Hx as [->|Hx]; auto. lia.
  Qed.

  Lemma skeys_sdel x k l : In x (skeys (sdel k l)) -> In x (skeys l).
  Proof.
    induction l as [|[k' v'] r IH]; cbn [sdel]; auto.
    destruct (k =? k'); cbn; intuition.
  Qed.

  Lemma ksorted_sdel k l : ksorted l -> ksorted (sdel k l).
  Proof.
    induction l as [|[k' v'] r IH]; cbn [sdel ksorted]; auto.
    intros [H1 H2]. destruct (k =? k'); auto. cbn [ksorted]. split; auto.
    intros x Hx. apply H1. eapply skeys_sdel; eauto.
  Qed.

  Lemma sfind_sdel x k l : ksorted l ->
    sfind x (sdel k l) = if x =? k then None else sfind x l.
  Proof.
    induction l as [|[k' v'] r IH]; cbn [sdel sfind ksorted].
    - destruct (x =? k); auto.
    - intros [H1 H2]. destruct (k =? k') eqn:E.
      + apply N.eqb_eq in E. subst k'. destruct (x =? k) eqn:E2; auto.
        apply N.eqb_eq in E2. subst. apply sfind_notin. intros Hin. specialize (H1 _ Hin). lia.
      + cbn [sfind]. rewrite IH by auto. apply N.eqb_neq in E.
        destruct (x =? k') eqn:E3, (x =? k) eqn:E4; auto.
        apply N.eqb_eq in E3, E4. congruence.
  Qed.

  Lemma smap_ext l1 l2 : ksorted l1 -> ksorted l2 ->
    (forall x, sfind x l1 = sfind x l2) -> l1 = l2.
  Proof.
    revert l2. induction l1 as [|[k1 v1] r1 IH]; intros [|[k2 v2] r2] S1 S2 H; auto.
    - specialize (H k2). cbn in H. rewrite N.eqb_refl in H. discriminate.
    - specialize (H k1). cbn in H. rewrite N.eqb_refl in H. discriminate.
    - cbn [ksorted] in S1, S2. destruct S1 as [A1 B1], S2 as [A2 B2].
      assert (Hk: k1 = k2).
      { destruct (N.lt_trichotomy k1 k2) as [Hlt|[Heq|Hgt]]; auto.
        - pose proof (H k1) as H1. cbn [sfind] in H1. rewrite N.eqb_refl in H1.
          assert (E: (k1 =? k2) = false) by (apply N.eqb_neq; lia). rewrite E in H1.
          rewrite sfind_notin in H1; [discriminate|]. intros Hin. specialize (A2 _ Hin). lia.
        - pose proof (H k2) as H1. cbn [sfind] in H1. rewrite N.eqb_refl in H1.
          assert (E: (k2 =? k1) = false) by (apply N.eqb_neq; lia). rewrite E in H1.
          rewrite sfind_notin in H1; [discriminate|]. intros Hin. specialize (A1 _ Hin). lia. }
      subst k2. pose proof (H k1) as H1. cbn [sfind] in H1. rewrite N.eqb_refl in H1.
      inversion H1. subst v2. f_equal. apply IH; auto.
      intros x. specialize (H x). cbn [sfind] in H. destruct (x =? k1) eqn:E; auto.
      apply N.eqb_eq in E. subst x.
      rewrite !sfind_notin; auto; intros Hin; [specialize (A2 _ Hin)|specialize (A1 _ Hin)]; lia.
  Qed.

  Lemma ksorted_nodup l : ksorted l -> NoDup (skeys l).
  Proof.
    induction l as [|[k v] r IH]; cbn [ksorted skeys map fst]; intros H; [constructor|].
    destruct H as [H1 H2]. constructor; auto. intros Hin. specialize (H1 _ Hin). lia.
  Qed.

  Lemma length_sins_new k v l : sfind k l = None -> length (sins k v l) = S (length l).
  Proof.
    induction l as [|[k' v'] r IH]; cbn [sins sfind length]; auto.
    destruct (k =? k') eqn:E; [discriminate|]. intros H.
    destruct (k <? k'); cbn [length]; auto.
  Qed.

  Lemma Forall_sins (P : N * V -> Prop) k v l : P (k, v) -> Forall P l -> Forall P (sins k v l).
  Proof.
    intros Hp. induction l as [|[k' v'] r IH]; cbn [sins]; intros H.
    - constructor; auto.
    - inversion H; subst. destruct (k <? k'); [constructor; auto|].
      destruct (k =? k'); constructor; auto.
  Qed.

  Lemma Forall_sdel (P : N * V -> Prop) k l : Forall P l -> Forall P (sdel k l).
  Proof.
    induction l as [|[k' v'] r IH]; cbn [sdel]; intros H; auto.
    inversion H; subst. destruct (k =? k'); auto.
  Qed.
End SMapProofs.

(* ---- nodupb ---- *)
Lemma nodupb_NoDup l : nodupb l = true -> NoDup l.
Proof.
  induction l as [|x r IH]; cbn [nodupb]; intros H; [constructor|].
  apply andb_true_iff in H. destruct H as [H1 H2]. constructor; auto.
  intros Hin. apply negb_true_iff in H1.
  assert (existsb (N.eqb x) r = true); [|congruence].
  apply existsb_exists. exists x. split; auto. apply N.eqb_refl.
Qed.

(* ------------------------------------------------------------------------------------ *)
(* apply_change / apply_changeset on the table map                                       *)
(* ------------------------------------------------------------------------------------ *)
Definition tm_wf (kv : N * tmf) : Prop :=
  fst kv < two64 /\ tm_level (snd kv) < 256 /\ tm_keyid (snd kv) < two64 /\ tm_comp (snd kv) < two32.

(* invariant of every reachable manifest *)
Definition man_wf (m : manifest) : Prop := ksorted (m_tables m) /\ Forall tm_wf (m_tables m).

Lemma empty_man_wf : man_wf empty_manifest.
Proof. split; cbn; auto. Qed.

Lemma wf_change_bounds c : wf_change c = true ->
  c_id c < two64 /\ enum_ok (c_op c) = true /\ c_level c < two32 /\ c_keyid c < two64
  /\ enum_ok (c_enc c) = true /\ c_comp c < two32.
Proof.
  unfold wf_change. rewrite !andb_true_iff, !N.ltb_lt. tauto.
Qed.

Lemma apply_change_wf m c m' e : wf_change c = true -> man_wf m ->
  apply_change m c = (m', e) -> man_wf m'.
Proof.
  intros Hc [Hs Hf] H. apply wf_change_bounds in Hc. unfold apply_change in H.
  destruct (c_op c =? 0).
  - destruct (sfind (c_id c) (m_tables m)); inversion H; subst; [split; auto|].
    split; cbn [m_tables].
    + apply ksorted_sins; auto.
    + apply Forall_sins; auto. unfold tm_wf; cbn. repeat split; try tauto.
      apply N.mod_lt. lia.
  - destruct (c_op c =? 1).
    + destruct (sfind (c_id c) (m_tables m)); inversion H; subst; split; cbn [m_tables]; auto.
      * apply ksorted_sdel; auto.
      * apply Forall_sdel; auto.
    + inversion H; subst. split; auto.
Qed.

Lemma apply_changeset_wf cs : forall m m' e, wf_changeset cs = true -> man_wf m ->
  apply_changeset m cs = (m', e) -> man_wf m'.
Proof.
  induction cs as [|c r IH]; intros m m' e Hc Hm H; cbn [apply_changeset] in H.
  - inversion H; subst; auto.
  - unfold wf_changeset in Hc. cbn [forallb] in Hc. apply andb_true_iff in Hc. destruct Hc as [Hc1 Hc2].
    destruct (apply_change m c) as [m1 [e1|]] eqn:E.
    + inversion H; subst. eapply apply_change_wf; eauto.
    + apply (IH m1 m' e); auto. eapply apply_change_wf; eauto.
Qed.

(* the table map and the error of apply_change depend on the table map only;
   the counters move by the same amounts *)
Lemma apply_change_cong m1 m2 c :
  m_tables m1 = m_tables m2 ->
  let r1 := apply_change m1 c in let r2 := apply_change m2 c in
  m_tables (fst r1) = m_tables (fst r2) /\ snd r1 = snd r2
  /\ (m_creations (fst r1) - m_creations m1 = m_creations (fst r2) - m_creations m2)%Z
  /\ (m_deletions (fst r1) - m_deletions m1 = m_deletions (fst r2) - m_deletions m2)%Z.
Proof.
  intros Ht. cbv zeta. unfold apply_change. rewrite <- Ht.
  destruct (c_op c =? 0); [|destruct (c_op c =? 1)];
    try destruct (sfind (c_id c) (m_tables m1));
    cbn [fst snd m_tables m_creations m_deletions]; repeat split; auto; lia.
Qed.

Lemma apply_changeset_cong cs : forall m1 m2,
  m_tables m1 = m_tables m2 ->
  let r1 := apply_changeset m1 cs in let r2 := apply_changeset m2 cs in
  m_tables (fst r1) = m_tables (fst r2) /\ snd r1 = snd r2
  /\ (m_creations (fst r1) - m_creations m1 = m_creations (fst r2) - m_creations m2)%Z
  /\ (m_deletions (fst r1) - m_deletions m1 = m_deletions (fst r2) - m_deletions m2)%Z.
Proof.
  induction cs as [|c r IH]; intros m1 m2 Ht; cbn [apply_changeset].
  - cbn. repeat split; auto; lia.
  - pose proof (apply_change_cong m1 m2 c Ht) as H. cbn zeta in H.
    destruct (apply_change m1 c) as [a1 e1] eqn:E1, (apply_change m2 c) as [a2 e2] eqn:E2.
    cbn [fst snd] in H. destruct H as (Ha & He & Hc & Hd). subst e2.
    destruct e1 as [e|].
    + cbn [fst snd]. repeat split; auto.
    + specialize (IH a1 a2 Ha). cbn zeta in IH. destruct IH as (I1 & I2 & I3 & I4).
      repeat split; auto; lia.
Qed.
