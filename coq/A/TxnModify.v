(* TxnModify.v — write validation and size accounting of a transaction.
   txn.go:    Txn.modify, Txn.checkSize, exceedsSize, Txn.Get (the part served without the LSM tree),
              commitPrecheck, commitAndSend (construction of the entry list incl. the end marker),
              DB.newTransaction (initial count/size)
   db.go:     checkAndSetOptions (maxBatchSize / maxBatchCount from MemTableSize), DB.isBanned,
              DB.sendToWriteCh (final accounting)
   structs.go: Entry.estimateSizeAndSetThreshold (with the per-entry cached threshold)
   Definitions only (executable, total); proofs in TxnModifyProofs.v.
   int64 quantities are Z; Go panics are the explicit result EPanic. *)
From Verif Require Import Bytes Keys Consts.
Open Scope N_scope.

(* skl.MaxNodeSize = int(unsafe.Sizeof(node{})) (skl/skl.go; amd64: 8+4+2+2+20*4).  Not a literal in
   the source, so not in gen/Consts.v; the correspondence (case Limits) re-checks it on every run. *)
Definition c_maxNodeSize : Z := 96.

Definition wrap64 (x : Z) : Z := ((x + 9223372036854775808) mod 18446744073709551616 - 9223372036854775808)%Z.

(* db.go checkAndSetOptions:  opt.maxBatchSize = (15 * opt.MemTableSize) / 100
                              opt.maxBatchCount = opt.maxBatchSize / int64(skl.MaxNodeSize)
   (int64 arithmetic: wrap-around product, division truncating toward zero) *)
Definition batch_limits (mem_table_size : Z) : Z * Z :=          (* (maxBatchCount, maxBatchSize) *)
  let sz := Z.quot (wrap64 (15 * mem_table_size)) 100 in
  (Z.quot sz c_maxNodeSize, sz).

Inductive merr :=
| ErrReadOnlyTxn | ErrDiscardedTxn | ErrEmptyKey | ErrInvalidKey
| ErrKeySize        (* exceedsSize("Key", 65000, …) *)
| ErrValueSize      (* exceedsSize("Value", ValueLogFileSize, …) *)
| ErrValueSizeMem   (* exceedsSize("Value", valueThreshold(), …), InMemory only *)
| ErrBannedKey | ErrTxnTooBig | ErrBlockedWrites
| ErrCommitDiscarded  (* "Trying to commit a discarded txn" *)
| ErrCommitTsZero     (* "CommitTs cannot be zero. Please use commitAt instead" *)
| EPanic.

Definition merr_code (e : merr) : N :=
  match e with
  | ErrReadOnlyTxn => 1 | ErrDiscardedTxn => 2 | ErrEmptyKey => 3 | ErrInvalidKey => 4
  | ErrKeySize => 5 | ErrValueSize => 6 | ErrValueSizeMem => 7 | ErrBannedKey => 8
  | ErrTxnTooBig => 9 | ErrBlockedWrites => 10 | EPanic => 11
  | ErrCommitDiscarded => 13 | ErrCommitTsZero => 14
  end.

(* structs.go Entry: Key, Value, ExpiresAt, version, UserMeta, meta, valThreshold *)
Record entry := mkEntry {
  e_key : bytes; e_val : bytes; e_meta : N; e_umeta : N; e_expires : N; e_version : N;
  e_thr : Z   (* valThreshold: 0 = not yet cached *)
}.

Definition set_thr (e : entry) (thr : Z) : entry :=
  mkEntry (e_key e) (e_val e) (e_meta e) (e_umeta e) (e_expires e) (e_version e) thr.

Definition zlen (b : bytes) : Z := Z.of_nat (length b).

(* the threshold estimateSizeAndSetThreshold uses (and caches): the cached one unless it is 0 *)
Definition eff_thr (e : entry) (threshold : Z) : Z :=
  if (e_thr e =? 0)%Z then threshold else e_thr e.

(* structs.go estimateSizeAndSetThreshold *)
Definition estimate (e : entry) (threshold : Z) : Z * entry :=
  let thr := eff_thr e threshold in
  let k := zlen (e_key e) in
  let v := zlen (e_val e) in
  ((if (v <? thr)%Z then k + v + 2 else k + 12 + 2)%Z, set_thr e thr).

(* the part of Options / DB state that modify, isBanned and sendToWriteCh read *)
Record dbcfg := mkDb {
  d_vlog_file_size : Z;      (* opt.ValueLogFileSize *)
  d_in_memory : bool;        (* opt.InMemory *)
  d_ns_offset : Z;           (* opt.NamespaceOffset (int) *)
  d_banned : list N;         (* db.bannedNamespaces *)
  d_detect_conflicts : bool; (* opt.DetectConflicts *)
  d_max_batch_count : Z;     (* opt.maxBatchCount *)
  d_max_batch_size : Z       (* opt.maxBatchSize *)
}.

(* db.go isBanned.  None = nil.
     if NamespaceOffset < 0 -> nil;  if len(key) <= NamespaceOffset+8 -> nil;
     if banned.has(BytesToU64(key[NamespaceOffset:])) -> ErrBannedKey
   NamespaceOffset+8 wraps for offsets within 8 of MaxInt64; then key[off:] panics. *)
Definition ns_of (off : Z) (key : bytes) : N := be_dec (firstn 8 (skipn (Z.to_nat off) key)).

Definition is_banned (d : dbcfg) (key : bytes) : option merr :=
  let off := d_ns_offset d in
  if (off <? 0)%Z then None
  else if (zlen key <=? wrap64 (off + 8))%Z then None
  else if (zlen key <? off)%Z then Some EPanic
  else if existsb (N.eqb (ns_of off key)) (d_banned d) then Some ErrBannedKey
  else None.

(* txn.go Txn: update, discarded, count, size, conflictKeys (fingerprints: we keep the keys),
   pendingWrites (map string -> *Entry: association list, one binding per key), duplicateWrites *)
Record txn := mkTxn {
  t_update : bool; t_discarded : bool; t_count : Z; t_size : Z;
  t_conflict : list bytes;
  t_pending : list (bytes * entry);
  t_dups : list entry
}.

(* repair flag fix_marker_size (finding F4): false = the pinned tree, which reserves
   len(txnKey)+10 for the end marker; true = reserve the marker's real maximum
   (len(txnKey) + 8 version bytes + 20 decimal digits + 2). *)
Definition marker_reserve (fix_marker_size : bool) : Z :=
  if fix_marker_size then (zlen c_txnKey + 30)%Z else (zlen c_txnKey + 10)%Z.

(* txn.go newTransaction (update already forced to false for a read-only DB) *)
Definition new_txn (fix_marker_size : bool) (update : bool) : txn :=
  mkTxn update false 1 (marker_reserve fix_marker_size) [] [] [].

Fixpoint pending_get (k : bytes) (m : list (bytes * entry)) : option entry :=
  match m with
  | [] => None
  | (k', e) :: r => if bytes_eqb k' k then Some e else pending_get k r
  end.

Fixpoint pending_set (k : bytes) (e : entry) (m : list (bytes * entry)) : list (bytes * entry) :=
  match m with
  | [] => [(k, e)]
  | (k', e') :: r => if bytes_eqb k' k then (k, e) :: r else (k', e') :: pending_set k e r
  end.

(* txn.go exceedsSize: fmt.Errorf(…, hex.Dump(x[:1<<10])) — the slice expression panics when
   cap(x) < 1024.  cap is the capacity of the caller's slice (>= its length). *)
Definition exceeds_size (cap : nat) (e : merr) : merr :=
  if (cap <? 1024)%nat then EPanic else e.

(* txn.go checkSize: None = ErrTxnTooBig; otherwise the updated (count, size) and the entry
   with its threshold cached *)
Definition check_size (d : dbcfg) (thr : Z) (t : txn) (e : entry) : option (Z * Z * entry) :=
  let count := (t_count t + 1)%Z in
  let '(est, e') := estimate e thr in
  let size := (t_size t + est + 10)%Z in
  if ((count >=? d_max_batch_count d) || (size >=? d_max_batch_size d))%Z then None
  else Some (count, size, e').

(* txn.go modify.  thr = db.valueThreshold() at the time of the call; kcap, vcap = cap(e.Key),
   cap(e.Value) (only read by exceedsSize; the effective capacity is at least the length). *)
Definition modify (d : dbcfg) (thr : Z) (t : txn) (e : entry) (kcap vcap : nat) : txn * option merr :=
  let key := e_key e in
  if negb (t_update t) then (t, Some ErrReadOnlyTxn)
  else if t_discarded t then (t, Some ErrDiscardedTxn)
  else if (length key =? 0)%nat then (t, Some ErrEmptyKey)
  else if is_prefix c_badgerPrefix key then (t, Some ErrInvalidKey)
  else if (Z.of_N c_maxKeySize <? zlen key)%Z
       then (t, Some (exceeds_size (Nat.max (length key) kcap) ErrKeySize))
  else if (d_vlog_file_size d <? zlen (e_val e))%Z
       then (t, Some (exceeds_size (Nat.max (length (e_val e)) vcap) ErrValueSize))
  else if d_in_memory d && (thr <? zlen (e_val e))%Z
       then (t, Some (exceeds_size (Nat.max (length (e_val e)) vcap) ErrValueSizeMem))
  else match is_banned d key with
  | Some err => (t, Some err)
  | None =>
    match check_size d thr t e with
    | None => (t, Some ErrTxnTooBig)
    | Some (count, size, e') =>
        let conflict := if d_detect_conflicts d then t_conflict t ++ [key] else t_conflict t in
        let dups := match pending_get key (t_pending t) with
                    | Some old => if negb (e_version old =? e_version e') then t_dups t ++ [old]
                                  else t_dups t
                    | None => t_dups t
                    end in
        (mkTxn (t_update t) (t_discarded t) count size conflict
               (pending_set key e' (t_pending t)) dups, None)
    end
  end.

(* iterator.go isDeletedOrExpired (now = time.Now().Unix()) *)
Definition deleted_or_expired (meta expires now : N) : bool :=
  if 0 <? N.land meta c_bitDelete then true
  else if expires =? 0 then false
  else expires <=? now.

(* txn.go Txn.Get up to the point where the LSM tree is consulted *)
Inductive gres := GErr (e : merr) | GNotFound | GCached (e : entry) | GDb.

Definition txn_get (d : dbcfg) (t : txn) (key : bytes) (now : N) : gres :=
  if (length key =? 0)%nat then GErr ErrEmptyKey
  else if t_discarded t then GErr ErrDiscardedTxn
  else match is_banned d key with
  | Some err => GErr err
  | None =>
      if t_update t then
        match pending_get key (t_pending t) with
        | Some e => if deleted_or_expired (e_meta e) (e_expires e) now then GNotFound else GCached e
        | None => GDb
        end
      else GDb
  end.

(* strconv.FormatUint(x, 10) as bytes.  fuel 20 covers every uint64. *)
Fixpoint dec_digits_aux (fuel : nat) (x : N) (acc : bytes) : bytes :=
  match fuel with
  | O => acc
  | S f => let acc' := (48 + x mod 10) :: acc in
           if x / 10 =? 0 then acc' else dec_digits_aux f (x / 10) acc'
  end.
Definition dec_digits (x : N) : bytes := dec_digits_aux 20 x [].

Definition all_version0 (l : list entry) : bool := forallb (fun e => e_version e =? 0) l.

Definition with_commit_version (cts : N) (keep : bool) (e : entry) : entry :=
  let v := if e_version e =? 0 then cts else e_version e in
  mkEntry (key_with_ts (e_key e) v) (e_val e)
          (if keep then N.lor (e_meta e) c_bitTxn else e_meta e)
          (e_umeta e) (e_expires e) v (e_thr e).

Definition marker_entry (cts : N) : entry :=
  mkEntry (key_with_ts c_txnKey cts) (dec_digits cts) c_bitFinTxn 0 0 0 0.

(* txn.go commitAndSend: setVersion over pendingWrites then duplicateWrites, processEntry in the
   same order, end marker iff keepTogether.  (Go iterates the map in arbitrary order; the
   accounting below is a sum, so the order is immaterial for the outcome.) *)
Definition commit_entries (t : txn) (cts : N) : list entry :=
  let ws := map snd (t_pending t) ++ t_dups t in
  let keep := all_version0 ws in
  map (with_commit_version cts keep) ws ++ (if keep then [marker_entry cts] else []).

(* db.go sendToWriteCh: accounting over the final entry list *)
Fixpoint account (thr : Z) (es : list entry) (count size : Z) : Z * Z * list entry :=
  match es with
  | [] => (count, size, [])
  | e :: r => let '(est, e') := estimate e thr in
              let '(c, s, r') := account thr r (count + 1)%Z (size + est)%Z in
              (c, s, e' :: r')
  end.

Inductive sres := SOk (count size : Z) (es : list entry) | SErr (count size : Z) (e : merr).

Definition send_to_write_ch (d : dbcfg) (thr : Z) (blocked : bool) (es : list entry) : sres :=
  if blocked then SErr 0 0 ErrBlockedWrites
  else let '(count, size, es') := account thr es 0%Z 0%Z in
       if ((count >=? d_max_batch_count d) || (size >=? d_max_batch_size d))%Z
       then SErr count size ErrTxnTooBig
       else SOk count size es'.

(* txn.go Commit (conflict detection / timestamp allocation abstracted: cts is the commit
   timestamp the oracle handed out, or the CommitAt argument in managed mode; blocked =
   db.blockWrites; thr = db.valueThreshold() at commit time).
   commitPrecheck's keepTogether looks at pendingWrites only; it rejects cts = 0 in managed mode;
   in normal mode cts >= 1 always, so the y.AssertTrue(commitTs != 0) is never reached. *)
Inductive cres := CNoop | COk (count size : Z) (es : list entry) | CErr (e : merr)
| CCrash (* the request was queued; the writer goroutine panics: the process dies *).

(* db.go writeToLSM (run by the doWrites goroutine for a queued request): an entry that does not
   skipVlogAndSetThreshold is written as b.Ptrs[i].Encode(); in InMemory mode vlog.write returns
   early and b.Ptrs is empty, so the index expression panics in that goroutine.
   (skipVlog: len(value) < cached threshold — modify only rejects len(value) > threshold.) *)
Definition write_to_lsm_panics (d : dbcfg) (thr : Z) (es : list entry) : bool :=
  d_in_memory d && existsb (fun e => negb (zlen (e_val e) <? eff_thr e thr)%Z) es.

Definition commit (d : dbcfg) (thr : Z) (blocked : bool) (t : txn) (cts : N) : cres :=
  match t_pending t with
  | [] => CNoop
  | _ =>
      if t_discarded t then CErr ErrCommitDiscarded
      else if all_version0 (map snd (t_pending t)) && (cts =? 0) then CErr ErrCommitTsZero
      else match send_to_write_ch d thr blocked (commit_entries t cts) with
           | SErr _ _ e => CErr e
           | SOk c s es => if write_to_lsm_panics d thr es then CCrash else COk c s es
           end
  end.

(* a transaction script: calls of SetEntry / Set / Delete (all are modify) *)
Record call := mkCall { c_thr : Z; c_entry : entry; c_kcap : nat; c_vcap : nat }.

Fixpoint run_calls (d : dbcfg) (t : txn) (cs : list call) : txn * list (option merr) :=
  match cs with
  | [] => (t, [])
  | c :: r => let '(t', res) := modify d (c_thr c) t (c_entry c) (c_kcap c) (c_vcap c) in
              let '(t'', rs) := run_calls d t' r in
              (t'', res :: rs)
  end.
