(* ManifestProofs.v — ReplayManifestFile over file images: whole files, every byte prefix,
   wrong checksums, zero tails. *)
From Coq Require Import ZifyN ZifyNat ZifyBool.
From Verif Require Import Bytes BytesProofs Uvarint UvarintProofs Consts Crc32cM Manifest
  ManifestMapProofs ManifestPbProofs.
Open Scope N_scope.

(* ---- CRC-32C stays below 2^32 on byte strings ---- *)
Lemma lxor_lt32 a b : a < two32 -> b < two32 -> N.lxor a b < two32.
Proof.
  intros Ha Hb. destruct (N.eq_dec (N.lxor a b) 0) as [E|E]; [rewrite E; reflexivity|].
  change two32 with (2 ^ 32) in *. apply N.log2_lt_pow2; [lia|].
  pose proof (N.log2_lxor a b) as H.
  assert (N.log2 a < 32).
  { destruct (N.eq_dec a 0) as [->|Na]; [reflexivity|]. apply N.log2_lt_pow2; lia. }
  assert (N.log2 b < 32).
  { destruct (N.eq_dec b 0) as [->|Nb]; [reflexivity|]. apply N.log2_lt_pow2; lia. }
  lia.
Qed.

Lemma crcm_bit_lt c : c < two32 -> crcm_bit c < two32.
Proof.
  intros H. unfold crcm_bit.
  assert (N.shiftr c 1 < two32).
  { rewrite N.shiftr_div_pow2. change (2 ^ 1) with 2. unfold two32 in *.
    apply N.div_lt_upper_bound; lia. }
  destruct (N.odd c); auto. apply lxor_lt32; auto. reflexivity.
Qed.

Lemma crcm_byte_lt c b : c < two32 -> b < 256 -> crcm_byte c b < two32.
Proof.
  intros Hc Hb. unfold crcm_byte. repeat apply crcm_bit_lt.
  apply lxor_lt32; auto. unfold two32. lia.
Qed.

Lemma crc32c_m_lt l : wf_bytes l = true -> crc32c_m l < two32.
Proof.
  intros Hl. unfold crc32c_m. apply lxor_lt32; [|reflexivity].
  assert (G: forall c, c < two32 -> fold_left crcm_byte l c < two32).
  { induction l as [|b r IH]; intros c Hc; cbn [fold_left]; auto.
    cbn [wf_bytes forallb] in Hl. apply andb_true_iff in Hl. destruct Hl as [Hb Hr].
    apply IH; auto. apply crcm_byte_lt; auto. unfold wf_byte in Hb. lia. }
  apply G. reflexivity.
Qed.

(* ---- list helpers ---- *)
Lemma app_prefix_split {A} (h : list A) : forall b s p,
  b ++ s = h ++ p -> (length h <= length b)%nat -> exists p1, b = h ++ p1 /\ p = p1 ++ s.
Proof.
  induction h as [|x h IH]; intros b s p E L.
  - exists b. cbn in *. auto.
  - destruct b as [|y b]; [cbn in L; lia|]. cbn in E. inversion E; subst.
    destruct (IH b s p H1) as (p1 & -> & ->); [cbn in L; lia|]. exists p1. auto.
Qed.

Lemma be4_len x : length (be_enc 4 x) = 4%nat. Proof. apply be_enc_length. Qed.

Lemma be_dec_enc4 x : x < two32 -> be_dec (be_enc 4 x) = x.
Proof. intros H. apply be_dec_enc_small. rewrite <- two32_pow. auto. Qed.

Lemma rec_hdr_fields (a b : bytes) rest : length a = 4%nat -> length b = 4%nat ->
  firstn 4 (a ++ b ++ rest) = a /\ firstn 4 (skipn 4 (a ++ b ++ rest)) = b
  /\ skipn 8 (a ++ b ++ rest) = rest.
Proof.
  intros Ha Hb.
  destruct a as [|a1 [|a2 [|a3 [|a4 [|]]]]]; try discriminate.
  destruct b as [|b1 [|b2 [|b3 [|b4 [|]]]]]; try discriminate.
  cbn. auto.
Qed.

Lemma mf_record_len p : length (mf_record p) = (8 + length p)%nat.
Proof. unfold mf_record. rewrite !app_length, !be4_len. lia. Qed.

(* ---- one iteration of the record loop on a complete record ---- *)
Lemma replay_loop_step f fs off L C p rest m :
  L < two32 -> C < two32 -> N.of_nat (length p) = L ->
  replay_loop (S f) fs off (be_enc 4 L ++ be_enc 4 C ++ p ++ rest) m =
  if fs <? L then RErr ELenGtSize
  else if negb (crc32c_m p =? C) then RErr EBadChecksum
  else match pb_dec_changeset p with
       | DErr => RErr EUnmarshal
       | DUnsup => RErr EUnsupported
       | DOk cs =>
           match apply_changeset m cs with
           | (_, Some e) => RErr (EApply e)
           | (m', None) => replay_loop f fs (off + 8 + L) rest m'
           end
       end.
Proof.
  intros HL HC Hp. cbn [replay_loop].
  assert (E8: (length (be_enc 4 L ++ be_enc 4 C ++ p ++ rest) <? 8)%nat = false).
  { rewrite !app_length, !be4_len. apply Nat.ltb_ge. lia. }
  rewrite E8.
  destruct (rec_hdr_fields (be_enc 4 L) (be_enc 4 C) (p ++ rest) (be4_len _) (be4_len _))
    as (F1 & F2 & F3).
  rewrite F1, F2, F3, !be_dec_enc4 by auto.
  destruct (fs <? L); auto.
  assert (E: (N.of_nat (length (p ++ rest)) <? L) = false).
  { rewrite app_length. lia. }
  rewrite E. subst L. rewrite Nat2N.id, firstn_len_app, skipn_len_app. reflexivity.
Qed.

(* ---- the loop stops at a partial record (or reports its length field) ---- *)
Lemma replay_loop_partial f fs off L C p b s m :
  L < two32 -> N.of_nat (length p) = L -> s <> [] ->
  b ++ s = be_enc 4 L ++ be_enc 4 C ++ p ->
  replay_loop (S f) fs off b m =
  if ((8 <=? length b)%nat && (fs <? L))%bool then RErr ELenGtSize else ROk m off.
Proof.
  intros HL Hp Hs E. cbn [replay_loop].
  destruct (length b <? 8)%nat eqn:E8.
  - apply Nat.ltb_lt in E8. assert (X: (8 <=? length b)%nat = false) by (apply Nat.leb_gt; lia).
    now rewrite X.
  - apply Nat.ltb_ge in E8. assert (X: (8 <=? length b)%nat = true) by (apply Nat.leb_le; lia).
    rewrite X. cbn [andb].
    rewrite app_assoc in E.
    destruct (app_prefix_split (be_enc 4 L ++ be_enc 4 C) b s p E) as (p1 & -> & Hp1).
    { rewrite app_length, !be4_len. lia. }
    rewrite <- app_assoc.
    destruct (rec_hdr_fields (be_enc 4 L) (be_enc 4 C) p1 (be4_len _) (be4_len _)) as (F1 & F2 & F3).
    rewrite F1, F3, be_dec_enc4 by auto.
    destruct (fs <? L); auto.
    assert (X2: (N.of_nat (length p1) <? L) = true).
    { subst p. rewrite app_length in Hp. destruct s; [congruence|]. cbn [length] in Hp. lia. }
    now rewrite X2.
Qed.

Lemma replay_loop_nil f fs off m : replay_loop f fs off [] m = ROk m off.
Proof. destruct f; reflexivity. Qed.

(* ---- whole records ---- *)
Lemma apply_sets_wf css : forall m m' e, Forall (fun cs => wf_changeset cs = true) css ->
  man_wf m -> apply_sets m css = (m', e) -> man_wf m'.
Proof.
  induction css as [|cs r IH]; intros m m' e Hwf Hm H; cbn [apply_sets] in H.
  - inversion H; subst; auto.
  - inversion Hwf; subst.
    destruct (apply_changeset m cs) as [m1 [e1|]] eqn:E.
    + inversion H; subst. eapply apply_changeset_wf; eauto.
    + apply (IH m1 m' e); auto. eapply apply_changeset_wf; eauto.
Qed.

Lemma mf_records_cons cs r :
  mf_records (cs :: r) = mf_record (pb_changeset cs) ++ mf_records r.
Proof. reflexivity. Qed.

Lemma mf_records_app a b : mf_records (a ++ b) = mf_records a ++ mf_records b.
Proof. unfold mf_records. apply flat_map_app. Qed.

Lemma mf_records_len_ge css : (length css <= length (mf_records css))%nat.
Proof.
  induction css as [|cs r IH]; [cbn; lia|].
  rewrite mf_records_cons, app_length, mf_record_len. cbn [length]. lia.
Qed.

Lemma replay_loop_records css : forall f fs off m m' rest,
  Forall (fun cs => wf_changeset cs = true) css ->
  apply_sets m css = (m', None) ->
  N.of_nat (length (mf_records css)) <= fs -> fs < two32 ->
  replay_loop (length css + f) fs off (mf_records css ++ rest) m
  = replay_loop f fs (off + N.of_nat (length (mf_records css))) rest m'.
Proof.
  induction css as [|cs r IH]; intros f fs off m m' rest Hwf Hap Hfs Hfs32.
  - cbn in Hap. inversion Hap; subst. cbn [length Nat.add mf_records flat_map app].
    f_equal. lia.
  - inversion Hwf as [|? ? Hcs Hr]; subst.
    cbn [apply_sets] in Hap.
    destruct (apply_changeset m cs) as [m1 [e1|]] eqn:E; [discriminate|].
    rewrite mf_records_cons in *. rewrite app_length, mf_record_len in Hfs.
    cbn [length Nat.add]. unfold mf_record at 1. rewrite <- !app_assoc.
    set (p := pb_changeset cs) in *.
    rewrite replay_loop_step with (L := N.of_nat (length p)) (C := crc32c_m p); auto; try lia.
    2:{ apply crc32c_m_lt. apply pb_changeset_wf. }
    assert (X: (fs <? N.of_nat (length p)) = false) by lia. rewrite X.
    rewrite N.eqb_refl. cbn [negb].
    unfold p at 1. rewrite pb_roundtrip by auto. rewrite E.
    rewrite (IH f fs _ m1 m' rest); auto; try lia.
    f_equal. rewrite app_length, mf_record_len. fold p. lia.
Qed.

(* ---- the 8-byte magic ---- *)
Lemma magic_len : length c_magicText = 4%nat. Proof. reflexivity. Qed.
Lemma mf_header_len ext : length (mf_header ext) = 8%nat.
Proof. unfold mf_header. rewrite !app_length, !be_enc_length, magic_len. reflexivity. Qed.

Lemma version_fits : c_badgerMagicVersion < 65536. Proof. reflexivity. Qed.

Lemma be_dec_enc2 x : x < 65536 -> be_dec (be_enc 2 x) = x.
Proof. intros H. apply be_dec_enc_small. exact H. Qed.

Lemma hdr_fields (a b c rest : bytes) : length a = 4%nat -> length b = 2%nat -> length c = 2%nat ->
  firstn 4 (a ++ b ++ c ++ rest) = a /\ firstn 2 (skipn 6 (a ++ b ++ c ++ rest)) = c
  /\ firstn 2 (skipn 4 (a ++ b ++ c ++ rest)) = b /\ skipn 8 (a ++ b ++ c ++ rest) = rest.
Proof.
  intros Ha Hb Hc.
  destruct a as [|a1 [|a2 [|a3 [|a4 [|]]]]]; try discriminate.
  destruct b as [|b1 [|b2 [|]]]; try discriminate.
  destruct c as [|c1 [|c2 [|]]]; try discriminate.
  cbn. auto.
Qed.

Lemma replay_header ext rest : ext < 65536 ->
  replay ext (mf_header ext ++ rest)
  = replay_loop (S (8 + length rest)) (N.of_nat (8 + length rest) mod two32) 8 rest empty_manifest.
Proof.
  intros Hext. unfold replay.
  assert (L: length (mf_header ext ++ rest) = (8 + length rest)%nat)
    by (rewrite app_length, mf_header_len; reflexivity).
  rewrite L.
  assert (E8: (8 + length rest <? 8)%nat = false) by (apply Nat.ltb_ge; lia). rewrite E8.
  unfold mf_header. rewrite <- !app_assoc.
  destruct (hdr_fields c_magicText (be_enc 2 ext) (be_enc 2 c_badgerMagicVersion) rest)
    as (F1 & F2 & F3 & F4); auto using be_enc_length, magic_len.
  rewrite F1, F2, F3, F4, bytes_eqb_refl, !be_dec_enc2 by (auto using version_fits).
  rewrite !N.eqb_refl. reflexivity.
Qed.

Lemma replay_short ext file : (length file < 8)%nat -> replay ext file = RErr EBadMagic.
Proof. intros H. unfold replay. apply Nat.ltb_lt in H. now rewrite H. Qed.

(* ---- a whole image replays to the application of all its change sets ---- *)
Theorem replay_image ext css m' :
  ext < 65536 ->
  Forall (fun cs => wf_changeset cs = true) css ->
  apply_sets empty_manifest css = (m', None) ->
  N.of_nat (length (mf_image ext css)) < two32 ->
  replay ext (mf_image ext css) = ROk m' (N.of_nat (length (mf_image ext css))).
Proof.
  intros Hext Hwf Hap Hsz. unfold mf_image in *. rewrite replay_header by auto.
  rewrite app_length, mf_header_len in Hsz.
  rewrite N.mod_small by lia.
  pose proof (mf_records_len_ge css) as Hl.
  replace (S (8 + length (mf_records css)))
    with (length css + (S (8 + length (mf_records css)) - length css))%nat by lia.
  pose proof (replay_loop_records css (S (8 + length (mf_records css)) - length css)
                (N.of_nat (8 + length (mf_records css))) 8 empty_manifest m' [] Hwf Hap) as R.
  rewrite app_nil_r in R. rewrite R by lia.
  rewrite replay_loop_nil. f_equal. rewrite app_length, mf_header_len. lia.
Qed.

(* ---- every byte prefix ---- *)
Lemma apply_sets_firstn css : forall m m' j, apply_sets m css = (m', None) ->
  exists mj, apply_sets m (firstn j css) = (mj, None).
Proof.
  induction css as [|cs r IH]; intros m m' j H.
  - rewrite firstn_nil. eauto.
  - destruct j as [|j]; [cbn; eauto|]. cbn [firstn apply_sets] in *.
    destruct (apply_changeset m cs) as [m1 [e|]]; [discriminate|]. eapply IH; eauto.
Qed.

Lemma Forall_firstn {A} (P : A -> Prop) l j : Forall P l -> Forall P (firstn j l).
Proof.
  revert j. induction l as [|x r IH]; intros j H; [rewrite firstn_nil; auto|].
  destruct j; cbn; auto. inversion H; subst. constructor; auto.
Qed.

(* a byte prefix of a sequence of records = some whole records + a strict prefix of the next *)
Lemma firstn_records css : forall k,
  exists j p, (j <= length css)%nat /\
    firstn k (mf_records css) = mf_records (firstn j css) ++ p /\
    ((j = length css /\ p = []) \/
     (exists cs s, nth_error css j = Some cs /\ s <> [] /\ p ++ s = mf_record (pb_changeset cs))).
Proof.
  induction css as [|cs r IH]; intros k.
  - exists 0%nat, []. rewrite firstn_nil. cbn. auto.
  - rewrite mf_records_cons. set (R := mf_record (pb_changeset cs)).
    destruct (Nat.lt_ge_cases k (length R)) as [Hlt|Hge].
    + exists 0%nat, (firstn k R). split; [cbn; lia|]. split.
      * rewrite firstn_app. replace (k - length R)%nat with 0%nat by lia.
        cbn. now rewrite app_nil_r.
      * right. exists cs, (skipn k R). split; [reflexivity|]. split; [|apply firstn_skipn].
        intros Hnil. apply (f_equal (@length N)) in Hnil. rewrite skipn_length in Hnil.
        cbn [length] in Hnil. lia.
    + destruct (IH (k - length R)%nat) as (j & p & Hj & Hf & Hc).
      exists (S j), p. split; [cbn; lia|]. split.
      * rewrite firstn_app, firstn_all2 by lia. cbn [firstn]. rewrite mf_records_cons.
        fold R. rewrite <- app_assoc. now rewrite Hf.
      * destruct Hc as [[-> ->]|Hc]; [left; auto|right]. exact Hc.
Qed.

(* what replay returns on the first n bytes of an image *)
Theorem replay_prefix ext css mfin n :
  ext < 65536 ->
  Forall (fun cs => wf_changeset cs = true) css ->
  apply_sets empty_manifest css = (mfin, None) ->
  N.of_nat (length (mf_image ext css)) < two32 ->
  (n <= length (mf_image ext css))%nat ->
  (n < 8)%nat /\ replay ext (firstn n (mf_image ext css)) = RErr EBadMagic
  \/
  (8 <= n)%nat /\ exists j mj,
     (j <= length css)%nat /\ apply_sets empty_manifest (firstn j css) = (mj, None)
     /\ (length (mf_image ext (firstn j css)) <= n)%nat
     /\ (forall cs, nth_error css j = Some cs ->
           (n < length (mf_image ext (firstn j css)) + 8 + length (pb_changeset cs))%nat)
     /\ (replay ext (firstn n (mf_image ext css))
           = ROk mj (N.of_nat (length (mf_image ext (firstn j css))))
         \/ (replay ext (firstn n (mf_image ext css)) = RErr ELenGtSize
             /\ exists cs, nth_error css j = Some cs
                  /\ (length (mf_image ext (firstn j css)) + 8 <= n)%nat
                  /\ (n < length (pb_changeset cs))%nat)).
Proof.
  intros Hext Hwf Hap Hsz Hn.
  destruct (Nat.lt_ge_cases n 8) as [H8|H8].
  - left. split; auto. apply replay_short. rewrite firstn_length. lia.
  - right. split; auto. unfold mf_image in *.
    rewrite app_length, mf_header_len in Hsz, Hn.
    rewrite firstn_app, mf_header_len, firstn_all2 by (rewrite mf_header_len; lia).
    destruct (firstn_records css (n - 8)) as (j & p & Hj & Hf & Hc).
    destruct (apply_sets_firstn css empty_manifest mfin j Hap) as (mj & Hmj).
    exists j, mj. split; auto. split; auto.
    assert (Hlen: length (firstn (n - 8) (mf_records css)) = (n - 8)%nat)
      by (rewrite firstn_length; lia).
    rewrite Hf, app_length in Hlen.
    rewrite app_length, mf_header_len.
    split; [lia|].
    rewrite Hf, replay_header by auto.
    rewrite app_length. rewrite N.mod_small by lia.
    pose proof (mf_records_len_ge (firstn j css)) as Hl.
    set (F := S (8 + (length (mf_records (firstn j css)) + length p))).
    replace F with (length (firstn j css) + (F - length (firstn j css)))%nat by (unfold F; lia).
    rewrite (replay_loop_records (firstn j css) _ _ _ _ mj p); auto using Forall_firstn; try lia.
    destruct Hc as [[-> ->]|(cs & s & Hnth & Hs & Hps)].
    + split.
      * intros cs Hcs.
        pose proof (proj2 (nth_error_None css (length css)) (Nat.le_refl _)). congruence.
      * left. rewrite replay_loop_nil. f_equal. lia.
    + assert (Hlp: (length p < 8 + length (pb_changeset cs))%nat).
      { assert (length (p ++ s) = length (mf_record (pb_changeset cs))) by now rewrite Hps.
        rewrite app_length, mf_record_len in H. destruct s; [congruence|]. cbn [length] in H. lia. }
      split.
      * intros cs' Hcs'. rewrite Hnth in Hcs'. inversion Hcs'; subst. lia.
      * unfold mf_record in Hps.
        assert (Hcs_in: In cs css) by (eapply nth_error_In; eauto).
        assert (HLlt: N.of_nat (length (pb_changeset cs)) < two32).
        { pose proof (in_split cs css Hcs_in) as (l1 & l2 & ->).
          rewrite mf_records_app, mf_records_cons, !app_length, mf_record_len in Hsz. lia. }
        replace (F - length (firstn j css))%nat with (S (F - length (firstn j css) - 1))
          by (unfold F; lia).
        rewrite (replay_loop_partial _ _ _ (N.of_nat (length (pb_changeset cs)))
                   (crc32c_m (pb_changeset cs)) (pb_changeset cs) p s); auto.
        destruct ((8 <=? length p)%nat && (N.of_nat (8 + (length (mf_records (firstn j css)) + length p))
                                          <? N.of_nat (length (pb_changeset cs)))) eqn:EE.
        -- right. split; auto. exists cs. split; auto.
           apply andb_true_iff in EE. destruct EE as [E1 E2].
           apply Nat.leb_le in E1. lia.
        -- left. f_equal. lia.
Qed.

(* ---- a record whose checksum field does not match its payload ---- *)
Theorem replay_bad_checksum ext css m' C p rest :
  ext < 65536 ->
  Forall (fun cs => wf_changeset cs = true) css ->
  apply_sets empty_manifest css = (m', None) ->
  C < two32 -> crc32c_m p <> C ->
  N.of_nat (length (mf_image ext css ++ be_enc 4 (N.of_nat (length p)) ++ be_enc 4 C ++ p ++ rest)) < two32 ->
  replay ext (mf_image ext css ++ be_enc 4 (N.of_nat (length p)) ++ be_enc 4 C ++ p ++ rest)
  = RErr EBadChecksum.
Proof.
  intros Hext Hwf Hap HC Hne Hsz. unfold mf_image in *. rewrite <- app_assoc in *.
  rewrite replay_header by auto.
  rewrite !app_length, mf_header_len, !be4_len in Hsz.
  rewrite !app_length, !be4_len. rewrite N.mod_small by lia.
  pose proof (mf_records_len_ge css) as Hl.
  set (F := S (8 + (length (mf_records css) + (4 + (4 + (length p + length rest)))))).
  replace F with (length css + S (F - length css - 1))%nat by (unfold F; lia).
  rewrite (replay_loop_records css _ _ _ _ m'); auto; try lia.
  rewrite replay_loop_step with (L := N.of_nat (length p)) (C := C); auto; try lia.
  assert (X: (N.of_nat (8 + (length (mf_records css) + (4 + (4 + (length p + length rest)))))
              <? N.of_nat (length p)) = false) by lia.
  rewrite X. apply N.eqb_neq in Hne. rewrite Hne. reflexivity.
Qed.

(* ---- zero bytes after whole records: each 8 zero bytes are an empty change set ---- *)
Lemma crc_nil : crc32c_m [] = 0. Proof. reflexivity. Qed.

Lemma replay_loop_zeros k : forall f fs off m, (k <= f)%nat ->
  replay_loop (S f) fs off (repeat 0 k) m = ROk m (off + 8 * N.of_nat (k / 8)).
Proof.
  induction k as [k IH] using (well_founded_induction lt_wf). intros f fs off m Hf.
  destruct (Nat.lt_ge_cases k 8) as [H8|H8].
  - cbn [replay_loop]. rewrite repeat_length.
    assert (E: (k <? 8)%nat = true) by (apply Nat.ltb_lt; lia). rewrite E.
    rewrite Nat.div_small by lia. f_equal. lia.
  - replace k with (8 + (k - 8))%nat at 1 by lia. rewrite repeat_app.
    change (repeat 0 8) with (be_enc 4 0 ++ be_enc 4 0 ++ [] ++ []).
    rewrite <- !app_assoc. cbn [app].
    change (be_enc 4 0 ++ be_enc 4 0 ++ repeat 0 (k - 8))
      with (be_enc 4 0 ++ be_enc 4 0 ++ [] ++ repeat 0 (k - 8)).
    rewrite replay_loop_step with (L := 0) (C := 0); try reflexivity.
    assert (X: (fs <? 0) = false) by lia. rewrite X.
    rewrite crc_nil. cbn [N.eqb negb]. cbn [pb_dec_changeset length pb_dec_changeset_f apply_changeset].
    destruct f as [|f]; [lia|].
    rewrite IH by lia. f_equal.
    replace k with (1 * 8 + (k - 8))%nat at 2 by lia.
    rewrite Nat.div_add_l by lia. lia.
Qed.

Theorem replay_zero_tail ext css m' k :
  ext < 65536 ->
  Forall (fun cs => wf_changeset cs = true) css ->
  apply_sets empty_manifest css = (m', None) ->
  N.of_nat (length (mf_image ext css) + k) < two32 ->
  replay ext (mf_image ext css ++ repeat 0 k)
  = ROk m' (N.of_nat (length (mf_image ext css)) + 8 * N.of_nat (k / 8)).
Proof.
  intros Hext Hwf Hap Hsz. unfold mf_image in *. rewrite <- app_assoc.
  rewrite replay_header by auto.
  rewrite app_length, mf_header_len in Hsz.
  rewrite !app_length, repeat_length. rewrite N.mod_small by lia.
  pose proof (mf_records_len_ge css) as Hl.
  set (F := S (8 + (length (mf_records css) + k))).
  replace F with (length css + S (F - length css - 1))%nat by (unfold F; lia).
  rewrite (replay_loop_records css _ _ _ _ m'); auto; try lia.
  rewrite replay_loop_zeros by (unfold F; lia).
  f_equal. rewrite mf_header_len. lia.
Qed.

(* ---- a torn tail: whole records followed by a strict prefix of one more record ---- *)
Theorem replay_torn ext css m' L C payload p s :
  ext < 65536 ->
  Forall (fun cs => wf_changeset cs = true) css ->
  apply_sets empty_manifest css = (m', None) ->
  N.of_nat (length payload) = L -> L < two32 -> s <> [] ->
  p ++ s = be_enc 4 L ++ be_enc 4 C ++ payload ->
  N.of_nat (length (mf_image ext css ++ p)) < two32 ->
  replay ext (mf_image ext css ++ p)
  = if ((8 <=? length p)%nat && (N.of_nat (length (mf_image ext css ++ p)) <? L))%bool
    then RErr ELenGtSize
    else ROk m' (N.of_nat (length (mf_image ext css))).
Proof.
  intros Hext Hwf Hap HL HL32 Hs Hps Hsz. unfold mf_image in *. rewrite <- app_assoc in *.
  rewrite replay_header by auto.
  rewrite !app_length, mf_header_len in Hsz.
  rewrite !app_length, mf_header_len. rewrite N.mod_small by lia.
  pose proof (mf_records_len_ge css) as Hl.
  set (F := S (8 + (length (mf_records css) + length p))).
  replace F with (length css + S (F - length css - 1))%nat by (unfold F; lia).
  rewrite (replay_loop_records css _ _ _ _ m'); auto; try lia.
  rewrite (replay_loop_partial _ _ _ L C payload p s); auto.
  destruct ((8 <=? length p)%nat && (N.of_nat (8 + (length (mf_records css) + length p)) <? L)); auto.
  f_equal. lia.
Qed.

Corollary replay_torn_ok ext css m' C payload p s :
  ext < 65536 ->
  Forall (fun cs => wf_changeset cs = true) css ->
  apply_sets empty_manifest css = (m', None) ->
  N.of_nat (length payload) < two32 -> s <> [] ->
  p ++ s = be_enc 4 (N.of_nat (length payload)) ++ be_enc 4 C ++ payload ->
  N.of_nat (length (mf_image ext css ++ p)) < two32 ->
  ((length p < 8)%nat \/ (length payload <= length (mf_image ext css ++ p))%nat) ->
  replay ext (mf_image ext css ++ p) = ROk m' (N.of_nat (length (mf_image ext css))).
Proof.
  intros Hext Hwf Hap HL Hs Hps Hsz Hcond.
  rewrite (replay_torn ext css m' (N.of_nat (length payload)) C payload p s); auto.
  assert (X: ((8 <=? length p)%nat
              && (N.of_nat (length (mf_image ext css ++ p)) <? N.of_nat (length payload))) = false).
  { apply andb_false_iff. destruct Hcond as [H|H]; [left; apply Nat.leb_gt; lia|right; lia]. }
  now rewrite X.
Qed.

Corollary replay_torn_lensize ext css m' C payload p s :
  ext < 65536 ->
  Forall (fun cs => wf_changeset cs = true) css ->
  apply_sets empty_manifest css = (m', None) ->
  N.of_nat (length payload) < two32 -> s <> [] ->
  p ++ s = be_enc 4 (N.of_nat (length payload)) ++ be_enc 4 C ++ payload ->
  N.of_nat (length (mf_image ext css ++ p)) < two32 ->
  (8 <= length p)%nat -> (length (mf_image ext css ++ p) < length payload)%nat ->
  replay ext (mf_image ext css ++ p) = RErr ELenGtSize.
Proof.
  intros Hext Hwf Hap HL Hs Hps Hsz H8 Hlt.
  rewrite (replay_torn ext css m' (N.of_nat (length payload)) C payload p s); auto.
  assert (X: ((8 <=? length p)%nat
              && (N.of_nat (length (mf_image ext css ++ p)) <? N.of_nat (length payload))) = true).
  { apply andb_true_iff. split; [apply Nat.leb_le; lia|lia]. }
  now rewrite X.
Qed.

(* a record whose payload bytes were replaced (same length) so that the CRC differs *)
Corollary replay_altered_payload ext css m' cs p' rest :
  ext < 65536 ->
  Forall (fun cs => wf_changeset cs = true) css ->
  apply_sets empty_manifest css = (m', None) ->
  length p' = length (pb_changeset cs) ->
  crc32c_m p' <> crc32c_m (pb_changeset cs) ->
  N.of_nat (length (mf_image ext css ++ be_enc 4 (N.of_nat (length p'))
                    ++ be_enc 4 (crc32c_m (pb_changeset cs)) ++ p' ++ rest)) < two32 ->
  replay ext (mf_image ext css ++ be_enc 4 (N.of_nat (length (pb_changeset cs)))
              ++ be_enc 4 (crc32c_m (pb_changeset cs)) ++ p' ++ rest)
  = RErr EBadChecksum.
Proof.
  intros Hext Hwf Hap Hlen Hne Hsz. rewrite <- Hlen.
  apply (replay_bad_checksum ext css m'); auto.
  apply crc32c_m_lt, pb_changeset_wf.
Qed.

(* all-or-nothing, in one sentence: a byte prefix replays to an error (too short for the magic,
   or a torn length field larger than the file) or to the state after j WHOLE change sets *)
Corollary replay_prefix_atomic ext css mfin n :
  ext < 65536 ->
  Forall (fun cs => wf_changeset cs = true) css ->
  apply_sets empty_manifest css = (mfin, None) ->
  N.of_nat (length (mf_image ext css)) < two32 ->
  (n <= length (mf_image ext css))%nat ->
  replay ext (firstn n (mf_image ext css)) = RErr EBadMagic
  \/ replay ext (firstn n (mf_image ext css)) = RErr ELenGtSize
  \/ exists j mj, (j <= length css)%nat
       /\ apply_sets empty_manifest (firstn j css) = (mj, None)
       /\ replay ext (firstn n (mf_image ext css))
          = ROk mj (N.of_nat (length (mf_image ext (firstn j css)))).
Proof.
  intros Hext Hwf Hap Hsz Hn.
  destruct (replay_prefix ext css mfin n Hext Hwf Hap Hsz Hn) as [[_ H]|[_ (j & mj & Hj & Hmj & _ & _ & [H|[H _]])]].
  - left. exact H.
  - right. right. exists j, mj. auto.
  - right. left. exact H.
Qed.
