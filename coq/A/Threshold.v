(* Threshold.v — structs.go Entry.estimateSizeAndSetThreshold / skipVlogAndSetThreshold:
   the per-entry cached value threshold. *)
From Verif Require Import Bytes.
Open Scope Z_scope.

(* state: the entry's cached valThreshold (0 = not set yet) *)
Definition set_threshold (cached db_threshold : Z) : Z := if cached =? 0 then db_threshold else cached.

Definition estimate_size (klen vlen cached db_threshold : Z) : Z * Z :=
  let c := set_threshold cached db_threshold in
  (if vlen <? c then klen + vlen + 2 else klen + 12 + 2, c).

Definition skip_vlog (vlen cached db_threshold : Z) : bool * Z :=
  let c := set_threshold cached db_threshold in (vlen <? c, c).

(* the decisions taken along a sequence of observed database thresholds
   (modify, sendToWriteCh, vlog.write, writeToLSM each consult the entry once) *)
Fixpoint decisions (vlen cached : Z) (ths : list Z) : list bool :=
  match ths with
  | [] => []
  | t :: r => let '(d, c) := skip_vlog vlen cached t in d :: decisions vlen c r
  end.
