(* MergeIterProofs.v — proofs about the model of table/merge_iterator.go in MergeIter.v *)
From Verif Require Import Bytes MergeIter.
From Coq Require Import Sorted ZifyNat ZifyBool.
Local Open Scope nat_scope.

Section MergeProofs.
Variables K V : Type.
Variable cmp : K -> K -> option comparison.
Variable keqb : K -> K -> bool.
Variable knil : K.

(* what is assumed of the parameters: CompareKeys is a total order [tcmp] on the keys it does not
   panic on ([good]: at least 8 bytes), bytes.Equal decides equality *)
Variable tcmp : K -> K -> comparison.
Variable good : K -> Prop.
Hypothesis tcmp_eq : forall a b, tcmp a b = Eq <-> a = b.
Hypothesis tcmp_anti : forall a b, tcmp b a = CompOpp (tcmp a b).
Hypothesis tcmp_trans : forall a b c, tcmp a b = Lt -> tcmp b c = Lt -> tcmp a c = Lt.
Hypothesis cmp_good : forall a b, good a -> good b -> cmp a b = Some (tcmp a b).
Hypothesis keqb_spec : forall a b, keqb a b = true <-> a = b.

Local Notation entry := (entry K V).
Local Notation iter := (iter K V).
Local Notation node := (node K V).
Local Notation mstate := (mstate K V).
Local Notation it_valid := (it_valid K V).
Local Notation it_key := (it_key K V knil).
Local Notation it_value := (it_value K V).
Local Notation node_setkey := (node_setkey K V knil).
Local Notation node_next := (node_next K V knil).
Local Notation m_small := (m_small K V).
Local Notation m_bigger := (m_bigger K V).
Local Notation swap_small := (swap_small K V).
Local Notation set_right := (set_right K V).
Local Notation set_small := (set_small K V).
Local Notation m_fix := (m_fix K V cmp knil).
Local Notation m_next_loop := (m_next_loop K V cmp keqb knil).
Local Notation m_set_current := (m_set_current K V).
Local Notation to_iter := (to_iter K V).
Local Notation remaining := (remaining K V).
Local Notation height := (height K V).
Local Notation next_d := (next_d K V cmp keqb knil).
Local Notation it_next := (it_next K V cmp keqb knil).
Local Notation it_rewind := (it_rewind K V cmp keqb knil).
Local Notation it_seek := (it_seek K V cmp keqb knil).
Local Notation dir := (dir K V).
Local Notation drop_before := (drop_before K V cmp).
Local Notation umerge := (umerge K V).
Local Notation new_node2 := (new_node2 K V knil).
Local Notation new_merge_f := (new_merge_f K V knil).
Local Notation new_merge := (new_merge K V knil).
Local Notation new_leaf := (new_leaf K V).
Local Notation new_merge_inputs := (new_merge_inputs K V knil).
Local Notation apply_op := (apply_op K V cmp keqb knil).
Local Notation run_ops := (run_ops K V cmp keqb knil).
Local Notation drain := (drain K V cmp keqb knil).
Local Notation drain_all := (drain_all K V cmp keqb knil).

(* ------------------------------------------------------------------------------------- *)
(* iteration order: ascending, or descending when reversed *)
Definition dcmp (rv : bool) (a b : K) : comparison := if rv then tcmp b a else tcmp a b.

Lemma tcmp_refl a : tcmp a a = Eq.
Proof. apply tcmp_eq. reflexivity. Qed.

Lemma dcmp_eq rv a b : dcmp rv a b = Eq <-> a = b.
Proof. unfold dcmp. destruct rv; rewrite tcmp_eq; intuition congruence. Qed.
Lemma dcmp_anti rv a b : dcmp rv b a = CompOpp (dcmp rv a b).
Proof. unfold dcmp. destruct rv; apply tcmp_anti. Qed.
Lemma dcmp_trans rv a b c : dcmp rv a b = Lt -> dcmp rv b c = Lt -> dcmp rv a c = Lt.
Proof. unfold dcmp. destruct rv; eauto. Qed.

Definition keys (l : list entry) : list K := map fst l.
Definition gkeys (l : list entry) : Prop := Forall (fun e => good (fst e)) l.

Lemma key_eq_dec (a b : K) : {a = b} + {a <> b}.
Proof.
  destruct (tcmp a b) eqn:E.
  - left. apply tcmp_eq. exact E.
  - right. intro H. apply tcmp_eq in H. congruence.
  - right. intro H. apply tcmp_eq in H. congruence.
Qed.

Lemma key_in_dec (k : K) (l : list K) : {In k l} + {~ In k l}.
Proof. apply in_dec. apply key_eq_dec. Qed.

(* ------------------------------------------------------------------------------------- *)
Section Order.
Variable o : K -> K -> comparison.
Hypothesis o_eq : forall a b, o a b = Eq <-> a = b.
Hypothesis o_anti : forall a b, o b a = CompOpp (o a b).
Hypothesis o_trans : forall a b c, o a b = Lt -> o b c = Lt -> o a c = Lt.

Definition lt_e (a b : entry) : Prop := o (fst a) (fst b) = Lt.
Definition sorted (l : list entry) : Prop := StronglySorted lt_e l.

Lemma o_refl a : o a a = Eq.
Proof. apply o_eq. reflexivity. Qed.

Lemma o_gt_lt a b : o a b = Gt -> o b a = Lt.
Proof. intros H. rewrite o_anti, H. reflexivity. Qed.

Lemma o_lt_gt a b : o a b = Lt -> o b a = Gt.
Proof. intros H. rewrite o_anti, H. reflexivity. Qed.

Lemma o_irrefl a : o a a <> Lt.
Proof. rewrite o_refl. discriminate. Qed.

Lemma sorted_inv a l : sorted (a :: l) -> sorted l /\ Forall (lt_e a) l.
Proof. intros H. inversion H; subst. split; assumption. Qed.

Lemma sorted_tl l : sorted l -> sorted (tl l).
Proof. destruct l; cbn; [auto|]. intros H. apply sorted_inv in H. tauto. Qed.

Lemma sorted_head_notin a l : sorted (a :: l) -> ~ In (fst a) (keys l).
Proof.
  intros H Hin. apply sorted_inv in H. destruct H as [_ Hall].
  unfold keys in Hin. apply in_map_iff in Hin. destruct Hin as (e & He & Hine).
  rewrite Forall_forall in Hall. specialize (Hall e Hine). unfold lt_e in Hall.
  rewrite He in Hall. exact (o_irrefl _ Hall).
Qed.

Lemma lt_e_trans_forall a b l : lt_e a b -> Forall (lt_e b) l -> Forall (lt_e a) l.
Proof.
  intros Hab Hl. rewrite Forall_forall in *. intros x Hx. unfold lt_e in *. eauto.
Qed.

(* ---- umerge ---- *)
Lemma umerge_nil_r l : umerge o l [] = l.
Proof. destruct l; reflexivity. Qed.

Lemma umerge_cons a l b r :
  umerge o (a :: l) (b :: r) =
  match o (fst a) (fst b) with
  | Lt => a :: umerge o l (b :: r)
  | Eq => a :: umerge o l r
  | Gt => b :: umerge o (a :: l) r
  end.
Proof. cbn [MergeIter.umerge]. destruct (o (fst a) (fst b)); reflexivity. Qed.

Lemma umerge_ind (P : list entry -> list entry -> list entry -> Prop) :
  (forall r, P [] r r) ->
  (forall l, P l [] l) ->
  (forall a l b r, o (fst a) (fst b) = Lt -> P l (b :: r) (umerge o l (b :: r)) ->
                   P (a :: l) (b :: r) (a :: umerge o l (b :: r))) ->
  (forall a l b r, o (fst a) (fst b) = Eq -> P l r (umerge o l r) ->
                   P (a :: l) (b :: r) (a :: umerge o l r)) ->
  (forall a l b r, o (fst a) (fst b) = Gt -> P (a :: l) r (umerge o (a :: l) r) ->
                   P (a :: l) (b :: r) (b :: umerge o (a :: l) r)) ->
  forall l r, P l r (umerge o l r).
Proof.
  intros Hn1 Hn2 Hlt Heq Hgt. induction l as [|a l IHl]; intros r.
  - apply Hn1.
  - induction r as [|b r IHr].
    + rewrite umerge_nil_r. apply Hn2.
    + rewrite umerge_cons. destruct (o (fst a) (fst b)) eqn:E.
      * apply Heq; auto.
      * apply Hlt; auto.
      * apply Hgt; auto.
Qed.

Lemma umerge_Forall (P : entry -> Prop) l r :
  Forall P l -> Forall P r -> Forall P (umerge o l r).
Proof.
  revert l r. apply (umerge_ind (fun l r u => Forall P l -> Forall P r -> Forall P u)); auto.
  - intros a l b r _ IH Hl Hr. inversion Hl; subst. constructor; auto.
  - intros a l b r _ IH Hl Hr. inversion Hl; subst. inversion Hr; subst. constructor; auto.
  - intros a l b r _ IH Hl Hr. inversion Hr; subst. constructor; auto.
Qed.

Lemma umerge_In e l r : In e (umerge o l r) -> In e l \/ In e r.
Proof.
  revert l r. apply (umerge_ind (fun l r u => In e u -> In e l \/ In e r)); auto.
  - intros a l b r _ IH [H|H]; [left; left; auto|]. destruct (IH H); [left; right|right]; auto.
  - intros a l b r _ IH [H|H]; [left; left; auto|]. destruct (IH H); [left; right|right; right]; auto.
  - intros a l b r _ IH [H|H]; [right; left; auto|]. destruct (IH H); [left|right; right]; auto.
Qed.

Lemma umerge_length l r : length (umerge o l r) <= length l + length r.
Proof.
  revert l r. apply (umerge_ind (fun l r u => length u <= length l + length r)); intros; cbn in *; lia.
Qed.

Lemma umerge_sorted l r : sorted l -> sorted r -> sorted (umerge o l r).
Proof.
  revert l r. apply (umerge_ind (fun l r u => sorted l -> sorted r -> sorted u)); auto.
  - intros a l b r E IH Hl Hr. apply sorted_inv in Hl. destruct Hl as [Hl Hal].
    constructor; [apply IH; auto|].
    apply umerge_Forall; [exact Hal|].
    apply sorted_inv in Hr. destruct Hr as [_ Hbr].
    constructor; [exact E|]. eapply lt_e_trans_forall; [exact E|exact Hbr].
  - intros a l b r E IH Hl Hr. apply sorted_inv in Hl. destruct Hl as [Hl Hal].
    apply sorted_inv in Hr. destruct Hr as [Hr Hbr].
    constructor; [apply IH; auto|].
    apply umerge_Forall; [exact Hal|].
    apply o_eq in E. unfold lt_e in *. rewrite E. exact Hbr.
  - intros a l b r E IH Hl Hr. apply sorted_inv in Hr. destruct Hr as [Hr Hbr].
    constructor; [apply IH; auto|].
    apply umerge_Forall; [|exact Hbr].
    apply o_gt_lt in E.
    constructor; [exact E|]. apply sorted_inv in Hl. destruct Hl as [_ Hal].
    eapply lt_e_trans_forall; [exact E|exact Hal].
Qed.

(* the head of the merge when one side's head comes strictly first *)
Lemma umerge_hd_left a l r :
  (r = [] \/ exists b r', r = b :: r' /\ o (fst a) (fst b) = Lt) ->
  umerge o (a :: l) r = a :: umerge o l r.
Proof.
  intros [->|(b & r' & -> & E)].
  - rewrite !umerge_nil_r. reflexivity.
  - rewrite umerge_cons, E. reflexivity.
Qed.

Lemma umerge_hd_right b r l :
  (l = [] \/ exists a l', l = a :: l' /\ o (fst b) (fst a) = Lt) ->
  umerge o l (b :: r) = b :: umerge o l r.
Proof.
  intros [->|(a & l' & -> & E)].
  - reflexivity.
  - rewrite umerge_cons, (o_lt_gt _ _ E). reflexivity.
Qed.

(* equal heads: the right copy is dropped, i.e. advancing the right side changes nothing *)
Lemma umerge_skip_eq a l b r :
  sorted (b :: r) -> o (fst a) (fst b) = Eq ->
  umerge o (a :: l) (b :: r) = umerge o (a :: l) r.
Proof.
  intros Hs E. rewrite umerge_cons, E. symmetry. apply umerge_hd_left.
  destruct r as [|c r']; [left; reflexivity|right].
  exists c, r'. split; [reflexivity|].
  apply sorted_inv in Hs. destruct Hs as [_ Hb]. inversion Hb; subst.
  apply o_eq in E. unfold lt_e in *. rewrite E. assumption.
Qed.

(* membership: everything of l, and of r what l has no key for *)
Lemma umerge_In_iff l r : sorted l -> sorted r ->
  forall k v, In (k, v) (umerge o l r) <-> In (k, v) l \/ (In (k, v) r /\ ~ In k (keys l)).
Proof.
  revert l r.
  apply (umerge_ind (fun l r u => sorted l -> sorted r ->
    forall k v, In (k, v) u <-> In (k, v) l \/ (In (k, v) r /\ ~ In k (keys l)))).
  - intros r _ _ k v. cbn. tauto.
  - intros l _ _ k v. cbn. tauto.
  - (* Lt *) intros a l b r E IH Hl Hr k v.
    pose proof (sorted_inv _ _ Hl) as [Hl' Hal].
    specialize (IH Hl' Hr k v). cbn [In keys map]. rewrite IH. clear IH.
    split.
    + intros [H|[H|[H1 H2]]]; auto. right. split; [exact H1|].
      intros [Hk|Hk]; [|exact (H2 Hk)].
      (* k = fst a, but every key of b :: r is after a *)
      assert (Hall : Forall (lt_e a) (b :: r)).
      { constructor; [exact E|]. apply sorted_inv in Hr. destruct Hr as [_ Hbr].
        eapply lt_e_trans_forall; [exact E|exact Hbr]. }
      rewrite Forall_forall in Hall. specialize (Hall _ H1). unfold lt_e in Hall. cbn in Hall.
      rewrite Hk in Hall. exact (o_irrefl _ Hall).
    + intros [[H|H]|[H1 H2]]; auto. right. right. split; [exact H1|]. intro Hk. apply H2. right. exact Hk.
  - (* Eq *) intros a l b r E IH Hl Hr k v.
    pose proof (sorted_inv _ _ Hl) as [Hl' Hal]. pose proof (sorted_inv _ _ Hr) as [Hr' Hbr].
    specialize (IH Hl' Hr' k v). cbn [In keys map]. rewrite IH. clear IH.
    apply o_eq in E.
    split.
    + intros [H|[H|[H1 H2]]]; auto. right. split; [right; exact H1|].
      intros [Hk|Hk]; [|exact (H2 Hk)].
      rewrite Forall_forall in Hbr. specialize (Hbr _ H1). unfold lt_e in Hbr. cbn in Hbr.
      rewrite <- E, Hk in Hbr. exact (o_irrefl _ Hbr).
    + intros [[H|H]|[[H1|H1] H2]]; auto.
      * exfalso. apply H2. left. rewrite E, H1. reflexivity.
      * right. right. split; [exact H1|]. intro Hk. apply H2. right. exact Hk.
  - (* Gt *) intros a l b r E IH Hl Hr k v.
    pose proof (sorted_inv _ _ Hr) as [Hr' Hbr].
    specialize (IH Hl Hr' k v). cbn [In]. rewrite IH. clear IH.
    apply o_gt_lt in E.
    split.
    + intros [H|[H|[H1 H2]]]; auto. right. split; [left; exact H|].
      (* the key of b is before every key of a :: l *)
      subst b. cbn in E. intro Hk.
      assert (Hall : Forall (lt_e (k, v)) (a :: l)).
      { constructor; [exact E|]. apply sorted_inv in Hl. destruct Hl as [_ Hal].
        eapply lt_e_trans_forall; [exact E|exact Hal]. }
      unfold keys in Hk. apply in_map_iff in Hk. destruct Hk as (e & He & Hine).
      rewrite Forall_forall in Hall. specialize (Hall _ Hine). unfold lt_e in Hall. cbn in Hall.
      rewrite He in Hall. exact (o_irrefl _ Hall).
    + intros [H|[[H1|H1] H2]]; auto.
Qed.

Lemma umerge_keys l r : sorted l -> sorted r ->
  forall k, In k (keys (umerge o l r)) <-> In k (keys l) \/ In k (keys r).
Proof.
  intros Hl Hr k. unfold keys. rewrite !in_map_iff. split.
  - intros (e & He & Hin). apply umerge_In in Hin. destruct Hin; [left|right]; eauto.
  - intros [(e & He & Hin)|(e & He & Hin)].
    + exists e. split; [exact He|]. destruct e as [k' v]. apply umerge_In_iff; auto.
    + destruct (key_in_dec k (keys l)) as [Hk|Hk].
      * unfold keys in Hk. apply in_map_iff in Hk. destruct Hk as (e' & He' & Hin').
        exists e'. split; [exact He'|]. destruct e' as [k' v']. apply umerge_In_iff; auto.
      * exists e. split; [exact He|]. destruct e as [k' v]. cbn in He. subst k'.
        apply umerge_In_iff; auto.
Qed.

(* two strictly sorted lists with the same entries are equal *)
Lemma sorted_ext l1 l2 : sorted l1 -> sorted l2 ->
  (forall e, In e l1 <-> In e l2) -> l1 = l2.
Proof.
  revert l2. induction l1 as [|a l1 IH]; intros l2 H1 H2 Hext.
  - destruct l2 as [|b l2]; [reflexivity|]. exfalso. apply (Hext b). left. reflexivity.
  - destruct l2 as [|b l2]; [exfalso; apply (Hext a); left; reflexivity|].
    pose proof (sorted_inv _ _ H1) as [H1' Ha]. pose proof (sorted_inv _ _ H2) as [H2' Hb].
    rewrite Forall_forall in Ha, Hb.
    assert (Hab : a = b).
    { destruct (proj1 (Hext a) (or_introl eq_refl)) as [Hba|Hin2]; [auto|].
      destruct (proj2 (Hext b) (or_introl eq_refl)) as [Hab|Hin1]; [auto|].
      exfalso. pose proof (Hb _ Hin2) as L1. pose proof (Ha _ Hin1) as L2. unfold lt_e in *.
      exact (o_irrefl _ (o_trans _ _ _ L1 L2)). }
    subst b. f_equal. apply IH; auto.
    intros e. split; intros Hin.
    + destruct (proj1 (Hext e) (or_intror Hin)) as [He|]; [|assumption].
      subst e. exfalso. exact (o_irrefl _ (Ha _ Hin)).
    + destruct (proj2 (Hext e) (or_intror Hin)) as [He|]; [|assumption].
      subst e. exfalso. exact (o_irrefl _ (Hb _ Hin)).
Qed.

(* ---- skipping to a target ---- *)
Definition is_lt (c : comparison) : bool := match c with Lt => true | _ => false end.

Fixpoint skipb (k : K) (l : list entry) : list entry :=
  match l with
  | [] => []
  | e :: l' => if is_lt (o (fst e) k) then skipb k l' else l
  end.

Lemma skipb_sorted k l : sorted l -> sorted (skipb k l).
Proof.
  induction l as [|e l IH]; intros Hs; cbn; [auto|].
  destruct (is_lt (o (fst e) k)); [|exact Hs]. apply IH. apply sorted_inv in Hs. tauto.
Qed.

Lemma skipb_Forall (P : entry -> Prop) k l : Forall P l -> Forall P (skipb k l).
Proof.
  induction l as [|e l IH]; intros Hs; cbn; [auto|].
  destruct (is_lt (o (fst e) k)); [|exact Hs]. apply IH. inversion Hs; auto.
Qed.

Lemma not_lt_after x y k : is_lt (o x k) = false -> o x y = Lt -> is_lt (o y k) = false.
Proof.
  intros Hx Hxy. destruct (o y k) eqn:E; try reflexivity.
  rewrite (o_trans _ _ _ Hxy E) in Hx. discriminate.
Qed.

Lemma skipb_umerge k l r :
  skipb k (umerge o l r) = umerge o (skipb k l) (skipb k r).
Proof.
  revert l r.
  apply (umerge_ind (fun l r u => skipb k u = umerge o (skipb k l) (skipb k r))).
  - intros r. reflexivity.
  - intros l. rewrite umerge_nil_r. reflexivity.
  - intros a l b r E IH. cbn [skipb]. destruct (is_lt (o (fst a) k)) eqn:Ea.
    + exact IH.
    + rewrite (not_lt_after _ _ _ Ea E). rewrite umerge_cons, E. reflexivity.
  - intros a l b r E IH. cbn [skipb]. pose proof E as E'. apply o_eq in E'. rewrite <- E'.
    destruct (is_lt (o (fst a) k)) eqn:Ea.
    + exact IH.
    + rewrite umerge_cons, E. reflexivity.
  - intros a l b r E IH. cbn [skipb]. destruct (is_lt (o (fst b) k)) eqn:Eb.
    + rewrite IH. cbn [skipb]. reflexivity.
    + rewrite (not_lt_after _ _ _ Eb (o_gt_lt _ _ E)). rewrite umerge_cons, E. reflexivity.
Qed.

(* what Seek promises: nothing before the target is kept, nothing at or after it is lost *)
Lemma skipb_spec k l : sorted l ->
  forall e, In e (skipb k l) <-> In e l /\ o (fst e) k <> Lt.
Proof.
  induction l as [|a l IH]; intros Hs e; cbn [skipb]; [cbn; tauto|].
  pose proof (sorted_inv _ _ Hs) as [Hs' Ha].
  destruct (is_lt (o (fst a) k)) eqn:Ea.
  - rewrite (IH Hs'). cbn [In]. split; [tauto|]. intros [[H|H] Hn]; [|tauto].
    subst e. destruct (o (fst a) k); try discriminate. congruence.
  - split; [|tauto]. intros Hin. split; [exact Hin|]. destruct Hin as [H|H].
    + subst e. destruct (o (fst a) k); try discriminate; congruence.
    + rewrite Forall_forall in Ha. specialize (Ha _ H).
      pose proof (not_lt_after _ _ _ Ea Ha) as Hn. destruct (o (fst e) k); try discriminate; congruence.
Qed.

End Order.
(* ------------------------------------------------------------------------------------- *)
(* The iterator as a stream: what it will still yield ([stream]) and what it yields after
   Rewind ([full]).                                                                        *)
Ltac dord := solve [apply dcmp_eq | apply dcmp_anti | apply dcmp_trans].

Fixpoint stream (it : iter) : list entry :=
  match it with
  | Leaf _ _ rest => rest
  | Merge rv _ _ l _ _ r _ _ => umerge (dcmp rv) (stream l) (stream r)
  end.

Fixpoint full (it : iter) : list entry :=
  match it with
  | Leaf rv all _ => dir rv all
  | Merge rv _ _ l _ _ r _ _ => umerge (dcmp rv) (full l) (full r)
  end.

Definition cache_ok (v : bool) (k : K) (it : iter) : Prop :=
  v = it_valid it /\ (v = true -> k = it_key it).

Definition ordered (rv : bool) (sv : bool) (sk : K) (bv : bool) (bk : K) : Prop :=
  (bv = true -> sv = true) /\ (sv = true -> bv = true -> dcmp rv sk bk = Lt).

(* the invariant of every reachable iterator state *)
Fixpoint wf (rv : bool) (it : iter) : Prop :=
  match it with
  | Leaf rv' all rest =>
      rv' = rv /\ sorted tcmp all /\ gkeys all /\ sorted (dcmp rv) rest /\ gkeys rest
  | Merge rv' lv lk l rvv rk r sl cur =>
      rv' = rv /\ wf rv l /\ wf rv r /\ cache_ok lv lk l /\ cache_ok rvv rk r /\
      (if sl then ordered rv lv lk rvv rk else ordered rv rvv rk lv lk) /\
      ((if sl then lv else rvv) = true -> cur = (if sl then lk else rk))
  end.

Definition ncache (n : node) : Prop := cache_ok (n_valid n) (n_key n) (n_it n).
Definition m_children_ok (rv : bool) (m : mstate) : Prop :=
  m_rev m = rv /\ wf rv (n_it (m_left m)) /\ wf rv (n_it (m_right m)) /\
  ncache (m_left m) /\ ncache (m_right m).
Definition m_ordered (m : mstate) : Prop :=
  ordered (m_rev m) (n_valid (m_small m)) (n_key (m_small m))
          (n_valid (m_bigger m)) (n_key (m_bigger m)).
Definition m_cur_ok (m : mstate) : Prop :=
  n_valid (m_small m) = true -> m_cur m = n_key (m_small m).
Definition stream_m (m : mstate) : list entry :=
  umerge (dcmp (m_rev m)) (stream (n_it (m_left m))) (stream (n_it (m_right m))).
Definition full_m (m : mstate) : list entry :=
  umerge (dcmp (m_rev m)) (full (n_it (m_left m))) (full (n_it (m_right m))).

Lemma wf_to_iter rv m :
  wf rv (to_iter m) <-> m_children_ok rv m /\ m_ordered m /\ m_cur_ok m.
Proof.
  destruct m as [rv' [lv lk l] [rvv rk r] sl cur].
  unfold m_children_ok, m_ordered, m_cur_ok, ncache, MergeIter.m_small, MergeIter.m_bigger.
  cbn. destruct sl; cbn; split; intros H; intuition (subst; auto).
Qed.

Lemma stream_to_iter m : stream (to_iter m) = stream_m m.
Proof. destruct m as [rv' [lv lk l] [rvv rk r] sl cur]. reflexivity. Qed.
Lemma full_to_iter m : full (to_iter m) = full_m m.
Proof. destruct m as [rv' [lv lk l] [rvv rk r] sl cur]. reflexivity. Qed.

Lemma wf_stream rv it : wf rv it -> sorted (dcmp rv) (stream it) /\ gkeys (stream it).
Proof.
  induction it as [rv' all rest | rv' lv lk l IHl rvv rk r IHr sl cur]; cbn [wf stream].
  - intros (_ & _ & _ & H1 & H2). split; assumption.
  - intros (-> & Hl & Hr & _). destruct (IHl Hl) as [Sl Gl]. destruct (IHr Hr) as [Sr Gr].
    split.
    + apply umerge_sorted; try dord; assumption.
    + apply umerge_Forall; assumption.
Qed.

Definition nonempty (l : list entry) : bool := match l with [] => false | _ => true end.

(* Valid / Key / Value read the head of the stream *)
Lemma wf_obs rv it : wf rv it ->
  it_valid it = nonempty (stream it) /\
  (forall e s, stream it = e :: s -> it_key it = fst e /\ it_value it = Some (snd e)).
Proof.
  induction it as [rv' all rest | rv' lv lk l IHl rvv rk r IHr sl cur]; cbn [wf].
  - intros _. cbn. split; [destruct rest; reflexivity|]. intros e s ->. auto.
  - intros (-> & Hl & Hr & [Cl1 Cl2] & [Cr1 Cr2] & Hord & _).
    destruct (IHl Hl) as [Vl Kl]. destruct (IHr Hr) as [Vr Kr]. clear IHl IHr.
    cbn [stream MergeIter.it_valid MergeIter.it_key MergeIter.it_value].
    rewrite Vl in Cl1. rewrite Vr in Cr1.
    destruct (stream l) as [|a la] eqn:El; destruct (stream r) as [|b rb] eqn:Er; cbn in Cl1, Cr1; subst lv rvv.
    + cbn. destruct sl; split; auto; discriminate.
    + (* only right has entries *)
      destruct sl.
      * destruct Hord as [H _]. specialize (H eq_refl). discriminate.
      * cbn. split; [reflexivity|]. intros e s [= <- <-].
        rewrite (Cr2 eq_refl). apply (Kr b rb eq_refl).
    + (* only left *)
      destruct sl.
      * cbn. split; [reflexivity|]. intros e s [= <- <-].
        rewrite (Cl2 eq_refl). apply (Kl a la eq_refl).
      * destruct Hord as [H _]. specialize (H eq_refl). discriminate.
    + (* both *)
      pose proof (Kl a la eq_refl) as [Ka Va]. pose proof (Kr b rb eq_refl) as [Kb Vb].
      rewrite umerge_cons.
      destruct sl.
      * destruct Hord as [_ H]. specialize (H eq_refl eq_refl).
        rewrite (Cl2 eq_refl), (Cr2 eq_refl), Ka, Kb in H. rewrite H.
        split; [reflexivity|]. intros e s [= <- <-]. rewrite (Cl2 eq_refl). auto.
      * destruct Hord as [_ H]. specialize (H eq_refl eq_refl).
        rewrite (Cl2 eq_refl), (Cr2 eq_refl), Ka, Kb in H.
        rewrite dcmp_anti, H. cbn [CompOpp].
        split; [reflexivity|]. intros e s [= <- <-]. rewrite (Cr2 eq_refl). auto.
Qed.

(* what a consistent cache says about a child *)
Lemma child_facts rv v k c : wf rv c -> cache_ok v k c ->
  (v = false -> stream c = []) /\
  (v = true -> exists e s, stream c = e :: s /\ k = fst e /\ good k /\ it_value c = Some (snd e)).
Proof.
  intros Hwf [C1 C2]. destruct (wf_obs rv c Hwf) as [Hv Hk].
  destruct (wf_stream rv c Hwf) as [_ Hg].
  rewrite Hv in C1. destruct (stream c) as [|e s] eqn:E; cbn in C1; subst v.
  - split; [auto|discriminate].
  - split; [discriminate|]. intros _. exists e, s. destruct (Hk e s eq_refl) as [Hk1 Hk2].
    inversion Hg; subst. rewrite (C2 eq_refl), Hk1. auto.
Qed.

Lemma ncache_setkey n c : ncache (node_setkey n c).
Proof.
  unfold ncache, cache_ok, MergeIter.node_setkey. cbn. split; [reflexivity|].
  intros H. rewrite H. reflexivity.
Qed.

(* ---- one step of a child, as assumed of the [cn] argument of fix / Next ---- *)
Definition step_ok (rv : bool) (c c' : iter) : Prop :=
  wf rv c' /\ stream c' = tl (stream c) /\ full c' = full c /\ height c' = height c.

(* Next may be called on a MergeIterator in any state, on a child cursor only while it is valid *)
Definition next_pre (it : iter) : Prop :=
  match it with Leaf _ _ rest => rest <> [] | Merge _ _ _ _ _ _ _ _ _ => True end.

Lemma valid_next_pre it : it_valid it = true -> next_pre it.
Proof. destruct it as [rv all rest|]; cbn; [|auto]. destruct rest; [discriminate|discriminate]. Qed.

Definition cn_spec (rv : bool) (n : nat) (cn : iter -> res iter) : Prop :=
  forall c, height c <= n -> wf rv c -> next_pre c -> exists c', cn c = Ok c' /\ step_ok rv c c'.

Definition m_heights_le (n : nat) (m : mstate) : Prop :=
  height (n_it (m_left m)) <= n /\ height (n_it (m_right m)) <= n.

Definition m_static_eq (m m' : mstate) : Prop :=
  m_rev m' = m_rev m /\
  full (n_it (m_left m')) = full (n_it (m_left m)) /\
  full (n_it (m_right m')) = full (n_it (m_right m)) /\
  height (n_it (m_left m')) = height (n_it (m_left m)) /\
  height (n_it (m_right m')) = height (n_it (m_right m)).

Lemma m_static_eq_refl m : m_static_eq m m.
Proof. unfold m_static_eq. tauto. Qed.

Lemma m_static_eq_trans m1 m2 m3 : m_static_eq m1 m2 -> m_static_eq m2 m3 -> m_static_eq m1 m3.
Proof. unfold m_static_eq. intuition congruence. Qed.

Lemma m_static_heights n m m' : m_static_eq m m' -> m_heights_le n m -> m_heights_le n m'.
Proof. unfold m_static_eq, m_heights_le. intuition congruence. Qed.

Lemma m_static_full m m' : m_static_eq m m' -> full_m m' = full_m m.
Proof. unfold m_static_eq, full_m. intros (-> & -> & -> & _). reflexivity. Qed.

(* the head of the merged stream is the head of [small] *)
Lemma m_head rv m : m_children_ok rv m -> m_ordered m ->
  (n_valid (m_small m) = false -> stream_m m = []) /\
  (n_valid (m_small m) = true ->
     exists e s, stream (n_it (m_small m)) = e :: s /\ n_key (m_small m) = fst e /\
                 it_value (n_it (m_small m)) = Some (snd e) /\
                 stream_m m = e :: (if m_small_left m
                                    then umerge (dcmp rv) s (stream (n_it (m_right m)))
                                    else umerge (dcmp rv) (stream (n_it (m_left m))) s)).
Proof.
  destruct m as [rv' [lv lk l] [rvv rk r] sl cur].
  unfold m_children_ok, m_ordered, ncache, stream_m, MergeIter.m_small, MergeIter.m_bigger. cbn.
  intros (-> & Hl & Hr & Cl & Cr) Hord.
  destruct (child_facts rv lv lk l Hl Cl) as [Fl0 Fl1].
  destruct (child_facts rv rvv rk r Hr Cr) as [Fr0 Fr1].
  destruct sl; cbn in *; destruct Hord as [O1 O2].
  - split.
    + intros ->. rewrite (Fl0 eq_refl). destruct rvv; [specialize (O1 eq_refl); discriminate|].
      rewrite (Fr0 eq_refl). reflexivity.
    + intros ->. destruct (Fl1 eq_refl) as (e & s & El & Ek & _ & Ev). exists e, s.
      repeat split; auto. rewrite El. apply umerge_hd_left; try dord.
      destruct rvv.
      * right. destruct (Fr1 eq_refl) as (b & rb & Er & Ebk & _). exists b, rb. split; [exact Er|].
        rewrite <- Ek, <- Ebk. auto.
      * left. auto.
  - split.
    + intros ->. rewrite (Fr0 eq_refl). destruct lv; [specialize (O1 eq_refl); discriminate|].
      rewrite (Fl0 eq_refl). reflexivity.
    + intros ->. destruct (Fr1 eq_refl) as (e & s & Er & Ek & _ & Ev). exists e, s.
      repeat split; auto. rewrite Er. apply umerge_hd_right; try dord.
      destruct lv.
      * right. destruct (Fl1 eq_refl) as (a & la & El & Eak & _). exists a, la. split; [exact El|].
        rewrite <- Ek, <- Eak. auto.
      * left. auto.
Qed.

(* ---- fix ---- *)
Lemma small_swap m : m_small (swap_small m) = m_bigger m.
Proof. unfold MergeIter.m_small, MergeIter.m_bigger, MergeIter.swap_small. cbn. destruct (m_small_left m); reflexivity. Qed.
Lemma bigger_swap m : m_bigger (swap_small m) = m_small m.
Proof. unfold MergeIter.m_small, MergeIter.m_bigger, MergeIter.swap_small. cbn. destruct (m_small_left m); reflexivity. Qed.

Lemma m_static_eq_swap m : m_static_eq m (swap_small m).
Proof. unfold m_static_eq. cbn. tauto. Qed.

Lemma fix_eq_result (m : mstate) (rn : node) :
  (if m_small_left m then set_right m rn else swap_small (set_right m rn)) =
  mkM (m_rev m) (m_left m) rn true (m_cur m).
Proof.
  unfold MergeIter.set_right, MergeIter.swap_small. destruct (m_small_left m) eqn:E; cbn; rewrite ?E; reflexivity.
Qed.

Lemma m_fix_ok rv n cn m :
  cn_spec rv n cn -> m_children_ok rv m -> m_heights_le n m ->
  exists m', m_fix cn m = Ok m' /\ m_children_ok rv m' /\ m_ordered m' /\
             stream_m m' = stream_m m /\ m_static_eq m m' /\ m_cur m' = m_cur m.
Proof.
  intros Hcn Hch Hh.
  unfold MergeIter.m_fix.
  destruct (n_valid (m_bigger m)) eqn:Eb; cbn [negb].
  2:{ (* bigger exhausted: nothing to do *)
      exists m. split; [reflexivity|]. split; [exact Hch|].
      split; [|split; [reflexivity|split; [apply m_static_eq_refl|reflexivity]]].
      unfold m_ordered, ordered. rewrite Eb. split; discriminate. }
  destruct (n_valid (m_small m)) eqn:Es; cbn [negb].
  2:{ (* small exhausted: swap *)
      exists (swap_small m). split; [reflexivity|]. split; [exact Hch|].
      split; [|split; [reflexivity|split; [apply m_static_eq_swap|reflexivity]]].
      unfold m_ordered, ordered. rewrite small_swap, bigger_swap, Es, Eb. split; intros; discriminate. }
  (* both valid *)
  pose proof Hch as (Hrv & Hl & Hr & Cl & Cr).
  assert (Hks : exists e s, stream (n_it (m_small m)) = e :: s /\ n_key (m_small m) = fst e /\ good (n_key (m_small m))).
  { unfold MergeIter.m_small in *. destruct (m_small_left m).
    - destruct (child_facts rv _ _ _ Hl Cl) as [_ F]. destruct (F Es) as (e & s & ? & ? & ? & _). eauto.
    - destruct (child_facts rv _ _ _ Hr Cr) as [_ F]. destruct (F Es) as (e & s & ? & ? & ? & _). eauto. }
  assert (Hkb : exists e s, stream (n_it (m_bigger m)) = e :: s /\ n_key (m_bigger m) = fst e /\ good (n_key (m_bigger m))).
  { unfold MergeIter.m_bigger in *. destruct (m_small_left m).
    - destruct (child_facts rv _ _ _ Hr Cr) as [_ F]. destruct (F Eb) as (e & s & ? & ? & ? & _). eauto.
    - destruct (child_facts rv _ _ _ Hl Cl) as [_ F]. destruct (F Eb) as (e & s & ? & ? & ? & _). eauto. }
  destruct Hks as (es & ss & Ess & Eks & Gs). destruct Hkb as (eb & sb & Esb & Ekb & Gb).
  rewrite (cmp_good _ _ Gs Gb).
  destruct (tcmp (n_key (m_small m)) (n_key (m_bigger m))) eqn:Ec.
  - (* equal keys: advance right; small := left *)
    assert (Hkeq : n_key (m_small m) = n_key (m_bigger m)) by (apply tcmp_eq; exact Ec).
    destruct Hh as [Hhl Hhr].
    assert (Hrvalid : n_valid (m_right m) = true).
    { unfold MergeIter.m_small, MergeIter.m_bigger in *. destruct (m_small_left m); assumption. }
    assert (Hpre : next_pre (n_it (m_right m))).
    { apply valid_next_pre. destruct Cr as [Cr1 _]. rewrite <- Cr1. exact Hrvalid. }
    destruct (Hcn _ Hhr Hr Hpre) as (r' & Hr' & Wr' & Sr' & Fr' & Hhr').
    unfold MergeIter.node_next. rewrite Hr'. cbn [rbind].
    set (rn := node_setkey (m_right m) r').
    rewrite (fix_eq_result m rn).
    (* facts about left and right, whichever is small *)
    assert (Hboth : exists a la b rb,
               stream (n_it (m_left m)) = a :: la /\ stream (n_it (m_right m)) = b :: rb /\
               n_key (m_left m) = fst a /\ n_key (m_right m) = fst b /\
               n_key (m_left m) = n_key (m_right m) /\ n_valid (m_left m) = true).
    { unfold MergeIter.m_small, MergeIter.m_bigger in *. destruct (m_small_left m).
      - exists es, ss, eb, sb. repeat split; auto.
      - exists eb, sb, es, ss. repeat split; auto. }
    destruct Hboth as (a & la & b & rb & El & Er & Eka & Ekb' & Ekk & Hlv).
    destruct (wf_stream rv _ Hr) as [Sr _]. rewrite Er in Sr.
    eexists. split; [reflexivity|].
    split; [|split; [|split; [|split]]].
    + (* children *)
      unfold m_children_ok. cbn. split; [exact Hrv|]. split; [exact Hl|]. split; [exact Wr'|].
      split; [exact Cl|]. apply ncache_setkey.
    + (* ordered: if right is still valid its key is after left's *)
      unfold m_ordered, ordered, MergeIter.m_small, MergeIter.m_bigger. cbn.
      split; [intros _; exact Hlv|]. intros _ Hv'.
      destruct (wf_obs rv r' Wr') as [Vr' Kr'].
      rewrite Hv'. rewrite Sr', Er in Vr', Kr'. cbn [tl] in Vr', Kr'.
      destruct rb as [|c rb']; [cbn in Vr'; congruence|].
      destruct (Kr' c rb' eq_refl) as [Kc _]. rewrite Kc.
      apply sorted_inv in Sr. destruct Sr as [_ Sb]. apply Forall_inv in Sb.
      unfold lt_e in Sb. rewrite Hrv. congruence.
    + unfold stream_m. cbn. rewrite Sr', El, Er. cbn [tl]. symmetry. rewrite Hrv.
      apply umerge_skip_eq; try dord; [exact Sr|].
      apply dcmp_eq. congruence.
    + unfold m_static_eq. cbn. auto.
    + reflexivity.
  - (* small before bigger in key order *)
    rewrite Hrv. destruct rv.
    + (* reverse: swap *)
      exists (swap_small m). split; [reflexivity|]. split; [exact Hch|].
      split; [|split; [reflexivity|split; [apply m_static_eq_swap|reflexivity]]].
      unfold m_ordered, ordered. rewrite small_swap, bigger_swap. cbn [MergeIter.swap_small m_rev]. rewrite Hrv.
      split; [intros _; exact Eb|]. intros _ _. unfold dcmp. exact Ec.
    + exists m. split; [reflexivity|]. split; [exact Hch|].
      split; [|split; [reflexivity|split; [apply m_static_eq_refl|reflexivity]]].
      unfold m_ordered, ordered. rewrite Hrv. split; [intros _; exact Es|].
      intros _ _. unfold dcmp. exact Ec.
  - (* small after bigger in key order *)
    rewrite Hrv. destruct rv.
    + exists m. split; [reflexivity|]. split; [exact Hch|].
      split; [|split; [reflexivity|split; [apply m_static_eq_refl|reflexivity]]].
      unfold m_ordered, ordered. rewrite Hrv. split; [intros _; exact Es|].
      intros _ _. unfold dcmp. rewrite tcmp_anti, Ec. reflexivity.
    + exists (swap_small m). split; [reflexivity|]. split; [exact Hch|].
      split; [|split; [reflexivity|split; [apply m_static_eq_swap|reflexivity]]].
      unfold m_ordered, ordered. rewrite small_swap, bigger_swap. cbn [MergeIter.swap_small m_rev]. rewrite Hrv.
      split; [intros _; exact Eb|]. intros _ _. unfold dcmp. rewrite tcmp_anti, Ec. reflexivity.
Qed.

(* ---- Next ---- *)
Lemma node_next_ok rv n cn (nd : node) :
  cn_spec rv n cn -> wf rv (n_it nd) -> height (n_it nd) <= n -> ncache nd -> n_valid nd = true ->
  exists nd', node_next cn nd = Ok nd' /\ wf rv (n_it nd') /\ ncache nd' /\
              stream (n_it nd') = tl (stream (n_it nd)) /\
              full (n_it nd') = full (n_it nd) /\ height (n_it nd') = height (n_it nd).
Proof.
  intros Hcn Hwf Hh [Hc1 _] Hv.
  assert (Hpre : next_pre (n_it nd)) by (apply valid_next_pre; rewrite <- Hc1; exact Hv).
  destruct (Hcn _ Hh Hwf Hpre) as (c' & Hc & W & S1 & F & H).
  unfold MergeIter.node_next. rewrite Hc. cbn [rbind]. eexists. split; [reflexivity|].
  split; [exact W|]. split; [apply ncache_setkey|]. cbn. auto.
Qed.

Lemma stream_m_sorted rv m : m_children_ok rv m -> sorted (dcmp rv) (stream_m m).
Proof.
  intros (Hrv & Hl & Hr & _). unfold stream_m. rewrite Hrv.
  apply umerge_sorted; try dord; [apply (wf_stream rv _ Hl)|apply (wf_stream rv _ Hr)].
Qed.

Lemma m_next_loop_ok rv n cn m fuel :
  cn_spec rv n cn -> m_children_ok rv m -> m_ordered m -> m_cur_ok m -> m_heights_le n m ->
  1 <= fuel ->
  exists m', m_next_loop cn fuel m = Ok m' /\ m_children_ok rv m' /\ m_ordered m' /\
             stream_m m' = tl (stream_m m) /\ m_static_eq m m'.
Proof.
  intros Hcn Hch Hord Hcur Hh Hfuel.
  destruct fuel as [|f]; [lia|]. cbn [MergeIter.m_next_loop].
  destruct (m_head rv m Hch Hord) as [Hd0 Hd1].
  destruct (n_valid (m_small m)) eqn:Es; cbn [andb].
  2:{ exists m. split; [reflexivity|]. split; [exact Hch|]. split; [exact Hord|].
      split; [rewrite (Hd0 eq_refl); reflexivity|apply m_static_eq_refl]. }
  rewrite (Hcur Es).
  assert (Hkk : keqb (n_key (m_small m)) (n_key (m_small m)) = true) by (apply keqb_spec; reflexivity).
  rewrite Hkk.
  destruct (Hd1 eq_refl) as (e & s & Ess & Eke & _ & Esm).
  pose proof Hch as (Hrv & Hl & Hr & Cl & Cr). destruct Hh as [Hhl Hhr].
  (* advance small *)
  assert (Hsm : wf rv (n_it (m_small m)) /\ height (n_it (m_small m)) <= n /\ ncache (m_small m)).
  { unfold MergeIter.m_small. destruct (m_small_left m); auto. }
  destruct Hsm as (Wsm & Hhs & Csm).
  destruct (node_next_ok rv n cn (m_small m) Hcn Wsm Hhs Csm Es) as (s' & Hs' & Ws' & Cs' & Ss' & Fs' & Hs'h).
  rewrite Hs'. cbn [rbind].
  set (m1 := set_small m s').
  assert (Hch1 : m_children_ok rv m1).
  { unfold m1, MergeIter.set_small, m_children_ok. destruct (m_small_left m); cbn; auto. }
  assert (Hh1 : m_heights_le n m1).
  { unfold m1, MergeIter.set_small, m_heights_le, MergeIter.m_small in *.
    destruct (m_small_left m); cbn; split; auto; lia. }
  assert (Hst1 : m_static_eq m m1).
  { unfold m1, MergeIter.set_small, m_static_eq, MergeIter.m_small in *.
    destruct (m_small_left m); cbn; auto. }
  assert (Hs1 : stream_m m1 = tl (stream_m m)).
  { rewrite Esm. cbn [tl]. unfold m1, MergeIter.set_small, stream_m, MergeIter.m_small in *.
    rewrite Ess in Ss'. cbn [tl] in Ss'.
    destruct (m_small_left m); cbn; rewrite Ss', Hrv; reflexivity. }
  assert (Hc1 : m_cur m1 = m_cur m).
  { unfold m1, MergeIter.set_small. destruct (m_small_left m); reflexivity. }
  destruct (m_fix_ok rv n cn m1 Hcn Hch1 Hh1) as (m2 & Hf & Hch2 & Hord2 & Hs2 & Hst2 & Hc2).
  rewrite Hf. cbn [rbind].
  exists m2.
  split.
  2:{ split; [exact Hch2|]. split; [exact Hord2|]. split; [congruence|].
      eapply m_static_eq_trans; eauto. }
  (* the loop stops: the new head key is after the old one *)
  assert (Hstop : n_valid (m_small m2) && keqb (n_key (m_small m2)) (m_cur m2) = false).
  { destruct (n_valid (m_small m2)) eqn:Es2; [|reflexivity]. cbn [andb].
    destruct (m_head rv m2 Hch2 Hord2) as [_ Hd2].
    destruct (Hd2 Es2) as (e2 & s2 & _ & Eke2 & _ & Esm2).
    pose proof (stream_m_sorted rv m Hch) as Hsorted.
    rewrite Esm in Hsorted. rewrite Hs2, Hs1, Esm in Esm2. cbn [tl] in Esm2.
    rewrite Esm2 in Hsorted. apply sorted_inv in Hsorted. destruct Hsorted as [_ Hall].
    apply Forall_inv in Hall. unfold lt_e in Hall.
    rewrite Hc2, Hc1, (Hcur Es), Eke, Eke2.
    destruct (keqb (fst e2) (fst e)) eqn:Ek; [|reflexivity].
    apply keqb_spec in Ek. rewrite Ek in Hall.
    rewrite (proj2 (dcmp_eq rv (fst e) (fst e)) eq_refl) in Hall. discriminate. }
  destruct f; cbn [MergeIter.m_next_loop]; rewrite Hstop; reflexivity.
Qed.

Lemma height_pos (it : iter) : 1 <= height it.
Proof. destruct it; cbn; lia. Qed.

Lemma Forall_tl {A} (P : A -> Prop) l : Forall P l -> Forall P (tl l).
Proof. destruct l; cbn; [auto|]. intros H. inversion H; auto. Qed.

Lemma next_d_ok rv : forall d it, height it <= d -> wf rv it -> next_pre it ->
  exists it', next_d d it = Ok it' /\ step_ok rv it it'.
Proof.
  induction d as [|d IH]; intros it Hh Hwf Hpre.
  - pose proof (height_pos it). lia.
  - destruct it as [rv' all rest | rv' lv lk l rvv rk r sl cur].
    + cbn in Hpre. destruct rest as [|e rest']; [contradiction|].
      cbn. eexists. split; [reflexivity|]. destruct Hwf as (-> & Sa & Ga & Sr & Gr).
      unfold step_ok. cbn. repeat split; auto.
      * apply (sorted_tl _ _ Sr).
      * apply (Forall_tl _ _ Gr).
    + cbn [MergeIter.next_d].
      set (m := mkM rv' (mkNode lv lk l) (mkNode rvv rk r) sl cur).
      change (Merge rv' lv lk l rvv rk r sl cur) with (to_iter m) in *.
      apply wf_to_iter in Hwf. destruct Hwf as (Hch & Hord & Hcur).
      assert (Hhl : m_heights_le d m).
      { unfold m_heights_le, m. cbn in *. lia. }
      assert (Hcn : cn_spec rv d (next_d d)) by (intros c Hc Wc Pc; apply IH; assumption).
      destruct (m_next_loop_ok rv d (next_d d) m (S (remaining (to_iter m))) Hcn Hch Hord Hcur Hhl)
        as (m' & Hl & Hch' & Hord' & Hs' & Hst'); [lia|].
      rewrite Hl. cbn [rbind]. eexists. split; [reflexivity|].
      unfold step_ok. split; [|split; [|split]].
      * apply wf_to_iter. split; [exact Hch'|]. split; [exact Hord'|].
        unfold m_cur_ok. intros _. reflexivity.
      * rewrite !stream_to_iter. exact Hs'.
      * rewrite !full_to_iter. apply (m_static_full m). exact Hst'.
      * destruct Hst' as (_ & _ & _ & H1 & H2). cbn in *. rewrite H1, H2. reflexivity.
Qed.

Lemma it_next_spec rv n : cn_spec rv n it_next.
Proof. intros c _ Wc Pc. unfold MergeIter.it_next. apply next_d_ok; auto. Qed.

Lemma it_next_ok rv it : wf rv it -> next_pre it -> exists it', it_next it = Ok it' /\ step_ok rv it it'.
Proof. intros H P. apply (it_next_spec rv (height it)); auto. Qed.

(* ---- Rewind / Seek ---- *)
Lemma sorted_app_one (R : entry -> entry -> Prop) l a :
  StronglySorted R l -> Forall (fun x => R x a) l -> StronglySorted R (l ++ [a]).
Proof.
  induction l as [|x l IH]; cbn; intros Hs Hall.
  - constructor; constructor.
  - inversion Hs; subst. inversion Hall; subst. constructor; [apply IH; auto|].
    apply Forall_app. split; [assumption|constructor; [assumption|constructor]].
Qed.

Lemma sorted_rev_flip l : sorted tcmp l -> sorted (dcmp true) (rev l).
Proof.
  induction l as [|a l IH]; cbn; intros Hs; [constructor|].
  apply sorted_inv in Hs. destruct Hs as [Hs Ha].
  apply sorted_app_one; [apply IH; exact Hs|].
  apply Forall_rev. exact Ha.
Qed.

Lemma dir_sorted rv l : sorted tcmp l -> sorted (dcmp rv) (dir rv l).
Proof. destruct rv; cbn; [apply sorted_rev_flip|auto]. Qed.

Lemma dir_gkeys rv l : gkeys l -> gkeys (dir rv l).
Proof. destruct rv; cbn; [apply Forall_rev|auto]. Qed.

Lemma dir_In rv l e : In e (dir rv l) <-> In e l.
Proof. destruct rv; cbn; [symmetry; apply in_rev|tauto]. Qed.

Lemma dir_keys_In rv l k : In k (keys (dir rv l)) <-> In k (keys l).
Proof.
  unfold keys. rewrite !in_map_iff. split; intros (e & He & Hin); exists e; split; auto; apply (dir_In rv); auto.
Qed.

Definition static_ok (it it' : iter) : Prop := full it' = full it /\ height it' = height it.

(* both Rewind and Seek reposition the two children, then fix and setCurrent *)
Lemma reposition_ok rv rv' lv lk l rvv rk r sl cur l' r' :
  rv' = rv -> wf rv l' -> wf rv r' -> static_ok l l' -> static_ok r r' ->
  exists it',
    (m' <- m_fix it_next (mkM rv' (node_setkey (mkNode lv lk l) l') (node_setkey (mkNode rvv rk r) r') sl cur) ;;
     Ok (to_iter (m_set_current m'))) = Ok it' /\
    wf rv it' /\ stream it' = umerge (dcmp rv) (stream l') (stream r') /\
    static_ok (Merge rv' lv lk l rvv rk r sl cur) it'.
Proof.
  intros -> Wl Wr [Fl Hl] [Fr Hr].
  set (m := mkM rv (node_setkey (mkNode lv lk l) l') (node_setkey (mkNode rvv rk r) r') sl cur).
  assert (Hch : m_children_ok rv m).
  { unfold m_children_ok, m. cbn. repeat split; auto; apply ncache_setkey. }
  assert (Hh : m_heights_le (Nat.max (height l') (height r')) m).
  { unfold m_heights_le, m. cbn. lia. }
  destruct (m_fix_ok rv _ it_next m (it_next_spec rv _) Hch Hh) as (m' & Hf & Hch' & Hord' & Hs' & Hst' & _).
  rewrite Hf. cbn [rbind]. eexists. split; [reflexivity|].
  split; [|split].
  - apply wf_to_iter. split; [exact Hch'|]. split; [exact Hord'|]. unfold m_cur_ok. intros _. reflexivity.
  - rewrite stream_to_iter. exact Hs'.
  - unfold static_ok. rewrite full_to_iter. split.
    + change (full_m (m_set_current m')) with (full_m m'). rewrite (m_static_full m m' Hst').
      unfold full_m, m. cbn. rewrite Fl, Fr. reflexivity.
    + destruct Hst' as (_ & _ & _ & H1 & H2). cbn in *. rewrite H1, H2, Hl, Hr. reflexivity.
Qed.

Lemma rewind_ok rv it : wf rv it ->
  exists it', it_rewind it = Ok it' /\ wf rv it' /\ stream it' = full it /\ static_ok it it'.
Proof.
  induction it as [rv' all rest | rv' lv lk l IHl rvv rk r IHr sl cur]; intros Hwf.
  - destruct Hwf as (-> & Sa & Ga & _ & _). cbn. eexists. split; [reflexivity|].
    split; [|split; [reflexivity|split; reflexivity]].
    cbn. repeat split; auto using dir_sorted, dir_gkeys.
  - destruct Hwf as (Hrv & Wl & Wr & _).
    destruct (IHl Wl) as (l' & Hl' & Wl' & Sl' & Stl). destruct (IHr Wr) as (r' & Hr' & Wr' & Sr' & Str).
    cbn [MergeIter.it_rewind]. rewrite Hl', Hr'. cbn [rbind].
    destruct (reposition_ok rv rv' lv lk l rvv rk r sl cur l' r' Hrv Wl' Wr' Stl Str) as (it' & H1 & H2 & H3 & H4).
    exists it'. split; [exact H1|]. split; [exact H2|]. split; [|exact H4].
    rewrite H3, Sl', Sr', Hrv. reflexivity.
Qed.

Lemma before_is_lt rv a k : before rv (tcmp a k) = is_lt (dcmp rv a k).
Proof.
  unfold dcmp. destruct rv.
  - rewrite (tcmp_anti a k). destruct (tcmp a k); reflexivity.
  - destruct (tcmp a k); reflexivity.
Qed.

Lemma drop_before_ok rv k l : good k -> gkeys l ->
  drop_before rv k l = Ok (skipb (dcmp rv) k l).
Proof.
  intros Gk. induction l as [|e l IH]; intros Gl; cbn; [reflexivity|].
  inversion Gl; subst. rewrite (cmp_good _ _ H1 Gk), before_is_lt.
  destruct (is_lt (dcmp rv (fst e) k)); [apply IH; assumption|reflexivity].
Qed.

Lemma seek_ok rv k it : good k -> wf rv it ->
  exists it', it_seek k it = Ok it' /\ wf rv it' /\
              stream it' = skipb (dcmp rv) k (full it) /\ static_ok it it'.
Proof.
  intros Gk.
  induction it as [rv' all rest | rv' lv lk l IHl rvv rk r IHr sl cur]; intros Hwf.
  - destruct Hwf as (-> & Sa & Ga & _ & _). cbn [MergeIter.it_seek].
    rewrite (drop_before_ok rv k (dir rv all) Gk (dir_gkeys rv all Ga)). cbn [rbind].
    eexists. split; [reflexivity|]. split; [|split; [reflexivity|split; reflexivity]].
    cbn. repeat split; auto.
    + apply skipb_sorted. apply dir_sorted. exact Sa.
    + apply skipb_Forall. apply dir_gkeys. exact Ga.
  - destruct Hwf as (Hrv & Wl & Wr & _).
    destruct (IHl Wl) as (l' & Hl' & Wl' & Sl' & Stl). destruct (IHr Wr) as (r' & Hr' & Wr' & Sr' & Str).
    cbn [MergeIter.it_seek]. rewrite Hl', Hr'. cbn [rbind].
    destruct (reposition_ok rv rv' lv lk l rvv rk r sl cur l' r' Hrv Wl' Wr' Stl Str) as (it' & H1 & H2 & H3 & H4).
    exists it'. split; [exact H1|]. split; [exact H2|]. split; [|exact H4].
    rewrite H3, Sl', Sr'. cbn [full]. rewrite Hrv. symmetry. apply skipb_umerge; dord.
Qed.

(* ---- draining ---- *)
Lemma stream_length it : length (stream it) <= remaining it.
Proof.
  induction it as [rv' all rest | rv' lv lk l IHl rvv rk r IHr sl cur]; cbn; [lia|].
  assert (Hlen : length (umerge (dcmp rv') (stream l) (stream r)) <= length (stream l) + length (stream r))
    by (apply umerge_length; dord).
  lia.
Qed.

Lemma drain_ok rv : forall fuel it, wf rv it -> length (stream it) < fuel ->
  drain fuel it = Ok (stream it).
Proof.
  induction fuel as [|f IH]; intros it Hwf Hlen; [lia|].
  destruct (wf_obs rv it Hwf) as [Hv Hk]. cbn [MergeIter.drain]. rewrite Hv.
  destruct (stream it) as [|e s] eqn:Es; cbn [nonempty]; [reflexivity|].
  destruct (Hk e s eq_refl) as [Hke Hva]. rewrite Hva, Hke.
  assert (Hpre : next_pre it) by (apply valid_next_pre; rewrite Hv; reflexivity).
  destruct (it_next_ok rv it Hwf Hpre) as (it' & Hn & Wn & Sn & _).
  rewrite Hn. cbn [rbind]. rewrite Es in Sn. cbn [tl] in Sn.
  rewrite (IH it' Wn) by (rewrite Sn; cbn in Hlen; lia). cbn [rbind]. rewrite Sn.
  destruct e; reflexivity.
Qed.

Lemma drain_all_ok rv it : wf rv it -> drain_all it = Ok (stream it).
Proof.
  intros Hwf. unfold MergeIter.drain_all. apply (drain_ok rv); [exact Hwf|].
  pose proof (stream_length it). lia.
Qed.

(* ---- operation sequences: the iterator is a cursor over [full] ---- *)
Definition op_good (o : op K) : Prop := match o with OpSeek k => good k | _ => True end.

Definition spec_op (rv : bool) (M : list entry) (o : op K) (s : list entry) : list entry :=
  match o with
  | OpNext => tl s
  | OpRewind => M
  | OpSeek k => skipb (dcmp rv) k M
  end.

Fixpoint spec_run (rv : bool) (M : list entry) (ops : list (op K)) (s : list entry) : list entry :=
  match ops with
  | [] => s
  | o :: ops' => spec_run rv M ops' (spec_op rv M o s)
  end.

(* calls that respect the children's contract: Next on a bare child cursor only while it is valid
   (needed only when there is a single input: NewMergeIterator then returns the child itself) *)
Fixpoint ops_safe (rv : bool) (M : list entry) (ops : list (op K)) (s : list entry) : Prop :=
  match ops with
  | [] => True
  | o :: ops' =>
      (match o with OpNext => s <> [] | _ => True end) /\
      ops_safe rv M ops' (spec_op rv M o s)
  end.

Lemma height_next_pre it : 2 <= height it -> next_pre it.
Proof. destruct it; cbn; [lia|auto]. Qed.

Lemma apply_op_ok rv o it : op_good o -> wf rv it ->
  (match o with OpNext => next_pre it | _ => True end) ->
  exists it', apply_op o it = Ok it' /\ wf rv it' /\
              stream it' = spec_op rv (full it) o (stream it) /\ static_ok it it'.
Proof.
  intros Go Hwf Hp. destruct o as [| |k]; cbn [MergeIter.apply_op spec_op].
  - destruct (it_next_ok rv it Hwf Hp) as (it' & H & W & S1 & F & Hh). exists it'. unfold static_ok. auto.
  - destruct (rewind_ok rv it Hwf) as (it' & H & W & S1 & St). exists it'. auto.
  - destruct (seek_ok rv k it Go Hwf) as (it' & H & W & S1 & St). exists it'. auto.
Qed.

Lemma run_ops_ok rv : forall ops it, Forall op_good ops -> wf rv it ->
  (2 <= height it \/ ops_safe rv (full it) ops (stream it)) ->
  exists it', run_ops ops it = Ok it' /\ wf rv it' /\
              stream it' = spec_run rv (full it) ops (stream it) /\ static_ok it it'.
Proof.
  induction ops as [|o ops IH]; intros it Hg Hwf Hsafe.
  - exists it. cbn. unfold static_ok. auto.
  - inversion Hg; subst.
    assert (Hp : match o with OpNext => next_pre it | _ => True end).
    { destruct o; auto. destruct Hsafe as [Hh|[Hs _]]; [apply height_next_pre; exact Hh|].
      apply valid_next_pre. destruct (wf_obs rv it Hwf) as [Hv _]. rewrite Hv.
      destruct (stream it); [contradiction|reflexivity]. }
    destruct (apply_op_ok rv o it H1 Hwf Hp) as (it1 & Ha & W1 & S1 & [F1 Hh1]).
    assert (Hsafe1 : 2 <= height it1 \/ ops_safe rv (full it1) ops (stream it1)).
    { destruct Hsafe as [Hh|[_ Hs]]; [left; lia|right]. rewrite F1, S1. exact Hs. }
    destruct (IH it1 H2 W1 Hsafe1) as (it' & Hr & W' & S' & [F' Hh']).
    exists it'. cbn [MergeIter.run_ops]. rewrite Ha. cbn [rbind]. split; [exact Hr|].
    split; [exact W'|]. split; [|unfold static_ok; split; congruence].
    cbn [spec_run]. rewrite S', S1, F1. reflexivity.
Qed.

(* ------------------------------------------------------------------------------------- *)
(* The specification: the sorted union in which, for a key present in several inputs, the copy
   of the earliest input is kept.                                                            *)
Fixpoint first_wins (inputs : list (list entry)) (k : K) (v : V) : Prop :=
  match inputs with
  | [] => False
  | l :: rest => In (k, v) l \/ (~ In k (keys l) /\ first_wins rest k v)
  end.

(* executable form: fold of the left-biased merge, in input order *)
Definition merged (rv : bool) (inputs : list (list entry)) : list entry :=
  fold_right (umerge (dcmp rv)) [] (map (dir rv) inputs).

(* the index form of first_wins *)
Lemma first_wins_nth inputs k v :
  first_wins inputs k v <->
  exists i l, nth_error inputs i = Some l /\ In (k, v) l /\
              forall j l', j < i -> nth_error inputs j = Some l' -> ~ In k (keys l').
Proof.
  induction inputs as [|l0 rest IH]; cbn [first_wins].
  - split; [tauto|]. intros (i & l & H & _). destruct i; discriminate.
  - rewrite IH. clear IH. split.
    + intros [H|[Hn (i & l & Hi & Hin & Hj)]].
      * exists 0, l0. split; [reflexivity|]. split; [exact H|]. intros j l' Hlt. lia.
      * exists (S i), l. split; [exact Hi|]. split; [exact Hin|].
        intros [|j] l' Hlt Hnth; cbn in Hnth.
        -- injection Hnth as <-. exact Hn.
        -- apply (Hj j l'); [lia|exact Hnth].
    + intros ([|i] & l & Hi & Hin & Hj); cbn in Hi.
      * injection Hi as <-. left. exact Hin.
      * right. split.
        -- apply (Hj 0 l0); [lia|reflexivity].
        -- exists i, l. split; [exact Hi|]. split; [exact Hin|].
           intros j l' Hlt Hnth. apply (Hj (S j) l'); [lia|exact Hnth].
Qed.

Lemma In_keys k v (l : list entry) : In (k, v) l -> In k (keys l).
Proof. intros H. unfold keys. apply in_map_iff. exists (k, v). auto. Qed.

Lemma first_wins_keys inputs k :
  (exists v, first_wins inputs k v) <-> exists l, In l inputs /\ In k (keys l).
Proof.
  induction inputs as [|l0 rest IH]; cbn [first_wins].
  - split; [intros (v & [])|intros (l & [] & _)].
  - split.
    + intros (v & [H|[Hn H]]).
      * exists l0. split; [left; reflexivity|]. eapply In_keys; eauto.
      * destruct (proj1 IH (ex_intro _ v H)) as (l & Hl & Hk). exists l. split; [right; exact Hl|exact Hk].
    + intros (l & Hl & Hk). destruct (key_in_dec k (keys l0)) as [Hin|Hnin].
      * unfold keys in Hin. apply in_map_iff in Hin. destruct Hin as ([k' v] & He & Hin). cbn in He. subst k'.
        exists v. left. exact Hin.
      * destruct Hl as [<-|Hl]; [contradiction|].
        destruct (proj2 IH (ex_intro _ l (conj Hl Hk))) as (v & Hv). exists v. right. auto.
Qed.

Lemma first_wins_app A B k v :
  first_wins (A ++ B) k v <->
  first_wins A k v \/ ((forall l, In l A -> ~ In k (keys l)) /\ first_wins B k v).
Proof.
  induction A as [|l0 A IH]; cbn [app first_wins].
  - split; [intros H; right; split; [intros l []|exact H]|intros [[]|[_ H]]; exact H].
  - rewrite IH. clear IH. split.
    + intros [H|[Hn [H|[Hall H]]]]; auto.
      right. split; [|exact H]. intros l [<-|Hl]; auto.
    + intros [[H|[Hn H]]|[Hall H]]; auto.
      right. split; [apply Hall; left; reflexivity|]. right. split; [|exact H].
      intros l Hl. apply Hall. right. exact Hl.
Qed.

Lemma merged_char rv inputs : Forall (sorted tcmp) inputs ->
  sorted (dcmp rv) (merged rv inputs) /\
  forall k v, In (k, v) (merged rv inputs) <-> first_wins inputs k v.
Proof.
  induction inputs as [|l rest IH]; intros Hs.
  - cbn. split; [constructor|tauto].
  - inversion Hs; subst. destruct (IH H2) as [Sr Cr]. clear IH.
    unfold merged in *. cbn [map fold_right].
    pose proof (dir_sorted rv l H1) as Sl.
    split; [apply umerge_sorted; try dord; assumption|].
    intros k v. rewrite umerge_In_iff; try dord; try assumption.
    cbn [first_wins]. rewrite Cr, dir_In, dir_keys_In. tauto.
Qed.

(* sortedness and the membership law determine the list *)
Lemma merged_unique rv inputs out : Forall (sorted tcmp) inputs ->
  sorted (dcmp rv) out -> (forall k v, In (k, v) out <-> first_wins inputs k v) ->
  out = merged rv inputs.
Proof.
  intros Hs So Co. destruct (merged_char rv inputs Hs) as [Sm Cm].
  apply (sorted_ext (dcmp rv)); try dord; auto.
  intros [k v]. rewrite Co, Cm. tauto.
Qed.

(* ---- NewMergeIterator ---- *)
Definition fresh (rv : bool) (it : iter) : Prop := wf rv it /\ it_valid it = false.

(* a fresh iterator yields nothing until positioned *)
Lemma fresh_stream rv it : fresh rv it -> stream it = [].
Proof.
  intros [W Hv]. destruct (wf_obs rv it W) as [Hv' _]. rewrite Hv in Hv'.
  destruct (stream it); [reflexivity|discriminate].
Qed.

Lemma new_leaf_fresh rv l : sorted tcmp l -> gkeys l -> fresh rv (new_leaf rv l).
Proof.
  intros Hs Hg. unfold fresh, MergeIter.new_leaf. cbn. repeat split; auto; constructor.
Qed.

Lemma new_node2_fresh rv a b : fresh rv a -> fresh rv b -> fresh rv (new_node2 rv a b).
Proof.
  intros [Wa Va] [Wb Vb]. unfold fresh, MergeIter.new_node2. cbn.
  unfold cache_ok, ordered. rewrite Va, Vb. repeat split; auto; discriminate.
Qed.

Lemma div2_bounds n : 2 <= n -> 1 <= Nat.div2 n /\ Nat.div2 n < n.
Proof.
  intros H. rewrite Nat.div2_div.
  pose proof (Nat.div_mod n 2 ltac:(lia)). pose proof (Nat.mod_upper_bound n 2 ltac:(lia)). lia.
Qed.

Definition tree_ok (rv : bool) (inputs : list (list entry)) (it : iter) : Prop :=
  fresh rv it /\ sorted (dcmp rv) (full it) /\
  (forall k v, In (k, v) (full it) <-> first_wins inputs k v).

Lemma tree_keys rv inputs it : tree_ok rv inputs it ->
  forall k, In k (keys (full it)) <-> exists l, In l inputs /\ In k (keys l).
Proof.
  intros (_ & _ & C) k. rewrite <- first_wins_keys. unfold keys. rewrite in_map_iff. split.
  - intros ([k' v] & He & Hin). cbn in He. subst k'. exists v. apply C. exact Hin.
  - intros (v & Hv). exists (k, v). split; [reflexivity|]. apply C. exact Hv.
Qed.

Lemma tree_node rv A B a b : tree_ok rv A a -> tree_ok rv B b ->
  tree_ok rv (A ++ B) (new_node2 rv a b).
Proof.
  intros Ta Tb. pose proof (tree_keys rv A a Ta) as Ka.
  destruct Ta as (Fa & Sa & Ca). destruct Tb as (Fb & Sb & Cb).
  split; [apply new_node2_fresh; assumption|].
  cbn [MergeIter.new_node2 full].
  split; [apply umerge_sorted; try dord; assumption|].
  intros k v. rewrite umerge_In_iff; try dord; try assumption.
  rewrite first_wins_app, Ca, Cb, Ka. split.
  - intros [H|[H Hn]]; auto. right. split; [|exact H]. intros l Hl Hk. apply Hn. eauto.
  - intros [H|[Hn H]]; auto. right. split; [exact H|]. intros (l & Hl & Hk). exact (Hn l Hl Hk).
Qed.

Lemma tree_leaf rv l : sorted tcmp l -> gkeys l -> tree_ok rv [l] (new_leaf rv l).
Proof.
  intros Hs Hg. split; [apply new_leaf_fresh; assumption|].
  cbn [MergeIter.new_leaf full]. split; [apply dir_sorted; exact Hs|].
  intros k v. cbn [first_wins]. rewrite dir_In. tauto.
Qed.

Lemma Forall_firstn' {A} (P : A -> Prop) n l : Forall P l -> Forall P (firstn n l).
Proof. revert l; induction n as [|n IH]; intros [|x l] H; cbn; auto. inversion H; subst. constructor; auto. Qed.
Lemma Forall_skipn' {A} (P : A -> Prop) n l : Forall P l -> Forall P (skipn n l).
Proof. revert l; induction n as [|n IH]; intros [|x l] H; cbn; auto. inversion H; subst. auto. Qed.

Lemma new_merge_f_ok rv : forall fuel inputs,
  length inputs <= fuel -> inputs <> [] ->
  Forall (sorted tcmp) inputs -> Forall gkeys inputs ->
  exists it, new_merge_f fuel rv (map (new_leaf rv) inputs) = Some it /\ tree_ok rv inputs it /\
             (2 <= length inputs -> 2 <= height it).
Proof.
  induction fuel as [|f IH]; intros inputs Hlen Hne Hs Hg.
  - destruct inputs; [contradiction|cbn in Hlen; lia].
  - destruct inputs as [|a [|b [|c rest]]]; [contradiction| | |].
    + (* one input: the child itself *)
      cbn. eexists. split; [reflexivity|]. split; [|cbn; lia].
      inversion Hs; inversion Hg; subst. apply tree_leaf; assumption.
    + cbn. eexists. split; [reflexivity|]. split; [|intros _; cbn; lia].
      inversion Hs as [|? ? Sa Hs']; inversion Hg as [|? ? Ga Hg']; subst.
      inversion Hs'; inversion Hg'; subst.
      apply (tree_node rv [a] [b]); apply tree_leaf; assumption.
    + set (inputs := a :: b :: c :: rest) in *.
      assert (Hlen3 : 3 <= length inputs) by (unfold inputs; cbn; lia).
      change (new_merge_f (S f) rv (map (new_leaf rv) inputs)) with
        (let mid := Nat.div2 (length (map (new_leaf rv) inputs)) in
         match new_merge_f f rv (firstn mid (map (new_leaf rv) inputs)),
               new_merge_f f rv (skipn mid (map (new_leaf rv) inputs)) with
         | Some x, Some y => Some (new_node2 rv x y)
         | _, _ => None
         end).
      cbv zeta. rewrite map_length, firstn_map, skipn_map.
      destruct (div2_bounds (length inputs) ltac:(lia)) as [Hm1 Hm2].
      set (mid := Nat.div2 (length inputs)) in *.
      assert (HA : exists ia, new_merge_f f rv (map (new_leaf rv) (firstn mid inputs)) = Some ia /\
                              tree_ok rv (firstn mid inputs) ia).
      { refine (let '(ex_intro _ x (conj h1 (conj h2 _))) := _ in ex_intro _ x (conj h1 h2)). apply IH.
        - rewrite firstn_length. lia.
        - intro E. assert (El : length (firstn mid inputs) = 0) by (rewrite E; reflexivity).
          rewrite firstn_length in El. lia.
        - apply Forall_firstn'. exact Hs.
        - apply Forall_firstn'. exact Hg. }
      assert (HB : exists ib, new_merge_f f rv (map (new_leaf rv) (skipn mid inputs)) = Some ib /\
                              tree_ok rv (skipn mid inputs) ib).
      { refine (let '(ex_intro _ x (conj h1 (conj h2 _))) := _ in ex_intro _ x (conj h1 h2)). apply IH.
        - rewrite skipn_length. lia.
        - intro E. assert (El : length (skipn mid inputs) = 0) by (rewrite E; reflexivity).
          rewrite skipn_length in El. lia.
        - apply Forall_skipn'. exact Hs.
        - apply Forall_skipn'. exact Hg. }
      destruct HA as (ia & Ea & Ta). destruct HB as (ib & Eb & Tb).
      rewrite Ea, Eb. eexists. split; [reflexivity|].
      split; [|intros _; pose proof (height_pos ia); cbn; lia].
      rewrite <- (firstn_skipn mid inputs). apply tree_node; assumption.
Qed.

Lemma new_merge_inputs_ok rv inputs :
  inputs <> [] -> Forall (sorted tcmp) inputs -> Forall gkeys inputs ->
  exists it, new_merge_inputs rv inputs = Some it /\ fresh rv it /\ full it = merged rv inputs /\
             (2 <= length inputs -> 2 <= height it).
Proof.
  intros Hne Hs Hg. unfold MergeIter.new_merge_inputs, MergeIter.new_merge.
  destruct (new_merge_f_ok rv (length (map (new_leaf rv) inputs)) inputs) as (it & Hit & (Hf & Sf & Cf) & Hh); auto.
  { rewrite map_length. lia. }
  exists it. split; [exact Hit|]. split; [exact Hf|]. split; [|exact Hh].
  apply merged_unique; assumption.
Qed.

(* the calls respect the children's contract: automatically with two or more inputs *)
Definition calls_ok (rv : bool) (inputs : list (list entry)) (ops : list (op K)) : Prop :=
  2 <= length inputs \/ ops_safe rv (merged rv inputs) ops [].

Lemma calls_ok_run rv inputs ops it0 :
  calls_ok rv inputs ops -> fresh rv it0 -> full it0 = merged rv inputs ->
  (2 <= length inputs -> 2 <= height it0) ->
  2 <= height it0 \/ ops_safe rv (full it0) ops (stream it0).
Proof.
  intros [H|H] Hf Hfull Hh; [left; auto|right]. rewrite Hfull, (fresh_stream rv it0 Hf). exact H.
Qed.

Lemma new_merge_nil rv : new_merge_inputs rv [] = None.
Proof. reflexivity. Qed.

(* ---- the theorems ---- *)
(* Under any sequence of Next / Rewind / Seek calls the iterator never panics, never runs out of
   fuel, and is exactly a cursor over the sorted union: what remains to be yielded is given by
   the list semantics [spec_run] of the calls; Valid / Key / Value read its head. *)
Theorem merge_refines rv inputs ops :
  inputs <> [] -> Forall (sorted tcmp) inputs -> Forall gkeys inputs -> Forall op_good ops ->
  calls_ok rv inputs ops ->
  exists it0 it,
    new_merge_inputs rv inputs = Some it0 /\ run_ops ops it0 = Ok it /\
    let rest := spec_run rv (merged rv inputs) ops [] in
    drain_all it = Ok rest /\
    it_valid it = nonempty rest /\
    (forall e s, rest = e :: s -> it_key it = fst e /\ it_value it = Some (snd e)).
Proof.
  intros Hne Hs Hg Ho Hc.
  destruct (new_merge_inputs_ok rv inputs Hne Hs Hg) as (it0 & H0 & Hf & Hfull & Hh).
  destruct (run_ops_ok rv ops it0 Ho (proj1 Hf) (calls_ok_run rv inputs ops it0 Hc Hf Hfull Hh)) as (it & Hr & W & S1 & _).
  exists it0, it. split; [exact H0|]. split; [exact Hr|].
  rewrite (fresh_stream rv it0 Hf), Hfull in S1. cbv zeta. rewrite <- S1.
  split; [apply (drain_all_ok rv); exact W|]. apply (wf_obs rv). exact W.
Qed.

(* name used by DESIGN.md 3.3b for the Layer A -> Layer B refinement lemma *)
Definition merge_abstraction_sound := merge_refines.

(* Rewind + Next* from any reachable state yields the sorted union, earliest input first *)
Theorem merge_rewind_drain rv inputs ops :
  inputs <> [] -> Forall (sorted tcmp) inputs -> Forall gkeys inputs -> Forall op_good ops ->
  calls_ok rv inputs ops ->
  exists it0 it it',
    new_merge_inputs rv inputs = Some it0 /\ run_ops ops it0 = Ok it /\
    it_rewind it = Ok it' /\ drain_all it' = Ok (merged rv inputs).
Proof.
  intros Hne Hs Hg Ho Hc.
  destruct (new_merge_inputs_ok rv inputs Hne Hs Hg) as (it0 & H0 & Hf & Hfull & Hh).
  destruct (run_ops_ok rv ops it0 Ho (proj1 Hf) (calls_ok_run rv inputs ops it0 Hc Hf Hfull Hh)) as (it & Hr & W & _ & [Fi _]).
  destruct (rewind_ok rv it W) as (it' & Hw & W' & S' & _).
  exists it0, it, it'. repeat split; auto.
  rewrite (drain_all_ok rv it' W'), S', Fi, Hfull. reflexivity.
Qed.

(* Seek(k) + Next* from any reachable state yields the entries at or after k (at or before k
   when reversed) of the sorted union *)
Theorem merge_seek_drain rv inputs ops k :
  inputs <> [] -> Forall (sorted tcmp) inputs -> Forall gkeys inputs -> Forall op_good ops ->
  calls_ok rv inputs ops -> good k ->
  exists it0 it it',
    new_merge_inputs rv inputs = Some it0 /\ run_ops ops it0 = Ok it /\
    it_seek k it = Ok it' /\ drain_all it' = Ok (skipb (dcmp rv) k (merged rv inputs)).
Proof.
  intros Hne Hs Hg Ho Hc Gk.
  destruct (new_merge_inputs_ok rv inputs Hne Hs Hg) as (it0 & H0 & Hf & Hfull & Hh).
  destruct (run_ops_ok rv ops it0 Ho (proj1 Hf) (calls_ok_run rv inputs ops it0 Hc Hf Hfull Hh)) as (it & Hr & W & _ & [Fi _]).
  destruct (seek_ok rv k it Gk W) as (it' & Hw & W' & S' & _).
  exists it0, it, it'. repeat split; auto.
  rewrite (drain_all_ok rv it' W'), S', Fi, Hfull. reflexivity.
Qed.

(* what Seek's result contains: exactly the union's entries not before the target *)
Lemma seek_spec_char rv inputs k : Forall (sorted tcmp) inputs ->
  sorted (dcmp rv) (skipb (dcmp rv) k (merged rv inputs)) /\
  forall e, In e (skipb (dcmp rv) k (merged rv inputs)) <->
            In e (merged rv inputs) /\ dcmp rv (fst e) k <> Lt.
Proof.
  intros Hs. destruct (merged_char rv inputs Hs) as [Sm _].
  split; [apply skipb_sorted; exact Sm|]. apply skipb_spec; try dord. exact Sm.
Qed.

End MergeProofs.
