(* ManifestWitness.v — concrete witnesses (evaluated with vm_compute) of the three findings the
   faithful model exhibits: F6 (rejected change set leaves residue), F5 (zero-filled tail),
   F16 (torn tail whose length field exceeds the file size). *)
From Coq Require Import ZifyN ZifyNat ZifyBool.
From Verif Require Import Bytes Uvarint Consts Crc32cM Manifest.
Open Scope N_scope.

Definition w_create (id : N) : change := mkChange id 0 0 0 0 0.
Definition w_delete (id : N) : change := mkChange id 1 0 0 0 0.
Definition w_cfg : mcfg := cfg_current 2 0.

(* F6 (a): [create 1] accepted; [create 2; create 1] rejected — table 2 stays in memory *)
Definition w6a : list step := [SAdd [w_create 1] []; SAdd [w_create 2; w_create 1] []].
(* F6 (b): three deletes of unknown ids make the rewrite due; the snapshot persists table 2 *)
Definition w6b : list step :=
  w6a ++ [SAdd [w_delete 100] []; SAdd [w_delete 101] []; SAdd [w_delete 102] []].
(* F6 (c): [delete 1; create 5; create 5] rejected after deleting 1 in memory; then [create 1] is
   accepted and appended: the file now creates table 1 twice and no longer replays *)
Definition w6c : list step :=
  [SAdd [w_create 1] []; SAdd [w_delete 1; w_create 5; w_create 5] []; SAdd [w_create 1] []].

Ltac run_ok_tac := cbn [run_ok]; vm_compute; repeat split; try reflexivity; try (left; reflexivity);
  try (right; split; [reflexivity|eexists; reflexivity]).

Lemma w6a_run_ok : run_ok true w_cfg (mf_create w_cfg) w6a.
Proof. run_ok_tac. Qed.
Lemma w6b_run_ok : run_ok true w_cfg (mf_create w_cfg) w6b.
Proof. run_ok_tac. Qed.
Lemma w6c_run_ok : run_ok true w_cfg (mf_create w_cfg) w6c.
Proof. run_ok_tac. Qed.

(* replay of the file differs from the live manifest *)
Lemma w6a_refutes :
  let '(st, outs) := run w_cfg (mf_create w_cfg) w6a in
  exists mr off, replay 0 (mf_bytes st) = ROk mr off
    /\ sfind 2 (m_tables mr) = None /\ sfind 2 (m_tables (mf_man st)) <> None.
Proof. vm_compute. eexists _, _. split; [reflexivity|]. split; [reflexivity|discriminate]. Qed.

(* replay of the rewritten file holds a table that no accepted change set created *)
Lemma w6b_refutes :
  let '(st, outs) := run w_cfg (mf_create w_cfg) w6b in
  exists mr off ms, replay 0 (mf_bytes st) = ROk mr off
    /\ apply_sets empty_manifest (accepted w6b outs) = (ms, None)
    /\ sfind 2 (m_tables mr) <> None /\ sfind 2 (m_tables ms) = None.
Proof.
  vm_compute. eexists _, _, _. split; [reflexivity|]. split; [reflexivity|].
  split; [discriminate|reflexivity].
Qed.

(* the file written by accepted calls only is rejected by replay (Open fails) *)
Lemma w6c_refutes :
  let '(st, outs) := run w_cfg (mf_create w_cfg) w6c in
  replay 0 (mf_bytes st) = RErr (EApply (AExists 1)).
Proof. vm_compute. reflexivity. Qed.

(* ---- torn tails ---- *)
(* whole records: [create 1]; torn record: ten creates (payload 110 bytes) *)
Definition w_big : list change :=
  map (fun i => mkChange (1000 + i) 0 3 77 0 1) [0; 1; 2; 3; 4; 5; 6; 7; 8; 9].
Definition w_css : list (list change) := [[]; [w_create 1]].
Definition w_F : bytes := mf_image 0 w_css.
Definition w_rec : bytes := mf_record (pb_changeset w_big).

(* F16: cut 13 bytes into the record (8-byte prefix + 5 payload bytes), rest missing *)
Lemma w16_refutes :
  apply_sets empty_manifest w_css = (fst (apply_sets empty_manifest w_css), None)
  /\ (13 < length w_rec)%nat
  /\ replay 0 (w_F ++ firstn 13 w_rec) = RErr ELenGtSize.
Proof. vm_compute. repeat split; lia. Qed.

(* F5: same cut, rest zero-filled up to the full size *)
Lemma w5_refutes :
  replay 0 (w_F ++ firstn 13 w_rec ++ repeat 0 (length w_rec - 13)) = RErr EBadChecksum.
Proof. vm_compute. reflexivity. Qed.

(* the same record cut near its end: replay drops it (the property holds there) *)
Lemma w_torn_ok :
  replay 0 (w_F ++ firstn (length w_rec - 3) w_rec)
  = ROk (fst (apply_sets empty_manifest w_css)) (N.of_nat (length w_F)).
Proof. vm_compute. reflexivity. Qed.

(* ---- the refutations in the form the property file states them ---- *)
Lemma replay_refuted_live :
  exists thr ext steps,
    let cfg := cfg_current thr ext in
    ext < 65536 /\ run_ok true cfg (mf_create cfg) steps
    /\ let '(st, outs) := run cfg (mf_create cfg) steps in
       exists mr off, replay ext (mf_bytes st) = ROk mr off /\ m_tables mr <> m_tables (mf_man st).
Proof.
  exists 2%Z, 0, w6a. cbn zeta. split; [reflexivity|]. split; [exact w6a_run_ok|].
  pose proof w6a_refutes as H. fold w_cfg. destruct (run w_cfg (mf_create w_cfg) w6a) as [st outs].
  destruct H as (mr & off & H1 & H2 & H3). exists mr, off. split; auto. congruence.
Qed.

Lemma replay_refuted_persisted :
  exists thr ext steps,
    let cfg := cfg_current thr ext in
    ext < 65536 /\ run_ok true cfg (mf_create cfg) steps
    /\ let '(st, outs) := run cfg (mf_create cfg) steps in
       exists mr off ms, replay ext (mf_bytes st) = ROk mr off
         /\ apply_sets empty_manifest (accepted steps outs) = (ms, None)
         /\ m_tables mr <> m_tables ms.
Proof.
  exists 2%Z, 0, w6b. cbn zeta. split; [reflexivity|]. split; [exact w6b_run_ok|].
  pose proof w6b_refutes as H. fold w_cfg. destruct (run w_cfg (mf_create w_cfg) w6b) as [st outs].
  destruct H as (mr & off & ms & H1 & H2 & H3 & H4). exists mr, off, ms. repeat split; auto. congruence.
Qed.

Lemma replay_refuted_unreplayable :
  exists thr ext steps,
    let cfg := cfg_current thr ext in
    ext < 65536 /\ run_ok true cfg (mf_create cfg) steps
    /\ let '(st, outs) := run cfg (mf_create cfg) steps in
       exists e, replay ext (mf_bytes st) = RErr e.
Proof.
  exists 2%Z, 0, w6c. cbn zeta. split; [reflexivity|]. split; [exact w6c_run_ok|].
  pose proof w6c_refutes as H. fold w_cfg. destruct (run w_cfg (mf_create w_cfg) w6c) as [st outs].
  eauto.
Qed.

Lemma truncated_refuted :
  exists ext css m' payload n,
    ext < 65536 /\ Forall (fun cs => wf_changeset cs = true) css
    /\ apply_sets empty_manifest css = (m', None)
    /\ (n < length (mf_record payload))%nat
    /\ replay ext (mf_image ext css ++ firstn n (mf_record payload)) = RErr ELenGtSize.
Proof.
  exists 0, w_css, (fst (apply_sets empty_manifest w_css)), (pb_changeset w_big), 13%nat.
  destruct w16_refutes as (A & B & C).
  split; [reflexivity|]. split; [repeat constructor|]. split; [exact A|]. split; [exact B|exact C].
Qed.

Lemma zero_filled_refuted :
  exists ext css m' payload n,
    ext < 65536 /\ Forall (fun cs => wf_changeset cs = true) css
    /\ apply_sets empty_manifest css = (m', None)
    /\ (n < length (mf_record payload))%nat
    /\ replay ext (mf_image ext css ++ firstn n (mf_record payload)
                   ++ repeat 0 (length (mf_record payload) - n)) = RErr EBadChecksum.
Proof.
  exists 0, w_css, (fst (apply_sets empty_manifest w_css)), (pb_changeset w_big), 13%nat.
  destruct w16_refutes as (A & B & _).
  split; [reflexivity|]. split; [repeat constructor|]. split; [exact A|]. split; [exact B|exact w5_refutes].
Qed.
