(* LogRecord.v — one WAL / value-log record.
     memtable.go  logFile.encodeEntry, logFile.decodeEntry, logFile.generateIV
     value.go     safeRead.Entry, hashReader
     structs.go   header.DecodeFrom (encoding/binary.ReadUvarint over the hashReader)
     y/encrypt.go XORBlockStream / XORBlockAllocate (AES-CTR keystream: Section variable `xs`)
   layout:  header | key | value | crc32c(big endian)    — key|value encrypted when the file has a
   data key; the checksum covers header and key|value exactly as stored.
   Definitions only; proofs in LogProofs.v *)
From Verif Require Import Bytes Uvarint Keys Codec Crc32c.
Open Scope N_scope.

Record entry := mkEntry { e_key : bytes; e_value : bytes; e_meta : N; e_umeta : N; e_expires : N }.

(* ---- encoding/binary.ReadUvarint(r io.ByteReader) ----
     for i := 0; i < 10; i++ { b, err := r.ReadByte()
        if err != nil { if i > 0 && err == io.EOF { err = io.ErrUnexpectedEOF }; return x, err }
        if b < 0x80 { if i == 9 && b > 1 { return x, errOverflow }; return x | uint64(b)<<s, nil }
        x |= uint64(b&0x7f) << s; s += 7 }
     return x, errOverflow
   (differs from binary.Uvarint on a buffer: ten continuation bytes are an overflow without
   looking at an eleventh byte, and running out of input is an error) *)
Inductive uv_result :=
| UvOk (v : N) (n : nat) (rest : bytes)   (* value, bytes consumed, remaining input *)
| UvEof | UvUnexpected | UvOverflow.

Fixpoint read_uvarint_f (fuel : nat) (buf : bytes) (i : nat) (x s : N) : uv_result :=
  match fuel with
  | O => UvOverflow
  | S f =>
      match buf with
      | [] => if Nat.eqb i 0 then UvEof else UvUnexpected
      | b :: r =>
          if b <? 128 then
            if Nat.eqb i 9 && (1 <? b) then UvOverflow else UvOk (x + b * 2 ^ s) (S i) r
          else read_uvarint_f f r (S i) (x + (b mod 128) * 2 ^ s) (s + 7)
      end
  end.
Definition read_uvarint (buf : bytes) : uv_result := read_uvarint_f 10 buf 0 0 0.

(* ---- structs.go header.DecodeFrom(reader *hashReader) ---- *)
Inductive hdr_result :=
| HOk (h : header) (hlen : nat) (rest : bytes)
| HEof | HUnexpected | HOverflow.

Definition header_read (buf : bytes) : hdr_result :=
  match buf with
  | m :: u :: b2 =>
      match read_uvarint b2 with
      | UvEof => HEof | UvUnexpected => HUnexpected | UvOverflow => HOverflow
      | UvOk klen n1 b3 =>
          match read_uvarint b3 with
          | UvEof => HEof | UvUnexpected => HUnexpected | UvOverflow => HOverflow
          | UvOk vlen n2 b4 =>
              match read_uvarint b4 with
              | UvEof => HEof | UvUnexpected => HUnexpected | UvOverflow => HOverflow
              | UvOk ex n3 b5 =>
                  (* h.klen = uint32(klen); h.vlen = uint32(vlen) *)
                  HOk (mkHeader (klen mod two32) (vlen mod two32) ex m u) (2 + n1 + n2 + n3) b5
              end
          end
      end
  | _ => HEof          (* ReadByte on an exhausted reader: io.EOF (both for meta and userMeta) *)
  end.

(* io.ReadFull(r, buf[:n]) on the remaining input: Some (read, rest) or None (short) *)
Fixpoint split_at (buf : bytes) (n : N) {struct buf} : option (bytes * bytes) :=
  if n =? 0 then Some ([], buf)
  else match buf with
       | [] => None
       | b :: r => match split_at r (n - 1) with
                   | Some (a, c) => Some (b :: a, c)
                   | None => None
                   end
       end.

Inductive rd_result :=
| RdOk (e : entry) (hlen : nat) (rest : bytes)
| RdEof           (* io.EOF *)
| RdUnexpected    (* io.ErrUnexpectedEOF *)
| RdTruncate      (* errTruncate *)
| RdErr           (* any other error (varint overflow): logFile.iterate returns it *)
| RdPanic.        (* buf[:h.klen] out of range after the uint32 sum klen+vlen wrapped *)

(* the three results on which logFile.iterate leaves its loop without an error *)
Definition rd_is_stop (r : rd_result) : bool :=
  match r with RdEof | RdUnexpected | RdTruncate => true | _ => false end.

Section Log.
  (* dataKey != nil, the AES-CTR keystream application for this file's data key
     (iv -> data -> data; XOR with a keystream: an involution that keeps the length), and the
     12-byte base IV stored in the file header *)
  Variable encrypted : bool.
  Variable xs : bytes -> bytes -> bytes.
  Variable base_iv : bytes.

  (* logFile.generateIV: 12 bytes of baseIV then the record offset as big-endian uint32 *)
  Definition generate_iv (off : N) : bytes := base_iv ++ be_enc 4 off.

  Definition crypt (off : N) (d : bytes) : bytes :=
    if encrypted then xs (generate_iv off) d else d.

  Definition entry_header (e : entry) : header :=
    mkHeader (N.of_nat (length (e_key e)) mod two32) (N.of_nat (length (e_value e)) mod two32)
             (e_expires e) (e_meta e) (e_umeta e).

  (* logFile.encodeEntry(buf, e, offset): the bytes appended to buf *)
  Definition encode_entry (e : entry) (off : N) : bytes :=
    let hb := header_encode (entry_header e) in
    let kv := crypt off (e_key e ++ e_value e) in
    hb ++ kv ++ be_enc 4 (crc32c (hb ++ kv)).

  (* safeRead.Entry(reader) with r.recordOffset = off, on the remaining input buf *)
  Definition safe_read (buf : bytes) (off : N) : rd_result :=
    match header_read buf with
    | HEof => RdEof
    | HUnexpected => RdUnexpected
    | HOverflow => RdErr
    | HOk h hlen b5 =>
        if 65536 <? h_klen h then RdTruncate          (* h.klen > uint32(1<<16) *)
        else
          let n := (h_klen h + h_vlen h) mod two32 in  (* make([]byte, h.klen+h.vlen): uint32 sum *)
          match split_at b5 n with
          | None => match b5 with [] => RdTruncate | _ => RdUnexpected end
          | Some (kv, b6) =>
              match split_at (crypt off kv) (h_klen h) with
              | None => RdPanic                        (* e.Key = buf[:h.klen] *)
              | Some (k, v) =>
                  match split_at b6 4 with
                  | None => match b6 with [] => RdTruncate | _ => RdUnexpected end
                  | Some (crcb, b7) =>
                      if be_dec crcb =? crc32c (firstn hlen buf ++ kv)
                      then RdOk (mkEntry k v (h_meta h) (h_umeta h) (h_expires h)) hlen b7
                      else RdTruncate
                  end
              end
          end
    end.

  (* logFile.decodeEntry(buf, offset) (len(buf) = cap(buf)); None = run-time panic *)
  Definition decode_entry (buf : bytes) (off : N) : option entry :=
    match header_decode buf with
    | None => None
    | Some (h, hlen) =>
        match slice_from buf hlen with
        | None => None
        | Some kv0 =>
            let kv := crypt off kv0 in
            let hi := (h_klen h + h_vlen h) mod two32 in
            match split_at kv (h_klen h) with            (* kv[:h.klen] *)
            | None => None
            | Some (k, r) =>
                if hi <? h_klen h then None              (* kv[h.klen : h.klen+h.vlen] *)
                else match split_at r (hi - h_klen h) with
                     | None => None
                     | Some (v, _) => Some (mkEntry k v (h_meta h) (h_umeta h) (h_expires h))
                     end
            end
        end
    end.
End Log.

(* the keystream of a file without data key (dataKey == nil: nothing is applied) *)
Definition xs_id (iv d : bytes) : bytes := d.

(* length of a record as iterate computes it for the value pointer:
   uint32(e.hlen + len(e.Key) + len(e.Value) + crc32.Size) *)
Definition record_len (hlen : nat) (e : entry) : N :=
  (N.of_nat hlen + N.of_nat (length (e_key e)) + N.of_nat (length (e_value e)) + 4) mod two32.
