(* BlockProofs.v — proofs about coq/A/Block.v (builder, block parsing, blockIterator). *)
From Verif Require Import Bytes BytesProofs Uvarint UvarintProofs Keys Codec C20Proofs Block.
From Coq Require Import ZifyN ZifyNat ZifyBool Sorting.Sorted.
Open Scope N_scope.

(* ================= the order of CompareKeys on keys of length >= 8 ================= *)

Definition klt (a b : bytes) : Prop := compare_keys a b = Some Lt.

Lemma split8 (a : bytes) : (8 <= length a)%nat -> a = dropn_end 8 a ++ lastn 8 a.
Proof. intros _. unfold dropn_end, lastn. now rewrite firstn_skipn. Qed.

Lemma ck_some a b : (8 <= length a)%nat -> (8 <= length b)%nat ->
  compare_keys a b = Some (match lex_cmp (dropn_end 8 a) (dropn_end 8 b) with
                           | Eq => lex_cmp (lastn 8 a) (lastn 8 b) | c => c end).
Proof.
  intros Ha Hb. unfold compare_keys.
  assert (E: ((length a <? 8) || (length b <? 8))%nat = false) by lia. now rewrite E.
Qed.

Lemma ck_len a b c : compare_keys a b = Some c -> (8 <= length a)%nat /\ (8 <= length b)%nat.
Proof.
  unfold compare_keys. destruct ((length a <? 8) || (length b <? 8))%nat eqn:E; [discriminate|]. lia.
Qed.

Lemma ck_refl a : (8 <= length a)%nat -> compare_keys a a = Some Eq.
Proof. intros H. rewrite ck_some by assumption. now rewrite !lex_cmp_refl. Qed.

Lemma ck_eq a b : compare_keys a b = Some Eq -> a = b.
Proof.
  intros H. destruct (ck_len _ _ _ H) as [Ha Hb]. rewrite ck_some in H by assumption.
  injection H as H.
  destruct (lex_cmp (dropn_end 8 a) (dropn_end 8 b)) eqn:E1; try discriminate.
  apply lex_cmp_eq in E1, H. rewrite (split8 a Ha), (split8 b Hb). congruence.
Qed.

Lemma ck_antisym a b c : compare_keys a b = Some c -> compare_keys b a = Some (CompOpp c).
Proof.
  intros H. destruct (ck_len _ _ _ H) as [Ha Hb]. rewrite ck_some in * by assumption.
  injection H as <-. f_equal.
  rewrite (lex_cmp_antisym (dropn_end 8 a) (dropn_end 8 b)).
  rewrite (lex_cmp_antisym (lastn 8 a) (lastn 8 b)).
  destruct (lex_cmp (dropn_end 8 a) (dropn_end 8 b)); reflexivity.
Qed.

Lemma klt_trans a b c : klt a b -> klt b c -> klt a c.
Proof.
  unfold klt. intros H1 H2.
  destruct (ck_len _ _ _ H1) as [Ha Hb]. destruct (ck_len _ _ _ H2) as [_ Hc].
  rewrite ck_some in * by assumption. injection H1 as H1. injection H2 as H2. f_equal.
  destruct (lex_cmp (dropn_end 8 a) (dropn_end 8 b)) eqn:E1; try discriminate;
  destruct (lex_cmp (dropn_end 8 b) (dropn_end 8 c)) eqn:E2; try discriminate.
  - apply lex_cmp_eq in E1, E2. rewrite E1, E2, lex_cmp_refl.
    eapply lex_cmp_trans_lt; eassumption.
  - apply lex_cmp_eq in E1. rewrite E1, E2. reflexivity.
  - apply lex_cmp_eq in E2. rewrite <- E2, E1. reflexivity.
  - rewrite (lex_cmp_trans_lt _ _ _ E1 E2). reflexivity.
Qed.

Lemma klt_irrefl a : ~ klt a a.
Proof.
  unfold klt. intros H. destruct (ck_len _ _ _ H) as [Ha _]. rewrite ck_refl in H by assumption.
  discriminate.
Qed.

(* "not less" composed with "less" *)
Lemma ck_ge_lt_trans a b c x : compare_keys a b = Some x -> x <> Lt -> klt c b -> klt c a.
Proof.
  intros H Hx Hcb. destruct x; [|congruence|].
  - apply ck_eq in H. now subst.
  - apply ck_antisym in H. cbn in H. eapply klt_trans; eassumption.
Qed.

Lemma ck_lt_ge_false a b c x : klt a b -> compare_keys c b = Some x -> klt c a -> x = Lt.
Proof.
  intros Hab Hcb Hca. pose proof (klt_trans _ _ _ Hca Hab) as H. unfold klt in H. congruence.
Qed.

(* ================= slices ================= *)

Lemma zlen_app {A} (a b : list A) : zlen (a ++ b) = (zlen a + zlen b)%Z.
Proof. unfold zlen. rewrite app_length. lia. Qed.

Lemma zlen_nonneg {A} (a : list A) : (0 <= zlen a)%Z.
Proof. unfold zlen. lia. Qed.

Lemma slice_ok l lo hi : (0 <= lo)%Z -> (lo <= hi)%Z -> (hi <= zlen l)%Z ->
  slice l lo hi = Some (firstn (Z.to_nat (hi - lo)) (skipn (Z.to_nat lo) l)).
Proof.
  intros H1 H2 H3. unfold slice.
  assert (E: ((lo <? 0) || (hi <? lo) || (zlen l <? hi))%Z = false) by lia. now rewrite E.
Qed.

Lemma slice_mid (a b c : bytes) :
  slice (a ++ b ++ c) (zlen a) (zlen a + zlen b) = Some b.
Proof.
  rewrite slice_ok; try (rewrite ?zlen_app; pose proof (zlen_nonneg a); pose proof (zlen_nonneg b);
                         pose proof (zlen_nonneg c); lia).
  f_equal. unfold zlen. rewrite Nat2Z.id.
  replace (Z.to_nat (Z.of_nat (length a) + Z.of_nat (length b) - Z.of_nat (length a))) with (length b) by lia.
  rewrite skipn_app, skipn_all, Nat.sub_diag. cbn [skipn app].
  rewrite firstn_app, firstn_all, Nat.sub_diag. cbn. apply app_nil_r.
Qed.

Lemma slice_at (l a b c : bytes) lo hi : l = a ++ b ++ c -> lo = zlen a -> hi = (zlen a + zlen b)%Z ->
  slice l lo hi = Some b.
Proof. intros -> -> ->. apply slice_mid. Qed.

Lemma slice_prefix (a b : bytes) : slice (a ++ b) 0 (zlen a) = Some a.
Proof. exact (slice_mid [] a b). Qed.

Lemma slice_suffix (a b : bytes) : slice (a ++ b) (zlen a) (zlen (a ++ b)) = Some b.
Proof.
  pose proof (slice_mid a b []) as H. rewrite app_nil_r in H. now rewrite zlen_app.
Qed.

Lemma slice_prefix' (l : bytes) n : (0 <= n <= zlen l)%Z -> slice l 0 n = Some (firstn (Z.to_nat n) l).
Proof. intros H. rewrite slice_ok by lia. now rewrite Z.sub_0_r. Qed.

Lemma slice_range (l : bytes) a b : (a <= b <= length l)%nat ->
  slice l (Z.of_nat a) (Z.of_nat b) = Some (firstn (b - a) (skipn a l)).
Proof.
  intros H. rewrite slice_ok by (unfold zlen; lia). f_equal. rewrite Nat2Z.id. f_equal. lia.
Qed.

(* ================= block header ================= *)

Lemma le2_dec_enc x : x < u16 -> le_dec (le_enc 2 x) = x.
Proof. intros H. apply le_dec_enc_small. change (256 ^ N.of_nat 2) with 65536. exact H. Qed.

Lemma bh_encode_len ov df : length (bh_encode ov df) = 4%nat.
Proof. unfold bh_encode. now rewrite app_length, !le_enc_length. Qed.

Lemma bh_decode_encode ov df rest : ov < u16 -> df < u16 ->
  bh_decode (bh_encode ov df ++ rest) = Some (ov, df).
Proof.
  intros Ho Hd. unfold bh_decode.
  pose proof (slice_prefix (bh_encode ov df) rest) as H.
  unfold zlen in H. rewrite bh_encode_len in H. change (Z.of_nat 4) with 4%Z in H. rewrite H.
  unfold bh_encode. f_equal.
  rewrite (firstn_len_app (le_enc 2 ov)) by apply le_enc_length.
  rewrite (skipn_len_app (le_enc 2 ov)) by apply le_enc_length.
  now rewrite !le2_dec_enc.
Qed.

(* ================= common prefix ================= *)

Lemma cpl_le_l a b : (cpl a b <= length a)%nat.
Proof. revert b; induction a as [|x a IH]; intros [|y b]; cbn; try lia. destruct (x =? y); cbn; [specialize (IH b)|]; lia. Qed.

Lemma cpl_le_r a b : (cpl a b <= length b)%nat.
Proof. revert b; induction a as [|x a IH]; intros [|y b]; cbn; try lia. destruct (x =? y); cbn; [specialize (IH b)|]; lia. Qed.

Lemma cpl_firstn a b : firstn (cpl a b) a = firstn (cpl a b) b.
Proof.
  revert b; induction a as [|x a IH]; intros [|y b]; cbn; try reflexivity.
  destruct (x =? y) eqn:E; cbn; [|reflexivity]. apply N.eqb_eq in E. subst. now rewrite IH.
Qed.

Lemma key_diff_len base k : (length (key_diff base k) = length k - cpl k base)%nat.
Proof. unfold key_diff. now rewrite skipn_length. Qed.

Lemma key_diff_rebuild base k : firstn (cpl k base) base ++ key_diff base k = k.
Proof. unfold key_diff. rewrite <- cpl_firstn. apply firstn_skipn. Qed.

(* ================= concatenated chunks and their offsets ================= *)

Lemma prefix_sums_len a xs : length (prefix_sums a xs) = length xs.
Proof. revert a; induction xs as [|x xs IH]; intros a; cbn; auto. Qed.

Lemma prefix_sums_nth xs : forall a i, (i < length xs)%nat ->
  nth i (prefix_sums a xs) 0 = N.of_nat (a + length (concat (firstn i xs))).
Proof.
  induction xs as [|x xs IH]; intros a i Hi; cbn in Hi; [lia|].
  destruct i as [|i]; cbn [prefix_sums nth firstn concat length].
  - f_equal. lia.
  - rewrite IH by lia. rewrite app_length. f_equal. lia.
Qed.

Lemma prefix_sums_app a xs ys :
  prefix_sums a (xs ++ ys) = prefix_sums a xs ++ prefix_sums (a + length (concat xs)) ys.
Proof.
  revert a; induction xs as [|x xs IH]; intros a; cbn [app prefix_sums concat length].
  - now rewrite Nat.add_0_r.
  - rewrite IH. rewrite app_length. do 3 f_equal. lia.
Qed.

Lemma concat_firstn_S {A} (xs : list (list A)) i d : (i < length xs)%nat ->
  concat (firstn (S i) xs) = concat (firstn i xs) ++ nth i xs d.
Proof.
  revert i; induction xs as [|x xs IH]; intros i Hi; cbn in Hi; [lia|].
  destruct i as [|i].
  - cbn. now rewrite app_nil_r.
  - rewrite !firstn_cons. cbn [concat nth].
    rewrite IH by lia. now rewrite app_assoc.
Qed.

Lemma concat_split_nth {A} (xs : list (list A)) i d : (i < length xs)%nat ->
  concat xs = concat (firstn i xs) ++ nth i xs d ++ concat (skipn (S i) xs).
Proof.
  revert i; induction xs as [|x xs IH]; intros i Hi; cbn in Hi; [lia|].
  destruct i as [|i]; cbn [firstn concat nth skipn app]; [reflexivity|].
  rewrite (IH i) at 1 by lia. now rewrite app_assoc.
Qed.

(* entry i of the concatenation lies between offset i and offset i+1 (or the end) *)
Lemma slice_concat_nth (xs : list bytes) i : (i < length xs)%nat ->
  slice (concat xs) (Z.of_nat (length (concat (firstn i xs))))
        (Z.of_nat (length (concat (firstn (S i) xs)))) = Some (nth i xs []).
Proof.
  intros Hi. unfold bytes in *. rewrite (concat_firstn_S xs i []) by assumption.
  rewrite (concat_split_nth xs i []) at 1 by assumption.
  rewrite app_length, Nat2Z.inj_add. apply slice_mid.
Qed.

(* ================= the bytes of a chunk ================= *)

Definition wf_key (k : bytes) : Prop := (8 <= length k)%nat /\ N.of_nat (length k) < 65532.

(* size bound of one entry's bytes *)
Definition esize (e : kv) : nat := 4 + length (fst e) + length (vs_encode (snd e)).
Definition tsize (es : list kv) : nat := list_sum (map esize es).

Definition wf_es (es : list kv) : Prop :=
  Forall (fun e => wf_key (fst e)) es /\ N.of_nat (tsize es) < two32.

Lemma enc_entry_len base e : (length (enc_entry base e) <= esize e)%nat.
Proof.
  unfold enc_entry, esize. rewrite !app_length, bh_encode_len.
  destruct (length base =? 0)%nat; [lia|]. rewrite key_diff_len. lia.
Qed.

Lemma enc_entry_len4 base e : (4 <= length (enc_entry base e))%nat.
Proof. unfold enc_entry. rewrite !app_length, bh_encode_len. lia. Qed.

Lemma tsize_app a b : tsize (a ++ b) = (tsize a + tsize b)%nat.
Proof. unfold tsize. now rewrite map_app, list_sum_app. Qed.

Lemma tsize_cons e es : tsize (e :: es) = (esize e + tsize es)%nat.
Proof. reflexivity. Qed.

Lemma concat_map_enc_len base es :
  (length (concat (map (enc_entry base) es)) <= tsize es)%nat.
Proof.
  induction es as [|e es IH]; cbn [map concat]; [cbn; lia|].
  rewrite app_length, tsize_cons. pose proof (enc_entry_len base e). lia.
Qed.

Lemma chunk_encs_len c : length (chunk_encs c) = length c.
Proof. destruct c as [|e0 r]; cbn; [reflexivity|]. now rewrite map_length. Qed.

Lemma chunk_data_len c : (length (concat (chunk_encs c)) <= tsize c)%nat.
Proof.
  destruct c as [|e0 r]; [cbn; lia|]. cbn [chunk_encs concat]. rewrite app_length.
  pose proof (enc_entry_len [] e0). pose proof (concat_map_enc_len (fst e0) r).
  rewrite tsize_cons. lia.
Qed.

Lemma chunk_encs_snoc c e : c <> [] ->
  chunk_encs (c ++ [e]) = chunk_encs c ++ [enc_entry (fst (hd e c)) e].
Proof.
  destruct c as [|e0 r]; [congruence|]. intros _. cbn [app chunk_encs hd]. now rewrite map_app.
Qed.

(* ================= Builder.addHelper on a chunk ================= *)

Lemma add_helper_chunk c k v :
  Forall (fun e => wf_key (fst e)) c -> wf_key k ->
  N.of_nat (tsize (c ++ [(k, v)])) < two32 ->
  add_helper (chunk_block c) k v = Some (chunk_block (c ++ [(k, v)])).
Proof.
  intros Hc Hk Hsz. unfold add_helper. cbn [chunk_block bb_base bb_data bb_offs].
  rewrite tsize_app, tsize_cons in Hsz. unfold esize in Hsz. cbn [fst snd tsize map list_sum] in Hsz.
  pose proof (chunk_data_len c) as Hdl.
  destruct c as [|e0 r].
  - (* first entry of the block *)
    cbn [length Nat.eqb]. rewrite Nat.sub_diag.
    assert (E1: (65535 <? N.of_nat 0) || (65535 <? N.of_nat (length k)) = false)
      by (unfold wf_key in Hk; lia). rewrite E1.
    assert (E2: N.of_nat (length (vs_encode v)) <? two32 = true) by lia. rewrite E2. cbn [negb].
    unfold chunk_block. cbn [app chunk_encs map concat prefix_sums fst length].
    unfold enc_entry. cbn [fst snd length Nat.eqb]. rewrite Nat.sub_diag, app_nil_r.
    rewrite N.mod_small by (unfold two32; lia). reflexivity.
  - inversion Hc as [|? ? Hk0 Hr]; subst.
    assert (E0: (length (fst e0) =? 0)%nat = false) by (unfold wf_key in Hk0; apply Nat.eqb_neq; lia).
    rewrite E0. rewrite key_diff_len.
    pose proof (cpl_le_l k (fst e0)).
    assert (E1: (65535 <? N.of_nat (length k - (length k - cpl k (fst e0))))
                || (65535 <? N.of_nat (length k - cpl k (fst e0))) = false)
      by (unfold wf_key in Hk; lia). rewrite E1.
    assert (E2: N.of_nat (length (vs_encode v)) <? two32 = true) by lia. rewrite E2. cbn [negb].
    unfold chunk_block. f_equal.
    rewrite chunk_encs_snoc by discriminate. cbn [hd].
    rewrite concat_app. cbn [concat]. rewrite app_nil_r.
    rewrite prefix_sums_app. cbn [prefix_sums Nat.add].
    rewrite N.mod_small by (unfold two32 in *; lia).
    f_equal.
    unfold enc_entry. cbn [fst snd]. rewrite E0, key_diff_len. reflexivity.
Qed.

Lemma chunk_block_offs_nil c : (length (bb_offs (chunk_block c)) =? 0)%nat = true <-> c = [].
Proof.
  cbn [chunk_block bb_offs]. rewrite prefix_sums_len, chunk_encs_len, Nat.eqb_eq.
  destruct c; cbn; split; congruence || lia.
Qed.

(* ================= the builder produces a partition of its input ================= *)

Definition max_version (es : list kv) : N :=
  fold_left (fun m e => if m <? parse_ts (fst e) then parse_ts (fst e) else m) es 0.

(* state invariant of add_all: finished blocks = chunks of a partition, current block = chunk c *)
Lemma add_all_partition pol : forall es P c st,
  wf_es (concat P ++ c ++ es) ->
  Forall (fun p => p <> []) P ->
  bs_cur st = chunk_block c -> bs_done st = map chunk_block P ->
  forall st', add_all pol st es = Some st' ->
  exists P' c', concat P' ++ c' = concat P ++ c ++ es /\ Forall (fun p => p <> []) P' /\
                bs_cur st' = chunk_block c' /\ bs_done st' = map chunk_block P' /\
                bs_maxv st' = fold_left (fun m e => if m <? parse_ts (fst e) then parse_ts (fst e) else m) es (bs_maxv st) /\
                bs_nkeys st' = bs_nkeys st + N.of_nat (length es).
Proof.
  induction es as [|[k v] es IH]; intros P c st Hwf HP Hcur Hdone st' Hrun; cbn [add_all] in Hrun.
  - injection Hrun as <-. exists P, c. rewrite app_nil_r. cbn. repeat split; auto. lia.
  - destruct (add_internal pol st k v) as [st1|] eqn:Hadd; [|discriminate].
    unfold add_internal in Hadd. destruct (pol (bs_cur st) k v) as [fin|]; [|discriminate].
    set (st0 := if fin then finish_block st else st) in *.
    (* the chunk configuration after the optional finishBlock *)
    assert (Hcfg: exists P0 c0, concat P0 ++ c0 = concat P ++ c /\ Forall (fun p => p <> []) P0 /\
                   bs_cur st0 = chunk_block c0 /\ bs_done st0 = map chunk_block P0 /\
                   bs_maxv st0 = bs_maxv st /\ bs_nkeys st0 = bs_nkeys st).
    { destruct fin; subst st0.
      - unfold finish_block. destruct (length (bb_offs (bs_cur st)) =? 0)%nat eqn:E.
        + rewrite Hcur in E. apply chunk_block_offs_nil in E. subst c.
          exists P, []. cbn. repeat split; auto.
        + exists (P ++ [c]), []. cbn [bs_cur bs_done bs_maxv bs_nkeys].
          rewrite concat_app. cbn. rewrite !app_nil_r. repeat split; auto.
          * apply Forall_app. split; [assumption|]. constructor; [|constructor].
            intros ->. rewrite Hcur in E. cbn in E. discriminate.
          * rewrite map_app, Hdone, Hcur. reflexivity.
      - exists P, c. repeat split; auto. }
    destruct Hcfg as (P0 & c0 & Hcat & HP0 & Hcur0 & Hdone0 & Hmv0 & Hnk0).
    assert (Hall: concat P ++ c ++ (k, v) :: es = concat P0 ++ (c0 ++ [(k, v)]) ++ es).
    { rewrite <- app_assoc. cbn [app]. rewrite !app_assoc. rewrite Hcat. now rewrite <- !app_assoc. }
    assert (Hwf': wf_es (concat P0 ++ (c0 ++ [(k, v)]) ++ es)) by (rewrite <- Hall; exact Hwf).
    destruct Hwf' as [Hkeys Hsz].
    rewrite Hcur0 in Hadd.
    rewrite add_helper_chunk in Hadd.
    + injection Hadd as <-.
      specialize (IH P0 (c0 ++ [(k, v)]) (mkBS (chunk_block (c0 ++ [(k, v)])) (bs_done st0)
                     (if bs_maxv st0 <? parse_ts k then parse_ts k else bs_maxv st0) (bs_nkeys st0 + 1))).
      destruct (IH (conj Hkeys Hsz) HP0 eq_refl Hdone0 st' Hrun) as (P' & c' & H1 & H2 & H3 & H4 & H5 & H6).
      exists P', c'. split; [etransitivity; [exact H1|symmetry; exact Hall]|]. repeat split; auto.
      * rewrite H5. cbn [bs_maxv fold_left fst]. now rewrite Hmv0.
      * rewrite H6. cbn [bs_nkeys length]. rewrite Hnk0. lia.
    + apply Forall_app in Hkeys as [_ Hkeys]. apply Forall_app in Hkeys as [Hkeys _].
      apply Forall_app in Hkeys as [Hkeys _]. exact Hkeys.
    + apply Forall_app in Hkeys as [_ Hkeys]. apply Forall_app in Hkeys as [Hkeys _].
      apply Forall_app in Hkeys as [_ Hkeys]. now inversion Hkeys.
    + rewrite !tsize_app in Hsz. rewrite tsize_app. lia.
Qed.

(* Builder with ANY split policy: if it does not panic, the finished blocks are the blocks of a
   partition of the input into non-empty chunks; maxVersion and key count as specified *)
Theorem build_partition pol es bl maxv nk :
  wf_es es -> build pol es = Some (bl, maxv, nk) ->
  exists P, concat P = es /\ Forall (fun p => p <> []) P /\ bl = map chunk_block P /\
            maxv = max_version es /\ nk = N.of_nat (length es) mod two32.
Proof.
  intros Hwf Hb. unfold build in Hb.
  destruct (add_all pol bs_init es) as [st|] eqn:Hrun; [|discriminate].
  injection Hb as <- <- <-.
  destruct (add_all_partition pol es [] [] bs_init Hwf (Forall_nil _) eq_refl eq_refl st Hrun)
    as (P' & c' & H1 & H2 & H3 & H4 & H5 & H6).
  cbn [concat app] in H1.
  unfold finish_block. destruct (length (bb_offs (bs_cur st)) =? 0)%nat eqn:E.
  - rewrite H3 in E. apply chunk_block_offs_nil in E. subst c'. rewrite app_nil_r in H1.
    exists P'. cbn [bs_done bs_maxv bs_nkeys]. repeat split; auto. rewrite H6. cbn. f_equal.
  - exists (P' ++ [c']). cbn [bs_done bs_maxv bs_nkeys]. repeat split.
    + rewrite concat_app. cbn. now rewrite app_nil_r.
    + apply Forall_app. split; [assumption|]. constructor; [|constructor].
      intros ->. rewrite H3 in E. cbn in E. discriminate.
    + now rewrite map_app, H4, H3.
    + exact H5.
    + rewrite H6. cbn. f_equal.
Qed.

(* ================= the builder does not panic (any policy that does not, the coded one) ============ *)
Lemma add_all_total (pol : policy) T : N.of_nat T < two32 ->
  (forall c k v, (tsize c + esize (k, v) <= T)%nat -> pol (chunk_block c) k v <> None) ->
  forall es c st, Forall (fun e => wf_key (fst e)) (c ++ es) -> (tsize (c ++ es) <= T)%nat ->
  bs_cur st = chunk_block c -> exists st', add_all pol st es = Some st'.
Proof.
  intros HT Hpol. induction es as [|[k v] es IH]; intros c st Hk Hsz Hcur; cbn [add_all]; [eauto|].
  unfold add_internal. rewrite Hcur.
  rewrite tsize_app, tsize_cons in Hsz.
  destruct (pol (chunk_block c) k v) as [fin|] eqn:Ep; [|exfalso; apply (Hpol c k v); [lia|exact Ep]].
  set (st0 := if fin then finish_block st else st).
  assert (Hc0: exists c0, bs_cur st0 = chunk_block c0 /\ (tsize c0 <= tsize c)%nat /\
                          Forall (fun e => wf_key (fst e)) c0).
  { apply Forall_app in Hk as [Hkc _]. destruct fin; subst st0.
    - exists []. unfold finish_block. destruct (length (bb_offs (bs_cur st)) =? 0)%nat; cbn; repeat split; auto; lia.
    - exists c. auto. }
  destruct Hc0 as (c0 & Hc0 & Hsz0 & Hk0). rewrite Hc0.
  apply Forall_app in Hk as [_ Hk]. inversion Hk as [|? ? Hkk Hkes]; subst. cbn [fst] in Hkk.
  rewrite add_helper_chunk; [|exact Hk0|exact Hkk|rewrite tsize_app, tsize_cons; change (tsize []) with 0%nat; lia].
  apply (IH (c0 ++ [(k, v)])); [| |reflexivity].
  - rewrite <- app_assoc. apply Forall_app. split; [exact Hk0|]. constructor; assumption.
  - rewrite <- app_assoc. cbn [app]. rewrite tsize_app, tsize_cons. lia.
Qed.

Lemma len_le_tsize c : (4 * length c <= tsize c)%nat.
Proof. induction c as [|e c IH]; [cbn; lia|]. rewrite tsize_cons. unfold esize. cbn [length]. lia. Qed.

(* the coded shouldFinishBlock never trips its assertions below ~1.4 GiB of entries *)
Lemma sfb_total bs enc c k v : N.of_nat (3 * (tsize c + esize (k, v)) + 64) < two32 ->
  should_finish_block bs enc (chunk_block c) k v <> None.
Proof.
  intros H. unfold should_finish_block. cbn [chunk_block bb_offs bb_data].
  rewrite prefix_sums_len, chunk_encs_len.
  pose proof (len_le_tsize c) as Hl. pose proof (chunk_data_len c) as Hd.
  unfold esize in H. cbn [fst snd] in H.
  destruct (N.of_nat (length c) =? 0); [discriminate|].
  unfold two32 in *.
  rewrite (N.mod_small (N.of_nat (length c))) by lia.
  rewrite (N.mod_small ((N.of_nat (length c) + 1) * 4 + 4 + 8 + 4)) by lia.
  assert (E1: (N.of_nat (length c) + 1) * 4 + 4 + 8 + 4 <? 4294967295 = true) by lia. rewrite E1. cbn [negb].
  rewrite (N.mod_small (N.of_nat (length (concat (chunk_encs c))))) by lia.
  rewrite (N.mod_small (N.of_nat (length k))) by lia.
  assert (Hv: vs_encoded_size v <= N.of_nat (length (vs_encode v))).
  { unfold vs_encoded_size, vs_encode. rewrite !app_length. cbn [length]. rewrite size_varint_put.
    etransitivity; [apply N.mod_le; unfold two32; lia|]. lia. }
  set (S0 := N.of_nat (length (concat (chunk_encs c))) + 6 + N.of_nat (length k) + vs_encoded_size v +
             ((N.of_nat (length c) + 1) * 4 + 4 + 8 + 4)).
  assert (HS0: S0 < 4294967296 - 100) by (unfold S0; lia).
  rewrite (N.mod_small S0) by lia.
  destruct enc.
  - rewrite (N.mod_small (S0 + 16)) by lia.
    assert (E2: N.of_nat (length (concat (chunk_encs c))) + (S0 + 16) <? 4294967295 = true) by (unfold S0; lia).
    rewrite E2. discriminate.
  - assert (E2: N.of_nat (length (concat (chunk_encs c))) + S0 <? 4294967295 = true) by (unfold S0; lia).
    rewrite E2. discriminate.
Qed.

Theorem build_coded_total bs enc es : Forall (fun e => wf_key (fst e)) es ->
  N.of_nat (3 * tsize es + 64) < two32 ->
  exists r, build (should_finish_block bs enc) es = Some r.
Proof.
  intros Hk Hsz. unfold build.
  destruct (add_all_total (should_finish_block bs enc) (tsize es)) with (es := es) (c := @nil kv) (st := bs_init)
    as (st' & Hst); try reflexivity; auto.
  - unfold two32 in *. lia.
  - intros c k v Hle. apply sfb_total. unfold two32 in *. lia.
  - rewrite Hst. eauto.
Qed.

(* ================= blockIterator.setIdx on a built block (C18_setidx) ================= *)

Definition dkv : kv := ([], mkVS 0 0 0 []).
Definition ckey (c : list kv) (i : nat) : bytes := fst (nth i c dkv).
Definition cvs (c : list kv) (i : nat) : value_struct := snd (nth i c dkv).
Definition cval (c : list kv) (i : nat) : bytes := vs_encode (cvs c i).
(* the overlap stored in entry i's header *)
Definition e_ov (c : list kv) (i : nat) : nat :=
  match i with O => O | _ => cpl (ckey c i) (ckey c 0) end.

Definition wf_chunk (c : list kv) : Prop := c <> [] /\ Forall (fun e => wf_key (fst e)) c.

Lemma wf_chunk_key c i : wf_chunk c -> (i < length c)%nat -> wf_key (ckey c i).
Proof.
  intros [_ H] Hi. rewrite Forall_forall in H. apply H. unfold ckey. now apply nth_In.
Qed.

Lemma e_ov_le_key c i : (e_ov c i <= length (ckey c i))%nat.
Proof. destruct i; cbn; [lia|apply cpl_le_l]. Qed.
Lemma e_ov_le_base c i : (e_ov c i <= length (ckey c 0))%nat.
Proof. destruct i; cbn; [lia|apply cpl_le_r]. Qed.
Lemma e_ov_firstn c i : firstn (e_ov c i) (ckey c 0) = firstn (e_ov c i) (ckey c i).
Proof. destruct i; cbn [e_ov]; [reflexivity|]. symmetry. apply cpl_firstn. Qed.

Lemma chunk_enc_nth c i : wf_chunk c -> (i < length c)%nat ->
  nth i (chunk_encs c) [] =
  bh_encode (N.of_nat (e_ov c i)) (N.of_nat (length (ckey c i) - e_ov c i))
  ++ skipn (e_ov c i) (ckey c i) ++ cval c i.
Proof.
  intros Hwf Hi. destruct c as [|e0 r]; [cbn in Hi; lia|].
  destruct i as [|i]; cbn [chunk_encs nth].
  - unfold enc_entry, ckey, cval, cvs. cbn [nth fst snd length Nat.eqb e_ov skipn].
    now rewrite Nat.sub_diag, Nat.sub_0_r.
  - cbn in Hi. rewrite (nth_indep _ [] (enc_entry (fst e0) dkv)) by (rewrite map_length; lia).
    rewrite map_nth. unfold enc_entry.
    pose proof (wf_chunk_key _ 0 Hwf ltac:(cbn; lia)) as [H0 _]. unfold ckey in H0. cbn [nth] in H0.
    assert (E0: (length (fst e0) =? 0)%nat = false) by (apply Nat.eqb_neq; lia). rewrite E0.
    unfold ckey, cval, cvs. cbn [nth e_ov]. rewrite key_diff_len. unfold key_diff.
    pose proof (cpl_le_l (fst (nth i r dkv)) (fst e0)).
    replace (length (fst (nth i r dkv)) - (length (fst (nth i r dkv)) - cpl (fst (nth i r dkv)) (fst e0)))%nat
      with (cpl (fst (nth i r dkv)) (fst e0)) by lia.
    reflexivity.
Qed.

(* the block view: the iterator is over the block of chunk c, and its key buffer agrees with the
   base key on the first prevOverlap bytes *)
Definition BV (c : list kv) (it : biter) : Prop :=
  bi_data it = concat (chunk_encs c) /\ bi_offs it = prefix_sums 0 (chunk_encs c) /\
  ((bi_base it = [] /\ bi_prev it = 0) \/
   (bi_base it = ckey c 0 /\
    (N.to_nat (bi_prev it) <= length (bi_key it))%nat /\
    (N.to_nat (bi_prev it) <= length (ckey c 0))%nat /\
    firstn (N.to_nat (bi_prev it)) (bi_key it) = firstn (N.to_nat (bi_prev it)) (ckey c 0))) /\
  (bi_key it = [] \/ exists j, (j < length c)%nat /\ bi_key it = ckey c j).

Lemma BV_set_block c : BV c (set_block (chunk_blk c)).
Proof. unfold BV, set_block. cbn. repeat split; auto. Qed.

Lemma firstn_firstn_skipn {A} (l : list A) a b : (a <= b)%nat ->
  firstn a l ++ firstn (b - a) (skipn a l) = firstn b l.
Proof.
  intros H. rewrite <- (firstn_skipn a (firstn b l)).
  rewrite firstn_firstn, Nat.min_l by lia. f_equal.
  rewrite skipn_firstn_comm. reflexivity.
Qed.

(* the prevOverlap optimisation reconstructs base[:overlap] *)
Lemma prefix_reuse k0 key (pv ov : N) :
  (N.to_nat pv <= length key)%nat -> (N.to_nat pv <= length k0)%nat ->
  firstn (N.to_nat pv) key = firstn (N.to_nat pv) k0 -> (N.to_nat ov <= length k0)%nat ->
  exists key1,
    (if pv <? ov then
       match slice key 0 (Z.of_N pv), slice k0 (Z.of_N pv) (Z.of_N ov) with
       | Some a, Some b => Some (a ++ b)
       | _, _ => None
       end
     else Some key) = Some key1 /\
    slice key1 0 (Z.of_N ov) = Some (firstn (N.to_nat ov) k0).
Proof.
  intros H1 H2 H3 H4. destruct (pv <? ov) eqn:E.
  - rewrite slice_prefix' by (unfold zlen; lia).
    replace (Z.of_N pv) with (Z.of_nat (N.to_nat pv)) by lia.
    replace (Z.of_N ov) with (Z.of_nat (N.to_nat ov)) by lia.
    rewrite slice_range by lia. rewrite Nat2Z.id.
    eexists. split; [reflexivity|].
    rewrite H3, firstn_firstn_skipn by lia.
    rewrite slice_prefix' by (unfold zlen; rewrite firstn_length; lia).
    rewrite Nat2Z.id, firstn_firstn, Nat.min_id. reflexivity.
  - exists key. split; [reflexivity|].
    rewrite slice_prefix' by (unfold zlen; lia). f_equal.
    replace (Z.to_nat (Z.of_N ov)) with (N.to_nat ov) by lia.
    rewrite <- (Nat.min_l (N.to_nat ov) (N.to_nat pv)) at 1 by lia.
    rewrite <- firstn_firstn, H3, firstn_firstn, Nat.min_l by lia. reflexivity.
Qed.

Lemma nthN_offs c i : (i < length c)%nat ->
  nthN (prefix_sums 0 (chunk_encs c)) (Z.of_nat i) = Z.of_nat (length (concat (firstn i (chunk_encs c)))).
Proof.
  intros Hi. unfold nthN. rewrite Nat2Z.id, prefix_sums_nth by (rewrite chunk_encs_len; lia). lia.
Qed.

Theorem set_idx_ok c it i : wf_chunk c -> BV c it -> (i < length c)%nat ->
  set_idx it (Z.of_nat i) =
  Some (mkBI (bi_data it) (bi_offs it) (Z.of_nat i) false (ckey c 0) (ckey c i) (cval c i)
             (N.of_nat (e_ov c i))).
Proof.
  intros Hwf (Hd & Ho & Hinv & _) Hi. unfold set_idx.
  assert (Hn: zlen (bi_offs it) = Z.of_nat (length c))
    by (unfold zlen; now rewrite Ho, prefix_sums_len, chunk_encs_len).
  rewrite Hn.
  assert (E: ((Z.of_nat (length c) <=? Z.of_nat i) || (Z.of_nat i <? 0))%Z = false) by lia.
  rewrite E. clear E.
  pose proof (wf_chunk_key _ _ Hwf Hi) as [Hk8 Hk].
  assert (H0: (0 < length c)%nat) by lia.
  pose proof (wf_chunk_key _ _ Hwf H0) as [Hk08 Hk0].
  (* the base key *)
  assert (Hbase: (if (length (bi_base it) =? 0)%nat
                  then match bh_decode (bi_data it) with
                       | Some (_, df) => slice (bi_data it) 4 (Z.of_N ((4 + df) mod u16))
                       | None => None
                       end
                  else Some (bi_base it)) = Some (ckey c 0)).
  { destruct (length (bi_base it) =? 0)%nat eqn:E.
    - rewrite Hd. rewrite (concat_split_nth (chunk_encs c) 0 []) by (rewrite chunk_encs_len; lia).
      cbn [firstn concat app]. rewrite chunk_enc_nth by assumption.
      cbn [e_ov skipn]. rewrite Nat.sub_0_r. rewrite <- !app_assoc.
      rewrite bh_decode_encode by (unfold u16; lia).
      rewrite N.mod_small by (unfold u16; lia).
      pose proof (slice_mid (bh_encode (N.of_nat 0) (N.of_nat (length (ckey c 0)))) (ckey c 0)
                            (cval c 0 ++ concat (skipn 1 (chunk_encs c)))) as Hs.
      unfold zlen in Hs. rewrite bh_encode_len in Hs.
      replace (Z.of_N (4 + N.of_nat (length (ckey c 0)))) with (Z.of_nat 4 + Z.of_nat (length (ckey c 0)))%Z by lia.
      exact Hs.
    - destruct Hinv as [[Hb _]|[Hb _]]; [rewrite Hb in E; discriminate|now rewrite Hb]. }
  rewrite Hbase. clear Hbase.
  (* the entry's bytes *)
  rewrite Ho, nthN_offs by assumption.
  assert (Hend: (if (Z.of_nat i + 1 =? Z.of_nat (length c))%Z then zlen (bi_data it)
                 else nthN (prefix_sums 0 (chunk_encs c)) (Z.of_nat i + 1))
                = Z.of_nat (length (concat (firstn (S i) (chunk_encs c))))).
  { destruct (Z.of_nat i + 1 =? Z.of_nat (length c))%Z eqn:E.
    - assert (S i = length c) by lia. unfold zlen. rewrite Hd. f_equal. f_equal.
      rewrite firstn_all2; [reflexivity|rewrite chunk_encs_len; lia].
    - replace (Z.of_nat i + 1)%Z with (Z.of_nat (S i)) by lia. apply nthN_offs. lia. }
  rewrite Hend, Hd. clear Hend.
  rewrite slice_concat_nth by (rewrite chunk_encs_len; lia).
  rewrite chunk_enc_nth by assumption.
  pose proof (e_ov_le_key c i) as Hov1. pose proof (e_ov_le_base c i) as Hov2.
  rewrite bh_decode_encode by (unfold u16; lia).
  (* the key prefix *)
  assert (Hpre: (N.to_nat (bi_prev it) <= length (bi_key it))%nat /\
                (N.to_nat (bi_prev it) <= length (ckey c 0))%nat /\
                firstn (N.to_nat (bi_prev it)) (bi_key it) = firstn (N.to_nat (bi_prev it)) (ckey c 0)).
  { destruct Hinv as [[_ Hp]|[_ Hp]]; [rewrite Hp; cbn; repeat split; lia|exact Hp]. }
  destruct Hpre as (Hp1 & Hp2 & Hp3).
  destruct (prefix_reuse (ckey c 0) (bi_key it) (bi_prev it) (N.of_nat (e_ov c i)) Hp1 Hp2 Hp3 ltac:(lia))
    as (key1 & Hk1 & Hk1s).
  match goal with |- match ?X with _ => _ end = _ =>
    replace X with (Some key1) by (symmetry; exact Hk1) end.
  rewrite Hk1s. clear Hk1 Hk1s.
  rewrite N.mod_small by (unfold u16; lia).
  set (hdr := bh_encode (N.of_nat (e_ov c i)) (N.of_nat (length (ckey c i) - e_ov c i))).
  set (diff := skipn (e_ov c i) (ckey c i)).
  assert (Hdl: length diff = (length (ckey c i) - e_ov c i)%nat) by (unfold diff; now rewrite skipn_length).
  assert (Hhl: zlen hdr = 4%Z) by (unfold zlen, hdr; now rewrite bh_encode_len).
  replace (Z.of_N (4 + N.of_nat (length (ckey c i) - e_ov c i))) with (zlen hdr + zlen diff)%Z
    by (rewrite Hhl; unfold zlen; rewrite Hdl; lia).
  rewrite <- Hhl at 1. rewrite slice_mid.
  replace (zlen hdr + zlen diff)%Z with (zlen (hdr ++ diff)) by apply zlen_app.
  rewrite app_assoc. rewrite slice_suffix.
  f_equal. f_equal.
  rewrite Nat2N.id, e_ov_firstn. unfold diff. apply firstn_skipn.
Qed.

Lemma set_idx_out it i : ((zlen (bi_offs it) <=? i) || (i <? 0))%Z = true ->
  set_idx it i = Some (mkBI (bi_data it) (bi_offs it) i true (bi_base it) (bi_key it) (bi_val it) (bi_prev it)).
Proof. intros H. unfold set_idx. now rewrite H. Qed.

Lemma BV_after_set c it i : wf_chunk c -> BV c it -> (i < length c)%nat ->
  BV c (mkBI (bi_data it) (bi_offs it) (Z.of_nat i) false (ckey c 0) (ckey c i) (cval c i)
             (N.of_nat (e_ov c i))).
Proof.
  intros Hwf (Hd & Ho & _ & _) Hi. unfold BV. cbn [bi_data bi_offs bi_base bi_key bi_prev].
  repeat split; auto.
  - right. rewrite Nat2N.id. repeat split.
    + apply e_ov_le_key.
    + apply e_ov_le_base.
    + symmetry. apply e_ov_firstn.
  - right. exists i. auto.
Qed.

Lemma BV_after_out c it i : BV c it ->
  BV c (mkBI (bi_data it) (bi_offs it) i true (bi_base it) (bi_key it) (bi_val it) (bi_prev it)).
Proof. intros H. exact H. Qed.

Lemma BV_irrel c it i e v : BV c it ->
  BV c (mkBI (bi_data it) (bi_offs it) i e (bi_base it) (bi_key it) v (bi_prev it)).
Proof. intros H. exact H. Qed.

Lemma BV_nlen c it : BV c it -> zlen (bi_offs it) = Z.of_nat (length c).
Proof. intros (_ & Ho & _). unfold zlen. now rewrite Ho, prefix_sums_len, chunk_encs_len. Qed.

(* C18_setidx: after ANY sequence of setIdx calls (any indices, valid or not, in any order) from
   setBlock, a valid index yields exactly that entry's key and encoded value *)
Fixpoint set_idx_seq (it : biter) (is_ : list Z) : option biter :=
  match is_ with
  | [] => Some it
  | i :: r => match set_idx it i with None => None | Some it' => set_idx_seq it' r end
  end.

Lemma set_idx_any c it i : wf_chunk c -> BV c it ->
  exists it', set_idx it i = Some it' /\ BV c it' /\ bi_idx it' = i /\
    ((0 <= i < Z.of_nat (length c))%Z ->
       bi_eof it' = false /\ bi_key it' = ckey c (Z.to_nat i) /\ bi_val it' = cval c (Z.to_nat i)) /\
    (~ (0 <= i < Z.of_nat (length c))%Z -> bi_eof it' = true /\ bi_key it' = bi_key it).
Proof.
  intros Hwf Hbv.
  destruct (Z_lt_dec i 0) as [Hneg|Hnn]; [|destruct (Z_lt_dec i (Z.of_nat (length c))) as [Hlt|Hge]].
  - eexists. split; [apply set_idx_out; rewrite (BV_nlen _ _ Hbv); lia|].
    split; [apply BV_after_out; exact Hbv|]. cbn. repeat split; auto; lia.
  - assert (Hi: (Z.to_nat i < length c)%nat) by lia.
    pose proof (set_idx_ok c it (Z.to_nat i) Hwf Hbv Hi) as H. rewrite Z2Nat.id in H by lia.
    eexists. split; [exact H|]. split; [apply BV_after_set; assumption|]. cbn. repeat split; auto; lia.
  - eexists. split; [apply set_idx_out; rewrite (BV_nlen _ _ Hbv); lia|].
    split; [apply BV_after_out; exact Hbv|]. cbn. repeat split; auto; lia.
Qed.

Theorem set_idx_seq_ok c is_ i : wf_chunk c -> (i < length c)%nat ->
  exists it', set_idx_seq (set_block (chunk_blk c)) (is_ ++ [Z.of_nat i]) = Some it' /\
              bi_eof it' = false /\ bi_key it' = ckey c i /\ bi_val it' = cval c i.
Proof.
  intros Hwf Hi. pose proof (BV_set_block c) as Hbv. revert Hbv.
  generalize (set_block (chunk_blk c)) as it.
  induction is_ as [|j r IH]; intros it Hbv; cbn [app set_idx_seq].
  - rewrite (set_idx_ok c it i Hwf Hbv Hi). eexists. split; [reflexivity|]. cbn. auto.
  - destruct (set_idx_any c it j Hwf Hbv) as (it' & H1 & H2 & _). rewrite H1. apply IH. exact H2.
Qed.

(* ================= sort.Search ================= *)
Section BSearchSpec.
  Context {St : Type}.
  Variable probe : St -> Z -> option (bool * St).
  Variable Inv : St -> Prop.
  Variable p : Z -> bool.
  Variables lo hi : Z.
  Hypothesis Hprobe : forall s h, Inv s -> (lo <= h < hi)%Z ->
    exists s', probe s h = Some (p h, s') /\ Inv s'.
  Hypothesis Hmono : forall a b, (lo <= a <= b)%Z -> (b < hi)%Z -> p a = true -> p b = true.

  Lemma bsearch_spec : forall fuel i j s, Inv s -> (lo <= i <= j)%Z -> (j <= hi)%Z ->
    (Z.to_nat (j - i) <= fuel)%nat ->
    (forall a, (lo <= a < i)%Z -> p a = false) -> (forall a, (j <= a < hi)%Z -> p a = true) ->
    exists r s', bsearch probe fuel i j s = Some (r, s') /\ Inv s' /\ (i <= r <= j)%Z /\
                 (forall a, (lo <= a < r)%Z -> p a = false) /\ (forall a, (r <= a < hi)%Z -> p a = true).
  Proof.
    induction fuel as [|f IH]; intros i j s Hs Hij Hj Hf Hlow Hhigh.
    - assert (i = j) by lia. subst j. cbn [bsearch]. rewrite Z.ltb_irrefl.
      exists i, s. repeat split; auto; lia.
    - cbn [bsearch]. destruct (i <? j)%Z eqn:E.
      + apply Z.ltb_lt in E.
        assert (Hh: (i <= (i + j) / 2 < j)%Z).
        { split; [apply Z.div_le_lower_bound; lia|apply Z.div_lt_upper_bound; lia]. }
        set (h := ((i + j) / 2)%Z) in *.
        destruct (Hprobe s h Hs ltac:(lia)) as (s' & Hp & Hs'). rewrite Hp.
        destruct (p h) eqn:Eph.
        * destruct (IH i h s' Hs' ltac:(lia) ltac:(lia) ltac:(lia) Hlow) as (r & s'' & H1 & H2 & H3 & H4 & H5).
          { intros a Ha. apply (Hmono h a); [lia|lia|exact Eph]. }
          exists r, s''. repeat split; auto; lia.
        * destruct (IH (h + 1)%Z j s' Hs' ltac:(lia) ltac:(lia) ltac:(lia)) as (r & s'' & H1 & H2 & H3 & H4 & H5).
          { intros a Ha. destruct (p a) eqn:Epa; [|reflexivity].
            assert (p h = true) by (apply (Hmono a h); [lia|lia|exact Epa]). congruence. }
          { exact Hhigh. }
          exists r, s''. repeat split; auto; lia.
      + apply Z.ltb_ge in E. assert (i = j) by lia. subst j.
        exists i, s. repeat split; auto; lia.
  Qed.
End BSearchSpec.

(* index of the first element satisfying p (length if none) *)
Fixpoint find_idx {A} (p : A -> bool) (l : list A) : nat :=
  match l with
  | [] => O
  | x :: r => if p x then O else S (find_idx p r)
  end.

Lemma find_idx_le {A} (p : A -> bool) l : (find_idx p l <= length l)%nat.
Proof. induction l as [|x l IH]; cbn; [lia|]. destruct (p x); lia. Qed.

Lemma find_idx_char {A} (p : A -> bool) d : forall l r, (r <= length l)%nat ->
  (forall a, (a < r)%nat -> p (nth a l d) = false) ->
  ((r < length l)%nat -> p (nth r l d) = true) -> find_idx p l = r.
Proof.
  induction l as [|x l IH]; intros r Hr Hlow Hat; cbn in Hr.
  - cbn. lia.
  - cbn [find_idx]. destruct r as [|r].
    + cbn in Hat. rewrite Hat by lia. reflexivity.
    + pose proof (Hlow 0%nat ltac:(lia)) as H0. cbn in H0. rewrite H0. f_equal.
      apply IH; [lia| |].
      * intros a Ha. apply (Hlow (S a)). lia.
      * intros H. apply Hat. cbn. lia.
Qed.

Lemma find_idx_before {A} (p : A -> bool) d l a : (a < find_idx p l)%nat -> p (nth a l d) = false.
Proof.
  revert a; induction l as [|x l IH]; intros a Ha; cbn in Ha; [lia|].
  destruct (p x) eqn:E; [lia|]. destruct a as [|a]; cbn; [exact E|apply IH; lia].
Qed.

Lemma find_idx_at {A} (p : A -> bool) d l : (find_idx p l < length l)%nat -> p (nth (find_idx p l) l d) = true.
Proof.
  induction l as [|x l IH]; cbn; [lia|]. destruct (p x) eqn:E; [auto|]. intros H. apply IH. lia.
Qed.

(* ================= sorted chunks ================= *)
Definition sorted_kv (c : list kv) : Prop := StronglySorted klt (map fst c).

Lemma sorted_nth c i j : sorted_kv c -> (i < j)%nat -> (j < length c)%nat -> klt (ckey c i) (ckey c j).
Proof.
  unfold sorted_kv, ckey. revert i j. induction c as [|e c IH]; intros i j Hs Hij Hj; cbn in Hj; [lia|].
  cbn [map] in Hs. apply StronglySorted_inv in Hs as [Hs Hall].
  destruct j as [|j]; [lia|]. destruct i as [|i]; cbn [nth].
  - rewrite Forall_forall in Hall. apply Hall. apply in_map. apply nth_In. lia.
  - apply IH; [assumption|lia|lia].
Qed.

Definition ge_key (k : bytes) (e : kv) : bool :=
  match compare_keys (fst e) k with Some Lt => false | _ => true end.
Definition gt_key (k : bytes) (e : kv) : bool :=
  match compare_keys (fst e) k with Some Gt => true | _ => false end.

Lemma ge_key_mono c k a b : sorted_kv c -> (a <= b)%nat -> (b < length c)%nat ->
  ge_key k (nth a c dkv) = true -> ge_key k (nth b c dkv) = true.
Proof.
  intros Hs Hab Hb Ha. destruct (Nat.eq_dec a b) as [->|Hne]; [exact Ha|].
  pose proof (sorted_nth c a b Hs ltac:(lia) Hb) as Hlt. unfold ckey in Hlt.
  unfold ge_key in *. destruct (compare_keys (fst (nth b c dkv)) k) as [[]|] eqn:E; auto.
  assert (klt (fst (nth a c dkv)) k) by (eapply klt_trans; eassumption).
  unfold klt in H. rewrite H in Ha. discriminate.
Qed.

(* ================= blockIterator.seek ================= *)
Lemma seek_probe_ok c k it h : wf_chunk c -> (8 <= length k)%nat -> BV c it ->
  (0 <= h < Z.of_nat (length c))%Z ->
  exists it', seek_probe k 0 it h = Some (ge_key k (nth (Z.to_nat h) c dkv), it') /\ BV c it'.
Proof.
  intros Hwf Hk Hbv Hh. unfold seek_probe.
  assert (E: (h <? 0)%Z = false) by lia. rewrite E.
  assert (Hi: (Z.to_nat h < length c)%nat) by lia.
  pose proof (set_idx_ok c it (Z.to_nat h) Hwf Hbv Hi) as H. rewrite Z2Nat.id in H by lia.
  rewrite H. cbn [bi_key].
  pose proof (wf_chunk_key _ _ Hwf Hi) as [Hk8 _].
  rewrite ck_some by assumption. eexists. split;
    [|exact (BV_irrel _ _ h false (cval c (Z.to_nat h)) (BV_after_set c it (Z.to_nat h) Hwf Hbv Hi))].
  unfold ge_key. fold (ckey c (Z.to_nat h)). rewrite ck_some by assumption.
  destruct (match lex_cmp (dropn_end 8 (ckey c (Z.to_nat h))) (dropn_end 8 k) with
            | Eq => lex_cmp (lastn 8 (ckey c (Z.to_nat h))) (lastn 8 k) | c0 => c0 end); reflexivity.
Qed.

Theorem bi_seek_ok c k it : wf_chunk c -> sorted_kv c -> (8 <= length k)%nat -> BV c it ->
  let r := find_idx (ge_key k) c in
  exists it', bi_seek it k false = Some it' /\ BV c it' /\ bi_idx it' = Z.of_nat r /\
    ((r < length c)%nat -> bi_eof it' = false /\ bi_key it' = ckey c r /\ bi_val it' = cval c r) /\
    ((r = length c)%nat -> bi_eof it' = true).
Proof.
  intros Hwf Hs Hk Hbv r. unfold bi_seek.
  set (it0 := mkBI (bi_data it) (bi_offs it) (bi_idx it) false (bi_base it) (bi_key it) (bi_val it) (bi_prev it)).
  assert (Hbv0: BV c it0) by exact Hbv.
  rewrite (BV_nlen _ _ Hbv).
  assert (Hlen: length (bi_offs it) = length c).
  { pose proof (BV_nlen _ _ Hbv) as H. unfold zlen in H. lia. }
  rewrite Hlen.
  assert (Hprobe: forall s h, BV c s -> (0 <= h < Z.of_nat (length c))%Z ->
            exists s', seek_probe k 0 s h = Some (ge_key k (nth (Z.to_nat h) c dkv), s') /\ BV c s').
  { intros s h Hs' Hh. apply seek_probe_ok; assumption. }
  assert (Hmono: forall a b, (0 <= a <= b)%Z -> (b < Z.of_nat (length c))%Z ->
            ge_key k (nth (Z.to_nat a) c dkv) = true -> ge_key k (nth (Z.to_nat b) c dkv) = true).
  { intros a b Hab Hb. apply ge_key_mono; [assumption|lia|lia]. }
  destruct (bsearch_spec (seek_probe k 0) (BV c) (fun h => ge_key k (nth (Z.to_nat h) c dkv)) 0
              (Z.of_nat (length c)) Hprobe Hmono (length c) 0%Z (Z.of_nat (length c)) it0 Hbv0
              ltac:(lia) ltac:(lia) ltac:(lia) ltac:(intros; lia) ltac:(intros; lia))
    as (r' & s' & H1 & H2 & H3 & H4 & H5).
  rewrite H1.
  assert (Hr: r = Z.to_nat r').
  { apply (find_idx_char _ dkv); [lia| |].
    - intros a Ha. specialize (H4 (Z.of_nat a) ltac:(lia)). now rewrite Nat2Z.id in H4.
    - intros Hlt. apply H5. lia. }
  destruct (set_idx_any c s' r' Hwf H2) as (it' & Hset & Hbv' & Hidx & Hin & Hout).
  exists it'. split; [exact Hset|]. split; [exact Hbv'|]. split; [lia|]. split.
  - intros Hlt. rewrite Hr. apply Hin. lia.
  - intros Heq. apply Hout. lia.
Qed.

(* ================= Table.block: parsing the stored block (C18_block_roundtrip) ================= *)

Lemma be4_dec_enc x : x < two32 -> be_dec (be_enc 4 x) = x.
Proof. intros H. apply be_dec_enc_small. rewrite <- two32_pow. exact H. Qed.
Lemma le4_dec_enc x : x < two32 -> le_dec (le_enc 4 x) = x.
Proof. intros H. apply le_dec_enc_small. rewrite <- two32_pow. exact H. Qed.

Lemma u32s_le_concat offs rest : Forall (fun o => o < two32) offs ->
  u32s_le (length offs) (concat (map (le_enc 4) offs) ++ rest) = offs.
Proof.
  induction offs as [|o offs IH]; intros H; cbn [length u32s_le map concat]; [reflexivity|].
  inversion H as [|? ? Ho Hr]; subst. rewrite <- app_assoc.
  rewrite (firstn_len_app (le_enc 4 o)) by apply le_enc_length.
  rewrite (skipn_len_app (le_enc 4 o)) by apply le_enc_length.
  rewrite le4_dec_enc by assumption. f_equal. apply IH. assumption.
Qed.

Lemma concat_le4_len offs : length (concat (map (le_enc 4) offs)) = (4 * length offs)%nat.
Proof. induction offs as [|o offs IH]; cbn [map concat length]; [reflexivity|]. rewrite app_length, le_enc_length, IH. lia. Qed.

Theorem parse_block_roundtrip b cs :
  Forall (fun o => o < two32) (bb_offs b) -> N.of_nat (length (bb_offs b)) < two32 ->
  N.of_nat (length cs) < two32 ->
  parse_block (block_raw (block_payload b) cs) = Some (mkBlk (bb_data b) (bb_offs b)).
Proof.
  intros Hoffs Hn Hcs. unfold block_raw, block_payload.
  rewrite (N.mod_small _ _ Hn), (N.mod_small _ _ Hcs).
  set (D := bb_data b). set (O := concat (map (le_enc 4) (bb_offs b))).
  set (C4 := be_enc 4 (N.of_nat (length (bb_offs b)))). set (L4 := be_enc 4 (N.of_nat (length cs))).
  assert (HO: zlen O = (4 * Z.of_nat (length (bb_offs b)))%Z) by (unfold zlen, O; rewrite concat_le4_len; lia).
  assert (HC: zlen C4 = 4%Z) by (unfold zlen, C4; now rewrite be_enc_length).
  assert (HL: zlen L4 = 4%Z) by (unfold zlen, L4; now rewrite be_enc_length).
  unfold parse_block.
  set (raw := (D ++ O ++ C4) ++ cs ++ L4).
  assert (Hlen: zlen raw = (zlen D + zlen O + 4 + zlen cs + 4)%Z)
    by (unfold raw; rewrite !zlen_app; lia).
  pose proof (zlen_nonneg D) as HD0. pose proof (zlen_nonneg cs) as Hcs0.
  assert (Hzl: forall x : bytes, Z.of_N (N.of_nat (length x)) = zlen x) by (intros; unfold zlen; lia).
  (* checksum length *)
  assert (S1: slice raw (zlen raw - 4) (zlen raw - 4 + 4) = Some L4).
  { apply (slice_at _ ((D ++ O ++ C4) ++ cs) L4 []).
    - unfold raw. rewrite app_nil_r, <- !app_assoc. reflexivity.
    - rewrite Hlen, !zlen_app. lia.
    - rewrite Hlen, !zlen_app. lia. }
  rewrite S1.
  assert (HdL: be_dec L4 = N.of_nat (length cs)) by (unfold L4; apply be4_dec_enc; assumption).
  rewrite HdL, Hzl.
  assert (E1: (zlen raw <? zlen cs)%Z = false) by (apply Z.ltb_ge; lia). rewrite E1.
  (* checksum *)
  assert (S2: slice raw (zlen raw - 4 - zlen cs) (zlen raw - 4 - zlen cs + zlen cs) = Some cs).
  { apply (slice_at _ (D ++ O ++ C4) cs L4).
    - reflexivity.
    - rewrite Hlen, !zlen_app. lia.
    - rewrite Hlen, !zlen_app. lia. }
  rewrite S2.
  (* number of entries *)
  assert (S3: slice raw (zlen raw - 4 - zlen cs - 4) (zlen raw - 4 - zlen cs - 4 + 4) = Some C4).
  { apply (slice_at _ (D ++ O) C4 (cs ++ L4)).
    - unfold raw. rewrite <- !app_assoc. reflexivity.
    - rewrite Hlen, !zlen_app. lia.
    - rewrite Hlen, !zlen_app. lia. }
  rewrite S3.
  assert (HdC: be_dec C4 = N.of_nat (length (bb_offs b))) by (unfold C4; apply be4_dec_enc; assumption).
  rewrite HdC.
  set (rp := (zlen raw - 4 - zlen cs - 4)%Z).
  assert (Hrp: rp = (zlen D + zlen O)%Z) by (unfold rp; rewrite Hlen; lia).
  assert (Heis: (rp - Z.of_N (N.of_nat (length (bb_offs b))) * 4)%Z = zlen D) by (rewrite Hrp, HO; lia).
  rewrite Heis.
  assert (S4: slice raw (zlen D) (zlen D + Z.of_N (N.of_nat (length (bb_offs b))) * 4) = Some O).
  { apply (slice_at _ D O (C4 ++ cs ++ L4)).
    - unfold raw. rewrite <- !app_assoc. reflexivity.
    - reflexivity.
    - rewrite HO. lia. }
  rewrite S4.
  assert (S5: slice raw 0 (rp + 4) = Some (D ++ O ++ C4)).
  { apply (slice_at _ [] (D ++ O ++ C4) (cs ++ L4)).
    - reflexivity.
    - reflexivity.
    - rewrite Hrp, !zlen_app, HC. change (zlen (@nil N)) with 0%Z. lia. }
  rewrite S5.
  rewrite (slice_prefix D (O ++ C4)).
  f_equal. f_equal.
  replace (Z.to_nat (Z.of_N (N.of_nat (length (bb_offs b))))) with (length (bb_offs b)) by lia.
  rewrite <- (app_nil_r O). unfold O. apply u32s_le_concat. assumption.
Qed.

(* offsets of a chunk are below 2^32 when the chunk's size is *)
Lemma prefix_sums_bound xs : forall a, N.of_nat (a + length (concat xs)) < two32 ->
  Forall (fun o => o < two32) (prefix_sums a xs).
Proof.
  induction xs as [|x xs IH]; intros a H; cbn [prefix_sums]; constructor.
  - cbn [concat] in H. rewrite app_length in H. lia.
  - apply IH. cbn [concat] in H. rewrite app_length in H. lia.
Qed.

Lemma chunk_parse c cs : wf_chunk c -> N.of_nat (tsize c) < two32 -> N.of_nat (length cs) < two32 ->
  parse_block (block_raw (block_payload (chunk_block c)) cs) = Some (chunk_blk c).
Proof.
  intros Hwf Hsz Hcs. pose proof (chunk_data_len c) as Hdl.
  rewrite parse_block_roundtrip; [reflexivity| | |assumption].
  - cbn [chunk_block bb_offs]. apply prefix_sums_bound. cbn [Nat.add]. lia.
  - cbn [chunk_block bb_offs]. rewrite prefix_sums_len, chunk_encs_len.
    (* each entry occupies at least 4 bytes *)
    assert (H: (length c <= tsize c)%nat).
    { clear. induction c as [|e c IH]; [cbn; lia|]. rewrite tsize_cons. unfold esize. cbn [length]. lia. }
    lia.
Qed.

(* ================= decoding a whole block ================= *)
Lemma skipn_cons_nth {A} (l : list A) i d : (i < length l)%nat -> skipn i l = nth i l d :: skipn (S i) l.
Proof.
  revert i; induction l as [|x l IH]; intros i Hi; cbn in Hi; [lia|].
  destruct i as [|i]; [reflexivity|]. cbn [skipn nth]. apply IH. lia.
Qed.

Definition entry_obs (e : kv) : bytes * option value_struct := (fst e, Some (snd e)).

Lemma bi_collect_ok c : wf_chunk c -> Forall (fun e => vs_expires (snd e) < two64) c ->
  forall fuel i it, BV c it -> (i <= length c)%nat -> (length c - i < fuel)%nat ->
  bi_idx it = Z.of_nat i ->
  (if (i <? length c)%nat then bi_eof it = false /\ bi_key it = ckey c i /\ bi_val it = cval c i
   else bi_eof it = true) ->
  bi_collect fuel it = Some (map entry_obs (skipn i c)).
Proof.
  intros Hwf Hex. induction fuel as [|f IH]; intros i it Hbv Hi Hf Hidx Hst; [lia|].
  cbn [bi_collect]. destruct (i <? length c)%nat eqn:E.
  - apply Nat.ltb_lt in E. destruct Hst as (He & Hk & Hv). rewrite He.
    unfold bi_next. rewrite Hidx.
    destruct (set_idx_any c it (Z.of_nat i + 1) Hwf Hbv) as (it' & H1 & H2 & H3 & H4 & H5).
    rewrite H1.
    rewrite (IH (S i) it' H2 ltac:(lia) ltac:(lia) ltac:(lia)).
    + rewrite Hk, Hv. rewrite (skipn_cons_nth c i dkv) by lia. cbn [map]. f_equal. f_equal.
      unfold entry_obs, ckey, cval, cvs. f_equal. rewrite vs_roundtrip; [reflexivity|].
      rewrite Forall_forall in Hex. apply Hex. apply nth_In. lia.
    + destruct (S i <? length c)%nat eqn:E2.
      * apply Nat.ltb_lt in E2. destruct (H4 ltac:(lia)) as (A & B & C).
        replace (Z.to_nat (Z.of_nat i + 1)) with (S i) in * by lia. auto.
      * apply Nat.ltb_ge in E2. apply H5. lia.
  - apply Nat.ltb_ge in E. rewrite Hst. rewrite skipn_all2 by lia. reflexivity.
Qed.

Theorem block_decode_all_ok c : wf_chunk c -> Forall (fun e => vs_expires (snd e) < two64) c ->
  block_decode_all (chunk_blk c) = Some (map entry_obs c).
Proof.
  intros Hwf Hex. unfold block_decode_all, bi_first.
  assert (H0: (0 < length c)%nat) by (destruct Hwf as [Hne _]; destruct c; [congruence|cbn; lia]).
  pose proof (set_idx_ok c _ 0 Hwf (BV_set_block c) H0) as H. cbn [Z.of_nat] in H. rewrite H.
  cbn [chunk_blk blk_offs]. rewrite prefix_sums_len, chunk_encs_len.
  rewrite (bi_collect_ok c Hwf Hex (S (length c)) 0); try reflexivity; try lia.
  - exact (BV_after_set c _ 0 Hwf (BV_set_block c) H0).
  - assert (E: (0 <? length c)%nat = true) by (apply Nat.ltb_lt; lia). rewrite E. cbn. auto.
Qed.
