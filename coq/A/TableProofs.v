(* TableProofs.v — the table iterator of coq/A/Table.v implements the cursor operations of the flat
   entry list, for any partition of the entries into non-empty blocks. *)
From Verif Require Import Bytes BytesProofs Uvarint UvarintProofs Keys Codec C20Proofs Block BlockProofs Table.
From Coq Require Import ZifyN ZifyNat ZifyBool Sorting.Sorted.
Open Scope N_scope.

(* ================= the table of a partition ================= *)
Definition tbl_of (P : list (list kv)) : table := map (fun c => mkTB (ckey c 0) (chunk_blk c)) P.

Definition off (P : list (list kv)) (b : nat) : nat := length (concat (firstn b P)).

Record wf_parts (P : list (list kv)) : Prop := {
  wp_chunks : Forall wf_chunk P;
  wp_ne : P <> [];
  wp_sorted : sorted_kv (concat P);
  wp_exp : Forall (fun e => vs_expires (snd e) < two64) (concat P) }.

Lemma nb_tbl P : nb (tbl_of P) = Z.of_nat (length P).
Proof. unfold nb, zlen, tbl_of. now rewrite map_length. Qed.

Lemma t_block_ok P b c : nth_error P b = Some c ->
  t_block (tbl_of P) (Z.of_nat b) = Some (Some (chunk_blk c)).
Proof.
  intros H. unfold t_block. assert (E: (Z.of_nat b <? 0)%Z = false) by lia. rewrite E.
  rewrite Nat2Z.id. unfold tbl_of. rewrite nth_error_map, H. reflexivity.
Qed.

Lemma wf_parts_chunk P b c : wf_parts P -> nth_error P b = Some c -> wf_chunk c.
Proof.
  intros [H _ _ _] Hn. rewrite Forall_forall in H. apply H. eapply nth_error_In; eassumption.
Qed.

Lemma chunk_len_pos c : wf_chunk c -> (0 < length c)%nat.
Proof. intros [Hne _]. destruct c; [congruence|cbn; lia]. Qed.

Lemma off_S P b c : nth_error P b = Some c -> off P (S b) = (off P b + length c)%nat.
Proof.
  intros H. unfold off. rewrite (concat_firstn_S P b c) by (apply nth_error_Some; congruence).
  rewrite app_length. now rewrite (nth_error_nth _ _ _ H).
Qed.

Lemma off_all P : off P (length P) = length (concat P).
Proof. unfold off. now rewrite firstn_all. Qed.

Lemma off_last P c : nth_error P (length P - 1) = Some c -> (0 < length P)%nat ->
  length (concat P) = (off P (length P - 1) + length c)%nat.
Proof.
  intros Hc Hp. rewrite <- off_all. rewrite <- (off_S P _ c Hc). f_equal. lia.
Qed.

Lemma nth_concat_off {A} (P : list (list A)) b c i d : nth_error P b = Some c -> (i < length c)%nat ->
  nth (length (concat (firstn b P)) + i) (concat P) d = nth i c d.
Proof.
  intros Hb Hi.
  rewrite (concat_split_nth P b c) by (apply nth_error_Some; congruence).
  rewrite app_nth2 by lia. replace (length (concat (firstn b P)) + i - length (concat (firstn b P)))%nat with i by lia.
  rewrite (nth_error_nth _ _ _ Hb). now rewrite app_nth1.
Qed.

Lemma off_lt P b c i : nth_error P b = Some c -> (i < length c)%nat -> (off P b + i < length (concat P))%nat.
Proof.
  intros Hb Hi. unfold off.
  rewrite (concat_split_nth P b c) by (apply nth_error_Some; congruence).
  rewrite (nth_error_nth _ _ _ Hb), !app_length. lia.
Qed.

(* ================= positions ================= *)
Definition AtB (c : list kv) (i : nat) (bi : biter) : Prop :=
  BV c bi /\ bi_idx bi = Z.of_nat i /\ bi_eof bi = false /\ bi_key bi = ckey c i /\
  bi_val bi = cval c i /\ (i < length c)%nat.

Definition At (P : list (list kv)) (st : titer) (g : nat) : Prop :=
  exists b c i, nth_error P b = Some c /\ g = (off P b + i)%nat /\ ti_bpos st = Z.of_nat b /\
                ti_err st = ENone /\ AtB c i (ti_bi st).

Lemma At_intro P st b c i : nth_error P b = Some c -> ti_bpos st = Z.of_nat b -> ti_err st = ENone ->
  AtB c i (ti_bi st) -> At P st (off P b + i).
Proof. intros. exists b, c, i. auto. Qed.

Lemma AtB_err c i bi : AtB c i bi -> bi_err bi = ENone.
Proof. intros (_ & _ & H & _). unfold bi_err. now rewrite H. Qed.

(* exhausted states *)
Definition EndF (P : list (list kv)) (st : titer) : Prop :=      (* ran off the end with next *)
  ti_err st = EEOF /\ (Z.of_nat (length P) <= ti_bpos st)%Z.
Definition EndS (P : list (list kv)) (st : titer) : Prop :=      (* seek beyond the last entry *)
  exists c, nth_error P (length P - 1) = Some c /\ ti_err st = EEOF /\
            ti_bpos st = Z.of_nat (length P - 1) /\ BV c (ti_bi st) /\
            bi_idx (ti_bi st) = Z.of_nat (length c).
Definition BeginR (st : titer) : Prop :=                          (* ran off the start with prev *)
  ti_err st = EEOF /\ (ti_bpos st < 0)%Z.

Lemma BV_data_nonempty c bi : wf_chunk c -> BV c bi -> (length (bi_data bi) =? 0)%nat = false.
Proof.
  intros Hwf (Hd & _). apply Nat.eqb_neq. rewrite Hd.
  destruct c as [|e0 r]; [destruct Hwf; congruence|]. cbn [chunk_encs concat]. rewrite app_length.
  pose proof (enc_entry_len4 [] e0). lia.
Qed.

(* ---- block-level steps ---- *)
Lemma first_AtB c : wf_chunk c -> exists bi, bi_first (set_block (chunk_blk c)) = Some bi /\ AtB c 0 bi.
Proof.
  intros Hwf. pose proof (chunk_len_pos c Hwf) as H0.
  pose proof (set_idx_ok c _ 0 Hwf (BV_set_block c) H0) as H. cbn [Z.of_nat] in H.
  eexists. split; [exact H|]. split; [exact (BV_after_set c _ 0 Hwf (BV_set_block c) H0)|].
  cbn. auto.
Qed.

Lemma last_AtB c : wf_chunk c -> exists bi, bi_last (set_block (chunk_blk c)) = Some bi /\ AtB c (length c - 1) bi.
Proof.
  intros Hwf. pose proof (chunk_len_pos c Hwf) as H0.
  assert (Hi: (length c - 1 < length c)%nat) by lia.
  pose proof (set_idx_ok c _ _ Hwf (BV_set_block c) Hi) as H.
  unfold bi_last. rewrite (BV_nlen c _ (BV_set_block c)).
  replace (Z.of_nat (length c) - 1)%Z with (Z.of_nat (length c - 1)) by lia.
  eexists. split; [exact H|]. split; [exact (BV_after_set c _ _ Hwf (BV_set_block c) Hi)|].
  cbn. auto.
Qed.

Lemma move_AtB c i bi (j : Z) : wf_chunk c -> AtB c i bi ->
  exists bi', set_idx bi j = Some bi' /\ BV c bi' /\ bi_idx bi' = j /\
    ((0 <= j < Z.of_nat (length c))%Z -> AtB c (Z.to_nat j) bi') /\
    (~ (0 <= j < Z.of_nat (length c))%Z -> bi_eof bi' = true).
Proof.
  intros Hwf (Hbv & _). destruct (set_idx_any c bi j Hwf Hbv) as (bi' & H1 & H2 & H3 & H4 & H5).
  exists bi'. split; [exact H1|]. split; [exact H2|]. split; [exact H3|]. split.
  - intros Hj. destruct (H4 Hj) as (A & B & C). unfold AtB. rewrite H3.
    split; [exact H2|]. split; [lia|]. split; [exact A|]. split; [exact B|]. split; [exact C|lia].
  - intros Hj. apply H5. exact Hj.
Qed.

(* ================= table-level steps ================= *)
Section Steps.
  Variable P : list (list kv).
  Hypothesis Hwf : wf_parts P.
  Let t := tbl_of P.

  Lemma load_first st b c : nth_error P b = Some c ->
    exists st', load_block t st (Z.of_nat b) bi_first = Some st' /\ At P st' (off P b).
  Proof.
    intros Hb. unfold load_block, t. rewrite (t_block_ok P b c Hb).
    destruct (first_AtB c (wf_parts_chunk P b c Hwf Hb)) as (bi & H1 & H2). rewrite H1.
    eexists. split; [reflexivity|]. rewrite <- (Nat.add_0_r (off P b)).
    apply (At_intro P _ b c 0 Hb); cbn [ti_bpos ti_err ti_bi]; auto. eapply AtB_err; eassumption.
  Qed.

  Lemma load_last st b c : nth_error P b = Some c ->
    exists st', load_block t st (Z.of_nat b) bi_last = Some st' /\ At P st' (off P b + (length c - 1)).
  Proof.
    intros Hb. unfold load_block, t. rewrite (t_block_ok P b c Hb).
    destruct (last_AtB c (wf_parts_chunk P b c Hwf Hb)) as (bi & H1 & H2). rewrite H1.
    eexists. split; [reflexivity|].
    apply (At_intro P _ b c _ Hb); cbn [ti_bpos ti_err ti_bi]; auto. eapply AtB_err; eassumption.
  Qed.

  Lemma P_len_pos : (0 < length P)%nat.
  Proof. destruct Hwf as [_ Hne _ _]. destruct P; [congruence|cbn; lia]. Qed.

  Lemma nth_error_ex b : (b < length P)%nat -> exists c, nth_error P b = Some c.
  Proof. intros H. destruct (nth_error P b) eqn:E; [eauto|]. apply nth_error_None in E. lia. Qed.

  Lemma seek_to_first_ok st : exists st', ti_seek_to_first t st = Some st' /\ At P st' 0.
  Proof.
    unfold ti_seek_to_first, t. rewrite nb_tbl. pose proof P_len_pos.
    assert (E: (Z.of_nat (length P) =? 0)%Z = false) by lia. rewrite E.
    destruct (nth_error_ex 0 ltac:(lia)) as (c & Hc).
    destruct (load_first st 0 c Hc) as (st' & H1 & H2). exists st'. split; [exact H1|exact H2].
  Qed.

  Lemma seek_to_last_ok st : exists st', ti_seek_to_last t st = Some st' /\ At P st' (length (concat P) - 1).
  Proof.
    unfold ti_seek_to_last, t. rewrite nb_tbl. pose proof P_len_pos.
    assert (E: (Z.of_nat (length P) =? 0)%Z = false) by lia. rewrite E.
    destruct (nth_error_ex (length P - 1) ltac:(lia)) as (c & Hc).
    replace (Z.of_nat (length P) - 1)%Z with (Z.of_nat (length P - 1)) by lia.
    destruct (load_last st _ c Hc) as (st' & H1 & H2). exists st'. split; [exact H1|].
    replace (length (concat P) - 1)%nat with (off P (length P - 1) + (length c - 1))%nat; [exact H2|].
    rewrite (off_last P c Hc) by lia. pose proof (chunk_len_pos c (wf_parts_chunk P _ c Hwf Hc)). lia.
  Qed.

  (* next from a valid position *)
  Lemma next_ok st g : At P st g ->
    exists st', ti_next t st = Some st' /\
      ((S g < length (concat P))%nat -> At P st' (S g)) /\
      ((S g = length (concat P))%nat -> EndF P st').
  Proof.
    intros (b & c & i & Hb & Hg & Hbp & Herr & Hat).
    pose proof (wf_parts_chunk P b c Hwf Hb) as Hwc.
    assert (Hbl: (b < length P)%nat) by (apply nth_error_Some; congruence).
    unfold ti_next, ti_next_f, t. rewrite nb_tbl, Hbp.
    assert (E1: (Z.of_nat (length P) <=? Z.of_nat b)%Z = false) by lia. rewrite E1.
    destruct Hat as (Hbv & Hidx & Heof & Hk & Hv & Hi).
    rewrite (BV_data_nonempty c _ Hwc Hbv).
    unfold bi_next. rewrite Hidx.
    destruct (move_AtB c i (ti_bi st) (Z.of_nat i + 1) Hwc (conj Hbv (conj Hidx (conj Heof (conj Hk (conj Hv Hi))))))
      as (bi' & H1 & H2 & H3 & H4 & H5).
    rewrite H1.
    destruct (Nat.eq_dec (S i) (length c)) as [Hlast|Hmid].
    - (* last entry of the block *)
      rewrite (H5 ltac:(lia)). cbn [ti_bpos bi_clear_data ti_bi bi_data length Nat.eqb].
      pose proof (off_S P b c Hb) as HoS.
      destruct (Nat.eq_dec (S b) (length P)) as [Hlb|Hmb].
      + assert (E2: (Z.of_nat (length P) <=? Z.of_nat b + 1)%Z = true) by lia. rewrite E2.
        eexists. split; [reflexivity|]. split.
        * intros Hlt. exfalso. rewrite <- off_all, <- Hlb, HoS in Hlt. lia.
        * intros _. split; cbn; [reflexivity|lia].
      + assert (E2: (Z.of_nat (length P) <=? Z.of_nat b + 1)%Z = false) by lia. rewrite E2.
        destruct (nth_error_ex (S b) ltac:(lia)) as (c' & Hc').
        replace (Z.of_nat b + 1)%Z with (Z.of_nat (S b)) by lia.
        destruct (load_first (mkTI (Z.of_nat (S b))
                    (mkBI [] (bi_offs bi') (bi_idx bi') (bi_eof bi') (bi_base bi') (bi_key bi') (bi_val bi') (bi_prev bi')) ENone)
                    (S b) c' Hc') as (st' & Hl & Hat').
        exists st'. split; [exact Hl|]. split.
        * intros _. replace (S g) with (off P (S b)) by lia. exact Hat'.
        * intros Heq. exfalso. pose proof (off_lt P (S b) c' 0 Hc' (chunk_len_pos c' (wf_parts_chunk P _ c' Hwf Hc'))). lia.
    - assert (Hin: (0 <= Z.of_nat i + 1 < Z.of_nat (length c))%Z) by lia.
      destruct (H4 Hin) as (_ & _ & A3 & _). rewrite A3.
      eexists. split; [reflexivity|]. split.
      + intros _. replace (S g) with (off P b + S i)%nat by lia.
        apply (At_intro P _ b c (S i) Hb); cbn [ti_bpos ti_err ti_bi]; auto.
        replace (S i) with (Z.to_nat (Z.of_nat i + 1)) by lia. exact (H4 Hin).
      + intros Heq. exfalso. pose proof (off_lt P b c (S i) Hb ltac:(lia)). lia.
  Qed.

  Lemma next_EndF st : EndF P st -> exists st', ti_next t st = Some st' /\ EndF P st'.
  Proof.
    intros (He & Hb). unfold ti_next, ti_next_f, t. rewrite nb_tbl.
    assert (E: (Z.of_nat (length P) <=? ti_bpos st)%Z = true) by lia. rewrite E.
    eexists. split; [reflexivity|]. split; cbn; auto.
  Qed.

  Lemma next_EndS st : EndS P st -> exists st', ti_next t st = Some st' /\ EndF P st'.
  Proof.
    intros (c & Hc & He & Hb & Hbv & Hidx). pose proof P_len_pos.
    pose proof (wf_parts_chunk P _ c Hwf Hc) as Hwc.
    unfold ti_next, ti_next_f, t. rewrite nb_tbl, Hb.
    assert (E1: (Z.of_nat (length P) <=? Z.of_nat (length P - 1))%Z = false) by lia. rewrite E1.
    rewrite (BV_data_nonempty c _ Hwc Hbv). unfold bi_next. rewrite Hidx.
    destruct (set_idx_any c (ti_bi st) (Z.of_nat (length c) + 1) Hwc Hbv) as (bi' & H1 & H2 & H3 & H4 & H5).
    rewrite H1. destruct (H5 ltac:(lia)) as [-> _].
    cbn [ti_bpos bi_clear_data ti_bi bi_data length Nat.eqb].
    assert (E2: (Z.of_nat (length P) <=? Z.of_nat (length P - 1) + 1)%Z = true) by lia. rewrite E2.
    eexists. split; [reflexivity|]. split; cbn; [reflexivity|lia].
  Qed.

  (* prev from a valid position *)
  Lemma prev_ok st g : At P st g ->
    exists st', ti_prev t st = Some st' /\
      ((0 < g)%nat -> At P st' (g - 1)) /\ ((g = 0)%nat -> BeginR st').
  Proof.
    intros (b & c & i & Hb & Hg & Hbp & Herr & Hat).
    pose proof (wf_parts_chunk P b c Hwf Hb) as Hwc.
    assert (Hbl: (b < length P)%nat) by (apply nth_error_Some; congruence).
    unfold ti_prev, ti_prev_f, t. rewrite Hbp.
    assert (E1: (Z.of_nat b <? 0)%Z = false) by lia. rewrite E1.
    destruct Hat as (Hbv & Hidx & Heof & Hk & Hv & Hi).
    rewrite (BV_data_nonempty c _ Hwc Hbv).
    unfold bi_prev_. rewrite Hidx.
    destruct (move_AtB c i (ti_bi st) (Z.of_nat i - 1) Hwc (conj Hbv (conj Hidx (conj Heof (conj Hk (conj Hv Hi))))))
      as (bi' & H1 & H2 & H3 & H4 & H5).
    rewrite H1.
    destruct i as [|i].
    - (* first entry of the block *)
      rewrite (H5 ltac:(lia)). cbn [ti_bpos bi_clear_data ti_bi bi_data length Nat.eqb].
      destruct b as [|b].
      + assert (E2: (Z.of_nat 0 - 1 <? 0)%Z = true) by lia. rewrite E2.
        eexists. split; [reflexivity|]. split.
        * intros Hlt. exfalso. unfold off in Hg. cbn in Hg. lia.
        * intros _. split; cbn; [reflexivity|lia].
      + assert (E2: (Z.of_nat (S b) - 1 <? 0)%Z = false) by lia. rewrite E2.
        destruct (nth_error_ex b ltac:(lia)) as (c' & Hc').
        replace (Z.of_nat (S b) - 1)%Z with (Z.of_nat b) by lia.
        destruct (load_last (mkTI (Z.of_nat b)
                    (mkBI [] (bi_offs bi') (bi_idx bi') (bi_eof bi') (bi_base bi') (bi_key bi') (bi_val bi') (bi_prev bi')) ENone)
                    b c' Hc') as (st' & Hl & Hat').
        exists st'. split; [exact Hl|]. split.
        * intros _. pose proof (off_S P b c' Hc') as HoS.
          pose proof (chunk_len_pos c' (wf_parts_chunk P _ c' Hwf Hc')).
          replace (g - 1)%nat with (off P b + (length c' - 1))%nat by lia. exact Hat'.
        * intros Heq. exfalso. pose proof (off_S P b c' Hc') as HoS.
          pose proof (chunk_len_pos c' (wf_parts_chunk P _ c' Hwf Hc')). lia.
    - assert (Hin: (0 <= Z.of_nat (S i) - 1 < Z.of_nat (length c))%Z) by lia.
      destruct (H4 Hin) as (_ & _ & A3 & _). rewrite A3.
      eexists. split; [reflexivity|]. split.
      + intros _. replace (g - 1)%nat with (off P b + i)%nat by lia.
        apply (At_intro P _ b c i Hb); cbn [ti_bpos ti_err ti_bi]; auto.
        replace i with (Z.to_nat (Z.of_nat (S i) - 1)) at 1 by lia. exact (H4 Hin).
      + intros Heq. exfalso. lia.
  Qed.

  Lemma prev_BeginR st : BeginR st -> exists st', ti_prev t st = Some st' /\ BeginR st'.
  Proof.
    intros (He & Hb). unfold ti_prev, ti_prev_f.
    assert (E: (ti_bpos st <? 0)%Z = true) by lia. rewrite E.
    eexists. split; [reflexivity|]. split; cbn; auto.
  Qed.

  Lemma prev_EndS st : EndS P st -> exists st', ti_prev t st = Some st' /\ At P st' (length (concat P) - 1).
  Proof.
    intros (c & Hc & He & Hb & Hbv & Hidx). pose proof P_len_pos.
    pose proof (wf_parts_chunk P _ c Hwf Hc) as Hwc. pose proof (chunk_len_pos c Hwc).
    unfold ti_prev, ti_prev_f, t. rewrite Hb.
    assert (E1: (Z.of_nat (length P - 1) <? 0)%Z = false) by lia. rewrite E1.
    rewrite (BV_data_nonempty c _ Hwc Hbv). unfold bi_prev_. rewrite Hidx.
    assert (Hi: (length c - 1 < length c)%nat) by lia.
    pose proof (set_idx_ok c (ti_bi st) _ Hwc Hbv Hi) as Hs.
    replace (Z.of_nat (length c) - 1)%Z with (Z.of_nat (length c - 1)) by lia.
    rewrite Hs. cbn [bi_eof].
    eexists. split; [reflexivity|].
    replace (length (concat P) - 1)%nat with (off P (length P - 1) + (length c - 1))%nat.
    - apply (At_intro P _ _ c _ Hc); cbn [ti_bpos ti_err ti_bi]; auto.
      split; [exact (BV_after_set c _ _ Hwc Hbv Hi)|]. cbn. auto.
    - rewrite (off_last P c Hc) by lia. lia.
  Qed.
End Steps.

(* ================= sortedness across blocks, find_idx over concatenations ================= *)
Lemma sorted_app l1 l2 : sorted_kv (l1 ++ l2) ->
  sorted_kv l1 /\ sorted_kv l2 /\ (forall x y, In x l1 -> In y l2 -> klt (fst x) (fst y)).
Proof.
  unfold sorted_kv. induction l1 as [|e l1 IH]; cbn [app map]; intros H.
  - repeat split; [constructor|assumption|intros x y []].
  - apply StronglySorted_inv in H as [H Hall]. destruct (IH H) as (H1 & H2 & H3).
    rewrite map_app, Forall_app in Hall. destruct Hall as [Ha1 Ha2]. repeat split.
    + constructor; assumption.
    + assumption.
    + intros x y [<-|Hx] Hy.
      * rewrite Forall_forall in Ha2. apply Ha2. now apply in_map.
      * now apply H3.
Qed.

Lemma find_idx_app_skip {A} (p : A -> bool) l1 l2 : (forall x, In x l1 -> p x = false) ->
  find_idx p (l1 ++ l2) = (length l1 + find_idx p l2)%nat.
Proof.
  induction l1 as [|x l1 IH]; intros H; cbn [app find_idx length]; [reflexivity|].
  rewrite (H x (or_introl eq_refl)). rewrite IH; [reflexivity|]. intros y Hy. apply H. now right.
Qed.

Lemma find_idx_app_in {A} (p : A -> bool) l1 l2 : (find_idx p l1 < length l1)%nat ->
  find_idx p (l1 ++ l2) = find_idx p l1.
Proof.
  induction l1 as [|x l1 IH]; cbn [app find_idx length]; intros H; [lia|].
  destruct (p x); [reflexivity|]. rewrite IH; [reflexivity|lia].
Qed.

Lemma find_idx_full {A} (p : A -> bool) l : find_idx p l = length l -> forall x, In x l -> p x = false.
Proof.
  induction l as [|y l IH]; cbn [find_idx length]; intros H x Hx; [destruct Hx|].
  destruct (p y) eqn:E; [discriminate|]. destruct Hx as [<-|Hx]; [exact E|]. apply IH; [lia|exact Hx].
Qed.

Lemma find_idx_head {A} (p : A -> bool) x l : p x = true -> find_idx p (x :: l) = 0%nat.
Proof. intros H. cbn. now rewrite H. Qed.

Lemma concat_split_at {A} (P : list (list A)) b c : nth_error P b = Some c ->
  concat P = concat (firstn b P) ++ c ++ concat (skipn (S b) P).
Proof.
  intros H. rewrite (concat_split_nth P b c) by (apply nth_error_Some; congruence).
  now rewrite (nth_error_nth _ _ _ H).
Qed.

Lemma nth_error_firstn_lt {A} (l : list A) : forall a b, (a < b)%nat -> nth_error (firstn b l) a = nth_error l a.
Proof.
  induction l as [|x l IH]; intros a b Hab.
  - rewrite firstn_nil. reflexivity.
  - destruct b as [|b]; [lia|]. destruct a as [|a]; cbn; [reflexivity|]. apply IH. lia.
Qed.

Lemma in_concat_firstn {A} (P : list (list A)) a b ca x : nth_error P a = Some ca -> (a < b)%nat ->
  In x ca -> In x (concat (firstn b P)).
Proof.
  intros Ha Hab Hx. apply in_concat. exists ca. split; [|exact Hx].
  apply nth_error_In with (n := a). rewrite nth_error_firstn_lt by exact Hab. exact Ha.
Qed.

Definition bgt (k : bytes) (c : list kv) : bool := gt_key k (nth 0 c dkv).

Lemma ck_total a b : (8 <= length a)%nat -> (8 <= length b)%nat -> exists c, compare_keys a b = Some c.
Proof. intros Ha Hb. rewrite ck_some by assumption. eauto. Qed.

Lemma ge_false_lt k (e : kv) : (8 <= length k)%nat -> (8 <= length (fst e))%nat -> ge_key k e = false -> klt (fst e) k.
Proof.
  intros Hk He H. unfold ge_key in H. destruct (ck_total (fst e) k He Hk) as (c & Hc).
  rewrite Hc in H. destruct c; try discriminate. exact Hc.
Qed.

Lemma lt_ge_false k (e : kv) : klt (fst e) k -> ge_key k e = false.
Proof. unfold klt, ge_key. now intros ->. Qed.

Lemma lt_gt_false k (e : kv) : klt (fst e) k -> gt_key k e = false.
Proof. unfold klt, gt_key. now intros ->. Qed.

Section Seek.
  Variable P : list (list kv).
  Hypothesis Hwf : wf_parts P.
  Let t := tbl_of P.
  Let es := concat P.

  Lemma block_sorted b c : nth_error P b = Some c -> sorted_kv c.
  Proof.
    intros Hb. pose proof (wp_sorted P Hwf) as Hs. rewrite (concat_split_at P b c Hb) in Hs.
    apply sorted_app in Hs as (_ & Hs & _). apply sorted_app in Hs as (Hs & _). exact Hs.
  Qed.

  Lemma before_block_lt b c x y : nth_error P b = Some c -> In x (concat (firstn b P)) -> In y c ->
    klt (fst x) (fst y).
  Proof.
    intros Hb Hx Hy. pose proof (wp_sorted P Hwf) as Hs. rewrite (concat_split_at P b c Hb) in Hs.
    apply sorted_app in Hs as (_ & _ & H). apply H; [exact Hx|]. apply in_or_app. now left.
  Qed.

  Lemma key_len8 x : In x es -> (8 <= length (fst x))%nat.
  Proof.
    intros Hx. unfold es in Hx. apply in_concat in Hx as (c & Hc & Hx).
    pose proof (wp_chunks P Hwf) as H. rewrite Forall_forall in H. destruct (H c Hc) as [_ Hk].
    rewrite Forall_forall in Hk. apply (Hk x Hx).
  Qed.

  Lemma in_block_es b c x : nth_error P b = Some c -> In x c -> In x es.
  Proof. intros Hb Hx. unfold es. apply in_concat. exists c. split; [eapply nth_error_In; eassumption|exact Hx]. Qed.

  Lemma nth0_in c : wf_chunk c -> In (nth 0 c dkv) c.
  Proof. intros H. apply nth_In. now apply chunk_len_pos. Qed.

  (* the binary search over block base keys *)
  Lemma base_search k : (8 <= length k)%nat ->
    exists idx, bsearch (base_probe t k) (length t) 0 (nb t) tt = Some (Z.of_nat idx, tt) /\
      (idx <= length P)%nat /\
      (forall a c, (a < idx)%nat -> nth_error P a = Some c -> bgt k c = false) /\
      (forall a c, (idx <= a)%nat -> nth_error P a = Some c -> bgt k c = true).
  Proof.
    intros Hk.
    set (p := fun h : Z => bgt k (nth (Z.to_nat h) P [])).
    assert (Hprobe: forall (s : unit) h, True -> (0 <= h < Z.of_nat (length P))%Z ->
              exists s', base_probe t k s h = Some (p h, s') /\ True).
    { intros s h _ Hh. unfold base_probe, t, tbl_of. rewrite nth_error_map.
      destruct (nth_error_ex P (Z.to_nat h) ltac:(lia)) as (c & Hc). rewrite Hc. cbn [option_map tb_base].
      pose proof (wf_parts_chunk P _ c Hwf Hc) as Hwc.
      destruct (wf_chunk_key c 0 Hwc (chunk_len_pos c Hwc)) as [Hk8 _].
      destruct (ck_total (ckey c 0) k Hk8 Hk) as (x & Hx). rewrite Hx.
      exists tt. split; [|exact I]. unfold p, bgt, gt_key. rewrite (nth_error_nth _ _ _ Hc).
      fold (ckey c 0). rewrite Hx. destruct x; reflexivity. }
    assert (Hmono: forall a b, (0 <= a <= b)%Z -> (b < Z.of_nat (length P))%Z -> p a = true -> p b = true).
    { intros a b Hab Hb Ha. destruct (Z.eq_dec a b) as [->|Hne]; [exact Ha|].
      destruct (nth_error_ex P (Z.to_nat a) ltac:(lia)) as (ca & Hca).
      destruct (nth_error_ex P (Z.to_nat b) ltac:(lia)) as (cb & Hcb).
      unfold p in *. rewrite (nth_error_nth _ _ _ Hca) in Ha. rewrite (nth_error_nth _ _ _ Hcb).
      pose proof (wf_parts_chunk P _ ca Hwf Hca) as Hwa. pose proof (wf_parts_chunk P _ cb Hwf Hcb) as Hwb.
      assert (Hlt: klt (fst (nth 0 ca dkv)) (fst (nth 0 cb dkv))).
      { apply (before_block_lt (Z.to_nat b) cb); [exact Hcb| |apply nth0_in; exact Hwb].
        apply (in_concat_firstn P (Z.to_nat a) (Z.to_nat b) ca); [exact Hca|lia|apply nth0_in; exact Hwa]. }
      unfold bgt, gt_key in *.
      destruct (wf_chunk_key cb 0 Hwb (chunk_len_pos cb Hwb)) as [Hk8 _]. unfold ckey in Hk8.
      destruct (ck_total _ k Hk8 Hk) as (x & Hx). rewrite Hx.
      destruct x; [| |reflexivity].
      - apply ck_eq in Hx. rewrite Hx in Hlt. unfold klt in Hlt. rewrite Hlt in Ha. discriminate.
      - assert (H: klt (fst (nth 0 ca dkv)) k) by (eapply klt_trans; eassumption).
        unfold klt in H. rewrite H in Ha. discriminate. }
    destruct (bsearch_spec (base_probe t k) (fun _ => True) p 0 (Z.of_nat (length P)) Hprobe Hmono
                (length P) 0%Z (Z.of_nat (length P)) tt I ltac:(lia) ltac:(lia) ltac:(lia)
                ltac:(intros; lia) ltac:(intros; lia)) as (r & s' & H1 & _ & H3 & H4 & H5).
    exists (Z.to_nat r). unfold t at 2 3. rewrite nb_tbl. unfold tbl_of. rewrite map_length. fold (tbl_of P). fold t.
    destruct s'. rewrite Z2Nat.id by lia. split; [exact H1|]. split; [lia|]. split.
    - intros a c Ha Hc. specialize (H4 (Z.of_nat a) ltac:(lia)). unfold p in H4.
      rewrite Nat2Z.id, (nth_error_nth _ _ _ Hc) in H4. exact H4.
    - intros a c Ha Hc. assert (a < length P)%nat by (apply nth_error_Some; congruence).
      specialize (H5 (Z.of_nat a) ltac:(lia)). unfold p in H5.
      rewrite Nat2Z.id, (nth_error_nth _ _ _ Hc) in H5. exact H5.
  Qed.

  (* seekHelper on block b *)
  Lemma seek_helper_ok st b c k : nth_error P b = Some c -> (8 <= length k)%nat ->
    let r1 := find_idx (ge_key k) c in
    exists st', ti_seek_helper t st (Z.of_nat b) k = Some st' /\ ti_bpos st' = Z.of_nat b /\
      ((r1 < length c)%nat -> ti_err st' = ENone /\ AtB c r1 (ti_bi st')) /\
      ((r1 = length c)%nat -> ti_err st' = EEOF /\ BV c (ti_bi st') /\ bi_idx (ti_bi st') = Z.of_nat (length c)).
  Proof.
    intros Hb Hk r1. unfold ti_seek_helper, load_block, t. rewrite (t_block_ok P b c Hb).
    pose proof (wf_parts_chunk P b c Hwf Hb) as Hwc.
    destruct (bi_seek_ok c k (set_block (chunk_blk c)) Hwc (block_sorted b c Hb) Hk (BV_set_block c))
      as (bi & H1 & H2 & H3 & H4 & H5).
    rewrite H1. eexists. split; [reflexivity|]. cbn [ti_bpos ti_err ti_bi]. split; [reflexivity|]. split.
    - intros Hlt. destruct (H4 Hlt) as (A & B & C). unfold bi_err. rewrite A. split; [reflexivity|].
      split; [exact H2|]. split; [exact H3|]. auto.
    - intros Heq. unfold bi_err. rewrite (H5 Heq). split; [reflexivity|]. split; [exact H2|].
      fold r1 in H3. rewrite H3, Heq. reflexivity.
  Qed.

  Theorem seek_from_ok st k : (8 <= length k)%nat ->
    let r := find_idx (ge_key k) es in
    exists st', ti_seek_from t st k = Some st' /\
      ((r < length es)%nat -> At P st' r) /\ ((r = length es)%nat -> EndS P st').
  Proof.
    intros Hk r. unfold ti_seek_from.
    destruct (base_search k Hk) as (idx & Hbs & Hidx & Hlow & Hhigh). rewrite Hbs.
    pose proof (P_len_pos P Hwf) as Hp.
    destruct idx as [|b].
    - (* every block base is > key *)
      cbn [Z.of_nat Z.eqb].
      destruct (nth_error_ex P 0 Hp) as (c & Hc).
      pose proof (wf_parts_chunk P _ c Hwf Hc) as Hwc.
      destruct (seek_helper_ok (mkTI 0 (ti_bi st) ENone) 0 c k Hc Hk) as (st' & H1 & H2 & H3 & H4).
      cbn [Z.of_nat] in H1. rewrite H1.
      assert (Hg: ge_key k (nth 0 c dkv) = true).
      { pose proof (Hhigh 0%nat c ltac:(lia) Hc) as Hb. unfold bgt, gt_key in Hb. unfold ge_key.
        destruct (compare_keys (fst (nth 0 c dkv)) k) as [[]|]; try discriminate; reflexivity. }
      assert (Hr1: find_idx (ge_key k) c = 0%nat).
      { destruct c as [|e0 c']; [destruct Hwc; congruence|]. cbn [nth] in Hg. now apply find_idx_head. }
      assert (Hr: r = 0%nat).
      { unfold r, es. rewrite (concat_split_at P 0 c Hc). cbn [firstn concat app].
        rewrite find_idx_app_in; [exact Hr1|]. rewrite Hr1. now apply chunk_len_pos. }
      exists st'. split; [reflexivity|]. rewrite Hr. split.
      + intros _. destruct (H3 ltac:(rewrite Hr1; now apply chunk_len_pos)) as (A & B).
        rewrite Hr1 in B. change 0%nat with (off P 0 + 0)%nat. apply (At_intro P st' 0 c 0 Hc); auto.
      + intros Heq. exfalso. unfold es in Heq. rewrite (concat_split_at P 0 c Hc) in Heq.
        rewrite !app_length in Heq. pose proof (chunk_len_pos c Hwc). cbn in Heq. lia.
    - (* block b: base <= key; block b+1 (if any): base > key *)
      assert (E0: (Z.of_nat (S b) =? 0)%Z = false) by lia. rewrite E0.
      replace (Z.of_nat (S b) - 1)%Z with (Z.of_nat b) by lia.
      destruct (nth_error_ex P b ltac:(lia)) as (c & Hc).
      pose proof (wf_parts_chunk P _ c Hwf Hc) as Hwc.
      destruct (seek_helper_ok (mkTI 0 (ti_bi st) ENone) b c k Hc Hk) as (st1 & H1 & H2 & H3 & H4).
      rewrite H1.
      (* everything before block b is < key *)
      assert (Hbefore: forall x, In x (concat (firstn b P)) -> ge_key k x = false).
      { intros x Hx. apply lt_ge_false.
        pose proof (before_block_lt b c x (nth 0 c dkv) Hc Hx (nth0_in c Hwc)) as Hlt.
        pose proof (Hlow b c ltac:(lia) Hc) as Hb. unfold bgt, gt_key in Hb.
        destruct (wf_chunk_key c 0 Hwc (chunk_len_pos c Hwc)) as [Hk8 _]. unfold ckey in Hk8.
        destruct (ck_total _ k Hk8 Hk) as (y & Hy). rewrite Hy in Hb.
        destruct y; [| |discriminate].
        - apply ck_eq in Hy. now rewrite <- Hy.
        - eapply klt_trans; eassumption. }
      assert (Hr: r = (off P b + find_idx (ge_key k) (c ++ concat (skipn (S b) P)))%nat).
      { unfold r, es. rewrite (concat_split_at P b c Hc). now rewrite find_idx_app_skip. }
      set (r1 := find_idx (ge_key k) c) in *.
      pose proof (find_idx_le (ge_key k) c) as Hr1le. fold r1 in Hr1le.
      destruct (Nat.eq_dec r1 (length c)) as [Heof|Hin].
      + (* block b exhausted *)
        destruct (H4 Heof) as (A & B & C). rewrite A.
        assert (Hskip: forall x, In x c -> ge_key k x = false) by (apply find_idx_full; exact Heof).
        destruct (Nat.eq_dec (S b) (length P)) as [Hlastb|Hmoreb].
        * assert (E1: (Z.of_nat (S b) =? nb t)%Z = true) by (unfold t; rewrite nb_tbl; lia). rewrite E1.
          exists st1. split; [reflexivity|].
          assert (Hrn: r = length es).
          { rewrite Hr. rewrite find_idx_app_skip by exact Hskip.
            rewrite skipn_all2 by lia. cbn [concat find_idx]. unfold es.
            assert (Hc2: nth_error P (length P - 1) = Some c) by (replace (length P - 1)%nat with b by lia; exact Hc).
            rewrite (off_last P c Hc2 Hp).
            replace (length P - 1)%nat with b by lia. lia. }
          split; [intros Hlt; lia|]. intros _.
          exists c. replace (length P - 1)%nat with b by lia.
          split; [exact Hc|]. split; [exact A|]. split; [exact H2|]. split; [exact B|exact C].
        * assert (E1: (Z.of_nat (S b) =? nb t)%Z = false) by (unfold t; rewrite nb_tbl; lia). rewrite E1.
          destruct (nth_error_ex P (S b) ltac:(lia)) as (c' & Hc').
          pose proof (wf_parts_chunk P _ c' Hwf Hc') as Hwc'.
          destruct (seek_helper_ok st1 (S b) c' k Hc' Hk) as (st2 & G1 & G2 & G3 & G4).
          rewrite G1.
          assert (Hg: ge_key k (nth 0 c' dkv) = true).
          { pose proof (Hhigh (S b) c' ltac:(lia) Hc') as Hb. unfold bgt, gt_key in Hb. unfold ge_key.
            destruct (compare_keys (fst (nth 0 c' dkv)) k) as [[]|]; try discriminate; reflexivity. }
          assert (Hr1': find_idx (ge_key k) c' = 0%nat).
          { destruct c' as [|e0 c'']; [destruct Hwc'; congruence|]. cbn [nth] in Hg. now apply find_idx_head. }
          assert (Hrn: r = off P (S b)).
          { rewrite Hr. rewrite find_idx_app_skip by exact Hskip.
            rewrite (off_S P b c Hc).
            assert (Hsk: skipn (S b) P = c' :: skipn (S (S b)) P).
            { rewrite (skipn_cons_nth P (S b) c') by lia. now rewrite (nth_error_nth _ _ _ Hc'). }
            rewrite Hsk. cbn [concat]. rewrite find_idx_app_in by (rewrite Hr1'; now apply chunk_len_pos).
            rewrite Hr1'. lia. }
          exists st2. split; [reflexivity|]. rewrite Hrn. split.
          -- intros _. destruct (G3 ltac:(rewrite Hr1'; now apply chunk_len_pos)) as (A' & B').
             rewrite Hr1' in B'. rewrite <- (Nat.add_0_r (off P (S b))).
             apply (At_intro P st2 (S b) c' 0 Hc'); auto.
          -- intros Heq. exfalso. pose proof (off_lt P (S b) c' 0 Hc' (chunk_len_pos c' Hwc')).
             unfold es in Heq. lia.
      + (* found inside block b *)
        destruct (H3 ltac:(lia)) as (A & B). rewrite A.
        exists st1. split; [reflexivity|].
        assert (Hrn: r = (off P b + r1)%nat).
        { rewrite Hr. f_equal. apply find_idx_app_in. fold r1. lia. }
        rewrite Hrn. split.
        * intros _. apply (At_intro P st1 b c r1 Hc); auto.
        * intros Heq. exfalso. pose proof (off_lt P b c r1 Hc ltac:(lia)). unfold es in Heq. lia.
  Qed.
End Seek.

(* ================= seekForPrev ================= *)
Section SeekPrev.
  Variable P : list (list kv).
  Hypothesis Hwf : wf_parts P.
  Let t := tbl_of P.
  Let es := concat P.

  Lemma At_entry st g : At P st g ->
    (g < length es)%nat /\ bi_key (ti_bi st) = fst (nth g es dkv) /\
    bi_val (ti_bi st) = vs_encode (snd (nth g es dkv)) /\ ti_err st = ENone.
  Proof.
    intros (b & c & i & Hb & Hg & Hbp & Herr & (Hbv & Hidx & Heof & Hk & Hv & Hi)).
    subst g. split; [exact (off_lt P b c i Hb Hi)|].
    unfold es, off. rewrite (nth_concat_off P b c i dkv Hb Hi). rewrite Hk, Hv. auto.
  Qed.

  Lemma es_key8 g : (g < length es)%nat -> (8 <= length (fst (nth g es dkv)))%nat.
  Proof. intros Hg. apply (key_len8 P Hwf). apply nth_In. exact Hg. Qed.

  Lemma es_sorted : sorted_kv es.
  Proof. exact (wp_sorted P Hwf). Qed.

  Lemma es_lt i j : (i < j)%nat -> (j < length es)%nat -> klt (fst (nth i es dkv)) (fst (nth j es dkv)).
  Proof. intros. now apply (sorted_nth es i j es_sorted). Qed.

  Lemma before_r_lt k a : (8 <= length k)%nat -> (a < find_idx (ge_key k) es)%nat -> klt (fst (nth a es dkv)) k.
  Proof.
    intros Hk Ha. pose proof (find_idx_le (ge_key k) es).
    apply ge_false_lt; [exact Hk|apply es_key8; lia|]. now apply find_idx_before.
  Qed.

  Theorem seek_for_prev_ok st k : (8 <= length k)%nat ->
    let r' := find_idx (gt_key k) es in
    exists st', ti_seek_for_prev t st k = Some st' /\
      ((0 < r')%nat -> At P st' (r' - 1)) /\ ((r' = 0)%nat -> BeginR st').
  Proof.
    intros Hk r'. unfold ti_seek_for_prev.
    destruct (seek_from_ok P Hwf st k Hk) as (st1 & H1 & Hin & Hout). fold t in H1. rewrite H1.
    set (r := find_idx (ge_key k) (concat P)) in *. fold es in r, Hin, Hout.
    pose proof (find_idx_le (ge_key k) es) as Hrle. fold r in Hrle.
    destruct (Nat.eq_dec r (length es)) as [Hend|Hmid].
    - (* key beyond the last entry *)
      destruct (Hout Hend) as (c & Hc & He & Hb & Hbv & Hidx).
      assert (Hne: bytes_eqb (bi_key (ti_bi st1)) k = false).
      { destruct (bytes_eqb (bi_key (ti_bi st1)) k) eqn:E; [|reflexivity]. apply bytes_eqb_eq in E.
        destruct Hbv as (_ & _ & _ & [Hnil|(j & Hj & Hkj)]).
        - rewrite Hnil in E. subst k. cbn in Hk. lia.
        - exfalso. assert (Hin': In (nth j c dkv) es) by (apply (in_block_es P _ c _ Hc); now apply nth_In).
          pose proof (find_idx_full (ge_key k) es Hend _ Hin') as Hf.
          apply ge_false_lt in Hf; [|exact Hk|apply (key_len8 P Hwf); exact Hin'].
          unfold ckey in Hkj. rewrite <- Hkj, E in Hf. exact (klt_irrefl _ Hf). }
      rewrite Hne.
      destruct (prev_EndS P Hwf st1 (ex_intro _ c (conj Hc (conj He (conj Hb (conj Hbv Hidx))))))
        as (st2 & H2 & Hat).
      fold t in H2. exists st2. split; [exact H2|].
      assert (Hr': r' = length es).
      { apply (find_idx_char _ dkv); [lia| |lia].
        intros a Ha. apply lt_gt_false. apply before_r_lt; [exact Hk|]. fold r. lia. }
      rewrite Hr'. split; [intros _; exact Hat|]. intros H0. exfalso.
      pose proof (P_len_pos P Hwf). destruct (nth_error_ex P 0 ltac:(lia)) as (c0 & Hc0).
      pose proof (off_lt P 0 c0 0 Hc0 (chunk_len_pos c0 (wf_parts_chunk P 0 c0 Hwf Hc0))). fold es in H3. lia.
    - assert (Hlt: (r < length es)%nat) by lia.
      pose proof (Hin Hlt) as Hat. destruct (At_entry st1 r Hat) as (_ & Hkey & _ & _).
      pose proof (find_idx_at (ge_key k) dkv es Hlt) as Hge. fold r in Hge.
      pose proof (es_key8 r Hlt) as Hk8.
      destruct (bytes_eqb (bi_key (ti_bi st1)) k) eqn:E.
      + (* exact match *)
        apply bytes_eqb_eq in E. rewrite Hkey in E.
        exists st1. split; [reflexivity|].
        assert (Hr': r' = S r).
        { apply (find_idx_char _ dkv); [lia| |].
          - intros a Ha. destruct (Nat.eq_dec a r) as [->|Hne].
            + unfold gt_key. rewrite E, ck_refl by exact Hk. reflexivity.
            + apply lt_gt_false. apply before_r_lt; [exact Hk|]. fold r. lia.
          - intros Hs. pose proof (es_lt r (S r) ltac:(lia) Hs) as Hl. rewrite E in Hl.
            apply ck_antisym in Hl. cbn in Hl. unfold gt_key. now rewrite Hl. }
        rewrite Hr'. split; [intros _; replace (S r - 1)%nat with r by lia; exact Hat|lia].
      + (* strictly greater: step back *)
        assert (Hgt: gt_key k (nth r es dkv) = true).
        { unfold ge_key in Hge. unfold gt_key.
          destruct (ck_total _ k Hk8 Hk) as (x & Hx). rewrite Hx in *.
          destruct x; [|discriminate|reflexivity].
          apply ck_eq in Hx. rewrite Hkey, Hx, bytes_eqb_refl in E. discriminate. }
        assert (Hr': r' = r).
        { apply (find_idx_char _ dkv); [lia| |intros _; exact Hgt].
          intros a Ha. apply lt_gt_false. apply before_r_lt; [exact Hk|]. fold r. lia. }
        destruct (prev_ok P Hwf st1 r Hat) as (st2 & H2 & Hp1 & Hp2). fold t in H2.
        exists st2. split; [exact H2|]. rewrite Hr'. split; assumption.
  Qed.
End SeekPrev.

(* ================= the y.Iterator interface refines the list cursor (C18_iter) ================= *)
Inductive iop := IRewind | ISeek (k : bytes) | INext.

Definition it_step (rev : bool) (t : table) (st : titer) (o : iop) : option titer :=
  match o with
  | IRewind => ti_Rewind rev t st
  | ISeek k => ti_Seek rev t st k
  | INext => ti_Next rev t st
  end.

(* what a caller sees: nothing when !Valid(), else Key() and the decoded Value() *)
Definition it_obs (st : titer) : option (bytes * value_struct) :=
  if ti_valid st then match ti_value st with Some v => Some (ti_key st, v) | None => None end else None.

(* None = the implementation panicked *)
Fixpoint it_run (rev : bool) (t : table) (st : titer) (ops : list iop)
  : option (list (option (bytes * value_struct))) :=
  match ops with
  | [] => Some []
  | o :: r => match it_step rev t st o with
              | None => None
              | Some st' => option_map (cons (it_obs st')) (it_run rev t st' r)
              end
  end.

(* the list cursor: Some g = at entry g, None = exhausted (stays exhausted until repositioned) *)
Definition cur_step (rev : bool) (es : list kv) (cur : option nat) (o : iop) : option nat :=
  let n := length es in
  match o with
  | IRewind => if (n =? 0)%nat then None else Some (if rev then n - 1 else 0)%nat
  | ISeek k =>
      if rev then match find_idx (gt_key k) es with O => None | S r => Some r end   (* last entry <= k *)
      else let r := find_idx (ge_key k) es in if (r <? n)%nat then Some r else None (* first entry >= k *)
  | INext =>
      match cur with
      | None => None
      | Some g => if rev then match g with O => None | S g' => Some g' end
                  else if (S g <? n)%nat then Some (S g) else None
      end
  end.

Definition cur_obs (es : list kv) (cur : option nat) : option (bytes * value_struct) :=
  match cur with None => None | Some g => nth_error es g end.

Fixpoint cur_run (rev : bool) (es : list kv) (cur : option nat) (ops : list iop)
  : list (option (bytes * value_struct)) :=
  match ops with
  | [] => []
  | o :: r => let c' := cur_step rev es cur o in cur_obs es c' :: cur_run rev es c' r
  end.

Definition op_ok (o : iop) : Prop := match o with ISeek k => (8 <= length k)%nat | _ => True end.

Section Refine.
  Variable P : list (list kv).
  Hypothesis Hwf : wf_parts P.
  Let t := tbl_of P.
  Let es := concat P.

  Definition Rel (rev : bool) (st : titer) (cur : option nat) : Prop :=
    match cur with
    | Some g => At P st g
    | None => if rev then BeginR st else EndF P st \/ EndS P st
    end.

  Lemma es_len_pos : (0 < length es)%nat.
  Proof.
    pose proof (P_len_pos P Hwf). destruct (nth_error_ex P 0 ltac:(lia)) as (c0 & Hc0).
    pose proof (off_lt P 0 c0 0 Hc0 (chunk_len_pos c0 (wf_parts_chunk P 0 c0 Hwf Hc0))). unfold es. lia.
  Qed.

  Lemma Rel_obs rev st cur : Rel rev st cur -> it_obs st = cur_obs es cur.
  Proof.
    destruct cur as [g|]; cbn [Rel cur_obs].
    - intros Hat. destruct (At_entry P st g Hat) as (Hg & Hk & Hv & He).
      unfold it_obs, ti_valid, ti_value, ti_key. rewrite He, Hk, Hv.
      rewrite vs_roundtrip.
      + fold es. rewrite (nth_error_nth' es dkv Hg). now destruct (nth g es dkv).
      + pose proof (wp_exp P Hwf) as Hex. rewrite Forall_forall in Hex. apply Hex. apply nth_In. exact Hg.
    - unfold it_obs, ti_valid. destruct rev.
      + intros (-> & _). reflexivity.
      + intros [(-> & _)|(c & _ & -> & _)]; reflexivity.
  Qed.

  Lemma step_rel rev st cur o : op_ok o -> (o = INext -> Rel rev st cur) ->
    exists st', it_step rev t st o = Some st' /\ Rel rev st' (cur_step rev es cur o).
  Proof.
    intros Hok Hrel. pose proof es_len_pos as Hn.
    assert (En: (length es =? 0)%nat = false) by (apply Nat.eqb_neq; lia).
    destruct o as [|k|]; cbn [it_step cur_step].
    - (* Rewind *)
      rewrite En. destruct rev; cbn [ti_Rewind].
      + destruct (seek_to_last_ok P Hwf st) as (st' & H1 & H2). exists st'. split; [exact H1|exact H2].
      + destruct (seek_to_first_ok P Hwf st) as (st' & H1 & H2). exists st'. split; [exact H1|exact H2].
    - (* Seek *)
      cbn in Hok. destruct rev; cbn [ti_Seek].
      + destruct (seek_for_prev_ok P Hwf st k Hok) as (st' & H1 & H2 & H3). exists st'. split; [exact H1|].
        fold es in H2, H3. destruct (find_idx (gt_key k) es) as [|r]; cbn [Rel].
        * now apply H3.
        * replace r with (S r - 1)%nat by lia. apply H2. lia.
      + destruct (seek_from_ok P Hwf st k Hok) as (st' & H1 & H2 & H3). exists st'. split; [exact H1|].
        fold es in H2, H3. pose proof (find_idx_le (ge_key k) es) as Hle.
        destruct (find_idx (ge_key k) es <? length es)%nat eqn:E; cbn [Rel].
        * apply H2. now apply Nat.ltb_lt.
        * right. apply H3. apply Nat.ltb_ge in E. lia.
    - (* Next *)
      specialize (Hrel eq_refl). destruct cur as [g|]; cbn [Rel] in Hrel.
      + destruct rev; cbn [ti_Next].
        * destruct (prev_ok P Hwf st g Hrel) as (st' & H1 & H2 & H3). exists st'. split; [exact H1|].
          destruct g as [|g]; cbn [Rel]; [now apply H3|].
          replace g with (S g - 1)%nat by lia. apply H2. lia.
        * destruct (next_ok P Hwf st g Hrel) as (st' & H1 & H2 & H3). exists st'. split; [exact H1|].
          destruct (At_entry P st g Hrel) as (Hg & _). fold es in Hg, H2, H3.
          destruct (S g <? length es)%nat eqn:E; cbn [Rel].
          -- apply H2. now apply Nat.ltb_lt.
          -- left. apply H3. apply Nat.ltb_ge in E. lia.
      + destruct rev; cbn [ti_Next].
        * destruct (prev_BeginR P st Hrel) as (st' & H1 & H2). exists st'. split; [exact H1|exact H2].
        * destruct Hrel as [Hf|Hs].
          -- destruct (next_EndF P st Hf) as (st' & H1 & H2). exists st'. split; [exact H1|]. now left.
          -- destruct (next_EndS P Hwf st Hs) as (st' & H1 & H2). exists st'. split; [exact H1|]. now left.
  Qed.

  Lemma run_rel rev : forall ops st cur, Forall op_ok ops ->
    (match ops with INext :: _ => Rel rev st cur | _ => True end) ->
    it_run rev t st ops = Some (cur_run rev es cur ops).
  Proof.
    induction ops as [|o ops IH]; intros st cur Hok Hfirst; [reflexivity|].
    inversion Hok as [|? ? Ho Hoks]; subst. cbn [it_run cur_run].
    destruct (step_rel rev st cur o Ho) as (st' & H1 & H2).
    { intros ->. exact Hfirst. }
    rewrite H1. rewrite (IH st' (cur_step rev es cur o) Hoks).
    - cbn [option_map]. now rewrite (Rel_obs rev st' _ H2).
    - destruct ops as [|[] ?]; auto.
  Qed.

  (* C18_iter: from ANY iterator state, any sequence of Rewind / Seek k / Next that starts with a
     positioning call returns exactly what the list cursor over the flat input returns *)
  Theorem table_iter_refines rev st ops :
    Forall op_ok ops -> (match ops with INext :: _ => False | _ => True end) ->
    it_run rev t st ops = Some (cur_run rev es None ops).
  Proof.
    intros Hok Hfirst. apply run_rel; [exact Hok|]. destruct ops as [|[] ?]; auto. destruct Hfirst.
  Qed.
End Refine.

(* ================= from the builder to the opened table ================= *)
Lemma tsize_concat_ge P c : In c P -> (tsize c <= tsize (concat P))%nat.
Proof.
  induction P as [|c' P IH]; intros H; [destruct H|]. cbn [concat]. rewrite tsize_app.
  destruct H as [->|H]; [lia|]. specialize (IH H). lia.
Qed.

Lemma bb_base_chunk c : bb_base (chunk_block c) = ckey c 0.
Proof. destruct c; reflexivity. Qed.

Lemma mk_table_ok P : forall css, Forall wf_chunk P -> N.of_nat (tsize (concat P)) < two32 ->
  length css = length P -> Forall (fun cs => N.of_nat (length cs) < two32) css ->
  mk_table (map chunk_block P) css = Some (tbl_of P).
Proof.
  unfold mk_table. induction P as [|c P IH]; intros css Hwf Hsz Hlen Hcs; [reflexivity|].
  destruct css as [|cs css]; [discriminate|]. cbn [map].
  inversion Hwf as [|? ? Hc HP]; subst. inversion Hcs as [|? ? Hcs1 Hcs2]; subst.
  cbn [concat] in Hsz. rewrite tsize_app in Hsz.
  rewrite chunk_parse; [|assumption|lia|assumption].
  rewrite (IH css HP ltac:(lia) ltac:(cbn in Hlen; lia) Hcs2).
  cbn [tbl_of map]. now rewrite bb_base_chunk.
Qed.

Lemma partition_wf es P : wf_es es -> es <> [] -> sorted_kv es ->
  Forall (fun e => vs_expires (snd e) < two64) es ->
  concat P = es -> Forall (fun p => p <> []) P -> wf_parts P.
Proof.
  intros [Hkeys _] Hne Hs Hex Hcat HP. subst es. constructor; auto.
  - rewrite Forall_forall in *. intros c Hc. split; [now apply HP|].
    rewrite Forall_forall. intros e He. apply Hkeys. apply in_concat. eauto.
  - intros ->. now apply Hne.
Qed.

(* Smallest / Biggest of the opened table *)
Lemma open_table_ok P maxv nk : wf_parts P ->
  open_table (tbl_of P) maxv nk =
  Some (mkTT (tbl_of P) (fst (nth 0 (concat P) dkv)) (fst (nth (length (concat P) - 1) (concat P) dkv)) maxv nk).
Proof.
  intros Hwf. unfold open_table. pose proof (P_len_pos P Hwf) as Hp.
  destruct (nth_error_ex P 0 Hp) as (c0 & Hc0).
  remember (tbl_of P) as T eqn:ET.
  destruct T as [|tb0 T'].
  { exfalso. destruct P; [cbn in Hp; lia|discriminate]. }
  assert (Htb: tb_base tb0 = ckey c0 0).
  { destruct P as [|c P']; [discriminate|]. cbn in Hc0. injection Hc0 as ->.
    cbn in ET. now injection ET as -> _. }
  rewrite ET. cbn [ti_Rewind].
  destruct (seek_to_last_ok P Hwf ti_zero) as (st' & H1 & H2). rewrite H1.
  destruct (At_entry P st' _ H2) as (Hg & Hk & _ & He).
  unfold ti_valid, ti_key. rewrite He, Hk, Htb. f_equal. f_equal.
  pose proof (nth_concat_off P 0 c0 0 dkv Hc0 (chunk_len_pos c0 (wf_parts_chunk P 0 c0 Hwf Hc0))) as Hn.
  cbn [firstn concat length Nat.add] in Hn. rewrite Hn. reflexivity.
Qed.

(* maxVersion is the maximum of ParseTs over the keys *)
Lemma max_version_spec es :
  (forall e, In e es -> parse_ts (fst e) <= max_version es) /\
  (es <> [] -> exists e, In e es /\ parse_ts (fst e) = max_version es).
Proof.
  unfold max_version.
  set (f := fun (m : N) (e : kv) => if m <? parse_ts (fst e) then parse_ts (fst e) else m).
  assert (G: forall es m,
             (m <= fold_left f es m) /\
             (forall e : kv, In e es -> parse_ts (fst e) <= fold_left f es m) /\
             (fold_left f es m = m \/ exists e : kv, In e es /\ parse_ts (fst e) = fold_left f es m)).
  { clear es. induction es as [|x es IH]; intros m; cbn [fold_left].
    - repeat split; [lia|intros e []|now left].
    - assert (Hm: m <= f m x /\ parse_ts (fst x) <= f m x)
        by (unfold f; destruct (m <? parse_ts (fst x)) eqn:E; lia).
      destruct (IH (f m x)) as (H1 & H2 & H3).
      repeat split.
      + lia.
      + intros e [<-|He]; [lia|now apply H2].
      + destruct H3 as [H3|(e & He & H3)].
        * destruct (m <? parse_ts (fst x)) eqn:E.
          -- right. exists x. split; [now left|]. rewrite H3. unfold f. now rewrite E.
          -- left. rewrite H3. unfold f. now rewrite E.
        * right. exists e. split; [now right|exact H3]. }
  destruct (G es 0) as (H1 & H2 & H3). split; [exact H2|].
  intros Hne. destruct H3 as [H3|(e & He & H3)].
  - destruct es as [|e es']; [congruence|]. exists e. split; [now left|].
    pose proof (H2 e (or_introl eq_refl)) as H4. change (parse_ts (fst e) = fold_left f (e :: es') 0).
    rewrite H3 in *. lia.
  - exists e. now split.
Qed.

(* The whole pipeline: Builder (any split policy) -> stored blocks (any checksums) -> OpenTable ->
   Iterator refines the list cursor over the input; metadata as specified *)
Theorem built_table_refines pol es css bl maxv nk :
  wf_es es -> es <> [] -> sorted_kv es -> Forall (fun e => vs_expires (snd e) < two64) es ->
  build pol es = Some (bl, maxv, nk) ->
  length css = length bl -> Forall (fun cs => N.of_nat (length cs) < two32) css ->
  exists t, mk_table bl css = Some t /\
    open_table t maxv nk = Some (mkTT t (fst (nth 0 es dkv)) (fst (nth (length es - 1) es dkv))
                                      (max_version es) (N.of_nat (length es) mod two32)) /\
    forall rev st ops, Forall op_ok ops -> (match ops with INext :: _ => False | _ => True end) ->
      it_run rev t st ops = Some (cur_run rev es None ops).
Proof.
  intros Hwf Hne Hs Hex Hb Hlen Hcs.
  destruct (build_partition pol es bl maxv nk Hwf Hb) as (P & Hcat & HP & Hbl & Hmv & Hnk).
  pose proof (partition_wf es P Hwf Hne Hs Hex Hcat HP) as HwP.
  exists (tbl_of P). subst bl maxv nk. rewrite map_length in Hlen. split; [|split].
  - apply mk_table_ok; try assumption.
    + exact (wp_chunks P HwP).
    + rewrite Hcat. exact (proj2 Hwf).
  - rewrite open_table_ok by exact HwP. now rewrite Hcat.
  - intros rev st ops Hok Hfirst. rewrite <- Hcat. now apply table_iter_refines.
Qed.

(* ================= reading the list cursor ================= *)

(* Seek (forward) = the first entry with key >= k, as List.find *)
Lemma find_idx_find {A} (p : A -> bool) l :
  (if (find_idx p l <? length l)%nat then nth_error l (find_idx p l) else None) = find p l.
Proof.
  induction l as [|x l IH]; cbn [find_idx find length]; [reflexivity|].
  destruct (p x); [reflexivity|]. rewrite <- IH.
  change (S (find_idx p l) <? S (length l))%nat with (find_idx p l <? length l)%nat.
  destruct (find_idx p l <? length l)%nat; reflexivity.
Qed.

Lemma cur_seek_fwd_find es cur k :
  cur_obs es (cur_step false es cur (ISeek k)) = find (ge_key k) es.
Proof.
  cbn [cur_step]. rewrite <- find_idx_find.
  destruct (find_idx (ge_key k) es <? length es)%nat; reflexivity.
Qed.

(* Seek (reversed) = the last entry with key <= k, when "key > k" is monotone along the list *)
Definition mono_true {A} (q : A -> bool) (l : list A) : Prop :=
  forall a y b, l = a ++ y :: b -> q y = true -> forall z, In z b -> q z = true.

Lemma find_rev_last {A} (q : A -> bool) : forall l, mono_true q l ->
  find (fun e => negb (q e)) (rev l) = match find_idx q l with O => None | S r => nth_error l r end.
Proof.
  induction l as [|x l IH] using rev_ind; intros Hm; [reflexivity|].
  rewrite rev_app_distr. cbn [rev app find].
  assert (Hm': mono_true q l).
  { intros a y b Hl Hy z Hz. apply (Hm a y (b ++ [x])); [rewrite Hl, <- app_assoc; reflexivity|exact Hy|].
    apply in_or_app. now left. }
  destruct (q x) eqn:Ex; cbn [negb].
  - rewrite (IH Hm'). pose proof (find_idx_le q l) as Hle.
    destruct (Nat.eq_dec (find_idx q l) (length l)) as [Heq|Hne].
    + rewrite find_idx_app_skip by (apply find_idx_full; exact Heq). cbn [find_idx]. rewrite Ex, Nat.add_0_r, Heq.
      destruct (length l) as [|n] eqn:El; [reflexivity|]. rewrite nth_error_app1 by lia. reflexivity.
    + rewrite find_idx_app_in by lia. destruct (find_idx q l) as [|r] eqn:Er; [reflexivity|].
      rewrite nth_error_app1 by lia. reflexivity.
  - (* x is the last entry and q x = false: every earlier entry has q = false as well *)
    assert (Hall: forall y, In y l -> q y = false).
    { intros y Hy. destruct (q y) eqn:Ey; [|reflexivity]. apply in_split in Hy as (a & b & ->).
      rewrite <- app_assoc in Hm. cbn [app] in Hm.
      rewrite (Hm a y (b ++ [x]) eq_refl Ey x) in Ex; [discriminate|]. apply in_or_app. right. now left. }
    rewrite find_idx_app_skip by exact Hall. cbn [find_idx]. rewrite Ex.
    replace (length l + 1)%nat with (S (length l)) by lia.
    rewrite nth_error_app2 by lia. now rewrite Nat.sub_diag.
Qed.

Lemma sorted_gt_mono es k : sorted_kv es -> (8 <= length k)%nat ->
  Forall (fun e : kv => (8 <= length (fst e))%nat) es -> mono_true (gt_key k) es.
Proof.
  intros Hs Hk H8 a y b -> Hy z Hz.
  apply sorted_app in Hs as (_ & Hs & _). cbn [app] in Hs.
  change (y :: b) with ([y] ++ b) in Hs. apply sorted_app in Hs as (_ & _ & Hlt).
  specialize (Hlt y z (or_introl eq_refl) Hz).
  rewrite Forall_forall in H8. pose proof (H8 z ltac:(apply in_or_app; right; now right)) as Hz8.
  unfold gt_key in *. destruct (ck_total _ k Hz8 Hk) as (c & Hc). rewrite Hc.
  destruct (compare_keys (fst y) k) as [[]|] eqn:Ey; try discriminate.
  apply ck_antisym in Ey. cbn in Ey.
  assert (Hkz: klt k (fst z)) by (eapply klt_trans; eassumption).
  apply ck_antisym in Hkz. cbn in Hkz. rewrite Hkz in Hc. now injection Hc as <-.
Qed.

Lemma cur_seek_rev_find es cur k : sorted_kv es -> (8 <= length k)%nat ->
  Forall (fun e : kv => (8 <= length (fst e))%nat) es ->
  cur_obs es (cur_step true es cur (ISeek k)) = find (fun e => negb (gt_key k e)) (rev es).
Proof.
  intros Hs Hk H8. rewrite (find_rev_last (gt_key k) es (sorted_gt_mono es k Hs Hk H8)).
  cbn [cur_step]. destruct (find_idx (gt_key k) es); reflexivity.
Qed.

(* a full scan: Rewind then Next until exhausted returns the list (reversed: the reversed list) *)
Lemma cur_scan_fwd es : forall k g, (g + S k = length es)%nat ->
  cur_run false es (Some g) (repeat INext (S k)) = map Some (skipn (S g) es) ++ [None].
Proof.
  induction k as [|k IH]; intros g Hg.
  - cbn [repeat cur_run cur_step].
    assert (E: (S g <? length es)%nat = false) by (apply Nat.ltb_ge; lia). rewrite E.
    rewrite skipn_all2 by lia. reflexivity.
  - change (repeat INext (S (S k))) with (INext :: repeat INext (S k)). cbn [cur_run].
    assert (Hs: cur_step false es (Some g) INext = Some (S g)).
    { cbn [cur_step]. assert (E: (S g <? length es)%nat = true) by (apply Nat.ltb_lt; lia). now rewrite E. }
    rewrite Hs, IH by lia. cbn [cur_obs].
    rewrite (skipn_cons_nth es (S g) dkv) by lia. cbn [map app].
    now rewrite (nth_error_nth' es dkv) by lia.
Qed.

Theorem cur_full_scan_fwd es : es <> [] ->
  cur_run false es None (IRewind :: repeat INext (length es)) = map Some es ++ [None].
Proof.
  intros Hne. destruct es as [|e es'] eqn:E; [congruence|]. rewrite <- E in *.
  assert (Hl: length es = S (length es')) by (rewrite E; reflexivity).
  cbn [cur_run cur_step]. rewrite Hl. cbn [Nat.eqb]. rewrite <- Hl.
  rewrite Hl at 1. rewrite (cur_scan_fwd es (length es') 0) by lia.
  rewrite E. reflexivity.
Qed.

Lemma firstn_S_nth {A} (l : list A) g d : (g < length l)%nat -> firstn (S g) l = firstn g l ++ [nth g l d].
Proof.
  revert g; induction l as [|x l IH]; intros g Hg; cbn in Hg; [lia|].
  destruct g as [|g]; [reflexivity|]. rewrite firstn_cons. cbn [nth]. rewrite IH by lia. reflexivity.
Qed.

Lemma cur_scan_rev es : forall g, (g < length es)%nat ->
  cur_run true es (Some g) (repeat INext (S g)) = map Some (rev (firstn g es)) ++ [None].
Proof.
  induction g as [|g IH]; intros Hg; [reflexivity|].
  change (repeat INext (S (S g))) with (INext :: repeat INext (S g)). cbn [cur_run].
  assert (Hs: cur_step true es (Some (S g)) INext = Some g) by reflexivity.
  rewrite Hs, IH by lia. cbn [cur_obs].
  rewrite (firstn_S_nth es g dkv) by lia.
  rewrite rev_app_distr. cbn [rev app map]. now rewrite (nth_error_nth' es dkv) by lia.
Qed.

Theorem cur_full_scan_rev es : es <> [] ->
  cur_run true es None (IRewind :: repeat INext (length es)) = map Some (rev es) ++ [None].
Proof.
  intros Hne. destruct es as [|e es'] eqn:E; [congruence|]. rewrite <- E in *.
  assert (Hl: length es = S (length es')) by (rewrite E; reflexivity).
  cbn [cur_run]. assert (Hs: cur_step true es None IRewind = Some (length es')).
  { cbn [cur_step]. rewrite Hl. cbn [Nat.eqb]. f_equal. lia. }
  rewrite Hs. rewrite Hl. rewrite (cur_scan_rev es (length es')) by lia.
  assert (Hes: es = firstn (length es') es ++ [nth (length es') es dkv]).
  { rewrite <- firstn_S_nth by lia. rewrite <- Hl. symmetry. apply firstn_all. }
  assert (Hrev: rev es = nth (length es') es dkv :: rev (firstn (length es') es)).
  { rewrite Hes at 1. rewrite rev_app_distr. reflexivity. }
  rewrite Hrev. cbn [cur_obs map app]. now rewrite (nth_error_nth' es dkv) by lia.
Qed.
