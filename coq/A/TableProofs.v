(* TableProofs.v — the table iterator of coq/A/Table.v implements the cursor operations of the flat
   entry list, for any partition of the entries into non-empty blocks. *)
From Verif Require Import Bytes BytesProofs Uvarint UvarintProofs Keys Codec C20Proofs Block BlockProofs Table.
From Coq Require Import ZifyN ZifyNat ZifyBool Sorting.Sorted.
Open Scope N_scope.

(* ================= the table of a partition ================= *)
Definition tbl_of (P : list (list kv)) : table := map (fun c => mkTB (ckey c 0) (chunk_blk c)) P.

Definition off (P : list (list kv)) (b : nat) : nat := length (concat (firstn b P)).

Record wf_parts (P : list (list kv)) : Prop := {
  wp_chunks : Forall wf_chunk P;
  wp_ne : P <> [];
  wp_sorted : sorted_kv (concat P);
  wp_exp : Forall (fun e => vs_expires (snd e) < two64) (concat P) }.

Lemma nb_tbl P : nb (tbl_of P) = Z.of_nat (length P).
Proof. unfold nb, zlen, tbl_of. now rewrite map_length. Qed.

Lemma t_block_ok P b c : nth_error P b = Some c ->
  t_block (tbl_of P) (Z.of_nat b) = Some (Some (chunk_blk c)).
Proof.
  intros H. unfold t_block. assert (E: (Z.of_nat b <? 0)%Z = false) by lia. rewrite E.
  rewrite Nat2Z.id. unfold tbl_of. rewrite nth_error_map, H. reflexivity.
Qed.

Lemma wf_parts_chunk P b c : wf_parts P -> nth_error P b = Some c -> wf_chunk c.
Proof.
  intros [H _ _ _] Hn. rewrite Forall_forall in H. apply H. eapply nth_error_In; eassumption.
Qed.

Lemma chunk_len_pos c : wf_chunk c -> (0 < length c)%nat.
Proof. intros [Hne _]. destruct c; [congruence|cbn; lia]. Qed.

Lemma off_S P b c : nth_error P b = Some c -> off P (S b) = (off P b + length c)%nat.
Proof.
  intros H. unfold off. rewrite (concat_firstn_S P b c) by (apply nth_error_Some; congruence).
  rewrite app_length. now rewrite (nth_error_nth _ _ _ H).
Qed.

Lemma off_all P : off P (length P) = length (concat P).
Proof. unfold off. now rewrite firstn_all. Qed.

Lemma off_last P c : nth_error P (length P - 1) = Some c -> (0 < length P)%nat ->
  length (concat P) = (off P (length P - 1) + length c)%nat.
Proof.
  intros Hc Hp. rewrite <- off_all. rewrite <- (off_S P _ c Hc). f_equal. lia.
Qed.

Lemma nth_concat_off {A} (P : list (list A)) b c i d : nth_error P b = Some c -> (i < length c)%nat ->
  nth (length (concat (firstn b P)) + i) (concat P) d = nth i c d.
Proof.
  intros Hb Hi.
  rewrite (concat_split_nth P b c) by (apply nth_error_Some; congruence).
  rewrite app_nth2 by lia. replace (length (concat (firstn b P)) + i - length (concat (firstn b P)))%nat with i by lia.
  rewrite (nth_error_nth _ _ _ Hb). now rewrite app_nth1.
Qed.

Lemma off_lt P b c i : nth_error P b = Some c -> (i < length c)%nat -> (off P b + i < length (concat P))%nat.
Proof.
  intros Hb Hi. unfold off.
  rewrite (concat_split_nth P b c) by (apply nth_error_Some; congruence).
  rewrite (nth_error_nth _ _ _ Hb), !app_length. lia.
Qed.

(* ================= positions ================= *)
Definition AtB (c : list kv) (i : nat) (bi : biter) : Prop :=
  BV c bi /\ bi_idx bi = Z.of_nat i /\ bi_eof bi = false /\ bi_key bi = ckey c i /\
  bi_val bi = cval c i /\ (i < length c)%nat.

Definition At (P : list (list kv)) (st : titer) (g : nat) : Prop :=
  exists b c i, nth_error P b = Some c /\ g = (off P b + i)%nat /\ ti_bpos st = Z.of_nat b /\
                ti_err st = ENone /\ AtB c i (ti_bi st).

Lemma At_intro P st b c i : nth_error P b = Some c -> ti_bpos st = Z.of_nat b -> ti_err st = ENone ->
  AtB c i (ti_bi st) -> At P st (off P b + i).
Proof. intros. exists b, c, i. auto. Qed.

Lemma AtB_err c i bi : AtB c i bi -> bi_err bi = ENone.
Proof. intros (_ & _ & H & _). unfold bi_err. now rewrite H. Qed.

(* exhausted states *)
Definition EndF (P : list (list kv)) (st : titer) : Prop :=      (* ran off the end with next *)
  ti_err st = EEOF /\ (Z.of_nat (length P) <= ti_bpos st)%Z.
Definition EndS (P : list (list kv)) (st : titer) : Prop :=      (* seek beyond the last entry *)
  exists c, nth_error P (length P - 1) = Some c /\ ti_err st = EEOF /\
            ti_bpos st = Z.of_nat (length P - 1) /\ BV c (ti_bi st) /\
            bi_idx (ti_bi st) = Z.of_nat (length c).
Definition BeginR (st : titer) : Prop :=                          (* ran off the start with prev *)
  ti_err st = EEOF /\ (ti_bpos st < 0)%Z.

Lemma BV_data_nonempty c bi : wf_chunk c -> BV c bi -> (length (bi_data bi) =? 0)%nat = false.
Proof.
  intros Hwf (Hd & _). apply Nat.eqb_neq. rewrite Hd.
  destruct c as [|e0 r]; [destruct Hwf; congruence|]. cbn [chunk_encs concat]. rewrite app_length.
  pose proof (enc_entry_len4 [] e0). lia.
Qed.

(* ---- block-level steps ---- *)
Lemma first_AtB c : wf_chunk c -> exists bi, bi_first (set_block (chunk_blk c)) = Some bi /\ AtB c 0 bi.
Proof.
  intros Hwf. pose proof (chunk_len_pos c Hwf) as H0.
  pose proof (set_idx_ok c _ 0 Hwf (BV_set_block c) H0) as H. cbn [Z.of_nat] in H.
  eexists. split; [exact H|]. split; [exact (BV_after_set c _ 0 Hwf (BV_set_block c) H0)|].
  cbn. auto.
Qed.

Lemma last_AtB c : wf_chunk c -> exists bi, bi_last (set_block (chunk_blk c)) = Some bi /\ AtB c (length c - 1) bi.
Proof.
  intros Hwf. pose proof (chunk_len_pos c Hwf) as H0.
  assert (Hi: (length c - 1 < length c)%nat) by lia.
  pose proof (set_idx_ok c _ _ Hwf (BV_set_block c) Hi) as H.
  unfold bi_last. rewrite (BV_nlen c _ (BV_set_block c)).
  replace (Z.of_nat (length c) - 1)%Z with (Z.of_nat (length c - 1)) by lia.
  eexists. split; [exact H|]. split; [exact (BV_after_set c _ _ Hwf (BV_set_block c) Hi)|].
  cbn. auto.
Qed.

Lemma move_AtB c i bi (j : Z) : wf_chunk c -> AtB c i bi ->
  exists bi', set_idx bi j = Some bi' /\ BV c bi' /\ bi_idx bi' = j /\
    ((0 <= j < Z.of_nat (length c))%Z -> AtB c (Z.to_nat j) bi') /\
    (~ (0 <= j < Z.of_nat (length c))%Z -> bi_eof bi' = true).
Proof.
  intros Hwf (Hbv & _). destruct (set_idx_any c bi j Hwf Hbv) as (bi' & H1 & H2 & H3 & H4 & H5).
  exists bi'. split; [exact H1|]. split; [exact H2|]. split; [exact H3|]. split.
  - intros Hj. destruct (H4 Hj) as (A & B & C). unfold AtB. rewrite H3.
    split; [exact H2|]. split; [lia|]. split; [exact A|]. split; [exact B|]. split; [exact C|lia].
  - intros Hj. apply H5. exact Hj.
Qed.

(* ================= table-level steps ================= *)
Section Steps.
  Variable P : list (list kv).
  Hypothesis Hwf : wf_parts P.
  Let t := tbl_of P.

  Lemma load_first st b c : nth_error P b = Some c ->
    exists st', load_block t st (Z.of_nat b) bi_first = Some st' /\ At P st' (off P b).
  Proof.
    intros Hb. unfold load_block, t. rewrite (t_block_ok P b c Hb).
    destruct (first_AtB c (wf_parts_chunk P b c Hwf Hb)) as (bi & H1 & H2). rewrite H1.
    eexists. split; [reflexivity|]. rewrite <- (Nat.add_0_r (off P b)).
    apply (At_intro P _ b c 0 Hb); cbn [ti_bpos ti_err ti_bi]; auto. eapply AtB_err; eassumption.
  Qed.

  Lemma load_last st b c : nth_error P b = Some c ->
    exists st', load_block t st (Z.of_nat b) bi_last = Some st' /\ At P st' (off P b + (length c - 1)).
  Proof.
    intros Hb. unfold load_block, t. rewrite (t_block_ok P b c Hb).
    destruct (last_AtB c (wf_parts_chunk P b c Hwf Hb)) as (bi & H1 & H2). rewrite H1.
    eexists. split; [reflexivity|].
    apply (At_intro P _ b c _ Hb); cbn [ti_bpos ti_err ti_bi]; auto. eapply AtB_err; eassumption.
  Qed.

  Lemma P_len_pos : (0 < length P)%nat.
  Proof. destruct Hwf as [_ Hne _ _]. destruct P; [congruence|cbn; lia]. Qed.

  Lemma nth_error_ex b : (b < length P)%nat -> exists c, nth_error P b = Some c.
  Proof. intros H. destruct (nth_error P b) eqn:E; [eauto|]. apply nth_error_None in E. lia. Qed.

  Lemma seek_to_first_ok st : exists st', ti_seek_to_first t st = Some st' /\ At P st' 0.
  Proof.
    unfold ti_seek_to_first, t. rewrite nb_tbl. pose proof P_len_pos.
    assert (E: (Z.of_nat (length P) =? 0)%Z = false) by lia. rewrite E.
    destruct (nth_error_ex 0 ltac:(lia)) as (c & Hc).
    destruct (load_first st 0 c Hc) as (st' & H1 & H2). exists st'. split; [exact H1|exact H2].
  Qed.

  Lemma seek_to_last_ok st : exists st', ti_seek_to_last t st = Some st' /\ At P st' (length (concat P) - 1).
  Proof.
    unfold ti_seek_to_last, t. rewrite nb_tbl. pose proof P_len_pos.
    assert (E: (Z.of_nat (length P) =? 0)%Z = false) by lia. rewrite E.
    destruct (nth_error_ex (length P - 1) ltac:(lia)) as (c & Hc).
    replace (Z.of_nat (length P) - 1)%Z with (Z.of_nat (length P - 1)) by lia.
    destruct (load_last st _ c Hc) as (st' & H1 & H2). exists st'. split; [exact H1|].
    replace (length (concat P) - 1)%nat with (off P (length P - 1) + (length c - 1))%nat; [exact H2|].
    rewrite (off_last P c Hc) by lia. pose proof (chunk_len_pos c (wf_parts_chunk P _ c Hwf Hc)). lia.
  Qed.

  (* next from a valid position *)
  Lemma next_ok st g : At P st g ->
    exists st', ti_next t st = Some st' /\
      ((S g < length (concat P))%nat -> At P st' (S g)) /\
      ((S g = length (concat P))%nat -> EndF P st').
  Proof.
    intros (b & c & i & Hb & Hg & Hbp & Herr & Hat).
    pose proof (wf_parts_chunk P b c Hwf Hb) as Hwc.
    assert (Hbl: (b < length P)%nat) by (apply nth_error_Some; congruence).
    unfold ti_next, ti_next_f, t. rewrite nb_tbl, Hbp.
    assert (E1: (Z.of_nat (length P) <=? Z.of_nat b)%Z = false) by lia. rewrite E1.
    destruct Hat as (Hbv & Hidx & Heof & Hk & Hv & Hi).
    rewrite (BV_data_nonempty c _ Hwc Hbv).
    unfold bi_next. rewrite Hidx.
    destruct (move_AtB c i (ti_bi st) (Z.of_nat i + 1) Hwc (conj Hbv (conj Hidx (conj Heof (conj Hk (conj Hv Hi))))))
      as (bi' & H1 & H2 & H3 & H4 & H5).
    rewrite H1.
    destruct (Nat.eq_dec (S i) (length c)) as [Hlast|Hmid].
    - (* last entry of the block *)
      rewrite (H5 ltac:(lia)). cbn [ti_bpos bi_clear_data ti_bi bi_data length Nat.eqb].
      pose proof (off_S P b c Hb) as HoS.
      destruct (Nat.eq_dec (S b) (length P)) as [Hlb|Hmb].
      + assert (E2: (Z.of_nat (length P) <=? Z.of_nat b + 1)%Z = true) by lia. rewrite E2.
        eexists. split; [reflexivity|]. split.
        * intros Hlt. exfalso. rewrite <- off_all, <- Hlb, HoS in Hlt. lia.
        * intros _. split; cbn; [reflexivity|lia].
      + assert (E2: (Z.of_nat (length P) <=? Z.of_nat b + 1)%Z = false) by lia. rewrite E2.
        destruct (nth_error_ex (S b) ltac:(lia)) as (c' & Hc').
        replace (Z.of_nat b + 1)%Z with (Z.of_nat (S b)) by lia.
        destruct (load_first (mkTI (Z.of_nat (S b))
                    (mkBI [] (bi_offs bi') (bi_idx bi') (bi_eof bi') (bi_base bi') (bi_key bi') (bi_val bi') (bi_prev bi')) ENone)
                    (S b) c' Hc') as (st' & Hl & Hat').
        exists st'. split; [exact Hl|]. split.
        * intros _. replace (S g) with (off P (S b)) by lia. exact Hat'.
        * intros Heq. exfalso. pose proof (off_lt P (S b) c' 0 Hc' (chunk_len_pos c' (wf_parts_chunk P _ c' Hwf Hc'))). lia.
    - assert (Hin: (0 <= Z.of_nat i + 1 < Z.of_nat (length c))%Z) by lia.
      destruct (H4 Hin) as (_ & _ & A3 & _). rewrite A3.
      eexists. split; [reflexivity|]. split.
      + intros _. replace (S g) with (off P b + S i)%nat by lia.
        apply (At_intro P _ b c (S i) Hb); cbn [ti_bpos ti_err ti_bi]; auto.
        replace (S i) with (Z.to_nat (Z.of_nat i + 1)) by lia. exact (H4 Hin).
      + intros Heq. exfalso. pose proof (off_lt P b c (S i) Hb ltac:(lia)). lia.
  Qed.

  Lemma next_EndF st : EndF P st -> exists st', ti_next t st = Some st' /\ EndF P st'.
  Proof.
    intros (He & Hb). unfold ti_next, ti_next_f, t. rewrite nb_tbl.
    assert (E: (Z.of_nat (length P) <=? ti_bpos st)%Z = true) by lia. rewrite E.
    eexists. split; [reflexivity|]. split; cbn; auto.
  Qed.

  Lemma next_EndS st : EndS P st -> exists st', ti_next t st = Some st' /\ EndF P st'.
  Proof.
    intros (c & Hc & He & Hb & Hbv & Hidx). pose proof P_len_pos.
    pose proof (wf_parts_chunk P _ c Hwf Hc) as Hwc.
    unfold ti_next, ti_next_f, t. rewrite nb_tbl, Hb.
    assert (E1: (Z.of_nat (length P) <=? Z.of_nat (length P - 1))%Z = false) by lia. rewrite E1.
    rewrite (BV_data_nonempty c _ Hwc Hbv). unfold bi_next. rewrite Hidx.
    destruct (set_idx_any c (ti_bi st) (Z.of_nat (length c) + 1) Hwc Hbv) as (bi' & H1 & H2 & H3 & H4 & H5).
    rewrite H1. destruct (H5 ltac:(lia)) as [-> _].
    cbn [ti_bpos bi_clear_data ti_bi bi_data length Nat.eqb].
    assert (E2: (Z.of_nat (length P) <=? Z.of_nat (length P - 1) + 1)%Z = true) by lia. rewrite E2.
    eexists. split; [reflexivity|]. split; cbn; [reflexivity|lia].
  Qed.

  (* prev from a valid position *)
  Lemma prev_ok st g : At P st g ->
    exists st', ti_prev t st = Some st' /\
      ((0 < g)%nat -> At P st' (g - 1)) /\ ((g = 0)%nat -> BeginR st').
  Proof.
    intros (b & c & i & Hb & Hg & Hbp & Herr & Hat).
    pose proof (wf_parts_chunk P b c Hwf Hb) as Hwc.
    assert (Hbl: (b < length P)%nat) by (apply nth_error_Some; congruence).
    unfold ti_prev, ti_prev_f, t. rewrite Hbp.
    assert (E1: (Z.of_nat b <? 0)%Z = false) by lia. rewrite E1.
    destruct Hat as (Hbv & Hidx & Heof & Hk & Hv & Hi).
    rewrite (BV_data_nonempty c _ Hwc Hbv).
    unfold bi_prev_. rewrite Hidx.
    destruct (move_AtB c i (ti_bi st) (Z.of_nat i - 1) Hwc (conj Hbv (conj Hidx (conj Heof (conj Hk (conj Hv Hi))))))
      as (bi' & H1 & H2 & H3 & H4 & H5).
    rewrite H1.
    destruct i as [|i].
    - (* first entry of the block *)
      rewrite (H5 ltac:(lia)). cbn [ti_bpos bi_clear_data ti_bi bi_data length Nat.eqb].
      destruct b as [|b].
      + assert (E2: (Z.of_nat 0 - 1 <? 0)%Z = true) by lia. rewrite E2.
        eexists. split; [reflexivity|]. split.
        * intros Hlt. exfalso. unfold off in Hg. cbn in Hg. lia.
        * intros _. split; cbn; [reflexivity|lia].
      + assert (E2: (Z.of_nat (S b) - 1 <? 0)%Z = false) by lia. rewrite E2.
        destruct (nth_error_ex b ltac:(lia)) as (c' & Hc').
        replace (Z.of_nat (S b) - 1)%Z with (Z.of_nat b) by lia.
        destruct (load_last (mkTI (Z.of_nat b)
                    (mkBI [] (bi_offs bi') (bi_idx bi') (bi_eof bi') (bi_base bi') (bi_key bi') (bi_val bi') (bi_prev bi')) ENone)
                    b c' Hc') as (st' & Hl & Hat').
        exists st'. split; [exact Hl|]. split.
        * intros _. pose proof (off_S P b c' Hc') as HoS.
          pose proof (chunk_len_pos c' (wf_parts_chunk P _ c' Hwf Hc')).
          replace (g - 1)%nat with (off P b + (length c' - 1))%nat by lia. exact Hat'.
        * intros Heq. exfalso. pose proof (off_S P b c' Hc') as HoS.
          pose proof (chunk_len_pos c' (wf_parts_chunk P _ c' Hwf Hc')). lia.
    - assert (Hin: (0 <= Z.of_nat (S i) - 1 < Z.of_nat (length c))%Z) by lia.
      destruct (H4 Hin) as (_ & _ & A3 & _). rewrite A3.
      eexists. split; [reflexivity|]. split.
      + intros _. replace (g - 1)%nat with (off P b + i)%nat by lia.
        apply (At_intro P _ b c i Hb); cbn [ti_bpos ti_err ti_bi]; auto.
        replace i with (Z.to_nat (Z.of_nat (S i) - 1)) at 1 by lia. exact (H4 Hin).
      + intros Heq. exfalso. lia.
  Qed.

  Lemma prev_BeginR st : BeginR st -> exists st', ti_prev t st = Some st' /\ BeginR st'.
  Proof.
    intros (He & Hb). unfold ti_prev, ti_prev_f.
    assert (E: (ti_bpos st <? 0)%Z = true) by lia. rewrite E.
    eexists. split; [reflexivity|]. split; cbn; auto.
  Qed.

  Lemma prev_EndS st : EndS P st -> exists st', ti_prev t st = Some st' /\ At P st' (length (concat P) - 1).
  Proof.
    intros (c & Hc & He & Hb & Hbv & Hidx). pose proof P_len_pos.
    pose proof (wf_parts_chunk P _ c Hwf Hc) as Hwc. pose proof (chunk_len_pos c Hwc).
    unfold ti_prev, ti_prev_f, t. rewrite Hb.
    assert (E1: (Z.of_nat (length P - 1) <? 0)%Z = false) by lia. rewrite E1.
    rewrite (BV_data_nonempty c _ Hwc Hbv). unfold bi_prev_. rewrite Hidx.
    assert (Hi: (length c - 1 < length c)%nat) by lia.
    pose proof (set_idx_ok c (ti_bi st) _ Hwc Hbv Hi) as Hs.
    replace (Z.of_nat (length c) - 1)%Z with (Z.of_nat (length c - 1)) by lia.
    rewrite Hs. cbn [bi_eof].
    eexists. split; [reflexivity|].
    replace (length (concat P) - 1)%nat with (off P (length P - 1) + (length c - 1))%nat.
    - apply (At_intro P _ _ c _ Hc); cbn [ti_bpos ti_err ti_bi]; auto.
      split; [exact (BV_after_set c _ _ Hwc Hbv Hi)|]. cbn. auto.
    - rewrite (off_last P c Hc) by lia. lia.
  Qed.
End Steps.

(* ================= sortedness across blocks, find_idx over concatenations ================= *)
Lemma sorted_app l1 l2 : sorted_kv (l1 ++ l2) ->
  sorted_kv l1 /\ sorted_kv l2 /\ (forall x y, In x l1 -> In y l2 -> klt (fst x) (fst y)).
Proof.
  unfold sorted_kv. induction l1 as [|e l1 IH]; cbn [app map]; intros H.
  - repeat split; [constructor|assumption|intros x y []].
  - apply StronglySorted_inv in H as [H Hall]. destruct (IH H) as (H1 & H2 & H3).
    rewrite map_app, Forall_app in Hall. destruct Hall as [Ha1 Ha2]. repeat split.
    + constructor; assumption.
    + assumption.
    + intros x y [<-|Hx] Hy.
      * rewrite Forall_forall in Ha2. apply Ha2. now apply in_map.
      * now apply H3.
Qed.

Lemma find_idx_app_skip {A} (p : A -> bool) l1 l2 : (forall x, In x l1 -> p x = false) ->
  find_idx p (l1 ++ l2) = (length l1 + find_idx p l2)%nat.
Proof.
  induction l1 as [|x l1 IH]; intros H; cbn [app find_idx length]; [reflexivity|].
  rewrite (H x (or_introl eq_refl)). rewrite IH; [reflexivity|]. intros y Hy. apply H. now right.
Qed.

Lemma find_idx_app_in {A} (p : A -> bool) l1 l2 : (find_idx p l1 < length l1)%nat ->
  find_idx p (l1 ++ l2) = find_idx p l1.
Proof.
  induction l1 as [|x l1 IH]; cbn [app find_idx length]; intros H; [lia|].
  destruct (p x); [reflexivity|]. rewrite IH; [reflexivity|lia].
Qed.

Lemma find_idx_full {A} (p : A -> bool) l : find_idx p l = length l -> forall x, In x l -> p x = false.
Proof.
  induction l as [|y l IH]; cbn [find_idx length]; intros H x Hx; [destruct Hx|].
  destruct (p y) eqn:E; [discriminate|]. destruct Hx as [<-|Hx]; [exact E|]. apply IH; [lia|exact Hx].
Qed.

Lemma find_idx_head {A} (p : A -> bool) x l : p x = true -> find_idx p (x :: l) = 0%nat.
Proof. intros H. cbn. now rewrite H. Qed.

Lemma concat_split_at {A} (P : list (list A)) b c : nth_error P b = Some c ->
  concat P = concat (firstn b P) ++ c ++ concat (skipn (S b) P).
Proof.
  intros H. rewrite (concat_split_nth P b c) by (apply nth_error_Some; congruence).
  now rewrite (nth_error_nth _ _ _ H).
Qed.

Lemma nth_error_firstn_lt {A} (l : list A) : forall a b, (a < b)%nat -> nth_error (firstn b l) a = nth_error l a.
Proof.
  induction l as [|x l IH]; intros a b Hab.
  - rewrite firstn_nil. reflexivity.
  - destruct b as [|b]; [lia|]. destruct a as [|a]; cbn; [reflexivity|]. apply IH. lia.
Qed.

Lemma in_concat_firstn {A} (P : list (list A)) a b ca x : nth_error P a = Some ca -> (a < b)%nat ->
  In x ca -> In x (concat (firstn b P)).
Proof.
  intros Ha Hab Hx. apply in_concat. exists ca. split; [|exact Hx].
  apply nth_error_In with (n := a). rewrite nth_error_firstn_lt by exact Hab. exact Ha.
Qed.

Definition bgt (k : bytes) (c : list kv) : bool := gt_key k (nth 0 c dkv).

Lemma ck_total a b : (8 <= length a)%nat -> (8 <= length b)%nat -> exists c, compare_keys a b = Some c.
Proof. intros Ha Hb. rewrite ck_some by assumption. eauto. Qed.

Lemma ge_false_lt k (e : kv) : (8 <= length k)%nat -> (8 <= length (fst e))%nat -> ge_key k e = false -> klt (fst e) k.
Proof.
  intros Hk He H. unfold ge_key in H. destruct (ck_total (fst e) k He Hk) as (c & Hc).
  rewrite Hc in H. destruct c; try discriminate. exact Hc.
Qed.

Lemma lt_ge_false k (e : kv) : klt (fst e) k -> ge_key k e = false.
Proof. unfold klt, ge_key. now intros ->. Qed.

Lemma lt_gt_false k (e : kv) : klt (fst e) k -> gt_key k e = false.
Proof. unfold klt, gt_key. now intros ->. Qed.

Section Seek.
  Variable P : list (list kv).
  Hypothesis Hwf : wf_parts P.
  Let t := tbl_of P.
  Let es := concat P.

  Lemma block_sorted b c : nth_error P b = Some c -> sorted_kv c.
  Proof.
    intros Hb. pose proof (wp_sorted P Hwf) as Hs. rewrite (concat_split_at P b c Hb) in Hs.
    apply sorted_app in Hs as (_ & Hs & _). apply sorted_app in Hs as (Hs & _). exact Hs.
  Qed.

  Lemma before_block_lt b c x y : nth_error P b = Some c -> In x (concat (firstn b P)) -> In y c ->
    klt (fst x) (fst y).
  Proof.
    intros Hb Hx Hy. pose proof (wp_sorted P Hwf) as Hs. rewrite (concat_split_at P b c Hb) in Hs.
    apply sorted_app in Hs as (_ & _ & H). apply H; [exact Hx|]. apply in_or_app. now left.
  Qed.

  Lemma key_len8 x : In x es -> (8 <= length (fst x))%nat.
  Proof.
    intros Hx. unfold es in Hx. apply in_concat in Hx as (c & Hc & Hx).
    pose proof (wp_chunks P Hwf) as H. rewrite Forall_forall in H. destruct (H c Hc) as [_ Hk].
    rewrite Forall_forall in Hk. apply (Hk x Hx).
  Qed.

  Lemma in_block_es b c x : nth_error P b = Some c -> In x c -> In x es.
  Proof. intros Hb Hx. unfold es. apply in_concat. exists c. split; [eapply nth_error_In; eassumption|exact Hx]. Qed.

  Lemma nth0_in c : wf_chunk c -> In (nth 0 c dkv) c.
  Proof. intros H. apply nth_In. now apply chunk_len_pos. Qed.

  (* the binary search over block base keys *)
  Lemma base_search k : (8 <= length k)%nat ->
    exists idx, bsearch (base_probe t k) (length t) 0 (nb t) tt = Some (Z.of_nat idx, tt) /\
      (idx <= length P)%nat /\
      (forall a c, (a < idx)%nat -> nth_error P a = Some c -> bgt k c = false) /\
      (forall a c, (idx <= a)%nat -> nth_error P a = Some c -> bgt k c = true).
  Proof.
    intros Hk.
    set (p := fun h : Z => bgt k (nth (Z.to_nat h) P [])).
    assert (Hprobe: forall (s : unit) h, True -> (0 <= h < Z.of_nat (length P))%Z ->
              exists s', base_probe t k s h = Some (p h, s') /\ True).
    { intros s h _ Hh. unfold base_probe, t, tbl_of. rewrite nth_error_map.
      destruct (nth_error_ex P (Z.to_nat h) ltac:(lia)) as (c & Hc). rewrite Hc. cbn [option_map tb_base].
      pose proof (wf_parts_chunk P _ c Hwf Hc) as Hwc.
      destruct (wf_chunk_key c 0 Hwc (chunk_len_pos c Hwc)) as [Hk8 _].
      destruct (ck_total (ckey c 0) k Hk8 Hk) as (x & Hx). rewrite Hx.
      exists tt. split; [|exact I]. unfold p, bgt, gt_key. rewrite (nth_error_nth _ _ _ Hc).
      fold (ckey c 0). rewrite Hx. destruct x; reflexivity. }
    assert (Hmono: forall a b, (0 <= a <= b)%Z -> (b < Z.of_nat (length P))%Z -> p a = true -> p b = true).
    { intros a b Hab Hb Ha. destruct (Z.eq_dec a b) as [->|Hne]; [exact Ha|].
      destruct (nth_error_ex P (Z.to_nat a) ltac:(lia)) as (ca & Hca).
      destruct (nth_error_ex P (Z.to_nat b) ltac:(lia)) as (cb & Hcb).
      unfold p in *. rewrite (nth_error_nth _ _ _ Hca) in Ha. rewrite (nth_error_nth _ _ _ Hcb).
      pose proof (wf_parts_chunk P _ ca Hwf Hca) as Hwa. pose proof (wf_parts_chunk P _ cb Hwf Hcb) as Hwb.
      assert (Hlt: klt (fst (nth 0 ca dkv)) (fst (nth 0 cb dkv))).
      { apply (before_block_lt (Z.to_nat b) cb); [exact Hcb| |apply nth0_in; exact Hwb].
        apply (in_concat_firstn P (Z.to_nat a) (Z.to_nat b) ca); [exact Hca|lia|apply nth0_in; exact Hwa]. }
      unfold bgt, gt_key in *.
      destruct (wf_chunk_key cb 0 Hwb (chunk_len_pos cb Hwb)) as [Hk8 _]. unfold ckey in Hk8.
      destruct (ck_total _ k Hk8 Hk) as (x & Hx). rewrite Hx.
      destruct x; [| |reflexivity].
      - apply ck_eq in Hx. rewrite Hx in Hlt. unfold klt in Hlt. rewrite Hlt in Ha. discriminate.
      - assert (H: klt (fst (nth 0 ca dkv)) k) by (eapply klt_trans; eassumption).
        unfold klt in H. rewrite H in Ha. discriminate. }
    destruct (bsearch_spec (base_probe t k) (fun _ => True) p 0 (Z.of_nat (length P)) Hprobe Hmono
                (length P) 0%Z (Z.of_nat (length P)) tt I ltac:(lia) ltac:(lia) ltac:(lia)
                ltac:(intros; lia) ltac:(intros; lia)) as (r & s' & H1 & _ & H3 & H4 & H5).
    exists (Z.to_nat r). unfold t at 2 3. rewrite nb_tbl. unfold tbl_of. rewrite map_length. fold (tbl_of P). fold t.
    destruct s'. rewrite Z2Nat.id by lia. split; [exact H1|]. split; [lia|]. split.
    - intros a c Ha Hc. specialize (H4 (Z.of_nat a) ltac:(lia)). unfold p in H4.
      rewrite Nat2Z.id, (nth_error_nth _ _ _ Hc) in H4. exact H4.
    - intros a c Ha Hc. assert (a < length P)%nat by (apply nth_error_Some; congruence).
      specialize (H5 (Z.of_nat a) ltac:(lia)). unfold p in H5.
      rewrite Nat2Z.id, (nth_error_nth _ _ _ Hc) in H5. exact H5.
  Qed.

  (* seekHelper on block b *)
  Lemma seek_helper_ok st b c k : nth_error P b = Some c -> (8 <= length k)%nat ->
    let r1 := find_idx (ge_key k) c in
    exists st', ti_seek_helper t st (Z.of_nat b) k = Some st' /\ ti_bpos st' = Z.of_nat b /\
      ((r1 < length c)%nat -> ti_err st' = ENone /\ AtB c r1 (ti_bi st')) /\
      ((r1 = length c)%nat -> ti_err st' = EEOF /\ BV c (ti_bi st') /\ bi_idx (ti_bi st') = Z.of_nat (length c)).
  Proof.
    intros Hb Hk r1. unfold ti_seek_helper, load_block, t. rewrite (t_block_ok P b c Hb).
    pose proof (wf_parts_chunk P b c Hwf Hb) as Hwc.
    destruct (bi_seek_ok c k (set_block (chunk_blk c)) Hwc (block_sorted b c Hb) Hk (BV_set_block c))
      as (bi & H1 & H2 & H3 & H4 & H5).
    rewrite H1. eexists. split; [reflexivity|]. cbn [ti_bpos ti_err ti_bi]. split; [reflexivity|]. split.
    - intros Hlt. destruct (H4 Hlt) as (A & B & C). unfold bi_err. rewrite A. split; [reflexivity|].
      split; [exact H2|]. split; [exact H3|]. auto.
    - intros Heq. unfold bi_err. rewrite (H5 Heq). split; [reflexivity|]. split; [exact H2|].
      fold r1 in H3. rewrite H3, Heq. reflexivity.
  Qed.

  Theorem seek_from_ok st k : (8 <= length k)%nat ->
    let r := find_idx (ge_key k) es in
    exists st', ti_seek_from t st k = Some st' /\
      ((r < length es)%nat -> At P st' r) /\ ((r = length es)%nat -> EndS P st').
  Proof.
    intros Hk r. unfold ti_seek_from.
    destruct (base_search k Hk) as (idx & Hbs & Hidx & Hlow & Hhigh). rewrite Hbs.
    pose proof (P_len_pos P Hwf) as Hp.
    destruct idx as [|b].
    - (* every block base is > key *)
      cbn [Z.of_nat Z.eqb].
      destruct (nth_error_ex P 0 Hp) as (c & Hc).
      pose proof (wf_parts_chunk P _ c Hwf Hc) as Hwc.
      destruct (seek_helper_ok (mkTI 0 (ti_bi st) ENone) 0 c k Hc Hk) as (st' & H1 & H2 & H3 & H4).
      cbn [Z.of_nat] in H1. rewrite H1.
      assert (Hg: ge_key k (nth 0 c dkv) = true).
      { pose proof (Hhigh 0%nat c ltac:(lia) Hc) as Hb. unfold bgt, gt_key in Hb. unfold ge_key.
        destruct (compare_keys (fst (nth 0 c dkv)) k) as [[]|]; try discriminate; reflexivity. }
      assert (Hr1: find_idx (ge_key k) c = 0%nat).
      { destruct c as [|e0 c']; [destruct Hwc; congruence|]. cbn [nth] in Hg. now apply find_idx_head. }
      assert (Hr: r = 0%nat).
      { unfold r, es. rewrite (concat_split_at P 0 c Hc). cbn [firstn concat app].
        rewrite find_idx_app_in; [exact Hr1|]. rewrite Hr1. now apply chunk_len_pos. }
      exists st'. split; [reflexivity|]. rewrite Hr. split.
      + intros _. destruct (H3 ltac:(rewrite Hr1; now apply chunk_len_pos)) as (A & B).
        rewrite Hr1 in B. change 0%nat with (off P 0 + 0)%nat. apply (At_intro P st' 0 c 0 Hc); auto.
      + intros Heq. exfalso. unfold es in Heq. rewrite (concat_split_at P 0 c Hc) in Heq.
        rewrite !app_length in Heq. pose proof (chunk_len_pos c Hwc). cbn in Heq. lia.
    - (* block b: base <= key; block b+1 (if any): base > key *)
      assert (E0: (Z.of_nat (S b) =? 0)%Z = false) by lia. rewrite E0.
      replace (Z.of_nat (S b) - 1)%Z with (Z.of_nat b) by lia.
      destruct (nth_error_ex P b ltac:(lia)) as (c & Hc).
      pose proof (wf_parts_chunk P _ c Hwf Hc) as Hwc.
      destruct (seek_helper_ok (mkTI 0 (ti_bi st) ENone) b c k Hc Hk) as (st1 & H1 & H2 & H3 & H4).
      rewrite H1.
      (* everything before block b is < key *)
      assert (Hbefore: forall x, In x (concat (firstn b P)) -> ge_key k x = false).
      { intros x Hx. apply lt_ge_false.
        pose proof (before_block_lt b c x (nth 0 c dkv) Hc Hx (nth0_in c Hwc)) as Hlt.
        pose proof (Hlow b c ltac:(lia) Hc) as Hb. unfold bgt, gt_key in Hb.
        destruct (wf_chunk_key c 0 Hwc (chunk_len_pos c Hwc)) as [Hk8 _]. unfold ckey in Hk8.
        destruct (ck_total _ k Hk8 Hk) as (y & Hy). rewrite Hy in Hb.
        destruct y; [| |discriminate].
        - apply ck_eq in Hy. now rewrite <- Hy.
        - eapply klt_trans; eassumption. }
      assert (Hr: r = (off P b + find_idx (ge_key k) (c ++ concat (skipn (S b) P)))%nat).
      { unfold r, es. rewrite (concat_split_at P b c Hc). now rewrite find_idx_app_skip. }
      set (r1 := find_idx (ge_key k) c) in *.
      pose proof (find_idx_le (ge_key k) c) as Hr1le. fold r1 in Hr1le.
      destruct (Nat.eq_dec r1 (length c)) as [Heof|Hin].
      + (* block b exhausted *)
        destruct (H4 Heof) as (A & B & C). rewrite A.
        assert (Hskip: forall x, In x c -> ge_key k x = false) by (apply find_idx_full; exact Heof).
        destruct (Nat.eq_dec (S b) (length P)) as [Hlastb|Hmoreb].
        * assert (E1: (Z.of_nat (S b) =? nb t)%Z = true) by (unfold t; rewrite nb_tbl; lia). rewrite E1.
          exists st1. split; [reflexivity|].
          assert (Hrn: r = length es).
          { rewrite Hr. rewrite find_idx_app_skip by exact Hskip.
            rewrite skipn_all2 by lia. cbn [concat find_idx]. unfold es.
            assert (Hc2: nth_error P (length P - 1) = Some c) by (replace (length P - 1)%nat with b by lia; exact Hc).
            rewrite (off_last P c Hc2 Hp).
            replace (length P - 1)%nat with b by lia. lia. }
          split; [intros Hlt; lia|]. intros _.
          exists c. replace (length P - 1)%nat with b by lia.
          split; [exact Hc|]. split; [exact A|]. split; [exact H2|]. split; [exact B|exact C].
        * assert (E1: (Z.of_nat (S b) =? nb t)%Z = false) by (unfold t; rewrite nb_tbl; lia). rewrite E1.
          destruct (nth_error_ex P (S b) ltac:(lia)) as (c' & Hc').
          pose proof (wf_parts_chunk P _ c' Hwf Hc') as Hwc'.
          destruct (seek_helper_ok st1 (S b) c' k Hc' Hk) as (st2 & G1 & G2 & G3 & G4).
          rewrite G1.
          assert (Hg: ge_key k (nth 0 c' dkv) = true).
          { pose proof (Hhigh (S b) c' ltac:(lia) Hc') as Hb. unfold bgt, gt_key in Hb. unfold ge_key.
            destruct (compare_keys (fst (nth 0 c' dkv)) k) as [[]|]; try discriminate; reflexivity. }
          assert (Hr1': find_idx (ge_key k) c' = 0%nat).
          { destruct c' as [|e0 c'']; [destruct Hwc'; congruence|]. cbn [nth] in Hg. now apply find_idx_head. }
          assert (Hrn: r = off P (S b)).
          { rewrite Hr. rewrite find_idx_app_skip by exact Hskip.
            rewrite (off_S P b c Hc).
            assert (Hsk: skipn (S b) P = c' :: skipn (S (S b)) P).
            { rewrite (skipn_cons_nth P (S b) c') by lia. now rewrite (nth_error_nth _ _ _ Hc'). }
            rewrite Hsk. cbn [concat]. rewrite find_idx_app_in by (rewrite Hr1'; now apply chunk_len_pos).
            rewrite Hr1'. lia. }
          exists st2. split; [reflexivity|]. rewrite Hrn. split.
          -- intros _. destruct (G3 ltac:(rewrite Hr1'; now apply chunk_len_pos)) as (A' & B').
             rewrite Hr1' in B'. rewrite <- (Nat.add_0_r (off P (S b))).
             apply (At_intro P st2 (S b) c' 0 Hc'); auto.
          -- intros Heq. exfalso. pose proof (off_lt P (S b) c' 0 Hc' (chunk_len_pos c' Hwc')).
             unfold es in Heq. lia.
      + (* found inside block b *)
        destruct (H3 ltac:(lia)) as (A & B). rewrite A.
        exists st1. split; [reflexivity|].
        assert (Hrn: r = (off P b + r1)%nat).
        { rewrite Hr. f_equal. apply find_idx_app_in. fold r1. lia. }
        rewrite Hrn. split.
        * intros _. apply (At_intro P st1 b c r1 Hc); auto.
        * intros Heq. exfalso. pose proof (off_lt P b c r1 Hc ltac:(lia)). unfold es in Heq. lia.
  Qed.
End Seek.
