(* SkiplistInst.v — the skiplist model instantiated as skl.Skiplist is used: keys are internal
   keys (bytes), compared with y.CompareKeys, values are y.ValueStruct.
   CompareKeys panics on a key shorter than 8 bytes; ckeys totalises that with Eq, and every
   statement about ckeys is made for keys of at least 8 bytes (wf_ikey) only. *)
From Verif Require Import Bytes Keys Codec Skiplist.

Definition ckeys (a b : bytes) : comparison :=
  match compare_keys a b with Some c => c | None => Eq end.
Definition zero_vs : value_struct := mkVS 0 0 0 [].
Definition wf_ikey (k : bytes) : Prop := (8 <= length k)%nat.

Definition sl := skl bytes value_struct.
Definition s_new : sl := sl_new bytes value_struct [] zero_vs.
Definition s_put := put bytes value_struct ckeys [] zero_vs.
Definition s_put_all := put_all bytes value_struct ckeys [] zero_vs.
Definition s_get := get bytes value_struct ckeys same_key [] zero_vs.
Definition s_find_near := find_near bytes value_struct ckeys [] zero_vs.
Definition s_kof := kof bytes value_struct [] zero_vs.
Definition s_vof := vof bytes value_struct [] zero_vs.
Definition s_level_nodes := level_nodes bytes value_struct [] zero_vs.
Definition s_contents := contents bytes value_struct [] zero_vs.
Definition s_entry := it_entry bytes value_struct [] zero_vs.
Definition s_seek := it_seek bytes value_struct ckeys [] zero_vs.
Definition s_seek_for_prev := it_seek_for_prev bytes value_struct ckeys [] zero_vs.
Definition s_first := it_seek_to_first bytes value_struct [] zero_vs.
Definition s_last := it_seek_to_last bytes value_struct [] zero_vs.
Definition s_next := it_next bytes value_struct [] zero_vs.
Definition s_prev := it_prev bytes value_struct ckeys [] zero_vs.
Definition s_iter_fwd := iter_fwd bytes value_struct [] zero_vs.
Definition s_iter_bwd := iter_bwd bytes value_struct ckeys [] zero_vs.
Definition m_put := sm_put bytes value_struct ckeys.
Definition m_of_puts := sm_of_puts bytes value_struct ckeys.
Definition m_get := sm_get bytes value_struct ckeys same_key.
Definition m_ge := sm_ge bytes value_struct ckeys.
Definition m_gt := sm_gt bytes value_struct ckeys.
Definition m_le := sm_le bytes value_struct ckeys.
Definition m_lt := sm_lt bytes value_struct ckeys.
