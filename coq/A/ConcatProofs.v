(* ConcatProofs.v — ConcatIterator over tables with increasing key ranges implements the list cursor
   over the concatenation of their entries. *)
From Verif Require Import Bytes BytesProofs Uvarint UvarintProofs Keys Codec C20Proofs Block BlockProofs
  Table TableProofs.
From Coq Require Import ZifyN ZifyNat ZifyBool Sorting.Sorted.
Open Scope N_scope.

Definition lastkv (E : list kv) : kv := nth (length E - 1) E dkv.

(* an opened table over partition P (MaxVersion / KeyCount are not read by the iterators) *)
Definition tt_ok (P : list (list kv)) (tt : ttable) : Prop :=
  tt_blocks tt = tbl_of P /\ tt_smallest tt = fst (nth 0 (concat P) dkv) /\
  tt_biggest tt = fst (lastkv (concat P)).

Record wf_tables (Ps : list (list (list kv))) (ts : list ttable) : Prop := {
  wt_parts : Forall wf_parts Ps;
  wt_ts : Forall2 tt_ok Ps ts;
  wt_sorted : sorted_kv (concat (map (@concat kv) Ps)) }.

(* ---- list helpers ---- *)
Lemma set_nth_length {A} (l : list A) i x : length (set_nth l i x) = length l.
Proof. revert i; induction l as [|y l IH]; intros [|i]; cbn; auto. Qed.

Lemma set_nth_same {A} (l : list A) i x : (i < length l)%nat -> nth_error (set_nth l i x) i = Some x.
Proof. revert i; induction l as [|y l IH]; intros [|i] H; cbn in *; try lia; auto. apply IH. lia. Qed.

Lemma Forall2_nth {A B} (R : A -> B -> Prop) la lb j a : Forall2 R la lb -> nth_error la j = Some a ->
  exists b, nth_error lb j = Some b /\ R a b.
Proof.
  intros H. revert j. induction H as [|x y la lb Hxy H IH]; intros [|j] Hj; cbn in Hj; try discriminate.
  - injection Hj as <-. exists y. auto.
  - apply IH. exact Hj.
Qed.

Lemma Forall2_len {A B} (R : A -> B -> Prop) la lb : Forall2 R la lb -> length la = length lb.
Proof. induction 1; cbn; auto. Qed.

Lemma nth_error_ex' {A} (l : list A) b : (b < length l)%nat -> exists c, nth_error l b = Some c.
Proof. intros H. destruct (nth_error l b) eqn:E; [eauto|]. apply nth_error_None in E. lia. Qed.

Lemma find_idx_none {A} (p : A -> bool) l : (forall x, In x l -> p x = false) -> find_idx p l = length l.
Proof.
  induction l as [|x l IH]; intros H; cbn [find_idx length]; [reflexivity|].
  rewrite (H x (or_introl eq_refl)). f_equal. apply IH. intros y Hy. apply H. now right.
Qed.

(* an abstract cursor for the concat iterator: Next on an exhausted iterator dereferences nil *)
Fixpoint ccur_run (rev : bool) (es : list kv) (cur : option nat) (ops : list iop)
  : option (list (option (bytes * value_struct))) :=
  match ops with
  | [] => Some []
  | o :: r =>
      match o, cur with
      | INext, None => None
      | _, _ => let c' := cur_step rev es cur o in
                option_map (cons (cur_obs es c')) (ccur_run rev es c' r)
      end
  end.

Definition ci_step (rev : bool) (ts : list ttable) (s : citer) (o : iop) : option citer :=
  match o with
  | IRewind => ci_Rewind rev ts s
  | ISeek k => ci_Seek rev ts s k
  | INext => ci_Next rev ts s
  end.

Definition ci_obs (s : citer) : option (bytes * value_struct) :=
  if ci_valid s then
    match ci_key s, ci_value s with Some k, Some v => Some (k, v) | _, _ => None end
  else None.

Fixpoint ci_run (rev : bool) (ts : list ttable) (s : citer) (ops : list iop)
  : option (list (option (bytes * value_struct))) :=
  match ops with
  | [] => Some []
  | o :: r => match ci_step rev ts s o with
              | None => None
              | Some s' => option_map (cons (ci_obs s')) (ci_run rev ts s' r)
              end
  end.

Section Concat.
  Variable Ps : list (list (list kv)).
  Variable ts : list ttable.
  Hypothesis Hwf : wf_tables Ps ts.
  Let L := map (@concat kv) Ps.
  Let all := concat L.
  Let m := length Ps.

  Lemma ts_len : length ts = m.
  Proof. symmetry. exact (Forall2_len _ _ _ (wt_ts Ps ts Hwf)). Qed.

  Lemma L_len : length L = m.
  Proof. unfold L. now rewrite map_length. Qed.

  Lemma L_nth j P : nth_error Ps j = Some P -> nth_error L j = Some (concat P).
  Proof. intros H. unfold L. rewrite nth_error_map, H. reflexivity. Qed.

  Lemma Ps_wf j P : nth_error Ps j = Some P -> wf_parts P.
  Proof.
    intros H. pose proof (wt_parts Ps ts Hwf) as Hf. rewrite Forall_forall in Hf. apply Hf.
    eapply nth_error_In; eassumption.
  Qed.

  Lemma ts_nth j P : nth_error Ps j = Some P -> exists tt, nth_error ts j = Some tt /\ tt_ok P tt.
  Proof. intros H. exact (Forall2_nth _ _ _ j P (wt_ts Ps ts Hwf) H). Qed.

  Lemma E_len_pos j P : nth_error Ps j = Some P -> (0 < length (concat P))%nat.
  Proof. intros H. exact (es_len_pos P (Ps_wf j P H)). Qed.

  Lemma cross_lt a b Ea Eb x y : nth_error L a = Some Ea -> nth_error L b = Some Eb -> (a < b)%nat ->
    In x Ea -> In y Eb -> klt (fst x) (fst y).
  Proof.
    intros Ha Hb Hab Hx Hy. pose proof (wt_sorted Ps ts Hwf) as Hs. fold L in Hs.
    rewrite (concat_split_at L b Eb Hb) in Hs. apply sorted_app in Hs as (_ & _ & H).
    apply H; [|apply in_or_app; now left].
    exact (in_concat_firstn L a b Ea x Ha Hab Hx).
  Qed.

  Lemma all_key8 x : In x all -> (8 <= length (fst x))%nat.
  Proof.
    intros Hx. unfold all in Hx. apply in_concat in Hx as (E & HE & Hx). unfold L in HE.
    apply in_map_iff in HE as (P & <- & HP). apply In_nth_error in HP as (j & Hj).
    exact (key_len8 P (Ps_wf j P Hj) x Hx).
  Qed.

  Lemma E_in_all j P x : nth_error Ps j = Some P -> In x (concat P) -> In x all.
  Proof.
    intros Hj Hx. unfold all. apply in_concat. exists (concat P). split; [|exact Hx].
    eapply nth_error_In. apply L_nth. eassumption.
  Qed.

  (* ---- positions ---- *)
  Definition CAt (s : citer) (G : nat) : Prop :=
    exists j P st g, nth_error Ps j = Some P /\ ci_idx s = Z.of_nat j /\
                     nth_error (ci_iters s) j = Some (Some st) /\ At P st g /\ G = (off L j + g)%nat.

  Definition CRel (s : citer) (cur : option nat) : Prop :=
    length (ci_iters s) = m /\
    match cur with Some G => CAt s G | None => ci_cur s = None end.

  Lemma CAt_cur s j st : ci_idx s = Z.of_nat j -> nth_error (ci_iters s) j = Some (Some st) -> ci_cur s = Some st.
  Proof.
    intros Hi Hn. unfold ci_cur. rewrite Hi. assert (E: (Z.of_nat j <? 0)%Z = false) by lia. rewrite E.
    now rewrite Nat2Z.id, Hn.
  Qed.

  Lemma ci_table_at s j P : ci_idx s = Z.of_nat j -> nth_error Ps j = Some P -> ci_table ts s = tbl_of P.
  Proof.
    intros Hi HP. destruct (ts_nth j P HP) as (tt & Htt & (Hb & _)).
    unfold ci_table. now rewrite Hi, Nat2Z.id, Htt.
  Qed.

  Lemma CRel_obs s cur : CRel s cur -> ci_obs s = cur_obs all cur.
  Proof.
    intros (_ & H). destruct cur as [G|]; cbn [cur_obs].
    - destruct H as (j & P & st & g & HP & Hi & Hn & Hat & ->).
      pose proof (Ps_wf j P HP) as HwP.
      pose proof (Rel_obs P HwP false st (Some g) Hat) as Ho. cbn [cur_obs] in Ho.
      destruct (At_entry P st g Hat) as (Hg & _ & _ & He).
      unfold ci_obs, ci_valid, ci_key, ci_value. rewrite (CAt_cur s j st Hi Hn). cbn [option_map].
      unfold it_obs in Ho. unfold ti_valid in *. rewrite He in *.
      unfold all, off. rewrite (nth_error_nth' _ dkv) by (apply (off_lt L j (concat P) g (L_nth j P HP) Hg)).
      rewrite (nth_concat_off L j (concat P) g dkv (L_nth j P HP) Hg).
      rewrite (nth_error_nth' _ dkv Hg) in Ho.
      destruct (ti_value st); [|discriminate]. exact Ho.
    - unfold ci_obs, ci_valid. now rewrite H.
  Qed.

  (* ---- setIdx + a positioning call on the chosen table ---- *)
  Lemma set_idx_in s j : length (ci_iters s) = m -> (j < m)%nat ->
    exists st0, let s1 := ci_set_idx s (Z.of_nat j) in
      ci_idx s1 = Z.of_nat j /\ nth_error (ci_iters s1) j = Some (Some st0) /\ length (ci_iters s1) = m.
  Proof.
    intros Hl Hj. unfold ci_set_idx.
    assert (E: ((Z.of_nat j <? 0) || (zlen (ci_iters s) <=? Z.of_nat j))%Z = false) by (unfold zlen; lia).
    rewrite E, Nat2Z.id.
    destruct (nth_error_ex' (ci_iters s) j ltac:(lia)) as ([st0|] & Hn); rewrite Hn.
    - exists st0. cbn. auto.
    - exists ti_zero. cbn [ci_idx ci_iters]. rewrite set_nth_length, set_nth_same by lia. auto.
  Qed.

  Lemma set_idx_out s j : ((j <? 0) || (Z.of_nat m <=? j))%Z = true -> length (ci_iters s) = m ->
    CRel (ci_set_idx s j) None.
  Proof.
    intros Hj Hl. unfold ci_set_idx, zlen. rewrite Hl, Hj. split; [exact Hl|].
    unfold ci_cur. cbn [ci_idx ci_iters]. destruct (j <? 0)%Z eqn:E; [reflexivity|].
    assert (Hn: nth_error (ci_iters s) (Z.to_nat j) = None) by (apply nth_error_None; lia).
    now rewrite Hn.
  Qed.

  Lemma position_on s j P (f : table -> titer -> option titer) g :
    length (ci_iters s) = m -> nth_error Ps j = Some P ->
    (forall st0, exists st', f (tbl_of P) st0 = Some st' /\ At P st' g) ->
    exists s2, ci_on_cur ts (ci_set_idx s (Z.of_nat j)) f = Some s2 /\ CRel s2 (Some (off L j + g)%nat).
  Proof.
    intros Hl HP Hf.
    assert (Hj: (j < m)%nat) by (apply nth_error_Some; congruence).
    destruct (set_idx_in s j Hl Hj) as (st0 & Hi & Hn & Hl1). cbv zeta in *.
    set (s1 := ci_set_idx s (Z.of_nat j)) in *.
    unfold ci_on_cur. rewrite (CAt_cur s1 j st0 Hi Hn), (ci_table_at s1 j P Hi HP).
    destruct (Hf st0) as (st' & H1 & H2). rewrite H1.
    eexists. split; [reflexivity|]. unfold ci_put. rewrite Hi, Nat2Z.id. split.
    - cbn [ci_iters]. now rewrite set_nth_length.
    - exists j, P, st', g. cbn [ci_idx ci_iters]. rewrite set_nth_same by lia. auto.
  Qed.

  Lemma all_len_split j P : nth_error Ps j = Some P -> length all = (off L j + length (concat P) + length (concat (skipn (S j) L)))%nat.
  Proof.
    intros HP. unfold all. rewrite (concat_split_at L j (concat P) (L_nth j P HP)) at 1.
    rewrite !app_length. unfold off. lia.
  Qed.

  Lemma all_len_last P : nth_error Ps (m - 1) = Some P -> length all = (off L (m - 1) + length (concat P))%nat.
  Proof.
    intros HP. assert (0 < m)%nat by (assert (m - 1 < m)%nat by (apply nth_error_Some; congruence); lia).
    unfold all. rewrite (off_last L (concat P)); rewrite L_len; [reflexivity| |lia].
    now apply L_nth.
  Qed.

  (* ---- Rewind ---- *)
  Lemma crewind_ok rev s : length (ci_iters s) = m ->
    exists s', ci_Rewind rev ts s = Some s' /\ CRel s' (cur_step rev all None IRewind).
  Proof.
    intros Hl. unfold ci_Rewind. rewrite Hl. cbn [cur_step].
    destruct (m =? 0)%nat eqn:Em.
    - (* no tables *)
      apply Nat.eqb_eq in Em. exists s. split; [reflexivity|].
      assert (Hall: all = []).
      { unfold all, L. destruct Ps; [reflexivity|]. unfold m in Em. cbn in Em. lia. }
      rewrite Hall. cbn. split; [exact Hl|].
      unfold ci_cur. destruct (ci_idx s <? 0)%Z; [reflexivity|].
      destruct (ci_iters s); [|cbn in Hl; lia]. now destruct (Z.to_nat (ci_idx s)).
    - apply Nat.eqb_neq in Em.
      assert (Hm: (0 < m)%nat) by lia.
      destruct rev.
      + destruct (nth_error_ex' Ps (m - 1) ltac:(fold m; lia)) as (P & HP).
        unfold zlen. rewrite Hl. replace (Z.of_nat m - 1)%Z with (Z.of_nat (m - 1)) by lia.
        destruct (position_on s (m - 1) P (ti_Rewind true) (length (concat P) - 1) Hl HP) as (s2 & H1 & H2).
        { intros st0. exact (seek_to_last_ok P (Ps_wf _ P HP) st0). }
        exists s2. split; [exact H1|].
        pose proof (E_len_pos _ P HP). pose proof (all_len_last P HP) as Hal.
        assert (En: (length all =? 0)%nat = false) by (apply Nat.eqb_neq; lia). rewrite En.
        replace (length all - 1)%nat with (off L (m - 1) + (length (concat P) - 1))%nat by lia. exact H2.
      + destruct (nth_error_ex' Ps 0 ltac:(fold m; lia)) as (P & HP).
        destruct (position_on s 0 P (ti_Rewind false) 0 Hl HP) as (s2 & H1 & H2).
        { intros st0. exact (seek_to_first_ok P (Ps_wf _ P HP) st0). }
        exists s2. split; [exact H1|].
        pose proof (E_len_pos _ P HP). pose proof (all_len_split 0 P HP) as Hal.
        assert (En: (length all =? 0)%nat = false) by (apply Nat.eqb_neq; lia). rewrite En.
        exact H2.
  Qed.

  (* ---- Next ---- *)
  Lemma cnext_ok rev s G : CRel s (Some G) ->
    exists s', ci_Next rev ts s = Some s' /\ CRel s' (cur_step rev all (Some G) INext).
  Proof.
    intros (Hl & (j & P & st & g & HP & Hi & Hn & Hat & ->)).
    pose proof (Ps_wf j P HP) as HwP.
    assert (Hj: (j < m)%nat) by (apply nth_error_Some; congruence).
    destruct (At_entry P st g Hat) as (Hg & _).
    unfold ci_Next, ci_on_cur. rewrite (CAt_cur s j st Hi Hn), (ci_table_at s j P Hi HP).
    cbn [cur_step].
    destruct rev; cbn [ti_Next].
    - (* reversed: prev *)
      destruct (prev_ok P HwP st g Hat) as (st' & H1 & H2 & H3). rewrite H1.
      set (s1 := ci_put s st').
      assert (Hi1: ci_idx s1 = Z.of_nat j) by exact Hi.
      assert (Hn1: nth_error (ci_iters s1) j = Some (Some st')).
      { unfold s1, ci_put. cbn [ci_iters]. rewrite Hi, Nat2Z.id. apply set_nth_same. lia. }
      assert (Hl1: length (ci_iters s1) = m) by (unfold s1, ci_put; cbn [ci_iters]; now rewrite set_nth_length).
      unfold ci_valid. rewrite (CAt_cur s1 j st' Hi1 Hn1).
      destruct g as [|g].
      + (* first entry of table j: move to table j-1 *)
        destruct (H3 eq_refl) as (He & _). unfold ti_valid. rewrite He.
        cbn [ci_next_loop]. rewrite Hi1.
        destruct j as [|j].
        * rewrite Nat.add_0_r. unfold off. cbn [firstn concat length].
          pose proof (set_idx_out s1 (Z.of_nat 0 - 1) ltac:(lia) Hl1) as (Ho1 & Ho2).
          rewrite Ho2. eexists. split; [reflexivity|]. split; assumption.
        * replace (Z.of_nat (S j) - 1)%Z with (Z.of_nat j) by lia.
          destruct (nth_error_ex' Ps j ltac:(fold m; lia)) as (P' & HP').
          destruct (set_idx_in s1 j Hl1 ltac:(lia)) as (st0 & Hi2 & Hn2 & Hl2). cbv zeta in *.
          rewrite (CAt_cur _ j st0 Hi2 Hn2).
          destruct (position_on s1 j P' (ti_Rewind true) (length (concat P') - 1) Hl1 HP') as (s2 & G1 & G2).
          { intros st1. exact (seek_to_last_ok P' (Ps_wf _ P' HP') st1). }
          rewrite G1.
          assert (Hv: ci_valid s2 = true).
          { destruct G2 as (_ & (j2 & P2 & st2 & g2 & A1 & A2 & A3 & A4 & A5)).
            unfold ci_valid. rewrite (CAt_cur s2 j2 st2 A2 A3). unfold ti_valid.
            destruct (At_entry P2 st2 g2 A4) as (_ & _ & _ & ->). reflexivity. }
          rewrite Hv. exists s2. split; [reflexivity|].
          pose proof (E_len_pos _ P' HP'). pose proof (off_S L j (concat P') (L_nth j P' HP')) as HoS.
          rewrite Nat.add_0_r. destruct (off L (S j)) as [|o] eqn:Eo; [lia|].
          replace o with (off L j + (length (concat P') - 1))%nat by lia. exact G2.
      + rewrite Nat.add_succ_r. unfold ti_valid.
        pose proof (H2 ltac:(lia)) as Hat'. replace (S g - 1)%nat with g in Hat' by lia.
        destruct (At_entry P st' g Hat') as (_ & _ & _ & ->).
        exists s1. split; [reflexivity|]. split; [exact Hl1|].
        exists j, P, st', g. auto.
    - (* forward: next *)
      destruct (next_ok P HwP st g Hat) as (st' & H1 & H2 & H3). rewrite H1.
      set (s1 := ci_put s st').
      assert (Hi1: ci_idx s1 = Z.of_nat j) by exact Hi.
      assert (Hn1: nth_error (ci_iters s1) j = Some (Some st')).
      { unfold s1, ci_put. cbn [ci_iters]. rewrite Hi, Nat2Z.id. apply set_nth_same. lia. }
      assert (Hl1: length (ci_iters s1) = m) by (unfold s1, ci_put; cbn [ci_iters]; now rewrite set_nth_length).
      unfold ci_valid. rewrite (CAt_cur s1 j st' Hi1 Hn1).
      pose proof (all_len_split j P HP) as Hal.
      destruct (Nat.eq_dec (S g) (length (concat P))) as [Hlast|Hmid].
      + (* last entry of table j: move to table j+1 *)
        destruct (H3 Hlast) as (He & _). unfold ti_valid. rewrite He.
        cbn [ci_next_loop]. rewrite Hi1.
        destruct (Nat.eq_dec (S j) m) as [Hlj|Hmj].
        * pose proof (set_idx_out s1 (Z.of_nat j + 1) ltac:(lia) Hl1) as (Ho1 & Ho2).
          rewrite Ho2. eexists. split; [reflexivity|].
          assert (E: (S (off L j + g) <? length all)%nat = false).
          { apply Nat.ltb_ge. rewrite Hal. rewrite skipn_all2 by (rewrite L_len; lia). cbn. lia. }
          rewrite E. split; assumption.
        * replace (Z.of_nat j + 1)%Z with (Z.of_nat (S j)) by lia.
          destruct (nth_error_ex' Ps (S j) ltac:(fold m; lia)) as (P' & HP').
          destruct (set_idx_in s1 (S j) Hl1 ltac:(lia)) as (st0 & Hi2 & Hn2 & Hl2). cbv zeta in *.
          rewrite (CAt_cur _ (S j) st0 Hi2 Hn2).
          destruct (position_on s1 (S j) P' (ti_Rewind false) 0 Hl1 HP') as (s2 & G1 & G2).
          { intros st1. exact (seek_to_first_ok P' (Ps_wf _ P' HP') st1). }
          rewrite G1.
          assert (Hv: ci_valid s2 = true).
          { destruct G2 as (_ & (j2 & P2 & st2 & g2 & A1 & A2 & A3 & A4 & A5)).
            unfold ci_valid. rewrite (CAt_cur s2 j2 st2 A2 A3). unfold ti_valid.
            destruct (At_entry P2 st2 g2 A4) as (_ & _ & _ & ->). reflexivity. }
          rewrite Hv. exists s2. split; [reflexivity|].
          pose proof (E_len_pos _ P' HP'). pose proof (off_S L j (concat P) (L_nth j P HP)) as HoS.
          pose proof (all_len_split (S j) P' HP') as Hal'.
          assert (E: (S (off L j + g) <? length all)%nat = true) by (apply Nat.ltb_lt; lia).
          rewrite E. replace (S (off L j + g)) with (off L (S j) + 0)%nat by lia. exact G2.
      + assert (Hlt: (S g < length (concat P))%nat) by lia.
        pose proof (H2 Hlt) as Hat'. unfold ti_valid.
        destruct (At_entry P st' (S g) Hat') as (_ & _ & _ & ->).
        exists s1. split; [reflexivity|].
        assert (E: (S (off L j + g) <? length all)%nat = true) by (apply Nat.ltb_lt; lia).
        rewrite E. split; [exact Hl1|].
        exists j, P, st', (S g). repeat split; auto; lia.
  Qed.

  Lemma cnext_nil rev s : CRel s None -> ci_Next rev ts s = None.
  Proof. intros (_ & H). unfold ci_Next, ci_on_cur. now rewrite H. Qed.

  (* ---- Seek ---- *)
  Lemma lastkv_in E : (0 < length E)%nat -> In (lastkv E) E.
  Proof. intros H. unfold lastkv. apply nth_In. lia. Qed.

  (* within one table: an entry >= k makes the last entry >= k *)
  Lemma ge_last j P x k : nth_error Ps j = Some P -> In x (concat P) -> ge_key k x = true ->
    ge_key k (lastkv (concat P)) = true.
  Proof.
    intros HP Hx Hg. apply (In_nth _ _ dkv) in Hx as (i & Hi & <-).
    unfold lastkv. apply (ge_key_mono (concat P) k i); [exact (wp_sorted P (Ps_wf j P HP))|lia|lia|exact Hg].
  Qed.

  Lemma cseek_fwd_ok s k : length (ci_iters s) = m -> (8 <= length k)%nat ->
    exists s', ci_Seek false ts s k = Some s' /\
               CRel s' (let r := find_idx (ge_key k) all in if (r <? length all)%nat then Some r else None).
  Proof.
    intros Hl Hk. unfold ci_Seek.
    set (p := fun h : Z => ge_key k (lastkv (nth (Z.to_nat h) L []))).
    assert (Hprobe: forall (u : unit) h, True -> (0 <= h < Z.of_nat m)%Z ->
              exists u', big_probe ts k u h = Some (p h, u') /\ True).
    { intros u h _ Hh. unfold big_probe.
      destruct (nth_error_ex' Ps (Z.to_nat h) ltac:(fold m; lia)) as (P & HP).
      destruct (ts_nth _ P HP) as (tb & Htt & (_ & _ & Hbig)). rewrite Htt, Hbig.
      pose proof (all_key8 _ (E_in_all _ P _ HP (lastkv_in _ (E_len_pos _ P HP)))) as Hk8.
      destruct (ck_total _ k Hk8 Hk) as (x & Hx). rewrite Hx. exists tt. split; [|exact I].
      unfold p. rewrite (nth_error_nth _ _ _ (L_nth _ P HP)). unfold ge_key. rewrite Hx.
      destruct x; reflexivity. }
    assert (Hmono: forall a b, (0 <= a <= b)%Z -> (b < Z.of_nat m)%Z -> p a = true -> p b = true).
    { intros a b Hab Hb Ha. destruct (Z.eq_dec a b) as [->|Hne]; [exact Ha|].
      destruct (nth_error_ex' Ps (Z.to_nat a) ltac:(fold m; lia)) as (Pa & HPa).
      destruct (nth_error_ex' Ps (Z.to_nat b) ltac:(fold m; lia)) as (Pb & HPb).
      unfold p in *. rewrite (nth_error_nth _ _ _ (L_nth _ Pa HPa)) in Ha.
      rewrite (nth_error_nth _ _ _ (L_nth _ Pb HPb)).
      pose proof (cross_lt (Z.to_nat a) (Z.to_nat b) _ _ _ _ (L_nth _ Pa HPa) (L_nth _ Pb HPb) ltac:(lia)
                   (lastkv_in _ (E_len_pos _ Pa HPa)) (lastkv_in _ (E_len_pos _ Pb HPb))) as Hlt.
      destruct (ge_key k (lastkv (concat Pb))) eqn:E; [reflexivity|].
      apply ge_false_lt in E; [|exact Hk|exact (all_key8 _ (E_in_all _ Pb _ HPb (lastkv_in _ (E_len_pos _ Pb HPb))))].
      rewrite (lt_ge_false k _ (klt_trans _ _ _ Hlt E)) in Ha. discriminate. }
    rewrite ts_len. unfold zlen. rewrite ts_len.
    destruct (bsearch_spec (big_probe ts k) (fun _ => True) p 0 (Z.of_nat m) Hprobe Hmono
                m 0%Z (Z.of_nat m) tt I ltac:(lia) ltac:(lia) ltac:(lia)
                ltac:(intros; lia) ltac:(intros; lia)) as (r & u' & H1 & _ & H3 & H4 & H5).
    rewrite H1.
    (* tables before r contain only entries < k *)
    assert (Hbefore: forall j P x, (j < Z.to_nat r)%nat -> nth_error Ps j = Some P -> In x (concat P) ->
                                   ge_key k x = false).
    { intros j P x Hj HP Hx. destruct (ge_key k x) eqn:E; [|reflexivity].
      pose proof (ge_last j P x k HP Hx E) as Hg.
      specialize (H4 (Z.of_nat j) ltac:(lia)). unfold p in H4.
      rewrite Nat2Z.id, (nth_error_nth _ _ _ (L_nth _ P HP)) in H4. congruence. }
    assert (Hskip: forall x, In x (concat (firstn (Z.to_nat r) L)) -> ge_key k x = false).
    { intros x Hx. apply in_concat in Hx as (E & HE & Hx). apply In_nth_error in HE as (j & Hj).
      assert (Hjr: (j < Z.to_nat r)%nat).
      { assert (Hlen: (j < length (firstn (Z.to_nat r) L))%nat) by (apply nth_error_Some; congruence).
        rewrite firstn_length in Hlen. lia. }
      rewrite nth_error_firstn_lt in Hj by exact Hjr.
      unfold L in Hj. rewrite nth_error_map in Hj.
      destruct (nth_error Ps j) as [P|] eqn:HP; [|discriminate]. injection Hj as <-.
      exact (Hbefore j P x Hjr HP Hx). }
    destruct (Z.eq_dec r (Z.of_nat m)) as [Hend|Hin].
    - (* every table's biggest key is < k *)
      assert (E: ((Z.of_nat m <=? r) || (r <? 0))%Z = true) by lia. rewrite E.
      eexists. split; [reflexivity|].
      assert (Hr: find_idx (ge_key k) all = length all).
      { apply find_idx_none.
        intros x Hx. apply Hskip. subst r. rewrite Nat2Z.id, <- L_len, firstn_all. exact Hx. }
      cbv zeta. rewrite Hr, Nat.ltb_irrefl.
      apply set_idx_out; [lia|exact Hl].
    - assert (E: ((Z.of_nat m <=? r) || (r <? 0))%Z = false) by lia. rewrite E.
      destruct (nth_error_ex' Ps (Z.to_nat r) ltac:(fold m; lia)) as (P & HP).
      pose proof (Ps_wf _ P HP) as HwP.
      assert (Hlastge: ge_key k (lastkv (concat P)) = true).
      { specialize (H5 r ltac:(lia)). unfold p in H5. now rewrite (nth_error_nth _ _ _ (L_nth _ P HP)) in H5. }
      set (rl := find_idx (ge_key k) (concat P)).
      assert (Hrl: (rl < length (concat P))%nat).
      { pose proof (find_idx_le (ge_key k) (concat P)) as Hle. fold rl in Hle.
        destruct (Nat.eq_dec rl (length (concat P))) as [Heq|]; [|lia].
        pose proof (find_idx_full _ _ Heq _ (lastkv_in _ (E_len_pos _ P HP))). congruence. }
      replace (ci_set_idx s r) with (ci_set_idx s (Z.of_nat (Z.to_nat r))) by (f_equal; lia).
      destruct (position_on s (Z.to_nat r) P (fun t it => ti_Seek false t it k) rl Hl HP) as (s2 & G1 & G2).
      { intros st0. cbn [ti_Seek]. destruct (seek_from_ok P HwP st0 k Hk) as (st' & A1 & A2 & _).
        exists st'. split; [exact A1|]. apply A2. exact Hrl. }
      exists s2. split; [exact G1|].
      assert (Hr: find_idx (ge_key k) all = (off L (Z.to_nat r) + rl)%nat).
      { unfold all. rewrite (concat_split_at L _ _ (L_nth _ P HP)).
        rewrite find_idx_app_skip by exact Hskip. unfold off. f_equal.
        apply find_idx_app_in. exact Hrl. }
      cbv zeta. rewrite Hr.
      pose proof (off_lt L _ _ rl (L_nth _ P HP) Hrl) as Hlt. fold all in Hlt.
      assert (E2: (off L (Z.to_nat r) + rl <? length all)%nat = true) by (apply Nat.ltb_lt; exact Hlt).
      rewrite E2. exact G2.
  Qed.

  Lemma cseek_rev_ok s k : length (ci_iters s) = m -> (8 <= length k)%nat ->
    exists s', ci_Seek true ts s k = Some s' /\
               CRel s' (match find_idx (gt_key k) all with O => None | S r => Some r end).
  Proof.
    intros Hl Hk. unfold ci_Seek.
    set (p := fun h : Z => negb (gt_key k (nth 0 (nth (m - 1 - Z.to_nat h) L []) dkv))).
    assert (Hfirst_in: forall j P, nth_error Ps j = Some P -> In (nth 0 (concat P) dkv) (concat P)).
    { intros j P HP. apply nth_In. exact (E_len_pos j P HP). }
    assert (Hprobe: forall (u : unit) h, True -> (0 <= h < Z.of_nat m)%Z ->
              exists u', small_probe ts k u h = Some (p h, u') /\ True).
    { intros u h _ Hh. unfold small_probe, zlen. rewrite ts_len.
      replace (Z.to_nat (Z.of_nat m - 1 - h)) with (m - 1 - Z.to_nat h)%nat by lia.
      destruct (nth_error_ex' Ps (m - 1 - Z.to_nat h) ltac:(fold m; lia)) as (P & HP).
      destruct (ts_nth _ P HP) as (tb & Htt & (_ & Hsm & _)). rewrite Htt, Hsm.
      pose proof (all_key8 _ (E_in_all _ P _ HP (Hfirst_in _ P HP))) as Hk8.
      destruct (ck_total _ k Hk8 Hk) as (x & Hx). rewrite Hx. exists tt. split; [|exact I].
      unfold p. rewrite (nth_error_nth _ _ _ (L_nth _ P HP)). unfold gt_key. rewrite Hx.
      destruct x; reflexivity. }
    assert (Hmono: forall a b, (0 <= a <= b)%Z -> (b < Z.of_nat m)%Z -> p a = true -> p b = true).
    { intros a b Hab Hb Ha. destruct (Z.eq_dec a b) as [->|Hne]; [exact Ha|].
      destruct (nth_error_ex' Ps (m - 1 - Z.to_nat a) ltac:(fold m; lia)) as (Pa & HPa).
      destruct (nth_error_ex' Ps (m - 1 - Z.to_nat b) ltac:(fold m; lia)) as (Pb & HPb).
      unfold p in *. rewrite (nth_error_nth _ _ _ (L_nth _ Pa HPa)) in Ha.
      rewrite (nth_error_nth _ _ _ (L_nth _ Pb HPb)).
      pose proof (cross_lt (m - 1 - Z.to_nat b) (m - 1 - Z.to_nat a) _ _ _ _ (L_nth _ Pb HPb) (L_nth _ Pa HPa)
                   ltac:(lia) (Hfirst_in _ Pb HPb) (Hfirst_in _ Pa HPa)) as Hlt.
      pose proof (all_key8 _ (E_in_all _ Pa _ HPa (Hfirst_in _ Pa HPa))) as Hk8.
      unfold gt_key in Ha. destruct (ck_total _ k Hk8 Hk) as (x & Hx). rewrite Hx in Ha.
      assert (Hl2: klt (fst (nth 0 (concat Pb) dkv)) k).
      { destruct x; [apply ck_eq in Hx; now rewrite <- Hx|eapply klt_trans; eassumption|discriminate]. }
      now rewrite (lt_gt_false k _ Hl2). }
    rewrite ts_len. unfold zlen. rewrite ts_len.
    destruct (bsearch_spec (small_probe ts k) (fun _ => True) p 0 (Z.of_nat m) Hprobe Hmono
                m 0%Z (Z.of_nat m) tt I ltac:(lia) ltac:(lia) ltac:(lia)
                ltac:(intros; lia) ltac:(intros; lia)) as (r & u' & H1 & _ & H3 & H4 & H5).
    rewrite H1.
    destruct (Z.eq_dec r (Z.of_nat m)) as [Hend|Hin].
    - (* every table's smallest key is > k *)
      assert (E: ((Z.of_nat m <=? Z.of_nat m - 1 - r) || (Z.of_nat m - 1 - r <? 0))%Z = true) by lia. rewrite E.
      eexists. split; [reflexivity|].
      assert (Hr: find_idx (gt_key k) all = 0%nat).
      { destruct (Nat.eq_dec m 0) as [Em|Em].
        - unfold all, L. destruct Ps; [reflexivity|]. unfold m in Em. cbn in Em. lia.
        - destruct (nth_error_ex' Ps 0 ltac:(fold m; lia)) as (P & HP).
          unfold all. rewrite (concat_split_at L 0 _ (L_nth _ P HP)). cbn [firstn concat app].
          pose proof (E_len_pos _ P HP) as Hpos.
          specialize (H4 (Z.of_nat (m - 1)) ltac:(lia)). unfold p in H4.
          replace (m - 1 - Z.to_nat (Z.of_nat (m - 1)))%nat with 0%nat in H4 by lia.
          rewrite (nth_error_nth _ _ _ (L_nth _ P HP)) in H4. apply negb_false_iff in H4.
          destruct (concat P) as [|e E']; [cbn in Hpos; lia|]. cbn [nth] in H4. cbn [app].
          now apply find_idx_head. }
      rewrite Hr. apply set_idx_out; [lia|exact Hl].
    - assert (E: ((Z.of_nat m <=? Z.of_nat m - 1 - r) || (Z.of_nat m - 1 - r <? 0))%Z = false) by lia. rewrite E.
      set (j := (m - 1 - Z.to_nat r)%nat).
      replace (Z.of_nat m - 1 - r)%Z with (Z.of_nat j) by (unfold j; lia).
      destruct (nth_error_ex' Ps j ltac:(fold m; unfold j; lia)) as (P & HP).
      pose proof (Ps_wf _ P HP) as HwP. pose proof (E_len_pos _ P HP) as Hpos.
      assert (Hfirst: gt_key k (nth 0 (concat P) dkv) = false).
      { specialize (H5 r ltac:(lia)). unfold p in H5. fold j in H5.
        rewrite (nth_error_nth _ _ _ (L_nth _ P HP)) in H5. now apply negb_true_iff in H5. }
      set (rl := find_idx (gt_key k) (concat P)).
      assert (Hrl: (0 < rl)%nat).
      { unfold rl. destruct (concat P) as [|e E']; [cbn in Hpos; lia|]. cbn [nth] in Hfirst.
        cbn [find_idx]. rewrite Hfirst. lia. }
      pose proof (find_idx_le (gt_key k) (concat P)) as Hrle. fold rl in Hrle.
      destruct (position_on s j P (fun t it => ti_Seek true t it k) (rl - 1) Hl HP) as (s2 & G1 & G2).
      { intros st0. cbn [ti_Seek]. destruct (seek_for_prev_ok P HwP st0 k Hk) as (st' & A1 & A2 & _).
        exists st'. split; [exact A1|]. apply A2. exact Hrl. }
      exists s2. split; [exact G1|].
      (* entries of earlier tables are < k *)
      assert (Hfk: klt (fst (nth 0 (concat P) dkv)) k \/ fst (nth 0 (concat P) dkv) = k).
      { pose proof (all_key8 _ (E_in_all _ P _ HP (Hfirst_in _ P HP))) as Hk8.
        unfold gt_key in Hfirst. destruct (ck_total _ k Hk8 Hk) as (x & Hx). rewrite Hx in Hfirst.
        destruct x; [right; now apply ck_eq|left; exact Hx|discriminate]. }
      assert (Hskip: forall x, In x (concat (firstn j L)) -> gt_key k x = false).
      { intros x Hx. apply in_concat in Hx as (E0 & HE & Hx). apply In_nth_error in HE as (j' & Hj').
        assert (Hjr: (j' < j)%nat).
        { assert (Hlen: (j' < length (firstn j L))%nat) by (apply nth_error_Some; congruence).
          rewrite firstn_length in Hlen. lia. }
        rewrite nth_error_firstn_lt in Hj' by exact Hjr.
        pose proof (cross_lt j' j _ _ x _ Hj' (L_nth _ P HP) Hjr Hx (Hfirst_in _ P HP)) as Hlt.
        apply lt_gt_false. destruct Hfk as [Hf|Hf]; [eapply klt_trans; eassumption|now rewrite <- Hf]. }
      assert (Hr: find_idx (gt_key k) all = (off L j + rl)%nat).
      { unfold all. rewrite (concat_split_at L _ _ (L_nth _ P HP)).
        rewrite find_idx_app_skip by exact Hskip. unfold off. f_equal.
        destruct (Nat.eq_dec rl (length (concat P))) as [Hfull|Hpart].
        - rewrite find_idx_app_skip by (apply find_idx_full; exact Hfull). fold rl. rewrite <- Hfull.
          destruct (Nat.eq_dec (S j) m) as [Hlj|Hmj].
          + rewrite skipn_all2 by (rewrite L_len; lia). cbn. lia.
          + destruct (nth_error_ex' Ps (S j) ltac:(fold m; lia)) as (P' & HP').
            rewrite (skipn_cons_nth L (S j) (concat P')) by (rewrite L_len; lia).
            rewrite (nth_error_nth _ _ _ (L_nth _ P' HP')). cbn [concat].
            pose proof (E_len_pos _ P' HP') as Hpos'.
            specialize (H4 (r - 1)%Z ltac:(unfold j in *; lia)). unfold p in H4.
            replace (m - 1 - Z.to_nat (r - 1))%nat with (S j) in H4 by (unfold j; lia).
            rewrite (nth_error_nth _ _ _ (L_nth _ P' HP')) in H4. apply negb_false_iff in H4.
            destruct (concat P') as [|e E']; [cbn in Hpos'; lia|]. cbn [nth] in H4. cbn [app].
            rewrite find_idx_head by exact H4. lia.
        - apply find_idx_app_in. fold rl. lia. }
      rewrite Hr. destruct (off L j + rl)%nat as [|q] eqn:Eq; [lia|].
      replace q with (off L j + (rl - 1))%nat by lia. exact G2.
  Qed.

  Lemma cseek_ok rev s cur k : length (ci_iters s) = m -> (8 <= length k)%nat ->
    exists s', ci_Seek rev ts s k = Some s' /\ CRel s' (cur_step rev all cur (ISeek k)).
  Proof.
    intros Hl Hk. destruct rev; cbn [cur_step].
    - exact (cseek_rev_ok s k Hl Hk).
    - exact (cseek_fwd_ok s k Hl Hk).
  Qed.

  (* ---- the refinement ---- *)
  Lemma crun_rel rev : forall ops s cur, Forall op_ok ops -> CRel s cur ->
    ci_run rev ts s ops = ccur_run rev all cur ops.
  Proof.
    induction ops as [|o ops IH]; intros s cur Hok Hrel; [reflexivity|].
    inversion Hok as [|? ? Ho Hoks]; subst. cbn [ci_run ccur_run].
    assert (Hstep: (o = INext /\ cur = None /\ ci_step rev ts s o = None) \/
                   exists s', ci_step rev ts s o = Some s' /\ CRel s' (cur_step rev all cur o)).
    { destruct o as [|k|]; cbn [ci_step].
      - right. exact (crewind_ok rev s (proj1 Hrel)).
      - right. exact (cseek_ok rev s cur k (proj1 Hrel) Ho).
      - destruct cur as [G|].
        + right. exact (cnext_ok rev s G Hrel).
        + left. repeat split. exact (cnext_nil rev s Hrel). }
    destruct Hstep as [(-> & -> & Hn)|(s' & H1 & H2)].
    - cbn [ci_step] in *. now rewrite Hn.
    - rewrite H1. rewrite (IH s' _ Hoks H2). rewrite (CRel_obs s' _ H2).
      destruct o; try reflexivity. destruct cur; [reflexivity|].
      exfalso. cbn [ci_step] in H1. rewrite (cnext_nil rev s Hrel) in H1. discriminate.
  Qed.

  (* C18_iter (concat): a fresh ConcatIterator over the tables behaves as the list cursor over the
     concatenation of all entries; Next on an exhausted iterator is a nil dereference in both *)
  Theorem concat_iter_refines rev ops : Forall op_ok ops ->
    ci_run rev ts (ci_new (length ts)) ops = ccur_run rev all None ops.
  Proof.
    intros Hok. apply crun_rel; [exact Hok|]. split.
    - unfold ci_new. cbn [ci_iters]. rewrite repeat_length. exact ts_len.
    - reflexivity.
  Qed.
End Concat.
