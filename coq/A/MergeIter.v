(* MergeIter.v — table/merge_iterator.go: MergeIterator (node, setKey, next, rewind, seek, fix,
   bigger, swapSmall, Next, setCurrent, Rewind, Seek, Valid, Key, Value, NewMergeIterator).

   Children that are not MergeIterators (skiplist UniIterator, table Iterator, ConcatIterator,
   ...) are abstract cursors [Leaf rev all rest]: [all] is the content in ascending key order,
   [rest] the entries from the current position on in iteration order ([] = not valid); Rewind
   and Seek position it, Next drops the head, and Next on an exhausted cursor is outside the
   children's contract (Panic: skl.Iterator asserts Valid, ConcatIterator dereferences its nil
   cursor).  The key
   type, the comparison y.CompareKeys ([cmp], None = the Go panic on keys shorter than 8 bytes),
   bytes.Equal ([keqb]) and the nil slice ([knil]) are parameters; corr/CorrC21.v and props/C21.v
   instantiate them with byte strings, Keys.compare_keys, bytes_eqb and [].

   Results: Ok / Panic (a Go run-time panic in CompareKeys) / Fuel (recursion fuel exhausted:
   proved impossible in MergeIterProofs.v; never the reason a theorem holds). *)
From Verif Require Import Bytes.

Inductive res (A : Type) : Type :=
| Ok (a : A)
| Panic
| Fuel.
Arguments Ok {A} a.
Arguments Panic {A}.
Arguments Fuel {A}.

Definition rbind {A B} (x : res A) (f : A -> res B) : res B :=
  match x with Ok a => f a | Panic => Panic | Fuel => Fuel end.
Notation "x <- e ;; f" := (rbind e (fun x => f)) (at level 61, e at next level, right associativity).

Section MergeModel.
Variables K V : Type.
Variable cmp : K -> K -> option comparison.
Variable keqb : K -> K -> bool.
Variable knil : K.

Definition entry : Type := K * V.

(* MergeIterator{left, right node; small *node; curKey []byte; reverse bool} with
   node{valid bool; key []byte; iter y.Iterator} flattened into one constructor *)
Inductive iter :=
| Leaf (rev : bool) (all rest : list entry)
| Merge (rev : bool)
        (lvalid : bool) (lkey : K) (l : iter)
        (rvalid : bool) (rkey : K) (r : iter)
        (small_left : bool) (cur : K).

Record node := mkNode { n_valid : bool; n_key : K; n_it : iter }.
Record mstate := mkM { m_rev : bool; m_left : node; m_right : node; m_small_left : bool; m_cur : K }.

Definition to_iter (m : mstate) : iter :=
  Merge (m_rev m)
        (n_valid (m_left m)) (n_key (m_left m)) (n_it (m_left m))
        (n_valid (m_right m)) (n_key (m_right m)) (n_it (m_right m))
        (m_small_left m) (m_cur m).

(* ---- Valid / Key / Value of any iterator ---- *)
(* MergeIterator.Valid = small.valid, Key = small.key, Value = small.iter.Value() *)
Definition it_valid (it : iter) : bool :=
  match it with
  | Leaf _ _ rest => match rest with [] => false | _ => true end
  | Merge _ lv _ _ rv _ _ sl _ => if sl then lv else rv
  end.

Definition it_key (it : iter) : K :=
  match it with
  | Leaf _ _ rest => match rest with e :: _ => fst e | [] => knil end
  | Merge _ _ lk _ _ rk _ sl _ => if sl then lk else rk
  end.

Fixpoint it_value (it : iter) : option V :=
  match it with
  | Leaf _ _ rest => match rest with e :: _ => Some (snd e) | [] => None end
  | Merge _ _ _ l _ _ r sl _ => if sl then it_value l else it_value r
  end.

(* node.setKey: valid = iter.Valid(); if valid { key = iter.Key() }  (the key stays stale otherwise) *)
Definition node_setkey (n : node) (it' : iter) : node :=
  let v := it_valid it' in mkNode v (if v then it_key it' else n_key n) it'.

(* node.next: iter.Next(); setKey() *)
Definition node_next (cn : iter -> res iter) (n : node) : res node :=
  it' <- cn (n_it n) ;; Ok (node_setkey n it').

Definition m_small (m : mstate) : node := if m_small_left m then m_left m else m_right m.
Definition m_bigger (m : mstate) : node := if m_small_left m then m_right m else m_left m.
Definition swap_small (m : mstate) : mstate :=
  mkM (m_rev m) (m_left m) (m_right m) (negb (m_small_left m)) (m_cur m).
Definition set_right (m : mstate) (n : node) : mstate :=
  mkM (m_rev m) (m_left m) n (m_small_left m) (m_cur m).
Definition set_small (m : mstate) (n : node) : mstate :=
  if m_small_left m then mkM (m_rev m) n (m_right m) true (m_cur m)
  else mkM (m_rev m) (m_left m) n false (m_cur m).

(* MergeIterator.fix; [cn] is Next on a child *)
Definition m_fix (cn : iter -> res iter) (m : mstate) : res mstate :=
  if negb (n_valid (m_bigger m)) then Ok m
  else if negb (n_valid (m_small m)) then Ok (swap_small m)
  else
    match cmp (n_key (m_small m)) (n_key (m_bigger m)) with
    | None => Panic
    | Some Eq =>
        (* same keys: move the right iterator ahead; if right was small, swap *)
        r' <- node_next cn (m_right m) ;;
        let m' := set_right m r' in
        Ok (if m_small_left m then m' else swap_small m')
    | Some Lt => Ok (if m_rev m then swap_small m else m)
    | Some Gt => Ok (if m_rev m then m else swap_small m)
    end.

(* MergeIterator.Next: for mi.Valid() { if !bytes.Equal(small.key, curKey) {break};
   small.next(); fix() }; setCurrent() *)
Fixpoint m_next_loop (cn : iter -> res iter) (fuel : nat) (m : mstate) : res mstate :=
  if n_valid (m_small m) && keqb (n_key (m_small m)) (m_cur m) then
    match fuel with
    | O => Fuel
    | S f =>
        s' <- node_next cn (m_small m) ;;
        m2 <- m_fix cn (set_small m s') ;;
        m_next_loop cn f m2
    end
  else Ok m.

Definition m_set_current (m : mstate) : mstate :=
  mkM (m_rev m) (m_left m) (m_right m) (m_small_left m) (n_key (m_small m)).

(* number of entries not yet consumed, + 1: every loop iteration of Next consumes one *)
Fixpoint remaining (it : iter) : nat :=
  match it with
  | Leaf _ _ rest => length rest
  | Merge _ _ _ l _ _ r _ _ => remaining l + remaining r
  end.

Fixpoint height (it : iter) : nat :=
  match it with
  | Leaf _ _ _ => 1
  | Merge _ _ _ l _ _ r _ _ => S (Nat.max (height l) (height r))
  end.

(* Next on any iterator; [d] bounds the nesting depth of MergeIterators *)
Fixpoint next_d (d : nat) (it : iter) : res iter :=
  match d with
  | O => Fuel
  | S d' =>
      match it with
      | Leaf rv all rest =>
          (* Next on an exhausted child is outside the child's contract (skl.Iterator asserts
             Valid, ConcatIterator dereferences a nil cursor): Panic.  MergeIterator never does
             it (a consequence of the theorems: every call returns Ok). *)
          match rest with
          | [] => Panic
          | _ :: rest' => Ok (Leaf rv all rest')
          end
      | Merge rv lv lk l rvv rk r sl cur =>
          let m := mkM rv (mkNode lv lk l) (mkNode rvv rk r) sl cur in
          m' <- m_next_loop (next_d d') (S (remaining it)) m ;;
          Ok (to_iter (m_set_current m'))
      end
  end.

Definition it_next (it : iter) : res iter := next_d (height it) it.

(* ---- child cursors: Rewind / Seek ---- *)
Definition dir (rv : bool) (l : list entry) : list entry := if rv then rev l else l.

(* c = CompareKeys(entry key, target): the entry lies strictly before the target in iteration order *)
Definition before (rv : bool) (c : comparison) : bool :=
  match c with Lt => negb rv | Gt => rv | Eq => false end.

(* forward: first entry with key >= k; reverse: first (going down) entry with key <= k *)
Fixpoint drop_before (rv : bool) (k : K) (l : list entry) : res (list entry) :=
  match l with
  | [] => Ok []
  | e :: l' =>
      match cmp (fst e) k with
      | None => Panic
      | Some c => if before rv c then drop_before rv k l' else Ok l
      end
  end.

(* MergeIterator.Rewind: left.rewind(); right.rewind(); fix(); setCurrent() *)
Fixpoint it_rewind (it : iter) : res iter :=
  match it with
  | Leaf rv all _ => Ok (Leaf rv all (dir rv all))
  | Merge rv lv lk l rvv rk r sl cur =>
      l' <- it_rewind l ;;
      r' <- it_rewind r ;;
      let m := mkM rv (node_setkey (mkNode lv lk l) l') (node_setkey (mkNode rvv rk r) r') sl cur in
      m' <- m_fix it_next m ;;
      Ok (to_iter (m_set_current m'))
  end.

(* MergeIterator.Seek *)
Fixpoint it_seek (k : K) (it : iter) : res iter :=
  match it with
  | Leaf rv all _ => rest <- drop_before rv k (dir rv all) ;; Ok (Leaf rv all rest)
  | Merge rv lv lk l rvv rk r sl cur =>
      l' <- it_seek k l ;;
      r' <- it_seek k r ;;
      let m := mkM rv (node_setkey (mkNode lv lk l) l') (node_setkey (mkNode rvv rk r) r') sl cur in
      m' <- m_fix it_next m ;;
      Ok (to_iter (m_set_current m'))
  end.

(* ---- NewMergeIterator ---- *)
(* zero-valued nodes, small = &left, curKey = nil *)
Definition new_node2 (rv : bool) (a b : iter) : iter :=
  Merge rv false knil a false knil b true knil.

(* None = the nil iterator returned for no inputs; fuel >= length its suffices *)
Fixpoint new_merge_f (fuel : nat) (rv : bool) (its : list iter) : option iter :=
  match its with
  | [] => None
  | [a] => Some a
  | [a; b] => Some (new_node2 rv a b)
  | _ =>
      match fuel with
      | O => None
      | S f =>
          let mid := Nat.div2 (length its) in
          match new_merge_f f rv (firstn mid its), new_merge_f f rv (skipn mid its) with
          | Some a, Some b => Some (new_node2 rv a b)
          | _, _ => None
          end
      end
  end.

Definition new_merge (rv : bool) (its : list iter) : option iter :=
  new_merge_f (length its) rv its.

(* a fresh (unpositioned) child cursor over a sorted run *)
Definition new_leaf (rv : bool) (l : list entry) : iter := Leaf rv l [].

Definition new_merge_inputs (rv : bool) (inputs : list (list entry)) : option iter :=
  new_merge rv (map (new_leaf rv) inputs).

(* ---- observation and operation sequences ---- *)
Inductive op := OpNext | OpRewind | OpSeek (k : K).

Definition apply_op (o : op) (it : iter) : res iter :=
  match o with
  | OpNext => it_next it
  | OpRewind => it_rewind it
  | OpSeek k => it_seek k it
  end.

Fixpoint run_ops (ops : list op) (it : iter) : res iter :=
  match ops with
  | [] => Ok it
  | o :: ops' => it' <- apply_op o it ;; run_ops ops' it'
  end.

(* for it.Valid() { emit (Key, Value); it.Next() } *)
Fixpoint drain (fuel : nat) (it : iter) : res (list entry) :=
  if it_valid it then
    match fuel with
    | O => Fuel
    | S f =>
        match it_value it with
        | None => Panic (* Value() on a cursor that is not positioned *)
        | Some v =>
            it' <- it_next it ;;
            rest <- drain f it' ;;
            Ok ((it_key it, v) :: rest)
        end
    end
  else Ok [].

Definition drain_all (it : iter) : res (list entry) := drain (S (remaining it)) it.

(* ---- the specification side: sorted union, the copy of the earliest input wins ---- *)
Fixpoint umerge (o : K -> K -> comparison) (l r : list entry) : list entry :=
  match l with
  | [] => r
  | a :: l' =>
      (fix inner (r : list entry) : list entry :=
         match r with
         | [] => l
         | b :: r' =>
             match o (fst a) (fst b) with
             | Lt => a :: umerge o l' r
             | Eq => a :: umerge o l' r'
             | Gt => b :: inner r'
             end
         end) r
  end.

End MergeModel.

Arguments Leaf {K V}.
Arguments Merge {K V}.
Arguments mkNode {K V}.
Arguments n_valid {K V}.
Arguments n_key {K V}.
Arguments n_it {K V}.
Arguments mkM {K V}.
Arguments m_rev {K V}.
Arguments m_left {K V}.
Arguments m_right {K V}.
Arguments m_small_left {K V}.
Arguments m_cur {K V}.
Arguments OpNext {K}.
Arguments OpRewind {K}.
Arguments OpSeek {K}.
