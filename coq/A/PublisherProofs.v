(* PublisherProofs.v — proofs about A/Publisher.v (C32). *)
From Coq Require Import ZifyN ZifyNat ZifyBool.
From Verif Require Import Bytes BytesProofs Keys Trie TrieProofs Publisher.
Open Scope N_scope.

(* ------------------------------------------------------------------ *)
(* Get returns a duplicate-free list                                    *)
Lemma ssorted_lt x l : ssorted (x :: l) -> forall y, In y l -> x < y.
Proof.
  revert x. induction l as [|z r IH]; intros x Hs y Hin; [destruct Hin|].
  inversion Hs as [| |x' z' r' Hxz Hs']. subst. destruct Hin as [->|Hin]; [exact Hxz|].
  specialize (IH z Hs' y Hin). lia.
Qed.

Lemma ssorted_tail x l : ssorted (x :: l) -> ssorted l.
Proof. intros H. inversion H; [constructor|assumption]. Qed.

Lemma ssorted_nodup l : ssorted l -> NoDup l.
Proof.
  induction l as [|x r IH]; intros Hs; constructor.
  - intros Hin. pose proof (ssorted_lt x r Hs x Hin). lia.
  - apply IH. eapply ssorted_tail. exact Hs.
Qed.

Lemma get_nodup key t : NoDup (get key t).
Proof. apply ssorted_nodup. apply norm_ids_ssorted. Qed.

Lemma existsb_eqb_in id l : existsb (N.eqb id) l = true <-> In id l.
Proof.
  rewrite existsb_exists. split.
  - intros [x [Hin Hx]]. apply N.eqb_eq in Hx. subst. exact Hin.
  - intros H. exists id. split; [exact H|apply N.eqb_refl].
Qed.

(* ------------------------------------------------------------------ *)
(* batchedUpdates                                                       *)
Lemma batch_get_add_same id x m : batch_get id (batch_add id x m) = batch_get id m ++ [x].
Proof.
  induction m as [|[i l] r IH]; cbn [batch_add batch_get].
  - rewrite N.eqb_refl. reflexivity.
  - destruct (i =? id) eqn:E; cbn [batch_get]; rewrite E; [reflexivity|exact IH].
Qed.

Lemma batch_get_add_other id i x m : i <> id -> batch_get id (batch_add i x m) = batch_get id m.
Proof.
  intros Hne. induction m as [|[j l] r IH]; cbn [batch_add batch_get].
  - destruct (N.eqb_spec i id); [contradiction|reflexivity].
  - destruct (N.eqb_spec j i) as [E|E]; cbn [batch_get].
    + subst j. destruct (N.eqb_spec i id); [contradiction|reflexivity].
    + destruct (j =? id); [reflexivity|exact IH].
Qed.

Lemma batch_add_keys i x m :
  map fst (batch_add i x m) = if existsb (N.eqb i) (map fst m) then map fst m else map fst m ++ [i].
Proof.
  induction m as [|[j l] r IH]; cbn [batch_add map fst existsb]; [reflexivity|].
  destruct (N.eqb_spec j i) as [E|E].
  - subst j. rewrite N.eqb_refl. reflexivity.
  - destruct (N.eqb_spec i j); [congruence|]. cbn [orb map fst]. rewrite IH.
    destruct (existsb (N.eqb i) (map fst r)); reflexivity.
Qed.

Lemma nodup_snoc (l : list N) x : NoDup l -> ~ In x l -> NoDup (l ++ [x]).
Proof.
  intros H Hn. induction l as [|y r IH]; cbn [app].
  - constructor; [intros []|constructor].
  - inversion H as [|y' r' Hy Hr]. subst. constructor.
    + rewrite in_app_iff. intros [Hin|[Hin|[]]]; [contradiction|]. apply Hn. left. symmetry. exact Hin.
    + apply IH; [exact Hr|]. intros Hin. apply Hn. right. exact Hin.
Qed.

Lemma batch_add_nodup i x m : NoDup (map fst m) -> NoDup (map fst (batch_add i x m)).
Proof.
  intros H. rewrite batch_add_keys. destruct (existsb (N.eqb i) (map fst m)) eqn:E; [exact H|].
  apply nodup_snoc; [exact H|]. intros Hin. apply existsb_eqb_in in Hin. congruence.
Qed.

Lemma batch_get_fold id x ids : forall m, NoDup ids ->
  batch_get id (fold_left (fun m i => batch_add i x m) ids m) =
  batch_get id m ++ (if existsb (N.eqb id) ids then [x] else []).
Proof.
  induction ids as [|i r IH]; intros m Hnd; cbn [fold_left existsb]; [rewrite app_nil_r; reflexivity|].
  inversion Hnd as [|i' r' Hi Hr]. subst. rewrite IH by exact Hr.
  destruct (N.eqb_spec id i) as [E|E]; cbn [orb].
  - subst i. rewrite batch_get_add_same.
    destruct (existsb (N.eqb id) r) eqn:Ex; [apply existsb_eqb_in in Ex; contradiction|].
    rewrite app_nil_r. reflexivity.
  - rewrite batch_get_add_other by congruence. reflexivity.
Qed.

Lemma fold_batch_add_nodup x ids : forall m, NoDup (map fst m) ->
  NoDup (map fst (fold_left (fun m i => batch_add i x m) ids m)).
Proof.
  induction ids as [|i r IH]; intros m H; cbn [fold_left]; [exact H|]. apply IH. apply batch_add_nodup. exact H.
Qed.

(* does the subscriber id get this entry? *)
Definition wants (fx : bool) (t : node) (id : N) (e : pentry) : bool :=
  existsb (N.eqb id) (get (trie_key fx e) t).

Lemma publish_fold fx t id es : forall m,
  batch_get id (fold_left (publish_entry fx t) es m) =
  batch_get id m ++ map kv_of (filter (wants fx t id) es).
Proof.
  induction es as [|e r IH]; intros m; cbn [fold_left filter map]; [rewrite app_nil_r; reflexivity|].
  rewrite IH. unfold publish_entry. rewrite batch_get_fold by apply get_nodup.
  fold (wants fx t id e). destruct (wants fx t id e); cbn [map].
  - rewrite <- app_assoc. reflexivity.
  - rewrite app_nil_r. reflexivity.
Qed.

Lemma publish_fold_nodup fx t es : forall m, NoDup (map fst m) ->
  NoDup (map fst (fold_left (publish_entry fx t) es m)).
Proof.
  induction es as [|e r IH]; intros m H; cbn [fold_left]; [exact H|]. apply IH.
  unfold publish_entry. apply fold_batch_add_nodup. exact H.
Qed.

(* publishUpdates: each subscriber's batch = the entries whose trie lookup contains it, in order,
   once each *)
Lemma publish_updates_spec fx t reqs id :
  batch_get id (publish_updates fx t reqs) = map kv_of (filter (wants fx t id) (concat reqs)).
Proof. unfold publish_updates. rewrite publish_fold. reflexivity. Qed.

(* ------------------------------------------------------------------ *)
(* subscribers <-> live (pattern, id) pairs                             *)
Definition sub_pairs (s : N * list pmatch) : list (path * N) :=
  map (fun m => (mk_path (fst m) (snd m), fst s)) (snd s).
Definition lsubs (subs : list (N * list pmatch)) : list (path * N) := flat_map sub_pairs subs.

Definition pub_inv (p : pub) : Prop :=
  trie_inv (p_trie p) (lsubs (p_subs p)) /\
  NoDup (map fst (p_subs p)) /\
  (forall i, In i (map fst (p_subs p)) -> i < p_next p) /\
  (forall i, In i (map fst (p_recv p)) -> i < p_next p).

Lemma sub_get_in id subs ms : sub_get id subs = Some ms -> In (id, ms) subs.
Proof.
  induction subs as [|[i m] r IH]; cbn [sub_get]; [discriminate|].
  destruct (N.eqb_spec i id); [intros H; inversion H; subst; left; reflexivity|]. intros H. right. apply IH. exact H.
Qed.

Lemma sub_get_none id subs : sub_get id subs = None <-> ~ In id (map fst subs).
Proof.
  induction subs as [|[i m] r IH]; cbn [sub_get map fst In]; [tauto|].
  destruct (N.eqb_spec i id) as [E|E].
  - split; [discriminate|]. intros H. exfalso. apply H. left. exact E.
  - rewrite IH. tauto.
Qed.

Lemma in_sub_get id ms subs : NoDup (map fst subs) -> In (id, ms) subs -> sub_get id subs = Some ms.
Proof.
  induction subs as [|[i m] r IH]; cbn [sub_get map fst]; intros Hnd Hin; [destruct Hin|].
  inversion Hnd as [|i' r' Hi Hr]. subst. destruct Hin as [H|H].
  - inversion H. subst. rewrite N.eqb_refl. reflexivity.
  - destruct (N.eqb_spec i id) as [E|E]; [|apply IH; assumption].
    subst i. exfalso. apply Hi. apply in_map_iff. exists (id, ms). split; [reflexivity|exact H].
Qed.

Lemma in_lsubs p id subs :
  In (p, id) (lsubs subs) <-> exists ms m, In (id, ms) subs /\ In m ms /\ p = mk_path (fst m) (snd m).
Proof.
  unfold lsubs. rewrite in_flat_map. split.
  - intros [[i ms] [Hs Hin]]. unfold sub_pairs in Hin. cbn [fst snd] in Hin. apply in_map_iff in Hin.
    destruct Hin as [m [Hm Hin]]. inversion Hm. subst. exists ms, m. repeat split; assumption.
  - intros [ms [m [Hs [Hm Hp]]]]. exists (id, ms). split; [exact Hs|].
    unfold sub_pairs. cbn [fst snd]. apply in_map_iff. exists m. split; [rewrite Hp; reflexivity|exact Hm].
Qed.

Lemma wants_spec fx p id ms e :
  pub_inv p -> sub_get id (p_subs p) = Some ms ->
  wants fx (p_trie p) id e = sub_matches_key ms (trie_key fx e).
Proof.
  intros [Hinv [Hnd _]] Hs. unfold wants, sub_matches_key.
  apply Bool.eq_true_iff_eq. rewrite existsb_eqb_in. unfold get. rewrite norm_ids_in.
  rewrite (trie_get_spec_inv _ _ _ _ Hinv). rewrite existsb_exists. split.
  - intros [q [Hin Hm]]. apply in_lsubs in Hin. destruct Hin as [ms' [m [Hs' [Hm' Hq]]]].
    rewrite (in_sub_get _ _ _ Hnd Hs') in Hs. inversion Hs. subst ms'. exists m. split; [exact Hm'|].
    rewrite <- Hq. exact Hm.
  - intros [m [Hm Hmatch]]. exists (mk_path (fst m) (snd m)). split; [|exact Hmatch].
    apply in_lsubs. exists ms, m. split; [apply sub_get_in; exact Hs|]. split; [exact Hm|reflexivity].
Qed.

(* ---- the steps preserve the invariant ---- *)
Lemma fold_add_run_tops id ms : forall t,
  fold_left (fun t m => add_match t (fst m) (snd m) id) ms t =
  run_tops t (map (fun m : pmatch => TAdd (fst m) (snd m) id) ms).
Proof. induction ms as [|m r IH]; intros t; cbn [fold_left map run_tops]; [reflexivity|]. apply IH. Qed.

Lemma fold_del_run_tops id ms : forall t,
  fold_left (fun t m => delete_match t (fst m) (snd m) id) ms t =
  run_tops t (map (fun m : pmatch => TDel (fst m) (snd m) id) ms).
Proof. induction ms as [|m r IH]; intros t; cbn [fold_left map run_tops]; [reflexivity|]. apply IH. Qed.

Lemma spec_adds id ms : forall l,
  fold_left spec_top (map (fun m : pmatch => TAdd (fst m) (snd m) id) ms) l = l ++ sub_pairs (id, ms).
Proof.
  unfold sub_pairs. cbn [fst snd].
  induction ms as [|m r IH]; intros l; cbn [map fold_left spec_top]; [rewrite app_nil_r; reflexivity|].
  rewrite IH, <- app_assoc. reflexivity.
Qed.

Definition pair_of_sub (id : N) (ms : list pmatch) (x : path * N) : bool :=
  existsb (fun m => pair_is (mk_path (fst m) (snd m)) id x) ms.

Lemma spec_dels id ms : forall l,
  fold_left spec_top (map (fun m : pmatch => TDel (fst m) (snd m) id) ms) l =
  filter (fun x => negb (pair_of_sub id ms x)) l.
Proof.
  unfold pair_of_sub.
  induction ms as [|m r IH]; intros l; cbn [map fold_left spec_top existsb].
  - induction l as [|x l IHl]; cbn [filter existsb negb] in *; [reflexivity|]. rewrite <- IHl. reflexivity.
  - rewrite IH. clear IH. induction l as [|x l IHl]; cbn [filter]; [reflexivity|].
    destruct (pair_is (mk_path (fst m) (snd m)) id x); cbn [negb orb filter]; [exact IHl|].
    match goal with |- context [negb ?c] => destruct c end; cbn [negb]; rewrite IHl; reflexivity.
Qed.

Lemma filter_sub_pairs_other id ms s : fst s <> id ->
  filter (fun x => negb (pair_of_sub id ms x)) (sub_pairs s) = sub_pairs s.
Proof.
  intros Hne. unfold sub_pairs. induction (snd s) as [|m r IH]; cbn [map filter]; [reflexivity|].
  assert (H : pair_of_sub id ms (mk_path (fst m) (snd m), fst s) = false).
  { unfold pair_of_sub. apply Bool.not_true_is_false. intros H. apply existsb_exists in H.
    destruct H as [m' [_ Hp]]. unfold pair_is in Hp. cbn [fst snd] in Hp.
    apply andb_true_iff in Hp. destruct Hp as [_ Hp]. apply N.eqb_eq in Hp. contradiction. }
  rewrite H. cbn [negb]. rewrite IH. reflexivity.
Qed.

Lemma filter_sub_pairs_self id ms :
  filter (fun x => negb (pair_of_sub id ms x)) (sub_pairs (id, ms)) = [].
Proof.
  unfold sub_pairs. cbn [fst snd].
  assert (H : forall l, (forall m, In m l -> In m ms) ->
     filter (fun x => negb (pair_of_sub id ms x)) (map (fun m : pmatch => (mk_path (fst m) (snd m), id)) l) = []).
  { induction l as [|m r IH]; intros Hsub; cbn [map filter]; [reflexivity|].
    assert (Hp : pair_of_sub id ms (mk_path (fst m) (snd m), id) = true).
    { unfold pair_of_sub. apply existsb_exists. exists m. split; [apply Hsub; left; reflexivity|].
      unfold pair_is. cbn [fst snd]. rewrite path_eqb_refl, N.eqb_refl. reflexivity. }
    rewrite Hp. cbn [negb]. apply IH. intros m' Hm'. apply Hsub. right. exact Hm'. }
  apply H. intros m Hm. exact Hm.
Qed.

Lemma lsubs_remove id ms subs :
  NoDup (map fst subs) -> sub_get id subs = Some ms ->
  filter (fun x => negb (pair_of_sub id ms x)) (lsubs subs) = lsubs (sub_remove id subs).
Proof.
  unfold lsubs, sub_remove.
  induction subs as [|[i m] r IH]; cbn [sub_get map fst flat_map filter]; intros Hnd Hs; [discriminate|].
  inversion Hnd as [|i' r' Hi Hr]. subst. rewrite filter_app.
  destruct (N.eqb_spec i id) as [E|E]; cbn [negb].
  - subst i. inversion Hs. subst m. rewrite filter_sub_pairs_self. cbn [app].
    (* no other subscriber has this id: the rest is untouched *)
    clear IH Hs Hnd. induction r as [|[j mj] r IHr]; cbn [flat_map filter fst]; [reflexivity|].
    cbn [map fst] in Hi, Hr. inversion Hr as [|j' r' Hj Hr']. subst.
    assert (Hne : j <> id) by (intros ->; apply Hi; left; reflexivity).
    destruct (N.eqb_spec j id); [contradiction|]. cbn [negb flat_map].
    rewrite filter_app, (filter_sub_pairs_other id ms (j, mj)) by exact Hne.
    rewrite IHr; [reflexivity| |exact Hr']. intros Hin. apply Hi. right. exact Hin.
  - cbn [flat_map]. rewrite (filter_sub_pairs_other id ms (i, m)) by exact E.
    rewrite IH by assumption. reflexivity.
Qed.

Lemma sub_remove_keys id subs i : In i (map fst (sub_remove id subs)) -> In i (map fst subs).
Proof.
  unfold sub_remove. intros H. apply in_map_iff in H. destruct H as [s [Hs Hin]].
  apply filter_In in Hin. destruct Hin as [Hin _]. apply in_map_iff. exists s. split; assumption.
Qed.

Lemma sub_remove_nodup id subs : NoDup (map fst subs) -> NoDup (map fst (sub_remove id subs)).
Proof.
  unfold sub_remove. induction subs as [|[i m] r IH]; cbn [map fst filter]; intros H; [constructor|].
  inversion H as [|i' r' Hi Hr]. subst. destruct (negb (i =? id)); cbn [map fst].
  - constructor; [|apply IH; exact Hr]. intros Hin. apply Hi. eapply sub_remove_keys. exact Hin.
  - apply IH. exact Hr.
Qed.

Lemma recv_append_keys id l m i :
  In i (map fst (recv_append id l m)) -> i = id \/ In i (map fst m).
Proof.
  induction m as [|[j l0] r IH]; cbn [recv_append map fst In].
  - intros [H|[]]. left. congruence.
  - destruct (j =? id); cbn [map fst In]; [tauto|]. intros [H|H]; [tauto|]. destruct (IH H); tauto.
Qed.

Lemma pub_inv_step fx p ev : pub_inv p -> pub_inv (pstep fx p ev).
Proof.
  intros [Hinv [Hnd [Hlt Hrl]]]. destruct ev as [ms|id|reqs]; cbn [pstep].
  - (* newSubscriber *)
    unfold new_subscriber, pub_inv. cbn [p_trie p_subs p_next p_recv].
    split; [|split; [|split]].
    + rewrite fold_add_run_tops. unfold lsubs. rewrite flat_map_app. cbn [flat_map]. rewrite app_nil_r.
      rewrite <- spec_adds. apply trie_inv_run. exact Hinv.
    + rewrite map_app. cbn [map fst]. apply nodup_snoc; [exact Hnd|].
      intros Hin. specialize (Hlt _ Hin). lia.
    + intros i Hin. rewrite map_app, in_app_iff in Hin. cbn [map fst In] in Hin.
      destruct Hin as [Hin|[Hin|[]]]; [specialize (Hlt _ Hin); lia|lia].
    + intros i Hin. specialize (Hrl _ Hin). lia.
  - (* deleteSubscriber *)
    unfold delete_subscriber. destruct (sub_get id (p_subs p)) as [ms|] eqn:Hs; [|exact (conj Hinv (conj Hnd (conj Hlt Hrl)))].
    unfold pub_inv. cbn [p_trie p_subs p_next p_recv]. split; [|split; [|split]].
    + rewrite fold_del_run_tops, <- (lsubs_remove id ms) by assumption. rewrite <- spec_dels.
      apply trie_inv_run. exact Hinv.
    + apply sub_remove_nodup. exact Hnd.
    + intros i Hin. apply Hlt. eapply sub_remove_keys. exact Hin.
    + exact Hrl.
  - (* publishUpdates *)
    unfold publish, pub_inv. cbn [p_trie p_subs p_next p_recv].
    split; [exact Hinv|]. split; [exact Hnd|]. split; [exact Hlt|].
    generalize (publish_updates fx (p_trie p) reqs). intros bs. revert Hrl. generalize (p_recv p).
    induction bs as [|[j l] bs IH]; intros r Hr; cbn [fold_left fst snd]; [exact Hr|].
    apply IH. destruct (sub_get j (p_subs p)) eqn:Hs; [|exact Hr].
    intros i Hin. apply recv_append_keys in Hin. destruct Hin as [->|Hin]; [|apply Hr; exact Hin].
    apply Hlt. apply sub_get_in in Hs. apply in_map_iff. exists (j, l0). split; [reflexivity|exact Hs].
Qed.

Lemma pub_inv_empty : pub_inv pub_empty.
Proof.
  unfold pub_inv, pub_empty. cbn [p_trie p_subs p_next p_recv lsubs flat_map map].
  split; [apply trie_inv_empty|]. split; [constructor|]. split; intros i [].
Qed.

Lemma pub_inv_run fx evs : forall p, pub_inv p -> pub_inv (run_pub fx p evs).
Proof.
  induction evs as [|e r IH]; intros p H; cbn [run_pub fold_left]; [exact H|]. apply IH. apply pub_inv_step. exact H.
Qed.

(* ---- what a registered subscriber receives ---- *)
Lemma batch_get_recv_append_same id l m : batch_get id (recv_append id l m) = batch_get id m ++ l.
Proof.
  induction m as [|[i l0] r IH]; cbn [recv_append batch_get].
  - rewrite N.eqb_refl. reflexivity.
  - destruct (i =? id) eqn:E; cbn [batch_get]; rewrite E; [reflexivity|exact IH].
Qed.

Lemma batch_get_recv_append_other id i l m : i <> id -> batch_get id (recv_append i l m) = batch_get id m.
Proof.
  intros Hne. induction m as [|[j l0] r IH]; cbn [recv_append batch_get].
  - destruct (N.eqb_spec i id); [contradiction|reflexivity].
  - destruct (N.eqb_spec j i) as [E|E]; cbn [batch_get].
    + subst j. destruct (N.eqb_spec i id); [contradiction|reflexivity].
    + destruct (j =? id); [reflexivity|exact IH].
Qed.

Lemma batch_get_not_in id m : ~ In id (map fst m) -> batch_get id m = [].
Proof.
  induction m as [|[i l] r IH]; cbn [batch_get map fst In]; intros H; [reflexivity|].
  destruct (N.eqb_spec i id); [exfalso; apply H; left; assumption|]. apply IH. intros Hin. apply H. right. exact Hin.
Qed.

Lemma deliver_fold subs id ms bs : forall r,
  sub_get id subs = Some ms -> NoDup (map fst bs) ->
  batch_get id (fold_left (fun r b => match sub_get (fst b) subs with
                                      | Some _ => recv_append (fst b) (snd b) r
                                      | None => r
                                      end) bs r) = batch_get id r ++ batch_get id bs.
Proof.
  induction bs as [|[j l] bs IH]; intros r Hs Hnd; cbn [fold_left batch_get fst snd map]; [rewrite app_nil_r; reflexivity|].
  inversion Hnd as [|j' bs' Hj Hr]. subst. rewrite IH by assumption.
  destruct (N.eqb_spec j id) as [E|E].
  - subst j. rewrite Hs, batch_get_recv_append_same, (batch_get_not_in id bs) by exact Hj.
    rewrite app_nil_r. reflexivity.
  - destruct (sub_get j subs); [rewrite batch_get_recv_append_other by exact E|]; reflexivity.
Qed.

Lemma sub_get_app_l id subs extra ms : sub_get id subs = Some ms -> sub_get id (subs ++ extra) = Some ms.
Proof.
  induction subs as [|[i m] r IH]; cbn [sub_get app]; [discriminate|].
  destruct (i =? id); [tauto|exact IH].
Qed.

Lemma sub_get_remove_other id id' subs : id' <> id -> sub_get id (sub_remove id' subs) = sub_get id subs.
Proof.
  intros Hne. unfold sub_remove. induction subs as [|[i m] r IH]; cbn [filter sub_get fst]; [reflexivity|].
  destruct (N.eqb_spec i id') as [E|E]; cbn [negb sub_get].
  - subst i. destruct (N.eqb_spec id' id); [contradiction|exact IH].
  - destruct (i =? id); [reflexivity|exact IH].
Qed.

Lemma recv_step fx p ev id ms :
  pub_inv p -> sub_get id (p_subs p) = Some ms -> ev <> PUnsub id ->
  sub_get id (p_subs (pstep fx p ev)) = Some ms /\
  batch_get id (p_recv (pstep fx p ev)) =
  batch_get id (p_recv p) ++
  map kv_of (filter (fun e => sub_matches_key ms (trie_key fx e)) (published [ev])).
Proof.
  intros Hinv Hs Hne. destruct ev as [ms'|id'|reqs]; cbn [pstep published].
  - unfold new_subscriber. cbn [p_subs p_recv filter map]. rewrite app_nil_r.
    split; [apply sub_get_app_l; exact Hs|reflexivity].
  - assert (Hid : id' <> id) by congruence.
    unfold delete_subscriber. destruct (sub_get id' (p_subs p)) as [ms'|];
      cbn [p_subs p_recv filter map]; rewrite app_nil_r; [|split; [exact Hs|reflexivity]].
    split; [rewrite sub_get_remove_other by exact Hid; exact Hs|reflexivity].
  - unfold publish. cbn [p_subs p_recv]. split; [exact Hs|]. rewrite app_nil_r.
    rewrite (deliver_fold _ _ ms) by (try exact Hs; unfold publish_updates; apply publish_fold_nodup; constructor).
    rewrite publish_updates_spec. f_equal. f_equal.
    induction (concat reqs) as [|e r IH]; cbn [filter]; [reflexivity|].
    rewrite (wants_spec fx p id ms e Hinv Hs), IH. reflexivity.
Qed.

Lemma published_app a b : published (a ++ b) = published a ++ published b.
Proof.
  induction a as [|e r IH]; cbn [app published]; [reflexivity|].
  destruct e; rewrite IH; [reflexivity|reflexivity|rewrite app_assoc; reflexivity].
Qed.

Lemma recv_run fx evs : forall p id ms,
  pub_inv p -> sub_get id (p_subs p) = Some ms -> Forall (fun e => e <> PUnsub id) evs ->
  batch_get id (p_recv (run_pub fx p evs)) =
  batch_get id (p_recv p) ++
  map kv_of (filter (fun e => sub_matches_key ms (trie_key fx e)) (published evs)).
Proof.
  induction evs as [|ev r IH]; intros p id ms Hinv Hs Hf; cbn [run_pub fold_left].
  - cbn [published filter map]. rewrite app_nil_r. reflexivity.
  - inversion Hf as [|ev' r' Hev Hr]. subst.
    destruct (recv_step fx p ev id ms Hinv Hs Hev) as [Hs' Hrecv].
    change (fold_left (pstep fx) r (pstep fx p ev)) with (run_pub fx (pstep fx p ev) r).
    rewrite (IH _ id ms (pub_inv_step fx p ev Hinv) Hs' Hr), Hrecv.
    change (ev :: r) with ([ev] ++ r). rewrite published_app, filter_app, map_app, app_assoc. reflexivity.
Qed.

(* a subscriber registered in any reachable publisher state receives exactly the entries
   published afterwards whose trie key matches one of its patterns: once each, in order *)
Lemma exactly_once_in_order fx p ms evs :
  pub_inv p ->
  Forall (fun e => e <> PUnsub (p_next p)) evs ->
  batch_get (p_next p) (p_recv (run_pub fx (new_subscriber p ms) evs)) =
  map kv_of (filter (fun e => sub_matches_key ms (trie_key fx e)) (published evs)).
Proof.
  intros Hinv Hf.
  assert (Hs : sub_get (p_next p) (p_subs (new_subscriber p ms)) = Some ms).
  { unfold new_subscriber. cbn [p_subs]. destruct Hinv as [_ [_ [Hlt _]]].
    induction (p_subs p) as [|[i m] r IH]; cbn [sub_get app]; [rewrite N.eqb_refl; reflexivity|].
    destruct (N.eqb_spec i (p_next p)) as [E|E].
    - exfalso. specialize (Hlt i (or_introl eq_refl)). lia.
    - apply IH. intros j Hj. apply Hlt. right. exact Hj. }
  change (new_subscriber p ms) with (pstep fx p (PSub ms)) in *.
  rewrite (recv_run fx evs _ (p_next p) ms (pub_inv_step fx p (PSub ms) Hinv) Hs Hf).
  change (pstep fx p (PSub ms)) with (new_subscriber p ms).
  unfold new_subscriber. cbn [p_recv]. rewrite batch_get_not_in; [reflexivity|].
  destruct Hinv as [_ [_ [_ Hrl]]]. intros Hin. specialize (Hrl _ Hin). lia.
Qed.

(* ------------------------------------------------------------------ *)
(* internal key versus user key (finding F13)                           *)
Lemma matches_app_l p : forall u s, matches p u = true -> matches p (u ++ s) = true.
Proof.
  induction p as [|[b|] p IH]; intros u s; [reflexivity| |]; destruct u as [|x u]; cbn [matches app]; try discriminate.
  - rewrite !andb_true_iff. intros [H1 H2]. split; [exact H1|apply IH; exact H2].
  - apply IH.
Qed.

Lemma matches_app_short p : forall u s, (length p <= length u)%nat -> matches p (u ++ s) = matches p u.
Proof.
  induction p as [|[b|] p IH]; intros u s Hl; [reflexivity| |]; destruct u as [|x u]; cbn [length] in Hl; try lia;
    cbn [matches app]; rewrite IH by lia; reflexivity.
Qed.

Lemma mk_path_length prefix : forall ignore, length (mk_path prefix ignore) = length prefix.
Proof. induction prefix as [|b r IH]; intros ignore; cbn [mk_path length]; [reflexivity|]. rewrite IH. reflexivity. Qed.

Lemma internal_key_split k : (8 <= length k)%nat -> k = parse_key k ++ lastn 8 k.
Proof.
  intros H. unfold parse_key, lastn, dropn_end. destruct (Nat.ltb_spec (length k) 8); [lia|].
  symmetry. apply firstn_skipn.
Qed.

(* every user-key match is also a match of the internal key: nothing is lost *)
Lemma user_match_implies_internal ms k :
  (8 <= length k)%nat -> sub_matches_key ms (parse_key k) = true -> sub_matches_key ms k = true.
Proof.
  intros Hk H. unfold sub_matches_key in *. apply existsb_exists in H. destruct H as [m [Hm Hmatch]].
  apply existsb_exists. exists m. split; [exact Hm|]. rewrite (internal_key_split k Hk). apply matches_app_l. exact Hmatch.
Qed.

(* patterns no longer than the user key cannot see the version bytes *)
Lemma short_patterns_same ms k :
  (8 <= length k)%nat -> (forall m, In m ms -> (length (fst m) <= length (parse_key k))%nat) ->
  sub_matches_key ms k = sub_matches_key ms (parse_key k).
Proof.
  intros Hk Hlen. unfold sub_matches_key. induction ms as [|m r IH]; cbn [existsb]; [reflexivity|].
  rewrite IH by (intros m' Hm'; apply Hlen; right; exact Hm').
  f_equal. rewrite (internal_key_split k Hk) at 1. apply matches_app_short.
  rewrite mk_path_length. apply Hlen. left. reflexivity.
Qed.

Definition spurious_free (ms : list pmatch) (e : pentry) : Prop :=
  sub_matches_key ms (pe_key e) = true -> sub_matches_key ms (parse_key (pe_key e)) = true.

Lemma filter_ext_in {A} (f g : A -> bool) l : (forall x, In x l -> f x = g x) -> filter f l = filter g l.
Proof.
  induction l as [|x r IH]; intros H; cbn [filter]; [reflexivity|].
  rewrite (H x (or_introl eq_refl)), IH; [reflexivity|]. intros y Hy. apply H. right. exact Hy.
Qed.

(* pinned tree, precise condition: no entry whose internal key matches while its user key does not *)
Lemma no_spurious_partial p ms evs :
  pub_inv p -> Forall (fun e => e <> PUnsub (p_next p)) evs ->
  (forall e, In e (published evs) -> (8 <= length (pe_key e))%nat /\ spurious_free ms e) ->
  batch_get (p_next p) (p_recv (run_pub false (new_subscriber p ms) evs)) =
  map kv_of (filter (fun e => sub_matches_key ms (parse_key (pe_key e))) (published evs)).
Proof.
  intros Hinv Hf Hok. rewrite exactly_once_in_order by assumption. f_equal.
  apply filter_ext_in. intros e He. destruct (Hok e He) as [Hk Hsf]. cbn [trie_key].
  destruct (sub_matches_key ms (parse_key (pe_key e))) eqn:Hu.
  - apply user_match_implies_internal; assumption.
  - destruct (sub_matches_key ms (pe_key e)) eqn:Hi; [|reflexivity]. rewrite (Hsf Hi) in Hu. discriminate.
Qed.

(* sufficient syntactic condition: every pattern is no longer than every published user key *)
Lemma no_spurious_short_patterns p ms evs :
  pub_inv p -> Forall (fun e => e <> PUnsub (p_next p)) evs ->
  (forall e, In e (published evs) -> (8 <= length (pe_key e))%nat /\
     forall m, In m ms -> (length (fst m) <= length (parse_key (pe_key e)))%nat) ->
  batch_get (p_next p) (p_recv (run_pub false (new_subscriber p ms) evs)) =
  map kv_of (filter (fun e => sub_matches_key ms (parse_key (pe_key e))) (published evs)).
Proof.
  intros Hinv Hf Hok. apply no_spurious_partial; try assumption.
  intros e He. destruct (Hok e He) as [Hk Hlen]. split; [exact Hk|].
  unfold spurious_free. rewrite (short_patterns_same ms (pe_key e) Hk Hlen). tauto.
Qed.

(* completeness holds on the pinned tree too: the deliveries restricted to user-key matches are
   exactly the user-key matches, once each, in order *)
Lemma filter_filter_impl {A} (f g : A -> bool) l :
  (forall x, In x l -> g x = true -> f x = true) -> filter g (filter f l) = filter g l.
Proof.
  induction l as [|x r IH]; intros H; cbn [filter]; [reflexivity|].
  assert (Hr : filter g (filter f r) = filter g r) by (apply IH; intros y Hy; apply H; right; exact Hy).
  destruct (f x) eqn:Ef; cbn [filter].
  - rewrite Hr. reflexivity.
  - destruct (g x) eqn:Eg; [rewrite (H x (or_introl eq_refl) Eg) in Ef; discriminate|exact Hr].
Qed.

Lemma complete_on_pinned_tree p ms evs :
  pub_inv p -> Forall (fun e => e <> PUnsub (p_next p)) evs ->
  (forall e, In e (published evs) -> (8 <= length (pe_key e))%nat) ->
  exists delivered,
    batch_get (p_next p) (p_recv (run_pub false (new_subscriber p ms) evs)) = map kv_of delivered /\
    filter (fun e => sub_matches_key ms (parse_key (pe_key e))) delivered =
    filter (fun e => sub_matches_key ms (parse_key (pe_key e))) (published evs).
Proof.
  intros Hinv Hf Hk. eexists. split; [apply exactly_once_in_order; assumption|].
  apply filter_filter_impl. intros e He Hu. cbn [trie_key]. apply user_match_implies_internal; [apply Hk; exact He|exact Hu].
Qed.

(* finding F13: subscriber with the single pattern "a\xff" receives the write of user key "a"
   at version 1 (internal key "a" ++ be64(MaxUint64 - 1) = 61 ff ff ff ff ff ff ff fe) *)
Definition w13_entry : pentry := mkPE (key_with_ts [97] 1) [118] 0 0.
Definition w13_ms : list pmatch := [([97; 255], [])].

Lemma no_spurious_refuted :
  exists p ms evs e,
    pub_inv p /\ Forall (fun ev => ev <> PUnsub (p_next p)) evs /\
    In e (published evs) /\ sub_matches_key ms (parse_key (pe_key e)) = false /\
    In (kv_of e) (batch_get (p_next p) (p_recv (run_pub false (new_subscriber p ms) evs))).
Proof.
  exists pub_empty, w13_ms, [PPublish [[w13_entry]]], w13_entry.
  split; [apply pub_inv_empty|]. split; [constructor; [discriminate|constructor]|].
  split; [left; reflexivity|]. split; [vm_compute; reflexivity|]. vm_compute. left. reflexivity.
Qed.

Lemma w13_fixed :
  batch_get 0 (p_recv (run_pub true (new_subscriber pub_empty w13_ms) [PPublish [[w13_entry]]])) = [].
Proof. vm_compute. reflexivity. Qed.
