(* Table.v — table/iterator.go (Iterator, ConcatIterator), table/table.go (Table.block index
   check, Smallest / Biggest / MaxVersion / KeyCount).  Definitions only; proofs in TableProofs.v.

   A table = its index (block base keys, in order) + the parsed blocks.  The flatbuffers index,
   block offsets, compression, encryption, checksums, caches, ref counts are not modelled.
   None = Go panic. *)
From Verif Require Import Bytes Uvarint Keys Codec Block.
Open Scope N_scope.

Record tblock := mkTB { tb_base : bytes; tb_blk : blk }.
Definition table := list tblock.

Inductive terr := ENone | EEOF | EOther.   (* nil / io.EOF / "block out of index" *)

Record titer := mkTI { ti_bpos : Z; ti_bi : biter; ti_err : terr }.
Definition ti_zero : titer := mkTI 0 bi_zero ENone.           (* Table.NewIterator *)

Definition nb (t : table) : Z := zlen t.

(* Table.block(idx): y.AssertTruef(idx >= 0) -> None; idx >= offsetsLength -> Some None (error) *)
Definition t_block (t : table) (idx : Z) : option (option blk) :=
  if (idx <? 0)%Z then None else Some (option_map tb_blk (nth_error t (Z.to_nat idx))).

Definition bi_err (b : biter) : terr := if bi_eof b then EEOF else ENone.

(* the common tail of seekToFirst / seekToLast / seekHelper / next / prev:
   block(bpos); setBlock; <position>; itr.err = itr.bi.Error() *)
Definition load_block (t : table) (it : titer) (bpos : Z) (pos : biter -> option biter) : option titer :=
  match t_block t bpos with
  | None => None
  | Some None => Some (mkTI bpos (ti_bi it) EOther)
  | Some (Some b) =>
      match pos (set_block b) with
      | None => None
      | Some bi' => Some (mkTI bpos bi' (bi_err bi'))
      end
  end.

Definition ti_seek_to_first (t : table) (it : titer) : option titer :=
  if (nb t =? 0)%Z then Some (mkTI (ti_bpos it) (ti_bi it) EEOF)
  else load_block t it 0 bi_first.

Definition ti_seek_to_last (t : table) (it : titer) : option titer :=
  if (nb t =? 0)%Z then Some (mkTI (ti_bpos it) (ti_bi it) EEOF)
  else load_block t it (nb t - 1) bi_last.

Definition ti_seek_helper (t : table) (it : titer) (bidx : Z) (key : bytes) : option titer :=
  load_block t it bidx (fun b => bi_seek b key false).

(* predicate of the sort.Search in seekFrom: CompareKeys(block[idx].key, key) > 0 *)
Definition base_probe (t : table) (key : bytes) (s : unit) (h : Z) : option (bool * unit) :=
  match nth_error t (Z.to_nat h) with
  | None => None                                   (* y.AssertTrue(t.offsets(&ko, idx)) *)
  | Some tb =>
      match compare_keys (tb_base tb) key with
      | None => None
      | Some c => Some (match c with Gt => true | _ => false end, tt)
      end
  end.

(* Iterator.seekFrom(key, origin) *)
Definition ti_seek_from (t : table) (it : titer) (key : bytes) : option titer :=
  let it := mkTI 0 (ti_bi it) ENone in                           (* err = nil; reset() *)
  match bsearch (base_probe t key) (length t) 0 (nb t) tt with
  | None => None
  | Some (idx, _) =>
      if (idx =? 0)%Z then ti_seek_helper t it 0 key
      else
        match ti_seek_helper t it (idx - 1) key with
        | None => None
        | Some it1 =>
            match ti_err it1 with
            | EEOF => if (idx =? nb t)%Z then Some it1 else ti_seek_helper t it1 idx key
            | _ => Some it1
            end
        end
  end.

Definition bi_clear_data (b : biter) : biter :=      (* itr.bi.data = nil *)
  mkBI [] (bi_offs b) (bi_idx b) (bi_eof b) (bi_base b) (bi_key b) (bi_val b) (bi_prev b).

(* Iterator.next — recursive in the code; after `bi.data = nil` the inner call takes one of the
   first two branches, so depth 2 is exact (fuel exhaustion = None would show as a disagreement) *)
Fixpoint ti_next_f (fuel : nat) (t : table) (it : titer) : option titer :=
  match fuel with
  | O => None
  | S f =>
      if (nb t <=? ti_bpos it)%Z then Some (mkTI (ti_bpos it) (ti_bi it) EEOF)
      else if (length (bi_data (ti_bi it)) =? 0)%nat then load_block t it (ti_bpos it) bi_first
      else
        match bi_next (ti_bi it) with
        | None => None
        | Some bi' =>
            if bi_eof bi' then ti_next_f f t (mkTI (ti_bpos it + 1) (bi_clear_data bi') ENone)
            else Some (mkTI (ti_bpos it) bi' ENone)
        end
  end.
Definition ti_next := ti_next_f 2.

Fixpoint ti_prev_f (fuel : nat) (t : table) (it : titer) : option titer :=
  match fuel with
  | O => None
  | S f =>
      if (ti_bpos it <? 0)%Z then Some (mkTI (ti_bpos it) (ti_bi it) EEOF)
      else if (length (bi_data (ti_bi it)) =? 0)%nat then load_block t it (ti_bpos it) bi_last
      else
        match bi_prev_ (ti_bi it) with
        | None => None
        | Some bi' =>
            if bi_eof bi' then ti_prev_f f t (mkTI (ti_bpos it - 1) (bi_clear_data bi') ENone)
            else Some (mkTI (ti_bpos it) bi' ENone)
        end
  end.
Definition ti_prev := ti_prev_f 2.

Definition ti_seek := ti_seek_from.

(* Iterator.seekForPrev *)
Definition ti_seek_for_prev (t : table) (it : titer) (key : bytes) : option titer :=
  match ti_seek_from t it key with
  | None => None
  | Some it1 => if bytes_eqb (bi_key (ti_bi it1)) key then Some it1 else ti_prev t it1
  end.

(* the y.Iterator interface of Iterator; rev = opt & REVERSED != 0 *)
Definition ti_Next (rev : bool) (t : table) (it : titer) := if rev then ti_prev t it else ti_next t it.
Definition ti_Rewind (rev : bool) (t : table) (it : titer) :=
  if rev then ti_seek_to_last t it else ti_seek_to_first t it.
Definition ti_Seek (rev : bool) (t : table) (it : titer) (key : bytes) :=
  if rev then ti_seek_for_prev t it key else ti_seek t it key.
Definition ti_valid (it : titer) : bool := match ti_err it with ENone => true | _ => false end.
Definition ti_key (it : titer) : bytes := bi_key (ti_bi it).
Definition ti_value (it : titer) : option value_struct := vs_decode (bi_val (ti_bi it)).

(* ---------- an opened table: OpenTable / OpenInMemoryTable -> initBiggestAndSmallest ---------- *)
Record ttable := mkTT { tt_blocks : table; tt_smallest : bytes; tt_biggest : bytes;
                        tt_maxv : N; tt_nkeys : N }.

(* the table written for finished blocks [bs] with block checksums [css] (same length) *)
Definition mk_table (bs : list bblock) (css : list bytes) : option table :=
  (fix go (bs : list bblock) (css : list bytes) : option table :=
     match bs, css with
     | [], _ => Some []
     | b :: bs', cs :: css' =>
         match parse_block (block_raw (block_payload b) cs), go bs' css' with
         | Some k, Some r => Some (mkTB (bb_base b) k :: r)
         | _, _ => None
         end
     | _ :: _, [] => None
     end) bs css.

(* None: open panics / fails (empty table, reverse Rewind invalid) *)
Definition open_table (t : table) (maxv nkeys : N) : option ttable :=
  match t with
  | [] => None
  | tb0 :: _ =>
      match ti_Rewind true t ti_zero with
      | None => None
      | Some it => if ti_valid it then Some (mkTT t (tb_base tb0) (ti_key it) maxv nkeys) else None
      end
  end.

(* ---------- ConcatIterator ---------- *)
Record citer := mkCI { ci_idx : Z; ci_iters : list (option titer) }.
Definition ci_new (n : nat) : citer := mkCI (-1) (repeat None n).

Fixpoint set_nth {A} (l : list A) (i : nat) (x : A) : list A :=
  match l, i with
  | [], _ => []
  | _ :: r, O => x :: r
  | y :: r, S i' => y :: set_nth r i' x
  end.

(* s.cur: nil (None) iff idx out of range *)
Definition ci_cur (s : citer) : option titer :=
  if (ci_idx s <? 0)%Z then None
  else match nth_error (ci_iters s) (Z.to_nat (ci_idx s)) with Some (Some it) => Some it | _ => None end.

Definition ci_set_idx (s : citer) (idx : Z) : citer :=
  if ((idx <? 0) || (zlen (ci_iters s) <=? idx))%Z then mkCI idx (ci_iters s)
  else match nth_error (ci_iters s) (Z.to_nat idx) with
       | Some None => mkCI idx (set_nth (ci_iters s) (Z.to_nat idx) (Some ti_zero))
       | _ => mkCI idx (ci_iters s)
       end.

Definition ci_put (s : citer) (it : titer) : citer :=
  mkCI (ci_idx s) (set_nth (ci_iters s) (Z.to_nat (ci_idx s)) (Some it)).

Definition ci_table (ts : list ttable) (s : citer) : table :=
  match nth_error ts (Z.to_nat (ci_idx s)) with Some t => tt_blocks t | None => [] end.

(* apply an Iterator method to s.cur; nil receiver = panic *)
Definition ci_on_cur (ts : list ttable) (s : citer) (f : table -> titer -> option titer) : option citer :=
  match ci_cur s with
  | None => None
  | Some it => match f (ci_table ts s) it with None => None | Some it' => Some (ci_put s it') end
  end.

Definition ci_valid (s : citer) : bool :=
  match ci_cur s with None => false | Some it => ti_valid it end.

Definition ci_Rewind (rev : bool) (ts : list ttable) (s : citer) : option citer :=
  if (length (ci_iters s) =? 0)%nat then Some s
  else
    let s1 := ci_set_idx s (if rev then zlen (ci_iters s) - 1 else 0)%Z in
    ci_on_cur ts s1 (ti_Rewind rev).

Definition big_probe (ts : list ttable) (key : bytes) (s : unit) (h : Z) : option (bool * unit) :=
  match nth_error ts (Z.to_nat h) with
  | None => None
  | Some t =>
      match compare_keys (tt_biggest t) key with
      | None => None
      | Some c => Some (match c with Lt => false | _ => true end, tt)
      end
  end.

Definition small_probe (ts : list ttable) (key : bytes) (s : unit) (h : Z) : option (bool * unit) :=
  match nth_error ts (Z.to_nat (zlen ts - 1 - h)) with
  | None => None
  | Some t =>
      match compare_keys (tt_smallest t) key with
      | None => None
      | Some c => Some (match c with Gt => false | _ => true end, tt)
      end
  end.

Definition ci_Seek (rev : bool) (ts : list ttable) (s : citer) (key : bytes) : option citer :=
  let n := zlen ts in
  match (if rev then
           match bsearch (small_probe ts key) (length ts) 0 n tt with
           | None => None
           | Some (r, _) => Some (n - 1 - r)%Z
           end
         else
           match bsearch (big_probe ts key) (length ts) 0 n tt with
           | None => None
           | Some (r, _) => Some r
           end) with
  | None => None
  | Some idx =>
      if ((n <=? idx) || (idx <? 0))%Z then Some (ci_set_idx s (-1))
      else ci_on_cur ts (ci_set_idx s idx) (fun t it => ti_Seek rev t it key)
  end.

(* the `for` loop of ConcatIterator.Next *)
Fixpoint ci_next_loop (fuel : nat) (rev : bool) (ts : list ttable) (s : citer) : option citer :=
  match fuel with
  | O => None
  | S f =>
      let s1 := ci_set_idx s (if rev then ci_idx s - 1 else ci_idx s + 1)%Z in
      match ci_cur s1 with
      | None => Some s1
      | Some _ =>
          match ci_on_cur ts s1 (ti_Rewind rev) with
          | None => None
          | Some s2 => if ci_valid s2 then Some s2 else ci_next_loop f rev ts s2
          end
      end
  end.

Definition ci_Next (rev : bool) (ts : list ttable) (s : citer) : option citer :=
  match ci_on_cur ts s (ti_Next rev) with
  | None => None
  | Some s1 => if ci_valid s1 then Some s1 else ci_next_loop (S (length ts)) rev ts s1
  end.

Definition ci_key (s : citer) : option bytes := option_map ti_key (ci_cur s).
Definition ci_value (s : citer) : option value_struct :=
  match ci_cur s with None => None | Some it => ti_value it end.
