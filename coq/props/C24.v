(* C24 — Backup and Load round-trip the database, including incremental chains.
   Statements only; proofs are `exact` of lemmas in B/BackupProofs.v / B/StreamWitness.v.
   Vocabulary: `backup_of m r since now ks` = (KVs written, returned version) of DB.Backup(w, since)
   reading the merged view m at ONE read timestamp r with key splits ks; `shown_versions m k since r`
   = the versions of k in m with since < version <= r (not internal), newest first;
   `cut (marker now)` = down to and including the first delete / expired / discard-earlier
   marker; `expand` = the KVs written for them (value dropped when deleted/expired, synthetic
   delete at version-1 after a discard-earlier marker); `load` = DB.Load; `vis` = the MVCC
   specification (Spec.v). *)
From Verif Require Import Bytes Keys Consts Spec Lsm Compact Iter Sys Stream SysStream
  StreamProofs StreamProofs2 BackupProofs StreamWitness Loader LoaderProofs.
From Coq Require Import Sorting.Sorted Permutation ZArith.
Open Scope N_scope.

(* exactly which versions are retained, with value / user meta / expiry / marker bits *)
Theorem C24_retained : forall m r since now ks k,
  view_ok m -> no_empty_key m -> splits_ok [] ks = true ->
  filter (key_is k) (fst (backup_of m r since now ks))
  = expand now (cut (marker now) (shown_versions m k since r)).
Proof. exact backup_retained. Qed.
Print Assumptions C24_retained.

(* Load applies the KVs as plain key@version entries and raises nextTxnTs above all of them *)
Theorem C24_load : forall s kvs, Forall (fun e => e_ver e < max_u64) kvs ->
  s_writes (load s kvs) = s_writes s ++ kvs
  /\ s_db (load s kvs) = apply_entries (s_db s) kvs
  /\ s_next s <= s_next (load s kvs)
  /\ forall e, In e kvs -> e_ver e < s_next (load s kvs).
Proof.
  intros s kvs H. split; [exact (load_writes s kvs)|]. split; [exact (load_db s kvs)|].
  exact (load_next_above s kvs H).
Qed.
Print Assumptions C24_load.

(* ---- KVLoader (backup.go Set / send / Finish, db.go sendToWriteCh), B/Loader.v ----
   `loader_run est vlen maxc maxs flush kvs` = (the batches the write path accepted, in the order
   sent; the batch it rejected with ErrTxnTooBig, None = Load returned nil) for the KV sequence
   kvs of one DB.Load, ANY estimate / value-length functions and ANY limits (maxBatchCount,
   maxBatchSize of the target, flushThreshold). *)

(* Load returned nil: the batches, concatenated, are exactly the KVs in stream order: no KV lost
   at a flush, none duplicated, none reordered *)
Theorem C24_loader_exact : forall (A : Type) (est vlen : A -> Z) (maxc maxs flush : Z) (kvs : list A) bs,
  loader_run est vlen maxc maxs flush kvs = (bs, None) -> concat bs = kvs.
Proof. exact @loader_concat. Qed.
Print Assumptions C24_loader_exact.

(* ErrTxnTooBig: what was written, followed by the rejected batch, is a prefix of the stream *)
Theorem C24_loader_prefix_on_reject : forall (A : Type) (est vlen : A -> Z) (maxc maxs flush : Z) (kvs : list A) bs b,
  loader_run est vlen maxc maxs flush kvs = (bs, Some b) -> exists rest, kvs = concat bs ++ b ++ rest.
Proof. exact @loader_prefix. Qed.
Print Assumptions C24_loader_prefix_on_reject.

(* every batch the loader hands over (the rejected one included) respects the count limit and
   the size limit, unless it is a single entry (or empty); the accepted ones passed the
   admission test of sendToWriteCh *)
Theorem C24_loader_batch_limits : forall (A : Type) (est vlen : A -> Z) (maxc maxs flush : Z) (kvs : list A) bs r,
  loader_run est vlen maxc maxs flush kvs = (bs, r) ->
  (Forall (batch_ok est maxc maxs) bs /\ match r with Some b => batch_ok est maxc maxs b | None => True end)
  /\ Forall (fun b => (blen b < maxc)%Z /\ (batch_size est b < maxs)%Z) bs.
Proof.
  intros A est vlen maxc maxs flush kvs bs r H.
  split; [exact (loader_batches_ok est vlen maxc maxs flush kvs bs r H)|exact (loader_accepted est vlen maxc maxs flush kvs bs r H)].
Qed.
Print Assumptions C24_loader_batch_limits.

(* no batch is rejected when every entry fits a batch of the target on its own (as every entry a
   transaction of a database with the same options could write does) *)
Theorem C24_loader_no_reject : forall (A : Type) (est vlen : A -> Z) (maxc maxs flush : Z),
  (2 <= maxc)%Z -> (0 < maxs)%Z -> forall kvs : list A, (forall kv, In kv kvs -> (est kv < maxs)%Z) ->
  exists bs, loader_run est vlen maxc maxs flush kvs = (bs, None).
Proof. exact @loader_no_error. Qed.
Print Assumptions C24_loader_no_reject.

(* the batch boundaries depend on the KVs only through the projection the estimate is computed
   from (the correspondence evaluates the model on (key length + 8, value length) pairs) *)
Theorem C24_loader_projection : forall (A B : Type) (f : B -> A) (est vlen : A -> Z) (maxc maxs flush : Z) (kvs : list B),
  loader_run est vlen maxc maxs flush (map f kvs)
  = (map (map f) (fst (loader_run (fun x => est (f x)) (fun x => vlen (f x)) maxc maxs flush kvs)),
     option_map (map f) (snd (loader_run (fun x => est (f x)) (fun x => vlen (f x)) maxc maxs flush kvs))).
Proof. exact @loader_run_map. Qed.
Print Assumptions C24_loader_projection.

(* writing the loader's batches one after the other = the model's Load (C24_load), for all limits *)
Theorem C24_load_batched : forall maxc maxs flush thr s kvs bs,
  loader_run (fun e => kv_est thr (ent_kv e)) (fun e => kv_vlen (ent_kv e)) maxc maxs flush kvs = (bs, None) ->
  fold_left apply_entries bs (s_db s) = s_db (load s kvs)
  /\ map (map ent_kv) bs = fst (kv_loader_run maxc maxs flush thr (map ent_kv kvs)).
Proof. exact load_batched. Qed.
Print Assumptions C24_load_batched.
Example C24_loader_ex :
  kv_loader_run 6 614 104857600 32 (expand_runs [(7, (11, 3)); (1, (11, 600)); (2, (700, 0))])%Z
  = ([[(11, 3); (11, 3); (11, 3); (11, 3); (11, 3)]; [(11, 3); (11, 3); (11, 600)]], Some [(700, 0)])%Z.
Proof. exact loader_ex. Qed.

(* reads at any timestamp on the loaded KVs = reads on the retained source versions
   (backup taken at wall-clock nowb, read at now >= nowb) *)
Theorem C24_full : forall m r since nowb now ks k ts,
  view_ok m -> no_empty_key m -> Forall (fun e => 0 < e_ver e) m -> splits_ok [] ks = true ->
  nowb <= now ->
  vis (fst (backup_of m r since nowb ks)) k ts now
  = vis (cut (marker nowb) (shown_versions m k since r)) k ts now.
Proof. exact backup_full. Qed.
Print Assumptions C24_full.
Example C24_full_ex : view_ok w_final /\ no_empty_key w_final /\ Forall (fun e => 0 < e_ver e) w_final.
Proof. split; [exact w_final_view|]. split; repeat constructor; discriminate. Qed.

(* a full backup reproduces every key's visible value, user meta and expiry at the snapshot *)
Theorem C24_full_visible : forall m r nowb now ks k ts,
  view_ok m -> no_empty_key m -> Forall (fun e => 0 < e_ver e) m -> splits_ok [] ks = true ->
  nowb <= now -> r <= ts -> is_prefix c_badgerPrefix k = false ->
  vis (fst (backup_of m r 0 nowb ks)) k ts now = vis m k r now.
Proof. exact backup_full_visible. Qed.
Print Assumptions C24_full_visible.

(* SinceTs is strict: nothing at or below `since` is written, the newest version above it is.
   Hence the returned version must be passed as is (not incremented). *)
Theorem C24_since_strict : forall m r since now ks,
  view_ok m -> no_empty_key m -> splits_ok [] ks = true ->
  (forall x, In x (fst (backup_of m r since now ks)) ->
     exists e, In e m /\ (x = bk_entry now e \/ x = synth_delete e)
               /\ e_ver e <= r /\ (since = 0 \/ since < e_ver e))
  /\ (forall e, In e m -> is_prefix c_badgerPrefix (e_key e) = false ->
        since < e_ver e -> e_ver e <= r ->
        (forall e', In e' m -> e_key e' = e_key e -> e_ver e' <= r -> e_ver e' <= e_ver e) ->
        In (bk_entry now e) (fst (backup_of m r since now ks))).
Proof. exact backup_since_strict. Qed.
Print Assumptions C24_since_strict.
Example C24_since_plus_one_loses :
  snd (backup_of s_m 1 0 100 []) = 1
  /\ fst (backup_of s_m 2 1 100 []) = [mkE g_k 2 0 0 0 (w_v 2)]
  /\ fst (backup_of s_m 2 (1 + 1) 100 []) = [].
Proof. exact since_plus_one_loses. Qed.

(* the returned version is the maximum written, and is at most the snapshot *)
Theorem C24_returned_version : forall m r since now ks,
  view_ok m -> no_empty_key m -> Forall (fun e => 0 < e_ver e) m -> splits_ok [] ks = true ->
  snd (backup_of m r since now ks) <= r
  /\ forall x, In x (fst (backup_of m r since now ks)) -> e_ver x <= snd (backup_of m r since now ks).
Proof. exact backup_ret_spec. Qed.
Print Assumptions C24_returned_version.

(* C24_chain, full statement (FALSE on the code as it is): for every history with backups
   #1..#n where #i+1 is taken with since = the version #i returned, loading the chain into an
   empty DB reproduces the source's visible state at the last backup.
   Refuted twice:
   (F7) backup #1's producers read at different timestamps around a commit; the returned version
        covers a version one producer missed (a behaviour of the system model, label by label);
   (F21) a compaction dropped a deletion marker (and the versions below it) between two
        backups: every hypothesis of the chain theorem below holds except `nothing the backups
        saw was garbage-collected`, and the restored chain shows the deleted key. *)
Theorem C24_chain_refuted :
  exists pre run1 ks out1 ret1 out2 ret2 hist,
    hist = pre ++ run1 ++ [Run (w_cfg (KBackup ret1)) 2 ks out2 ret2]
    /\ fst (xexec w_init hist 0) = None
    /\ splits_ok [] ks = true
    /\ Permutation (map fst (range_outs run1)) (ranges ks)
    /\ out1 = in_range_order ks (range_outs run1) /\ ret1 = max_ver out1
    /\ exists k, vis (s_writes (load (load (init_sys false false 1 1 1) out1) (concat out2))) k 2 100
                 <> vis (end_view hist) k 2 100.
Proof. exact chain_refuted. Qed.
Print Assumptions C24_chain_refuted.

Theorem C24_chain_gc_refuted :
  exists (bs : list (src * N)) W r k pre_compaction params,
    W = compact_filter params pre_compaction
    /\ In (W, r) bs /\ view_ok W /\ is_prefix c_badgerPrefix k = false
    /\ (forall mi ri, In (mi, ri) bs ->
          view_ok mi /\ no_empty_key mi /\ Forall (fun e => 0 < e_ver e) mi /\ ri <= r
          /\ (forall e, In e W -> e_ver e <= ri -> In e mi))
    /\ vis pre_compaction k r 100 = vis W k r 100
    /\ vis (chain_of bs 0 100) k r 100 <> vis W k r 100.
Proof. exact chain_gc_refuted. Qed.
Print Assumptions C24_chain_gc_refuted.

(* Partial: every backup i reads ONE snapshot (view m_i at r_i <= r), every commit <= r_i is
   applied in m_i, nothing at or below r_i that a backup saw is garbage-collected before the
   final view W, the final snapshot (W, r) is one of the backups, backup i+1 uses the version
   backup i returned (`chain_of`): the loaded chain shows the source's visible state at r *)
Theorem C24_chain_partial : forall W r now k, view_ok W -> is_prefix c_badgerPrefix k = false ->
  forall bs now' ts, chain_ok W r bs -> In (W, r) bs -> now <= now' -> r <= ts ->
  vis (chain_of bs 0 now) k ts now' = vis W k r now'.
Proof. exact chain_visible. Qed.
Print Assumptions C24_chain_partial.
Example C24_chain_partial_ex : chain_ok s_m 2 [(s_m, 1); (s_m, 2)] /\ In (s_m, 2) [(s_m, 1); (s_m, 2)].
Proof.
  split; [|right; now left].
  intros mi ri [[= <- <-]|[[= <- <-]|[]]]; (split; [solve_view|]); (split; [repeat constructor; discriminate|]);
    (split; [repeat constructor|]); (split; [lia|]); split; auto.
Qed.
