(* C26 — StreamWriter builds exactly the streamed database.
   Statements only; proofs in B/StreamWriterProofs.v over the model B/StreamWriter.v
   (stream_writer.go Prepare / PrepareIncremental / Write / sortedWriter.Add / Flush,
   level_handler.go sortTables, util.go validate, as coded).

   Full statement (kept visible): for sorted, pairwise non-overlapping streams, any batching
   and any interleaving of the streams across Write calls, the database after Flush holds
   exactly the streamed entries (plus the pre-existing data in incremental mode), every
   stream's order is kept, tables are cut only between different user keys, the target level
   is sorted and disjoint (else Flush returns the validation error — never silent
   acceptance), and the next transaction timestamp is above every streamed version.
   Proved below for ALL inputs the implementation does not panic on (the model makes the
   panics explicit: an unsorted stream, a write on a closed stream).  What is observed, not
   computed: the byte-size criterion that decides WHERE a stream is cut into tables (the
   rule for the cuts is checked), the compactions of the Flatten inside PrepareIncremental.
   Incremental runs build the layout of finding F11 (non-empty level above the base level);
   its witness through the public API runs with every check of this property.
   Where a streamed VALUE is stored (inline or behind a value pointer) is the placement layer
   B/StreamWriterPlace.v, at the end of this file: the sorted writer places every value where
   valueLog.write put it, for every behaviour of the dynamic threshold (VLogPercentile > 0)
   between the two consultations, hence every streamed value, user meta and expiry is read
   back unchanged. *)
From Verif Require Import Bytes Keys Consts Spec Lsm Compact Iter Sys Drop StreamWriter.
From Verif Require LsmProofs CompactProofs GetProofs MergeProofs C12Proofs DropProofs StreamWriterProofs.
From Verif Require Codec LogRecord Threshold VlogWrite VlogWriteProofs StreamWriterPlace StreamWriterPlaceProofs.
Open Scope N_scope.
Import CompactProofs GetProofs StreamWriterProofs.

(* per stream: after any sequence of Write calls (any batching, any interleaving) the
   stream's writer holds exactly the stream's entries, in arrival order *)
Theorem C26_stream_order : forall writes st,
  sw_writes (mkSWS [] 0) writes = Some st ->
  forall sid, wents (sw_writers st) sid = stream_ents sid (concat writes).
Proof. exact StreamWriterProofs.sw_run_ents. Qed.
Print Assumptions C26_stream_order.

(* a run that does not panic has only strictly increasing streams (CompareKeys order) *)
Theorem C26_streams_sorted : forall writes st,
  sw_writes (mkSWS [] 0) writes = Some st -> writers_sorted (sw_writers st).
Proof. exact StreamWriterProofs.sw_run_sorted. Qed.
Print Assumptions C26_streams_sorted.

(* the tables of a stream: nothing lost, none empty, cut only between different user keys *)
Theorem C26_table_cuts : forall s layout,
  cut_ok s layout = true ->
  concat (map t_ents (split_counts s layout)) = s /\
  (forall t, In t (split_counts s layout) -> t_ents t <> []) /\
  (forall id n r x y, layout = (id, n) :: r ->
     last_ent (firstn (N.to_nat n) s) = Some x -> hd_error (skipn (N.to_nat n) s) = Some y ->
     e_key x <> e_key y).
Proof.
  intros s layout H. split; [exact (StreamWriterProofs.cut_ok_concat s layout H)|split].
  - intros t Ht. exact (StreamWriterProofs.cut_ok_tables s layout t H Ht).
  - intros id n r x y E. subst layout. exact (StreamWriterProofs.cut_ok_boundary s id n r x y H).
Qed.
Print Assumptions C26_table_cuts.

(* the whole run: contents, validation, timestamps *)
Theorem C26_contents : forall s incr flat writes layouts orders r next s' tags,
  stream_write s incr flat writes layouts orders r next = SWOk s' tags ->
  (incr && has_mem_data (s_db s)) = false ->
  exists ls1 st newt,
    run_flatten (sw_start s incr) flat = (0, ls1) /\
    sw_writes (mkSWS [] 0) writes = Some st /\
    build_tables (sw_writers st) layouts = Some newt /\
    (sw_target incr (sw_start s incr) < length ls1)%nat /\
    l_levels (s_db s') = map sort_tables (set_level ls1 (sw_target incr (sw_start s incr))
                                             (nth (sw_target incr (sw_start s incr)) ls1 [] ++ newt)) /\
    (forall x, In x (all_entries (s_db s')) <-> In x (levels_entries ls1) \/ In x (all_skv (concat writes))) /\
    (r = 0 <-> levels_valid (l_levels (s_db s')) = true) /\
    (r = 0 \/ r = 8) /\
    (s_managed s = false -> forall e, In e (all_skv (concat writes)) -> e_ver e < s_next s').
Proof. exact StreamWriterProofs.stream_write_spec. Qed.
Print Assumptions C26_contents.

(* Prepare: the run starts from the empty tree, so the database is exactly the streams *)
Theorem C26_prepare_starts_empty : forall s, levels_entries (sw_start s false) = [].
Proof. intros s. exact (DropProofs.levels_srcs_empty 0 (l_levels (s_db s))). Qed.
Print Assumptions C26_prepare_starts_empty.

(* an accepted Flush leaves every level >= 1 one strictly increasing run of sorted tables *)
Theorem C26_levels_valid : forall s incr flat writes layouts orders r next s' tags ls1,
  stream_write s incr flat writes layouts orders r next = SWOk s' tags ->
  (incr && has_mem_data (s_db s)) = false ->
  run_flatten (sw_start s incr) flat = (0, ls1) -> tables_ok ls1 ->
  r = 0 -> forall lvl, (1 <= lvl)%nat -> level_ok (nth lvl (l_levels (s_db s')) []).
Proof. exact StreamWriterProofs.stream_write_levels_ok. Qed.
Print Assumptions C26_levels_valid.

(* validate, by itself: sorted non-empty tables that pass it form one sorted run *)
Theorem C26_validate_sound : forall l,
  Forall (fun t => sorted (t_ents t)) l -> Forall (fun t => t_ents t <> []) l ->
  level_valid l = true -> level_ok l.
Proof. exact StreamWriterProofs.level_valid_sorted. Qed.
Print Assumptions C26_validate_sound.

(* next timestamp (normal mode): above every streamed version *)
Theorem C26_next_ts : forall s incr flat writes layouts orders r next s' tags,
  stream_write s incr flat writes layouts orders r next = SWOk s' tags ->
  (incr && has_mem_data (s_db s)) = false -> s_managed s = false ->
  forall e, In e (all_skv (concat writes)) -> e_ver e < s_next s'.
Proof.
  intros s incr flat writes layouts orders r next s' tags H Hm Hman.
  destruct (StreamWriterProofs.stream_write_spec _ _ _ _ _ _ _ _ _ _ H Hm) as (? & ? & ? & _ & _ & _ & _ & _ & _ & _ & _ & T).
  exact (T Hman).
Qed.
Print Assumptions C26_next_ts.

(* hypotheses satisfiable: two interleaved Write calls over two streams, Prepare mode, one
   stream cut into two tables; and overlapping streams are answered with the validation error *)
Definition c26_ex_sys : sys := init_sys false true 1 4 1.
Definition c26_ex_writes : list (list sitem) :=
  [[SKV 1 (mkE [97] 3 0 0 0 [1]); SKV 2 (mkE [109] 2 0 0 0 [2])];
   [SKV 1 (mkE [97] 2 0 0 0 [3]); SKV 1 (mkE [98] 5 0 0 0 [4]); SDone 1; SKV 2 (mkE [110] 7 0 0 0 [5])]].
Example C26_accepted_run :
  exists s' tags,
    stream_write c26_ex_sys false [] c26_ex_writes [(1, [(1, 2); (2, 1)]); (2, [(3, 2)])] [[]; []; []; [1; 2; 3]] 0 8
    = SWOk s' tags /\ s_next s' = 8.
Proof. eexists. eexists. split; [vm_compute; reflexivity|reflexivity]. Qed.
Example C26_overlap_rejected :
  exists s' tags,
    stream_write c26_ex_sys false []
      [[SKV 1 (mkE [97] 1 0 0 0 []); SKV 1 (mkE [99] 1 0 0 0 []); SKV 2 (mkE [98] 1 0 0 0 [])]]
      [(1, [(1, 2)]); (2, [(2, 1)])] [[]; []; []; [1; 2]] 8 2 = SWOk s' tags
    /\ levels_valid (l_levels (s_db s')) = false.
Proof. eexists. eexists. split; [vm_compute; reflexivity|reflexivity]. Qed.

(* ---- placement of the streamed values; dynamic value threshold ---- *)
(* an entry on the StreamWriter path is consulted twice — StreamWriter.Write -> valueLog.write,
   then sortedWriter.handleRequests — and these are the decisions Threshold.decisions (the
   function of C06_threshold_consistent) takes along the thresholds in force at the two moments *)
Theorem C26_placement_decisions : forall vlen t_vlog t_sorted,
  Threshold.decisions vlen 0 [t_vlog; t_sorted] =
  [StreamWriterPlace.sw_vlog_skip vlen t_vlog t_sorted; StreamWriterPlace.sw_inline vlen t_vlog t_sorted].
Proof. exact StreamWriterPlaceProofs.sw_decisions_list. Qed.
Print Assumptions C26_placement_decisions.

(* for every value length and every pair of live thresholds: the sorted writer's placement
   decision is valueLog.write's decision (the threshold cached at the first consultation) *)
Theorem C26_placement_consistent : forall vlen t_vlog t_sorted, (t_vlog <> 0)%Z ->
  StreamWriterPlace.sw_decisions vlen t_vlog t_sorted = ((vlen <? t_vlog)%Z, (vlen <? t_vlog)%Z).
Proof. exact StreamWriterPlaceProofs.sw_placement_consistent. Qed.
Print Assumptions C26_placement_consistent.

(* and with no hypothesis on the thresholds (ValueThreshold = 0 caches nothing): a value that
   valueLog.write did not write to the value log is never stored as a value pointer *)
Theorem C26_skipped_value_is_inline : forall vlen t_vlog t_sorted, (0 <= vlen)%Z ->
  StreamWriterPlace.sw_vlog_skip vlen t_vlog t_sorted = true ->
  StreamWriterPlace.sw_inline vlen t_vlog t_sorted = true.
Proof. exact StreamWriterPlaceProofs.sw_skip_inline. Qed.
Print Assumptions C26_skipped_value_is_inline.

Section StreamedValues.
  (* value-log file cipher, IVs, headers, rotation limits: arbitrary, as in C06 *)
  Variable encrypted : bool.
  Variable xs : bytes -> bytes -> bytes.
  Variable iv_of hdr_of : N -> bytes.
  Variable file_size max_entries : N.
  Hypothesis xs_len : forall iv d, length (xs iv d) = length d.
  Hypothesis xs_invol : forall iv d, xs iv (xs iv d) = d.
  Hypothesis xs_stream : forall iv a b, firstn (length a) (xs iv (a ++ b)) = xs iv a.
  Hypothesis hdr_len : forall f, N.of_nat (length (hdr_of f)) = Consts.c_vlogHeaderSize.

  (* For EVERY sequence of StreamWriter.Write calls (any streams per call, any entries) and
     EVERY pair of thresholds in force at the two consultations of every entry: in the final
     value-log state, what Item.yieldItemValue reads through the value struct the sorted writer
     handed to its table builder is the streamed value, and the struct carries the streamed
     user meta and expiry.  se_wf: a value that goes to the value log fits a log record; the
     meta byte of a streamed KV does not carry bitValuePointer.  small: no uint32 wrap. *)
  Theorem C26_streamed_values_read_back : forall calls st st' psss,
    VlogWriteProofs.vwf st ->
    Forall (Forall (Forall StreamWriterPlaceProofs.se_wf)) calls ->
    StreamWriterPlace.sw_vlog_writes encrypted xs iv_of hdr_of file_size max_entries st calls = (st', psss) ->
    VlogWriteProofs.small st' ->
    Forall2 (Forall2 (Forall2 (StreamWriterPlaceProofs.sw_reads_back encrypted xs iv_of st'))) calls psss.
  Proof. exact (StreamWriterPlaceProofs.sw_streamed_read_back encrypted xs iv_of hdr_of file_size max_entries xs_len xs_invol xs_stream hdr_len). Qed.
End StreamedValues.
Print Assumptions C26_streamed_values_read_back.

(* hypotheses satisfiable, and the situation the cache is there for: one Write call with two
   streams; for the first entry the live threshold DROPS below its value length between
   valueLog.write (4 < 10: no value-log record) and the sorted writer (live threshold 2): it is
   stored inline all the same; for the second it RISES: it stays behind its pointer *)
Example C26_streamed_values_read_back_ex :
  let e1 := LogRecord.mkEntry [1; 0; 0; 0; 0; 0; 0; 0; 9] [7; 7; 7; 7] 0 1 0 in
  let e2 := LogRecord.mkEntry [2; 0; 0; 0; 0; 0; 0; 0; 9] [5; 6; 5; 6] 0 2 77 in
  let c1 := StreamWriterPlace.mkSE e1 10 2 in
  let c2 := StreamWriterPlace.mkSE e2 2 10 in
  let hdr := fun _ : N => repeat 0 20 in
  let '(st, psss) := StreamWriterPlace.sw_vlog_writes false LogRecord.xs_id (fun _ => []) hdr 1048576 1000
                       (VlogWrite.vlog_init hdr) [[[c1]; [c2]]] in
  (StreamWriterPlace.se_skip c1, StreamWriterPlace.se_inline c1) = (true, true) /\
  (StreamWriterPlace.se_skip c2, StreamWriterPlace.se_inline c2) = (false, false) /\
  psss = [[[Codec.mkVptr 0 0 0]; [Codec.mkVptr 1 22 20]]] /\
  StreamWriterPlace.sw_read false LogRecord.xs_id (fun _ => []) st c1 (Codec.mkVptr 0 0 0) = Some [7; 7; 7; 7] /\
  StreamWriterPlace.sw_read false LogRecord.xs_id (fun _ => []) st c2 (Codec.mkVptr 1 22 20) = Some [5; 6; 5; 6] /\
  (* the zero pointer behind bitValuePointer (what a decision from the live threshold 2 would
     store for e1) is not read back as the value *)
  VlogWrite.item_value false LogRecord.xs_id (fun _ => []) st (StreamWriterPlace.sw_value e1 false (Codec.mkVptr 0 0 0)) = None.
Proof. vm_compute. repeat split; reflexivity. Qed.
