(* C26 — StreamWriter builds exactly the streamed database.
   Statements only; proofs in B/StreamWriterProofs.v over the model B/StreamWriter.v
   (stream_writer.go Prepare / PrepareIncremental / Write / sortedWriter.Add / Flush,
   level_handler.go sortTables, util.go validate, as coded).

   Full statement (kept visible): for sorted, pairwise non-overlapping streams, any batching
   and any interleaving of the streams across Write calls, the database after Flush holds
   exactly the streamed entries (plus the pre-existing data in incremental mode), every
   stream's order is kept, tables are cut only between different user keys, the target level
   is sorted and disjoint (else Flush returns the validation error — never silent
   acceptance), and the next transaction timestamp is above every streamed version.
   Proved below for ALL inputs the implementation does not panic on (the model makes the
   panics explicit: an unsorted stream, a write on a closed stream).  What is observed, not
   computed: the byte-size criterion that decides WHERE a stream is cut into tables (the
   rule for the cuts is checked), the compactions of the Flatten inside PrepareIncremental.
   Incremental runs build the layout of finding F11 (non-empty level above the base level);
   its witness through the public API runs with every check of this property. *)
From Verif Require Import Bytes Keys Consts Spec Lsm Compact Iter Sys Drop StreamWriter.
From Verif Require LsmProofs CompactProofs GetProofs MergeProofs C12Proofs DropProofs StreamWriterProofs.
Open Scope N_scope.
Import CompactProofs GetProofs StreamWriterProofs.

(* per stream: after any sequence of Write calls (any batching, any interleaving) the
   stream's writer holds exactly the stream's entries, in arrival order *)
Theorem C26_stream_order : forall writes st,
  sw_writes (mkSWS [] 0) writes = Some st ->
  forall sid, wents (sw_writers st) sid = stream_ents sid (concat writes).
Proof. exact StreamWriterProofs.sw_run_ents. Qed.
Print Assumptions C26_stream_order.

(* a run that does not panic has only strictly increasing streams (CompareKeys order) *)
Theorem C26_streams_sorted : forall writes st,
  sw_writes (mkSWS [] 0) writes = Some st -> writers_sorted (sw_writers st).
Proof. exact StreamWriterProofs.sw_run_sorted. Qed.
Print Assumptions C26_streams_sorted.

(* the tables of a stream: nothing lost, none empty, cut only between different user keys *)
Theorem C26_table_cuts : forall s layout,
  cut_ok s layout = true ->
  concat (map t_ents (split_counts s layout)) = s /\
  (forall t, In t (split_counts s layout) -> t_ents t <> []) /\
  (forall id n r x y, layout = (id, n) :: r ->
     last_ent (firstn (N.to_nat n) s) = Some x -> hd_error (skipn (N.to_nat n) s) = Some y ->
     e_key x <> e_key y).
Proof.
  intros s layout H. split; [exact (StreamWriterProofs.cut_ok_concat s layout H)|split].
  - intros t Ht. exact (StreamWriterProofs.cut_ok_tables s layout t H Ht).
  - intros id n r x y E. subst layout. exact (StreamWriterProofs.cut_ok_boundary s id n r x y H).
Qed.
Print Assumptions C26_table_cuts.

(* the whole run: contents, validation, timestamps *)
Theorem C26_contents : forall s incr flat writes layouts orders r next s' tags,
  stream_write s incr flat writes layouts orders r next = SWOk s' tags ->
  (incr && has_mem_data (s_db s)) = false ->
  exists ls1 st newt,
    run_flatten (sw_start s incr) flat = (0, ls1) /\
    sw_writes (mkSWS [] 0) writes = Some st /\
    build_tables (sw_writers st) layouts = Some newt /\
    (sw_target incr (sw_start s incr) < length ls1)%nat /\
    l_levels (s_db s') = map sort_tables (set_level ls1 (sw_target incr (sw_start s incr))
                                             (nth (sw_target incr (sw_start s incr)) ls1 [] ++ newt)) /\
    (forall x, In x (all_entries (s_db s')) <-> In x (levels_entries ls1) \/ In x (all_skv (concat writes))) /\
    (r = 0 <-> levels_valid (l_levels (s_db s')) = true) /\
    (r = 0 \/ r = 8) /\
    (s_managed s = false -> forall e, In e (all_skv (concat writes)) -> e_ver e < s_next s').
Proof. exact StreamWriterProofs.stream_write_spec. Qed.
Print Assumptions C26_contents.

(* Prepare: the run starts from the empty tree, so the database is exactly the streams *)
Theorem C26_prepare_starts_empty : forall s, levels_entries (sw_start s false) = [].
Proof. intros s. exact (DropProofs.levels_srcs_empty 0 (l_levels (s_db s))). Qed.
Print Assumptions C26_prepare_starts_empty.

(* an accepted Flush leaves every level >= 1 one strictly increasing run of sorted tables *)
Theorem C26_levels_valid : forall s incr flat writes layouts orders r next s' tags ls1,
  stream_write s incr flat writes layouts orders r next = SWOk s' tags ->
  (incr && has_mem_data (s_db s)) = false ->
  run_flatten (sw_start s incr) flat = (0, ls1) -> tables_ok ls1 ->
  r = 0 -> forall lvl, (1 <= lvl)%nat -> level_ok (nth lvl (l_levels (s_db s')) []).
Proof. exact StreamWriterProofs.stream_write_levels_ok. Qed.
Print Assumptions C26_levels_valid.

(* validate, by itself: sorted non-empty tables that pass it form one sorted run *)
Theorem C26_validate_sound : forall l,
  Forall (fun t => sorted (t_ents t)) l -> Forall (fun t => t_ents t <> []) l ->
  level_valid l = true -> level_ok l.
Proof. exact StreamWriterProofs.level_valid_sorted. Qed.
Print Assumptions C26_validate_sound.

(* next timestamp (normal mode): above every streamed version *)
Theorem C26_next_ts : forall s incr flat writes layouts orders r next s' tags,
  stream_write s incr flat writes layouts orders r next = SWOk s' tags ->
  (incr && has_mem_data (s_db s)) = false -> s_managed s = false ->
  forall e, In e (all_skv (concat writes)) -> e_ver e < s_next s'.
Proof.
  intros s incr flat writes layouts orders r next s' tags H Hm Hman.
  destruct (StreamWriterProofs.stream_write_spec _ _ _ _ _ _ _ _ _ _ H Hm) as (? & ? & ? & _ & _ & _ & _ & _ & _ & _ & _ & T).
  exact (T Hman).
Qed.
Print Assumptions C26_next_ts.

(* hypotheses satisfiable: two interleaved Write calls over two streams, Prepare mode, one
   stream cut into two tables; and overlapping streams are answered with the validation error *)
Definition c26_ex_sys : sys := init_sys false true 1 4 1.
Definition c26_ex_writes : list (list sitem) :=
  [[SKV 1 (mkE [97] 3 0 0 0 [1]); SKV 2 (mkE [109] 2 0 0 0 [2])];
   [SKV 1 (mkE [97] 2 0 0 0 [3]); SKV 1 (mkE [98] 5 0 0 0 [4]); SDone 1; SKV 2 (mkE [110] 7 0 0 0 [5])]].
Example C26_accepted_run :
  exists s' tags,
    stream_write c26_ex_sys false [] c26_ex_writes [(1, [(1, 2); (2, 1)]); (2, [(3, 2)])] [[]; []; []; [1; 2; 3]] 0 8
    = SWOk s' tags /\ s_next s' = 8.
Proof. eexists. eexists. split; [vm_compute; reflexivity|reflexivity]. Qed.
Example C26_overlap_rejected :
  exists s' tags,
    stream_write c26_ex_sys false []
      [[SKV 1 (mkE [97] 1 0 0 0 []); SKV 1 (mkE [99] 1 0 0 0 []); SKV 2 (mkE [98] 1 0 0 0 [])]]
      [(1, [(1, 2)]); (2, [(2, 1)])] [[]; []; []; [1; 2]] 8 2 = SWOk s' tags
    /\ levels_valid (l_levels (s_db s')) = false.
Proof. eexists. eexists. split; [vm_compute; reflexivity|reflexivity]. Qed.
