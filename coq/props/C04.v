(* C04 — A read-write transaction sees its own pending writes. Statements only. *)
From Verif Require Import Bytes Keys Consts Spec Lsm Iter Sys.
From Verif Require SysProofs.
Open Scope N_scope.

(* after any sequence of Set/SetEntry/Delete calls, the pending map holds for every key the
   LAST accepted call on that key *)
Theorem C04_pending_is_last_write : forall x es k,
  klookup (x_pend (SysProofs.modifies x es)) k = SysProofs.last_write x es k (klookup (x_pend x) k).
Proof. exact SysProofs.pending_is_last_write. Qed.
Print Assumptions C04_pending_is_last_write.

(* Get returns that pending write (value, user meta, expiry; absent if deleted/expired) *)
Theorem C04_get_returns_pending : forall s x k e,
  k <> [] -> x_update x = true -> x_done x = false -> klookup (x_pend x) k = Some e ->
  fst (txn_get s x k) = if deleted_or_expired e (s_now s) then GNotFound else GFound (with_ver e (x_read x)).
Proof. exact SysProofs.get_returns_pending. Qed.
Print Assumptions C04_get_returns_pending.
Example C04_get_returns_pending_ex :
  let x := mkTxn 3 true [] [([7], mkE [7] 0 0 0 0 [1])] [] false in
  [7] <> [] /\ x_update x = true /\ x_done x = false /\ klookup (x_pend x) [7] = Some (mkE [7] 0 0 0 0 [1]).
Proof. cbn. repeat split; discriminate || reflexivity. Qed.

(* pending writes are invisible to every other transaction *)
Theorem C04_isolation_get : forall s t x' y k,
  fst (txn_get (set_txn s t x') y k) = fst (txn_get s y k).
Proof. exact SysProofs.get_ignores_other_txns. Qed.
Print Assumptions C04_isolation_get.
Theorem C04_isolation_iter : forall s t x' y o seek,
  txn_iterate (set_txn s t x') y o seek = txn_iterate s y o seek.
Proof. exact SysProofs.iterate_ignores_other_txns. Qed.
Print Assumptions C04_isolation_iter.
