(* C04 — A read-write transaction sees its own pending writes. Statements only. *)
From Verif Require Import Bytes Keys Consts Spec Lsm Iter Sys.
From Verif Require SysProofs.
Open Scope N_scope.

(* after any sequence of Set/SetEntry/Delete calls, the pending map holds for every key the
   LAST accepted call on that key *)
Theorem C04_pending_is_last_write : forall x es k,
  klookup (x_pend (SysProofs.modifies x es)) k = SysProofs.last_write x es k (klookup (x_pend x) k).
Proof. exact SysProofs.pending_is_last_write. Qed.
Print Assumptions C04_pending_is_last_write.

(* Get returns that pending write (value, user meta, expiry; absent if deleted/expired) *)
Theorem C04_get_returns_pending : forall s x k e,
  k <> [] -> x_update x = true -> x_done x = false -> klookup (x_pend x) k = Some e ->
  fst (txn_get s x k) = if deleted_or_expired e (s_now s) then GNotFound else GFound (with_ver e (x_read x)).
Proof. exact SysProofs.get_returns_pending. Qed.
Print Assumptions C04_get_returns_pending.
Example C04_get_returns_pending_ex :
  let x := mkTxn 3 true [] [([7], mkE [7] 0 0 0 0 [1])] [] false in
  [7] <> [] /\ x_update x = true /\ x_done x = false /\ klookup (x_pend x) [7] = Some (mkE [7] 0 0 0 0 [1]).
Proof. cbn. repeat split; discriminate || reflexivity. Qed.

(* pending writes are invisible to every other transaction *)
Theorem C04_isolation_get : forall s t x' y k,
  fst (txn_get (set_txn s t x') y k) = fst (txn_get s y k).
Proof. exact SysProofs.get_ignores_other_txns. Qed.
Print Assumptions C04_isolation_get.
Theorem C04_isolation_iter : forall s t x' y o seek,
  txn_iterate (set_txn s t x') y o seek = txn_iterate s y o seek.
Proof. exact SysProofs.iterate_ignores_other_txns. Qed.
Print Assumptions C04_isolation_iter.

(* ======================================================================================
   Iterators inside a read-write transaction (B/OverlayProofs.v).  Sys.txn_iterate reads
   merge2 (pend_src x) (merged db): the pending writes (stamped with readTs, sorted by key)
   layered over the snapshot.  `pend_ok x` (one pending entry per key, filed under its own
   key) is what Txn.modify maintains — C04_pending_map_wf.
   ====================================================================================== *)
From Verif Require Import Compact CompactProofs EntOrderProofs IterOrderProofs IterSpecProofs OverlayProofs.
From Verif Require GetProofs.
From Coq Require Import Sorting.Sorted.

Theorem C04_pending_map_wf : forall rts upd es,
  pend_ok (SysProofs.modifies (mkTxn rts upd [] [] [] false) es).
Proof. intros rts upd es. apply pend_ok_modifies. apply pend_ok_begin. Qed.
Print Assumptions C04_pending_map_wf.

(* the pending source: exactly the pending write of every key, at version readTs; sorted *)
Theorem C04_pending_source : forall x y,
  x_update x = true -> pend_ok x ->
  (In y (pend_src x) <-> exists pe, klookup (x_pend x) (e_key y) = Some pe /\ y = with_ver pe (x_read x)).
Proof. exact pend_src_in. Qed.
Print Assumptions C04_pending_source.

Theorem C04_overlay_sorted : forall s x, ssorted (merged (s_db s)) -> ssorted (merge2 (pend_src x) (merged (s_db s))).
Proof. exact txn_stream_sorted. Qed.
Print Assumptions C04_overlay_sorted.

(* the iteration is the specification scan (C05) of the overlaid stream *)
Theorem C04_iterate_is_spec_of_overlay : forall s x o,
  ssorted (merged (s_db s)) -> io_reverse o = false -> io_prefix o = [] -> io_prefix_is_key o = false ->
  let m := merge2 (pend_src x) (merged (s_db s)) in
  txn_iterate s x o [] = filter (emit o (x_read x) (s_now s) (fun _ => false) m) m.
Proof. exact txn_iterate_spec. Qed.
Print Assumptions C04_iterate_is_spec_of_overlay.

(* per key: a key with a pending write shows that write (at version readTs) if it passes the
   iterator's checks (SinceTs, internal keys) and is live, and NOTHING otherwise — never the
   snapshot's version; a key without pending write shows what the snapshot iteration shows;
   keys strictly increasing *)
Theorem C04_iterate_reflects_pending : forall s x o k,
  x_update x = true -> pend_ok x -> ssorted (merged (s_db s)) ->
  io_reverse o = false -> io_all o = false -> io_prefix o = [] -> io_prefix_is_key o = false ->
  let l := txn_iterate s x o [] in
  StronglySorted klt (map e_key l) /\
  find (fun e => bytes_eqb (e_key e) k) l =
  match klookup (x_pend x) k with
  | Some pe =>
      let e := with_ver pe (x_read x) in
      if skip_common o (x_read x) (fun _ => false) e || deleted_or_expired e (s_now s) then None else Some e
  | None =>
      find (fun e => bytes_eqb (e_key e) k) (iterate o (x_read x) (s_now s) (fun _ => false) (merged (s_db s)) [])
  end.
Proof. exact iterate_reflects_pending. Qed.
Print Assumptions C04_iterate_reflects_pending.

Theorem C04_iterate_reflects_pending_in : forall s x o e,
  x_update x = true -> pend_ok x -> ssorted (merged (s_db s)) ->
  io_reverse o = false -> io_all o = false -> io_prefix o = [] -> io_prefix_is_key o = false ->
  (In e (txn_iterate s x o []) <->
   match klookup (x_pend x) (e_key e) with
   | Some pe => e = with_ver pe (x_read x) /\ skip_common o (x_read x) (fun _ => false) e = false /\
                deleted_or_expired e (s_now s) = false
   | None => In e (iterate o (x_read x) (s_now s) (fun _ => false) (merged (s_db s)) [])
   end).
Proof. exact iterate_reflects_pending_in. Qed.
Print Assumptions C04_iterate_reflects_pending_in.

(* Seek, Prefix and direction act on the overlaid iteration exactly as on any iteration *)
Theorem C04_iterate_seek : forall s x o seek,
  ssorted (merged (s_db s)) -> io_reverse o = false -> io_prefix_is_key o = false -> kle (io_prefix o) seek ->
  txn_iterate s x o seek = filter (fbound seek) (txn_iterate s x o []).
Proof. exact txn_iterate_seek. Qed.
Print Assumptions C04_iterate_seek.
Theorem C04_iterate_prefix : forall s x o,
  ssorted (merged (s_db s)) -> io_reverse o = false -> io_prefix_is_key o = false ->
  txn_iterate s x o [] = filter (fun e => is_prefix (io_prefix o) (e_key e)) (txn_iterate s x (no_prefix o) []).
Proof. exact txn_iterate_prefix. Qed.
Print Assumptions C04_iterate_prefix.
Theorem C04_iterate_reverse : forall s x o,
  ssorted (merged (s_db s)) -> io_reverse o = false -> io_prefix o = [] -> io_prefix_is_key o = false ->
  txn_iterate s x (set_reverse true o) [] = rev (txn_iterate s x o []).
Proof. exact txn_iterate_reverse. Qed.
Print Assumptions C04_iterate_reverse.
Theorem C04_iterate_seek_reverse : forall s x o seek,
  ssorted (merged (s_db s)) -> io_reverse o = true -> io_prefix o = [] -> io_prefix_is_key o = false ->
  txn_iterate s x o seek = filter (rbound seek) (txn_iterate s x o []).
Proof. exact txn_iterate_seek_reverse. Qed.
Print Assumptions C04_iterate_seek_reverse.

(* Get and iteration agree inside the transaction: the item under key k is what Txn.Get(k)
   returns (pending write first, else the snapshot) *)
Theorem C04_iterate_agrees_with_get : forall s x o k,
  k <> [] -> x_done x = false -> pend_ok x ->
  GetProofs.lsm_wf (s_db s) -> nodup_kv (GetProofs.all_entries (s_db s)) ->
  io_reverse o = false -> io_all o = false -> io_prefix o = [] -> io_prefix_is_key o = false -> io_since o = 0 ->
  allowed o k = true ->
  find (fun e => bytes_eqb (e_key e) k) (txn_iterate s x o []) =
  match fst (txn_get s x k) with GFound e => Some e | _ => None end.
Proof. exact iterate_agrees_with_get. Qed.
Print Assumptions C04_iterate_agrees_with_get.

(* ... in every reachable state, for every open transaction of that state *)
From Verif Require Import SysReopen SysTree.
Theorem C04_iterate_agrees_with_get_reachable : forall detect nkeep nlevels next ops,
  (0 < nlevels)%nat -> Forall op_plain ops ->
  let s := snd (exec_tree (init_sys false detect nkeep nlevels next) ops 0) in
  forall t x o k,
    lookup (s_txns s) t = Some x -> x_done x = false -> k <> [] ->
    io_reverse o = false -> io_all o = false -> io_prefix o = [] -> io_prefix_is_key o = false -> io_since o = 0 ->
    allowed o k = true ->
    find (fun e => bytes_eqb (e_key e) k) (txn_iterate s x o []) =
    match fst (txn_get s x k) with GFound e => Some e | _ => None end.
Proof. exact iterate_agrees_with_get_reachable. Qed.
Print Assumptions C04_iterate_agrees_with_get_reachable.

(* the hypotheses are satisfiable: a snapshot with nested-prefix keys, 0x00/0xFF bytes and several
   versions; pending: an overwrite, a delete of a visible key, a new key between two others *)
Definition ex_db : lsm :=
  mkLsm [mkE [1] 3 0 0 0 [30]; mkE [1; 0] 4 0 0 0 [40]; mkE [1; 0] 2 0 0 0 [20]; mkE [1; 255] 1 0 0 0 [10]; mkE [2] 3 0 0 0 [31]] [] [[]].
Definition ex_sys : sys := mkSys ex_db 7 [] [] false false 1 0 [] 10.
Definition ex_txn : txn :=
  SysProofs.modifies (mkTxn 6 true [] [] [] false)
    [mkE [1; 0] 0 0 0 0 [99]; mkE [1; 255] 0 1 0 0 []; mkE [1; 0; 255] 0 0 0 0 [77]; mkE [1; 0] 0 0 0 0 [98]].
Definition ex_opts : iopts := mkIO false false [] false 0 false.

Example C04_ex_hyps :
  x_update ex_txn = true /\ pend_ok ex_txn /\ ssorted (merged (s_db ex_sys)) /\
  txn_iterate ex_sys ex_txn ex_opts [] =
    [mkE [1] 3 0 0 0 [30]; mkE [1; 0] 6 0 0 0 [98]; mkE [1; 0; 255] 6 0 0 0 [77]; mkE [2] 3 0 0 0 [31]] /\
  txn_iterate ex_sys ex_txn (set_reverse true ex_opts) [1; 0; 255] =
    [mkE [1; 0; 255] 6 0 0 0 [77]; mkE [1; 0] 6 0 0 0 [98]; mkE [1] 3 0 0 0 [30]] /\
  fst (txn_get ex_sys ex_txn [1; 255]) = GNotFound /\
  fst (txn_get ex_sys ex_txn [1; 0]) = GFound (mkE [1; 0] 6 0 0 0 [98]).
Proof.
  split; [reflexivity|]. split; [apply C04_pending_map_wf|]. split; [vm_compute; repeat constructor|].
  vm_compute. repeat split; reflexivity.
Qed.
