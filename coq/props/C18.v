(* C18 — SSTables return exactly the entries they were built from.
   Theorem statements only; every proof is `exact <lemma>` from BlockProofs / TableProofs / ConcatProofs.

   Model: coq/A/Block.v (Builder.addHelper / keyDiff / shouldFinishBlock / finishBlock, Table.block's
   parsing, blockIterator.setIdx / seek / next / prev), coq/A/Table.v (Iterator.seekFrom / seekForPrev /
   next / prev / Rewind / Seek / Next with the REVERSED flag, ConcatIterator).  Compression, encryption,
   the flatbuffers index and the checksum contents are not modelled (a block's checksum is an arbitrary
   byte string cs); the correspondence run exercises all of them.

   Domain (exactly what the model needs, all implied by the property's quantifier):
   * wf_key k    : 8 <= len k (an internal key carries the 8-byte version) and len k < 65532
                   (`headerSize + h.diff` is uint16 arithmetic in blockIterator.setIdx; the 65000-byte user
                   key limit gives at most 65008).  See C18_key_limit_is_tight below.
   * wf_es es    : every key wf_key, total encoded size below 2^32 (uint32 entry offsets).
   * sorted_kv   : strictly increasing in y.CompareKeys order.
   * vs_expires < 2^64 for the value round trip (C20). *)
From Verif Require Import Bytes Uvarint Keys Codec Block Table.
From Verif Require BytesProofs UvarintProofs C20Proofs BlockProofs TableProofs ConcatProofs.
Import BlockProofs TableProofs ConcatProofs.
From Coq Require Import Sorting.Sorted.
Open Scope N_scope.

(* ---------- the builder: ANY block split policy yields a partition of the input ---------- *)
Theorem C18_builder_partition : forall (pol : policy) es bl maxv nk,
  wf_es es -> build pol es = Some (bl, maxv, nk) ->
  exists P, concat P = es /\ Forall (fun p => p <> []) P /\ bl = map chunk_block P /\
            maxv = max_version es /\ nk = N.of_nat (length es) mod two32.
Proof. exact build_partition. Qed.
Print Assumptions C18_builder_partition.

(* the coded policy (shouldFinishBlock with its uint32 casts and assertions) is one instance; it
   never trips an assertion while three times the entries' size stays below 2^32 *)
Theorem C18_coded_builder_total : forall bs enc es,
  Forall (fun e : kv => wf_key (fst e)) es -> N.of_nat (3 * tsize es + 64) < two32 ->
  exists r, build (should_finish_block bs enc) es = Some r.
Proof. exact build_coded_total. Qed.
Print Assumptions C18_coded_builder_total.

(* ---------- C18_setidx ---------- *)
(* after ANY sequence of setIdx calls on a block (any indices, valid or not, in any order — as the
   binary search produces them), setIdx i reconstructs exactly key i and the encoded value i *)
Theorem C18_setidx : forall (c : list kv) (calls : list Z) (i : nat),
  wf_chunk c -> (i < length c)%nat ->
  exists it', set_idx_seq (set_block (chunk_blk c)) (calls ++ [Z.of_nat i]) = Some it' /\
              bi_eof it' = false /\ bi_key it' = fst (nth i c dkv) /\
              bi_val it' = vs_encode (snd (nth i c dkv)).
Proof. exact set_idx_seq_ok. Qed.
Print Assumptions C18_setidx.

(* the invariant behind it: key[:prevOverlap] = base[:prevOverlap] (BV), preserved by every setIdx *)
Theorem C18_setidx_invariant : forall c it i, wf_chunk c -> BV c it ->
  exists it', set_idx it i = Some it' /\ BV c it' /\ bi_idx it' = i /\
    ((0 <= i < Z.of_nat (length c))%Z ->
       bi_eof it' = false /\ bi_key it' = ckey c (Z.to_nat i) /\ bi_val it' = cval c (Z.to_nat i)) /\
    (~ (0 <= i < Z.of_nat (length c))%Z -> bi_eof it' = true /\ bi_key it' = bi_key it).
Proof. exact set_idx_any. Qed.
Print Assumptions C18_setidx_invariant.

(* blockIterator.seek = the coded sort.Search with side-effecting probes: lands on the first entry
   with key >= k (EOF when there is none) *)
Theorem C18_block_seek : forall c k it, wf_chunk c -> sorted_kv c -> (8 <= length k)%nat -> BV c it ->
  let r := find_idx (ge_key k) c in
  exists it', bi_seek it k false = Some it' /\ BV c it' /\ bi_idx it' = Z.of_nat r /\
    ((r < length c)%nat -> bi_eof it' = false /\ bi_key it' = ckey c r /\ bi_val it' = cval c r) /\
    ((r = length c)%nat -> bi_eof it' = true).
Proof. exact bi_seek_ok. Qed.
Print Assumptions C18_block_seek.

(* ---------- C18_block_roundtrip ---------- *)
(* Table.block's parse of the stored bytes (entries | offsets | count | checksum | len) returns the
   entries region and the offsets, whatever the checksum bytes are *)
Theorem C18_block_parse : forall b cs,
  Forall (fun o => o < two32) (bb_offs b) -> N.of_nat (length (bb_offs b)) < two32 ->
  N.of_nat (length cs) < two32 ->
  parse_block (block_raw (block_payload b) cs) = Some (mkBlk (bb_data b) (bb_offs b)).
Proof. exact parse_block_roundtrip. Qed.
Print Assumptions C18_block_parse.

(* decoding a built block (seekToFirst, next until EOF) returns the entries it was built from *)
Theorem C18_block_roundtrip : forall c cs,
  wf_chunk c -> N.of_nat (tsize c) < two32 -> N.of_nat (length cs) < two32 ->
  Forall (fun e => vs_expires (snd e) < two64) c ->
  exists b, parse_block (block_raw (block_payload (chunk_block c)) cs) = Some b /\
            block_decode_all b = Some (map (fun e => (fst e, Some (snd e))) c).
Proof.
  intros c cs Hwf Hsz Hcs Hex. exists (chunk_blk c).
  split; [exact (chunk_parse c cs Hwf Hsz Hcs) | exact (block_decode_all_ok c Hwf Hex)].
Qed.
Print Assumptions C18_block_roundtrip.

(* ---------- C18_iter ---------- *)
(* For ANY partition of the strictly increasing input into non-empty blocks, from ANY iterator
   state, every sequence of Rewind / Seek k / Next starting with a positioning call returns exactly
   what the list cursor over the flat input returns (forward and REVERSED). *)
Theorem C18_iter_any_partition : forall (P : list (list kv)) rev st ops,
  wf_parts P -> Forall op_ok ops -> (match ops with INext :: _ => False | _ => True end) ->
  it_run rev (tbl_of P) st ops = Some (cur_run rev (concat P) None ops).
Proof. intros P rev st ops Hwf. exact (table_iter_refines P Hwf rev st ops). Qed.
Print Assumptions C18_iter_any_partition.

(* the whole pipeline: Builder with any split policy -> stored blocks with any checksums -> open ->
   iterate; plus C18_meta: Smallest, Biggest, MaxVersion, KeyCount *)
Theorem C18_iter : forall (pol : policy) es css bl maxv nk,
  wf_es es -> es <> [] -> sorted_kv es -> Forall (fun e => vs_expires (snd e) < two64) es ->
  build pol es = Some (bl, maxv, nk) ->
  length css = length bl -> Forall (fun cs => N.of_nat (length cs) < two32) css ->
  exists t, mk_table bl css = Some t /\
    open_table t maxv nk = Some (mkTT t (fst (nth 0 es dkv)) (fst (nth (length es - 1) es dkv))
                                      (max_version es) (N.of_nat (length es) mod two32)) /\
    forall rev st ops, Forall op_ok ops -> (match ops with INext :: _ => False | _ => True end) ->
      it_run rev t st ops = Some (cur_run rev es None ops).
Proof. exact built_table_refines. Qed.
Print Assumptions C18_iter.

(* what the list cursor returns — the reading of C18_iter in the property's words *)
(* forward iteration from Rewind yields exactly the input list, in order, then stops *)
Theorem C18_forward_scan : forall es, es <> [] ->
  cur_run false es None (IRewind :: repeat INext (length es)) = map Some es ++ [None].
Proof. exact cur_full_scan_fwd. Qed.
Print Assumptions C18_forward_scan.
(* reverse iteration yields it reversed *)
Theorem C18_reverse_scan : forall es, es <> [] ->
  cur_run true es None (IRewind :: repeat INext (length es)) = map Some (rev es) ++ [None].
Proof. exact cur_full_scan_rev. Qed.
Print Assumptions C18_reverse_scan.
(* Seek k lands on the first entry with key >= k *)
Theorem C18_seek_first_ge : forall es cur k,
  cur_obs es (cur_step false es cur (ISeek k)) = find (ge_key k) es.
Proof. exact cur_seek_fwd_find. Qed.
Print Assumptions C18_seek_first_ge.
(* reversed Seek k (SeekForPrev) lands on the last entry with key <= k *)
Theorem C18_seek_last_le : forall es cur k, sorted_kv es -> (8 <= length k)%nat ->
  Forall (fun e : kv => (8 <= length (fst e))%nat) es ->
  cur_obs es (cur_step true es cur (ISeek k)) = find (fun e => negb (gt_key k e)) (rev es).
Proof. exact cur_seek_rev_find. Qed.
Print Assumptions C18_seek_last_le.

(* the unexported seekFrom / seekForPrev / next / prev, from any state *)
Theorem C18_seek_from : forall P st k, wf_parts P -> (8 <= length k)%nat ->
  let r := find_idx (ge_key k) (concat P) in
  exists st', ti_seek_from (tbl_of P) st k = Some st' /\
    ((r < length (concat P))%nat -> At P st' r) /\ ((r = length (concat P))%nat -> EndS P st').
Proof. intros P st k Hwf. exact (seek_from_ok P Hwf st k). Qed.
Print Assumptions C18_seek_from.
Theorem C18_seek_for_prev : forall P st k, wf_parts P -> (8 <= length k)%nat ->
  let r' := find_idx (gt_key k) (concat P) in
  exists st', ti_seek_for_prev (tbl_of P) st k = Some st' /\
    ((0 < r')%nat -> At P st' (r' - 1)) /\ ((r' = 0)%nat -> BeginR st').
Proof. intros P st k Hwf. exact (seek_for_prev_ok P Hwf st k). Qed.
Print Assumptions C18_seek_for_prev.

(* ---------- concat iteration ---------- *)
(* a fresh ConcatIterator over tables with increasing key ranges = the list cursor over the
   concatenation of all entries (Next on an exhausted ConcatIterator dereferences nil: None) *)
Theorem C18_concat : forall (Ps : list (list (list kv))) ts rev ops,
  wf_tables Ps ts -> Forall op_ok ops ->
  ci_run rev ts (ci_new (length ts)) ops = ccur_run rev (concat (map (@concat kv) Ps)) None ops.
Proof. intros Ps ts rev ops Hwf. exact (concat_iter_refines Ps ts Hwf rev ops). Qed.
Print Assumptions C18_concat.

(* ---------- C18_meta ---------- *)
(* MaxVersion is the maximum of ParseTs over the input keys (Smallest / Biggest / KeyCount: C18_iter) *)
Theorem C18_meta_max_version : forall es,
  (forall e, In e es -> parse_ts (fst e) <= max_version es) /\
  (es <> [] -> exists e, In e es /\ parse_ts (fst e) = max_version es).
Proof. exact max_version_spec. Qed.
Print Assumptions C18_meta_max_version.

(* ---------- the hypotheses are satisfiable; the coded policy really splits ---------- *)
Definition ex_es : list kv :=
  [ (key_with_ts [97] 9, mkVS 1 2 0 [1; 2; 3]);
    (key_with_ts [97] 3, mkVS 0 0 77 []);
    (key_with_ts [97; 98] 5, mkVS 0 0 0 [9; 9; 9; 9; 9; 9; 9; 9; 9; 9; 9; 9; 9; 9; 9; 9; 9; 9; 9; 9]);
    (key_with_ts [98] 1, mkVS 3 0 0 [4]) ].

Example C18_hyps_ex :
  Forall (fun e : kv => (8 <= length (fst e))%nat /\ N.of_nat (length (fst e)) < 65532) ex_es /\
  N.of_nat (tsize ex_es) < two32 /\
  (exists bl maxv nk, build (should_finish_block 64 false) ex_es = Some (bl, maxv, nk) /\
                      length bl = 3%nat /\ maxv = 9 /\ nk = 4).
Proof.
  split; [repeat constructor; cbn; lia|]. split; [vm_compute; reflexivity|].
  eexists _, _, _. split; [vm_compute; reflexivity|]. repeat split; reflexivity.
Qed.

Example C18_sorted_ex : sorted_kv ex_es.
Proof.
  unfold sorted_kv. cbn [map ex_es fst].
  repeat (constructor; [|repeat (constructor; [vm_compute; reflexivity|]); constructor]). constructor.
Qed.

(* ---------- the key length bound of the domain is tight ---------- *)
(* the Builder accepts an internal key of 65532 bytes as first key of a block (its assertions allow
   65535), but `headerSize + diff` wraps in uint16 and blockIterator.setIdx panics on that block;
   65000-byte user keys (65008) are inside wf_key *)
Definition long_key (n : N) : bytes := repeat 97 (N.to_nat n).
(* None = Builder assertion fails; Some None = built, but setIdx 0 panics; Some (Some true) = read back *)
Definition key_limit_check (n : N) : option (option bool) :=
  match add_helper bb_empty (long_key n) (mkVS 0 0 0 []) with
  | None => None
  | Some b =>
      Some (match set_idx (set_block (mkBlk (bb_data b) (bb_offs b))) 0 with
            | None => None
            | Some it => Some (bytes_eqb (bi_key it) (long_key n))
            end)
  end.
Example C18_key_limit_is_tight :
  key_limit_check 65531 = Some (Some true) /\ key_limit_check 65532 = Some None /\
  key_limit_check 65535 = Some None /\ key_limit_check 65536 = None.
Proof. vm_compute. repeat split. Qed.
