(* C02 — Read-write transactions are serializable (SSI conflict detection).
   Statements only; proofs in B/TxnProofs.v.  Model: B/Sys.v (shared, API granularity: each Commit
   is atomic, which is what writeChLock + the oracle lock give commitAndSend) and its extension
   B/SysRejected.v with the commits refused after oracle.newCommitTs (finding F12).

   `history s0 ops` (B/TxnLog.v) is the commit log of an accepted label sequence: one record per
   successful Commit with a non-empty write set, carrying the transaction's read timestamp, commit
   timestamp, recorded reads (Get of a key not in its own pending writes, every iterator Item, every
   Seek key), conflict keys and written entries.

   Scope notes (stated, not hidden):
   - keys are their own fingerprints in the model; the implementation compares 64-bit z.MemHash
     fingerprints, so a hash collision can add a conflict (never remove one);
   - an iterator records the keys it YIELDS and the Seek key, not the range it scanned: a key
     inserted concurrently into a scanned range (phantom) is outside "recorded reads" (see
     C02_phantom_is_not_a_recorded_read);
   - `op_api`: Set/SetEntry/Delete cannot choose a version (WriteBatch.SetEntryAt is C27/C36);
   - the model never prunes the conflict log; the implementation prunes entries at or below the read
     watermark, which is harmless by C02_pruning_is_invisible. *)
From Verif Require Import Bytes Keys Consts Spec Lsm Iter Sys SysRejected TxnLog.
From Verif Require TxnProofs CompactProofs.
Open Scope N_scope.
Import TxnProofs.

(* Commit t yields ErrConflict (code 1) iff some successful commit with a timestamp above t's read
   timestamp wrote a key that t recorded as read *)
Theorem C02_conflict_iff : forall m nk nl next ops s t x cts,
  exec (init_sys m true nk nl next) ops 0 = (None, s) ->
  x_pend x <> [] -> x_done x = false ->
  (fst (fst (txn_commit s t x cts)) = 1 <->
   exists c k, In c (history (init_sys m true nk nl next) ops) /\
               x_read x < cr_cts c /\ In k (x_reads x) /\ In k (cr_keys c)).
Proof. exact TxnProofs.conflict_iff. Qed.
Print Assumptions C02_conflict_iff.

(* the log the conflict check consults IS the history: the conflict log holds exactly one entry
   (commit ts, keys) per successful commit with writes, never pruned; the applied writes are the
   records' entries in commit order; a record's conflict keys are exactly the keys it wrote *)
Theorem C02_log_is_history : forall m nk nl next ops s,
  exec (init_sys m true nk nl next) ops 0 = (None, s) ->
  let L := history (init_sys m true nk nl next) ops in
  s_committed s = map ckey L /\ s_writes s = log_writes L /\
  Forall (fun c => cr_applied c = true) L /\ Forall rec_ok L.
Proof. exact TxnProofs.log_is_history. Qed.
Print Assumptions C02_log_is_history.

(* the implementation's cleanup (drop entries with ts <= watermark <= read timestamp) cannot change
   the outcome of the check: long-running transactions that outlive cleanup are safe *)
Theorem C02_pruning_is_invisible : forall s x w,
  w <= x_read x ->
  has_conflict (set_committed s (filter (fun cw => w <? fst cw) (s_committed s))) x = has_conflict s x.
Proof. exact TxnProofs.has_conflict_cleanup. Qed.
Print Assumptions C02_pruning_is_invisible.

(* a conflicting (or otherwise rejected) Commit leaves tree, timestamps, conflict log and applied
   writes unchanged; only the transaction itself becomes discarded *)
Theorem C02_rejected_no_trace : forall s t x cts,
  fst (fst (txn_commit s t x cts)) <> 0 ->
  let s' := snd (txn_commit s t x cts) in
  s_db s' = s_db s /\ s_next s' = s_next s /\ s_committed s' = s_committed s /\ s_writes s' = s_writes s /\
  s_discard s' = s_discard s /\
  (forall t', t' <> t -> lookup (s_txns s') t' = lookup (s_txns s) t') /\
  (s_txns s' = s_txns s \/ lookup (s_txns s') t = Some (discard_txn x)).
Proof. exact TxnProofs.rejected_no_trace. Qed.
Print Assumptions C02_rejected_no_trace.

(* serializability in commit-timestamp order (normal mode): the entry a committed transaction read
   for a recorded key at its read timestamp, taken from the final write history, is the entry it
   reads in the serial execution where it runs after exactly the transactions that precede it in
   the log (any timestamp bound `top` at or above its read timestamp, e.g. its commit ts - 1).
   The final write history is by C02_log_is_history the serial one. *)
Theorem C02_serializable : forall nk nl next ops s L1 c L2 k top,
  Forall op_api ops -> 0 < next ->
  exec (init_sys false true nk nl next) ops 0 = (None, s) ->
  history (init_sys false true nk nl next) ops = L1 ++ c :: L2 -> In k (cr_rd c) -> cr_rts c <= top ->
  spec_latest (s_writes s) k (cr_rts c) None = spec_latest (log_writes L1) k top None.
Proof. exact TxnProofs.serializable_reads. Qed.
Print Assumptions C02_serializable.

(* the same on `newest` (what db.get computes, C01/C12), and the link to the values the Gets
   actually returned: in histories without Compact labels a Get result at timestamp r, taken in any
   intermediate state whose next timestamp is above r, is the newest write at or below r of the FINAL
   write history.  Chained: the entry a Get returned inside a transaction that later committed is
   the entry that Get returns in the serial execution in commit-timestamp order. *)
Theorem C02_serializable_newest : forall nk nl next ops s L1 c L2 k top,
  Forall op_api ops -> 0 < next ->
  exec (init_sys false true nk nl next) ops 0 = (None, s) ->
  history (init_sys false true nk nl next) ops = L1 ++ c :: L2 -> In k (cr_rd c) -> cr_rts c <= top ->
  CompactProofs.newest (s_writes s) k (cr_rts c) = CompactProofs.newest (log_writes L1) k top.
Proof. exact TxnProofs.serializable_reads_newest. Qed.
Print Assumptions C02_serializable_newest.

Theorem C02_get_result_is_final_partial : forall nk nl next d ops1 ops2 s1 s2 k r,
  (0 < nl)%nat -> Forall (fun o => op_api o /\ op_nocompact o) (ops1 ++ ops2) ->
  exec (init_sys false d nk nl next) ops1 0 = (None, s1) ->
  exec (init_sys false d nk nl next) (ops1 ++ ops2) 0 = (None, s2) ->
  r < s_next s1 ->
  db_get (s_db s1) k r = CompactProofs.newest (s_writes s2) k r.
Proof. exact TxnProofs.get_stable. Qed.
Print Assumptions C02_get_result_is_final_partial.

(* ... equivalently: no committed write to a key a committed transaction read has a version
   strictly between its read and its commit timestamp *)
Theorem C02_no_write_between : forall nk nl next ops s c c' k e,
  Forall op_api ops -> 0 < next ->
  exec (init_sys false true nk nl next) ops 0 = (None, s) ->
  let L := history (init_sys false true nk nl next) ops in
  In c L -> In c' L -> In k (cr_rd c) -> In e (cr_wr c') -> e_key e = k ->
  ~ (cr_rts c < e_ver e /\ e_ver e < cr_cts c).
Proof. exact TxnProofs.no_write_between. Qed.
Print Assumptions C02_no_write_between.

(* managed mode: the same, under the caller contract (commit timestamps non-decreasing in commit
   order, every commit above its own read timestamp) *)
Theorem C02_serializable_managed : forall nk nl next ops s L1 c L2 k top,
  Forall op_api ops ->
  exec (init_sys true true nk nl next) ops 0 = (None, s) ->
  let L := history (init_sys true true nk nl next) ops in
  cts_mono L -> reads_below L ->
  L = L1 ++ c :: L2 -> In k (cr_rd c) -> cr_rts c <= top ->
  spec_latest (s_writes s) k (cr_rts c) None = spec_latest (log_writes L1) k top None.
Proof. exact TxnProofs.managed_serializable_reads. Qed.
Print Assumptions C02_serializable_managed.

(* no lost update: two committed transactions that both read k and both wrote k are not concurrent *)
Theorem C02_no_lost_update : forall nk nl next ops s a b k,
  exec (init_sys false true nk nl next) ops 0 = (None, s) ->
  before (history (init_sys false true nk nl next) ops) a b ->
  In k (cr_rd a) -> In k (cr_keys a) -> In k (cr_rd b) -> In k (cr_keys b) ->
  cr_cts a <= cr_rts b.
Proof. exact TxnProofs.no_lost_update. Qed.
Print Assumptions C02_no_lost_update.

(* no write skew on recorded reads: a reads k2 / writes k1, b reads k1 / writes k2: they cannot both
   commit while concurrent (each starting before the other's commit) *)
Theorem C02_no_write_skew : forall nk nl next ops s a b k1 k2,
  exec (init_sys false true nk nl next) ops 0 = (None, s) ->
  let L := history (init_sys false true nk nl next) ops in
  In a L -> In b L -> a <> b ->
  In k2 (cr_rd a) -> In k1 (cr_keys a) -> In k1 (cr_rd b) -> In k2 (cr_keys b) ->
  ~ (cr_rts b < cr_cts a /\ cr_rts a < cr_cts b).
Proof. exact TxnProofs.no_write_skew. Qed.
Print Assumptions C02_no_write_skew.

(* no false conflict (the labels of Sys.v: no commit is refused after timestamp allocation):
   ErrConflict implies an applied write, above the read timestamp, to a key that was read *)
Theorem C02_no_false_conflict_partial : forall m nk nl next ops s t x cts,
  Forall op_api ops ->
  exec (init_sys m true nk nl next) ops 0 = (None, s) ->
  x_pend x <> [] -> x_done x = false ->
  fst (fst (txn_commit s t x cts)) = 1 ->
  exists c e, In c (history (init_sys m true nk nl next) ops) /\ In e (cr_wr c) /\ In e (s_writes s) /\
              In (e_key e) (x_reads x) /\ x_read x < e_ver e.
Proof. exact TxnProofs.no_false_conflict. Qed.
Print Assumptions C02_no_false_conflict_partial.

(* the same over the extended labels (XBlock, XTooBig), as long as every record in the conflict log
   is an applied commit: true when nothing was refused after newCommitTs, and always true for the
   repaired error path (fx = true) *)
Theorem C02_no_false_conflict_x_partial : forall m nk nl next fx s L t x cts,
  xreach xop_api fx (init_xsys m true nk nl next) s L ->
  (forall c, In c L -> logged fx c = true -> cr_applied c = true) ->
  x_pend x <> [] -> x_done x = false ->
  fst (fst (txn_commit (x_base s) t x cts)) = 1 ->
  exists c e, In c L /\ cr_applied c = true /\ In e (cr_wr c) /\ In e (s_writes (x_base s)) /\
              In (e_key e) (x_reads x) /\ x_read x < e_ver e.
Proof. exact TxnProofs.x_no_false_conflict. Qed.
Print Assumptions C02_no_false_conflict_x_partial.

(* FULL STATEMENT (refuted on the pinned tree, finding F12): "over all label sequences including
   commits refused by sendToWriteCh, ErrConflict implies a real overlap".  Witness: T2's Commit gets
   ErrTxnTooBig after newCommitTs logged its conflict keys; T1, which read the key T2 never wrote,
   gets ErrConflict although the write history is empty. *)
Theorem C02_no_false_conflict_refuted :
  exists ops s t x,
    xexec false (init_xsys false true 1 1 1) ops 0 = (None, s) /\
    Forall xop_api ops /\
    lookup (s_txns (x_base s)) t = Some x /\ x_pend x <> [] /\ x_done x = false /\
    fst (fst (txn_commit (x_base s) t x 0)) = 1 /\
    s_writes (x_base s) = [].
Proof. exact TxnProofs.no_false_conflict_refuted. Qed.
Print Assumptions C02_no_false_conflict_refuted.

(* serializability itself survives the defect: spurious log entries only add conflicts *)
Theorem C02_serializable_x : forall nk nl next fx s L L1 c L2 k top, 0 < next ->
  xreach xop_api fx (init_xsys false true nk nl next) s L ->
  L = L1 ++ c :: L2 -> In k (cr_rd c) -> cr_rts c <= top ->
  spec_latest (s_writes (x_base s)) k (cr_rts c) None = spec_latest (log_writes L1) k top None.
Proof. exact TxnProofs.x_serializable_reads. Qed.
Print Assumptions C02_serializable_x.

(* ---- the hypotheses are satisfiable: T1 reads k, T2 writes k and commits at ts 1, T1 writes x ---- *)
Definition C02_ex_ops : list op :=
  [ Begin 1 true 0; Get 1 [107] GNotFound; Begin 2 true 0;
    Modify 2 (mkE [107] 0 0 0 0 [1]) 0; Commit 2 1 0; Modify 1 (mkE [120] 0 0 0 0 [2]) 0 ].
Example C02_ex_accepted :
  fst (exec (init_sys false true 1 1 1) C02_ex_ops 0) = None /\ Forall op_api C02_ex_ops /\
  map cr_cts (history (init_sys false true 1 1 1) C02_ex_ops) = [1] /\
  (let s := snd (exec (init_sys false true 1 1 1) C02_ex_ops 0) in
   match lookup (s_txns s) 1 with
   | Some x => x_pend x <> [] /\ x_done x = false /\ fst (fst (txn_commit s 1 x 0)) = 1
   | None => False
   end).
Proof. vm_compute. repeat split; try discriminate; repeat constructor. Qed.

(* a committed pair (T1 then T3 which starts after T1's commit) for the serializability statements *)
Definition C02_ex_ops2 : list op :=
  [ Begin 1 true 0; Get 1 [107] GNotFound; Modify 1 (mkE [107] 0 0 0 0 [1]) 0; Commit 1 1 0;
    Begin 3 true 1; Get 3 [107] (GFound (mkE [107] 1 0 0 0 [1])); Modify 3 (mkE [107] 0 0 0 0 [2]) 0; Commit 3 2 0 ].
Example C02_ex2_accepted :
  fst (exec (init_sys false true 1 1 1) C02_ex_ops2 0) = None /\
  map (fun c => (cr_rts c, cr_cts c, cr_rd c)) (history (init_sys false true 1 1 1) C02_ex_ops2)
    = [(0, 1, [[107]]); (1, 2, [[107]])].
Proof. vm_compute. split; reflexivity. Qed.

(* phantoms: T1 iterates an empty range (nothing is yielded, nothing is recorded), T2 inserts a key
   into it and commits, T1 writes elsewhere and commits WITHOUT a conflict.  This is outside the
   property as stated (conflicts are defined on recorded reads) and is shown here so that the scope
   of "serializable" above is explicit. *)
Example C02_phantom_is_not_a_recorded_read :
  let ops := [ Begin 1 true 0; Iterate 1 (mkIO false false [] false 0 false) [] [];
               Begin 2 true 0; Modify 2 (mkE [107] 0 0 0 0 [1]) 0; Commit 2 1 0;
               Modify 1 (mkE [120] 0 0 0 0 [2]) 0; Commit 1 2 0 ] in
  fst (exec (init_sys false true 1 1 1) ops 0) = None.
Proof. vm_compute. reflexivity. Qed.
