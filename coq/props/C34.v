(* C34 — The oracle and watermarks never expose unfinished commits or strand readers.
   Statements only; every proof is `exact <lemma>` from WatermarkProofs / OracleWmProofs.

   Part 1 is about ONE y.WaterMark (Watermark.v): wm_run tr (wm_init d0) ranges over every
   interleaving of Begin/BeginMany/Done/DoneMany/WaitForMark senders with the process goroutine
   (label LProcess = one received mark), for ANY number of indices and waiters.  wm_apply treats
   a label that is not enabled (send on a full channel of capacity 100, receive on an empty
   one) as a no-op, so the set of label sequences quantified over contains every real schedule.
   SetDoneUntil is excluded (no_setdu): badger never calls it and y/watermark.go documents that it
   must not be inter-mingled with Begin/Done; the Example at the end shows what it would break.
   Indices are below 2^64-1 (`bounded`): at index 2^64-1 the notify loop of the code never
   terminates (model status Hung).

   Part 2 is about the oracle (OracleWm.v): orc_run tr (orc_init n0) ranges over every
   interleaving of readTs / newCommitTs / doneCommit / doneRead steps of any number of
   transactions with the two process goroutines, started as DB.Open starts it. *)
From Verif Require Import Bytes Watermark OracleWm.
From Verif Require WatermarkProofs OracleWmProofs.
Import WatermarkProofs OracleWmProofs.
Open Scope N_scope.

(* ---- Part 1: one WaterMark ---- *)

(* txnMark usage (fresh, increasing Begin indices above d0; one Done per Begin): the process
   goroutine never dies, and an index whose Begin has been SENT and whose Done has not been sent
   is strictly above DoneUntil — whether or not the Begin mark has been processed yet *)
Theorem C34_done_until_sound : forall d0 tr, no_setdu tr ->
  d0 < max_u64 -> bounded (sent_events tr) -> ok_txn d0 (sent_events tr) ->
  let s := wm_run tr (wm_init d0) in
  st (ps s) = Running /\
  forall i, In (EB i) (sent_events tr) -> ~ In (ED i) (sent_events tr) -> done_until (ps s) < i.
Proof. exact wm_txn_sound. Qed.
Print Assumptions C34_done_until_sound.

(* readMark usage (Begin indices never decrease; Done(i) only while more Begin(i) than Done(i)
   were sent): an index with an unfinished Begin is never below DoneUntil (equality is legal:
   readMark.Begin(readTs) with readTs = DoneUntil is the common case) *)
Theorem C34_read_mark_le : forall d0 tr, no_setdu tr ->
  d0 < max_u64 -> bounded (sent_events tr) -> ok_read d0 (sent_events tr) ->
  let s := wm_run tr (wm_init d0) in
  st (ps s) = Running /\
  forall i, (nD (sent_events tr) i < nB (sent_events tr) i)%Z -> done_until (ps s) <= i.
Proof. exact wm_read_sound. Qed.
Print Assumptions C34_read_mark_le.

(* DoneUntil never goes backwards (no usage contract needed) *)
Theorem C34_done_until_mono : forall d0 tr1 tr2, no_setdu (tr1 ++ tr2) ->
  st (ps (wm_run (tr1 ++ tr2) (wm_init d0))) = Running ->
  done_until (ps (wm_run tr1 (wm_init d0))) <= done_until (ps (wm_run (tr1 ++ tr2) (wm_init d0))).
Proof. exact wm_done_until_mono. Qed.
Print Assumptions C34_done_until_mono.

(* no lost wake-up (no usage contract needed): in every reachable state, a waiter whose mark has
   been received (is no longer in the channel) and whose index is <= DoneUntil has been closed.
   As this holds after every step, the waiter is closed in the very process step that raises
   DoneUntil to its index, or at once when its mark is received later. *)
Theorem C34_waiter_released : forall d0 tr i w, no_setdu tr ->
  let s := wm_run tr (wm_init d0) in
  st (ps s) = Running ->
  In (LWait i w) tr -> ~ In (wait_mark i w) (queue s) ->
  i <= done_until (ps s) -> In w (closed (ps s)).
Proof. exact wm_waiter_released. Qed.
Print Assumptions C34_waiter_released.

(* ... and no early release: a closed waiter channel belongs to a WaitForMark whose index
   DoneUntil has reached *)
Theorem C34_waiter_not_early : forall d0 tr w, no_setdu tr ->
  let s := wm_run tr (wm_init d0) in
  st (ps s) = Running -> In w (closed (ps s)) ->
  exists i, In (LWait i w) tr /\ i <= done_until (ps s).
Proof. exact wm_waiter_not_early. Qed.
Print Assumptions C34_waiter_not_early.

(* completeness: with the channel drained, DoneUntil has reached every begun index r such that
   everything at or below r is finished *)
Theorem C34_done_until_complete : forall d0 tr r, no_setdu tr ->
  d0 < max_u64 -> bounded (sent_events tr) -> ok_read d0 (sent_events tr) ->
  let s := wm_run tr (wm_init d0) in
  queue s = [] ->
  (r = d0 \/ In (EB r) (sent_events tr)) ->
  (forall j, j <= r -> nB (sent_events tr) j = nD (sent_events tr) j) ->
  r <= done_until (ps s).
Proof. exact wm_complete. Qed.
Print Assumptions C34_done_until_complete.

(* the process goroutine empties the channel in (length queue) receives *)
Theorem C34_drain : forall n s, st (ps (drain n s)) = Running -> (length (queue s) <= n)%nat ->
  queue (drain n s) = [].
Proof. exact drain_queue. Qed.
Print Assumptions C34_drain.

(* ---- Part 2: the oracle ---- *)

(* both process goroutines stay alive: the assertion in processOne cannot fail *)
Theorem C34_marks_alive : forall n0 tr,
  let s := orc_run tr (orc_init n0) in
  next_ts s <= max_u64 ->
  st (ps (txn_mark s)) = Running /\ st (ps (read_mark s)) = Running.
Proof. exact orc_marks_alive. Qed.
Print Assumptions C34_marks_alive.

(* a transaction whose readTs() has returned (phase >= 2) has a read timestamp strictly below
   every commit timestamp that is assigned but not yet acked (phase 3 = being applied) *)
Theorem C34_no_unfinished_visible : forall n0 tr,
  let s := orc_run tr (orc_init n0) in
  next_ts s <= max_u64 ->
  forall t x t' x', nth_error (txns s) t = Some x -> 2 <= t_phase x ->
    nth_error (txns s) t' = Some x' -> t_phase x' = 3 ->
    t_read_ts x < t_commit_ts x'.
Proof. exact orc_no_unfinished_visible. Qed.
Print Assumptions C34_no_unfinished_visible.

(* ... i.e. every timestamp in (n0, readTs] is the commit timestamp of a transaction that has
   called doneCommit *)
Theorem C34_visible_acked : forall n0 tr,
  let s := orc_run tr (orc_init n0) in
  next_ts s <= max_u64 ->
  forall t x, nth_error (txns s) t = Some x -> 2 <= t_phase x ->
  forall i, n0 < i -> i <= t_read_ts x ->
  exists t' x', nth_error (txns s) t' = Some x' /\ t_phase x' = 4 /\ t_commit_ts x' = i.
Proof. exact orc_visible_acked. Qed.
Print Assumptions C34_visible_acked.

(* txnMark.DoneUntil() is strictly below every un-acked commit timestamp *)
Theorem C34_oracle_txn_mark_sound : forall n0 tr,
  let s := orc_run tr (orc_init n0) in
  next_ts s <= max_u64 ->
  forall t x, nth_error (txns s) t = Some x -> t_phase x = 3 ->
  done_until (ps (txn_mark s)) < t_commit_ts x.
Proof. exact orc_txn_mark_sound. Qed.
Print Assumptions C34_oracle_txn_mark_sound.

(* readMark.DoneUntil() (discardAtOrBelow, conflict-window cleanup) never passes the read
   timestamp of a transaction that has not called doneRead *)
Theorem C34_oracle_read_mark_le : forall n0 tr,
  let s := orc_run tr (orc_init n0) in
  next_ts s <= max_u64 ->
  forall t x, nth_error (txns s) t = Some x -> t_done_read x = false ->
  done_until (ps (read_mark s)) <= t_read_ts x.
Proof. exact orc_read_mark_le. Qed.
Print Assumptions C34_oracle_read_mark_le.

(* no stranded reader: when the txnMark channel is drained and no un-acked commit is at or below
   the read timestamp of a transaction still inside readTs(), its fast path is open
   (DoneUntil >= readTs) and, if it has already sent its waiter, the waiter channel is closed *)
Theorem C34_reader_released : forall n0 tr,
  let s := orc_run tr (orc_init n0) in
  next_ts s <= max_u64 ->
  queue (txn_mark s) = [] ->
  forall t x, nth_error (txns s) t = Some x -> t_phase x <= 1 ->
  (forall t' x', nth_error (txns s) t' = Some x' -> t_phase x' = 3 -> t_read_ts x < t_commit_ts x') ->
  t_read_ts x <= done_until (ps (txn_mark s)) /\
  (t_phase x = 1 -> released (waiter_id t) (txn_mark s) = true).
Proof. exact orc_reader_released. Qed.
Print Assumptions C34_reader_released.

(* ---- the hypotheses are satisfiable; the states talked about exist ---- *)
Example C34_contract_ex :
  no_setdu [LBegin 6; LWait 6 0; LProcess; LDone 6] /\ 5 < max_u64 /\
  bounded (sent_events [LBegin 6; LWait 6 0; LProcess; LDone 6]) /\
  ok_txn 5 (sent_events [LBegin 6; LWait 6 0; LProcess; LDone 6]).
Proof.
  split; [intros v H; cbn in H; intuition discriminate|]. split; [reflexivity|]. split.
  - intros e H. cbn in H. destruct H as [<-|[<-|[<-|[]]]]; reflexivity.
  - change (sent_events [LBegin 6; LWait 6 0; LProcess; LDone 6]) with ((([] ++ [EB 6]) ++ [EW 6 0]) ++ [ED 6]).
    apply okt_D; [apply okt_W; apply okt_B; [constructor|reflexivity|intros j []]| |].
    + cbn. auto.
    + cbn. intros [H|[H|[]]]; discriminate.
Qed.

(* a schedule in which a reader is blocked behind an un-acked commit and released by the ack:
   txn 0 starts and commits at ts 4; txn 1 starts (readTs 4), must wait; the ack releases it *)
Definition C34_ex_trace : list olabel :=
  [OProcTxn; OBeginRead; OFast 0%nat; OCommit 0%nat; OProcTxn; OBeginRead; OWaitSend 1%nat; OProcTxn].
Example C34_oracle_blocked_ex :
  let s := orc_run C34_ex_trace (orc_init 3) in
  next_ts s <= max_u64 /\ queue (txn_mark s) = [] /\
  option_map t_phase (nth_error (txns s) 1) = Some 1 /\
  option_map t_phase (nth_error (txns s) 0) = Some 3 /\
  released (waiter_id 1) (txn_mark s) = false.
Proof. vm_compute. repeat split; discriminate. Qed.
Example C34_oracle_released_ex :
  let s := orc_run (C34_ex_trace ++ [OAck 0%nat; OProcTxn; OWake 1%nat]) (orc_init 3) in
  option_map t_phase (nth_error (txns s) 1) = Some 2 /\
  option_map t_read_ts (nth_error (txns s) 1) = Some 4 /\
  done_until (ps (txn_mark s)) = 4.
Proof. vm_compute. repeat split. Qed.

(* Outside the quantifier of C34 (kept for the record): SetDoneUntil inter-mingled with waiters
   strands a waiter — index 5 <= DoneUntil = 11, channel drained, waiter 0 never closed. *)
Example C34_setdoneuntil_outside_contract :
  let s := wm_run [LWait 5 0; LProcess; LSetDoneUntil 10; LBegin 11; LProcess; LDone 11; LProcess]
                  (wm_init 0) in
  queue s = [] /\ st (ps s) = Running /\ done_until (ps s) = 11 /\ closed (ps s) = [].
Proof. vm_compute. repeat split. Qed.
