(* C19 — Bloom filters never hide a key that is present.
   Only theorem statements here; every proof is `exact <lemma>` from A/BloomProofs.v.
   `Some`/`None`: None is the Go run-time panic `h % 0` (filter bit count = 0 mod 2^32, i.e. a
   filter of a multiple of 512 MiB); no theorem silently excludes it: a filter that was built
   (`new_filter .. = Some f`) answers `Some true` for every added hash. *)
From Verif Require Import Bytes Keys Bloom.
From Verif Require BloomProofs.
Open Scope N_scope.

(* all hash lists, all bitsPerKey (negative, zero, huge: whatever BloomBitsPerKey returns for any
   BloomFalsePositive), 32-bit wrap-around of `h += delta` and of the bit count included *)
Theorem C19_no_false_negative : forall (hs : list N) (bitsPerKey : Z) (f : bytes) (h : N),
  new_filter hs bitsPerKey = Some f -> In h hs -> may_contain f h = Some true.
Proof. exact BloomProofs.no_false_negative. Qed.
Print Assumptions C19_no_false_negative.
Example C19_no_false_negative_ex :
  exists f, new_filter [1; 2; 3; 4000000000] 10 = Some f /\ In 4000000000 [1; 2; 3; 4000000000].
Proof. eexists; split; [vm_compute; reflexivity | cbn; auto]. Qed.

(* the same for every number of probes k (not only the one appendFilter derives from bitsPerKey
   through float arithmetic) and every filter size >= 1 byte *)
Theorem C19_no_false_negative_any_k : forall (hs : list N) (k nbytes : N) (f : bytes) (h : N),
  k < 256 -> 1 <= nbytes -> append_filter_k hs k nbytes = Some f -> In h hs ->
  may_contain f h = Some true.
Proof. exact BloomProofs.no_false_negative_k. Qed.
Print Assumptions C19_no_false_negative_any_k.
Example C19_no_false_negative_any_k_ex :
  exists f, append_filter_k [5; 77] 3 2 = Some f /\ 3 < 256 /\ 1 <= 2.
Proof. eexists; split; [vm_compute; reflexivity | split; [reflexivity | discriminate]]. Qed.

(* NewFilter only fails (integer divide by zero) on a non-empty key set whose bit count wraps to
   0 in uint32; below 2^32 bits it always succeeds *)
Theorem C19_new_filter_panics_iff : forall hs bitsPerKey,
  new_filter hs bitsPerKey = None <->
  (nbytes_of (length hs) bitsPerKey * 8) mod two32 = 0 /\ hs <> [].
Proof. exact BloomProofs.new_filter_none. Qed.
Print Assumptions C19_new_filter_panics_iff.

Theorem C19_new_filter_total : forall hs bitsPerKey,
  nbytes_of (length hs) bitsPerKey * 8 < two32 -> exists f, new_filter hs bitsPerKey = Some f.
Proof. exact BloomProofs.new_filter_some. Qed.
Print Assumptions C19_new_filter_total.
Example C19_new_filter_total_ex : nbytes_of 1000 10 * 8 < two32. Proof. reflexivity. Qed.

(* shape: length formula, last byte is k, k in 1..30 (never the reserved range), >= 64 bits *)
Theorem C19_filter_shape : forall hs bitsPerKey f,
  new_filter hs bitsPerKey = Some f ->
  length f = S (N.to_nat (nbytes_of (length hs) bitsPerKey))
  /\ last f 0 = k_of_bits bitsPerKey
  /\ 1 <= last f 0 <= 30
  /\ (9 <= length f)%nat.
Proof. exact BloomProofs.new_filter_shape. Qed.
Print Assumptions C19_filter_shape.

(* keys: MayContainKey(k) = MayContain(Hash(k)); Hash is a uint32 *)
Theorem C19_no_false_negative_key : forall (keys : list bytes) bitsPerKey f key,
  new_filter (map hash keys) bitsPerKey = Some f -> In key keys ->
  may_contain_key f key = Some true.
Proof. exact BloomProofs.no_false_negative_key. Qed.
Print Assumptions C19_no_false_negative_key.

Theorem C19_hash_uint32 : forall b, hash b < two32.
Proof. exact BloomProofs.hash_lt. Qed.
Print Assumptions C19_hash_uint32.

(* table level: the builder hashes ParseKey(key) of every added internal key; the reader's
   DoesNotHave is false for each of them, with or without a filter (BloomFalsePositive = 0) *)
Theorem C19_does_not_have_added : forall (ikeys : list bytes) (fp_pos : bool) bitsPerKey bf ik,
  build_bloom ikeys fp_pos bitsPerKey = Some bf -> In ik ikeys ->
  does_not_have bf (hash (parse_key ik)) = Some false.
Proof. exact BloomProofs.does_not_have_added. Qed.
Print Assumptions C19_does_not_have_added.
Example C19_does_not_have_added_ex :
  exists bf, build_bloom [[1;2;0;0;0;0;0;0;0;9]] true 7 = Some bf.
Proof. eexists. vm_compute. reflexivity. Qed.

(* both entry points of the builder: entries added with Add (is_stale = false) and with
   AddStaleKey (is_stale = true: kept tombstones, expired entries, versions below a discard
   marker written by compaction) go through the same addHelper; the filter does not depend on
   the flag, and every key added either way is reported present *)
Theorem C19_stale_flag_irrelevant : forall (adds : list (bool * bytes)) fp_pos bitsPerKey,
  builder_hashes adds = key_hashes (map snd adds) /\
  build_bloom_adds adds fp_pos bitsPerKey = build_bloom (map snd adds) fp_pos bitsPerKey.
Proof. intros. split; [exact (BloomProofs.builder_hashes_flag_irrelevant adds) | exact (BloomProofs.build_bloom_adds_eq adds fp_pos bitsPerKey)]. Qed.
Print Assumptions C19_stale_flag_irrelevant.

Theorem C19_does_not_have_added_either_path : forall (adds : list (bool * bytes)) fp_pos bitsPerKey bf is_stale ik,
  build_bloom_adds adds fp_pos bitsPerKey = Some bf -> In (is_stale, ik) adds ->
  does_not_have bf (hash (parse_key ik)) = Some false.
Proof. exact BloomProofs.does_not_have_added_either. Qed.
Print Assumptions C19_does_not_have_added_either_path.
Example C19_either_path_ex :
  exists bf, build_bloom_adds [(false, [1;2;0;0;0;0;0;0;0;9]); (true, [3;0;0;0;0;0;0;0;4])] true 7 = Some bf.
Proof. eexists. vm_compute. reflexivity. Qed.

(* ... and neither Get nor a key iterator skips the table, MayContainKey(user key) holds *)
Theorem C19_never_skips_either_path : forall (adds : list (bool * bytes)) fp_pos bitsPerKey bf is_stale ik,
  build_bloom_adds adds fp_pos bitsPerKey = Some bf -> In (is_stale, ik) adds ->
  (forall key, parse_key key = parse_key ik -> get_skips_table bf key = Some false) /\
  pick_skips_table bf (parse_key ik) = Some false /\
  (bf <> [] -> may_contain_key bf (parse_key ik) = Some true).
Proof. exact BloomProofs.skips_never_either. Qed.
Print Assumptions C19_never_skips_either_path.

(* levelHandler.get(key) never skips a table that holds any version of key's user key *)
Theorem C19_get_never_skips : forall ikeys fp_pos bitsPerKey bf ik key,
  build_bloom ikeys fp_pos bitsPerKey = Some bf -> In ik ikeys ->
  parse_key key = parse_key ik ->
  get_skips_table bf key = Some false.
Proof. exact BloomProofs.get_never_skips. Qed.
Print Assumptions C19_get_never_skips.

(* pickTable / pickTables for a key iterator (prefixIsKey) never skip such a table *)
Theorem C19_pick_never_skips : forall ikeys fp_pos bitsPerKey bf ik prefix,
  build_bloom ikeys fp_pos bitsPerKey = Some bf -> In ik ikeys ->
  parse_key ik = prefix ->
  pick_skips_table bf prefix = Some false.
Proof. exact BloomProofs.pick_never_skips. Qed.
Print Assumptions C19_pick_never_skips.

(* garbage filters: shorter than 2 bytes => "absent"; reserved k > 30 => "may contain" *)
Theorem C19_may_contain_short : forall f h, (length f < 2)%nat -> may_contain f h = Some false.
Proof. exact BloomProofs.may_contain_short. Qed.
Print Assumptions C19_may_contain_short.

Theorem C19_may_contain_reserved : forall f h,
  (2 <= length f)%nat -> 30 < last f 0 -> may_contain f h = Some true.
Proof. exact BloomProofs.may_contain_reserved. Qed.
Print Assumptions C19_may_contain_reserved.
