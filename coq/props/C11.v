(* C11 — Commits after any re-open get timestamps above every stored version.
   Statements only; proofs are `exact` of lemmas in B/ReopenTsProofs.v.
   Covered here: clean close + Open, DropAll, every label of a running normal-mode DB, and Open
   of a directory that was not closed (crash): the replay of the memtable WALs, whose entries are
   in no particular version order (managed-mode commits, DB.Load, value-log GC rewrites,
   BanNamespace), as memTable.replayFunction folds it (proofs in B/WalOpenProofs.v).
   Not covered here: which WAL records survive a crash (C08-C10: the delivered entry sequence is
   the input here), the oracle during Load (C24), re-open after StreamWriter.Flush (C26).
   Managed mode: the commit timestamp is the caller's (Txn.CommitAt); the property is the
   caller's obligation there and the invariant is false (C11_managed_counterexample). *)
From Verif Require Import Bytes Keys Consts Spec Lsm Compact Iter Sys SysReopen WalOpen.
From Verif Require ReopenTsProofs WalOpenProofs.
From Coq Require Import Permutation.
Open Scope N_scope.

(* Open: nextTxnTs = MaxVersion + 1 is above every version stored in memtables and tables *)
Theorem C11_open_next_ts_above_versions : forall d ids e,
  In e (ReopenTsProofs.db_entries (reopen_db d ids)) -> e_ver e < max_version (reopen_db d ids) + 1.
Proof. exact ReopenTsProofs.reopen_next_above. Qed.
Print Assumptions C11_open_next_ts_above_versions.

(* the invariant (normal mode; nextTxnTs above every stored version; no pending write carries an
   explicit version) is kept by every accepted label: begin, set/delete, get, iterate, commit,
   discard, flush, compaction, close+open (read-write or read-only), DropAll, GetAt, CheckWf *)
Theorem C11_invariant_step : forall xs o xs',
  ReopenTsProofs.c11_inv (x_sys xs) -> xstep xs o = XOk xs' -> ReopenTsProofs.c11_inv (x_sys xs').
Proof. exact ReopenTsProofs.xstep_preserves_c11. Qed.
Print Assumptions C11_invariant_step.

(* every state a normal-mode history reaches *)
Theorem C11_next_ts_above_versions : forall detect nkeep nlevels next ops,
  let s := x_sys (snd (xexec (init_xsys false detect nkeep nlevels next) ops 0)) in
  forall e, In e (ReopenTsProofs.db_entries (s_db s)) -> e_ver e < s_next s.
Proof. exact ReopenTsProofs.next_ts_above_versions. Qed.
Print Assumptions C11_next_ts_above_versions.

(* hence: an accepted commit with writes gets ts = nextTxnTs, above every stored version, stamps
   all its entries with it, and advances nextTxnTs *)
Theorem C11_commit_ts_above_stored : forall s t x cts ts s',
  ReopenTsProofs.c11_inv s -> lookup (s_txns s) t = Some x -> x_pend x <> [] ->
  txn_commit s t x cts = (0, ts, s') -> x_done x = false ->
  (forall e, In e (ReopenTsProofs.db_entries (s_db s)) -> e_ver e < ts) /\
  ts = s_next s /\ s_next s' = ts + 1 /\
  (forall e, In e (commit_entries x ts) -> e_ver e = ts).
Proof. exact ReopenTsProofs.commit_ts_above. Qed.
Print Assumptions C11_commit_ts_above_stored.
Example C11_commit_ts_above_stored_ex :
  let x := mkTxn 3 true [] [([7], mkE [7] 0 0 0 0 [1])] [] false in
  let s := mkSys (mkLsm [mkE [7] 3 0 0 0 [0]] [] [[]; []]) 4 [] [(0, x)] false false 1 0 [] 0 in
  ReopenTsProofs.c11_inv s /\ lookup (s_txns s) 0 = Some x /\ x_pend x <> [] /\
  fst (txn_commit s 0 x 0) = (0, 4) /\ x_done x = false.
Proof.
  cbn zeta. repeat split; try discriminate; try reflexivity.
  - intros e. cbn. intros [<-|[]]. cbn. reflexivity.
  - repeat constructor; cbn; intros ? [<-|[]] || intros ? []; reflexivity.
Qed.

(* managed mode: a commit at a caller-chosen timestamp below a stored version is accepted *)
Theorem C11_managed_counterexample :
  let '(bad, xs) := xexec (init_xsys true false 1 4 1) ReopenTsProofs.managed_witness 0 in
  bad = None /\ exists e, In e (ReopenTsProofs.db_entries (s_db (x_sys xs))) /\ s_next (x_sys xs) <= e_ver e.
Proof. exact ReopenTsProofs.managed_commit_not_above. Qed.
Print Assumptions C11_managed_counterexample.

(* ---- re-open after a crash: the WAL replay ---- *)
(* memTable.replayFunction's running maximum, folded over the entries of a WAL in file order, is
   the maximum of the replayed versions for EVERY order of the WAL: it bounds each replayed
   version, and it is 0 or the version of a replayed entry *)
Theorem C11_wal_replay_max_is_maximum : forall wal,
  (forall e, In e wal -> e_ver e <= replay_max wal) /\
  (replay_max wal = 0 \/ exists e, In e wal /\ e_ver e = replay_max wal).
Proof. exact WalOpenProofs.replay_max_spec. Qed.
Print Assumptions C11_wal_replay_max_is_maximum.
Example C11_wal_replay_max_ex :
  let e k v := mkE [k] v 0 0 0 [] in
  replay_max [e 1 3; e 2 7; e 1 2; e 3 1] = 7 /\ replay_max [e 2 2; e 1 1] = 2 /\ replay_max [] = 0.
Proof. vm_compute. auto. Qed.

(* ... hence it does not depend on the order in which the WAL holds the entries *)
Theorem C11_wal_replay_max_order_irrelevant : forall wal wal',
  Permutation wal wal' -> replay_max wal = replay_max wal'.
Proof. exact WalOpenProofs.replay_max_perm. Qed.
Print Assumptions C11_wal_replay_max_order_irrelevant.

(* Open of a crashed directory (any WALs in any order, any tables): nextTxnTs, computed as the
   code computes it (replayFunction per WAL, table MaxVersion, DB.MaxVersion's update closure,
   + 1), is above every version in the recovered memtables and the tables *)
Theorem C11_crash_open_next_ts_above_versions : forall wals levels e,
  In e (ReopenTsProofs.db_entries (crash_open_db wals levels)) -> e_ver e < crash_open_next wals levels.
Proof. exact WalOpenProofs.crash_open_next_above. Qed.
Print Assumptions C11_crash_open_next_ts_above_versions.

(* ... and is exactly the largest stored version + 1 (max_version: the abstract maximum over the
   merged view that the clean-close theorems use) *)
Theorem C11_crash_open_next_ts_is_max_version_plus_one : forall wals levels,
  crash_open_next wals levels = max_version (crash_open_db wals levels) + 1.
Proof. exact WalOpenProofs.crash_open_next_eq. Qed.
Print Assumptions C11_crash_open_next_ts_is_max_version_plus_one.

(* the recovered normal-mode system satisfies the invariant, so by C11_invariant_step every state
   a history reaches after the recovery has nextTxnTs above every stored version (and by
   C11_commit_ts_above_stored every accepted commit gets such a timestamp) *)
Theorem C11_crash_open_invariant : forall detect nkeep now wals levels,
  ReopenTsProofs.c11_inv (crash_open_sys false detect nkeep now wals levels).
Proof. exact WalOpenProofs.crash_open_c11_inv. Qed.
Print Assumptions C11_crash_open_invariant.

Theorem C11_next_ts_above_versions_after_crash : forall detect nkeep now wals levels ops,
  let s := x_sys (snd (xexec (mkX (crash_open_sys false detect nkeep now wals levels) false) ops 0)) in
  forall e, In e (ReopenTsProofs.db_entries (s_db s)) -> e_ver e < s_next s.
Proof. exact WalOpenProofs.crash_open_then_history. Qed.
Print Assumptions C11_next_ts_above_versions_after_crash.
Example C11_crash_open_ex :
  let e k v := mkE [k] v 0 0 0 [] in
  let wals := [[e 1 2; e 2 9; e 3 1]; []; [e 1 4; e 1 3]] in
  let levels := [[mkT 7 [e 2 5]; mkT 4 [e 1 12; e 1 1]]; []] in
  crash_open_next wals levels = 13 /\ length (l_imm (crash_open_db wals levels)) = 2%nat /\
  crash_open_next [[e 1 2; e 2 9; e 3 1]] [[]] = 10.
Proof. vm_compute. auto. Qed.
