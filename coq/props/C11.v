(* C11 — Commits after any re-open get timestamps above every stored version.
   Statements only; proofs are `exact` of lemmas in B/ReopenTsProofs.v.
   Covered here: clean close + Open, DropAll, and every label of a running normal-mode DB.
   Not covered here: re-open after a crash (C08), after Load (C24), after StreamWriter.Flush (C26).
   Managed mode: the commit timestamp is the caller's (Txn.CommitAt); the property is the
   caller's obligation there and the invariant is false (C11_managed_counterexample). *)
From Verif Require Import Bytes Keys Consts Spec Lsm Compact Iter Sys SysReopen.
From Verif Require ReopenTsProofs.
Open Scope N_scope.

(* Open: nextTxnTs = MaxVersion + 1 is above every version stored in memtables and tables *)
Theorem C11_open_next_ts_above_versions : forall d ids e,
  In e (ReopenTsProofs.db_entries (reopen_db d ids)) -> e_ver e < max_version (reopen_db d ids) + 1.
Proof. exact ReopenTsProofs.reopen_next_above. Qed.
Print Assumptions C11_open_next_ts_above_versions.

(* the invariant (normal mode; nextTxnTs above every stored version; no pending write carries an
   explicit version) is kept by every accepted label: begin, set/delete, get, iterate, commit,
   discard, flush, compaction, close+open (read-write or read-only), DropAll, GetAt, CheckWf *)
Theorem C11_invariant_step : forall xs o xs',
  ReopenTsProofs.c11_inv (x_sys xs) -> xstep xs o = XOk xs' -> ReopenTsProofs.c11_inv (x_sys xs').
Proof. exact ReopenTsProofs.xstep_preserves_c11. Qed.
Print Assumptions C11_invariant_step.

(* every state a normal-mode history reaches *)
Theorem C11_next_ts_above_versions : forall detect nkeep nlevels next ops,
  let s := x_sys (snd (xexec (init_xsys false detect nkeep nlevels next) ops 0)) in
  forall e, In e (ReopenTsProofs.db_entries (s_db s)) -> e_ver e < s_next s.
Proof. exact ReopenTsProofs.next_ts_above_versions. Qed.
Print Assumptions C11_next_ts_above_versions.

(* hence: an accepted commit with writes gets ts = nextTxnTs, above every stored version, stamps
   all its entries with it, and advances nextTxnTs *)
Theorem C11_commit_ts_above_stored : forall s t x cts ts s',
  ReopenTsProofs.c11_inv s -> lookup (s_txns s) t = Some x -> x_pend x <> [] ->
  txn_commit s t x cts = (0, ts, s') -> x_done x = false ->
  (forall e, In e (ReopenTsProofs.db_entries (s_db s)) -> e_ver e < ts) /\
  ts = s_next s /\ s_next s' = ts + 1 /\
  (forall e, In e (commit_entries x ts) -> e_ver e = ts).
Proof. exact ReopenTsProofs.commit_ts_above. Qed.
Print Assumptions C11_commit_ts_above_stored.
Example C11_commit_ts_above_stored_ex :
  let x := mkTxn 3 true [] [([7], mkE [7] 0 0 0 0 [1])] [] false in
  let s := mkSys (mkLsm [mkE [7] 3 0 0 0 [0]] [] [[]; []]) 4 [] [(0, x)] false false 1 0 [] 0 in
  ReopenTsProofs.c11_inv s /\ lookup (s_txns s) 0 = Some x /\ x_pend x <> [] /\
  fst (txn_commit s 0 x 0) = (0, 4) /\ x_done x = false.
Proof.
  cbn zeta. repeat split; try discriminate; try reflexivity.
  - intros e. cbn. intros [<-|[]]. cbn. reflexivity.
  - repeat constructor; cbn; intros ? [<-|[]] || intros ? []; reflexivity.
Qed.

(* managed mode: a commit at a caller-chosen timestamp below a stored version is accepted *)
Theorem C11_managed_counterexample :
  let '(bad, xs) := xexec (init_xsys true false 1 4 1) ReopenTsProofs.managed_witness 0 in
  bad = None /\ exists e, In e (ReopenTsProofs.db_entries (s_db (x_sys xs))) /\ s_next (x_sys xs) <= e_ver e.
Proof. exact ReopenTsProofs.managed_commit_not_above. Qed.
Print Assumptions C11_managed_counterexample.
