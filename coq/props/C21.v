(* C21 — Merged iteration yields the sorted union with earliest-source precedence.
   Only theorem statements here; proofs are `exact <lemma>` from A/MergeIterProofs.v (generic key type)
   and A/MergeIterKeys.v (instance: byte-string keys, y.CompareKeys = Keys.compare_keys with its
   panic on keys shorter than 8 bytes, bytes.Equal = bytes_eqb).

   Reading guide.  [b_new_merge V rv inputs] is NewMergeIterator over one child cursor per input
   (balanced tree of MergeIterators; no input => nil, one input => the child itself);
   [b_run_ops] any sequence of Next / Rewind / Seek calls; [b_drain_all it] the entries
   (Key, Value) read by `for it.Valid() { ...; it.Next() }`.  Results are [Ok _]: the theorems also
   say that no call panics and no recursion fuel of the model is exhausted.
   [rv] is the reverse flag: every theorem is for both directions.
   Hypotheses = what the real code needs: every input strictly sorted by CompareKeys, keys and
   seek targets at least 8 bytes long (CompareKeys panics otherwise: modelled, see
   C21_compare_keys_panics).  Values are arbitrary (type V).
   [b_calls_ok]: Next on an exhausted *child* cursor is outside the children's contract (modelled
   as Panic: skl.Iterator asserts, ConcatIterator dereferences nil).  With two or more inputs the
   hypothesis holds for every call sequence (C21_calls_ok) and the theorems then also say that
   MergeIterator itself never makes such a call; with a single input NewMergeIterator returns the
   child itself and the caller must not call Next while !Valid. *)
From Verif Require Import Bytes Keys MergeIter MergeIterKeys MergeIterKeysProofs.
From Verif Require MergeIterProofs.
From Coq Require Import Sorted.

(* Rewind + Next* — from a fresh iterator or after any earlier calls — yields the sorted union
   [b_merged] (C21_union_spec says what that is), for any number >= 1 of inputs, empty ones and
   shared keys included *)
Theorem C21_merge : forall (V : Type) (rv : bool) (inputs : list (list (bytes * V))) (ops : list (op bytes)),
  inputs <> [] -> Forall (keys_good V) inputs -> Forall (keys_sorted V) inputs -> seeks_good ops ->
  b_calls_ok V rv inputs ops ->
  exists it0 it it',
    b_new_merge V rv inputs = Some it0 /\ b_run_ops V ops it0 = Ok it /\
    b_rewind V it = Ok it' /\ b_drain_all V it' = Ok (b_merged V rv inputs).
Proof. exact b_merge_rewind. Qed.
Print Assumptions C21_merge.

(* [b_merged]: strictly sorted in iteration order (ascending; descending when reversed); contains
   (k, v) iff (k, v) is in some input and no earlier input has key k; and it is the only such list *)
Theorem C21_union_spec : forall (V : Type) (rv : bool) (inputs : list (list (bytes * V))),
  Forall (keys_good V) inputs -> Forall (keys_sorted V) inputs ->
  b_sorted V rv (b_merged V rv inputs) /\
  (forall k v, In (k, v) (b_merged V rv inputs) <-> b_first_wins V inputs k v) /\
  (forall out, b_sorted V rv out -> (forall k v, In (k, v) out <-> b_first_wins V inputs k v) ->
               out = b_merged V rv inputs).
Proof. exact b_merged_spec. Qed.
Print Assumptions C21_union_spec.

Theorem C21_first_wins_index : forall (V : Type) (inputs : list (list (bytes * V))) k v,
  b_first_wins V inputs k v <->
  exists i l, nth_error inputs i = Some l /\ In (k, v) l /\
              forall j l', (j < i)%nat -> nth_error inputs j = Some l' -> ~ In k (map fst l').
Proof. exact b_first_wins_index. Qed.
Print Assumptions C21_first_wins_index.

(* Seek(k) + Next* yields the part of the sorted union at or after k (at or before k in reverse) *)
Theorem C21_seek : forall (V : Type) (rv : bool) (inputs : list (list (bytes * V))) (ops : list (op bytes)) (k : bytes),
  inputs <> [] -> Forall (keys_good V) inputs -> Forall (keys_sorted V) inputs -> seeks_good ops ->
  b_calls_ok V rv inputs ops -> good_key k ->
  exists it0 it it',
    b_new_merge V rv inputs = Some it0 /\ b_run_ops V ops it0 = Ok it /\
    b_seek V k it = Ok it' /\ b_drain_all V it' = Ok (b_skip V rv k (b_merged V rv inputs)).
Proof. exact b_merge_seek. Qed.
Print Assumptions C21_seek.

(* ... where [b_skip] keeps exactly the entries that are not before the target, in order; so the
   entry Seek lands on is the first one at or after (before, in reverse) the target *)
Theorem C21_seek_landing : forall (V : Type) (rv : bool) (inputs : list (list (bytes * V))) (k : bytes),
  Forall (keys_good V) inputs -> Forall (keys_sorted V) inputs ->
  b_sorted V rv (b_skip V rv k (b_merged V rv inputs)) /\
  forall e, In e (b_skip V rv k (b_merged V rv inputs)) <->
            In e (b_merged V rv inputs) /\ b_dcmp rv (fst e) k <> Lt.
Proof. exact b_skip_spec. Qed.
Print Assumptions C21_seek_landing.

(* full refinement: under arbitrary interleavings of Next / Rewind / Seek the iterator is a cursor
   over the sorted union: Valid / Key / Value read the head of, and draining yields, the list
   obtained by running the calls on that list (Next = tail, Rewind = whole list, Seek = b_skip) *)
Theorem C21_refines : forall (V : Type) (rv : bool) (inputs : list (list (bytes * V))) (ops : list (op bytes)),
  inputs <> [] -> Forall (keys_good V) inputs -> Forall (keys_sorted V) inputs -> seeks_good ops ->
  b_calls_ok V rv inputs ops ->
  exists it0 it,
    b_new_merge V rv inputs = Some it0 /\ b_run_ops V ops it0 = Ok it /\
    let rest := b_spec_run V rv (b_merged V rv inputs) ops [] in
    b_drain_all V it = Ok rest /\
    b_valid V it = (match rest with [] => false | _ => true end) /\
    (forall e s, rest = e :: s -> b_key V it = fst e /\ b_value V it = Some (snd e)).
Proof. exact b_merge_refines. Qed.
Print Assumptions C21_refines.

(* the side condition on the calls: nothing to check with two or more inputs; with one input,
   Next only on a non-empty remainder (computed on the specification side) *)
Theorem C21_calls_ok : forall (V : Type) (rv : bool) (inputs : list (list (bytes * V))) (ops : list (op bytes)),
  (2 <= length inputs)%nat -> b_calls_ok V rv inputs ops.
Proof. intros V rv inputs ops H. exact (or_introl H). Qed.
Print Assumptions C21_calls_ok.

Theorem C21_calls_ok_single : forall (V : Type) (rv : bool) (l : list (bytes * V)) (o : op bytes) (ops : list (op bytes)),
  b_calls_ok V rv [l] (o :: ops) <->
  (match o with OpNext => False | _ => True end) /\
  b_ops_safe V rv (b_merged V rv [l]) ops (MergeIterProofs.spec_op bytes V ckeys rv (b_merged V rv [l]) o []).
Proof.
  intros V rv l o ops. unfold b_calls_ok, b_ops_safe. cbn [length MergeIterProofs.ops_safe]. split.
  - intros [H|[H1 H2]]; [exfalso; revert H; apply Nat.lt_irrefl|]. split; [destruct o; auto|exact H2].
  - intros [H1 H2]. right. split; [destruct o; [contradiction|exact I|exact I]|exact H2].
Qed.
Print Assumptions C21_calls_ok_single.

(* no inputs: NewMergeIterator returns nil *)
Theorem C21_no_inputs : forall (V : Type) rv, b_new_merge V rv [] = None.
Proof. exact b_new_merge_nil. Qed.
Print Assumptions C21_no_inputs.

(* y.CompareKeys: panics exactly on keys shorter than 8 bytes; elsewhere it is the total order
   [ckeys] the theorems above are stated with *)
Theorem C21_compare_keys_panics : forall a b,
  compare_keys a b = None <-> ~ (good_key a /\ good_key b).
Proof. exact compare_keys_none. Qed.
Print Assumptions C21_compare_keys_panics.

Theorem C21_compare_keys_order :
  (forall a b, good_key a -> good_key b -> compare_keys a b = Some (ckeys a b)) /\
  (forall a b, ckeys a b = Eq <-> a = b) /\
  (forall a b, ckeys b a = CompOpp (ckeys a b)) /\
  (forall a b c, ckeys a b = Lt -> ckeys b c = Lt -> ckeys a c = Lt).
Proof. exact (conj compare_keys_good (conj ckeys_eq (conj ckeys_anti ckeys_trans))). Qed.
Print Assumptions C21_compare_keys_order.

(* the same refinement for ANY key type, comparison and equality test satisfying the order laws
   (the hypotheses are premises of the theorem, not axioms) *)
Theorem C21_refines_generic :
  forall (K V : Type) (cmp : K -> K -> option comparison) (keqb : K -> K -> bool) (knil : K)
         (tcmp : K -> K -> comparison) (good : K -> Prop),
  (forall a b, tcmp a b = Eq <-> a = b) ->
  (forall a b, tcmp b a = CompOpp (tcmp a b)) ->
  (forall a b c, tcmp a b = Lt -> tcmp b c = Lt -> tcmp a c = Lt) ->
  (forall a b, good a -> good b -> cmp a b = Some (tcmp a b)) ->
  (forall a b, keqb a b = true <-> a = b) ->
  forall (rv : bool) (inputs : list (list (K * V))) (ops : list (op K)),
  inputs <> [] ->
  Forall (MergeIterProofs.sorted K V tcmp) inputs ->
  Forall (MergeIterProofs.gkeys K V good) inputs ->
  Forall (MergeIterProofs.op_good K good) ops ->
  MergeIterProofs.calls_ok K V tcmp rv inputs ops ->
  exists it0 it,
    new_merge_inputs K V knil rv inputs = Some it0 /\
    run_ops K V cmp keqb knil ops it0 = Ok it /\
    let rest := MergeIterProofs.spec_run K V tcmp rv (MergeIterProofs.merged K V tcmp rv inputs) ops [] in
    drain_all K V cmp keqb knil it = Ok rest /\
    it_valid K V it = MergeIterProofs.nonempty K V rest /\
    (forall e s, rest = e :: s -> it_key K V knil it = fst e /\ it_value K V it = Some (snd e)).
Proof. exact MergeIterProofs.merge_refines. Qed.
Print Assumptions C21_refines_generic.

(* ---- the hypotheses are satisfiable; a concrete run ---- *)
Definition ex_k (c : N) (ts : N) : bytes := key_with_ts [c] ts.
Definition ex_inputs : list (list (bytes * N)) :=
  [ [(ex_k 97 5, 10%N); (ex_k 99 1, 11%N)];          (* input 0: a@5 c@1 *)
    [];                                              (* input 1: empty  *)
    [(ex_k 97 5, 20%N); (ex_k 98 3, 21%N)];          (* input 2: a@5 (shared) b@3 *)
    [(ex_k 98 3, 30%N); (ex_k 100 0, 31%N)] ].       (* input 3: b@3 (shared) d@0 *)

Example C21_ex_hyps :
  ex_inputs <> [] /\ Forall (keys_good N) ex_inputs /\ Forall (keys_sorted N) ex_inputs /\
  seeks_good [OpRewind; OpNext; OpSeek (ex_k 98 9)] /\ good_key (ex_k 98 9) /\
  b_calls_ok N false ex_inputs [OpRewind; OpNext; OpSeek (ex_k 98 9)].
Proof.
  split; [discriminate|].
  split; [repeat constructor; cbn; apply Nat.leb_le; reflexivity|].
  split; [repeat constructor|].
  split; [repeat constructor; cbn; apply Nat.leb_le; reflexivity|].
  split; [apply Nat.leb_le; reflexivity|].
  left. apply Nat.leb_le. reflexivity.
Qed.

Example C21_ex_forward :
  match b_new_merge N false ex_inputs with
  | Some it0 => match b_rewind N it0 with Ok it => b_drain_all N it | _ => Panic end
  | None => Panic
  end = Ok [(ex_k 97 5, 10%N); (ex_k 98 3, 21%N); (ex_k 99 1, 11%N); (ex_k 100 0, 31%N)].
Proof. vm_compute. reflexivity. Qed.

Example C21_ex_reverse_seek :
  match b_new_merge N true ex_inputs with
  | Some it0 => match b_seek N (ex_k 98 9) it0 with Ok it => b_drain_all N it | _ => Panic end
  | None => Panic
  end = Ok [(ex_k 97 5, 10%N)].
Proof. vm_compute. reflexivity. Qed.
