(* C03 — Commits are atomic, uniquely timestamped and visible to later readers.
   Statements only; proofs in B/TxnProofs.v.  Model: B/Sys.v at API granularity (Commit = conflict
   check + timestamp + application in one step: what writeChLock, the oracle lock and the txnMark
   wait in readTs give to every transaction that starts after Commit returned), extended in
   B/SysRejected.v with commits refused after timestamp allocation.  The windows inside a Commit
   (timestamp handed out, entries not yet applied / acknowledged) are exercised on the real DB by
   the concurrent stress in harness/conc.go and belong to C34's watermark contract. *)
From Verif Require Import Bytes Keys Consts Spec Lsm Iter Sys SysRejected TxnLog.
From Verif Require TxnProofs GetProofs CompactProofs.
Open Scope N_scope.
Import TxnProofs.

(* normal mode: the successful commits with writes get the timestamps next, next+1, ... in the order
   their Commits were issued: distinct, strictly increasing, and nextTxnTs = last + 1 *)
Theorem C03_ts_unique_increasing : forall nk nl next d ops s,
  exec (init_sys false d nk nl next) ops 0 = (None, s) ->
  let L := history (init_sys false d nk nl next) ops in
  consec next L /\ s_next s = next + N.of_nat (length L) /\
  (forall a b, before L a b -> cr_cts a < cr_cts b) /\ NoDup (map cr_cts L) /\
  Forall (fun c => cr_applied c = true) L.
Proof. exact TxnProofs.ts_unique_increasing. Qed.
Print Assumptions C03_ts_unique_increasing.

(* with commits refused after newCommitTs in the history (F12) the timestamps handed out are still
   distinct and increasing; a refused commit consumes its timestamp (a gap, no duplicate) *)
Theorem C03_ts_unique_increasing_x : forall nk nl next fx P s L,
  xreach P fx (init_xsys false true nk nl next) s L ->
  consec next L /\ s_next (x_base s) = next + N.of_nat (length L) /\
  (forall a b, before L a b -> cr_cts a < cr_cts b) /\ NoDup (map cr_cts L).
Proof. exact TxnProofs.x_ts_increasing. Qed.
Print Assumptions C03_ts_unique_increasing_x.

(* a transaction begun after a successful Commit reads at or above that commit's timestamp *)
Theorem C03_begin_after_commit : forall nk nl next d ops s t upd rts s' c,
  exec (init_sys false d nk nl next) ops 0 = (None, s) ->
  step s (Begin t upd rts) = Ok s' ->
  In c (history (init_sys false d nk nl next) ops) -> cr_cts c <= rts.
Proof. exact TxnProofs.begin_after_commit. Qed.
Print Assumptions C03_begin_after_commit.

(* ... and its Get of a key the commit wrote returns that write, or a newer committed write at or
   below its own read timestamp.  Histories without Compact labels (memtable flushes allowed); that
   compactions preserve every read at or above the discard watermark is C12. *)
Theorem C03_visible_after_commit_partial : forall nk nl next d ops s c e r,
  (0 < nl)%nat -> Forall (fun o => op_api o /\ op_nocompact o) ops ->
  exec (init_sys false d nk nl next) ops 0 = (None, s) ->
  In c (history (init_sys false d nk nl next) ops) -> In e (cr_wr c) -> cr_cts c <= r ->
  exists e', db_get (s_db s) (e_key e) r = Some e' /\ In e' (s_writes s) /\ e_key e' = e_key e /\
             cr_cts c <= e_ver e' /\ e_ver e' <= r /\
             (forall w, In w (s_writes s) -> e_key w = e_key e -> e_ver w <= r -> e_ver w <= e_ver e') /\
             (e_ver e' = cr_cts c -> e' = e).
Proof. exact TxnProofs.visible_after_commit. Qed.
Print Assumptions C03_visible_after_commit_partial.

(* Get at any timestamp is the newest applied write at or below it (same histories) *)
Theorem C03_get_is_newest_applied_write_partial : forall fx d nk nl next s L k r,
  (0 < nl)%nat -> xreach xop_api_nc fx (init_xsys false d nk nl next) s L ->
  db_get (s_db (x_base s)) k r = CompactProofs.newest (s_writes (x_base s)) k r.
Proof. exact TxnProofs.reach_get_newest. Qed.
Print Assumptions C03_get_is_newest_applied_write_partial.

(* atomicity: for any reader and any commit c, either none of c's entries can be returned
   (read timestamp below c: version filtering, holds for every tree) ... *)
Theorem C03_atomic_none : forall nk nl next d ops s c k r e',
  Forall op_api ops ->
  exec (init_sys false d nk nl next) ops 0 = (None, s) ->
  In c (history (init_sys false d nk nl next) ops) -> r < cr_cts c ->
  db_get (s_db s) k r = Some e' -> ~ In e' (cr_wr c).
Proof. exact TxnProofs.atomic_none. Qed.
Print Assumptions C03_atomic_none.

Theorem C03_lookup_never_above_read_ts : forall d k ts e, db_get d k ts = Some e -> e_ver e <= ts.
Proof. exact TxnProofs.db_get_ver_le. Qed.
Print Assumptions C03_lookup_never_above_read_ts.

(* the same for forward iterators without AllVersions *)
Theorem C03_iterator_never_above_read_ts : forall s x o seek e,
  io_all o = false -> io_reverse o = false -> In e (txn_iterate s x o seek) -> e_ver e <= x_read x.
Proof. exact TxnProofs.iterate_fwd_ver_le. Qed.
Print Assumptions C03_iterator_never_above_read_ts.

(* ... or all of them are in the tree at a version at or below the read timestamp (read timestamp at
   or above c: the commit was applied in one step) *)
Theorem C03_atomic_all_partial : forall nk nl next d ops s c e r,
  (0 < nl)%nat -> Forall (fun o => op_api o /\ op_nocompact o) ops ->
  exec (init_sys false d nk nl next) ops 0 = (None, s) ->
  In c (history (init_sys false d nk nl next) ops) -> cr_cts c <= r -> In e (cr_wr c) ->
  In e (GetProofs.all_entries (s_db s)) /\ e_ver e <= r.
Proof. exact TxnProofs.atomic_all. Qed.
Print Assumptions C03_atomic_all_partial.

(* a Commit rejected by conflict detection or on a discarded transaction leaves no trace *)
Theorem C03_rejected_no_trace_partial : forall s t x cts,
  fst (fst (txn_commit s t x cts)) <> 0 ->
  let s' := snd (txn_commit s t x cts) in
  s_db s' = s_db s /\ s_next s' = s_next s /\ s_committed s' = s_committed s /\ s_writes s' = s_writes s /\
  s_discard s' = s_discard s /\
  (forall t', t' <> t -> lookup (s_txns s') t' = lookup (s_txns s) t') /\
  (s_txns s' = s_txns s \/ lookup (s_txns s') t = Some (discard_txn x)).
Proof. exact TxnProofs.rejected_no_trace. Qed.
Print Assumptions C03_rejected_no_trace_partial.

(* a Commit refused by sendToWriteCh (ErrBlockedWrites, ErrTxnTooBig) writes nothing ... *)
Theorem C03_rejected_writes_nothing : forall fx s t x cts code,
  let s' := snd (rejected_commit fx s t x cts code) in
  s_db s' = s_db s /\ s_writes s' = s_writes s.
Proof. exact TxnProofs.x_rejected_writes_nothing. Qed.
Print Assumptions C03_rejected_writes_nothing.

(* ... FULL STATEMENT "and leaves no trace" is refuted on the pinned tree (finding F12): its
   conflict keys stay in the conflict log and its timestamp stays consumed; the visible consequence
   is C02_no_false_conflict_refuted (a later innocent transaction gets ErrConflict) *)
Theorem C03_rejected_no_trace_refuted :
  exists ops s t x,
    xexec false (init_xsys false true 1 1 1) ops 0 = (None, s) /\
    lookup (s_txns (x_base s)) t = Some x /\
    let '(code, _, s') := rejected_commit false (x_base s) t x 0 c_errTooBig in
    code = c_errTooBig /\ s_db s' = s_db (x_base s) /\ s_writes s' = s_writes (x_base s) /\
    s_committed s' <> s_committed (x_base s) /\ s_next s' <> s_next (x_base s).
Proof. exact TxnProofs.rejected_no_trace_refuted. Qed.
Print Assumptions C03_rejected_no_trace_refuted.

(* with the error path repaired (conflict-log entry rolled back: fx = true) the log is untouched *)
Theorem C03_rejected_no_trace_fixed : forall s t x cts code,
  s_committed (snd (rejected_commit true s t x cts code)) = s_committed s.
Proof. exact TxnProofs.x_rejected_no_trace_fixed. Qed.
Print Assumptions C03_rejected_no_trace_fixed.

(* ---- the hypotheses are satisfiable: two commits, a flush in between, a reader after both ---- *)
Definition C03_ex_ops : list op :=
  [ Begin 1 true 0; Modify 1 (mkE [107] 0 0 0 0 [1]) 0; Modify 1 (mkE [108] 0 0 0 0 [1]) 0; Commit 1 1 0;
    Flush 5;
    Begin 2 true 1; Modify 2 (mkE [107] 0 0 0 0 [2]) 0; Commit 2 2 0;
    Begin 3 false 2; Get 3 [107] (GFound (mkE [107] 2 0 0 0 [2])); Get 3 [108] (GFound (mkE [108] 1 0 0 0 [1])) ].
Example C03_ex_accepted :
  fst (exec (init_sys false true 1 2 1) C03_ex_ops 0) = None /\
  Forall (fun o => op_api o /\ op_nocompact o) C03_ex_ops /\
  map cr_cts (history (init_sys false true 1 2 1) C03_ex_ops) = [1; 2].
Proof. vm_compute. repeat split; repeat constructor. Qed.
