(* C32 — Subscribers get every matching committed write exactly once, in commit order.
   Statements only; every proof is `exact <lemma>` from A/TrieProofs.v / A/PublisherProofs.v.
   Models: A/Trie.v (trie/trie.go), A/Publisher.v (publisher.go, Subscribe's batching). *)
From Verif Require Import Bytes Keys Trie Publisher.
From Verif Require TrieProofs PublisherProofs.
Import TrieProofs PublisherProofs.
Open Scope N_scope.

(* ---- the trie ---------------------------------------------------------------------------
   After any sequence of AddMatch / DeleteMatch (run_tops from the empty trie), Get(key) contains
   id iff some live (pattern, id) pair matches key.  `live ops` is the list of (pattern, id) pairs
   in insertion order where Delete(pattern, id) removes EVERY copy of that pair (as fix(del)
   does); a pattern is the prefix with ignored positions blanked (mk_path), so two Match values
   that differ only in bytes at ignored positions, or in ignore entries beyond the prefix, are the
   same pattern. *)
Theorem C32_trie : forall ops key id,
  In id (get key (run_tops empty_node ops)) <->
  exists p, In (p, id) (live ops) /\ matches p key = true.
Proof.
  intros ops key id. unfold get. rewrite (norm_ids_in id (get_ids key (run_tops empty_node ops))).
  exact (trie_get_spec ops key id).
Qed.
Print Assumptions C32_trie.

(* a pattern matches iff it is no longer than the key and agrees with it on every non-ignored
   position *)
Theorem C32_matches_def : forall prefix ignore key,
  matches (mk_path prefix ignore) key = true <->
  (length prefix <= length key)%nat /\
  forall i, (i < length prefix)%nat -> nth i ignore false = true \/ nth i prefix 0 = nth i key 0.
Proof. exact matches_mk_path. Qed.
Print Assumptions C32_matches_def.

(* multiplicities exactly as the code keeps them: the ids slice of the node at a pattern's path
   is the list of ids added there and not deleted since, in insertion order, with repetitions *)
Theorem C32_trie_multiplicity : forall ops q,
  lookup q (run_tops empty_node ops) = ids_at q (live ops).
Proof. exact trie_paths. Qed.
Print Assumptions C32_trie_multiplicity.

(* what Get returns is a set: sorted, duplicate-free (the Go map's key set, canonicalised) *)
Theorem C32_get_is_set : forall key t, NoDup (get key t).
Proof. exact get_nodup. Qed.
Print Assumptions C32_get_is_set.

(* parseIgnoreBytes on parsed items "s" / "s-e": position i is ignored iff an item covers it
   (an item with e < s covers nothing) *)
Theorem C32_parse_ignore : forall rs i,
  nth i (parse_ignore_ranges rs) false = existsb (covers i) rs.
Proof. exact parse_ignore_ranges_spec. Qed.
Print Assumptions C32_parse_ignore.
Example C32_parse_ignore_ex : parse_ignore_ranges [(1, None); (3, Some 5)]%nat = [false; true; false; true; true; true].
Proof. reflexivity. Qed.

(* every reachable publisher state satisfies the invariant the delivery theorems assume *)
Theorem C32_reachable_inv : forall fx evs, pub_inv (run_pub fx pub_empty evs).
Proof. intros fx evs. exact (pub_inv_run fx evs pub_empty pub_inv_empty). Qed.
Print Assumptions C32_reachable_inv.

(* ---- delivery: exactly once, in application (= commit) order -------------------------------
   A subscriber registered (newSubscriber) in any reachable publisher state, and not removed,
   receives for the requests published afterwards exactly the KVs (user key, value, user meta,
   expiry, version) of the entries whose TRIE KEY matches one of its patterns — one KV per entry,
   in application order; other subscribers may come and go.  fx = false is the pinned tree: the trie
   key is the internal key (user key ++ 8 version bytes); fx = true (repair) uses the user key. *)
Theorem C32_exactly_once_in_order : forall fx p ms evs,
  pub_inv p ->
  Forall (fun e => e <> PUnsub (p_next p)) evs ->
  batch_get (p_next p) (p_recv (run_pub fx (new_subscriber p ms) evs)) =
  map kv_of (filter (fun e => sub_matches_key ms (trie_key fx e)) (published evs)).
Proof. exact exactly_once_in_order. Qed.
Print Assumptions C32_exactly_once_in_order.
Example C32_exactly_once_ex : pub_inv pub_empty /\ Forall (fun e => e <> PUnsub (p_next pub_empty)) [PPublish [[w13_entry]]].
Proof. split; [exact pub_inv_empty|constructor; [discriminate|constructor]]. Qed.

(* FULL STATEMENT of the property (user keys), false of the pinned tree (finding F13):
     forall p ms evs, pub_inv p -> Forall (fun e => e <> PUnsub (p_next p)) evs ->
       (forall e, In e (published evs) -> 8 <= length (pe_key e)) ->
       batch_get (p_next p) (p_recv (run_pub false (new_subscriber p ms) evs)) =
       map kv_of (filter (fun e => sub_matches_key ms (parse_key (pe_key e))) (published evs))
   It holds for the repaired lookup: *)
Theorem C32_exactly_once_in_order_fixed : forall p ms evs,
  pub_inv p ->
  Forall (fun e => e <> PUnsub (p_next p)) evs ->
  batch_get (p_next p) (p_recv (run_pub true (new_subscriber p ms) evs)) =
  map kv_of (filter (fun e => sub_matches_key ms (parse_key (pe_key e))) (published evs)).
Proof. intros p ms evs. exact (exactly_once_in_order true p ms evs). Qed.
Print Assumptions C32_exactly_once_in_order_fixed.

(* refutation: the subscriber with the single pattern "a\xff" receives the write of user key "a"
   at version 1, which matches none of its patterns *)
Theorem C32_no_spurious_refuted :
  exists p ms evs e,
    pub_inv p /\ Forall (fun ev => ev <> PUnsub (p_next p)) evs /\
    In e (published evs) /\ sub_matches_key ms (parse_key (pe_key e)) = false /\
    In (kv_of e) (batch_get (p_next p) (p_recv (run_pub false (new_subscriber p ms) evs))).
Proof. exact no_spurious_refuted. Qed.
Print Assumptions C32_no_spurious_refuted.

(* pinned tree, precise condition: no published entry whose internal key matches a pattern while
   its user key matches none *)
Theorem C32_no_spurious_partial : forall p ms evs,
  pub_inv p -> Forall (fun e => e <> PUnsub (p_next p)) evs ->
  (forall e, In e (published evs) -> (8 <= length (pe_key e))%nat /\ spurious_free ms e) ->
  batch_get (p_next p) (p_recv (run_pub false (new_subscriber p ms) evs)) =
  map kv_of (filter (fun e => sub_matches_key ms (parse_key (pe_key e))) (published evs)).
Proof. exact no_spurious_partial. Qed.
Print Assumptions C32_no_spurious_partial.

(* sufficient condition: every pattern is no longer than every published user key *)
Theorem C32_no_spurious_short_patterns : forall p ms evs,
  pub_inv p -> Forall (fun e => e <> PUnsub (p_next p)) evs ->
  (forall e, In e (published evs) -> (8 <= length (pe_key e))%nat /\
     forall m, In m ms -> (length (fst m) <= length (parse_key (pe_key e)))%nat) ->
  batch_get (p_next p) (p_recv (run_pub false (new_subscriber p ms) evs)) =
  map kv_of (filter (fun e => sub_matches_key ms (parse_key (pe_key e))) (published evs)).
Proof. exact no_spurious_short_patterns. Qed.
Print Assumptions C32_no_spurious_short_patterns.
Example C32_no_spurious_short_ex :
  forall e, In e (published [PPublish [[w13_entry]]]) -> (8 <= length (pe_key e))%nat /\
    forall m : pmatch, In m [([97], [])] -> (length (fst m) <= length (parse_key (pe_key e)))%nat.
Proof.
  intros e [<-|[]]. split; [vm_compute; lia|]. intros m [<-|[]]. vm_compute. lia.
Qed.

(* completeness holds on the pinned tree as well: among the deliveries, those for matching user
   keys are exactly the matching writes, once each, in order (the defect only ADDS deliveries) *)
Theorem C32_complete : forall p ms evs,
  pub_inv p -> Forall (fun e => e <> PUnsub (p_next p)) evs ->
  (forall e, In e (published evs) -> (8 <= length (pe_key e))%nat) ->
  exists delivered,
    batch_get (p_next p) (p_recv (run_pub false (new_subscriber p ms) evs)) = map kv_of delivered /\
    filter (fun e => sub_matches_key ms (parse_key (pe_key e))) delivered =
    filter (fun e => sub_matches_key ms (parse_key (pe_key e))) (published evs).
Proof. exact complete_on_pinned_tree. Qed.
Print Assumptions C32_complete.
