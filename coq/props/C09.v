(* C09 — A torn tail of the newest WAL / value log is recovered, not surfaced (log part).
   The MANIFEST theorems of C09 (C09_manifest_truncated, C09_manifest_zero_filled) live in the
   C17 development (A/Manifest*.v) and are merged into this file by the integrator.
   Only theorem statements.  Models: A/LogRecord.v (safeRead.Entry), A/LogIter.v (logFile.iterate);
   memTable.UpdateSkipList / valueLog.open truncate the file at the returned valid end offset, so
   "iterate returns (deliveries, Done end)" is "Open succeeds, replays exactly these entries and
   cuts the file at end".  `tail_rejected img off` is the decidable statement "the first read on
   img stops the iteration": EOF, short read, errTruncate (key length limit or checksum mismatch),
   or the zero entry. *)
From Verif Require Import Bytes Uvarint Keys Codec Consts Crc32c LogRecord LogIter.
From Verif Require Crc32cProofs LogProofs LogIterProofs.
Import LogProofs LogIterProofs.
Open Scope N_scope.

(* the newest log ends in a partially written record, the rest missing (cut at ANY byte):
   exactly the complete units before the damage are delivered, valid end = their end *)
Theorem C09_log_truncated : forall encrypted xs base_iv, keystream_ok xs ->
  forall us off e p s, Forall wf_unit us -> off + units_size us < two32 -> wf_entry e ->
  encode_entry encrypted xs base_iv e (off + units_size us) = p ++ s -> s <> [] ->
  iterate encrypted xs base_iv (encode_units encrypted xs base_iv us off ++ p) off
  = (unit_dels us off, Done (off + units_size us)).
Proof.
  intros encrypted xs base_iv (H1 & H2 & H3) us off e p s HU B W E Hs.
  apply (iterate_units_rejected_tail encrypted xs base_iv H1 H2 H3 us off p HU B).
  exact (strict_prefix_rejected encrypted xs base_iv H1 H2 H3 e _ p s W E Hs).
Qed.
Print Assumptions C09_log_truncated.
Example C09_log_truncated_ex :
  Forall wf_unit ex_units /\ wf_entry ex_t1 /\
  (let r := encode_entry false xs_id [] ex_t1 (20 + units_size ex_units) in
   r = firstn 9 r ++ skipn 9 r /\ skipn 9 r <> []) /\
  iterate false xs_id [] (encode_units false xs_id [] ex_units 20
                          ++ firstn 9 (encode_entry false xs_id [] ex_t1 (20 + units_size ex_units))) 20
  = (unit_dels ex_units 20, Done (20 + units_size ex_units)).
Proof.
  split; [exact ex_units_wf|]. split; [wf_entry_tac|]. split; [|vm_compute; reflexivity].
  cbv zeta. split; [symmetry; apply firstn_skipn | vm_compute; congruence].
Qed.

(* the same with the rest of the file zero-filled (mmap'd file of fixed size / lost pages), cut at
   ANY byte j, any amount n of zero fill: the reader never fails with an error that would make
   Open fail, and never panics (C09_torn_no_error); and unless the torn image is itself read back
   as a record with a matching CRC-32C (crc_accepts: a checksum collision on that specific image,
   or a "torn" image that is in fact the intact record), exactly the units before it are delivered *)
Theorem C09_torn_no_error : forall encrypted xs base_iv, keystream_ok xs ->
  forall e off j n, wf_entry e ->
  let r := safe_read encrypted xs base_iv
             (firstn j (encode_entry encrypted xs base_iv e off) ++ repeat 0 n) off in
  r <> RdErr /\ r <> RdPanic.
Proof. intros encrypted xs base_iv (H1 & _). exact (safe_read_torn_no_error encrypted xs base_iv H1). Qed.
Print Assumptions C09_torn_no_error.

Theorem C09_log_zero_filled : forall encrypted xs base_iv, keystream_ok xs ->
  forall us off e j n, Forall wf_unit us -> off + units_size us < two32 -> wf_entry e ->
  let img := firstn j (encode_entry encrypted xs base_iv e (off + units_size us)) ++ repeat 0 n in
  crc_accepts encrypted xs base_iv img (off + units_size us) = false ->
  iterate encrypted xs base_iv (encode_units encrypted xs base_iv us off ++ img) off
  = (unit_dels us off, Done (off + units_size us)).
Proof.
  intros encrypted xs base_iv (H1 & H2 & H3) us off e j n HU B W img A.
  apply (iterate_units_rejected_tail encrypted xs base_iv H1 H2 H3 us off _ HU B).
  exact (torn_rejected_unless_accepted encrypted xs base_iv H1 e _ j n W A).
Qed.
Print Assumptions C09_log_zero_filled.
Example C09_log_zero_filled_ex :
  crc_accepts false xs_id [] (firstn 13 (encode_entry false xs_id [] ex_t1 (20 + units_size ex_units)) ++ repeat 0 30)
              (20 + units_size ex_units) = false.
Proof. vm_compute. reflexivity. Qed.

(* ... unconditionally when the cut is at a record boundary (zero fill only: the zero header
   decodes as the zero entry, its checksum is not the stored 0 / the file ends) ... *)
Theorem C09_zero_fill_boundary : forall encrypted xs base_iv, keystream_ok xs ->
  forall us off n, Forall wf_unit us -> off + units_size us < two32 ->
  iterate encrypted xs base_iv (encode_units encrypted xs base_iv us off ++ repeat 0 n) off
  = (unit_dels us off, Done (off + units_size us)).
Proof.
  intros encrypted xs base_iv (H1 & H2 & H3) us off n HU B.
  apply (iterate_units_rejected_tail encrypted xs base_iv H1 H2 H3 us off _ HU B).
  exact (zeros_rejected encrypted xs base_iv H1 H2 H3 n _).
Qed.
Print Assumptions C09_zero_fill_boundary.

(* ... and unconditionally when at most the two meta bytes of the record were written (the
   zero-filled header then has key length 0: checksum mismatch or zero entry, both stop) *)
Theorem C09_zero_fill_short_cut : forall encrypted xs base_iv, keystream_ok xs ->
  forall us off e j n, Forall wf_unit us -> off + units_size us < two32 -> (j <= 2)%nat ->
  iterate encrypted xs base_iv
    (encode_units encrypted xs base_iv us off
     ++ firstn j (encode_entry encrypted xs base_iv e (off + units_size us)) ++ repeat 0 n) off
  = (unit_dels us off, Done (off + units_size us)).
Proof.
  intros encrypted xs base_iv (H1 & H2 & H3) us off e j n HU B Hj.
  apply (iterate_units_rejected_tail encrypted xs base_iv H1 H2 H3 us off _ HU B).
  exact (short_cut_rejected encrypted xs base_iv H1 H2 H3 e _ j n Hj).
Qed.
Print Assumptions C09_zero_fill_short_cut.

(* a transaction whose end marker is not intact is dropped as a whole: complete transactional
   entries followed by anything on which the first read is rejected (nothing, a torn entry, a torn
   or zero-filled marker) deliver nothing, and the valid end stays before the transaction *)
Theorem C09_txn_dropped : forall encrypted xs base_iv, keystream_ok xs ->
  forall us off ts es t, Forall wf_unit us -> Forall (wf_txn_entry ts) es -> ts <> 0 ->
  off + units_size us + entries_size es < two32 ->
  tail_rejected encrypted xs base_iv t (off + units_size us + entries_size es) = true ->
  iterate encrypted xs base_iv
    (encode_units encrypted xs base_iv us off
     ++ encode_entries encrypted xs base_iv es (off + units_size us) ++ t) off
  = (unit_dels us off, Done (off + units_size us)).
Proof. intros encrypted xs base_iv (H1 & H2 & H3). exact (iterate_partial_txn encrypted xs base_iv H1 H2 H3). Qed.
Print Assumptions C09_txn_dropped.

(* instance: the marker (or any further record of the transaction) is cut at any byte *)
Theorem C09_txn_marker_torn : forall encrypted xs base_iv, keystream_ok xs ->
  forall us off ts es m p s, Forall wf_unit us -> Forall (wf_txn_entry ts) es -> ts <> 0 ->
  off + units_size us + entries_size es < two32 -> wf_entry m ->
  encode_entry encrypted xs base_iv m (off + units_size us + entries_size es) = p ++ s -> s <> [] ->
  iterate encrypted xs base_iv
    (encode_units encrypted xs base_iv us off
     ++ encode_entries encrypted xs base_iv es (off + units_size us) ++ p) off
  = (unit_dels us off, Done (off + units_size us)).
Proof.
  intros encrypted xs base_iv (H1 & H2 & H3) us off ts es m p s HU HE Hts B W E Hs.
  apply (iterate_partial_txn encrypted xs base_iv H1 H2 H3 us off ts es p HU HE Hts B).
  exact (strict_prefix_rejected encrypted xs base_iv H1 H2 H3 m _ p s W E Hs).
Qed.
Print Assumptions C09_txn_marker_torn.
Example C09_txn_marker_torn_ex :
  Forall (wf_txn_entry 9) [ex_t1; ex_t2] /\
  iterate false xs_id [] (encode_units false xs_id [] [UPlain ex_plain] 20
     ++ encode_entries false xs_id [] [ex_t1; ex_t2] (20 + units_size [UPlain ex_plain])
     ++ firstn 20 (encode_entry false xs_id [] ex_marker
                     (20 + units_size [UPlain ex_plain] + entries_size [ex_t1; ex_t2]))) 20
  = (unit_dels [UPlain ex_plain] 20, Done (20 + units_size [UPlain ex_plain])).
Proof.
  split; [|vm_compute; reflexivity].
  repeat constructor; try wf_entry_tac; try (vm_compute; congruence).
Qed.

(* FOR EVERY BYTE STRING: whatever is delivered was read from a checksum-valid record image at
   its offset (header bytes hb, stored key|value kv whose decryption is the delivered key|value,
   stored checksum = crc32c(hb|kv)); so the bytes of a damaged record are never returned as data
   unless the damaged image itself carries a matching CRC-32C *)
Theorem C09_never_returned : forall encrypted xs base_iv, keystream_ok xs ->
  forall buf off d, off < two32 ->
  In d (fst (iterate encrypted xs base_iv buf off)) -> valid_image encrypted xs base_iv buf off d.
Proof. intros encrypted xs base_iv (H1 & H2 & H3). exact (delivered_valid encrypted xs base_iv H1 H2 H3). Qed.
Print Assumptions C09_never_returned.

(* ---- MANIFEST part of C09 (model and proofs: A/Manifest*.v, developed with C17) ---- *)
From Verif Require Import Crc32cM Manifest.
From Verif Require ManifestMapProofs ManifestPbProofs ManifestProofs ManifestRunProofs ManifestWitness.
(* FULL STATEMENT (C09_manifest_truncated) — FALSE for the pinned tree (C09_manifest_truncated_refuted):
     for F = mf_image ext css (all applying) and every strict prefix p of a further record,
     replay ext (F ++ p) = ROk (state after css) (offset |F|).
   It holds exactly when the 8-byte record prefix did not survive or the payload length does not
   exceed the size of the cut file: *)
Theorem C09_manifest_truncated_partial : forall ext css m' C payload p s,
  ext < 65536 ->
  Forall (fun cs => wf_changeset cs = true) css ->
  apply_sets empty_manifest css = (m', None) ->
  N.of_nat (length payload) < two32 -> s <> [] ->
  p ++ s = be_enc 4 (N.of_nat (length payload)) ++ be_enc 4 C ++ payload ->
  N.of_nat (length (mf_image ext css ++ p)) < two32 ->
  ((length p < 8)%nat \/ (length payload <= length (mf_image ext css ++ p))%nat) ->
  replay ext (mf_image ext css ++ p) = ROk m' (N.of_nat (length (mf_image ext css))).
Proof. exact ManifestProofs.replay_torn_ok. Qed.
Print Assumptions C09_manifest_truncated_partial.

(* ... and otherwise replay fails (finding F16), for every such cut: *)
Theorem C09_manifest_truncated_lensize : forall ext css m' C payload p s,
  ext < 65536 ->
  Forall (fun cs => wf_changeset cs = true) css ->
  apply_sets empty_manifest css = (m', None) ->
  N.of_nat (length payload) < two32 -> s <> [] ->
  p ++ s = be_enc 4 (N.of_nat (length payload)) ++ be_enc 4 C ++ payload ->
  N.of_nat (length (mf_image ext css ++ p)) < two32 ->
  (8 <= length p)%nat -> (length (mf_image ext css ++ p) < length payload)%nat ->
  replay ext (mf_image ext css ++ p) = RErr ELenGtSize.
Proof. exact ManifestProofs.replay_torn_lensize. Qed.
Print Assumptions C09_manifest_truncated_lensize.

Theorem C09_manifest_truncated_refuted :
  exists ext css m' payload n,
    ext < 65536 /\ Forall (fun cs => wf_changeset cs = true) css
    /\ apply_sets empty_manifest css = (m', None)
    /\ (n < length (mf_record payload))%nat
    /\ replay ext (mf_image ext css ++ firstn n (mf_record payload)) = RErr ELenGtSize.
Proof. exact ManifestWitness.truncated_refuted. Qed.
Print Assumptions C09_manifest_truncated_refuted.

(* helpOpenOrCreateManifestFile (the MANIFEST part of Open) on such a file: it is cut back to
   the whole records and the live table map is theirs *)
Theorem C09_manifest_open_truncates : forall cfg css m' p man0,
  cfg_ext cfg < 65536 ->
  Forall (fun cs => wf_changeset cs = true) css ->
  apply_sets empty_manifest css = (m', None) ->
  replay (cfg_ext cfg) (mf_image (cfg_ext cfg) css ++ p)
    = ROk m' (N.of_nat (length (mf_image (cfg_ext cfg) css))) ->
  exists live,
    reopen cfg (mkMF (mf_image (cfg_ext cfg) css ++ p) man0)
    = (mkMF (mf_image (cfg_ext cfg) css) live,
       OReopened (N.of_nat (length (mf_image (cfg_ext cfg) css))))
    /\ m_tables live = m_tables m'.
Proof. exact ManifestRunProofs.reopen_torn. Qed.
Print Assumptions C09_manifest_open_truncates.

(* FULL STATEMENT (C09_manifest_zero_filled) — FALSE for the pinned tree (finding F5):
     ... replay ext (F ++ p ++ zeros) = ROk (state after css) _ .                               *)
Theorem C09_manifest_zero_filled_refuted :
  exists ext css m' payload n,
    ext < 65536 /\ Forall (fun cs => wf_changeset cs = true) css
    /\ apply_sets empty_manifest css = (m', None)
    /\ (n < length (mf_record payload))%nat
    /\ replay ext (mf_image ext css ++ firstn n (mf_record payload)
                   ++ repeat 0 (length (mf_record payload) - n)) = RErr EBadChecksum.
Proof. exact ManifestWitness.zero_filled_refuted. Qed.
Print Assumptions C09_manifest_zero_filled_refuted.

(* what holds: when only zero bytes follow the whole records (the cut is at a record boundary,
   or every surviving byte of the torn record is zero) they read as empty change sets: the
   state is the one before the damage; truncOffset covers the whole 8-byte zero records *)
Theorem C09_manifest_zero_filled_partial : forall ext css m' k,
  ext < 65536 ->
  Forall (fun cs => wf_changeset cs = true) css ->
  apply_sets empty_manifest css = (m', None) ->
  N.of_nat (length (mf_image ext css) + k) < two32 ->
  replay ext (mf_image ext css ++ repeat 0 k)
  = ROk m' (N.of_nat (length (mf_image ext css)) + 8 * N.of_nat (k / 8)).
Proof. exact ManifestProofs.replay_zero_tail. Qed.
Print Assumptions C09_manifest_zero_filled_partial.
