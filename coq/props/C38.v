(* C38 — Public calls and Close always return (no deadlock).
   Statements only; every proof is `exact <lemma>` from coq/B/Blocking*Proofs.v.

   The model (coq/B/Blocking.v) is the blocking structure of the write path, flush, compaction,
   readTs, value-log GC token, DropAll/DropPrefix and Close as a labelled transition system
   `step strict c s l`; strict = false is the code as written, strict = true removes the
   SCHEDULES (not code) named (h1), (h2), (h3) in Blocking.v.  `pending s` = some public call has
   begun and not returned; `work l` = l is not the arrival of a new call nor the optional
   start of a compaction that does not touch level 0.

   FULL-STRENGTH statement (false on the pinned tree, see C38_no_stuck_state_refuted):
     forall c s, cfg_ok c -> reach false c s -> pending s = true ->
       exists l s', work l = true /\ step false c s l = Some s'.

   Fairness assumption for reading C38_progress / C38_close_completes as liveness of the real
   system: every goroutine whose next transition stays enabled eventually takes it (Go
   scheduler), user callbacks return, and only finitely many new calls / optional compactions
   begin; then the executed work transitions form a work-only path, which the theorems bound. *)
From Coq Require Import List Arith Bool.
Import ListNotations.
From Verif Require Import Blocking.
From Verif Require BlockingProofs BlockingLiveProofs BlockingRefuteProofs.

(* no deadlock, for every reachable state of every strict schedule: if a public call is pending,
   some work transition is enabled (and it is a transition of the code as written) *)
Theorem C38_no_stuck_state_partial : forall c s, cfg_ok c -> reach true c s -> pending s = true ->
  exists l s', work l = true /\ step true c s l = Some s' /\ step false c s l = Some s'.
Proof. exact BlockingRefuteProofs.no_stuck_reach. Qed.
Print Assumptions C38_no_stuck_state_partial.
Example C38_hyp_ex : cfg_ok cfgW /\ exists s, exec true cfgW (init cfgW) BlockingRefuteProofs.sched_busy_close = Some s /\
  clo s = CGC /\ l0 s = cS cfgW /\ fl s = FBuild /\ mt s = MtFull /\ wch s = 1 /\ lockq s = 1 /\ hold s = HTs
  /\ rdwait s = 1 /\ pending s = true.
Proof. split; [exact BlockingRefuteProofs.cfgW_ok | exact BlockingRefuteProofs.busy_close_reach]. Qed.

(* the full-strength statement is false of the code as written *)
Theorem C38_no_stuck_state_refuted :
  ~ (forall c s, cfg_ok c -> reach false c s -> pending s = true ->
       exists l s', work l = true /\ step false c s l = Some s').
Proof. exact BlockingRefuteProofs.no_stuck_state_refuted. Qed.
Print Assumptions C38_no_stuck_state_refuted.

(* finding F14, hang flavour: a Commit that passed its blockWrites check before Close began sends
   after the writer goroutine's last look at writeCh: Close returns, the Commit is pending, no
   work transition is enabled, and on EVERY continuation the request is still in the channel *)
Theorem C38_close_race_refuted :
  reach false cfgW BlockingRefuteProofs.st_f14_hang /\ clo BlockingRefuteProofs.st_f14_hang = CDone /\
  crashed BlockingRefuteProofs.st_f14_hang = false /\
  pending BlockingRefuteProofs.st_f14_hang = true /\ o_hung_commit (observe BlockingRefuteProofs.st_f14_hang) = 1 /\
  (forall l, work l = true -> step false cfgW BlockingRefuteProofs.st_f14_hang l = None) /\
  (forall ls s', exec false cfgW BlockingRefuteProofs.st_f14_hang ls = Some s' -> 1 <= wch s' /\ pending s' = true).
Proof. exact BlockingRefuteProofs.close_race_hang. Qed.
Print Assumptions C38_close_race_refuted.

(* finding F14, panic flavour: the send happens after close(db.writeCh) *)
Theorem C38_close_race_panic_refuted :
  reach false cfgW BlockingRefuteProofs.st_f14_panic /\ crashed BlockingRefuteProofs.st_f14_panic = true /\
  (forall l, step false cfgW BlockingRefuteProofs.st_f14_panic l = None).
Proof. exact BlockingRefuteProofs.close_race_panic. Qed.
Print Assumptions C38_close_race_panic_refuted.

(* NewTransaction racing Close: orc.Stop() ends the watermark goroutine while a commit timestamp
   is outstanding; the waiting NewTransaction never returns *)
Theorem C38_newtxn_race_refuted :
  reach false cfgW BlockingRefuteProofs.st_newtxn_hang /\ clo BlockingRefuteProofs.st_newtxn_hang = CDone /\
  crashed BlockingRefuteProofs.st_newtxn_hang = false /\
  pending BlockingRefuteProofs.st_newtxn_hang = true /\ o_hung_read (observe BlockingRefuteProofs.st_newtxn_hang) = 1 /\
  o_hung_commit (observe BlockingRefuteProofs.st_newtxn_hang) = 0 /\
  (forall l, work l = true -> step false cfgW BlockingRefuteProofs.st_newtxn_hang l = None) /\
  (forall ls s', exec false cfgW BlockingRefuteProofs.st_newtxn_hang ls = Some s' -> 1 <= rdwait s' /\ pending s' = true).
Proof. exact BlockingRefuteProofs.newtxn_race_hang. Qed.
Print Assumptions C38_newtxn_race_refuted.

(* DropPrefix racing a commit (no Close involved): the commit passed its blockWrites check before
   DropPrefix blocked writes and sends after prepareToDrop's drain; DropPrefix then waits, in the
   View of filterPrefixesToDrop, for that commit's timestamp, while the commit waits for the
   writer that DropPrefix restarts only on return *)
Theorem C38_drop_race_refuted :
  reach false cfgW BlockingRefuteProofs.st_drop_hang /\ clo BlockingRefuteProofs.st_drop_hang = CNot /\
  crashed BlockingRefuteProofs.st_drop_hang = false /\
  pending BlockingRefuteProofs.st_drop_hang = true /\ drp BlockingRefuteProofs.st_drop_hang = DView /\
  o_hung_commit (observe BlockingRefuteProofs.st_drop_hang) = 1 /\
  (forall l, work l = true -> step false cfgW BlockingRefuteProofs.st_drop_hang l = None) /\
  (forall ls s', exec false cfgW BlockingRefuteProofs.st_drop_hang ls = Some s' ->
     drp s' = DView /\ 1 <= wch s' /\ pending s' = true).
Proof. exact BlockingRefuteProofs.drop_race_hang. Qed.
Print Assumptions C38_drop_race_refuted.

(* progress: mu strictly decreases along every work transition; so every work-only path from a
   reachable state has at most mu steps, one of them ends with no call pending, and the
   executable scheduler `run` gets there within mu steps *)
Theorem C38_progress : forall c s, cfg_ok c -> reach true c s ->
  (forall l s', work l = true -> step true c s l = Some s' -> mu c s' < mu c s) /\
  (forall n s', BlockingLiveProofs.wpath c s n s' -> n + mu c s' <= mu c s) /\
  (exists n s', n <= mu c s /\ BlockingLiveProofs.wpath c s n s' /\ pending s' = false) /\
  pending (run true c (mu c s) s) = false.
Proof. exact BlockingRefuteProofs.progress_reach. Qed.
Print Assumptions C38_progress.

(* Close, once begun, returns — with writes in flight at any stage, memtables full, level 0
   stalled: some work-only path of at most mu steps ends with Close returned and nothing
   pending, and every work-only path that cannot be extended ends that way *)
Theorem C38_close_completes : forall c s, cfg_ok c -> reach true c s -> clo s <> CNot ->
  (exists n s', n <= mu c s /\ BlockingLiveProofs.wpath c s n s' /\ clo s' = CDone /\ pending s' = false) /\
  (forall n s', BlockingLiveProofs.wpath c s n s' -> sched true c s' = None -> clo s' = CDone /\ pending s' = false).
Proof. exact BlockingRefuteProofs.close_completes_reach. Qed.
Print Assumptions C38_close_completes.

(* the strict relation is a restriction of the faithful one *)
Theorem C38_strict_is_restriction : forall c s l s', step true c s l = Some s' -> step false c s l = Some s'.
Proof. exact BlockingLiveProofs.strict_sub. Qed.
Print Assumptions C38_strict_is_restriction.

(* the compactor hypothesis is needed: with NumCompactors = 0 (accepted by Open; 1 is rejected)
   a strict schedule reaches a state with a Commit pending and no work transition enabled *)
Theorem C38_needs_compactors :
  reach true cfg0 BlockingRefuteProofs.st_no_compactors /\ pending BlockingRefuteProofs.st_no_compactors = true /\
  clo BlockingRefuteProofs.st_no_compactors = CNot /\ drp BlockingRefuteProofs.st_no_compactors = DNone /\
  (forall l, work l = true -> step true cfg0 BlockingRefuteProofs.st_no_compactors l = None).
Proof. exact BlockingRefuteProofs.needs_compactors. Qed.
Print Assumptions C38_needs_compactors.
