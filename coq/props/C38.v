(* C38 — Public calls and Close always return (no deadlock).
   Statements only; every proof is `exact <lemma>` from coq/B/Blocking*Proofs.v.

   The model (coq/B/Blocking.v) is the blocking structure of the write path, flush, compaction,
   readTs, value-log GC token, DropAll/DropPrefix and Close as a labelled transition system
   `step strict c s l`; strict = false is the code as written, strict = true removes the
   SCHEDULES (not code) named (h1), (h2), (h3) in Blocking.v.  `pending s` = some public call has
   begun and not returned; `work l` = l is not the arrival of a new call nor the optional
   start of a compaction that does not touch level 0.

   FULL-STRENGTH statement (false on the pinned tree, see C38_no_stuck_state_refuted):
     forall c s, cfg_ok c -> reach false c s -> pending s = true ->
       exists l s', work l = true /\ step false c s l = Some s'.

   Fairness assumption for reading C38_progress / C38_close_completes as liveness of the real
   system: every goroutine whose next transition stays enabled eventually takes it (Go
   scheduler), user callbacks return, and only finitely many new calls / optional compactions
   begin; then the executed work transitions form a work-only path, which the theorems bound. *)
From Coq Require Import List Arith Bool.
Import ListNotations.
From Verif Require Import Blocking BlockingStall.
From Verif Require BlockingProofs BlockingLiveProofs BlockingRefuteProofs BlockingStallProofs BlockingStallRefuteProofs.

(* no deadlock, for every reachable state of every strict schedule: if a public call is pending,
   some work transition is enabled (and it is a transition of the code as written) *)
Theorem C38_no_stuck_state_partial : forall c s, cfg_ok c -> reach true c s -> pending s = true ->
  exists l s', work l = true /\ step true c s l = Some s' /\ step false c s l = Some s'.
Proof. exact BlockingRefuteProofs.no_stuck_reach. Qed.
Print Assumptions C38_no_stuck_state_partial.
Example C38_hyp_ex : cfg_ok cfgW /\ exists s, exec true cfgW (init cfgW) BlockingRefuteProofs.sched_busy_close = Some s /\
  clo s = CGC /\ l0 s = cS cfgW /\ fl s = FBuild /\ mt s = MtFull /\ wch s = 1 /\ lockq s = 1 /\ hold s = HTs
  /\ rdwait s = 1 /\ pending s = true.
Proof. split; [exact BlockingRefuteProofs.cfgW_ok | exact BlockingRefuteProofs.busy_close_reach]. Qed.

(* the full-strength statement is false of the code as written *)
Theorem C38_no_stuck_state_refuted :
  ~ (forall c s, cfg_ok c -> reach false c s -> pending s = true ->
       exists l s', work l = true /\ step false c s l = Some s').
Proof. exact BlockingRefuteProofs.no_stuck_state_refuted. Qed.
Print Assumptions C38_no_stuck_state_refuted.

(* finding F14, hang flavour: a Commit that passed its blockWrites check before Close began sends
   after the writer goroutine's last look at writeCh: Close returns, the Commit is pending, no
   work transition is enabled, and on EVERY continuation the request is still in the channel *)
Theorem C38_close_race_refuted :
  reach false cfgW BlockingRefuteProofs.st_f14_hang /\ clo BlockingRefuteProofs.st_f14_hang = CDone /\
  crashed BlockingRefuteProofs.st_f14_hang = false /\
  pending BlockingRefuteProofs.st_f14_hang = true /\ o_hung_commit (observe BlockingRefuteProofs.st_f14_hang) = 1 /\
  (forall l, work l = true -> step false cfgW BlockingRefuteProofs.st_f14_hang l = None) /\
  (forall ls s', exec false cfgW BlockingRefuteProofs.st_f14_hang ls = Some s' -> 1 <= wch s' /\ pending s' = true).
Proof. exact BlockingRefuteProofs.close_race_hang. Qed.
Print Assumptions C38_close_race_refuted.

(* finding F14, panic flavour: the send happens after close(db.writeCh) *)
Theorem C38_close_race_panic_refuted :
  reach false cfgW BlockingRefuteProofs.st_f14_panic /\ crashed BlockingRefuteProofs.st_f14_panic = true /\
  (forall l, step false cfgW BlockingRefuteProofs.st_f14_panic l = None).
Proof. exact BlockingRefuteProofs.close_race_panic. Qed.
Print Assumptions C38_close_race_panic_refuted.

(* NewTransaction racing Close: orc.Stop() ends the watermark goroutine while a commit timestamp
   is outstanding; the waiting NewTransaction never returns *)
Theorem C38_newtxn_race_refuted :
  reach false cfgW BlockingRefuteProofs.st_newtxn_hang /\ clo BlockingRefuteProofs.st_newtxn_hang = CDone /\
  crashed BlockingRefuteProofs.st_newtxn_hang = false /\
  pending BlockingRefuteProofs.st_newtxn_hang = true /\ o_hung_read (observe BlockingRefuteProofs.st_newtxn_hang) = 1 /\
  o_hung_commit (observe BlockingRefuteProofs.st_newtxn_hang) = 0 /\
  (forall l, work l = true -> step false cfgW BlockingRefuteProofs.st_newtxn_hang l = None) /\
  (forall ls s', exec false cfgW BlockingRefuteProofs.st_newtxn_hang ls = Some s' -> 1 <= rdwait s' /\ pending s' = true).
Proof. exact BlockingRefuteProofs.newtxn_race_hang. Qed.
Print Assumptions C38_newtxn_race_refuted.

(* DropPrefix racing a commit (no Close involved): the commit passed its blockWrites check before
   DropPrefix blocked writes and sends after prepareToDrop's drain; DropPrefix then waits, in the
   View of filterPrefixesToDrop, for that commit's timestamp, while the commit waits for the
   writer that DropPrefix restarts only on return *)
Theorem C38_drop_race_refuted :
  reach false cfgW BlockingRefuteProofs.st_drop_hang /\ clo BlockingRefuteProofs.st_drop_hang = CNot /\
  crashed BlockingRefuteProofs.st_drop_hang = false /\
  pending BlockingRefuteProofs.st_drop_hang = true /\ drp BlockingRefuteProofs.st_drop_hang = DView /\
  o_hung_commit (observe BlockingRefuteProofs.st_drop_hang) = 1 /\
  (forall l, work l = true -> step false cfgW BlockingRefuteProofs.st_drop_hang l = None) /\
  (forall ls s', exec false cfgW BlockingRefuteProofs.st_drop_hang ls = Some s' ->
     drp s' = DView /\ 1 <= wch s' /\ pending s' = true).
Proof. exact BlockingRefuteProofs.drop_race_hang. Qed.
Print Assumptions C38_drop_race_refuted.

(* progress: mu strictly decreases along every work transition; so every work-only path from a
   reachable state has at most mu steps, one of them ends with no call pending, and the
   executable scheduler `run` gets there within mu steps *)
Theorem C38_progress : forall c s, cfg_ok c -> reach true c s ->
  (forall l s', work l = true -> step true c s l = Some s' -> mu c s' < mu c s) /\
  (forall n s', BlockingLiveProofs.wpath c s n s' -> n + mu c s' <= mu c s) /\
  (exists n s', n <= mu c s /\ BlockingLiveProofs.wpath c s n s' /\ pending s' = false) /\
  pending (run true c (mu c s) s) = false.
Proof. exact BlockingRefuteProofs.progress_reach. Qed.
Print Assumptions C38_progress.

(* Close, once begun, returns — with writes in flight at any stage, memtables full, level 0
   stalled: some work-only path of at most mu steps ends with Close returned and nothing
   pending, and every work-only path that cannot be extended ends that way *)
Theorem C38_close_completes : forall c s, cfg_ok c -> reach true c s -> clo s <> CNot ->
  (exists n s', n <= mu c s /\ BlockingLiveProofs.wpath c s n s' /\ clo s' = CDone /\ pending s' = false) /\
  (forall n s', BlockingLiveProofs.wpath c s n s' -> sched true c s' = None -> clo s' = CDone /\ pending s' = false).
Proof. exact BlockingRefuteProofs.close_completes_reach. Qed.
Print Assumptions C38_close_completes.

(* the strict relation is a restriction of the faithful one *)
Theorem C38_strict_is_restriction : forall c s l s', step true c s l = Some s' -> step false c s l = Some s'.
Proof. exact BlockingLiveProofs.strict_sub. Qed.
Print Assumptions C38_strict_is_restriction.

(* the compactor hypothesis is needed: with NumCompactors = 0 (accepted by Open; 1 is rejected)
   a strict schedule reaches a state with a Commit pending and no work transition enabled *)
Theorem C38_needs_compactors :
  reach true cfg0 BlockingRefuteProofs.st_no_compactors /\ pending BlockingRefuteProofs.st_no_compactors = true /\
  clo BlockingRefuteProofs.st_no_compactors = CNot /\ drp BlockingRefuteProofs.st_no_compactors = DNone /\
  (forall l, work l = true -> step true cfg0 BlockingRefuteProofs.st_no_compactors l = None).
Proof. exact BlockingRefuteProofs.needs_compactors. Qed.
Print Assumptions C38_needs_compactors.

(* ---- the level-0 stall loop (levels.go addLevel0Table) against "compactors stopped" ----
   `stall_wait c s`: the flushMemtable goroutine, or DropPrefix flushing db.mt under db.lock, sits
   in the stall loop (level 0 holds NumLevelZeroTablesStall tables); `compactors_run s`: no stop
   has been signalled to the compactors and none has returned.  For EVERY schedule of the code as
   written (strict or not, so including the schedules of F14/F29b/F31): *)

(* whenever a thread waits in the stall loop, the compactors are running — there is no wait-for
   edge from the stall loop to a thread that stopped the compactors and waits for that flush *)
Theorem C38_stall_wait_has_running_compactors : forall strict c s, cfg_ok c -> reach strict c s ->
  stall_wait c s = true -> compactors_run s = true.
Proof. exact BlockingStallProofs.stall_has_compactors_reach. Qed.
Print Assumptions C38_stall_wait_has_running_compactors.

(* equivalently: from stopCompactions / Close's compactor stop until startCompactions (D_restart)
   nobody is in the stall loop; DropAll (which stops the compactors first) never enters it: it
   throws the memtables away instead of flushing them *)
Theorem C38_compactors_stopped_no_stall_wait : forall strict c s, cfg_ok c -> reach strict c s ->
  csig s = true -> stall_wait c s = false.
Proof. exact BlockingStallProofs.stopped_no_stall. Qed.
Print Assumptions C38_compactors_stopped_no_stall_wait.

(* and the compactors alone end the wait: a path of compactor-only transitions (finish what runs,
   worker 0 picks level 0, finish) leads to a state where level 0 is below the stall limit, the
   waiter is where it was, and its own transition (F_add / D_flushmt) is enabled *)
Theorem C38_stall_wait_resolves : forall strict c s, cfg_ok c -> reach strict c s -> crashed s = false ->
  stall_wait c s = true ->
  forallb compactor_lab (resolve_path s) = true /\
  exists s', exec strict c s (resolve_path s) = Some s' /\ l0 s' < cS c /\
    BlockingStallProofs.same_wait s s' /\
    (fl s = FBuild -> step strict c s' F_add <> None) /\
    (drop_stalled c s = true -> step strict c s' D_flushmt <> None).
Proof. exact BlockingStallProofs.stall_resolves_reach. Qed.
Print Assumptions C38_stall_wait_resolves.
Example C38_stall_hyp_ex :
  (exists s, exec true cfgW (init cfgW) (sched_l0_full ++ drop_to_view) = Some s /\
             drp s = DFlushMt /\ l0 s = cS cfgW /\ mt s = MtSome /\
             stall_wait cfgW s = true /\ compactors_run s = true /\ step true cfgW s D_flushmt = None /\
             resolve_path s = [K0_startL0; K0_finishL0 1]) /\
  (exists s, exec true cfgW (init cfgW) sched_coded_ok = Some s /\ pending s = false /\ r_drop s = 1 /\
             compactors_run s = true).
Proof. exact BlockingStallRefuteProofs.coded_order_ok. Qed.

(* the order matters.  In the LTS that differs from the coded one ONLY in DropPrefix calling
   stopCompactions before its memtable flush (BlockingStall.step_early), a strict schedule
   reaches a state where DropPrefix sits in the stall loop of its own flush with every compactor
   gone: no work transition is enabled, and on every continuation (any labels, any new calls)
   DropPrefix is still there, writes stay blocked (ErrBlockedWrites) and the drop never returns *)
Theorem C38_stop_before_flush_refuted :
  reach_early true cfgW BlockingStallRefuteProofs.st_early_hang /\
  BlockingStallRefuteProofs.early_stuck cfgW BlockingStallRefuteProofs.st_early_hang /\
  clo BlockingStallRefuteProofs.st_early_hang = CNot /\ r_drop BlockingStallRefuteProofs.st_early_hang = 0 /\
  (forall l, work l = true -> step_early true cfgW BlockingStallRefuteProofs.st_early_hang l = None) /\
  (forall strict ls s', exec_early strict cfgW BlockingStallRefuteProofs.st_early_hang ls = Some s' ->
     drp s' = DFlushMt /\ bw s' = true /\ r_drop s' = 0 /\
     stall_wait cfgW s' = true /\ compactors_run s' = false /\ all_exited s' = true /\ pending s' = true).
Proof. exact BlockingStallRefuteProofs.early_hang. Qed.
Print Assumptions C38_stop_before_flush_refuted.

(* so both statements fail for the reordered LTS *)
Theorem C38_stop_before_flush_stall_refuted :
  ~ (forall c s, cfg_ok c -> reach_early true c s -> stall_wait c s = true -> compactors_run s = true).
Proof. exact BlockingStallRefuteProofs.early_stall_refuted. Qed.
Print Assumptions C38_stop_before_flush_stall_refuted.

Theorem C38_stop_before_flush_no_stuck_refuted :
  ~ (forall c s, cfg_ok c -> reach_early true c s -> pending s = true ->
       exists l s', work l = true /\ step_early true c s l = Some s').
Proof. exact BlockingStallRefuteProofs.early_no_stuck_refuted. Qed.
Print Assumptions C38_stop_before_flush_no_stuck_refuted.

(* the reordered LTS is the coded one off DropPrefix's three re-targeted labels *)
Theorem C38_reordered_lts_differs_only_in_dropprefix : forall strict c s l,
  dkind s = false \/ (l <> D_view /\ l <> D_waitc /\ l <> D_flushmt) ->
  step_early strict c s l = step strict c s l.
Proof. exact BlockingStallRefuteProofs.step_early_same. Qed.
Print Assumptions C38_reordered_lts_differs_only_in_dropprefix.
