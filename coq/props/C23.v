(* C23 — Encryption at rest is transparent and keeps plaintext off disk.
   Statements only; proofs in C/EncryptProofs.v; model C/Encrypt.v (log records, table blocks /
   index / file, key registry, data-key and master-key rotation, as coded).
   The cipher `enc key iv data` (y.XORBlock = AES-CTR) is a parameter.  What is assumed of it is
   visible in each statement: involution per (key, iv), length preservation, and for the
   value-log read path compatibility with prefixes — all three hold for every cipher of the
   form "data XOR key stream(key, iv)" (C23_cipher_hypotheses_ex).  Cryptographic strength of
   AES and the randomness of crypto/rand are NOT claimed. *)
From Verif Require Import Bytes Uvarint Codec Encrypt.
From Verif Require EncryptProofs.
Import EncryptProofs.
Open Scope N_scope.

Example C23_cipher_hypotheses_ex : forall stream,
  let enc := enc_ks stream in
  (forall k iv d, enc k iv (enc k iv d) = d) /\ (forall k iv d, length (enc k iv d) = length d) /\
  (forall k iv a b, firstn (length a) (enc k iv (a ++ b)) = enc k iv a).
Proof. intros stream. repeat split; intros; [apply enc_ks_invol|apply enc_ks_len|apply enc_ks_prefix]. Qed.

(* ---- transparency: every reader reconstructs exactly what the unencrypted layout holds ---- *)
(* WAL replay / value-log iteration (safeRead.Entry), whatever follows the record in the file *)
Theorem C23_transparent_log_replay : forall enc crc,
  (forall k iv d, enc k iv (enc k iv d) = d) -> (forall k iv d, length (enc k iv d) = length d) ->
  forall dk biv off e rest, le_ok e ->
  log_read_exact enc dk biv off (log_record enc crc dk biv off e ++ rest) = Some (le_header e, le_key e, le_val e).
Proof. exact log_read_exact_record. Qed.
Print Assumptions C23_transparent_log_replay.
Example C23_le_ok_ex : le_ok (mkLE [1; 2] [3] 0 0 0).
Proof. unfold le_ok, blen, two32, two64. cbn. lia. Qed.

(* value-log reads (valueLog.Read, logFile.decodeEntry): the CRC bytes pass through the cipher too *)
Theorem C23_transparent_log_read : forall enc crc,
  (forall k iv d, enc k iv (enc k iv d) = d) -> (forall k iv d, length (enc k iv d) = length d) ->
  (forall k iv a b, firstn (length a) (enc k iv (a ++ b)) = enc k iv a) ->
  forall dk biv off e, le_ok e ->
  log_read_tail enc dk biv off (log_record enc crc dk biv off e) = Some (le_header e, le_key e, le_val e).
Proof. exact log_read_tail_record. Qed.
Print Assumptions C23_transparent_log_read.

(* table blocks and index: Table.decrypt undoes Builder.encrypt *)
Theorem C23_transparent_block : forall enc,
  (forall k iv d, enc k iv (enc k iv d) = d) ->
  forall dk iv data, length iv = 16%nat -> unseal enc dk (seal enc dk iv data) = data.
Proof. exact unseal_seal. Qed.
Print Assumptions C23_transparent_block.

(* key registry: the right master key reads back exactly the data keys written *)
Theorem C23_transparent_registry : forall enc crc pb_dk pb_dk_parse,
  (forall k iv d, enc k iv (enc k iv d) = d) -> (forall k iv d, length (enc k iv d) = length d) ->
  (forall d, crc d < two32) ->
  forall m iv dks, length iv = 16%nat -> Forall (fun d => pb_ok pb_dk pb_dk_parse (stored_form enc m d)) dks ->
  read_registry enc crc pb_dk_parse m (registry_file enc crc pb_dk m iv dks) = KrOk dks.
Proof. exact read_registry_written. Qed.
Print Assumptions C23_transparent_registry.
Example C23_pb_ok_ex : let d0 := mkDK 1 [1; 2] (repeat 0 16) 5 in
  pb_ok pb_datakey (fun b => if bytes_eqb b (pb_datakey d0) then Some d0 else None) d0.
Proof. exact pb_ok_example. Qed.

(* ---- IVs of log records ---- *)
(* within one file distinct records have distinct IVs (offsets are below 2^32) ... *)
Theorem C23_log_iv_unique : forall biv o1 o2, o1 < two32 -> o2 < two32 -> log_iv biv o1 = log_iv biv o2 -> o1 = o2.
Proof. exact log_iv_inj. Qed.
Print Assumptions C23_log_iv_unique.
(* ... and disjoint CTR counter ranges: an earlier record's blocks end before a later record's
   IV (offsets grow by the record length >= its number of 16-byte blocks), provided the later
   record's range does not wrap the 32-bit offset part (true when the record lies inside a
   file of at most 4 GiB) *)
Theorem C23_log_ctr_disjoint : forall biv es off i j o1 n1 o2 n2 a b, (i < j)%nat ->
  nth_error (log_uses off es) i = Some (o1, n1) -> nth_error (log_uses off es) j = Some (o2, n2) ->
  o2 + nblocks n2 <= two32 -> a < nblocks n1 -> b < nblocks n2 -> ctr biv o1 a <> ctr biv o2 b.
Proof. exact log_ctr_disjoint. Qed.
Print Assumptions C23_log_ctr_disjoint.
(* at the carry of the last 4 bytes: it never happens inside a file — every counter block keeps
   the 12-byte base IV as its upper 96 bits, so files with different base IVs share no block *)
Theorem C23_log_ctr_no_carry : forall biv off j, off + j < two32 ->
  ctr biv off j / two32 = iv_num biv /\ ctr biv off j mod two32 = off + j.
Proof. exact ctr_no_carry. Qed.
Print Assumptions C23_log_ctr_no_carry.
Theorem C23_log_ctr_disjoint_files : forall biv1 biv2 o1 o2 a b,
  iv_num biv1 <> iv_num biv2 -> o1 + a < two32 -> o2 + b < two32 -> ctr biv1 o1 a <> ctr biv2 o2 b.
Proof. exact log_ctr_disjoint_files. Qed.
Print Assumptions C23_log_ctr_disjoint_files.

(* ---- IVs of table blocks: one draw per block and one for the index; if the supply does not
   repeat within `bound` draws, no two blocks (of one table, or of two tables built from
   disjoint draws) share an IV; the IVs in the file are exactly these draws.  Whether the CTR
   ranges of two random IVs meet is a matter of probability and not claimed. ---- *)
Theorem C23_block_iv_fresh : forall supply bound,
  (forall a b, a < bound -> b < bound -> supply a = supply b -> a = b) ->
  forall n blocks, n + N.of_nat (S (length blocks)) <= bound -> NoDup (table_ivs supply n blocks).
Proof. exact table_ivs_fresh. Qed.
Print Assumptions C23_block_iv_fresh.
Theorem C23_block_iv_fresh_tables : forall supply bound,
  (forall a b, a < bound -> b < bound -> supply a = supply b -> a = b) ->
  forall n1 b1 n2 b2 iv, n1 + N.of_nat (S (length b1)) <= n2 -> n2 + N.of_nat (S (length b2)) <= bound ->
  In iv (table_ivs supply n1 b1) -> ~ In iv (table_ivs supply n2 b2).
Proof. exact table_ivs_disjoint. Qed.
Print Assumptions C23_block_iv_fresh_tables.
Theorem C23_block_ivs_in_file : forall enc supply, (forall n, length (supply n) = 16%nat) ->
  forall k n blocks index,
  map (lastn 16) (seal_blocks enc supply (Some k) n blocks ++ [seal enc (Some k) (supply (n + N.of_nat (length blocks))) index])
  = table_ivs supply n blocks.
Proof. exact table_file_ivs. Qed.
Print Assumptions C23_block_ivs_in_file.
Example C23_supply_ex : let supply := be_enc 16 in let bound := 256 ^ N.of_nat 16 in
  (forall a b, a < bound -> b < bound -> supply a = supply b -> a = b) /\ (forall n, length (supply n) = 16%nat).
Proof. exact supply_example. Qed.

(* ---- confinement (non-interference): with a cipher whose output depends on the LENGTH of its
   plaintext only, the file images do not depend on user key / value contents: user bytes
   reach the files only as cipher input.  What the images do depend on: the lengths, and the
   log-record header fields (expiry, meta, user-meta byte), which are stored in clear.  The
   table's bloom filter and block base keys are part of the index, which is sealed. ---- *)
Theorem C23_confinement_log : forall enc crc,
  (forall k iv d d', length d = length d' -> enc k iv d = enc k iv d') ->
  forall kid k biv es1 es2, Forall2 same_shape es1 es2 ->
  log_file enc crc kid (Some k) biv es1 = log_file enc crc kid (Some k) biv es2.
Proof. exact log_file_confined. Qed.
Print Assumptions C23_confinement_log.
Theorem C23_confinement_table : forall enc cksum supply,
  (forall k iv d d', length d = length d' -> enc k iv d = enc k iv d') ->
  forall k n bl1 bl2 idx1 idx2,
  Forall2 (fun a b : bytes => length a = length b) bl1 bl2 -> length idx1 = length idx2 ->
  table_file enc cksum supply (Some k) n bl1 idx1 = table_file enc cksum supply (Some k) n bl2 idx2.
Proof. exact table_file_confined. Qed.
Print Assumptions C23_confinement_table.
Example C23_blind_ex : let enc := fun (_ _ d : bytes) => repeat 0 (length d) in
  forall k iv d d', length d = length d' -> enc k iv d = enc k iv d'.
Proof. exact blind_example. Qed.

(* ---- wrong key: the sanity text does not come out => ErrEncryptionKeyMismatch, and opening
   an existing registry emits no persistence event.  (A different key that reproduces the 12
   sanity bytes would be accepted: that is a 2^-96 event for AES-CTR and outside the model.) ---- *)
Theorem C23_wrong_key : forall enc crc pb_dk pb_dk_parse supply,
  (forall k iv d, length (enc k iv d) = length d) ->
  forall m m' iv dks n, length iv = 16%nat ->
  wrap enc m' iv (wrap enc m iv sanity_text) <> sanity_text ->
  open_registry enc crc pb_dk pb_dk_parse supply m' n (Some (registry_file enc crc pb_dk m iv dks)) = (KrKeyMismatch, []).
Proof. exact wrong_key. Qed.
Print Assumptions C23_wrong_key.

(* ---- rotation ---- *)
(* master key (badger rotate): the registry rewritten under the new key holds the same data
   keys; no data file is touched *)
Theorem C23_rotation_readable : forall enc crc pb_dk pb_dk_parse supply,
  (forall k iv d, enc k iv (enc k iv d) = d) -> (forall k iv d, length (enc k iv d) = length d) ->
  (forall d, crc d < two32) -> (forall n, length (supply n) = 16%nat) ->
  forall old new iv dks n, length iv = 16%nat ->
  Forall (fun d => pb_ok pb_dk pb_dk_parse (stored_form enc old d)) dks ->
  Forall (fun d => pb_ok pb_dk pb_dk_parse (stored_form enc new d)) dks ->
  exists f, rotate enc crc pb_dk pb_dk_parse supply old new n (registry_file enc crc pb_dk old iv dks) = Some f /\
            read_registry enc crc pb_dk_parse new f = KrOk dks.
Proof. exact rotation_readable. Qed.
Print Assumptions C23_rotation_readable.
(* data keys (LatestDataKey): a new key gets a new id, every earlier key stays in the registry,
   and the appended record extends the file to the registry file of the longer list *)
Theorem C23_datakey_rotation_keeps_old : forall enc crc pb_dk supply m keygen n now rot r id,
  ids_bounded r -> id <= r_next r ->
  let r' := fst (fst (fst (latest_data_key enc crc pb_dk supply m keygen n now rot r))) in
  dk_lookup (r_dks r') id = dk_lookup (r_dks r) id /\ ids_bounded r'.
Proof. exact latest_keeps_old. Qed.
Print Assumptions C23_datakey_rotation_keeps_old.
Theorem C23_datakey_rotation_appends : forall enc crc pb_dk m iv dks d,
  registry_file enc crc pb_dk m iv dks ++ stored_dk enc crc pb_dk m d = registry_file enc crc pb_dk m iv (dks ++ [d]).
Proof. exact latest_appends. Qed.
Print Assumptions C23_datakey_rotation_appends.
