(* C29 — DropAll and DropPrefix remove exactly the requested data, durably.
   Statements only; proofs in B/DropProofs.v over the model B/Drop.v (db.go DropPrefix /
   DropAll / filterPrefixesToDrop, levels.go dropPrefixes / containsPrefix / dropTree as
   coded, with the shared compaction filter of B/Compact.v).

   Full statement (kept visible): after DropPrefix(ps) no key starting with a prefix of ps is
   visible and every other key reads as before; after DropAll nothing is visible; the database
   accepts writes afterwards; a crash inside a drop leaves every key with its pre-drop value
   or absent.  On the pinned tree three parts of it are FALSE and are refuted below with
   witnesses, each next to its partial version:
     - "every other key unchanged": F20, the prefix is tested against the internal key;
     - "no key with a prefix visible": F24, containsPrefix skips a table it must pick;
     - "crash => pre-drop value or absent" for DropAll: F15, WAL removed before the MANIFEST drop;
     - "concurrent writes take effect before or after the drop, the database keeps accepting
       writes": F29, DropPrefix deadlocks with a commit in flight (interleaving model B/DropConc.v). *)
From Verif Require Import Bytes Keys Consts Spec Lsm Compact Iter Sys Drop.
From Verif Require Import DropConc.
From Verif Require LsmProofs CompactProofs GetProofs MergeProofs C12Proofs DropProofs DropConcProofs.
Open Scope N_scope.
Import CompactProofs GetProofs DropProofs.

(* ---- what the drop filter removes (subcompact's loop with drop prefixes, as coded) ---- *)

(* nothing written out by a compaction run with drop prefixes carries one of them, neither in
   its internal key (as coded) nor, a fortiori, in its user key (as requested) *)
Theorem C29_drop_filter_removes : forall p m e,
  In e (compact_filter p m) ->
  has_any_prefix (cp_drop p) e = false /\ user_has_prefix (cp_drop p) (e_key e) = false /\ In e m.
Proof. intros p m e H. split; [exact (proj1 (DropProofs.drop_filter_removes p m e H))|split; [exact (DropProofs.drop_filter_removes_user p m e H)|exact (proj2 (DropProofs.drop_filter_removes p m e H))]]. Qed.
Print Assumptions C29_drop_filter_removes.

(* with drop prefixes the filter is the plain filter run on the entries matching no prefix *)
Theorem C29_drop_filter_is_plain_filter_on_rest : forall p m,
  compact_filter p m = compact_filter (nodrop p) (filter (unmatched (cp_drop p)) m).
Proof. exact DropProofs.compact_filter_drop_eq. Qed.
Print Assumptions C29_drop_filter_is_plain_filter_on_rest.

(* ---- every other key unchanged ---- *)

(* as coded: a key none of whose versions in the compaction matches a prefix BY INTERNAL KEY
   reads the same afterwards at every ts >= discard (the ordinary retention rules apply) *)
Theorem C29_other_keys_unchanged_coded : forall p m O k ts now',
  sorted m -> nodup_kv (m ++ O) ->
  (forall e, In e m -> dead_marker p e -> cp_overlap p = false ->
     forall o, In o O -> e_key o = e_key e -> e_ver e < e_ver o) ->
  cp_discard p <= ts -> cp_now p <= now' ->
  (forall e, In e m -> e_key e = k -> has_any_prefix (cp_drop p) e = false) ->
  vis_of now' (newest (compact_filter p m ++ O) k ts) = vis_of now' (newest (m ++ O) k ts).
Proof. exact DropProofs.drop_filter_preserves_other_reads. Qed.
Print Assumptions C29_other_keys_unchanged_coded.

(* the requested statement — k starts with no prefix => unchanged — is FALSE on the model
   of the pinned tree (F20): key "a"@1, prefix "a\xff" *)
Theorem C29_other_keys_unchanged_refuted :
  exists p m O k ts now',
    sorted m /\ nodup_kv (m ++ O) /\
    (forall e, In e m -> dead_marker p e -> cp_overlap p = false ->
       forall o, In o O -> e_key o = e_key e -> e_ver e < e_ver o) /\
    cp_discard p <= ts /\ cp_now p <= now' /\
    user_has_prefix (cp_drop p) k = false /\
    vis_of now' (newest (compact_filter p m ++ O) k ts) <> vis_of now' (newest (m ++ O) k ts).
Proof. exact DropProofs.other_keys_unchanged_refuted. Qed.
Print Assumptions C29_other_keys_unchanged_refuted.

(* partial: it holds when no drop prefix properly extends the key *)
Theorem C29_other_keys_unchanged_partial : forall p m O k ts now',
  sorted m -> nodup_kv (m ++ O) ->
  (forall e, In e m -> dead_marker p e -> cp_overlap p = false ->
     forall o, In o O -> e_key o = e_key e -> e_ver e < e_ver o) ->
  cp_discard p <= ts -> cp_now p <= now' ->
  user_has_prefix (cp_drop p) k = false ->
  no_extension (cp_drop p) k ->
  vis_of now' (newest (compact_filter p m ++ O) k ts) = vis_of now' (newest (m ++ O) k ts).
Proof. exact DropProofs.drop_filter_preserves_other_keys_partial. Qed.
Print Assumptions C29_other_keys_unchanged_partial.

(* the precise condition of F20: the internal key carries p while the user key does not iff
   p = user key ++ a non-empty prefix of the 8 version bytes *)
Theorem C29_suffix_match_exact : forall p e,
  (is_prefix p (ikey e) = true /\ is_prefix p (e_key e) = false) <->
  ((length (e_key e) < length p)%nat /\ is_prefix (e_key e) p = true /\
   is_prefix (skipn (length (e_key e)) p) (be_enc 8 (max_u64 - e_ver e)) = true).
Proof. exact DropProofs.suffix_match_exact. Qed.
Print Assumptions C29_suffix_match_exact.

(* the same on the whole tree: one drop compaction leaves the Get of such a key unchanged *)
Theorem C29_drop_compaction_preserves_other_get : forall d d' p inputs O k ts now',
  lsm_wf d -> lsm_wf d' -> Forall sorted inputs -> nodup_kv (all_entries d) ->
  (forall x, In x (all_entries d) <-> In x (concat inputs ++ O)) ->
  (forall x, In x (all_entries d') <-> In x (compact_filter p (merge_all inputs) ++ O)) ->
  (forall e, In e (concat inputs) -> dead_marker p e -> cp_overlap p = false ->
     forall o, In o O -> e_key o = e_key e -> e_ver e < e_ver o) ->
  cp_discard p <= ts -> cp_now p <= now' ->
  (forall e, In e (concat inputs) -> e_key e = k -> has_any_prefix (cp_drop p) e = false) ->
  vis_of now' (db_get d' k ts) = vis_of now' (db_get d k ts).
Proof. exact DropProofs.drop_compaction_preserves_other_get. Qed.
Print Assumptions C29_drop_compaction_preserves_other_get.

(* ---- DropPrefix removes the prefixes ---- *)

(* the requested statement is FALSE on the model of the pinned tree (F24): one table
   [a, ab, b] at the last level, DropPrefix("ab") is accepted and "ab" is still stored *)
Theorem C29_drop_prefix_removes_refuted :
  exists s ps s' tags,
    drop_prefix s ps [] [] = DOk s' tags /\
    filter_prefixes (s_db s) (view_ts s) (s_now s) ps = ps /\ ps <> [] /\
    exists e, In e (all_entries (s_db s')) /\ user_has_prefix ps (e_key e) = true.
Proof. exact DropProofs.drop_prefix_removes_refuted. Qed.
Print Assumptions C29_drop_prefix_removes_refuted.

(* partial: when containsAnyPrefixes reports every table of a level >= 1 that holds an entry
   carrying a prefix, an accepted DropPrefix (memtables flushed, levels compacted bottom-up,
   all of L0 last — every output recomputed by the model) leaves no such entry in the tree *)
Theorem C29_drop_prefix_removes_partial : forall s ps l0ids os s' tags,
  drop_prefix s ps l0ids os = DOk s' tags ->
  let fl := filter_prefixes (s_db s) (view_ts s) (s_now s) ps in
  (fl = [] \/ forall lvl, (1 <= lvl)%nat -> picker_complete fl (nth lvl (l_levels (s_db s)) [])) ->
  (fl = [] -> s' = s) /\
  (fl <> [] -> forall e, In e (all_entries (s_db s')) ->
                 has_any_prefix fl e = false /\ user_has_prefix fl (e_key e) = false).
Proof. exact DropProofs.drop_prefix_removes_partial. Qed.
Print Assumptions C29_drop_prefix_removes_partial.

(* and then a key with a dropped prefix is not found, at any timestamp *)
Theorem C29_dropped_key_not_found : forall d ps k ts,
  lsm_wf d ->
  (forall e, In e (all_entries d) -> user_has_prefix ps (e_key e) = false) ->
  user_has_prefix ps k = true ->
  db_get d k ts = None.
Proof. exact DropProofs.dropped_key_not_found. Qed.
Print Assumptions C29_dropped_key_not_found.

(* ---- DropAll ---- *)
Theorem C29_drop_all_empty : forall s,
  all_entries (s_db (drop_all s)) = [] /\ forall k ts, db_get (s_db (drop_all s)) k ts = None.
Proof. intros s. split; [exact (DropProofs.drop_all_empty s)|exact (DropProofs.drop_all_reads_nothing s)]. Qed.
Print Assumptions C29_drop_all_empty.

(* the oracle and the open transactions are untouched (timestamps keep growing) and a write
   applied afterwards is read back *)
Theorem C29_accepts_writes_after : forall s e ts,
  s_next (drop_all s) = s_next s /\ s_txns (drop_all s) = s_txns s /\
  (e_ver e <= ts -> db_get (apply_entries (s_db (drop_all s)) [e]) (e_key e) ts = Some e).
Proof. intros s e ts. split; [exact (proj1 (DropProofs.drop_all_keeps_oracle s))|split; [exact (proj1 (proj2 (DropProofs.drop_all_keeps_oracle s)))|exact (DropProofs.write_after_drop_all s e ts)]]. Qed.
Print Assumptions C29_accepts_writes_after.

(* ---- crash inside DropAll ---- *)

(* FALSE as coded (F15): WAL unlinked, then crash: the re-opened tree shows k@1 where the
   pre-drop value was k@2 *)
Theorem C29_crash_refuted :
  exists d cut k ts now,
    let r := read_at (crash_after (persist_of d) dropall_events cut) k ts now in
    r <> read_at d k ts now /\ r <> None.
Proof. exact DropProofs.crash_refuted. Qed.
Print Assumptions C29_crash_refuted.

(* partial 1: with the MANIFEST drop first, every cut is safe (memtables not older than tables) *)
Theorem C29_crash_partial : forall d cut k ts now,
  lsm_wf d -> mem_newer d ->
  let r := read_at (crash_after (persist_of d) dropall_events_fixed cut) k ts now in
  r = read_at d k ts now \/ r = None.
Proof. exact DropProofs.crash_fixed_partial. Qed.
Print Assumptions C29_crash_partial.

(* partial 2: as coded, only the window between the WAL removal and the MANIFEST drop is exposed *)
Theorem C29_crash_coded_outside_window : forall d cut k ts now,
  cut <> 1%nat -> cut <> 2%nat ->
  let r := read_at (crash_after (persist_of d) dropall_events cut) k ts now in
  r = read_at d k ts now \/ r = None.
Proof. exact DropProofs.crash_coded_outside_window. Qed.
Print Assumptions C29_crash_coded_outside_window.

(* ---- concurrent committers (interleaving model of blockWrite / prepareToDrop / doWrites /
   sendToWriteCh / readTs; B/DropConc.v) ---- *)

(* FALSE for DropPrefix (F29): a reachable state in which neither the drop, nor the
   committer, nor the writer goroutine can move *)
Theorem C29_concurrent_dropprefix_deadlock_refuted :
  steps true (init 1) DropConcProofs.f29_state /\ stuck true DropConcProofs.f29_state.
Proof. exact DropConcProofs.dropprefix_deadlock_refuted. Qed.
Print Assumptions C29_concurrent_dropprefix_deadlock_refuted.

(* DropAll: every non-final state of the handshake has an enabled step, for any number of
   committers and any interleaving (all states, not only the reachable ones) *)
Theorem C29_concurrent_dropall_progress : forall s, final s = false -> exists s', step false s s'.
Proof. exact DropConcProofs.dropall_progress. Qed.
Print Assumptions C29_concurrent_dropall_progress.

(* partial for DropPrefix: progress unless a request sits in writeCh while doWrites is stopped *)
Theorem C29_concurrent_dropprefix_progress_partial : forall s,
  final s = false -> ~ DropConcProofs.orphan_request s -> exists s', step true s s'.
Proof. exact DropConcProofs.dropprefix_progress_partial. Qed.
Print Assumptions C29_concurrent_dropprefix_progress_partial.

(* the hypotheses are satisfiable by non-trivial instances *)
Example C29_hypotheses_satisfiable :
  let t := mkT 2 [mkE [97] 1 0 0 0 [1]; mkE [98] 3 0 0 0 [3]] in
  let d := mkLsm [mkE [97] 5 0 0 0 [9]] [] [[]; [t]] in
  lsm_wf d /\ mem_newer d /\ picker_complete [[98]] [t] /\ no_extension [[98]] [97] /\
  sorted (t_ents t) /\ contains_any_prefixes [[98]] t = true.
Proof.
  cbv zeta. split; [|split; [|split; [|split; [|split]]]].
  - repeat split; repeat constructor; discriminate.
  - intros m t0 Hm Ht Hk. cbn in Hm, Ht. destruct Hm as [<-|[]]. destruct Ht as [<-|[<-|[]]]; cbn in Hk; try discriminate Hk. vm_compute. discriminate.
  - intros t0 [<-|[]] H. vm_compute in H. discriminate.
  - intros p [<-|[]] H. cbn in H. discriminate.
  - repeat constructor.
  - reflexivity.
Qed.
