(* C06 — Values and metadata read back exactly as written, wherever they are stored. *)
From Verif Require Import Bytes Threshold.
From Verif Require ThresholdProofs.
Open Scope Z_scope.

(* inline-vs-value-log decision: every consultation of one entry (modify, sendToWriteCh,
   vlog.write, writeToLSM) agrees with the first, whatever the dynamic threshold does meanwhile,
   so a value is never looked up through a pointer that was not written (and vice versa) *)
Theorem C06_threshold_consistent : forall vlen t ths, t <> 0 ->
  Forall (fun d => d = (vlen <? t)) (decisions vlen 0 (t :: ths)).
Proof. exact ThresholdProofs.threshold_consistent. Qed.
Print Assumptions C06_threshold_consistent.
Example C06_threshold_consistent_ex : decisions 40 0 [32; 1024; 8] = [false; false; false].
Proof. reflexivity. Qed.
