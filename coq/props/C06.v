(* C06 — Values and metadata read back exactly as written, wherever they are stored. *)
From Verif Require Import Bytes Codec LogRecord Threshold VlogWrite.
From Verif Require ThresholdProofs VlogWriteProofs LogProofs.
Open Scope Z_scope.

(* inline-vs-value-log decision: every consultation of one entry (modify, sendToWriteCh,
   vlog.write, writeToLSM) agrees with the first, whatever the dynamic threshold does meanwhile,
   so a value is never looked up through a pointer that was not written (and vice versa) *)
Theorem C06_threshold_consistent : forall vlen t ths, t <> 0 ->
  Forall (fun d => d = (vlen <? t)) (decisions vlen 0 (t :: ths)).
Proof. exact ThresholdProofs.threshold_consistent. Qed.
Print Assumptions C06_threshold_consistent.
Example C06_threshold_consistent_ex : decisions 40 0 [32; 1024; 8] = [false; false; false].
Proof. reflexivity. Qed.

Open Scope N_scope.
Section ValueLog.
  (* the file's data key (AES-CTR keystream as an abstract involutive stream cipher), base IVs,
     file headers, rotation limits: arbitrary *)
  Variable encrypted : bool.
  Variable xs : bytes -> bytes -> bytes.
  Variable iv_of hdr_of : N -> bytes.
  Variable file_size max_entries : N.
  Hypothesis xs_len : forall iv d, length (xs iv d) = length d.
  Hypothesis xs_invol : forall iv d, xs iv (xs iv d) = d.
  Hypothesis xs_stream : forall iv a b, firstn (length a) (xs iv (a ++ b)) = xs iv a.
  Hypothesis hdr_len : forall f, N.of_nat (length (hdr_of f)) = Consts.c_vlogHeaderSize.

  (* For EVERY history of writer calls (valueLog.write on any batching of requests, any entries,
     any inline/value-log decisions, any rotation limits) started in a well-formed value log:
     in the final state, what Item.yieldItemValue reads through the value struct that writeToLSM
     stored for an entry — inline, or through the value pointer into whichever file the record
     went — is exactly the value of that entry.  `small` is the no-uint32-wrap guard that
     validateWrites is there to establish. *)
  Theorem C06_values_read_back : forall calls st st' psss,
    VlogWriteProofs.vwf st ->
    Forall (Forall VlogWriteProofs.wfes) calls ->
    write_calls encrypted xs iv_of hdr_of file_size max_entries st calls = (st', psss) ->
    VlogWriteProofs.small st' ->
    Forall2 (Forall2 (Forall2 (VlogWriteProofs.reads_back encrypted xs iv_of st'))) calls psss.
  Proof. exact (VlogWriteProofs.write_calls_read_back encrypted xs iv_of hdr_of file_size max_entries xs_len xs_invol xs_stream hdr_len). Qed.

  (* later writes (appends, rotations) never disturb a value that could be read before *)
  Theorem C06_later_writes_keep_values : forall calls st st' psss p v,
    VlogWriteProofs.vwf st ->
    Forall (Forall VlogWriteProofs.wfes) calls ->
    write_calls encrypted xs iv_of hdr_of file_size max_entries st calls = (st', psss) ->
    read_value encrypted xs iv_of st p = Some v -> read_value encrypted xs iv_of st' p = Some v.
  Proof. exact (VlogWriteProofs.write_calls_stable encrypted xs iv_of hdr_of file_size max_entries xs_len xs_invol xs_stream hdr_len). Qed.

  (* the freshly opened value log is well formed *)
  Theorem C06_init_wf : VlogWriteProofs.vwf (vlog_init hdr_of).
  Proof. exact (VlogWriteProofs.vlog_init_wf xs iv_of hdr_of file_size xs_len xs_invol xs_stream hdr_len). Qed.
End ValueLog.
Print Assumptions C06_values_read_back.
Print Assumptions C06_later_writes_keep_values.
Print Assumptions C06_init_wf.

(* the hypotheses are satisfiable: the unencrypted instance, two requests in one writer call with
   a rotation after the first (max_entries = 0), values on both sides of the threshold *)
Example C06_values_read_back_ex :
  let e1 := mkEntry [1; 0; 0; 0; 0; 0; 0; 0; 9] [7; 7; 7] 64 1 0 in
  let e2 := mkEntry [2; 0; 0; 0; 0; 0; 0; 0; 9] [8] 0 0 0 in
  let e3 := mkEntry [3; 0; 0; 0; 0; 0; 0; 0; 9] [5; 6] 4 2 77 in
  let hdr := fun _ : N => repeat 0 20 in
  let calls := [[[(e1, false); (e2, true)]; [(e3, false)]]] in
  let '(st, psss) := write_calls false xs_id (fun _ => []) hdr 1048576 0 (vlog_init hdr) calls in
  vl_max st = 3 /\ psss = [[[mkVptr 1 21 20; mkVptr 0 0 0]; [mkVptr 2 20 20]]] /\
  item_value false xs_id (fun _ => []) st (lsm_value e1 false (mkVptr 1 21 20)) = Some [7; 7; 7] /\
  item_value false xs_id (fun _ => []) st (lsm_value e3 false (mkVptr 2 20 20)) = Some [5; 6].
Proof. vm_compute. repeat split; reflexivity. Qed.
