(* C25 — A Stream run emits one consistent snapshot, each key exactly once.
   Statements only; proofs are `exact` of lemmas in B/StreamProofs2.v / B/StreamWitness.v.
   Vocabulary (B/Stream.v, B/StreamProofs.v): `produce_range` = what the producer that takes one
   key range appends to its output (produceKVs' loop over Iterator.Seek(left)..., KeyToList,
   ChooseKey, prevKey skip, range end), `stream_pass` = all ranges of a split read at one
   timestamp from one view, `run_reads` = each range read at its producer's own timestamp and
   view (as coded), `shown_items` = the entries a producer's iterator shows. *)
From Verif Require Import Bytes Keys Consts Spec Lsm Compact Iter Sys Stream SysStream
  StreamProofs StreamProofs2 StreamWitness.
From Coq Require Import Sorting.Sorted Permutation.
Open Scope N_scope.

(* Partition.  Precondition on the split keys = exactly what DB.Ranges guarantees: sorted
   (sort.Strings; duplicates allowed), non-empty, each with the stream prefix (`splits_ok`).
   For every such split, every KeyToList kind, ChooseKey, Prefix and SinceTs: the concatenation
   of the per-range outputs in range order is the output of one unsplit pass. *)
Theorem C25_partition : forall prefix since now banned kd choose rts m ks,
  view_ok m -> no_empty_key m -> splits_ok prefix ks = true ->
  stream_pass prefix since now banned kd choose rts m ks
  = produce_range prefix since now banned kd choose rts m ([], []).
Proof. exact stream_pass_partition. Qed.
Print Assumptions C25_partition.
Example C25_partition_ex : view_ok w_final /\ no_empty_key w_final /\ splits_ok [] [w_split] = true.
Proof. split; [exact w_final_view|]. split; [repeat constructor; discriminate|reflexivity]. Qed.
(* the order of the split keys matters: with unsorted splits a key is delivered twice *)
Example C25_partition_needs_sorted :
  let m := [mkE [1] 1 0 0 0 []; mkE [2] 1 0 0 0 []; mkE [3] 1 0 0 0 []] in
  splits_ok [] [[3]; [2]] = false /\
  concat (stream_pass [] 0 0 (fun _ => false) (KToList 1) all_keys 1 m [[3]; [2]])
  <> concat (produce_range [] 0 0 (fun _ => false) (KToList 1) all_keys 1 m ([], [])).
Proof. split; [reflexivity|vm_compute; discriminate]. Qed.

(* Each chosen key exactly once: one pass is a list of (key, KV list) with strictly increasing
   keys, and (k, l) is in it iff k has shown versions, ChooseKey accepts the newest shown
   version, and l is the non-empty list KeyToList builds from k's shown versions *)
Theorem C25_key_once : forall prefix since now banned kd choose rts m,
  view_ok m -> no_empty_key m ->
  let V := shown_items prefix since rts banned m in
  exists pairs,
    produce_range prefix since now banned kd choose rts m ([], []) = map snd pairs
    /\ StronglySorted (fun a b => lex_cmp a b = Lt) (map fst pairs)
    /\ forall k l, In (k, l) pairs <-> delivered_for (key_to_list kd now) choose V k l.
Proof. exact pass_key_once. Qed.
Print Assumptions C25_key_once.

(* every KV of the list delivered for a key carries that key *)
Theorem C25_list_keys : forall kd now key its l,
  fst (key_to_list kd now key its) = Some l -> Forall (fun x => e_key x = key) l.
Proof. exact ktl_keys. Qed.
Print Assumptions C25_list_keys.

(* C25_snapshot, full statement (FALSE on the code as it is, finding F7):
     SysStream / StreamWitness.snapshot_statement:
     forall pre run cfg ks now, the history pre ++ run is accepted by the system model ->
       splits_ok ks -> the ProdRange labels of run cover (ranges ks) ->
       the delivered KVs in range order = stream_pass at the read timestamp and view current
       when the run started.
   Refuted: producer 0's transaction is created at readTs 1, a transfer commits at 2, producer
   1's transaction is created at readTs 2; the run delivers a@1, b@2, which no single read
   timestamp explains, neither on the final nor on the initial view. *)
Theorem C25_snapshot_refuted :
  ~ snapshot_statement /\
  exists pre run ks,
    fst (xexec w_init (pre ++ run) 0) = None
    /\ splits_ok [] ks = true
    /\ Permutation (map fst (range_outs run)) (ranges ks)
    /\ (forall r, in_range_order ks (range_outs run)
                  <> concat (stream_pass [] 0 100 (fun _ => false) (KToList 1) all_keys r (end_view (pre ++ run)) ks))
    /\ in_range_order ks (range_outs run)
       <> concat (stream_pass [] 0 100 (fun _ => false) (KToList 1) all_keys
                    (s_next (x_sys (snd (xexec w_init pre 0))) - 1) (end_view pre) ks).
Proof. split; [exact snapshot_statement_false | exact snapshot_refuted]. Qed.
Print Assumptions C25_snapshot_refuted.

(* Partial: if every producer is shown the same items (same read timestamp and views that agree
   at or below it: managed mode with a fixed readTs, or no commit between the producers'
   transaction starts), the run delivers exactly the unsplit single-snapshot pass *)
Theorem C25_snapshot_partial : forall prefix since now banned kd choose
  (rs : list ((bytes * bytes) * (N * src))) r m ks,
  view_ok m -> no_empty_key m -> splits_ok prefix ks = true ->
  map fst rs = ranges ks ->
  (forall x, In x rs -> view_ok (snd (snd x)) /\
     shown_items prefix since (fst (snd x)) banned (snd (snd x)) = shown_items prefix since r banned m) ->
  run_reads prefix since now banned kd choose rs
  = produce_range prefix since now banned kd choose r m ([], []).
Proof. exact run_reads_one_snapshot. Qed.
Print Assumptions C25_snapshot_partial.

(* the hypothesis holds when all producers read at r and later commits only added versions above r *)
Theorem C25_snapshot_partial_same_ts : forall prefix since banned r m m',
  filter (fun e => e_ver e <=? r) m' = filter (fun e => e_ver e <=? r) m ->
  shown_items prefix since r banned m' = shown_items prefix since r banned m.
Proof. exact shown_items_stable. Qed.
Print Assumptions C25_snapshot_partial_same_ts.
Example C25_snapshot_partial_ex :
  filter (fun e => e_ver e <=? 1) w_final = filter (fun e => e_ver e <=? 1) w_start.
Proof. reflexivity. Qed.

(* C25_send_serial (Send is never entered concurrently): a property of the goroutine structure
   (one streamKVs goroutine); not expressible in the sequential model — checked on every run by
   the re-entrancy counter of the harness (oracle sig c25-send-concurrent). *)
