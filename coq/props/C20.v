(* C20 — Internal key, header and value encodings round-trip and order correctly.
   Theorem statements only; every proof is `exact <lemma>` from the proof files. *)
From Verif Require Import Bytes Uvarint Keys Codec Consts.
From Verif Require BytesProofs UvarintProofs C20Proofs.
Open Scope N_scope.

(* encode-with-version then decode returns the same key and version (non-empty user key) *)
Theorem C20_key_roundtrip : forall (k : bytes) (ts : N), k <> [] -> ts < two64 ->
  parse_key (key_with_ts k ts) = k /\ parse_ts (key_with_ts k ts) = ts.
Proof. intros k ts Hk Hts. split; [exact (C20Proofs.parse_key_key_with_ts k ts) | exact (C20Proofs.parse_ts_key_with_ts k ts Hk Hts)]. Qed.
Print Assumptions C20_key_roundtrip.
Example C20_key_roundtrip_ex : [7] <> [] /\ 5 < two64. Proof. split; [discriminate|reflexivity]. Qed.

(* CompareKeys on encoded keys = user key bytewise ascending, then version descending *)
Theorem C20_compare_keys : forall k1 t1 k2 t2, t1 < two64 -> t2 < two64 ->
  compare_keys (key_with_ts k1 t1) (key_with_ts k2 t2) =
  Some (match lex_cmp k1 k2 with Eq => t2 ?= t1 | c => c end).
Proof. exact C20Proofs.compare_keys_spec. Qed.
Print Assumptions C20_compare_keys.

(* the order has no ties between distinct (key, version) pairs *)
Theorem C20_order_total : forall k1 t1 k2 t2,
  key_order k1 t1 k2 t2 = Eq <-> k1 = k2 /\ t1 = t2.
Proof. exact C20Proofs.key_order_eq. Qed.
Print Assumptions C20_order_total.

(* ... and is a strict total order (what sorting, binary search and merging rely on): reversing the
   arguments reverses the result, and "before" is transitive *)
Theorem C20_order_antisym : forall k1 t1 k2 t2,
  key_order k2 t2 k1 t1 = CompOpp (key_order k1 t1 k2 t2).
Proof. exact C20Proofs.key_order_antisym. Qed.
Print Assumptions C20_order_antisym.

Theorem C20_order_trans : forall k1 t1 k2 t2 k3 t3,
  key_order k1 t1 k2 t2 = Lt -> key_order k2 t2 k3 t3 = Lt -> key_order k1 t1 k3 t3 = Lt.
Proof. exact C20Proofs.key_order_trans_lt. Qed.
Print Assumptions C20_order_trans.

(* the encoding is injective (also for the empty user key): two (key, version) pairs never share
   an internal key *)
Theorem C20_key_encoding_injective : forall k1 t1 k2 t2, t1 < two64 -> t2 < two64 ->
  key_with_ts k1 t1 = key_with_ts k2 t2 -> k1 = k2 /\ t1 = t2.
Proof. exact C20Proofs.key_with_ts_inj. Qed.
Print Assumptions C20_key_encoding_injective.

Theorem C20_same_key : forall k1 t1 k2 t2,
  same_key (key_with_ts k1 t1) (key_with_ts k2 t2) = bytes_eqb k1 k2.
Proof. exact C20Proofs.same_key_spec. Qed.
Print Assumptions C20_same_key.

Theorem C20_uvarint_roundtrip : forall x rest, x < two64 ->
  uvarint (put_uvarint x ++ rest) = (x, Z.of_nat (length (put_uvarint x))).
Proof. exact UvarintProofs.uvarint_put. Qed.
Print Assumptions C20_uvarint_roundtrip.

(* the decoder on ANY buffer (not only encoder output): a positive count is at most 10 and at most the
   buffer length, with a value that fits 64 bits; a non-positive count (short buffer, overflow) comes
   with value 0 - the contract header.Decode and the table/vlog readers rely on *)
Theorem C20_uvarint_decode_bounds : forall buf,
  let r := uvarint buf in
  ((0 < snd r)%Z -> (snd r <= Z.of_nat (length buf))%Z /\ (snd r <= 10)%Z /\ fst r < two64)
  /\ ((snd r <= 0)%Z -> fst r = 0 /\ (-11 <= snd r)%Z).
Proof. exact C20Proofs.uvarint_bounds. Qed.
Print Assumptions C20_uvarint_decode_bounds.

(* header: all uint32 / uint64 / byte field values; decoding ignores what follows; size bound
   is the constant the code allocates (maxHeaderSize, regenerated from structs.go) *)
Theorem C20_header_roundtrip : forall h rest,
  h_klen h < two32 -> h_vlen h < two32 -> h_expires h < two64 ->
  header_decode (header_encode h ++ rest) = Some (h, Z.of_nat (length (header_encode h)))
  /\ N.of_nat (length (header_encode h)) <= c_maxHeaderSize.
Proof.
  intros h rest Hk Hv He. split; [exact (C20Proofs.header_roundtrip h rest Hk Hv He)|].
  pose proof (C20Proofs.header_encode_len_max h Hk Hv) as H. unfold c_maxHeaderSize. lia.
Qed.
Print Assumptions C20_header_roundtrip.

(* header.Decode on ANY buffer: when it does not panic, the byte count it reports never exceeds the
   buffer and every decoded field is in its Go type's range *)
Theorem C20_header_decode_bounds : forall buf h n, header_decode buf = Some (h, n) ->
  (n <= Z.of_nat (length buf))%Z /\ h_klen h < two32 /\ h_vlen h < two32 /\ h_expires h < two64.
Proof. exact C20Proofs.header_decode_bounds. Qed.
Print Assumptions C20_header_decode_bounds.
Example C20_header_decode_bounds_ex : exists h n, header_decode [1; 2; 3; 4; 5] = Some (h, n).
Proof. eexists. eexists. vm_compute. reflexivity. Qed.

Theorem C20_valuestruct_roundtrip : forall v, vs_expires v < two64 ->
  vs_decode (vs_encode v) = Some v.
Proof. exact C20Proofs.vs_roundtrip. Qed.
Print Assumptions C20_valuestruct_roundtrip.

(* ValueStruct.Decode on ANY buffer: when it does not panic the value is a suffix of the buffer,
   the meta bytes are its first two bytes and the expiry fits 64 bits *)
Theorem C20_valuestruct_decode_bounds : forall b v, vs_decode b = Some v ->
  (exists p, b = p ++ vs_value v) /\ vs_expires v < two64 /\ firstn 2 b = [vs_meta v; vs_umeta v].
Proof. exact C20Proofs.vs_decode_bounds. Qed.
Print Assumptions C20_valuestruct_decode_bounds.

Theorem C20_valuestruct_size : forall v, N.of_nat (length (vs_encode v)) < two32 ->
  vs_encoded_size v = N.of_nat (length (vs_encode v)).
Proof. exact C20Proofs.vs_encoded_size_spec. Qed.
Print Assumptions C20_valuestruct_size.

Theorem C20_vptr_roundtrip : forall p, vp_fid p < two32 -> vp_len p < two32 -> vp_off p < two32 ->
  vptr_decode (vptr_encode p) = Some p /\ length (vptr_encode p) = 12%nat.
Proof. exact C20Proofs.vptr_roundtrip. Qed.
Print Assumptions C20_vptr_roundtrip.

(* decode-then-encode: every well-formed stored internal key longer than 8 bytes IS the encoding of
   its parsed user key and version, so the theorems above cover every key a table or memtable holds *)
Theorem C20_key_decode_encode : forall ik, wf_bytes ik = true -> (8 < length ik)%nat ->
  key_with_ts (parse_key ik) (parse_ts ik) = ik /\ parse_ts ik < two64 /\ parse_key ik <> [].
Proof. exact C20Proofs.key_with_ts_parse. Qed.
Print Assumptions C20_key_decode_encode.
Example C20_key_decode_encode_ex : wf_bytes [107; 255; 255; 255; 255; 255; 255; 255; 250] = true /\ (8 < 9)%nat.
Proof. split; [reflexivity|repeat constructor]. Qed.

Theorem C20_compare_stored_keys : forall a b, wf_bytes a = true -> wf_bytes b = true ->
  (8 < length a)%nat -> (8 < length b)%nat ->
  compare_keys a b = Some (key_order (parse_key a) (parse_ts a) (parse_key b) (parse_ts b)).
Proof. exact C20Proofs.compare_keys_raw. Qed.
Print Assumptions C20_compare_stored_keys.

(* valuePointer.Less (fid, then offset, then len) is a strict total order on value pointers *)
Theorem C20_vptr_less_strict_total : forall p q r,
  vptr_less p p = false
  /\ (vptr_less p q = true -> vptr_less q r = true -> vptr_less p r = true)
  /\ (vptr_less p q = false -> vptr_less q p = false -> p = q).
Proof.
  intros p q r. split; [exact (C20Proofs.vptr_less_irrefl p)|].
  split; [exact (C20Proofs.vptr_less_trans p q r) | exact (C20Proofs.vptr_less_total p q)].
Qed.
Print Assumptions C20_vptr_less_strict_total.

(* every encoder emits well-formed bytes (the side condition the decoders' theorems use) *)
Theorem C20_encoders_wf : forall x, wf_bytes (put_uvarint x) = true /\ wf_bytes (be_enc 8 x) = true.
Proof. intros x. split; [exact (UvarintProofs.put_uvarint_wf x) | exact (BytesProofs.wf_bytes_be_enc 8 x)]. Qed.
Print Assumptions C20_encoders_wf.

(* the streaming decoder (header.DecodeFrom over a byte reader, however the reader chunks its
   input) returns the encoded header, the number of bytes it took, and leaves the rest *)
From Verif Require LogRecord LogProofs.
Theorem C20_header_reader_roundtrip : forall h rest,
  h_klen h < two32 -> h_vlen h < two32 -> h_expires h < two64 ->
  LogRecord.header_read (header_encode h ++ rest) = LogRecord.HOk h (length (header_encode h)) rest.
Proof. exact LogProofs.header_read_encode. Qed.
Print Assumptions C20_header_reader_roundtrip.
