(* C16 — Log records round-trip and replay in transaction units.
   Only theorem statements; every proof is an application of a lemma from the proof files.
   Models: base/Crc32c.v (CRC-32C), A/LogRecord.v (logFile.encodeEntry, safeRead.Entry,
   header.DecodeFrom, logFile.decodeEntry), A/LogIter.v (logFile.iterate) — the same definitions
   the correspondence (corr/CorrC16.v) evaluates against the Go code on every run.
   The keystream `xs` (AES-CTR for the file's data key) is arbitrary subject to `keystream_ok`
   (keeps the length, involution, bytes stay bytes); `encrypted = false` is the file without data key. *)
From Verif Require Import Bytes Uvarint Keys Codec Consts Crc32c LogRecord LogIter.
From Verif Require Crc32cProofs LogProofs LogIterProofs.
Import LogProofs LogIterProofs.
Open Scope N_scope.

(* every record (key, value, meta, user meta, expiry; all values of their Go types; key at most
   1<<16 bytes — longer keys are rejected by the reader, see C16_key_limit; encrypted or not)
   decodes back to exactly what was encoded, at any offset, whatever follows it *)
Theorem C16_record_roundtrip : forall encrypted xs base_iv, keystream_ok xs ->
  forall e off rest, wf_entry e ->
  safe_read encrypted xs base_iv (encode_entry encrypted xs base_iv e off ++ rest) off
  = RdOk e (hdr_len e) rest.
Proof. intros encrypted xs base_iv (H1 & H2 & H3). exact (safe_read_encode encrypted xs base_iv H1 H2 H3). Qed.
Print Assumptions C16_record_roundtrip.
Example C16_record_roundtrip_ex : keystream_ok xs_id /\ keystream_ok xs_toy /\ wf_entry ex_t2.
Proof. split; [apply xs_id_ok | split; [apply xs_toy_ok | wf_entry_tac]]. Qed.

(* the value-log read path: decodeEntry on exactly the bytes a value pointer (offset, length of
   the record) designates returns the entry *)
Theorem C16_vptr_decode : forall encrypted xs base_iv, keystream_ok xs -> keystream_prefix xs ->
  forall e off, wf_entry e ->
  decode_entry encrypted xs base_iv (encode_entry encrypted xs base_iv e off) off = Some e
  /\ N.of_nat (length (encode_entry encrypted xs base_iv e off)) = rec_size e.
Proof.
  intros encrypted xs base_iv (H1 & H2 & H3) HP e off W. split.
  - exact (decode_entry_encode encrypted xs base_iv H1 H2 HP e off W).
  - exact (encode_entry_size encrypted xs base_iv H1 H2 H3 e off).
Qed.
Print Assumptions C16_vptr_decode.

(* the reader's key-length limit: h.klen > 1<<16 => errTruncate, so a record with a longer key
   (the write path limits keys to maxKeySize = 65000 + 8) would not round-trip *)
Theorem C16_key_limit : c_maxKeySize + 8 <= 65536.
Proof. vm_compute. discriminate. Qed.
Print Assumptions C16_key_limit.

(* iterating a log made of well-formed units (plain entries; transactional entries followed by
   their end marker) returns the entries in write order, each with its offset and record length
   (value pointer = (fid, d_off, d_len)), the end markers are not delivered, and the valid end
   offset is the end of the log *)
Theorem C16_iterate_order : forall encrypted xs base_iv, keystream_ok xs ->
  forall us off, Forall wf_unit us -> off + units_size us < two32 ->
  iterate encrypted xs base_iv (encode_units encrypted xs base_iv us off) off
  = (unit_dels us off, Done (off + units_size us)).
Proof. intros encrypted xs base_iv (H1 & H2 & H3). exact (iterate_units encrypted xs base_iv H1 H2 H3). Qed.
Print Assumptions C16_iterate_order.
Example C16_iterate_order_ex :
  Forall wf_unit ex_units /\ 20 + units_size ex_units < two32 /\
  fst (iterate false xs_id [] (encode_units false xs_id [] ex_units 20) 20)
  = [mkDel ex_plain 20 (rec_size ex_plain); mkDel ex_t1 40 (rec_size ex_t1); mkDel ex_t2 60 (rec_size ex_t2)].
Proof. split; [exact ex_units_wf | split; vm_compute; reflexivity]. Qed.

(* logFile.iterate(readOnly, offset, fn) on the whole file image: offset 0 means "after the 20-byte
   header (key id, base IV)", any other offset is the position of a record *)
Theorem C16_iterate_file : forall encrypted xs base_iv pre buf offset,
  N.of_nat (length pre) = (if offset =? 0 then c_vlogHeaderSize else offset) ->
  iterate_file encrypted xs base_iv (pre ++ buf) offset
  = iterate encrypted xs base_iv buf (N.of_nat (length pre)).
Proof. exact iterate_file_spec. Qed.
Print Assumptions C16_iterate_file.

(* FOR EVERY BYTE STRING (not only well-formed logs): the deliveries decompose into whole units
   read from the input — a plain entry, or all transactional entries of one version read back to
   back and immediately followed by a checksum-valid end marker whose value is that version in
   decimal (units_parse).  Guard: the iteration meets no transactional entry of version 0
   (no_zero_ts) — the writer asserts commitTs != 0 (txn.go commitAndSend), and the reader uses
   lastCommit == 0 as "no transaction open". *)
Theorem C16_txn_units : forall encrypted xs base_iv, keystream_ok xs ->
  forall buf off, no_zero_ts encrypted xs base_iv buf off ->
  units_parse encrypted xs base_iv buf off (fst (iterate encrypted xs base_iv buf off)).
Proof. intros encrypted xs base_iv (H1 & H2 & H3). exact (iterate_txn_units encrypted xs base_iv H1 H2 H3). Qed.
Print Assumptions C16_txn_units.

(* the guard is necessary: without it
     forall buf off, units_parse buf off (fst (iterate buf off))
   fails — a version-0 transactional entry followed by a version-7 transaction is delivered in
   the group closed by the marker "7" *)
Theorem C16_txn_units_zero_ts_refuted :
  let buf := encode_entries false xs_id [] [ex_z0; ex_z7; ex_zm] 20 in
  txn_bit ex_z0 = true /\ parse_ts (e_key ex_z0) = 0 /\ parse_uint_dec (e_value ex_zm) = Some 7 /\
  fst (iterate false xs_id [] buf 20) = dels [ex_z0; ex_z7] 20.
Proof. exact zero_ts_witness. Qed.
Print Assumptions C16_txn_units_zero_ts_refuted.

(* altering any ONE byte of the stored key|value region makes safe_read fail with errTruncate
   (the record image hb | pre x post | crc becomes hb | pre x' post | crc) — algebraic, no sampling *)
Theorem C16_crc_single_byte : forall encrypted xs base_iv, keystream_ok xs ->
  forall e off rest pre x x' post, wf_entry e ->
  crypt encrypted xs base_iv off (e_key e ++ e_value e) = pre ++ x :: post -> x' < 256 -> x' <> x ->
  let hb := header_encode (entry_header e) in
  encode_entry encrypted xs base_iv e off = hb ++ (pre ++ x :: post) ++ be_enc 4 (crc32c (hb ++ pre ++ x :: post))
  /\ safe_read encrypted xs base_iv
       (hb ++ (pre ++ x' :: post) ++ be_enc 4 (crc32c (hb ++ pre ++ x :: post)) ++ rest) off = RdTruncate.
Proof.
  intros encrypted xs base_iv (H1 & H2 & H3) e off rest pre x x' post W E Hx Hne hb. split.
  - unfold encode_entry. fold hb. now rewrite E.
  - exact (safe_read_kv_single_byte encrypted xs base_iv H1 H2 H3 e off rest pre x x' post W E Hx Hne).
Qed.
Print Assumptions C16_crc_single_byte.

(* more generally: any alteration confined to 32 consecutive bits of the stored key|value region
   (window w -> w' of equal length whose difference, read as a little-endian bit string, is a
   non-zero pattern v < 2^32 shifted by t bits) *)
Theorem C16_crc_burst32 : forall encrypted xs base_iv, keystream_ok xs ->
  forall e off rest w w' pre post t v, wf_entry e ->
  crypt encrypted xs base_iv off (e_key e ++ e_value e) = pre ++ w ++ post ->
  length w = length w' -> wf_bytes w' = true ->
  N.lxor (le_dec w) (le_dec w') = 2 ^ t * v -> v <> 0 -> v < two32 ->
  let hb := header_encode (entry_header e) in
  safe_read encrypted xs base_iv
    (hb ++ (pre ++ w' ++ post) ++ be_enc 4 (crc32c (hb ++ pre ++ w ++ post)) ++ rest) off = RdTruncate.
Proof. intros encrypted xs base_iv (H1 & H2 & H3). exact (safe_read_kv_burst encrypted xs base_iv H1 H2 H3). Qed.
Print Assumptions C16_crc_burst32.

(* OUTSIDE the key|value region the checksum is not reached in time: one flipped bit in the
   value-length byte of an intact record (expiry 0x65FFFFFF) makes safeRead.Entry panic
   (uint32 klen+vlen wraps, e.Key = buf[:h.klen] out of range) — the implementation panics on
   the same bytes (harness case IterHeaderFlipPanic).  Reported as a finding; the property text
   speaks of altered key or value bytes only. *)
Theorem C16_header_bitflip_panic_witness :
  wf_plain ex_hdr /\
  iterate false xs_id [] (encode_entry false xs_id [] ex_hdr 20) 20
    = ([mkDel ex_hdr 20 (rec_size ex_hdr)], Done (20 + rec_size ex_hdr)) /\
  iterate false xs_id [] (flip_bit7 (encode_entry false xs_id [] ex_hdr 20) 3) 20 = ([], Panic).
Proof. exact header_bitflip_panic_witness. Qed.
Print Assumptions C16_header_bitflip_panic_witness.

(* the CRC facts used: the LFSR step is linear and injective on 32-bit states, and any change
   within a 32-bit window of a message changes crc32c *)
Theorem C16_crc_step_injective : forall a b, a < two32 -> b < two32 -> crc_shift a = crc_shift b -> a = b.
Proof. exact Crc32cProofs.crc_shift_inj. Qed.
Print Assumptions C16_crc_step_injective.

Theorem C16_crc_burst32_detected : forall pre w w' post t v,
  wf_bytes pre = true -> wf_bytes w = true -> wf_bytes w' = true -> wf_bytes post = true ->
  length w = length w' ->
  N.lxor (le_dec w) (le_dec w') = 2 ^ t * v -> v <> 0 -> v < two32 ->
  crc32c (pre ++ w ++ post) <> crc32c (pre ++ w' ++ post).
Proof. exact Crc32cProofs.crc_burst32_detected. Qed.
Print Assumptions C16_crc_burst32_detected.

(* Go's table-driven update (tab[byte(crc)^v] ^ (crc>>8)) is the bitwise model *)
Theorem C16_crc_table : forall c b, crc_byte c b = crc_byte_tab c b.
Proof. exact Crc32cProofs.crc_byte_table. Qed.
Print Assumptions C16_crc_table.
