(* C22 — The memtable skiplist behaves as a sorted map under concurrency.
   Statements only; every proof is `exact <lemma>` from SkiplistProofs / SkiplistInstProofs.

   The model (Skiplist.v) is instantiated as skl.Skiplist is used (SkiplistInst.v): keys are
   internal keys compared with y.CompareKeys (ckeys), values y.ValueStruct.  CompareKeys panics on
   keys shorter than 8 bytes, so every statement is for keys with wf_ikey (>= 8 bytes).
   The tower height randomHeight() picks is an input: the statements hold for ANY heights in
   1..maxHeight, and the sorted map m_of_puts does not look at them.

   Part 1 (theorems C22_seq_...): any sequence of puts, sequentially.
   Part 2 (theorems C22_conc_partial_...): any interleaving of any number of threads' shared-memory writes,
   see the comment there for exactly what is and is not covered. *)
From Verif Require Import Bytes Keys Codec Skiplist SkiplistInst.
From Verif Require SkiplistProofs SkiplistInstProofs.
Import SkiplistProofs SkiplistInstProofs.
From Coq Require Import Sorted.
Open Scope nat_scope.

(* CompareKeys is a strict total order on internal keys, and Eq means the same bytes *)
Theorem C22_keys_total_order :
  (forall a b, wf_ikey a -> wf_ikey b -> ckeys b a = CompOpp (ckeys a b)) /\
  (forall a b c, wf_ikey a -> wf_ikey b -> wf_ikey c -> ckeys a b = Lt -> ckeys b c = Lt -> ckeys a c = Lt) /\
  (forall a b, wf_ikey a -> wf_ikey b -> ckeys a b = Eq -> a = b).
Proof. exact (conj ckeys_antisym (conj ckeys_trans ckeys_eq)). Qed.
Print Assumptions C22_keys_total_order.

(* ---- Part 1: sequential ---- *)

(* Put never fails (no fuel exhaustion, the CAS always succeeds) *)
Theorem C22_seq_total : forall ps, ok_puts ps -> exists s, s_put_all ps s_new = Some s.
Proof. exact I_total. Qed.
Print Assumptions C22_seq_total.

(* the level-0 list, read off the pointers, is the sorted map of the puts (a later put of an
   existing key replaces its value) and its keys are strictly increasing: no duplicates *)
Theorem C22_seq_contents : forall ps s, ok_puts ps -> s_put_all ps s_new = Some s ->
  s_contents s = m_of_puts ps [] /\ keys_increasing bytes value_struct ckeys (s_contents s).
Proof. exact I_contents. Qed.
Print Assumptions C22_seq_contents.

(* every level is strictly sorted and a subsequence of the level below *)
Theorem C22_seq_levels : forall ps s, ok_puts ps -> s_put_all ps s_new = Some s ->
  forall l, S l < max_height ->
  keys_sorted bytes value_struct ckeys [] zero_vs s (s_level_nodes s l) /\
  sublist (s_level_nodes s (S l)) (s_level_nodes s l).
Proof. exact I_levels. Qed.
Print Assumptions C22_seq_levels.

(* Get = the first entry >= key of the sorted map if it has the same user key
   (the newest version <= ts of that user key) *)
Theorem C22_seq_get : forall ps s key, ok_puts ps -> s_put_all ps s_new = Some s -> wf_ikey key ->
  s_get s key = Some (m_get key (m_of_puts ps [])).
Proof. exact I_get. Qed.
Print Assumptions C22_seq_get.

(* findNear in its four (less, allowEqual) modes = first >=, first >, last <=, last < of the map *)
Theorem C22_seq_find_near : forall ps s key, ok_puts ps -> s_put_all ps s_new = Some s -> wf_ikey key ->
  let m := m_of_puts ps [] in
  option_map (fun r => s_entry s (fst r)) (s_find_near s key false true) = Some (m_ge key m) /\
  option_map (fun r => s_entry s (fst r)) (s_find_near s key false false) = Some (m_gt key m) /\
  option_map (fun r => s_entry s (fst r)) (s_find_near s key true true) = Some (m_le key m) /\
  option_map (fun r => s_entry s (fst r)) (s_find_near s key true false) = Some (m_lt key m).
Proof. exact I_find_near. Qed.
Print Assumptions C22_seq_find_near.

(* Iterator.Seek / SeekForPrev *)
Theorem C22_seq_seek : forall ps s key, ok_puts ps -> s_put_all ps s_new = Some s -> wf_ikey key ->
  option_map (s_entry s) (s_seek s key) = Some (m_ge key (m_of_puts ps [])) /\
  option_map (s_entry s) (s_seek_for_prev s key) = Some (m_le key (m_of_puts ps [])).
Proof. exact I_seek. Qed.
Print Assumptions C22_seq_seek.

(* SeekToFirst / SeekToLast *)
Theorem C22_seq_first_last : forall ps s, ok_puts ps -> s_put_all ps s_new = Some s ->
  s_entry s (s_first s) = hd_error (m_of_puts ps []) /\
  option_map (s_entry s) (s_last s) = Some (hd_error (rev (m_of_puts ps []))).
Proof. exact I_first_last. Qed.
Print Assumptions C22_seq_first_last.

(* an iterator on the i-th entry: Next is entry i+1, Prev is entry i-1 (invalid past the ends) *)
Theorem C22_seq_next_prev : forall ps s i n, ok_puts ps -> s_put_all ps s_new = Some s ->
  nth_error (s_level_nodes s 0) i = Some n ->
  s_entry s n = nth_error (m_of_puts ps []) i /\
  s_entry s (s_next s n) = nth_error (m_of_puts ps []) (S i) /\
  option_map (s_entry s) (s_prev s n) =
    Some (match i with O => None | S j => nth_error (m_of_puts ps []) j end).
Proof. exact I_next_prev. Qed.
Print Assumptions C22_seq_next_prev.

(* both iterator directions visit exactly the sorted map *)
Theorem C22_seq_iterate : forall ps s, ok_puts ps -> s_put_all ps s_new = Some s ->
  let m := m_of_puts ps [] in
  s_iter_fwd (S (length m)) s (s_first s) = m /\
  exists n, s_last s = Some n /\ s_iter_bwd (S (length m)) s n = Some (rev m).
Proof. exact I_iterate. Qed.
Print Assumptions C22_seq_iterate.

(* ---- Part 2: concurrency (partial) ----
   Covered: the shared-memory WRITES of any number of concurrent Puts, as the atomic actions of
   Skiplist.v (CAlloc = newNode, CHeight = height CAS, CStore = x.tower[i].Store, CCas =
   prev[i].casNextOffset incl. failing CASes, CSetVal = setValue), in ANY interleaving
   (c_exec = sequences of actions, each issued with its guard true).  For every reachable state:
   level 0 strictly sorted without duplicates, every level strictly sorted and a subsequence of
   the level below (C22_conc_partial); the abstract content changes only at a successful
   level-0 CAS — by exactly the put of the new node's key and value — and at a value store — by
   exactly the replacement of that node's value: these are the linearization points of Put
   (C22_conc_partial_linearization); a value is one atomic word (n_val), so no torn value exists
   in the model.  The guards consist of facts that are stable under every other thread's actions
   (C22_conc_partial_stable) and that single loads establish (C22_conc_partial_read).
   NOT covered by a theorem: (1) that the control flow of Put issues its actions only with the
   guard true — it follows from findSpliceForLevel's loads via C22_conc_partial_read /
   _stable, but the per-thread program counter is not modelled; (2) linearizability of the
   multi-load READ operations (Get, iterators) — readers only ever see states satisfying the
   invariant, each of their loads satisfies C22_conc_partial_read; the end-to-end reader
   guarantee is checked by the concurrent stress oracle in harness/c22.go, not proved;
   (3) sync/atomic is taken as sequentially consistent. *)

Theorem C22_conc_partial : forall tr s, c_exec s_new tr s ->
  keys_increasing bytes value_struct ckeys (s_contents s) /\
  forall l, S l < max_height ->
    keys_sorted bytes value_struct ckeys [] zero_vs s (s_level_nodes s l) /\
    sublist (s_level_nodes s (S l)) (s_level_nodes s l).
Proof. exact I_cexec_structure. Qed.
Print Assumptions C22_conc_partial.

Theorem C22_conc_partial_linearization : forall tr s a, c_exec s_new tr s -> c_guard a s ->
  s_contents (c_apply a s) = c_abs a s (s_contents s).
Proof. exact I_cexec_lin. Qed.
Print Assumptions C22_conc_partial_linearization.

Theorem C22_conc_partial_stable : forall tr s a, c_exec s_new tr s -> c_guard a s ->
  (forall y, y < length (nodes _ _ s) ->
     s_kof (c_apply a s) y = s_kof s y /\
     length (n_tower _ _ (node_at _ _ [] zero_vs (c_apply a s) y)) =
     length (n_tower _ _ (node_at _ _ [] zero_vs s y))) /\
  length (nodes _ _ s) <= length (nodes _ _ (c_apply a s)) /\
  height _ _ s <= height _ _ (c_apply a s) /\
  (forall i y, i < max_height -> In y (s_level_nodes s i) -> In y (s_level_nodes (c_apply a s) i)).
Proof. exact I_stable_reach. Qed.
Print Assumptions C22_conc_partial_stable.

Theorem C22_conc_partial_read : forall tr s i p n, c_exec s_new tr s -> i < max_height ->
  c_linked_at s i p -> get_next _ _ [] zero_vs s p i = n -> n <> 0 ->
  In n (s_level_nodes s i) /\ (p = head \/ ckeys (s_kof s p) (s_kof s n) = Lt).
Proof. exact I_read_reach. Qed.
Print Assumptions C22_conc_partial_read.

(* a forward iteration (SeekToFirst, then Next, each load at an arbitrary later moment while any
   number of Puts proceed) visits linked nodes only and sees strictly increasing keys: a
   concurrent reader never observes unsorted or duplicate entries; values are atomic words *)
Theorem C22_conc_partial_reader_sorted : forall tr s ns s2, c_exec s_new tr s ->
  c_reader_fwd s head ns s2 ->
  (forall n, In n ns -> In n (s_level_nodes s2 0)) /\
  StronglySorted (fun a b => ckeys (s_kof s2 a) (s_kof s2 b) = Lt) ns.
Proof. exact I_reader. Qed.
Print Assumptions C22_conc_partial_reader_sorted.

(* ---- the hypotheses are satisfiable; a small run ---- *)
Definition C22_ex_puts : list (bytes * value_struct * nat) :=
  [ (key_with_ts [98%N] 3%N, mkVS 0%N 0%N 0%N [1%N], 2); (key_with_ts [97%N] 5%N, mkVS 0%N 0%N 0%N [2%N], 4);
    (key_with_ts [98%N] 7%N, mkVS 0%N 0%N 0%N [3%N], 1); (key_with_ts [97%N] 5%N, mkVS 1%N 0%N 0%N [4%N], 3) ].
Example C22_ex_ok : ok_puts C22_ex_puts.
Proof.
  intros k v h H. cbn in H. unfold wf_ikey, max_height.
  destruct H as [H|[H|[H|[H|[]]]]]; inversion H; subst; cbn; lia.
Qed.
Example C22_ex_run :
  option_map s_contents (s_put_all C22_ex_puts s_new) =
  Some [ (key_with_ts [97%N] 5%N, mkVS 1%N 0%N 0%N [4%N]); (key_with_ts [98%N] 7%N, mkVS 0%N 0%N 0%N [3%N]);
         (key_with_ts [98%N] 3%N, mkVS 0%N 0%N 0%N [1%N]) ].
Proof. vm_compute. reflexivity. Qed.
(* two threads inserting the same key: the second CAS fails, nothing changes *)
Example C22_ex_conc :
  let k := key_with_ts [97%N] 5%N in
  let tr := [CAlloc _ _ k zero_vs 1; CAlloc _ _ k zero_vs 1; CStore _ _ 2 0 0; CStore _ _ 3 0 0;
             CCas _ _ head 0 0 2; CCas _ _ head 0 0 3] in
  length (s_contents (fold_left (fun s a => c_apply a s) tr s_new)) = 1.
Proof. vm_compute. reflexivity. Qed.
