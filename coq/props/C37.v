(* C37 — In-memory mode behaves like the on-disk database and touches no files.
   Statements only; proofs in B/SysModeProofs.v.  Model: B/SysMode.v (the shared system model
   `Sys` plus the InMemory flag: rejection of values above the limit, value placement, the
   persistence events of every label). *)
From Verif Require Import Bytes Keys Consts Spec Lsm Compact Iter Sys SysMode MemRoom.
From Verif Require SysModeProofs MemRoomProofs GcProofs GetProofs.
Import SysModeProofs.
Open Scope N_scope.

(* Two runs of the same call sequence — one on disk (any value threshold thrD), one in memory
   (limit thrI) — each accepted by the model of its mode, with every written value below the
   in-memory limit: every observation (Get / iterator items / Set, Delete and Commit results /
   MaxVersion / tree dump) is the same and the final observable states are equal.
   `same_call`: equal inputs, observed parts free; table ids and compaction picks are the
   implementation's choices and count as inputs (where the real pickers choose differently in
   the two modes, equality of reads is the subject of C12, not of this theorem). *)
Theorem C37_same_obs : forall thrD thrI opsD opsI mD mI,
  obs mD = obs mI -> pend_within thrI (obs mI) = true ->
  Forall2 (same_call (s_managed (obs mD))) opsD opsI -> within thrI opsD = true ->
  fst (mexec (cD thrD) mD opsD 0) = None -> fst (mexec (cI thrI) mI opsI 0) = None ->
  Forall2 same_obs opsD opsI /\
  obs (snd (mexec (cD thrD) mD opsD 0)) = obs (snd (mexec (cI thrI) mI opsI 0)).
Proof. exact same_obs_two_runs. Qed.
Print Assumptions C37_same_obs.

(* hypotheses are satisfiable: freshly opened databases, a write of 40 bytes (value log on
   disk, inline in memory) read back in both modes *)
Example C37_same_obs_ex :
  let v := repeat 7 40 in
  let ops := [Base (Begin 0 true 0); Base (Modify 0 (mkE [1] 0 0 0 0 v) 0); Base (Commit 0 1 0);
              Base (Begin 1 false 1); Base (Get 1 [1] (GFound (mkE [1] 1 0 0 0 v)))] in
  let mD := init_msys (cD 32) false true 1 4 1 in
  let mI := init_msys (cI 1024) false true 1 4 1 in
  obs mD = obs mI /\ pend_within 1024 (obs mI) = true /\ within 1024 ops = true /\
  fst (mexec (cD 32) mD ops 0) = None /\ fst (mexec (cI 1024) mI ops 0) = None /\
  m_ev (snd (mexec (cD 32) mD ops 0)) = open_events ++ [Write (FVlog 1); Write (FWal 1)].
Proof. vm_compute. repeat split; reflexivity. Qed.

(* the same label list replayed in both modes: the models stop at the same label with the
   same code, or both accept and reach the same observable state (no directory-listing
   labels: these are checked in disk mode only) *)
Theorem C37_same_obs_one_run : forall thrD thrI ops mD mI i,
  obs mD = obs mI -> pend_within thrI (obs mI) = true -> within thrI ops = true -> no_files ops = true ->
  fst (mexec (cI thrI) mI ops i) = fst (mexec (cD thrD) mD ops i) /\
  obs (snd (mexec (cI thrI) mI ops i)) = obs (snd (mexec (cD thrD) mD ops i)).
Proof. exact same_obs_one_run. Qed.
Print Assumptions C37_same_obs_one_run.

(* the guard is needed: a value of exactly the limit is accepted by Txn.modify in memory and
   panics in writeToLSM (finding F17), a longer one is rejected; both are accepted on disk *)
Theorem C37_limit_is_tight :
  let v := repeat 7 8 in
  let ops r := [Base (Begin 0 true 0); Base (Modify 0 (mkE [1] 0 0 0 0 v) r); Base (Commit 0 1 0)] in
  fst (mexec (cD 4) (init_msys (cD 4) false true 1 4 1) (ops 0) 0) = None /\
  fst (mexec (cI 8) (init_msys (cI 8) false true 1 4 1) (ops 0) 0) = Some (2, 999) /\
  fst (mexec (cI 7) (init_msys (cI 7) false true 1 4 1) (ops c_errTooBig) 0) = None /\
  fst (mexec (cI 7) (init_msys (cI 7) false true 1 4 1) (ops 0) 0) = Some (1, 1).
Proof. exact limit_is_tight. Qed.
Print Assumptions C37_limit_is_tight.

(* the in-memory model emits no persistence event, whatever the history *)
Theorem C37_no_events : forall thr ops m i,
  m_ev m = [] -> m_ev (snd (mexec (cI thr) m ops i)) = [].
Proof. exact inmem_no_events. Qed.
Print Assumptions C37_no_events.
Example C37_no_events_ex : m_ev (init_msys (cI 1024) false true 1 4 1) = [].
Proof. reflexivity. Qed.

(* ===== histories larger than one memtable (model: B/MemRoom.v, proofs: B/MemRoomProofs.v) =====
   memTable.isFull / DB.ensureRoomForWrite / arenaSize, with the byte counters the code looks
   at: r_sl = Skiplist.MemSize() of the active memtable, r_wal = its WAL's writeAt.  `vstep` is
   the function the correspondence evaluates on every commit of a real volume history
   (corr/CorrC37.v, constructor Vol); `vrun` is its iteration. *)
Import MemRoomProofs.

(* memTable.isFull as coded: in memory, full iff the skiplist holds MemTableSize bytes; on
   disk, that or the WAL has reached MemTableSize *)
Theorem C37_isfull_inmem : forall thr mts sl wal,
  is_full (mkRC (mkMC true thr) mts) sl wal = (mts <=? sl).
Proof. exact is_full_inmem. Qed.
Print Assumptions C37_isfull_inmem.
Theorem C37_isfull_disk : forall thr mts sl wal,
  is_full (mkRC (mkMC false thr) mts) sl wal = (mts <=? sl) || (mts <=? wal).
Proof. exact is_full_disk. Qed.
Print Assumptions C37_isfull_disk.

(* (i) the arena bound, with the constants of db.go arenaSize: a request that passed
   sendToWriteCh (fewer than maxBatchCount entries, estimated size below maxBatchSize), written
   after ensureRoomForWrite (MemSize() < MemTableSize: found so, or a fresh memtable) with
   tower heights <= 15, leaves MemSize() <= MemTableSize + maxBatchSize + maxBatchCount *
   MaxNodeSize — in both modes (c is any configuration) *)
Theorem C37_arena_bound : forall c r1 es hs fin cts,
  r_sl r1 < rc_mts c -> batch_ok c es fin cts = true -> heights_ok hs ->
  sl_after c r1 es hs <= rc_mts c + max_batch_size (rc_mts c) + max_batch_count (rc_mts c) * c_maxNodeSize.
Proof. exact arena_bound. Qed.
Print Assumptions C37_arena_bound.

(* hence no history, in either mode, ends in "Arena too small" (VDied 1) *)
Theorem C37_arena_never_exhausted : forall c ops r,
  sl_empty < rc_mts c -> Forall vop_heights_ok ops -> vrun c r ops <> VDied 1.
Proof. exact vrun_no_arena_death. Qed.
Print Assumptions C37_arena_never_exhausted.

(* vrun is the replay the correspondence evaluates (vexec) *)
Theorem C37_vexec_is_vrun : forall c ops r i r',
  vexec c r ops i = (None, r') <-> vrun c r ops = VOk r'.
Proof. exact vexec_vrun. Qed.
Print Assumptions C37_vexec_is_vrun.

(* the guard on the tower heights cannot be dropped: a request of 23 entries that passes
   sendToWriteCh exhausts the arena of a 16 KiB memtable when every tower has the maximal
   height 20 (randomHeight: probability 3^-19 per node) *)
Theorem C37_arena_bound_needs_heights :
  let c := mkRC (mkMC true 1024) 16384 in
  let es := map (fun i => mkE [i] 1 0 0 9223372036854775808 (repeat 7 94))
                [1; 2; 3; 4; 5; 6; 7; 8; 9; 10; 11; 12; 13; 14; 15; 16; 17; 18; 19; 20; 21; 22; 23] in
  let r1 := mkR (init_msys (rc_m c) false true 1 4 1) 16383 0 0 0 in
  batch_ok c es true 1 = true /\ r_sl r1 < rc_mts c /\
  arena_size (rc_mts c) < sl_after c r1 es (repeat 20 23).
Proof. exact arena_bound_needs_heights. Qed.
Print Assumptions C37_arena_bound_needs_heights.

(* (ii) a write request that finds MemTableSize bytes in the skiplist rotates the memtable —
   for every configuration c, InMemory included *)
Theorem C37_full_memtable_rotates : forall c r t cts res rot hs sl wal r',
  vstep c r (VCommit t cts res rot hs sl wal) = VOk r' ->
  commit_applies (m_sys (r_m r)) t cts <> [] ->
  rc_mts c <= r_sl r ->
  exists id, rot = Some id /\ r_rot r' = r_rot r + 1.
Proof. exact full_memtable_rotates. Qed.
Print Assumptions C37_full_memtable_rotates.

(* every accepted history from Open on: once the active memtable has taken MemTableSize bytes
   of values (r_since; the 107 bytes of the empty skiplist count), the next write request
   rotates it.  In particular every write sequence larger than MemTableSize rotates. *)
Theorem C37_volume_rotates : forall c managed detect nkeep nlevels next ops r t cts res rot hs sl wal r',
  vrun c (init_room c managed detect nkeep nlevels next) ops = VOk r ->
  rc_mts c <= sl_empty + r_since r ->
  commit_applies (m_sys (r_m r)) t cts <> [] ->
  vstep c r (VCommit t cts res rot hs sl wal) = VOk r' ->
  exists id, rot = Some id /\ r_rot r' = r_rot r + 1.
Proof. exact volume_rotates. Qed.
Print Assumptions C37_volume_rotates.

(* and a memtable that is not full is not rotated by a write *)
Theorem C37_not_full_not_rotated : forall c r t cts res rot hs sl wal r',
  vstep c r (VCommit t cts res rot hs sl wal) = VOk r' ->
  is_full c (r_sl r) (r_wal r) = false -> rot = None /\ r_rot r' = r_rot r.
Proof. exact not_full_not_rotated. Qed.
Print Assumptions C37_not_full_not_rotated.

(* the hypotheses are satisfiable: an InMemory history of nine commits of 200 bytes each into a
   2000-byte memtable is accepted, the ninth commit finds MemSize() = 2019 and rotates *)
Definition C37_vol_ex_ops : list vop :=
  flat_map (fun i => [VX (Base (Begin i true i)); VX (Base (Modify i (mkE [1] 0 0 0 0 (repeat 7 200)) 0));
                      VCommit i (i + 1) 0 (if i =? 8 then Some 5 else None) [1]
                              (if i =? 8 then 346 else 107 + 239 * (i + 1)) 0])
           [0; 1; 2; 3; 4; 5; 6; 7; 8].
Example C37_volume_ex :
  let c := mkRC (mkMC true 1024) 2000 in
  (match vrun c (init_room c false true 1 4 1) C37_vol_ex_ops with
   | VOk r => (r_rot r =? 1) && (r_sl r =? 346) && (match m_ev (r_m r) with [] => true | _ => false end)
              && (length (nth 0 (l_levels (s_db (m_sys (r_m r)))) []) =? 1)%nat
   | _ => false
   end) = true /\ sl_empty < rc_mts c /\ Forall vop_heights_ok C37_vol_ex_ops.
Proof.
  split; [vm_compute; reflexivity|]. split; [reflexivity|].
  unfold C37_vol_ex_ops. cbn [flat_map app]. repeat constructor; cbn; lia.
Qed.

(* (iii) reads do not depend on where the rotations happen.  A VCommit label acts on the tree
   as room_db: the rotation (if any), then the Puts of the request ... *)
Theorem C37_vcommit_tree : forall c r t cts res rot hs sl wal r',
  vstep c r (VCommit t cts res rot hs sl wal) = VOk r' ->
  s_db (m_sys (r_m r')) = room_db (s_db (m_sys (r_m r))) (rot, commit_applies (m_sys (r_m r)) t cts).
Proof. exact vcommit_db. Qed.
Print Assumptions C37_vcommit_tree.

(* ... and two sequences of the same requests with rotations at different places (the on-disk
   run rotates on the WAL size as well, the in-memory run only on the skiplist size) leave trees
   on which every Get returns the same entry and whose merged view — what every iterator is
   computed from (Sys.txn_iterate) — is the same list *)
Theorem C37_reads_indep_of_rotations : forall d bs bs',
  GetProofs.lsm_wf d -> srcs_sorted d -> map snd bs = map snd bs' ->
  (forall k ts, db_get (write_all d bs) k ts = db_get (write_all d bs') k ts) /\
  merged (write_all d bs) = merged (write_all d bs').
Proof. exact reads_indep_of_rotations. Qed.
Print Assumptions C37_reads_indep_of_rotations.
Example C37_reads_indep_ex : forall n, GetProofs.lsm_wf (mkLsm [] [] (repeat [] n)) /\ srcs_sorted (mkLsm [] [] (repeat [] n)).
Proof. exact empty_db_ok. Qed.

(* the value of every Get after the requests: the fold of the MVCC "newest wins" rule over the
   written entries, whatever the rotations *)
Theorem C37_volume_get : forall bs d k ts, GetProofs.lsm_wf d ->
  db_get (write_all d bs) k ts = fold_left (GcProofs.win1 k ts) (concat (map snd bs)) (db_get d k ts).
Proof. exact write_all_get. Qed.
Print Assumptions C37_volume_get.
